(* C16F -- the forwarding half of C16: every route to the static entry points reaches the static entry point.
   Statements only; proofs in Forward.v.  `Facts.forwarding` is regenerated from src/interface/*.rs on every run by
   tools/extract_facts.py (one entry per method of every `impl Trait for Wrapper`). *)
From Coq Require Import String List.
From Lasso Require Import Facts Forward.
Import ListNotations.
Open Scope string_scope.
Open Scope list_scope.

(* every wrapper method forwards to the same-named method of the wrapped value, receiver passed through,
   arguments unchanged (modulo Forward.declared_exceptions) *)
Theorem C16F_forwarding_faithful : forwarding_faithful Facts.forwarding = true.
Proof. vm_compute. reflexivity. Qed.
Print Assumptions C16F_forwarding_faithful.

(* in particular: &mut T, Box<I>, &ThreadedRodeo, Rodeo and ThreadedRodeo each implement both static entry points
   of `Interner`, and each forwards to the static entry point of the same name (never to the copying one) *)
Theorem C16F_static_routes : static_routes_check Facts.forwarding = true.
Proof. vm_compute. reflexivity. Qed.
Print Assumptions C16F_static_routes.

(* hence through EVERY stack of wrappers (any depth: &mut Box<&mut Box<dyn Interner>> ..) a call of a static
   entry point arrives at the static entry point of the same name *)
Theorem C16F_static_via_any_stack : forall stack,
  run_via stack Facts.forwarding Interner "get_or_intern_static" = "get_or_intern_static" /\
  run_via stack Facts.forwarding Interner "try_get_or_intern_static" = "try_get_or_intern_static".
Proof.
  exact (fun stack => conj
    (run_via_exact Facts.forwarding Interner "get_or_intern_static" (@eq_refl bool true <: exact_on Facts.forwarding Interner "get_or_intern_static" = true) stack)
    (run_via_exact Facts.forwarding Interner "try_get_or_intern_static" (@eq_refl bool true <: exact_on Facts.forwarding Interner "try_get_or_intern_static" = true) stack)).
Qed.
Print Assumptions C16F_static_via_any_stack.

(* what commit 697d6b4 repaired (finding F6): with the old entry `Box<I>::try_get_or_intern_static -> try_get_or_intern`
   the table is not faithful, the static check fails, and a boxed Rodeo is driven into the copying path *)
Example C16F_legacy_refuted :
  forwarding_faithful (legacy Facts.forwarding) = false /\
  static_routes_check (legacy Facts.forwarding) = false /\
  run_via [WBox; WCont Rodeo] (legacy Facts.forwarding) Interner "try_get_or_intern_static" = "try_get_or_intern".
Proof. vm_compute. repeat split. Qed.
Print Assumptions C16F_legacy_refuted.
