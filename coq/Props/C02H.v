(* C02H — the last sentence of C02 at the level of whole histories:
     "None of this depends on the quality of the hasher supplied."

   Statements only; proofs are in HashIndep.v.

   Two parameter sets P1 = (hash1, cand1, growf1), P2 = (hash2, cand2, growf2): ANY two hash
   functions (a constant one included), any two probe relations that are at least reflexive
   (the raw-entry contract), any two re-hash schedules; the SAME key capacity [keycap].
   Coverage: ALL 29 operations of [Rodeo.op] (interning in its four flavours, get / contains,
   resolve / try_resolve / contains_key, len / is_empty, both iterators, clear, memory limits
   and usage, clone / clone_from, drop, into_reader / into_resolver, serialise, the four
   deserialisers, PartialEq, FromIterator, Extend, the two constructors) on all object kinds;
   there is no [covered_op] restriction.  The only premise on a history is [op_wf] (what the
   runner guarantees about deserialiser input and constructor capacities), the same premise as
   for the invariant theorems of WorldProofs.v.

     [C02H_run_hash_independent]  any history from the empty world gives the SAME OUTPUT LIST
                                  under P1 and under P2;
     [C02H_run_final_worlds]      and the two final worlds are equal up to the lookup tables:
                                  relation [sim], spelled out by [C02H_sim_meaning] — same object
                                  kind in every slot, string table and arena IDENTICAL (block
                                  list, bump indices, bytes, usage, limit: memory behaviour does
                                  not depend on the hasher), concurrent interners and resolvers
                                  identical; only the field [rmap] may differ;
     [C02H_step_hash_independent] the one-step version, from any two related worlds that satisfy
                                  the world invariant for their own hasher.
   Not covered here: racing threads (Conc.v); hashbrown and dashmap are modelled by their
   contract ([cand], [growf]), not verified; the ThreadedRodeo model has no hasher at all. *)
From Lasso Require Import Base Arena ArenaProofs Rodeo RodeoInv RodeoProofs ThreadedInv
  CloneSerdeProofs ThreadedProofs IterEqProofs WorldProofs HashIndep.

(* what [sim] says about a pair of corresponding slots *)
Theorem C02H_sim_meaning :
  forall (w1 w2 : world), sim w1 w2 ->
  length w1 = length w2 /\
  forall i : nat,
  match get_obj w1 i, get_obj w2 i with
  | ORodeo r1, ORodeo r2 => rstrs r1 = rstrs r2 /\ rar r1 = rar r2
  | OReader r1, OReader r2 => rstrs r1 = rstrs r2 /\ rar r1 = rar r2
  | OThreaded t1, OThreaded t2 => t1 = t2
  | OResolver s1 a1, OResolver s2 a2 => s1 = s2 /\ a1 = a2
  | ODead, ODead => True
  | _, _ => False
  end.
Proof.
  intros w1 w2 H. split; [exact (sim_length w1 w2 H)|]. intros i. exact (sim_get w1 w2 i H).
Qed.
Print Assumptions C02H_sim_meaning.

(* one operation, from two related worlds: related worlds again and the same output *)
Theorem C02H_step_hash_independent :
  forall (hash1 : str -> N) (cand1 : N -> N -> bool) (growf1 : N -> bool)
         (hash2 : str -> N) (cand2 : N -> N -> bool) (growf2 : N -> bool) (keycap : N),
  (forall h : N, cand1 h h = true) ->
  (forall h : N, cand2 h h = true) ->
  forall (w1 w2 : world) (o : op),
  WInv hash1 keycap w1 -> WInv hash2 keycap w2 -> sim w1 w2 -> op_wf keycap o ->
  let (w1', x1) := step hash1 cand1 growf1 keycap w1 o in
  let (w2', x2) := step hash2 cand2 growf2 keycap w2 o in
  sim w1' w2' /\ x1 = x2.
Proof. exact step_sim_let. Qed.
Print Assumptions C02H_step_hash_independent.

(* any history from any two related worlds *)
Theorem C02H_run_sim :
  forall (hash1 : str -> N) (cand1 : N -> N -> bool) (growf1 : N -> bool)
         (hash2 : str -> N) (cand2 : N -> N -> bool) (growf2 : N -> bool) (keycap : N),
  (forall h : N, cand1 h h = true) ->
  (forall h : N, cand2 h h = true) ->
  forall (ops : list op) (w1 w2 : world),
  WInv hash1 keycap w1 -> WInv hash2 keycap w2 -> sim w1 w2 -> Forall (op_wf keycap) ops ->
  sim (fst (run hash1 cand1 growf1 keycap w1 ops)) (fst (run hash2 cand2 growf2 keycap w2 ops)) /\
  snd (run hash1 cand1 growf1 keycap w1 ops) = snd (run hash2 cand2 growf2 keycap w2 ops).
Proof. exact run_sim. Qed.
Print Assumptions C02H_run_sim.

(* THE theorem: every history started from the empty world produces exactly the same outputs
   under any two hashers / probe relations / re-hash schedules *)
Theorem C02H_run_hash_independent :
  forall (hash1 : str -> N) (cand1 : N -> N -> bool) (growf1 : N -> bool)
         (hash2 : str -> N) (cand2 : N -> N -> bool) (growf2 : N -> bool) (keycap : N),
  (forall h : N, cand1 h h = true) ->
  (forall h : N, cand2 h h = true) ->
  forall ops : list op,
  Forall (op_wf keycap) ops ->
  snd (run hash1 cand1 growf1 keycap [] ops) = snd (run hash2 cand2 growf2 keycap [] ops).
Proof. exact run_hash_independent. Qed.
Print Assumptions C02H_run_hash_independent.

(* ... and ends in worlds that differ at most in their lookup tables *)
Theorem C02H_run_final_worlds :
  forall (hash1 : str -> N) (cand1 : N -> N -> bool) (growf1 : N -> bool)
         (hash2 : str -> N) (cand2 : N -> N -> bool) (growf2 : N -> bool) (keycap : N),
  (forall h : N, cand1 h h = true) ->
  (forall h : N, cand2 h h = true) ->
  forall ops : list op,
  Forall (op_wf keycap) ops ->
  sim (fst (run hash1 cand1 growf1 keycap [] ops)) (fst (run hash2 cand2 growf2 keycap [] ops)).
Proof. exact run_final_sim. Qed.
Print Assumptions C02H_run_final_worlds.

(* non-vacuity: a 10-operation history with keycap 5.
   Left:  every string hashes to 0, the probe compares every entry, every insert re-hashes.
   Right: hash = length of the string (so "ab", "ac", "zz", "bb" all collide), the probe looks
          only at equal hashes, the table never re-hashes.
   Interns of colliding strings, a repeat, a clone, a get of an absent (colliding) string in
   the clone, an intern into the clone, a clear of the original, more interns.  The two output
   lists are equal and are the expected ones; the lookup tables of the two final worlds really
   are different (so [sim] cannot be strengthened to equality), while string tables and memory
   usage coincide. *)
Example C02H_nonvacuous :
  let ops := [NewRodeo 4 64; Intern 0 [97;98]; Intern 0 [97;99]; Intern 0 [97;98]; Clone 0;
              Get 1 [122;122]; Intern 1 [98;98]; Clear 0; Intern 0 [97;99];
              Intern 0 [120;121;122]] in
  let run1 := run (fun _ => 0) (fun _ _ => true) (fun _ => true) 5 [] ops in
  let run2 := run (fun s => N.of_nat (length s)) N.eqb (fun _ => false) 5 [] ops in
  let tabs := map (fun o => match o with ORodeo r => rmap r | _ => [] end) in
  let mem := map (fun o => match o with ORodeo r => (rstrs r, usage (rar r)) | _ => ([], 0) end) in
  length ops = 10%nat /\
  snd run1 = snd run2 /\
  snd run2 = [ONew 0; OKey 0; OKey 1; OKey 0; ONew 1; ONone; OKey 2; OUnit; OKey 0; OKey 1] /\
  tabs (fst run1) = [[(0, 1); (0, 0)]; [(0, 2); (0, 1); (0, 0)]] /\
  tabs (fst run2) = [[(3, 1); (2, 0)]; [(2, 2); (2, 1); (2, 0)]] /\
  mem (fst run1) = mem (fst run2) /\
  mem (fst run2) = [([RArena 0 0 2; RArena 1 0 3], 12);
                    ([RArena 0 0 2; RArena 0 2 2; RArena 1 0 2], 12)].
Proof. vm_compute. repeat split. Qed.
Print Assumptions C02H_nonvacuous.

(* the history of the example is well-formed, so the theorem applies to it (and to the same
   history under every other pair of hashers) *)
Example C02H_nonvacuous_premise :
  Forall (op_wf 5)
    [NewRodeo 4 64; Intern 0 [97;98]; Intern 0 [97;99]; Intern 0 [97;98]; Clone 0;
     Get 1 [122;122]; Intern 1 [98;98]; Clear 0; Intern 0 [97;99]; Intern 0 [120;121;122]].
Proof. repeat constructor. Qed.
Print Assumptions C02H_nonvacuous_premise.
