(* C06B — Bridge: the separately proved pieces fit together (supports C06 / C10 / C14 / C17 / C18 and the
   use of the sequential ThreadedRodeo model inside [Rodeo.step]).

   A. "from the concurrent interner": the concurrent model (Conc.v) at quiescence IS a well-formed sequential
      ThreadedRodeo.  [trodeo_of c] forgets the threads, the lock table and the ghost strings of a concurrent
      state; whenever no call is in flight it satisfies the sequential invariant [TInv] with the content the
      key -> string map holds ([C06B_quiescent_is_TInv]).  Hence every sequential theorem whose premise is
      [TInv] / [obj_inv] (views, serialisation, equality, iteration: C06, C10, C14, C18) applies to an interner
      that was populated by any number of threads under any schedule ([C06B_quiescent_into_reader],
      [C06B_quiescent_into_resolver], [C06B_quiescent_obj_inv]).
   B. one thread running a call alone from a quiescent state performs exactly the sequential model's call, field
      for field: same answer, same two maps, same counter, same arena including the block identities
      ([C06B_solo_call]; the 100-try budget of try_inc_length is never consumed by a solo thread and no other
      corner differs).  With A: from any reachable quiescent state, and the result is reachable, quiescent and
      well-formed again ([C06B_solo_call_from_init]).
   C. the key-ordered listing of a ThreadedRodeo is the enumerated content: iteration, strings() and the
      serialiser yield every (key, string) pair exactly once, in key order ([C06B_threaded_listing],
      [C06B_threaded_iter], [C06B_threaded_ser]); serialising and deserialising gives a ThreadedRodeo with the
      same content whose counter is the number of strings ([C06B_threaded_roundtrip]).
   D. Extend is the loop of get_or_intern over the iterator, stopped by the first panic; FromIterator is Extend
      into a fresh interner ([C06B_extend_is_intern_loop], [C06B_from_iter_is_extend]).
   Statements only; proofs in Bridge.v. *)
From Lasso Require Import Base Arena ArenaProofs Rodeo RodeoInv ThreadedInv IterEqProofs WorldProofs
  Conc ConcInv ConcArenaProofs ConcInternProofs Bridge.

(* ---------------------------------------------------------------- A *)

Theorem C06B_quiescent_is_TInv :
  forall (shard_of : str -> N) (keycap cap lim : N) (progs : list (list call)),
  0 < cap ->
  forall c : cstate,
  reachable shard_of keycap (init cap lim progs) c -> quiescent c ->
  exists cs : list str,
    TInv keycap (trodeo_of c) cs /\
    (forall (k : N) (s : str),
       nth_error cs (N.to_nat k) = Some s <->
       exists e : entry, In e (c_strs c) /\ e_key e = k /\ e_str e = s).
Proof. exact quiescent_is_TInv. Qed.
Print Assumptions C06B_quiescent_is_TInv.

(* the same on the two invariants (any state satisfying them, reachable or not) *)
Theorem C06B_quiescent_TInv :
  forall (shard_of : str -> N) (keycap : N) (c : cstate),
  AInv c -> JInv' shard_of keycap c -> quiescent c ->
  exists cs : list str,
    TInv keycap (trodeo_of c) cs /\
    (forall (k : N) (s : str),
       nth_error cs (N.to_nat k) = Some s <->
       exists e : entry, In e (c_strs c) /\ e_key e = k /\ e_str e = s).
Proof. exact quiescent_TInv. Qed.
Print Assumptions C06B_quiescent_TInv.

Theorem C06B_quiescent_into_reader :
  forall (shard_of : str -> N) (keycap cap lim : N) (progs : list (list call)),
  0 < cap ->
  forall (hash : str -> N) (cand : N -> N -> bool) (growf : N -> bool) (c : cstate),
  reachable shard_of keycap (init cap lim progs) c -> quiescent c ->
  exists (cs : list str) (r : rodeo),
    TInv keycap (trodeo_of c) cs /\
    t_into_reader hash cand growf (trodeo_of c) = Some r /\ RodeoInv hash keycap r cs /\
    rar r = as_arena c /\ t_strings (trodeo_of c) = Some (rstrs r).
Proof. exact quiescent_into_reader. Qed.
Print Assumptions C06B_quiescent_into_reader.

Theorem C06B_quiescent_into_resolver :
  forall (shard_of : str -> N) (keycap cap lim : N) (progs : list (list call)),
  0 < cap ->
  forall c : cstate,
  reachable shard_of keycap (init cap lim progs) c -> quiescent c ->
  exists (cs : list str) (refs : list sref),
    TInv keycap (trodeo_of c) cs /\
    t_strings (trodeo_of c) = Some refs /\ strs_ok refs (as_arena c) cs.
Proof. exact quiescent_strings. Qed.
Print Assumptions C06B_quiescent_into_resolver.

Theorem C06B_quiescent_obj_inv :
  forall (shard_of : str -> N) (keycap cap lim : N) (progs : list (list call)),
  0 < cap ->
  forall (hash : str -> N) (c : cstate),
  reachable shard_of keycap (init cap lim progs) c -> quiescent c ->
  exists cs : list str, obj_inv hash keycap (OThreaded (trodeo_of c)) cs.
Proof. exact quiescent_obj_inv. Qed.
Print Assumptions C06B_quiescent_obj_inv.

(* ---------------------------------------------------------------- B *)

(* [seq_call] is the ThreadedRodeo case of [Rodeo.step] for the six calls of the concurrent vocabulary *)
Theorem C06B_seq_call_is_step :
  forall (hash : str -> N) (cand : N -> N -> bool) (growf : N -> bool) (keycap : N)
         (w : world) (i : nat) (t : trodeo),
  get_obj w i = OThreaded t ->
  (forall s, Rodeo.step hash cand growf keycap w (Intern i s) =
             (set_obj w i (OThreaded (fst (seq_call keycap t (CIntern s)))),
              match snd (seq_call keycap t (CIntern s)) with ROk k => OKey k | RErr e => OErr e | _ => OFault end)) /\
  (forall a s, Rodeo.step hash cand growf keycap w (InternStatic i a s) =
             (set_obj w i (OThreaded (fst (seq_call keycap t (CInternStatic a s)))),
              match snd (seq_call keycap t (CInternStatic a s)) with ROk k => OKey k | RErr e => OErr e | _ => OFault end)) /\
  (forall s, Rodeo.step hash cand growf keycap w (Get i s) =
             (w, match snd (seq_call keycap t (CGet s)) with ROk k => OKey k | _ => ONone end)) /\
  (forall k, Rodeo.step hash cand growf keycap w (TryResolve i k) =
             (w, match snd (seq_call keycap t (CResolve k)) with RStr s => OStr s | _ => ONone end)) /\
  (forall m, Rodeo.step hash cand growf keycap w (SetLimit i m) =
             (set_obj w i (OThreaded (fst (seq_call keycap t (CSetLimit m)))), OUnit)) /\
  Rodeo.step hash cand growf keycap w (CurMem i) =
    (w, match snd (seq_call keycap t CUsage) with RNum n => ONum n | _ => OFault end).
Proof.
  intros hash cand growf keycap w i t E. cbn [Rodeo.step seq_call]. rewrite E.
  split; [|split; [|split; [|split; [|split]]]].
  - intros s. destruct (t_intern keycap t s) as (t' & [k|e]); reflexivity.
  - intros a s. destruct (t_intern_static keycap t a s) as (t' & [k|e]); reflexivity.
  - intros s. cbn [snd]. destruct (t_get t s); reflexivity.
  - intros k. cbn [snd]. destruct (t_resolve t k); reflexivity.
  - reflexivity.
  - reflexivity.
Qed.
Print Assumptions C06B_seq_call_is_step.

Theorem C06B_solo_call :
  forall (shard_of : str -> N) (keycap : N) (c : cstate) (tid : nat) (t : thread) (cl : call) (rest : list call),
  NoDup (map bid (c_blocks c)) -> c_locks c = [] -> quiescent c ->
  nth_error (c_threads c) tid = Some t -> t_prog t = cl :: rest ->
  exists n : nat, forall fuel : nat, (n <= fuel)%nat ->
    let c' := run_solo shard_of keycap c tid fuel in
    let TR := seq_call keycap (trodeo_of c) cl in
    quiescent c' /\
    trodeo_of c' = fst TR /\
    c_threads c' = set_nth tid (mkThread PIdle cl rest ((cl, snd TR) :: t_outs t)) (c_threads c) /\
    c_locks c' = [] /\
    ((c_map c' = c_map c /\ c_strs c' = c_strs c) \/
     (exists r s k, call_str cl = Some s /\ snd TR = ROk k /\ c_map c' = c_map c ++ [mkEntry r s k] /\
                    c_strs c' = strs_put (mkEntry r s k) (c_strs c))).
Proof. exact solo_call. Qed.
Print Assumptions C06B_solo_call.

(* the premises of [C06B_solo_call] hold in every quiescent state that satisfies the invariants *)
Theorem C06B_solo_side_conditions :
  forall (shard_of : str -> N) (keycap : N) (c : cstate),
  AInv c -> JInv shard_of keycap c -> quiescent c ->
  NoDup (map bid (c_blocks c)) /\ c_locks c = [].
Proof. exact quiescent_side_conditions. Qed.
Print Assumptions C06B_solo_side_conditions.

Theorem C06B_solo_call_from_init :
  forall (shard_of : str -> N) (keycap cap lim : N) (progs : list (list call))
         (c : cstate) (tid : nat) (t : thread) (cl : call) (rest : list call),
  0 < cap -> reachable shard_of keycap (init cap lim progs) c -> quiescent c ->
  nth_error (c_threads c) tid = Some t -> t_prog t = cl :: rest ->
  exists n : nat, forall fuel : nat, (n <= fuel)%nat ->
    let c' := run_solo shard_of keycap c tid fuel in
    let TR := seq_call keycap (trodeo_of c) cl in
    reachable shard_of keycap (init cap lim progs) c' /\ quiescent c' /\
    trodeo_of c' = fst TR /\
    (exists u, nth_error (c_threads c') tid = Some u /\ t_pc u = PIdle /\ t_prog u = rest /\
               t_outs u = (cl, snd TR) :: t_outs t) /\
    (exists cs cs', TInv keycap (trodeo_of c) cs /\ TInv keycap (fst TR) cs').
Proof. exact solo_call_from_init. Qed.
Print Assumptions C06B_solo_call_from_init.

(* ---------------------------------------------------------------- C *)

Theorem C06B_threaded_listing :
  forall (keycap : N) (t : trodeo) (cs : list str),
  TInv keycap t cs -> obj_pairs (OThreaded t) = Some (enumerate cs).
Proof. exact t_pairs_enumerate. Qed.
Print Assumptions C06B_threaded_listing.

Theorem C06B_threaded_iter :
  forall (hash : str -> N) (cand : N -> N -> bool) (growf : N -> bool) (keycap : N)
         (w : world) (i : nat) (plan : list iop) (t : trodeo) (cs : list str),
  obj_inv hash keycap (get_obj w i) cs -> get_obj w i = OThreaded t ->
  Rodeo.step hash cand growf keycap w (IterOp i plan) = (w, OItems (map it_of (enumerate cs))) /\
  Rodeo.step hash cand growf keycap w (StringsOp i plan) = (w, OItems (map it_of (enumerate cs))).
Proof. exact step_iter_threaded. Qed.
Print Assumptions C06B_threaded_iter.

Theorem C06B_threaded_ser :
  forall (hash : str -> N) (cand : N -> N -> bool) (growf : N -> bool) (keycap : N)
         (w : world) (i : nat) (t : trodeo) (cs : list str),
  obj_inv hash keycap (get_obj w i) cs -> get_obj w i = OThreaded t ->
  Rodeo.step hash cand growf keycap w (Ser i) =
  (w, ODoc (DMap (map (fun p : N * str => (snd p, fst p)) (enumerate cs)))).
Proof. exact step_ser_threaded. Qed.
Print Assumptions C06B_threaded_ser.

Theorem C06B_threaded_roundtrip :
  forall (keycap : N) (t : trodeo) (cs : list str),
  TInv keycap t cs ->
  exists t' : trodeo,
    de_threaded (map (fun p : N * str => (snd p, fst p)) (enumerate cs)) = DOk trodeo t' /\
    TInv keycap t' cs /\ tkey t' = N.of_nat (length cs).
Proof. exact C14_roundtrip_threaded. Qed.
Print Assumptions C06B_threaded_roundtrip.

(* ---------------------------------------------------------------- D *)

Theorem C06B_extend_is_intern_loop :
  forall (hash : str -> N) (cand : N -> N -> bool) (growf : N -> bool) (keycap : N)
         (w : world) (i : nat) (l : list str),
  (exists r, get_obj w i = ORodeo r) \/ (exists t, get_obj w i = OThreaded t) ->
  (* the prefix of [l] up to and including the first string whose get_or_intern panics *)
  let l' := extend_prefix hash cand growf keycap w i l in
  let res := Rodeo.run hash cand growf keycap w (map (InternP i) l') in
  fst (Rodeo.step hash cand growf keycap w (Extend i l)) = fst res /\
  (snd (Rodeo.step hash cand growf keycap w (Extend i l)) = OUnit <-> ~ In OPanic (snd res)) /\
  (snd (Rodeo.step hash cand growf keycap w (Extend i l)) = OPanic <-> In OPanic (snd res)) /\
  (snd (Rodeo.step hash cand growf keycap w (Extend i l)) = OUnit -> l' = l) /\
  (exists rest, l = l' ++ rest).
Proof. exact step_extend_is_intern_loop. Qed.
Print Assumptions C06B_extend_is_intern_loop.

(* [extend_prefix], spelled out *)
Theorem C06B_extend_prefix_def :
  forall (hash : str -> N) (cand : N -> N -> bool) (growf : N -> bool) (keycap : N) (w : world) (i : nat),
  extend_prefix hash cand growf keycap w i [] = [] /\
  forall s rest,
    extend_prefix hash cand growf keycap w i (s :: rest) =
    match snd (Rodeo.step hash cand growf keycap w (InternP i s)) with
    | OPanic => [s]
    | _ => s :: extend_prefix hash cand growf keycap (fst (Rodeo.step hash cand growf keycap w (InternP i s))) i rest
    end.
Proof.
  intros. split; [reflexivity|]. intros s rest. cbn [extend_prefix].
  destruct (snd (Rodeo.step hash cand growf keycap w (InternP i s))); reflexivity.
Qed.
Print Assumptions C06B_extend_prefix_def.

Theorem C06B_from_iter_is_extend :
  forall (hash : str -> N) (cand : N -> N -> bool) (growf : N -> bool) (keycap : N)
         (w : world) (threaded : bool) (l : list str),
  let fresh := if threaded then OThreaded (trodeo_new default_bytes usize_max)
               else ORodeo (rodeo_new default_bytes usize_max) in
  let ext := Rodeo.step hash cand growf keycap (w ++ [fresh]) (Extend (length w) l) in
  ((exists r, get_obj (w ++ [fresh]) (length w) = ORodeo r) \/
   (exists t, get_obj (w ++ [fresh]) (length w) = OThreaded t)) /\
  (snd ext = OUnit ->
   Rodeo.step hash cand growf keycap w (FromIter threaded l) = (fst ext, ONew (N.of_nat (length w)))) /\
  (snd ext <> OUnit -> Rodeo.step hash cand growf keycap w (FromIter threaded l) = (w, OPanic)).
Proof. exact step_from_iter_is_extend. Qed.
Print Assumptions C06B_from_iter_is_extend.

(* ---------------------------------------------------------------- non-vacuity *)

Definition ex_shard (s : str) : N := match s with x :: _ => x | [] => 0 end.

(* three threads, interleaved with spurious compare-exchange failures of thread 1, intern overlapping strings
   (and the empty one); at the end no call is in flight, and the state read as a sequential ThreadedRodeo converts
   into a reader that answers get / resolve for exactly the strings the threads were answered keys for *)
Example C06B_nonvacuous :
  let c0 := init 8 100 [[CIntern [97;97;97]; CIntern [98;98;98]];
                        [CIntern [98;98;98]; CIntern [99;99;99]];
                        [CIntern [99;99;99]; CIntern []; CGet [97;97;97]]] in
  let c := run_sched_gen ex_shard 10 true c0
             (concat (repeat [(0%nat, false); (1%nat, true); (2%nat, false); (1%nat, false)] 60)) in
  let h := fun s : str => hd 0 s in
  forallb (fun t => match t_pc t with PIdle => true | _ => false end) (c_threads c) = true /\
  map t_outs (c_threads c) =
    [[(CIntern [98;98;98], ROk 0); (CIntern [97;97;97], ROk 1)];
     [(CIntern [99;99;99], ROk 2); (CIntern [98;98;98], ROk 0)];
     [(CGet [97;97;97], ROk 1); (CIntern [], ROk 3); (CIntern [99;99;99], ROk 2)]] /\
  match t_into_reader h N.eqb (fun _ => false) (trodeo_of c) with
  | Some r =>
      map (r_get h N.eqb r) [[97;97;97]; [98;98;98]; [99;99;99]; []; [100]] =
        [Some 1; Some 0; Some 2; Some 3; None] /\
      map (strs_resolve (rstrs r) (rar r)) [0; 1; 2; 3; 4] =
        [Some [98;98;98]; Some [97;97;97]; Some [99;99;99]; Some []; None]
  | None => False
  end /\
  obj_pairs (OThreaded (trodeo_of c)) =
    Some [(0, [98;98;98]); (1, [97;97;97]); (2, [99;99;99]); (3, [])].
Proof. vm_compute. repeat split. Qed.
Print Assumptions C06B_nonvacuous.

(* a thread running alone computes the sequential model's call: first-fit hit, a new doubled block, the key
   space exhausted after the store (keycap = 2), and the fast path, in one serial run *)
Example C06B_nonvacuous_solo :
  let c0 := init 8 100 [[CIntern [97;97;97]; CIntern [97;97;97]]; [CIntern [98;98;98;98;98;98]]; [CIntern [99]]] in
  let c1 := run_solo ex_shard 2 c0 0 40 in
  let c2 := run_solo ex_shard 2 c1 1 40 in
  let c3 := run_solo ex_shard 2 c2 2 40 in
  let c4 := run_solo ex_shard 2 c3 0 40 in
  trodeo_of c1 = fst (t_intern 2 (trodeo_of c0) [97;97;97]) /\
  trodeo_of c2 = fst (t_intern 2 (trodeo_of c1) [98;98;98;98;98;98]) /\
  trodeo_of c3 = fst (t_intern 2 (trodeo_of c2) [99]) /\
  trodeo_of c4 = fst (t_intern 2 (trodeo_of c3) [97;97;97]) /\
  map t_outs (c_threads c4) =
    [[(CIntern [97;97;97], ROk 0); (CIntern [97;97;97], ROk 0)];
     [(CIntern [98;98;98;98;98;98], ROk 1)];
     [(CIntern [99], RErr KeySpaceExhaustion)]] /\
  map (fun b => (bid b, bcap b, bused b)) (c_blocks c4) = [(1, 16, 7); (0, 8, 3)] /\ c_key c4 = 3.
Proof. vm_compute. repeat split. Qed.
Print Assumptions C06B_nonvacuous_solo.
