(* C09 — The memory limit also holds when threads intern concurrently.
   "For every schedule of threads interning into one concurrent interner under a memory limit, the reported memory
    usage never exceeds the limit at any point that any thread can observe, and at quiescence it equals the bytes of
    storage blocks actually held."
   For every number of threads, program, schedule and spurious compare-exchange failure.  With the limit fixed during
   the concurrent phase ([C09_cap_fixed_limit]: no thread's program contains set_memory_limits) the statement is the
   property's own; with limit changes racing only the per-grant fact [C09_grant_admissible_partial] holds — with two
   separate atomics (usage, limit) no implementation can promise more (DESIGN.md section 9).  Statements only; proofs
   in ConcArenaProofs.v / ConcTheorems.v.  [C09_legacy_refuted] pins the defect repaired by the `fix:` commit 860ffb6
   (F2): the unrepaired check-then-add lets two threads pass the check together. *)
From Lasso Require Import Base Arena Conc ConcInv ConcArenaProofs ConcTheorems.

Theorem C09_cap_fixed_limit :
  forall (shard_of : str -> N) (keycap cap lim : N) (progs : list (list call)),
    0 < cap ->
    forall c, Forall (Forall (fun cl => forall m, cl <> CSetLimit m)) progs ->
    reachable shard_of keycap (init cap lim progs) c ->
    c_limit c = lim /\ c_usage c <= N.max cap lim.
Proof. intros sh kc cap lim progs _. exact (conc_usage_capped sh kc cap lim progs). Qed.
Print Assumptions C09_cap_fixed_limit.

Theorem C09_cap_from_any_state :
  forall (shard_of : str -> N) (keycap : N) (c0 c : cstate),
    no_setlimit c0 -> reachable shard_of keycap c0 c ->
    c_limit c = c_limit c0 /\ c_usage c <= N.max (c_usage c0) (c_limit c0).
Proof. exact C09_cap. Qed.
Print Assumptions C09_cap_from_any_state.

Theorem C09_exact_at_quiescence :
  forall (shard_of : str -> N) (keycap cap lim : N) (progs : list (list call)),
    0 < cap ->
    forall c, reachable shard_of keycap (init cap lim progs) c -> quiescent c ->
    c_usage c = sum_N (map bcap (c_blocks c)).
Proof. exact conc_accounting_quiescent. Qed.
Print Assumptions C09_exact_at_quiescence.

(* in flight: usage = capacity of the published blocks + budget granted for blocks not yet published *)
Theorem C09_exact_in_flight :
  forall (shard_of : str -> N) (keycap cap lim : N) (progs : list (list call)) (c : cstate),
    0 < cap -> reachable shard_of keycap (init cap lim progs) c ->
    c_usage c = sum_N (map bcap (c_blocks c)) + sum_N (map inflight_cap (c_threads c)).
Proof. intros sh kc cap lim progs c H R. exact (ai_usage c (reachable_AInv sh kc cap lim progs c H R)). Qed.
Print Assumptions C09_exact_in_flight.

Theorem C09_grant_admissible_partial :
  forall (shard_of : str -> N) (keycap : N) (c : cstate) (tid : nat) (ch : bool) (c' : cstate),
    step shard_of keycap c tid ch = Some c' -> c_usage c < c_usage c' -> c_usage c' <= c_limit c.
Proof. exact ConcArenaProofs.C09_grant_admissible_partial. Qed.
Print Assumptions C09_grant_admissible_partial.

Example C09_legacy_refuted :
  (let c := run_sched_gen ex_sh 4294967295 false ex_c0 ex_sched in
   c_usage c = 5 /\ c_limit c = 4 /\ c_limit c < c_usage c) /\
  (let c := run_sched_gen ex_sh 4294967295 true ex_c0 ex_sched in
   c_usage c = 3 /\ c_limit c = 4).
Proof. exact ConcArenaProofs.C09_legacy_refuted. Qed.
Print Assumptions C09_legacy_refuted.

(* non-vacuity: four threads, 1-byte blocks, limit 6: two calls are refused, usage stays within the limit *)
Example C09_nonvacuous :
  let sh (s : str) : N := match s with x :: _ => x | [] => 0 end in
  let c0 := init 1 6 [[CIntern [97;97]]; [CIntern [98;98]]; [CIntern [99;99]]; [CIntern [100;100]; CUsage]] in
  let c := run_sched_gen sh 10 true c0 (concat (repeat [(0%nat, false); (1%nat, false); (2%nat, false); (3%nat, false)] 60)) in
  c_usage c <= 6 /\ c_usage c = sum_N (map bcap (c_blocks c)) /\
  existsb (fun t => existsb (fun o => match snd o with RErr MemoryLimitReached => true | _ => false end) (t_outs t)) (c_threads c) = true.
Proof. vm_compute. split; [discriminate|split; reflexivity]. Qed.
Print Assumptions C09_nonvacuous.
