(* C05 — Concurrent storage integrity: exclusive regions, no torn strings, no data race.
   "Under every schedule of concurrent interning, the bytes of each string are written into a region reserved
    exclusively for it: regions handed to different calls never overlap, no string is ever observed torn or altered
    afterwards, no storage block is lost from the arena, and every internal memory access is ordered by
    synchronisation (there is no data race in the language's memory model)."
   Covered here, for every number of threads, program, schedule and spurious compare-exchange failure: exclusivity and
   containment of every owned byte range ([regions]: ranges of stored strings, ranges reserved but not yet written,
   ranges copied but whose key is not yet stored, ranges inside unpublished blocks), no tearing (every entry of the
   key -> string map reads back exactly the string it was inserted for, in every reachable state, and a step never
   changes those bytes), no lost block (the list only grows at its head).  NOT covered by these theorems: the data-race
   clause — the model is sequentially consistent at the granularity of the lasso_verif points; see Props/C05R.v for the
   release/acquire part.  Statements only; proofs in ConcArenaProofs.v. *)
From Lasso Require Import Base Arena Conc ConcInv ConcArenaProofs.

Theorem C05_exclusive_regions :
  forall (shard_of : str -> N) (keycap cap lim : N) (progs : list (list call)) (c : cstate),
    0 < cap -> reachable shard_of keycap (init cap lim progs) c ->
    ForallOrdPairs region_disjoint (regions c) /\ Forall (region_ok c) (regions c).
Proof. exact C05_exclusive. Qed.
Print Assumptions C05_exclusive_regions.

Theorem C05_no_torn_string :
  forall (shard_of : str -> N) (keycap cap lim : N) (progs : list (list call)) (c : cstate),
    0 < cap -> reachable shard_of keycap (init cap lim progs) c ->
    forall e, In e (c_strs c) -> read (as_arena c) (e_ref e) = Some (e_str e).
Proof. exact C05_no_tear. Qed.
Print Assumptions C05_no_torn_string.

Theorem C05_bytes_never_altered :
  forall (shard_of : str -> N) (keycap : N) (c : cstate) (tid : nat) (ch : bool) (c' : cstate),
    AInv' c -> step shard_of keycap c tid ch = Some c' ->
    forall e, In e (c_strs c) -> read (as_arena c') (e_ref e) = read (as_arena c) (e_ref e).
Proof. exact step_keeps_bytes. Qed.
Print Assumptions C05_bytes_never_altered.

Theorem C05_invariant_everywhere :
  forall (shard_of : str -> N) (keycap : N) (c0 c : cstate),
    AInv' c0 -> reachable shard_of keycap c0 c -> AInv' c.
Proof. exact reachable_AInv'. Qed.
Print Assumptions C05_invariant_everywhere.

Theorem C05_no_lost_block :
  forall (shard_of : str -> N) (keycap : N) (c : cstate) (tid : nat) (ch : bool) (c' : cstate),
    step shard_of keycap c tid ch = Some c' ->
    exists pre, (length pre <= 1)%nat /\
      map bid (c_blocks c') = map bid pre ++ map bid (c_blocks c) /\
      map bcap (c_blocks c') = map bcap pre ++ map bcap (c_blocks c).
Proof. exact ConcArenaProofs.C05_no_lost_block. Qed.
Print Assumptions C05_no_lost_block.

(* non-vacuity: three threads store into the same 8-byte block in lock-step (compare-exchange retries happen),
   a fourth string needs a new block *)
Example C05_nonvacuous :
  let sh (s : str) : N := match s with x :: _ => x | [] => 0 end in
  let c0 := init 8 100 [[CIntern [97;97;97]]; [CIntern [98;98;98]]; [CIntern [99;99;99]]] in
  let c := run_sched_gen sh 10 true c0 (concat (repeat [(0%nat, false); (1%nat, false); (2%nat, false)] 40)) in
  map (fun e => (e_key e, e_ref e)) (c_strs c) = [(0, RArena 0 0 3); (1, RArena 0 3 3); (2, RArena 1 0 3)] /\
  map (fun b => (bid b, bcap b, bused b)) (c_blocks c) = [(1, 16, 3); (0, 8, 6)] /\ c_usage c = 24.
Proof. vm_compute. repeat split; reflexivity. Qed.
Print Assumptions C05_nonvacuous.
