(* C15 — Deserialising arbitrary documents is safe: consistent object or an error.

   "Feeding any document of the right shape to an interner's, reader's or resolver's
    deserialiser either fails with an error or produces an object on which every safe call is
    well-defined and self-consistent: each key it reports resolves to one string, each string
    it contains is found under a key that resolves back to it, and conversions to views do
    not fault."

   Statements only; proofs are in CloneSerdeProofs.v, ThreadedProofs.v, WorldProofs.v.  For
   EVERY list of strings [C15_de_rodeo] (Rodeo and RodeoReader share the code): the result is an
   object satisfying the full invariant with content exactly the document, or the error
   (exactly when the list has a repeated string: the F5 repair), or the documented panic (only
   when the list holds more distinct strings than the key type has keys).  [C15_de_resolver]:
   a resolver always succeeds, with valid disjoint references reading as the document.
   [C15_de_threaded]: for every string -> key map (as handed over by the parser: no repeated
   string, keys within the key type — [op_wf]) the result is the error exactly when the keys
   are not a permutation of 0..n-1 (gaps, keys far above the count: the F4 repair), and
   otherwise an object satisfying [TInv] whose content is the document and whose key counter
   is n (the F3 repair); it never panics.  "Every safe call is well-defined" is then
   [C15_de_step] + the theorems of C01/C02/C04/C10, which hold for every world satisfying
   [WInv]; views: [C15_views_total].  The unrepaired deserialisers are refuted below.
   Not covered: the JSON parser itself and serde's handling of repeated JSON keys (modelled
   by contract: the model receives the parsed list / map). *)
From Lasso Require Import Base Arena ArenaProofs Rodeo RodeoInv RodeoProofs ThreadedInv
  CloneSerdeProofs ThreadedProofs IterEqProofs WorldProofs.
From Coq Require Import Permutation.

(* Deserialize for Rodeo / RodeoReader, ANY list of strings *)
Theorem C15_de_rodeo :
  forall (hash : str -> N) (cand : N -> N -> bool) (growf : N -> bool) (keycap : N),
  (forall h : N, cand h h = true) ->
  forall l : list str,
  match de_rodeo hash cand growf keycap l with
  | DOk _ r =>
      RodeoInv hash keycap r l /\ NoDup l /\
      limit (rar r) = usize_max /\ usage (rar r) = doc_bytes l /\ length (blocks (rar r)) = 1%nat
  | DErr _ => ~ NoDup l
  | DPanic _ =>
      exists pre post : list str, l = pre ++ post /\ NoDup pre /\ keycap < N.of_nat (length pre)
  end.
Proof. exact de_rodeo_spec. Qed.
Print Assumptions C15_de_rodeo.

Theorem C15_de_rodeo_panics_only_beyond_keycap :
  forall (hash : str -> N) (cand : N -> N -> bool) (growf : N -> bool) (keycap : N),
  (forall h : N, cand h h = true) ->
  forall l : list str,
  de_rodeo hash cand growf keycap l = DPanic rodeo -> keycap < N.of_nat (length l).
Proof. exact de_rodeo_panic_keys. Qed.
Print Assumptions C15_de_rodeo_panics_only_beyond_keycap.

(* Deserialize for RodeoResolver, ANY list of strings (repeats allowed: a resolver has no
   string -> key direction) *)
Theorem C15_de_resolver :
  forall l : list str,
  exists (strs : list sref) (a : arena),
    de_resolver l = DOk (list sref * arena) (strs, a) /\
    ArenaInv a /\
    Forall (ref_ok a) strs /\
    ForallOrdPairs refs_disjoint strs /\
    contents strs a = Some l /\
    limit a = usize_max /\ usage a = doc_bytes l /\ length (blocks a) = 1%nat.
Proof. exact de_resolver_spec. Qed.
Print Assumptions C15_de_resolver.

(* Deserialize for ThreadedRodeo, ANY string -> key map the parser can hand over *)
Theorem C15_de_threaded :
  forall (keycap : N) (l : list (str * N)),
  NoDup (map fst l) ->
  (forall (s : str) (k : N), In (s, k) l -> k < keycap) ->
  (de_threaded l = DErr trodeo <-> keys_dense l (repeat false (length l)) = false) /\
  (keys_dense l (repeat false (length l)) = true ->
   exists (t : trodeo) (cs : list str),
     de_threaded l = DOk trodeo t /\
     TInv keycap t cs /\
     length cs = length l /\
     (forall (s : str) (k : N), nth_error cs (N.to_nat k) = Some s <-> In (s, k) l) /\
     tkey t = N.of_nat (length l)) /\
  de_threaded l <> DPanic trodeo.
Proof. exact de_threaded_spec. Qed.
Print Assumptions C15_de_threaded.

(* what the key check accepts: exactly the maps whose keys are 0 .. n-1 in some order *)
Theorem C15_dense_keys_iff_permutation :
  forall l : list (str * N),
  keys_dense l (repeat false (length l)) = true <->
  Permutation (map snd l) (map N.of_nat (seq 0 (length l))).
Proof. exact keys_dense_perm_iff. Qed.
Print Assumptions C15_dense_keys_iff_permutation.

(* in a world: deserialising any document into any of the four container types keeps the
   invariant of the world (so everything proved for worlds satisfying WInv applies to the new
   object: C01, C02, C04, C07, C10) and does not fault; wrong shapes are serde type errors *)
Theorem C15_de_step :
  forall (hash : str -> N) (cand : N -> N -> bool) (growf : N -> bool) (keycap : N),
  (forall h : N, cand h h = true) ->
  forall (w : world) (k : dkind) (d : doc),
  WInv hash keycap w ->
  op_wf keycap (De k d) ->
  WInv hash keycap (fst (step hash cand growf keycap w (De k d))) /\
  snd (step hash cand growf keycap w (De k d)) <> OFault.
Proof.
  intros hash cand growf keycap C w k d HW Hwf.
  exact (conj (step_inv hash cand growf keycap C w (De k d) HW Hwf)
              (never_faults hash cand growf keycap C w (De k d) HW Hwf)).
Qed.
Print Assumptions C15_de_step.

(* conversions to views of a ThreadedRodeo satisfying the invariant do not fault, and the
   views have the same content *)
Theorem C15_views_total :
  forall (hash : str -> N) (cand : N -> N -> bool) (growf : N -> bool) (keycap : N)
         (t : trodeo) (cs : list str),
  TInv keycap t cs ->
  exists r : rodeo,
    t_into_reader hash cand growf t = Some r /\
    RodeoInv hash keycap r cs /\ rar r = tar t /\ t_strings t = Some (rstrs r).
Proof. exact t_into_reader_inv. Qed.
Print Assumptions C15_views_total.

(* ---- the repaired defects ---- *)

(* F5, unrepaired Deserialize for Rodeo (a repeated string is skipped but the position counter
   still advances): for ["a","a","b"] it returns an object whose table files key 2 while the
   string table has 2 entries — a lookup through that entry indexes out of bounds *)
Example C15_legacy_list_refuted :
  match de_rodeo_legacy (fun _ => 0) (fun _ _ => true) (fun _ => false) 4294967295
                        [[97];[97];[98]] with
  | DOk _ r => existsb (fun e => N.of_nat (length (rstrs r)) <=? snd e) (rmap r)
  | _ => false
  end = true.
Proof. exact de_rodeo_legacy_refuted. Qed.
Print Assumptions C15_legacy_list_refuted.

Example C15_legacy_list_no_invariant :
  exists (l : list str) (r : rodeo),
    de_rodeo_legacy (fun _ => 0) (fun _ _ => true) (fun _ => false) 4294967295 l = DOk rodeo r /\
    ~ (exists cs : list str, RodeoInv (fun _ => 0) 4294967295 r cs).
Proof. exact de_rodeo_legacy_no_inv. Qed.
Print Assumptions C15_legacy_list_no_invariant.

Example C15_repaired_list_rejects :
  de_rodeo (fun _ => 0) (fun _ _ => true) (fun _ => false) 4294967295 [[97];[97];[98]] = DErr rodeo.
Proof. exact de_rodeo_repaired_rejects. Qed.
Print Assumptions C15_repaired_list_rejects.

(* F4, unrepaired Deserialize for ThreadedRodeo (no key check): the sparse document
   {"a":0, "b":6} is accepted and both view conversions fault *)
Example C15_legacy_sparse_keys_refuted :
  match de_threaded_gen false true [([97], 0); ([98], 6)] with
  | DOk _ t => t_strings t = None /\ t_into_reader (fun _ => 0) N.eqb (fun _ => false) t = None
  | _ => False
  end.
Proof. exact F4_legacy_sparse_keys. Qed.
Print Assumptions C15_legacy_sparse_keys_refuted.

Example C15_repaired_sparse_keys_rejects : de_threaded [([97], 0); ([98], 6)] = DErr trodeo.
Proof. exact F4_repaired_sparse_keys. Qed.
Print Assumptions C15_repaired_sparse_keys_rejects.

(* non-vacuity: documents with repeats (front, back), gaps, a key far above the count, a key
   permutation, empty documents, wrong shapes, more strings than keys (3): errors, one panic,
   and working objects whose lookups agree with their documents *)
Example C15_nonvacuous :
  snd (run (fun _ => 0) (fun _ _ => true) (fun _ => true) 3 []
         [De KRodeo (DList [[97];[97];[98]]); De KReader (DList [[97];[98];[97]]);
          De KRodeo (DList [[97];[98];[99];[100]]);
          De KRodeo (DList []); Len 0; Intern 0 [97];
          De KRodeo (DList [[98];[97]]); Get 1 [97]; Resolve 1 0; Intern 1 [99]; Intern 1 [100];
          De KResolver (DList [[97];[97]]); Resolve 2 1; Len 2;
          De KThreaded (DMap [([97],0);([98],2)]); De KThreaded (DMap [([97],0);([98],1000)]);
          De KThreaded (DMap [([98],1);([97],0);([99],2)]); Get 3 [98]; Resolve 3 2; Intern 3 [100];
          IntoReader 3; Get 3 [99]; IntoResolver 3; Resolve 3 0;
          De KThreaded (DMap []); Len 4; Intern 4 [5]; IntoResolver 4; Resolve 4 0;
          De KThreaded (DList [[97]]); De KRodeo (DMap [([97],0)])])
  = [ODeErr; ODeErr; OPanic;
     ONew 0; ONum 0; OKey 0;
     ONew 1; OKey 1; OStr [98]; OKey 2; OErr KeySpaceExhaustion;
     ONew 2; OStr [97]; ONum 2;
     ODeErr; ODeErr;
     ONew 3; OKey 1; OStr [99]; OErr KeySpaceExhaustion;
     OUnit; OKey 2; OUnit; OStr [97];
     ONew 4; ONum 0; OKey 0; OUnit; OStr [5];
     ODeErr; ODeErr].
Proof. vm_compute. reflexivity. Qed.
Print Assumptions C15_nonvacuous.
