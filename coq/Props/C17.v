(* C17 — Trait, reference, boxed and collection-trait access equal the inherent methods
         (sequential part: the collection traits FromIterator / Extend / Index).

   "Driving an interner, reader or resolver through the crate's generic interfaces - on the
    value, on shared or exclusive references, on boxed values or boxed trait objects -
    produces the same results and the same resulting state as calling the inherent methods
    directly, including the conversions into views.  Likewise building from an iterator,
    extending, indexing by key and iterating by reference equal the explicit sequence of
    intern, resolve and iterate calls (same keys in the same order, duplicates collapsed,
    indexing an unknown key panics exactly like the checked resolve)."

   Statements only; proofs are in IterEqProofs.v and WorldProofs.v.  In the model Extend is BY
   DEFINITION the loop of get_or_intern calls that stops at the first failure
   ([C17_extend_is_intern_loop], by unfolding); what is proved about it
   ([C17_extend], [C17_from_iter]) is the closed form of its effect on the abstract content
   [cs] (cs[k] = string of key k): the content only grows; if the loop completes, the new
   content is cs followed by the items not already in cs, each once, in order of first
   occurrence (same keys in the same order, duplicates collapsed); from_iter on a fresh Rodeo
   gives exactly the first occurrences of the items.  Index<Key> is the checked resolve: the
   operation [Resolve] models both, and panics exactly for unknown keys ([C17_index]).
   IntoIterator for &Rodeo is [IterOp] (C10).
   NOT covered, and not expressible in this model: the trait impls for T, &T, &mut T, Box<T>,
   Box<dyn ...> (the model has one entry point per operation; that every wrapper forwards to
   the inherent method is checked on the Rust side by lock-step differential runs), and loose
   or absent size hints (they only affect reserve(), which the model abstracts in [growf]:
   the theorems hold for every [growf]).  The ThreadedRodeo's Extend / FromIterator
   ([t_extend]) has no closed-form theorem in the library beyond "content only grows"
   (used inside C01_content_only_grows). *)
From Lasso Require Import Base Arena ArenaProofs Rodeo RodeoInv RodeoProofs ThreadedInv
  CloneSerdeProofs ThreadedProofs IterEqProofs WorldProofs.

(* Extend::extend is the explicit sequence of get_or_intern calls, stopping where one panics *)
Theorem C17_extend_is_intern_loop :
  forall (hash : str -> N) (cand : N -> N -> bool) (growf : N -> bool) (keycap : N)
         (r : rodeo) (s : str) (rest : list str),
  r_extend hash cand growf keycap r [] = (r, true) /\
  r_extend hash cand growf keycap r (s :: rest) =
  match intern hash cand growf keycap r s with
  | (r', Ok _) => r_extend hash cand growf keycap r' rest
  | (r', Err _) => (r', false)
  end.
Proof. intros. split; reflexivity. Qed.
Print Assumptions C17_extend_is_intern_loop.

(* its effect on the content *)
Theorem C17_extend :
  forall (hash : str -> N) (cand : N -> N -> bool) (growf : N -> bool) (keycap : N),
  (forall h : N, cand h h = true) ->
  forall (r : rodeo) (cs l : list str) (r' : rodeo) (ok : bool),
  RodeoInv hash keycap r cs ->
  r_extend hash cand growf keycap r l = (r', ok) ->
  exists cs' : list str,
    RodeoInv hash keycap r' cs' /\
    (exists added : list str, cs' = cs ++ added) /\
    NoDup cs' /\
    (ok = true ->
     cs' = cs ++ nodup_keep_first (filter (fun s : str => negb (existsb (str_eqb s) cs)) l) /\
     (forall s : str, In s cs' <-> In s cs \/ In s l)).
Proof. exact r_extend_spec. Qed.
Print Assumptions C17_extend.

(* FromIterator: a fresh Rodeo (default capacity, no limit) extended by the items *)
Theorem C17_from_iter :
  forall (hash : str -> N) (cand : N -> N -> bool) (growf : N -> bool) (keycap : N),
  (forall h : N, cand h h = true) ->
  forall (l : list str) (r' : rodeo),
  r_extend hash cand growf keycap (rodeo_new default_bytes usize_max) l = (r', true) ->
  RodeoInv hash keycap r' (nodup_keep_first l).
Proof. exact r_from_iter_spec. Qed.
Print Assumptions C17_from_iter.

(* the collapsed list: every item, once *)
Theorem C17_first_occurrences :
  forall l : list str,
  NoDup (nodup_keep_first l) /\ (forall s : str, In s (nodup_keep_first l) <-> In s l).
Proof. intros l. exact (conj (nodup_keep_first_nodup l) (nodup_keep_first_in l)). Qed.
Print Assumptions C17_first_occurrences.

(* Index<Key> / resolve on every kind of object: cs[k], and a panic exactly for unknown keys;
   try_resolve answers None in exactly those cases *)
Theorem C17_index :
  forall (hash : str -> N) (cand : N -> N -> bool) (growf : N -> bool) (keycap : N)
         (w : world) (i : nat) (k : N) (cs : list str),
  obj_inv hash keycap (get_obj w i) cs ->
  get_obj w i <> ODead ->
  step hash cand growf keycap w (Resolve i k) =
  (w, match (if k <? N.of_nat (length cs) then nth_error cs (N.to_nat k) else None) with
      | Some s => OStr s
      | None => OPanic
      end) /\
  step hash cand growf keycap w (TryResolve i k) =
  (w, match (if k <? N.of_nat (length cs) then nth_error cs (N.to_nat k) else None) with
      | Some s => OStr s
      | None => ONone
      end).
Proof.
  intros hash cand growf keycap w i k cs H D.
  exact (conj (step_resolve hash cand growf keycap w i k cs H D)
              (step_try_resolve hash cand growf keycap w i k cs H D)).
Qed.
Print Assumptions C17_index.

(* non-vacuity 1: extending an already populated interner and the explicit sequence of
   get_or_intern calls give literally the same world and the same later answers; keys in order
   of first occurrence, duplicates collapsed *)
Example C17_nonvacuous_extend :
  let h := fun _ : str => 0 in let c := fun _ _ : N => true in let g := fun _ : N => true in
  let w := fst (run h c g 255 [] [NewRodeo 4 64; Intern 0 [98]]) in
  let items := [[97]; [98]; []; [97]; [1;2;3;4;5;6;7;8;9]; []] in
  fst (run h c g 255 w [Extend 0 items]) = fst (run h c g 255 w (map (InternP 0) items)) /\
  snd (run h c g 255 w (map (InternP 0) items)) = [OKey 1; OKey 0; OKey 2; OKey 1; OKey 3; OKey 2] /\
  snd (run h c g 255 w [Extend 0 items; Len 0; Resolve 0 0; Resolve 0 1; Resolve 0 2; Resolve 0 3;
                        Resolve 0 4; TryResolve 0 4])
  = [OUnit; ONum 4; OStr [98]; OStr [97]; OStr []; OStr [1;2;3;4;5;6;7;8;9]; OPanic; ONone].
Proof. vm_compute. repeat split. Qed.
Print Assumptions C17_nonvacuous_extend.

(* non-vacuity 2: from_iter (both interners) equals new + the explicit calls, as seen by `==`,
   serialisation and iteration; with 2 keys only, from_iter and extend panic where
   get_or_intern does *)
Example C17_nonvacuous_from_iter :
  let h := fun _ : str => 0 in let c := fun _ _ : N => true in let g := fun _ : N => true in
  let items := [[97]; [98]; [97]; []; [98]] in
  snd (run h c g 255 []
         [FromIter false items; NewRodeo 4096 18446744073709551615;
          InternP 1 [97]; InternP 1 [98]; InternP 1 [97]; InternP 1 []; InternP 1 [98];
          EqOp 0 1; Ser 0; IterOp 0 [INext; INext; INext; INext];
          FromIter true items; EqOp 2 0; Len 2; Resolve 2 2])
  = [ONew 0; ONew 1; OKey 0; OKey 1; OKey 0; OKey 2; OKey 1;
     OBool true; ODoc (DList [[97]; [98]; []]);
     OItems [ItSome 0 [97]; ItSome 1 [98]; ItSome 2 []; ItNone];
     ONew 2; OBool true; ONum 3; OStr []] /\
  snd (run h c g 2 [] [FromIter false items; NewRodeo 4 64; Extend 0 items; Len 0;
                       InternP 0 [97]; InternP 0 [98]; InternP 0 [97]; InternP 0 []])
  = [OPanic; ONew 0; OPanic; ONum 2; OKey 0; OKey 1; OKey 0; OPanic].
Proof. vm_compute. repeat split. Qed.
Print Assumptions C17_nonvacuous_from_iter.
