(* C09L — The memory limit under concurrency WHEN set_memory_limits CALLS RACE WITH INTERNING.
   Scope.  Props/C09.v states the property for a limit that is fixed during the concurrent phase
   ([C09_cap_fixed_limit], [C09_cap_from_any_state]); for racing limit changes it has only the per-step fact
   [C09_grant_admissible_partial].  This file adds the execution-level statements that follow from it, in the
   small-step model Conc.v ([step]: one shared-memory event of one thread; schedule and spurious compare-exchange
   failures are inputs), for EVERY number of threads, EVERY program (any number of set_memory_limits calls at any
   moment), EVERY schedule:
     - memory_usage never decreases, and it changes only at the successful compare-and-swap of allocate_memory of
       the moving thread, by exactly that thread's request, which fits under the limit in force at that event;
     - [reach_lims c0 c ls]: an execution from c0 to c with the list ls of the limit values in force in each of its
       states (newest first); every reachable state has one ([C09_reach_lims_complete]);
     - THE BOUND ([C09_cap_racing]): usage <= max (usage at the start) (largest limit ever in force); sharper:
       usage is unchanged since the start or <= ONE limit in force in an earlier state ([C09_cap_racing_witness]);
     - after the LAST limit change the bound settles to max (usage then) (limit then) ([C09_settles]); if the limit
       was left below the usage the usage is frozen, otherwise usage <= limit from then on;
     - the naive "usage <= max (initial capacity) (CURRENT limit)" is false with a racing limit change:
       [C09_naive_racing_refuted] (3 threads; the limit is lowered while a thread is between its budget check and
       its block push; the bound above holds with equality), [C09_naive_racing_not_invariant].
   What is NOT claimed: nothing relates usage to the limit CURRENTLY in force while limit changes race (it is false);
   the model reads max_memory_usage and compare-and-swaps memory_usage in one event (as Conc.v does), so the
   statements are about that model.  Statements only; proofs in ConcLimitHist.v. *)
From Lasso Require Import Base Arena Conc ConcInv ConcArenaProofs ConcTheorems.
From Lasso Require Import ConcLimitHist.

(* an execution, with the list of every limit value that was in force in any of its states (newest first):
     Inductive reach_lims shard_of keycap (c0 : cstate) : cstate -> list N -> Prop :=
     | rl_refl : reach_lims c0 c0 [c_limit c0]
     | rl_step c c' tid ch ls : reach_lims c0 c ls -> step shard_of keycap c tid ch = Some c' ->
                                reach_lims c0 c' (c_limit c' :: ls). *)
Print reach_lims.

Theorem C09_cap_racing :
  forall (shard_of : str -> N) (keycap : N) (c0 c : cstate) (ls : list N),
    reach_lims shard_of keycap c0 c ls ->
    c_usage c <= N.max (c_usage c0) (fold_right N.max 0 ls).
Proof. exact ConcLimitHist.C09_cap_racing. Qed.
Print Assumptions C09_cap_racing.

(* sharper: only limits in force in a state BEFORE the current one count ... *)
Theorem C09_cap_racing_sharp :
  forall (shard_of : str -> N) (keycap : N) (c0 c : cstate) (ls : list N),
    reach_lims shard_of keycap c0 c ls ->
    c_usage c <= N.max (c_usage c0) (fold_right N.max 0 (tl ls)).
Proof. exact ConcLimitHist.C09_cap_racing_sharp. Qed.
Print Assumptions C09_cap_racing_sharp.

(* ... and a single one of them suffices (the one in force at the last grant) *)
Theorem C09_cap_racing_witness :
  forall (shard_of : str -> N) (keycap : N) (c0 c : cstate) (ls : list N),
    reach_lims shard_of keycap c0 c ls ->
    c_usage c = c_usage c0 \/ exists l, In l (tl ls) /\ c_usage c <= l.
Proof. exact ConcLimitHist.C09_cap_racing_witness. Qed.
Print Assumptions C09_cap_racing_witness.

Theorem C09_cap_racing_ceiling :
  forall (shard_of : str -> N) (keycap : N) (c0 c : cstate) (ls : list N) (b : N),
    reach_lims shard_of keycap c0 c ls -> Forall (fun l => l <= b) ls -> c_usage c0 <= b -> c_usage c <= b.
Proof. exact ConcLimitHist.C09_cap_racing_ceiling. Qed.
Print Assumptions C09_cap_racing_ceiling.

Theorem C09_usage_monotone :
  forall (shard_of : str -> N) (keycap : N) (c : cstate) (tid : nat) (ch : bool) (c' : cstate),
    step shard_of keycap c tid ch = Some c' -> c_usage c <= c_usage c'.
Proof. exact ConcLimitHist.C09_usage_monotone. Qed.
Print Assumptions C09_usage_monotone.

Theorem C09_usage_monotone_reachable :
  forall (shard_of : str -> N) (keycap : N) (c0 c : cstate),
    reachable shard_of keycap c0 c -> c_usage c0 <= c_usage c.
Proof. exact ConcLimitHist.C09_usage_monotone_reachable. Qed.
Print Assumptions C09_usage_monotone_reachable.

(* a step that changes memory_usage is the successful compare-and-swap of allocate_memory (pc SAllocCas, expected
   value = current value, no spurious failure) of the moving thread; it adds exactly its [req], which is positive
   and fits under the limit in force at that event *)
Theorem C09_usage_changes_only_by_grant :
  forall (shard_of : str -> N) (keycap : N) (c : cstate) (tid : nat) (ch : bool) (c' : cstate),
    step shard_of keycap c tid ch = Some c' -> c_usage c' <> c_usage c ->
    exists t s req k next,
      nth_error (c_threads c) tid = Some t /\
      t_pc t = PStore s (SAllocCas (c_usage c) req k next) /\ ch = false /\
      0 < req /\ c_usage c + req <= c_limit c /\ c_usage c' = c_usage c + req.
Proof. exact ConcLimitHist.C09_usage_changes_only_by_grant. Qed.
Print Assumptions C09_usage_changes_only_by_grant.

Theorem C09_limit_changes_only_by_setlimit :
  forall (shard_of : str -> N) (keycap : N) (c : cstate) (tid : nat) (ch : bool) (c' : cstate),
    step shard_of keycap c tid ch = Some c' -> c_limit c' <> c_limit c ->
    exists t m, nth_error (c_threads c) tid = Some t /\ t_pc t = PSetLimit m.
Proof. exact ConcLimitHist.C09_limit_changes_only_by_setlimit. Qed.
Print Assumptions C09_limit_changes_only_by_setlimit.

(* the bound covers every reachable state *)
Theorem C09_reach_lims_complete :
  forall (shard_of : str -> N) (keycap : N) (c0 c : cstate),
    reachable shard_of keycap c0 c <-> exists ls, reach_lims shard_of keycap c0 c ls.
Proof. exact ConcLimitHist.C09_reach_lims_complete. Qed.
Print Assumptions C09_reach_lims_complete.

(* after the LAST limit change: [c0 -> c1] any execution with limit changes racing, in [c1] no thread has a
   set_memory_limits left in its program or in flight, [c1 -> c] any continuation *)
Theorem C09_settles :
  forall (shard_of : str -> N) (keycap : N) (c0 c1 c : cstate) (ls : list N),
    reach_lims shard_of keycap c0 c1 ls -> no_setlimit c1 -> reachable shard_of keycap c1 c ->
    c_limit c = c_limit c1 /\
    c_usage c1 <= c_usage c /\
    c_usage c <= N.max (c_usage c1) (c_limit c1) /\
    c_usage c <= N.max (c_usage c0) (fold_right N.max 0 ls).
Proof. exact ConcLimitHist.C09_settles. Qed.
Print Assumptions C09_settles.

Theorem C09_settles_lims_const :
  forall (shard_of : str -> N) (keycap : N) (c1 c : cstate) (ls : list N),
    no_setlimit c1 -> reach_lims shard_of keycap c1 c ls -> Forall (fun l => l = c_limit c1) ls.
Proof. exact ConcLimitHist.C09_settles_lims_const. Qed.
Print Assumptions C09_settles_lims_const.

(* the limit was left BELOW the usage: the usage is frozen *)
Theorem C09_settles_over :
  forall (shard_of : str -> N) (keycap : N) (c1 c : cstate),
    no_setlimit c1 -> reachable shard_of keycap c1 c -> c_limit c1 < c_usage c1 ->
    c_usage c = c_usage c1 /\ c_limit c = c_limit c1.
Proof. exact ConcLimitHist.C09_settles_over. Qed.
Print Assumptions C09_settles_over.

(* the limit was left at or above the usage: usage <= limit from then on *)
Theorem C09_settles_under :
  forall (shard_of : str -> N) (keycap : N) (c1 c : cstate),
    no_setlimit c1 -> reachable shard_of keycap c1 c -> c_usage c1 <= c_limit c1 -> c_usage c <= c_limit c.
Proof. exact ConcLimitHist.C09_settles_under. Qed.
Print Assumptions C09_settles_under.

(* the executable execution recorder used by the example is sound, and is [run_sched] *)
Theorem C09_run_hist_reach :
  forall (shard_of : str -> N) (keycap : N) (c0 : cstate) (sched : list (nat * bool)),
    reach_lims shard_of keycap c0 (fst (run_hist shard_of keycap c0 sched)) (snd (run_hist shard_of keycap c0 sched)) /\
    fst (run_hist shard_of keycap c0 sched) = run_sched shard_of keycap c0 sched.
Proof. intros sh kc c0 sched. exact (conj (run_hist_reach sh kc c0 sched) (run_hist_run_sched sh kc c0 sched)). Qed.
Print Assumptions C09_run_hist_reach.

(* rx_c0 = init 1 3 [[CIntern "ab"]; [CSetLimit 2]; [CUsage; CIntern "cd"]];
   schedule: thread 0 x12 (granted, at SBcapStore) ; thread 1 x2 (limit := 2) ; thread 2 x2 (reads usage) ;
             thread 0 x7 (allocates, pushes, finishes) ; thread 2 x30 (second call refused) *)
Example C09_naive_racing_refuted :
  (let c := fst rx_granted in
   c_usage c = 3 /\ c_limit c = 3 /\ map bcap (c_blocks c) = [1] /\
   map t_pc (c_threads c) = [PStore [97;98] (SBcapStore 2); PIdle; PIdle]) /\
  (let c := fst rx_lowered in
   c_usage c = 3 /\ c_limit c = 2 /\ map bcap (c_blocks c) = [1] /\
   map t_pc (c_threads c) = [PStore [97;98] (SBcapStore 2); PIdle; PIdle] /\
   map t_outs (c_threads c) = [[]; [(CSetLimit 2, RUnit)]; [(CUsage, RNum 3)]]) /\
  (let c := fst rx_final in let ls := snd rx_final in
   reach_lims ex_sh 10 rx_c0 c ls /\
   c_usage c = 3 /\ c_limit c = 2 /\ c_limit c < c_usage c /\ N.max 1 (c_limit c) < c_usage c /\
   forallb (fun t => match t_pc t, t_prog t with PIdle, [] => true | _, _ => false end) (c_threads c) = true /\
   c_usage c = sum_N (map bcap (c_blocks c)) /\
   map t_outs (c_threads c) =
     [[(CIntern [97;98], ROk 0)]; [(CSetLimit 2, RUnit)];
      [(CIntern [99;100], RErr MemoryLimitReached); (CUsage, RNum 3)]] /\
   c_usage c = N.max (c_usage rx_c0) (fold_right N.max 0 ls) /\
   c_usage c = N.max (c_usage rx_c0) (fold_right N.max 0 (tl ls))).
Proof. exact ConcLimitHist.C09_naive_racing_refuted. Qed.
Print Assumptions C09_naive_racing_refuted.

Theorem C09_naive_racing_not_invariant :
  ~ (forall (shard_of : str -> N) (keycap cap lim : N) (progs : list (list call)) (c : cstate),
       0 < cap -> reachable shard_of keycap (init cap lim progs) c ->
       c_usage c <= N.max cap (c_limit c)).
Proof. exact ConcLimitHist.C09_naive_racing_not_invariant. Qed.
Print Assumptions C09_naive_racing_not_invariant.
