(* C12 — A clone is equal in content and completely independent of its source.

   "Cloning an interner (infallibly, fallibly, or into an existing interner whose buffers are
    reused) yields one with the same key-string pairs and lookups, which then evolves
    independently: interning into, clearing or dropping either one never changes what the other
    returns, and the target of a clone-into keeps nothing of its previous content.  Cloning an
    interner that works under no memory limit never fails."

   Statements only; proofs are in CloneSerdeProofs.v and WorldProofs.v.  [C12_clone]: try_clone
   of a Rodeo with abstract content [cs] (cs[k] = string of key k) always succeeds and yields a
   Rodeo with the SAME content [cs] (hence, by C01/C02/C10, the same answer to every lookup,
   resolve, len and iteration), whose strings all live in its own fresh single block (static
   strings are copied), under a limit that is at least the source's.  [C12_clone_from]: the
   target ends with exactly the source's content — nothing of its own previous content [cs_t]
   — or, when the target's own memory limit is too small, reports MemoryLimitReached holding a
   prefix of it; its limit is kept.  [C12_clone_step] is the same at the level of a world: the
   clone is a NEW slot.  Independence is the frame property [C12_independent]: slots share
   nothing, so any history of operations addressed to other slots (interning into, clearing,
   dropping the clone or the source) leaves a slot literally identical.
   Not covered: Clone for ThreadedRodeo (the crate has none), allocation failure of the
   allocator itself (FailedAllocation), which the model does not produce. *)
From Lasso Require Import Base Arena ArenaProofs Rodeo RodeoInv RodeoProofs ThreadedInv
  CloneSerdeProofs ThreadedProofs IterEqProofs WorldProofs.

(* try_clone / clone *)
Theorem C12_clone :
  forall (hash : str -> N) (cand : N -> N -> bool) (growf : N -> bool) (keycap : N)
         (r : rodeo) (cs : list str),
  RodeoInv hash keycap r cs ->
  exists r' : rodeo,
    r_clone hash cand growf keycap r = Some (r', COk) /\
    RodeoInv hash keycap r' cs /\
    Forall nonstatic (rstrs r') /\
    usage (rar r') = doc_bytes cs /\
    length (blocks (rar r')) = 1%nat /\
    limit (rar r') = N.max (limit (rar r)) (usage (rar r')).
Proof. exact r_clone_spec. Qed.
Print Assumptions C12_clone.

(* try_clone_from / clone_from: the target [tgt] (content cs_t) takes the content of [src] *)
Theorem C12_clone_from :
  forall (hash : str -> N) (cand : N -> N -> bool) (growf : N -> bool) (keycap : N)
         (tgt : rodeo) (cs_t : list str) (src : rodeo) (cs : list str),
  RodeoInv hash keycap tgt cs_t ->
  RodeoInv hash keycap src cs ->
  exists (r' : rodeo) (c : cres),
    r_clone_from hash cand growf keycap tgt src = Some (r', c) /\
    limit (rar r') = limit (rar tgt) /\
    (c = COk /\ RodeoInv hash keycap r' cs \/
     c = CErr MemoryLimitReached /\
     (exists done rest : list str, cs = done ++ rest /\ rest <> [] /\ RodeoInv hash keycap r' done)).
Proof. exact r_clone_from_spec. Qed.
Print Assumptions C12_clone_from.

(* the loop both use (clone_strings_into): copying the strings [src] one by one behind a
   content [cs0] never hits the `unreachable!()`, never runs out of keys, and ends with
   cs0 ++ src or, on the memory limit, a prefix *)
Theorem C12_clone_strings_into :
  forall (hash : str -> N) (cand : N -> N -> bool) (growf : N -> bool) (keycap : N)
         (src : list str) (dst : rodeo) (cs0 : list str) (r' : rodeo) (c : cres),
  RodeoInv hash keycap dst cs0 ->
  NoDup (cs0 ++ src) ->
  N.of_nat (length (cs0 ++ src)) <= keycap ->
  clone_into hash cand growf keycap src (N.of_nat (length cs0)) dst = (r', c) ->
  limit (rar r') = limit (rar dst) /\
  (c = COk /\ RodeoInv hash keycap r' (cs0 ++ src) \/
   c = CErr MemoryLimitReached /\
   (exists done rest : list str,
      src = done ++ rest /\ rest <> [] /\ RodeoInv hash keycap r' (cs0 ++ done))).
Proof. exact clone_into_spec. Qed.
Print Assumptions C12_clone_strings_into.

(* in a world: cloning slot i appends a new slot holding a Rodeo of the same content; the world
   before it is untouched *)
Theorem C12_clone_step :
  forall (hash : str -> N) (cand : N -> N -> bool) (growf : N -> bool) (keycap : N)
         (w : world) (i : nat) (r : rodeo) (cs : list str),
  get_obj w i = ORodeo r ->
  RodeoInv hash keycap r cs ->
  exists r' : rodeo,
    step hash cand growf keycap w (Clone i) = (w ++ [ORodeo r'], ONew (N.of_nat (length w))) /\
    RodeoInv hash keycap r' cs /\ Forall nonstatic (rstrs r').
Proof.
  intros hash cand growf keycap w i r cs E Hinv.
  destruct (r_clone_spec hash cand growf keycap r cs Hinv) as (r' & Hc & H1 & H2 & _).
  exists r'. cbn [step]. rewrite E, Hc. auto.
Qed.
Print Assumptions C12_clone_step.

(* independence: one operation, then any history, that is not addressed to slot i (the slots an
   operation may modify are [targets]: for Clone none, for CloneFrom i j only i) leaves slot i
   identical — same table, same strings, same arena bytes *)
Theorem C12_independent_step :
  forall (hash : str -> N) (cand : N -> N -> bool) (growf : N -> bool) (keycap : N)
         (w : list obj) (o : op) (i : nat),
  (i < length w)%nat ->
  ~ In i (targets o) ->
  get_obj (fst (step hash cand growf keycap w o)) i = get_obj w i.
Proof. exact step_frame. Qed.
Print Assumptions C12_independent_step.

Theorem C12_independent :
  forall (hash : str -> N) (cand : N -> N -> bool) (growf : N -> bool) (keycap : N)
         (ops : list op) (w : list obj) (i : nat),
  (i < length w)%nat ->
  (forall o : op, In o ops -> ~ In i (targets o)) ->
  get_obj (fst (run hash cand growf keycap w ops)) i = get_obj w i.
Proof. exact run_frame. Qed.
Print Assumptions C12_independent.

(* non-vacuity 1: a source with a copied, an oversized, a static and an empty string, under a
   limit; the clone (slot 1) answers like the source; then both evolve separately: the source
   is cleared, refilled and dropped, the clone interns more — neither sees the other *)
Example C12_nonvacuous_clone :
  snd (run (fun _ => 0) (fun _ _ => true) (fun _ => true) 255 []
         [NewRodeo 4 30; Intern 0 [97]; Intern 0 [1;2;3;4;5;6;7;8;9]; InternStatic 0 7 [120]; Intern 0 [];
          Clone 0; EqOp 0 1; Get 1 [120]; Resolve 1 1; Len 1; MaxMem 1; CurMem 1;
          Intern 1 [50]; Get 0 [50]; Clear 0; Intern 0 [60]; Resolve 1 0; Get 1 [60]; Resolve 0 0;
          Drop 0; Resolve 1 1; Resolve 1 2; Resolve 1 3; Resolve 1 4; Len 1])
  = [ONew 0; OKey 0; OKey 1; OKey 2; OKey 3;
     ONew 1; OBool true; OKey 2; OStr [1;2;3;4;5;6;7;8;9]; ONum 4; ONum 30; ONum 11;
     OKey 4; ONone; OUnit; OKey 0; OStr [97]; ONone; OStr [60];
     OUnit; OStr [1;2;3;4;5;6;7;8;9]; OStr [120]; OStr []; OStr [50]; ONum 5].
Proof. vm_compute. reflexivity. Qed.
Print Assumptions C12_nonvacuous_clone.

(* non-vacuity 2: clone_from into a larger, previously filled target: nothing of the old content
   is left; and into a target whose limit is too small: the error, with a prefix *)
Example C12_nonvacuous_clone_from :
  snd (run (fun _ => 0) (fun _ _ => true) (fun _ => true) 255 []
         [NewRodeo 4 64; Intern 0 [97]; Intern 0 [98;99];
          NewRodeo 8 64; Intern 1 [1]; Intern 1 [2]; Intern 1 [3];
          CloneFrom 1 0; EqOp 0 1; Len 1; Get 1 [1]; Get 1 [98;99]; Resolve 1 0; MaxMem 1;
          Intern 1 [4]; Get 0 [4];
          NewRodeo 2 2; CloneFrom 2 0; Len 2; Resolve 2 0; MaxMem 2])
  = [ONew 0; OKey 0; OKey 1; ONew 1; OKey 0; OKey 1; OKey 2;
     OUnit; OBool true; ONum 2; ONone; OKey 1; OStr [97]; ONum 64;
     OKey 2; ONone;
     ONew 2; OErr MemoryLimitReached; ONum 1; OStr [97]; ONum 2].
Proof. vm_compute. reflexivity. Qed.
Print Assumptions C12_nonvacuous_clone_from.
