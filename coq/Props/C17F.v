(* C17F -- the forwarding half of C17: access through the traits on values, references, boxes and trait objects
   reaches the inherent method that was asked for.  Statements only; proofs in Forward.v. *)
From Coq Require Import String List.
From Lasso Require Import Facts Forward.
Import ListNotations.
Open Scope string_scope.
Open Scope list_scope.

(* src/interface contains the impls the interfaces promise, each with all the methods of its trait *)
Theorem C17F_table_complete : table_complete Facts.forwarding = true.
Proof. vm_compute. reflexivity. Qed.
Print Assumptions C17F_table_complete.

(* every one of them forwards to the same-named method, receiver passed through, arguments unchanged; the single
   declared exception is <ThreadedRodeo as Resolver>::resolve_unchecked, which calls the checked `resolve` *)
Theorem C17F_forwarding_faithful : forwarding_faithful Facts.forwarding = true.
Proof. vm_compute. reflexivity. Qed.
Print Assumptions C17F_forwarding_faithful.

(* unbounded: through every stack of wrappers (outermost first), for every trait and method, the call arrives at the
   method it was asked for (up to the `_boxed` plumbing suffix), provided the route does not cross the declared exception *)
Theorem C17F_run_via : forall stack tr m, clean stack tr m = true ->
  base (run_via stack Facts.forwarding tr m) = base m.
Proof. exact (run_via_faithful Facts.forwarding (@eq_refl bool true <: forwarding_faithful Facts.forwarding = true)). Qed.
Print Assumptions C17F_run_via.

(* the side condition holds for every stack without a ThreadedRodeo, and for every method but resolve_unchecked *)
Theorem C17F_run_via_no_threaded : forall stack tr m, ~ In (WCont ThreadedRodeo) stack ->
  base (run_via stack Facts.forwarding tr m) = base m.
Proof. exact (fun stack tr m H => run_via_faithful Facts.forwarding (@eq_refl bool true <: forwarding_faithful Facts.forwarding = true) stack tr m (clean_without_threaded stack tr m H)). Qed.
Print Assumptions C17F_run_via_no_threaded.

Theorem C17F_run_via_other_methods : forall stack tr m, base m <> "resolve_unchecked" ->
  base (run_via stack Facts.forwarding tr m) = base m.
Proof. exact (fun stack tr m H => run_via_faithful Facts.forwarding (@eq_refl bool true <: forwarding_faithful Facts.forwarding = true) stack tr m (clean_other_method stack tr m H)). Qed.
Print Assumptions C17F_run_via_other_methods.

(* the conversions: a boxed interner is converted through the `_boxed` plumbing and arrives at the inherent conversion *)
Example C17F_boxed_conversions :
  run_via [WBox; WCont Rodeo] Facts.forwarding IntoReader "into_reader" = "into_reader" /\
  run_via [WBox; WCont ThreadedRodeo] Facts.forwarding IntoResolver "into_resolver" = "into_resolver" /\
  run_via [WBox; WBox; WCont RodeoReader] Facts.forwarding IntoResolver "into_resolver" = "into_resolver".
Proof. vm_compute. repeat split. Qed.
Print Assumptions C17F_boxed_conversions.
