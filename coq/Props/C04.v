(* C04 — Memory safety: no history of safe calls corrupts, leaks or escapes the arena.

   "No sequence of safe API calls makes the library write or read outside memory it owns, use
    freed memory, free memory twice or leak it.  Every stored (non-static, non-empty) string
    occupies its own region lying wholly inside one live storage block of that interner,
    regions never overlap, no block is filled beyond its capacity, and all blocks are released
    exactly once when the interner and the views derived from it are gone."

   Statements only; proofs are in ArenaProofs.v, RodeoInv.v, CloneSerdeProofs.v,
   ThreadedProofs.v, WorldProofs.v.  What is proved is memory safety AT THE LEVEL OF THE MODEL:
   blocks are byte lists, the unchecked copy [push_slice] / [bwrite] and the unchecked indexing
   [key_str] are modelled without bounds checks, and the theorems show that the conditions
   that make them safe hold in every reachable state: no block of either arena is ever filled
   beyond its capacity, under any history of stores / limit changes / clears
   ([C04_no_block_overfilled_*]); every stored reference lies inside the used part of one live
   block and references are pairwise disjoint ([C04_regions], [C04_region_inside_block],
   [C04_threaded_regions]); every key in the lookup table indexes inside the string table
   ([C04_table_keys_in_range]); every world reachable by any history of operations satisfies
   the invariant and no operation reaches a dangling reference, an out-of-range scatter or a
   hole ([C04_history_inv], [C04_history_never_faults]).
   NOT covered: allocation and deallocation themselves (the model has no free: "released
   exactly once", leaks, use-after-free and Drop order are checked on the Rust side with
   Miri / sanitizers, not here); data races (Conc.v); the correspondence model <-> Rust. *)
From Lasso Require Import Base Arena ArenaProofs Rodeo RodeoInv RodeoProofs ThreadedInv
  CloneSerdeProofs ThreadedProofs IterEqProofs WorldProofs.

(* ---- arenas ---- *)

(* any history of stores, limit changes and clears on a fresh arena keeps the arena invariant:
   at least one block, every block with bused <= bcap = size of its memory, distinct block
   identities, usage = sum of capacities *)
Theorem C04_no_block_overfilled_single_threaded :
  forall (ops : list aop) (cap lim : N), 0 < cap ->
  let a := fold_left (astep vec_store) ops (arena_new cap lim) in
  ArenaInv a /\
  Forall (fun b => bused b <= bcap b /\ N.of_nat (length (bdata b)) = bcap b /\ 0 < bcap b) (blocks a).
Proof.
  intros ops cap lim H. cbv zeta.
  pose proof (history_inv vec_store vec_store_post ops _ (arena_new_inv cap lim H)) as Hinv.
  split; [exact Hinv|]. destruct Hinv as (_ & Hok & _). exact Hok.
Qed.
Print Assumptions C04_no_block_overfilled_single_threaded.

Theorem C04_no_block_overfilled_lockfree :
  forall (ops : list aop) (cap lim : N), 0 < cap ->
  let a := fold_left (astep lf_store) ops (arena_new cap lim) in
  ArenaInv a /\
  Forall (fun b => bused b <= bcap b /\ N.of_nat (length (bdata b)) = bcap b /\ 0 < bcap b) (blocks a).
Proof.
  intros ops cap lim H. cbv zeta.
  pose proof (history_inv lf_store lf_store_post ops _ (arena_new_inv cap lim H)) as Hinv.
  split; [exact Hinv|]. destruct Hinv as (_ & Hok & _). exact Hok.
Qed.
Print Assumptions C04_no_block_overfilled_lockfree.

(* one store: the invariant is kept, the new reference is valid and disjoint from every
   reference that was valid before (so the unchecked copy wrote only into free space) *)
Theorem C04_store_single_threaded :
  forall (a : arena) (s : str) (a' : arena) (r' : sref),
  ArenaInv a -> vec_store a s = (a', Ok r') ->
  ArenaInv a' /\ ref_ok a' r' /\ (forall r : sref, ref_ok a r -> refs_disjoint r r') /\
  (forall r : sref, ref_ok a r -> ref_ok a' r /\ read a' r = read a r).
Proof.
  intros a s a' r' Hinv Hst. pose proof (vec_store_post a s a' (Ok r') Hinv Hst) as P.
  destruct (sp_result _ _ _ _ P) as (H1 & _ & H3 & _).
  exact (conj (sp_inv _ _ _ _ P) (conj H1 (conj H3 (sp_frame _ _ _ _ P)))).
Qed.
Print Assumptions C04_store_single_threaded.

Theorem C04_store_lockfree :
  forall (a : arena) (s : str) (a' : arena) (r' : sref),
  ArenaInv a -> lf_store a s = (a', Ok r') ->
  ArenaInv a' /\ ref_ok a' r' /\ (forall r : sref, ref_ok a r -> refs_disjoint r r') /\
  (forall r : sref, ref_ok a r -> ref_ok a' r /\ read a' r = read a r).
Proof.
  intros a s a' r' Hinv Hst. pose proof (lf_store_post a s a' (Ok r') Hinv Hst) as P.
  destruct (sp_result _ _ _ _ P) as (H1 & _ & H3 & _).
  exact (conj (sp_inv _ _ _ _ P) (conj H1 (conj H3 (sp_frame _ _ _ _ P)))).
Qed.
Print Assumptions C04_store_lockfree.

(* a failed store changes nothing at all *)
Theorem C04_failed_store_single_threaded :
  forall (a : arena) (s : str) (a' : arena) (e : err),
  ArenaInv a -> vec_store a s = (a', Err e) -> a' = a /\ e = MemoryLimitReached.
Proof.
  intros a s a' e Hinv Hst.
  destruct (sp_result _ _ _ _ (vec_store_post a s a' (Err e) Hinv Hst)) as (H1 & H2 & _). auto.
Qed.
Print Assumptions C04_failed_store_single_threaded.

(* what a valid reference means: a non-empty range inside the used, hence allocated, part of
   exactly one live block of this arena *)
Theorem C04_region_inside_block :
  forall (a : arena) (b off len : N),
  ArenaInv a -> ref_ok a (RArena b off len) ->
  0 < len /\
  exists blk, find_block b (blocks a) = Some blk /\ In blk (blocks a) /\ bid blk = b /\
              off + len <= bused blk /\ bused blk <= bcap blk /\
              N.of_nat (length (bdata blk)) = bcap blk.
Proof.
  intros a b off len (_ & Hok & _) (Hl & blk & Hf & Hu). split; [exact Hl|]. exists blk.
  destruct (find_block_some _ _ _ Hf) as (Hin & Hid). rewrite Forall_forall in Hok.
  destruct (Hok blk Hin) as (H1 & H2 & _). auto 10.
Qed.
Print Assumptions C04_region_inside_block.

(* ---- interners ---- *)

(* Rodeo / RodeoReader: every entry of the string table is a valid reference into the
   interner's own arena, and the regions are pairwise disjoint *)
Theorem C04_regions :
  forall (hash : str -> N) (keycap : N) (r : rodeo) (cs : list str),
  RodeoInv hash keycap r cs ->
  ArenaInv (rar r) /\ Forall (ref_ok (rar r)) (rstrs r) /\ ForallOrdPairs refs_disjoint (rstrs r).
Proof. intros hash keycap r cs (Ha & (H1 & H2 & _) & _). auto. Qed.
Print Assumptions C04_regions.

(* ... and every key stored in the lookup table is a valid index into the string table: this
   is what the unchecked indexing of the probe closure and the re-hash closure relies on *)
Theorem C04_table_keys_in_range :
  forall (hash : str -> N) (keycap : N) (r : rodeo) (cs : list str),
  RodeoInv hash keycap r cs ->
  Forall (fun e : N * N => snd e < N.of_nat (length (rstrs r))) (rmap r).
Proof. exact RodeoInv_keys_in_range. Qed.
Print Assumptions C04_table_keys_in_range.

(* ThreadedRodeo at quiescence: the key -> string map scatters into a dense table of valid,
   pairwise disjoint references (no out-of-range write, no hole, in into_reader/into_resolver) *)
Theorem C04_threaded_regions :
  forall (keycap : N) (t : trodeo) (cs : list str),
  TInv keycap t cs ->
  ArenaInv (tar t) /\
  exists refs : list sref,
    t_strings t = Some refs /\ Forall (ref_ok (tar t)) refs /\ ForallOrdPairs refs_disjoint refs /\
    contents refs (tar t) = Some cs.
Proof.
  intros keycap t cs H. split; [exact (proj1 H)|].
  destruct (t_strings_inv keycap t cs H) as (refs & H1 & (H2 & H3 & H4 & _)). exists refs. auto.
Qed.
Print Assumptions C04_threaded_regions.

(* ---- whole histories ---- *)

(* every world reachable by any history of operations (intern, intern-static, clear, clone,
   clone_from, set-limit, into-reader, into-resolver, (de)serialize, drop, ...) satisfies the
   invariant of each of its objects *)
Theorem C04_history_inv :
  forall (hash : str -> N) (cand : N -> N -> bool) (growf : N -> bool) (keycap : N),
  (forall h : N, cand h h = true) ->
  forall (ops : list op) (w : world),
  WInv hash keycap w ->
  Forall (op_wf keycap) ops -> WInv hash keycap (fst (run hash cand growf keycap w ops)).
Proof. exact run_inv. Qed.
Print Assumptions C04_history_inv.

Theorem C04_history_inv_from_nothing :
  forall (hash : str -> N) (cand : N -> N -> bool) (growf : N -> bool) (keycap : N),
  (forall h : N, cand h h = true) ->
  forall ops : list op,
  Forall (op_wf keycap) ops -> WInv hash keycap (fst (run hash cand growf keycap [] ops)).
Proof. exact run_inv_nil. Qed.
Print Assumptions C04_history_inv_from_nothing.

(* ... and no operation of any history answers OFault, the model's marker for "the
   implementation would dereference a dangling reference / index out of bounds here" *)
Theorem C04_history_never_faults :
  forall (hash : str -> N) (cand : N -> N -> bool) (growf : N -> bool) (keycap : N),
  (forall h : N, cand h h = true) ->
  forall (ops : list op) (w : world),
  WInv hash keycap w ->
  Forall (op_wf keycap) ops ->
  Forall (fun x : out => x <> OFault) (snd (run hash cand growf keycap w ops)).
Proof. exact run_never_faults. Qed.
Print Assumptions C04_history_never_faults.

Theorem C04_history_never_faults_from_nothing :
  forall (hash : str -> N) (cand : N -> N -> bool) (growf : N -> bool) (keycap : N),
  (forall h : N, cand h h = true) ->
  forall ops : list op,
  Forall (op_wf keycap) ops ->
  Forall (fun x : out => x <> OFault) (snd (run hash cand growf keycap [] ops)).
Proof. exact run_never_faults_nil. Qed.
Print Assumptions C04_history_never_faults_from_nothing.

(* panics are the documented ones only (never an `unreachable!()` or a failed `expect`
   other than "too many strings for the key type" in deserialize) *)
Theorem C04_panics_are_documented :
  forall (hash : str -> N) (cand : N -> N -> bool) (growf : N -> bool) (keycap : N),
  (forall h : N, cand h h = true) ->
  forall (w : world) (o : op),
  WInv hash keycap w ->
  op_wf keycap o ->
  snd (step hash cand growf keycap w o) = OPanic -> panic_cause hash cand growf keycap w o.
Proof. exact step_panic. Qed.
Print Assumptions C04_panics_are_documented.

(* the defect repaired by the `fix:` commit (F1, shared with C08): the unrepaired growth step,
   run on capacity 10 / limit 15, copies 8 bytes into a 5-byte block — a heap overflow *)
Example C04_legacy_refuted :
  let a0 := arena_new 10 15 in
  let a1 := fst (vec_store_legacy a0 [48;49;50;51;52;53;54;55;56;57]) in
  let (a2, r) := vec_store_legacy a1 [97;98;99;100;101;102;103;104] in
  existsb (fun b => bcap b <? bused b) (blocks a2) = true /\
  existsb (fun b => bcap b <? N.of_nat (length (bdata b))) (blocks a2) = true /\
  (exists x, r = Ok x).
Proof. vm_compute. split; [reflexivity|]. split; [reflexivity|eexists; reflexivity]. Qed.
Print Assumptions C04_legacy_refuted.

(* the repaired store refuses the same request and changes nothing *)
Example C04_repaired :
  let a0 := arena_new 10 15 in
  let a1 := fst (vec_store a0 [48;49;50;51;52;53;54;55;56;57]) in
  vec_store a1 [97;98;99;100;101;102;103;104] = (a1, Err MemoryLimitReached) /\ arena_okb a1 = true.
Proof. vm_compute. split; reflexivity. Qed.
Print Assumptions C04_repaired.

(* non-vacuity 1: a concrete reachable Rodeo (4-byte blocks, strings of length below, above and
   more than double the block size, a static and an empty string): its string table, block
   fill levels (id, capacity, used) and the executable arena check *)
Example C04_nonvacuous_regions :
  let w := fst (run (fun _ => 0) (fun _ _ => true) (fun _ => true) 255 []
                  [NewRodeo 4 30; Intern 0 [97]; Intern 0 [1;2;3;4;5;6;7;8;9]; Intern 0 [103;104];
                   InternStatic 0 7 [120]; Intern 0 []; Intern 0 [105;106;107]]) in
  match get_obj w 0 with
  | ORodeo r =>
      rstrs r = [RArena 0 0 1; RArena 1 0 9; RArena 0 1 2; RStatic 7 [120]; REmpty; RArena 2 0 3] /\
      map snd (rmap r) = [5; 4; 3; 2; 1; 0] /\
      map (fun b => (bid b, bcap b, bused b)) (blocks (rar r)) = [(1, 9, 9); (0, 4, 3); (2, 8, 3)] /\
      usage (rar r) = 21 /\ arena_okb (rar r) = true
  | _ => False
  end.
Proof. vm_compute. repeat split. Qed.
Print Assumptions C04_nonvacuous_regions.

(* non-vacuity 2: a history over clone / clear / clone_from / set-limit / views / serde / drop:
   no fault, and strings survive in the objects that still own them *)
Example C04_nonvacuous_history :
  snd (run (fun _ => 0) (fun _ _ => true) (fun _ => true) 255 []
         [NewRodeo 4 64; Intern 0 [97]; Intern 0 [1;2;3;4;5;6;7;8;9]; Intern 0 [103;104]; Clone 0;
          Clear 0; Intern 0 [5;6;7;8;9]; CloneFrom 0 1; SetLimit 1 5; Intern 1 [1;2;3;4;5;6;7];
          IntoReader 1; Ser 1; De KRodeo (DList [[97];[98]]); De KThreaded (DMap [([97],1);([98],0)]);
          IntoResolver 3; Drop 0; Resolve 0 0; Resolve 1 1; EqOp 1 2; Resolve 3 1])
  = [ONew 0; OKey 0; OKey 1; OKey 2; ONew 1; OUnit; OKey 0; OUnit; OUnit; OErr MemoryLimitReached;
     OUnit; ODoc (DList [[97]; [1;2;3;4;5;6;7;8;9]; [103;104]]); ONew 2; ONew 3; OUnit; OUnit;
     OUnsupported; OStr [1;2;3;4;5;6;7;8;9]; OBool false; OStr [97]].
Proof. vm_compute. reflexivity. Qed.
Print Assumptions C04_nonvacuous_history.
