(* C11 — Built-in key types convert to and from indices without loss or aliasing.

   "For each built-in key type with capacity N (255, 65535, 2^32-1 and the largest
    pointer-sized value), building a key from an index succeeds exactly for indices below N,
    converting it back returns the same index, different indices give unequal keys ordered
    like their indices, the default key is index 0, and an optional key is no larger than a
    key.  Serialising a key and reading it back yields the same key."

   Statements only; the model of src/keys.rs and the proofs are in Keys.v.  A key type is its
   bit width and capacity ([micro_spur] 8/255, [mini_spur] 16/65535, [spur] 32/2^32-1,
   [large_spur] 64/2^64-1 for a 64-bit usize); a key stores index + 1 in a NonZero integer of
   that width; [try_from_usize] writes out the `as uN` truncation (mod 2^width), so that it
   never truncates is a theorem ([C11_try_from_usize]), not an assumption.  The theorems hold
   for EVERY index, not only sampled ones.  "An optional key is no larger than a key" is stated
   as: 0 is never a raw key value, so None |-> 0, Some raw |-> raw is injective into the same
   width ([C11_option_niche]).
   Not covered: the actual memory layout chosen by rustc (size_of::<Option<K>>() is checked on
   the Rust side), 32-bit targets for LargeSpur. *)
From Lasso Require Import Base Keys.

(* succeeds exactly below the capacity; the stored value is index + 1: never 0, never truncated *)
Theorem C11_try_from_usize :
  forall (kt : keyty) (i : N),
  builtin kt ->
  (i < kcap kt -> try_from_usize kt i = Some (i + 1) /\ raw_ok kt (i + 1)) /\
  (kcap kt <= i -> try_from_usize kt i = None).
Proof. exact try_from_usize_spec. Qed.
Print Assumptions C11_try_from_usize.

(* converting back returns the same index *)
Theorem C11_roundtrip :
  forall (kt : keyty) (i raw : N),
  builtin kt -> try_from_usize kt i = Some raw ->
  into_usize raw = i /\ i < kcap kt /\ raw_ok kt raw.
Proof. exact roundtrip. Qed.
Print Assumptions C11_roundtrip.

(* different indices give different keys, ordered (derived Ord on the raw value) like them *)
Theorem C11_order_iso :
  forall (kt : keyty) (i j ri rj : N),
  builtin kt -> try_from_usize kt i = Some ri -> try_from_usize kt j = Some rj ->
  (i = j <-> ri = rj) /\ (key_ltb ri rj = true <-> i < j).
Proof. exact order_iso. Qed.
Print Assumptions C11_order_iso.

(* Default::default() is the key of index 0 *)
Theorem C11_default_is_zero :
  forall kt : keyty, builtin kt -> try_from_usize kt 0 = Some 1 /\ into_usize 1 = 0.
Proof. exact default_is_zero. Qed.
Print Assumptions C11_default_is_zero.

(* every legal raw value is the key of exactly one index *)
Theorem C11_raw_surjective :
  forall (kt : keyty) (raw : N),
  builtin kt -> raw_ok kt raw -> try_from_usize kt (into_usize raw) = Some raw.
Proof. exact raw_surjective. Qed.
Print Assumptions C11_raw_surjective.

(* Option<Key> fits in the width of Key: the niche 0 is free *)
Theorem C11_option_niche :
  forall (kt : keyty) (o1 o2 : option N),
  (forall raw, o1 = Some raw -> raw_ok kt raw) ->
  (forall raw, o2 = Some raw -> raw_ok kt raw) ->
  opt_encode o1 = opt_encode o2 -> o1 = o2.
Proof. exact option_niche. Qed.
Print Assumptions C11_option_niche.

(* serde: a key reads back as itself; everything that is not a legal raw value is rejected;
   the acceptable wire values are exactly 1 .. capacity *)
Theorem C11_serde_roundtrip :
  forall (kt : keyty) (raw : N), raw_ok kt raw -> serde_de kt (serde_ser raw) = Some raw.
Proof. exact serde_roundtrip. Qed.
Print Assumptions C11_serde_roundtrip.

Theorem C11_serde_rejects :
  forall (kt : keyty) (n : N), ~ raw_ok kt n -> serde_de kt n = None.
Proof. exact serde_rejects. Qed.
Print Assumptions C11_serde_rejects.

Theorem C11_serde_wire :
  forall (kt : keyty) (n : N),
  builtin kt -> (serde_de kt n = Some n <-> 1 <= n /\ n <= kcap kt).
Proof. exact serde_wire. Qed.
Print Assumptions C11_serde_wire.

(* the run-length summary against which the exhaustive sweep of the implementation is
   compared: Some (i+1) on [0, cap), None on [cap, usize::MAX] — for every usize *)
Theorem C11_summary :
  forall (kt : keyty) (i : N),
  builtin kt -> is_usize i ->
  exists lo hi b, In (lo, hi, b) (summary kt) /\ lo <= i < hi /\
    (b = true -> try_from_usize kt i = Some (i + 1)) /\
    (b = false -> try_from_usize kt i = None).
Proof. exact summary_spec. Qed.
Print Assumptions C11_summary.

(* what Rodeo.v's [try_key] assumes of a key type (success iff index < capacity, and the
   index is recovered) holds for the built-in ones *)
Theorem C11_try_key_contract :
  forall (kt : keyty) (i : N),
  builtin kt ->
  match try_from_usize kt i with
  | Some raw => i < kcap kt /\ into_usize raw = i
  | None => kcap kt <= i
  end.
Proof. exact try_key_is_try_from_usize. Qed.
Print Assumptions C11_try_key_contract.

(* non-vacuity: the four key types are built-in; boundary values of each *)
Example C11_nonvacuous :
  builtin micro_spur /\ builtin mini_spur /\ builtin spur /\ builtin large_spur /\
  map (try_from_usize micro_spur) [0; 1; 254; 255; 256; 511] =
    [Some 1; Some 2; Some 255; None; None; None] /\
  map (try_from_usize mini_spur) [0; 65534; 65535; 65536] = [Some 1; Some 65535; None; None] /\
  map (try_from_usize spur) [0; 4294967294; 4294967295; 4294967296; 18446744073709551615] =
    [Some 1; Some 4294967295; None; None; None] /\
  map (try_from_usize large_spur) [0; 18446744073709551614; 18446744073709551615] =
    [Some 1; Some 18446744073709551615; None] /\
  map into_usize [1; 2; 255] = [0; 1; 254] /\
  map (serde_de micro_spur) [0; 1; 255; 256] = [None; Some 1; Some 255; None] /\
  key_ltb 3 7 = true /\ key_ltb 7 3 = false /\
  map opt_encode [None; Some 1; Some 255] = [0; 1; 255].
Proof.
  unfold builtin. vm_compute. repeat split; auto.
Qed.
Print Assumptions C11_nonvacuous.
