(* C10 — Keys are dense and ordered; counts and iteration agree with them.

   "An interner numbers distinct strings 0, 1, 2, ... in the order they are first interned (as
    seen through the key-to-index conversion), and its count, emptiness and key-membership
    answers always agree with that numbering.  Iterating pairs or strings, forwards, backwards
    or mixed, yields every entry exactly once in key order with an exact remaining-length at
    every step; the concurrent interner guarantees the same up to order."

   Statements only; proofs are in WorldProofs.v and IterEqProofs.v.  The abstract content of
   an object is the list [cs] with cs[k] = the string of key k.  A new string gets the key
   [length cs] and is appended ([C10_new_key_is_count]), so keys are 0,1,2,... in order of
   first interning; len / is_empty / contains_key are [length cs], [length cs = 0],
   [k < length cs] for every kind of object including the ThreadedRodeo.  The iterators of
   Rodeo / reader / resolver under ANY plan of next / next_back / nth_back / len calls equal the
   specification iterator [deque_iter] on [(0,cs[0]); (1,cs[1]); ...] ([C10_iter],
   [C10_strings], and [C10_iter_window] for any window), and for that specification: all-next
   yields everything in key order, all-next_back in reverse, every entry is yielded, still
   remaining or skipped by nth_back — once ([C10_accounting], [C10_no_repeats]); len is exact at
   every point; fronts ascend and backs descend.
   Not covered: the ThreadedRodeo's iterators (dashmap order is unspecified; the model lists
   the content in key order and the library only proves that listing total,
   [C10_threaded_listing_total]); iteration concurrent with writers. *)
From Lasso Require Import Base Arena ArenaProofs Rodeo RodeoInv RodeoProofs ThreadedInv
  CloneSerdeProofs ThreadedProofs IterEqProofs WorldProofs.
From Coq Require Import Permutation Sorted.

(* dense, ordered numbering: a string that is new gets key = current count and is appended *)
Theorem C10_new_key_is_count :
  forall (hash : str -> N) (cand : N -> N -> bool) (growf : N -> bool) (keycap : N),
  (forall h : N, cand h h = true) ->
  forall (w : world) (i : nat) (s : str) (cs : list str) (w' : world) (k : N),
  WInv hash keycap w ->
  obj_inv hash keycap (get_obj w i) cs ->
  step hash cand growf keycap w (Intern i s) = (w', OKey k) ->
  index_of s cs = Some k /\ obj_inv hash keycap (get_obj w' i) cs \/
  index_of s cs = None /\ k = N.of_nat (length cs) /\ k < keycap /\
  obj_inv hash keycap (get_obj w' i) (cs ++ [s]).
Proof. exact step_intern_ok. Qed.
Print Assumptions C10_new_key_is_count.

Theorem C10_new_static_key_is_count :
  forall (hash : str -> N) (cand : N -> N -> bool) (growf : N -> bool) (keycap : N),
  (forall h : N, cand h h = true) ->
  forall (w : world) (i : nat) (addr : N) (s : str) (cs : list str) (w' : world) (k : N),
  WInv hash keycap w ->
  obj_inv hash keycap (get_obj w i) cs ->
  step hash cand growf keycap w (InternStatic i addr s) = (w', OKey k) ->
  index_of s cs = Some k /\ obj_inv hash keycap (get_obj w' i) cs \/
  index_of s cs = None /\ k = N.of_nat (length cs) /\ k < keycap /\
  obj_inv hash keycap (get_obj w' i) (cs ++ [s]).
Proof. exact step_intern_static_ok. Qed.
Print Assumptions C10_new_static_key_is_count.

(* count, emptiness, key membership: all four kinds of object *)
Theorem C10_len :
  forall (hash : str -> N) (cand : N -> N -> bool) (growf : N -> bool) (keycap : N)
         (w : world) (i : nat) (cs : list str),
  obj_inv hash keycap (get_obj w i) cs ->
  get_obj w i <> ODead ->
  step hash cand growf keycap w (Len i) = (w, ONum (N.of_nat (length cs))).
Proof. exact step_len. Qed.
Print Assumptions C10_len.

Theorem C10_is_empty :
  forall (hash : str -> N) (cand : N -> N -> bool) (growf : N -> bool) (keycap : N)
         (w : world) (i : nat) (cs : list str),
  obj_inv hash keycap (get_obj w i) cs ->
  get_obj w i <> ODead ->
  step hash cand growf keycap w (IsEmpty i) = (w, OBool (N.of_nat (length cs) =? 0)).
Proof. exact step_is_empty. Qed.
Print Assumptions C10_is_empty.

Theorem C10_contains_key :
  forall (hash : str -> N) (cand : N -> N -> bool) (growf : N -> bool) (keycap : N)
         (w : world) (i : nat) (k : N) (cs : list str),
  obj_inv hash keycap (get_obj w i) cs ->
  get_obj w i <> ODead ->
  step hash cand growf keycap w (ContainsKey i k) = (w, OBool (k <? N.of_nat (length cs))).
Proof. exact step_contains_key. Qed.
Print Assumptions C10_contains_key.

(* the iterators of Rodeo / RodeoReader / RodeoResolver, any plan *)
Theorem C10_iter :
  forall (hash : str -> N) (cand : N -> N -> bool) (growf : N -> bool) (keycap : N)
         (w : world) (i : nat) (plan : list iop) (cs : list str),
  obj_inv hash keycap (get_obj w i) cs ->
  get_obj w i <> ODead ->
  (forall t : trodeo, get_obj w i <> OThreaded t) ->
  (forall (strs : list sref) (a : arena),
     get_obj w i = OResolver strs a -> N.of_nat (length cs) <= keycap) ->
  step hash cand growf keycap w (IterOp i plan) = (w, OItems (deque_iter (enumerate cs) plan)).
Proof. exact step_iter. Qed.
Print Assumptions C10_iter.

Theorem C10_strings :
  forall (hash : str -> N) (cand : N -> N -> bool) (growf : N -> bool) (keycap : N)
         (w : world) (i : nat) (plan : list iop) (cs : list str),
  obj_inv hash keycap (get_obj w i) cs ->
  get_obj w i <> ODead ->
  (forall t : trodeo, get_obj w i <> OThreaded t) ->
  step hash cand growf keycap w (StringsOp i plan) = (w, OItems (deque_iter (enumerate cs) plan)).
Proof. exact step_strings. Qed.
Print Assumptions C10_strings.

(* the implementation's iterator (a window [lo,hi) of positions over the string table) equals
   the specification iterator on that segment of the enumeration; it never panics on a key *)
Theorem C10_iter_window :
  forall (keycap : N) (keyed : bool) (strs : list sref) (a : arena) (cs : list str)
         (lo hi : N) (plan : list iop),
  contents strs a = Some cs ->
  lo <= hi ->
  hi <= N.of_nat (length cs) ->
  (keyed = true -> N.of_nat (length cs) <= keycap) ->
  run_iter keycap keyed strs a lo hi plan = deque_iter (sublist lo hi (enumerate cs)) plan.
Proof. exact run_iter_refines_deque. Qed.
Print Assumptions C10_iter_window.

(* forwards: everything, in key order *)
Theorem C10_forward :
  forall rem : list (N * str), deque_iter rem (repeat INext (length rem)) = map it_of rem.
Proof. exact deque_iter_all_next. Qed.
Print Assumptions C10_forward.

(* backwards: everything, in reverse key order *)
Theorem C10_backward :
  forall rem : list (N * str), deque_iter rem (repeat INextBack (length rem)) = map it_of (rev rem).
Proof. exact deque_iter_all_next_back. Qed.
Print Assumptions C10_backward.

(* mixed: each entry is yielded, or still remaining, or was skipped by an nth_back — once *)
Theorem C10_accounting :
  forall (rem : list (N * str)) (plan : list iop),
  exists skipped : list (N * str),
    Permutation rem (yielded (deque_iter rem plan) ++ deque_rem rem plan ++ skipped).
Proof. exact deque_accounting. Qed.
Print Assumptions C10_accounting.

Theorem C10_no_repeats :
  forall (cs : list str) (plan : list iop),
  NoDup (map fst (yielded (deque_iter (enumerate cs) plan))).
Proof. intros cs plan. exact (yielded_nodup_keys (enumerate cs) plan (enumerate_keys_nodup cs)). Qed.
Print Assumptions C10_no_repeats.

(* len() at any point of a plan is exactly the number of entries that remain *)
Theorem C10_len_exact :
  forall (rem : list (N * str)) (p1 p2 : list iop),
  deque_iter rem (p1 ++ ILen :: p2) =
  deque_iter rem p1 ++ ItLen (N.of_nat (length (deque_rem rem p1))) :: deque_iter (deque_rem rem p1) p2.
Proof. exact deque_len_exact. Qed.
Print Assumptions C10_len_exact.

(* key order under any plan: what next() yields ascends, what the back calls yield descends *)
Theorem C10_order :
  forall (cs : list str) (plan : list iop),
  exists fl bl : list (N * str),
    front_items (enumerate cs) plan = map it_of fl /\
    StronglySorted (fun x y => fst x < fst y) fl /\
    back_items (enumerate cs) plan = map it_of bl /\
    StronglySorted (fun x y => fst y < fst x) bl.
Proof. intros cs plan. exact (deque_order (enumerate cs) plan (enumerate_sorted cs)). Qed.
Print Assumptions C10_order.

(* ThreadedRodeo: the key-ordered listing used for its iterators never dangles *)
Theorem C10_threaded_listing_total :
  forall (keycap : N) (t : trodeo) (cs : list str),
  TInv keycap t cs -> exists ps, obj_pairs (OThreaded t) = Some ps.
Proof. exact t_pairs_some. Qed.
Print Assumptions C10_threaded_listing_total.

(* non-vacuity: duplicates, a static string, a failed intern (3 keys only) in between; keys come
   out 0,1,2 in order of first interning; counts agree; a mixed plan yields each entry once
   with exact lengths; the strings iterator and the resolver view agree *)
Example C10_nonvacuous :
  snd (run (fun _ => 0) (fun _ _ => true) (fun _ => true) 3 []
         [NewRodeo 4 64; IsEmpty 0; Intern 0 [98]; Intern 0 [97]; Intern 0 [98]; InternStatic 0 5 [99];
          Intern 0 [100]; Len 0; IsEmpty 0; ContainsKey 0 2; ContainsKey 0 3;
          IterOp 0 [ILen; INext; ILen; INextBack; ILen; INext; ILen; INext; INextBack];
          IterOp 0 [INthBack 1; ILen; INext; INext];
          IntoResolver 0; StringsOp 0 [INextBack; INextBack; INextBack; INextBack]; Len 0])
  = [ONew 0; OBool true; OKey 0; OKey 1; OKey 0; OKey 2; OErr KeySpaceExhaustion;
     ONum 3; OBool false; OBool true; OBool false;
     OItems [ItLen 3; ItSome 0 [98]; ItLen 2; ItSome 2 [99]; ItLen 1; ItSome 1 [97]; ItLen 0; ItNone; ItNone];
     OItems [ItSome 1 [97]; ItLen 1; ItSome 0 [98]; ItNone];
     OUnit; OItems [ItSome 2 [99]; ItSome 1 [97]; ItSome 0 [98]; ItNone]; ONum 3].
Proof. vm_compute. reflexivity. Qed.
Print Assumptions C10_nonvacuous.

(* the concurrent interner used by one thread: same numbering and counts *)
Example C10_nonvacuous_threaded :
  snd (run (fun _ => 0) (fun _ _ => true) (fun _ => true) 3 []
         [NewThreaded 4 64; Intern 0 [98]; Intern 0 [97]; Intern 0 [98]; Len 0; ContainsKey 0 1;
          ContainsKey 0 2; IterOp 0 []])
  = [ONew 0; OKey 0; OKey 1; OKey 0; ONum 2; OBool true; OBool false;
     OItems [ItSome 0 [98]; ItSome 1 [97]]].
Proof. vm_compute. reflexivity. Qed.
Print Assumptions C10_nonvacuous_threaded.
