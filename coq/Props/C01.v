(* C01 — Round-trip fidelity: a key always resolves to the exact string it was minted for.

   "Whenever an interner hands out a key for a string, resolving that key through any lookup
    path (checked, fallible, unchecked, indexing, iteration) returns exactly that string, byte
    for byte, at every later moment, no matter what is interned afterwards or how often storage
    grows, until the interner is cleared or dropped.  This holds for the single-threaded and
    the concurrent interner alike."

   Statements only; the proofs are in WorldProofs.v and ArenaProofs.v.  [C01_roundtrip] is the
   property itself on the model: for every hasher, probe relation, growth oracle and key
   capacity, from any world satisfying the invariant, after ANY further history that does not
   clear / clone_from / drop slot i, key k of slot i (Rodeo, ThreadedRodeo used by one thread,
   reader or resolver) still resolves to the same string, on the fallible and on the checked
   path.  The remaining theorems are its ingredients: every resolve path and both iterators
   are functions of the abstract content [cs] only (cs[k] = the string of key k), a history
   only ever appends to [cs], and at the byte level a store into either arena never changes
   what an earlier reference reads.
   Not covered here: resolve_unchecked on INVALID keys (undefined behaviour in the crate, no
   model), genuinely concurrent schedules (Conc.v), and the correspondence model <-> Rust,
   which is tested by the runner, not proved. *)
From Lasso Require Import Base Arena ArenaProofs Rodeo RodeoInv RodeoProofs ThreadedInv
  CloneSerdeProofs ThreadedProofs IterEqProofs WorldProofs.

(* the property: key k of slot i holds s now  ==>  it resolves to s after any history *)
Theorem C01_roundtrip :
  forall (hash : str -> N) (cand : N -> N -> bool) (growf : N -> bool) (keycap : N),
  (forall h : N, cand h h = true) ->
  forall (w : world) (ops : list op) (i : nat) (cs : list str) (k : N) (s : str),
  WInv hash keycap w ->
  Forall (op_wf keycap) ops ->
  obj_inv hash keycap (get_obj w i) cs ->
  get_obj w i <> ODead ->
  nth_error cs (N.to_nat k) = Some s ->
  k < N.of_nat (length cs) ->
  (forall o : op, In o ops -> ~ resets o i) ->
  let w' := fst (run hash cand growf keycap w ops) in
  snd (step hash cand growf keycap w' (TryResolve i k)) = OStr s /\
  snd (step hash cand growf keycap w' (Resolve i k)) = OStr s.
Proof. exact WorldProofs.C01_roundtrip. Qed.
Print Assumptions C01_roundtrip.

(* try_resolve answers cs[k] for k < len, None otherwise; nothing else matters *)
Theorem C01_try_resolve :
  forall (hash : str -> N) (cand : N -> N -> bool) (growf : N -> bool) (keycap : N)
         (w : world) (i : nat) (k : N) (cs : list str),
  obj_inv hash keycap (get_obj w i) cs ->
  get_obj w i <> ODead ->
  step hash cand growf keycap w (TryResolve i k) =
  (w, match (if k <? N.of_nat (length cs) then nth_error cs (N.to_nat k) else None) with
      | Some s => OStr s
      | None => ONone
      end).
Proof. exact step_try_resolve. Qed.
Print Assumptions C01_try_resolve.

(* resolve / Index / resolve_unchecked on valid keys: the same, with a panic for unknown keys *)
Theorem C01_resolve :
  forall (hash : str -> N) (cand : N -> N -> bool) (growf : N -> bool) (keycap : N)
         (w : world) (i : nat) (k : N) (cs : list str),
  obj_inv hash keycap (get_obj w i) cs ->
  get_obj w i <> ODead ->
  step hash cand growf keycap w (Resolve i k) =
  (w, match (if k <? N.of_nat (length cs) then nth_error cs (N.to_nat k) else None) with
      | Some s => OStr s
      | None => OPanic
      end).
Proof. exact step_resolve. Qed.
Print Assumptions C01_resolve.

(* a history that does not clear / clone_from / drop slot i only appends to its content *)
Theorem C01_content_only_grows :
  forall (hash : str -> N) (cand : N -> N -> bool) (growf : N -> bool) (keycap : N),
  (forall h : N, cand h h = true) ->
  forall (ops : list op) (w : world) (i : nat) (cs : list str),
  WInv hash keycap w ->
  Forall (op_wf keycap) ops ->
  obj_inv hash keycap (get_obj w i) cs ->
  (forall o : op, In o ops -> ~ resets o i) ->
  exists added : list str,
    obj_inv hash keycap (get_obj (fst (run hash cand growf keycap w ops)) i) (cs ++ added).
Proof. exact run_extends. Qed.
Print Assumptions C01_content_only_grows.

(* iteration over (key, string) pairs of a Rodeo / reader / resolver: a double-ended walk over
   [(0, cs[0]); (1, cs[1]); ...], whatever mix of next / next_back / nth_back / len is asked *)
Theorem C01_iter :
  forall (hash : str -> N) (cand : N -> N -> bool) (growf : N -> bool) (keycap : N)
         (w : world) (i : nat) (plan : list iop) (cs : list str),
  obj_inv hash keycap (get_obj w i) cs ->
  get_obj w i <> ODead ->
  (forall t : trodeo, get_obj w i <> OThreaded t) ->
  (forall (strs : list sref) (a : arena),
     get_obj w i = OResolver strs a -> N.of_nat (length cs) <= keycap) ->
  step hash cand growf keycap w (IterOp i plan) = (w, OItems (deque_iter (enumerate cs) plan)).
Proof. exact step_iter. Qed.
Print Assumptions C01_iter.

Theorem C01_strings :
  forall (hash : str -> N) (cand : N -> N -> bool) (growf : N -> bool) (keycap : N)
         (w : world) (i : nat) (plan : list iop) (cs : list str),
  obj_inv hash keycap (get_obj w i) cs ->
  get_obj w i <> ODead ->
  (forall t : trodeo, get_obj w i <> OThreaded t) ->
  step hash cand growf keycap w (StringsOp i plan) = (w, OItems (deque_iter (enumerate cs) plan)).
Proof. exact step_strings. Qed.
Print Assumptions C01_strings.

(* byte level: a store (into the current block, a doubled block or an oversized block) leaves
   every earlier valid reference valid and reading the same bytes *)
Theorem C01_store_frame_single_threaded :
  forall (a : arena) (s : str) (a' : arena) (R : res sref) (r : sref),
  ArenaInv a -> vec_store a s = (a', R) -> ref_ok a r ->
  ref_ok a' r /\ read a' r = read a r.
Proof. intros a s a' R r Hinv Hst Hr. exact (sp_frame _ _ _ _ (vec_store_post a s a' R Hinv Hst) r Hr). Qed.
Print Assumptions C01_store_frame_single_threaded.

Theorem C01_store_frame_lockfree :
  forall (a : arena) (s : str) (a' : arena) (R : res sref) (r : sref),
  ArenaInv a -> lf_store a s = (a', R) -> ref_ok a r ->
  ref_ok a' r /\ read a' r = read a r.
Proof. intros a s a' R r Hinv Hst Hr. exact (sp_frame _ _ _ _ (lf_store_post a s a' R Hinv Hst) r Hr). Qed.
Print Assumptions C01_store_frame_lockfree.

(* and the new reference reads back exactly the string that was stored *)
Theorem C01_store_reads_back_single_threaded :
  forall (a : arena) (s : str) (a' : arena) (r : sref),
  ArenaInv a -> vec_store a s = (a', Ok r) -> ref_ok a' r /\ read a' r = Some s.
Proof.
  intros a s a' r Hinv Hst.
  destruct (sp_result _ _ _ _ (vec_store_post a s a' (Ok r) Hinv Hst)) as (H1 & H2 & _).
  split; assumption.
Qed.
Print Assumptions C01_store_reads_back_single_threaded.

Theorem C01_store_reads_back_lockfree :
  forall (a : arena) (s : str) (a' : arena) (r : sref),
  ArenaInv a -> lf_store a s = (a', Ok r) -> ref_ok a' r /\ read a' r = Some s.
Proof.
  intros a s a' r Hinv Hst.
  destruct (sp_result _ _ _ _ (lf_store_post a s a' (Ok r) Hinv Hst)) as (H1 & H2 & _).
  split; assumption.
Qed.
Print Assumptions C01_store_reads_back_lockfree.

(* non-vacuity 1: a constant hasher, a probe that compares everything, a table that re-hashes on
   every insert, 3 keys; 4-byte blocks under a 15-byte limit.  Key 0 ("a") is minted first,
   then an oversized string forces a new block, a static and an empty string follow; key 0
   still resolves to "a" on every path, on the interner and on the views made from it. *)
Example C01_nonvacuous_run :
  snd (run (fun _ => 0) (fun _ _ => true) (fun _ => true) 3 []
         [NewRodeo 4 15; Intern 0 [97]; Intern 0 [98;99;100;101;102;103;104;105;106];
          InternStatic 0 7 [120;121]; TryResolve 0 0; Resolve 0 0; TryResolve 0 1;
          IterOp 0 [INext; INextBack; INext; INext];
          IntoReader 0; Resolve 0 0; IntoResolver 0; TryResolve 0 0; TryResolve 0 2; TryResolve 0 3])
  = [ONew 0; OKey 0; OKey 1; OKey 2; OStr [97]; OStr [97]; OStr [98;99;100;101;102;103;104;105;106];
     OItems [ItSome 0 [97]; ItSome 2 [120;121]; ItSome 1 [98;99;100;101;102;103;104;105;106]; ItNone];
     OUnit; OStr [97]; OUnit; OStr [97]; OStr [120;121]; ONone].
Proof. vm_compute. reflexivity. Qed.
Print Assumptions C01_nonvacuous_run.

(* non-vacuity 2: the same for the concurrent interner used by one thread *)
Example C01_nonvacuous_threaded :
  snd (run (fun _ => 0) (fun _ _ => true) (fun _ => true) 3 []
         [NewThreaded 4 15; Intern 0 [97]; Intern 0 [98;99;100;101;102;103;104;105;106];
          Intern 0 [99]; Resolve 0 0; TryResolve 0 1; TryResolve 0 2; Intern 0 [100]; Resolve 0 0])
  = [ONew 0; OKey 0; OKey 1; OKey 2; OStr [97]; OStr [98;99;100;101;102;103;104;105;106]; OStr [99];
     OErr KeySpaceExhaustion; OStr [97]].
Proof. vm_compute. reflexivity. Qed.
Print Assumptions C01_nonvacuous_threaded.

(* non-vacuity 3: the hypotheses of C01_roundtrip are satisfiable with a non-empty content: the
   world reached by  NewRodeo 4 15; Intern 0 "a"  satisfies them with cs = ["a"], k = 0 *)
Example C01_nonvacuous_hypotheses :
  let hash := fun _ : str => 0 in
  let w := fst (run hash (fun _ _ => true) (fun _ => true) 3 [] [NewRodeo 4 15; Intern 0 [97]]) in
  WInv hash 3 w /\ obj_inv hash 3 (get_obj w 0) [[97]] /\ get_obj w 0 <> ODead /\
  nth_error [[97]] (N.to_nat 0) = Some [97] /\ 0 < N.of_nat (length [[97]]).
Proof.
  cbv zeta.
  assert (Hw0 : WInv (fun _ => 0) 3 [ORodeo (rodeo_new 4 15)]).
  { constructor; [|constructor]. exists []. apply rodeo_new_inv. reflexivity. }
  split; [|split; [|split; [|split]]].
  - apply (run_inv_nil _ (fun _ _ => true) (fun _ => true) 3 (fun _ => eq_refl)).
    repeat constructor.
  - destruct (step_intern_ok (fun _ => 0) (fun _ _ => true) (fun _ => true) 3 (fun _ => eq_refl)
                [ORodeo (rodeo_new 4 15)] 0 [97] [] _ 0 Hw0
                (rodeo_new_inv _ 3 4 15 eq_refl) eq_refl) as [(H & _)|(_ & _ & _ & H)].
    + discriminate H.
    + exact H.
  - vm_compute. discriminate.
  - reflexivity.
  - reflexivity.
Qed.
Print Assumptions C01_nonvacuous_hypotheses.
