(* C19 -- thread-safety markers are no stronger than the key and hasher types allow.
   Statements only.  `derive` (Markers.v) applies rustc's auto-trait rules to the tables of Facts.v, which
   tools/extract_facts.py regenerates from the source text on every run; the rustc probe matrix of
   tools/eng_rustc.py checks, cell by cell, that `derive` is what rustc really does on the current tree.
   The domain is finite (4 containers x 2 markers x 4 x 4 flag combinations of K and S), so the decisions are
   by vm_compute over the enumeration `cells`, lifted to the quantified statement by `cells_complete`. *)
From Lasso Require Import Facts Markers.

(* whenever rustc derives `c<K, S> : m`, the parameters allow it: Send needs K and S Send, Sync needs K and S Sync
   (RodeoResolver<K>: K only) *)
Theorem C19_no_stronger : forall c m k s, derive c m k s = true -> allowed c m k s = true.
Proof. exact (no_stronger_sound derive (@eq_refl bool true <: no_stronger_check derive = true)). Qed.
Print Assumptions C19_no_stronger.

(* the documented cases: with ordinary K and S a Rodeo can be moved to another thread, a ThreadedRodeo,
   RodeoReader and RodeoResolver can be moved and shared *)
Theorem C19_documented :
  derive Rodeo Send ordinary ordinary = true /\
  derive ThreadedRodeo Send ordinary ordinary = true /\ derive ThreadedRodeo Sync ordinary ordinary = true /\
  derive RodeoReader Send ordinary ordinary = true /\ derive RodeoReader Sync ordinary ordinary = true /\
  derive RodeoResolver Send ordinary ordinary = true /\ derive RodeoResolver Sync ordinary ordinary = true.
Proof. vm_compute. repeat split. Qed.
Print Assumptions C19_documented.

(* not vacuous: some cells are rejected, e.g. a Rodeo with a key that is not Send cannot be moved, and a
   ThreadedRodeo with a hasher that is not Sync cannot be shared *)
Theorem C19_not_vacuous :
  derive Rodeo Send {| f_send := false; f_sync := true |} ordinary = false /\
  derive ThreadedRodeo Sync ordinary {| f_send := true; f_sync := false |} = false /\
  derive RodeoResolver Sync {| f_send := true; f_sync := false |} ordinary = false.
Proof. vm_compute. repeat split. Qed.
Print Assumptions C19_not_vacuous.

(* the unconditional markers on the raw blocks are present (without them no container would be Send or Sync) *)
Theorem C19_raw_blocks : arena_markers_unconditional = true.
Proof. vm_compute. reflexivity. Qed.
Print Assumptions C19_raw_blocks.
