(* C20 -- resolved strings cannot outlive or be invalidated under their borrower.
   Statements only; proofs in Loans.v.  The signature tables (`string_sigs`, `iter_items`, `invalidating`,
   `static_entries`) are regenerated from the source text on every run by tools/extract_facts.py; the rustc probe
   matrices of tools/eng_rustc.py check that the borrow checker's verdict on every probe program is the one this
   model computes from the tables. *)
From Coq Require Import String List.
From Lasso Require Import Facts Loans.
Import ListNotations.
Open Scope string_scope.
Open Scope list_scope.

(* every string-returning entry point ties its output (and the items of the iterator it returns) to the receiver
   borrow; every invalidating method takes `&mut self`, `self` or `Box<Self>`; every static entry point demands
   `&'static str` *)
Theorem C20_sound_table : table_sound_now = true.
Proof. vm_compute. reflexivity. Qed.
Print Assumptions C20_sound_table.

(* and the tables cover the entry points the property quantifies over: resolve / try_resolve / resolve_unchecked /
   indexing / iter / strings / IntoIterator on the four containers, the Resolver trait, the invalidating
   operations, the static entry points *)
Theorem C20_table_complete : covers_now = true.
Proof. vm_compute. reflexivity. Qed.
Print Assumptions C20_table_complete.

(* unbounded: for every program (any length) over the methods of the tables, if the checker accepts it then no
   string is used after its owner was cleared, cloned into, consumed, dropped, moved or left scope, and no string
   borrowed from a local reaches a static entry point *)
Theorem C20_no_dangling : table_sound_now = true ->
  forall p : program, known_now p = true -> accepts_now p = true -> ~ dangling p /\ ~ stores_local p.
Proof. exact (sound_table_no_dangling Facts.string_sigs Facts.iter_items Facts.invalidating Facts.static_entries). Qed.
Print Assumptions C20_no_dangling.

(* the same for ANY signature tables: the soundness of the checker does not depend on today's tables *)
Theorem C20_no_dangling_any_table : forall sigs items inval statics,
  table_sound sigs items inval statics = true ->
  forall p, known_methods sigs items inval statics p = true -> t_accepts sigs items inval statics p = true ->
  ~ dangling p /\ ~ stores_local p.
Proof. exact sound_table_no_dangling. Qed.
Print Assumptions C20_no_dangling_any_table.

(* the second half of C20 ("the corresponding well-ordered programs compile"): a resolved string is borrowed from the
   receiver ONLY - no string-returning entry point ties its result to the key argument, so a program may let the key die
   before it uses the string (extracted signatures; rustc probes `keyfree_*` are the oracle) *)
Theorem C20_strings_borrow_only_the_receiver :
  forallb (fun x : string * bool => negb (snd x)) Facts.out_borrows_argument = true /\
  12 <= length Facts.out_borrows_argument.
Proof. vm_compute. split; [reflexivity|repeat constructor]. Qed.
Print Assumptions C20_strings_borrow_only_the_receiver.

(* not vacuous: the checker rejects the ill-ordered programs and accepts their well-ordered twins *)
Example C20_rejects_use_after_clear :
  accepts_now [Call "Rodeo::resolve" 0 0; Mutate "Rodeo::clear" 0; Use 0] = false /\
  accepts_now [Call "Rodeo::resolve" 0 0; Use 0; Mutate "Rodeo::clear" 0] = true /\
  accepts_now [Call "ThreadedRodeo::iter/item" 0 0; EndScope 0; Use 0] = false /\
  accepts_now [StoreLocal "Rodeo::get_or_intern_static" 0 1] = false.
Proof. vm_compute. repeat split. Qed.
Print Assumptions C20_rejects_use_after_clear.

(* a widened signature is what the table is for: with `Rodeo::try_resolve` returning a lifetime that is not tied to
   the receiver (seeded mutant C20-1) the table is unsound and the use-after-clear program is accepted *)
Example C20_widened_refuted :
  let sigs := [(("Rodeo::try_resolve", RecvRef), OutFree, @None string)] in
  table_sound sigs [] Facts.invalidating [] = false /\
  t_accepts sigs [] Facts.invalidating [] [Call "Rodeo::try_resolve" 0 0; Mutate "Rodeo::clear" 0; Use 0] = true /\
  dangling [Call "Rodeo::try_resolve" 0 0; Mutate "Rodeo::clear" 0; Use 0].
Proof.
  vm_compute. repeat split.
  exists [], "Rodeo::try_resolve", 0, 0, [], (Mutate "Rodeo::clear" 0), [], [].
  repeat split; constructor.
Qed.
Print Assumptions C20_widened_refuted.
