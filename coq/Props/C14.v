(* C14 — Serialisation round-trips and yields a working interner.

   "Serialising any interner, reader or resolver and deserialising the result gives an object
    with the same count and the same key-string pairs (and, where supported, the same
    string-to-key answers).  A deserialised interner keeps working as an interner: strings
    already present return their old keys, and new strings receive fresh keys that collide with
    no existing key."

   Statements only; proofs are in CloneSerdeProofs.v, ThreadedProofs.v, IterEqProofs.v,
   WorldProofs.v.  Rodeo, RodeoReader and RodeoResolver serialise as the list of their strings
   in key order: for an object with abstract content [cs] (cs[k] = string of key k) [Ser]
   answers the document [DList cs] ([C14_ser_list]).  Deserialising [DList cs] as a Rodeo or
   reader succeeds whenever [cs] is the content of some Rodeo/reader and gives an object
   satisfying the full invariant with the SAME content [cs] ([C14_roundtrip_rodeo],
   [C14_de_rodeo_step]); as a resolver it always succeeds with content [cs]
   ([C14_roundtrip_resolver]).  Same content = same count, same key-string pairs and (C02) same
   string-to-key answers; satisfying the invariant = "keeps working" (C02, C07, C10 apply: old
   strings their old keys, a new string the key [length cs]).  For the ThreadedRodeo the
   library gives the deserialiser's half ([C14_de_threaded]: a map whose keys are 0..n-1 in
   any order yields an object satisfying TInv with cs[k] = s iff (s,k) is in the map, and the
   key counter is n, so the next key is fresh: the F3 repair, refuted for the legacy code
   below).
   NOT proved here: that [Ser] of a ThreadedRodeo produces such a dense map (the library only
   shows that the listing is total, C10_threaded_listing_total), hence the composed round trip
   for ThreadedRodeo is covered by the concrete example and the runner only; the text-level
   JSON encoding (escapes, unicode) is serde_json's, outside the model. *)
From Lasso Require Import Base Arena ArenaProofs Rodeo RodeoInv RodeoProofs ThreadedInv
  CloneSerdeProofs ThreadedProofs IterEqProofs WorldProofs.

(* Serialize for Rodeo / RodeoReader / RodeoResolver: the strings in key order *)
Theorem C14_ser_list :
  forall (hash : str -> N) (cand : N -> N -> bool) (growf : N -> bool) (keycap : N)
         (w : world) (i : nat) (cs : list str) (strs : list sref) (a : arena),
  obj_inv hash keycap (get_obj w i) cs ->
  obj_strs (get_obj w i) = Some (strs, a) ->
  step hash cand growf keycap w (Ser i) = (w, ODoc (DList cs)).
Proof.
  intros hash cand growf keycap w i cs strs a HI Hs.
  pose proof (obj_pairs_enumerate _ _ _ _ Hs (obj_inv_contents hash keycap _ _ _ _ HI Hs)) as Hp.
  cbn [step]. destruct (get_obj w i); try discriminate Hs; rewrite Hp, enumerate_strs; reflexivity.
Qed.
Print Assumptions C14_ser_list.

(* deserialising the content of a Rodeo / reader gives a Rodeo / reader with that content *)
Theorem C14_roundtrip_rodeo :
  forall (hash : str -> N) (cand : N -> N -> bool) (growf : N -> bool) (keycap : N),
  (forall h : N, cand h h = true) ->
  forall (r : rodeo) (cs : list str),
  RodeoInv hash keycap r cs ->
  exists r' : rodeo, de_rodeo hash cand growf keycap cs = DOk rodeo r' /\ RodeoInv hash keycap r' cs.
Proof.
  intros hash cand growf keycap C r cs (_ & (_ & _ & _ & Hnd) & _ & Hcap).
  exact (de_rodeo_complete hash cand growf keycap C cs Hnd Hcap).
Qed.
Print Assumptions C14_roundtrip_rodeo.

(* ... more generally any duplicate-free list that fits the key type *)
Theorem C14_de_rodeo_complete :
  forall (hash : str -> N) (cand : N -> N -> bool) (growf : N -> bool) (keycap : N),
  (forall h : N, cand h h = true) ->
  forall l : list str,
  NoDup l ->
  N.of_nat (length l) <= keycap ->
  exists r : rodeo, de_rodeo hash cand growf keycap l = DOk rodeo r /\ RodeoInv hash keycap r l.
Proof. exact de_rodeo_complete. Qed.
Print Assumptions C14_de_rodeo_complete.

(* in a world: the new slot holds a Rodeo (or reader) with the content of the document *)
Theorem C14_de_rodeo_step :
  forall (hash : str -> N) (cand : N -> N -> bool) (growf : N -> bool) (keycap : N),
  (forall h : N, cand h h = true) ->
  forall (w : world) (l : list str),
  NoDup l ->
  N.of_nat (length l) <= keycap ->
  exists r : rodeo,
    RodeoInv hash keycap r l /\
    step hash cand growf keycap w (De KRodeo (DList l)) = (w ++ [ORodeo r], ONew (N.of_nat (length w))) /\
    step hash cand growf keycap w (De KReader (DList l)) = (w ++ [OReader r], ONew (N.of_nat (length w))).
Proof.
  intros hash cand growf keycap C w l Hnd Hcap.
  destruct (de_rodeo_complete hash cand growf keycap C l Hnd Hcap) as (r & Hd & Hinv).
  exists r. cbn [step]. rewrite Hd. auto.
Qed.
Print Assumptions C14_de_rodeo_step.

(* whatever the deserialiser accepts has exactly the document as content, sits in one block
   sized to it, and works under no memory limit *)
Theorem C14_de_rodeo_spec :
  forall (hash : str -> N) (cand : N -> N -> bool) (growf : N -> bool) (keycap : N),
  (forall h : N, cand h h = true) ->
  forall l : list str,
  match de_rodeo hash cand growf keycap l with
  | DOk _ r =>
      RodeoInv hash keycap r l /\ NoDup l /\
      limit (rar r) = usize_max /\ usage (rar r) = doc_bytes l /\ length (blocks (rar r)) = 1%nat
  | DErr _ => ~ NoDup l
  | DPanic _ =>
      exists pre post : list str, l = pre ++ post /\ NoDup pre /\ keycap < N.of_nat (length pre)
  end.
Proof. exact de_rodeo_spec. Qed.
Print Assumptions C14_de_rodeo_spec.

(* resolver: any list of strings round-trips *)
Theorem C14_roundtrip_resolver :
  forall l : list str,
  exists (strs : list sref) (a : arena),
    de_resolver l = DOk (list sref * arena) (strs, a) /\
    ArenaInv a /\
    Forall (ref_ok a) strs /\
    ForallOrdPairs refs_disjoint strs /\
    contents strs a = Some l /\
    limit a = usize_max /\ usage a = doc_bytes l /\ length (blocks a) = 1%nat.
Proof. exact de_resolver_spec. Qed.
Print Assumptions C14_roundtrip_resolver.

(* ThreadedRodeo: the deserialiser's half *)
Theorem C14_de_threaded :
  forall (keycap : N) (l : list (str * N)),
  NoDup (map fst l) ->
  (forall (s : str) (k : N), In (s, k) l -> k < keycap) ->
  (de_threaded l = DErr trodeo <-> keys_dense l (repeat false (length l)) = false) /\
  (keys_dense l (repeat false (length l)) = true ->
   exists (t : trodeo) (cs : list str),
     de_threaded l = DOk trodeo t /\
     TInv keycap t cs /\
     length cs = length l /\
     (forall (s : str) (k : N), nth_error cs (N.to_nat k) = Some s <-> In (s, k) l) /\
     tkey t = N.of_nat (length l)) /\
  de_threaded l <> DPanic trodeo.
Proof. exact de_threaded_spec. Qed.
Print Assumptions C14_de_threaded.

(* ---- the repaired defect F3 ---- *)

(* the unrepaired Deserialize for ThreadedRodeo sets the key counter to the highest key instead
   of one above it: after reading {"a":0,"b":1} the next new string is handed key 1, the key
   of "b" *)
Example C14_legacy_counter_refuted :
  match de_threaded_gen true false [([97], 0); ([98], 1)] with
  | DOk _ t => tkey t = 1 /\ t_resolve t 1 = Some [98] /\ snd (t_intern spur_cap t [99]) = Ok 1
  | _ => False
  end.
Proof. exact F3_legacy_counter. Qed.
Print Assumptions C14_legacy_counter_refuted.

(* the repaired one continues with a fresh key *)
Example C14_repaired_counter :
  match de_threaded [([97], 0); ([98], 1)] with
  | DOk _ t => tkey t = 2 /\ snd (t_intern spur_cap t [99]) = Ok 2
  | _ => False
  end.
Proof. exact F3_repaired_counter. Qed.
Print Assumptions C14_repaired_counter.

(* non-vacuity: an interner with an empty, a static and an oversized string is serialised; the
   document is read back as Rodeo, reader, resolver (slots 1,2,3): all equal to the source, same
   lookups; the new Rodeo keeps working (old key for an old string, fresh key 4 for a new one).
   Then the same through ThreadedRodeo (slot 4 -> document -> slot 5). *)
Example C14_nonvacuous :
  snd (run (fun _ => 0) (fun _ _ => true) (fun _ => true) 255 []
         [NewRodeo 4 64; Intern 0 []; InternStatic 0 7 [120]; Intern 0 [1;2;3;4;5;6;7;8;9]; Intern 0 [97];
          Ser 0;
          De KRodeo (DList [[]; [120]; [1;2;3;4;5;6;7;8;9]; [97]]);
          De KReader (DList [[]; [120]; [1;2;3;4;5;6;7;8;9]; [97]]);
          De KResolver (DList [[]; [120]; [1;2;3;4;5;6;7;8;9]; [97]]);
          EqOp 0 1; EqOp 0 2; EqOp 0 3; Len 1; Get 1 [97]; Get 2 [120]; Resolve 3 2; Ser 2; Ser 3;
          Intern 1 [120]; Intern 1 [55]; Resolve 1 4; Resolve 1 1;
          NewThreaded 4 64; Intern 4 [98]; Intern 4 [97]; Ser 4;
          De KThreaded (DMap [([98],0); ([97],1)]); EqOp 4 5; Get 5 [97]; Intern 5 [98]; Intern 5 [99];
          Resolve 5 2; Resolve 5 1])
  = [ONew 0; OKey 0; OKey 1; OKey 2; OKey 3;
     ODoc (DList [[]; [120]; [1;2;3;4;5;6;7;8;9]; [97]]);
     ONew 1; ONew 2; ONew 3;
     OBool true; OBool true; OBool true; ONum 4; OKey 3; OKey 1; OStr [1;2;3;4;5;6;7;8;9];
     ODoc (DList [[]; [120]; [1;2;3;4;5;6;7;8;9]; [97]]);
     ODoc (DList [[]; [120]; [1;2;3;4;5;6;7;8;9]; [97]]);
     OKey 1; OKey 4; OStr [55]; OStr [120];
     ONew 4; OKey 0; OKey 1; ODoc (DMap [([98],0); ([97],1)]);
     ONew 5; OBool true; OKey 1; OKey 0; OKey 2; OStr [99]; OStr [97]].
Proof. vm_compute. reflexivity. Qed.
Print Assumptions C14_nonvacuous.
