(* C02 — Canonical keys: equal strings share one key, different strings never do.

   "Two interning requests on the same interner return the same key if and only if their
    strings are equal; a string-to-key lookup returns that key exactly for strings that have
    been interned and nothing for all others; interning a string that is already present
    changes nothing observable (count, keys, memory).  None of this depends on the quality of
    the hasher supplied."

   Statements only; proofs are in RodeoInv.v, RodeoProofs.v, ThreadedProofs.v, WorldProofs.v.
   The abstract content of an interner is a duplicate-free list [cs] (cs[k] = string of key k)
   and every answer is a function of [cs]: get / contains answer [index_of s cs]
   ([C02_get], [C02_contains]), interning returns [index_of s cs] if present and otherwise the
   next position ([C02_intern_key]), two strings have the same position iff they are equal
   ([C02_same_key_iff_same_string]), interning a present string leaves the Rodeo record
   identical ([C02_intern_present_changes_nothing]: table, strings, arena and hence count, keys
   and memory).  Every theorem is quantified over ALL hash functions, all probe relations that
   are at least reflexive and all re-hash schedules; [C02_hash_independent] says it outright.
   Not covered here: racing threads (Conc.v / ConcInternProofs.v); hashbrown and dashmap are
   modelled by their contract ([cand], [growf]), not verified. *)
From Lasso Require Import Base Arena ArenaProofs Rodeo RodeoInv RodeoProofs ThreadedInv
  CloneSerdeProofs ThreadedProofs IterEqProofs WorldProofs.

(* hasher independence: two objects with the same abstract content, built under two different
   hashers / probe relations / re-hash schedules (and key capacities), give the same answers *)
Theorem C02_hash_independent :
  forall (hash1 : str -> N) (cand1 : N -> N -> bool) (growf1 : N -> bool) (keycap1 : N)
         (hash2 : str -> N) (cand2 : N -> N -> bool) (growf2 : N -> bool) (keycap2 : N),
  (forall h : N, cand1 h h = true) ->
  (forall h : N, cand2 h h = true) ->
  forall (w1 : world) (i1 : nat) (w2 : world) (i2 : nat) (cs : list str),
  obj_inv hash1 keycap1 (get_obj w1 i1) cs ->
  obj_inv hash2 keycap2 (get_obj w2 i2) cs ->
  is_interner (get_obj w1 i1) ->
  is_interner (get_obj w2 i2) ->
  forall (s : str) (k : N),
  snd (step hash1 cand1 growf1 keycap1 w1 (Get i1 s)) =
  snd (step hash2 cand2 growf2 keycap2 w2 (Get i2 s)) /\
  snd (step hash1 cand1 growf1 keycap1 w1 (Contains i1 s)) =
  snd (step hash2 cand2 growf2 keycap2 w2 (Contains i2 s)) /\
  snd (step hash1 cand1 growf1 keycap1 w1 (TryResolve i1 k)) =
  snd (step hash2 cand2 growf2 keycap2 w2 (TryResolve i2 k)) /\
  snd (step hash1 cand1 growf1 keycap1 w1 (Len i1)) =
  snd (step hash2 cand2 growf2 keycap2 w2 (Len i2)).
Proof.
  intros hash1 cand1 growf1 keycap1 hash2 cand2 growf2 keycap2 R1 R2 w1 i1 w2 i2 cs H1 H2 I1 I2 s k.
  assert (D1 : get_obj w1 i1 <> ODead) by (intros E; rewrite E in I1; exact I1).
  assert (D2 : get_obj w2 i2 <> ODead) by (intros E; rewrite E in I2; exact I2).
  rewrite (step_get hash1 cand1 growf1 keycap1 R1 w1 i1 s cs H1 I1),
          (step_get hash2 cand2 growf2 keycap2 R2 w2 i2 s cs H2 I2),
          (step_contains hash1 cand1 growf1 keycap1 R1 w1 i1 s cs H1 I1),
          (step_contains hash2 cand2 growf2 keycap2 R2 w2 i2 s cs H2 I2),
          (step_try_resolve hash1 cand1 growf1 keycap1 w1 i1 k cs H1 D1),
          (step_try_resolve hash2 cand2 growf2 keycap2 w2 i2 k cs H2 D2),
          (step_len hash1 cand1 growf1 keycap1 w1 i1 cs H1 D1),
          (step_len hash2 cand2 growf2 keycap2 w2 i2 cs H2 D2).
  repeat split.
Qed.
Print Assumptions C02_hash_independent.

(* positions in a list: two strings have the same position iff they are the same string *)
Theorem C02_same_key_iff_same_string :
  forall (cs : list str) (s1 s2 : str) (k1 k2 : N),
  index_of s1 cs = Some k1 -> index_of s2 cs = Some k2 -> (k1 = k2 <-> s1 = s2).
Proof.
  intros cs s1 s2 k1 k2 H1 H2. pose proof (index_of_some _ _ _ H1) as (N1 & _).
  pose proof (index_of_some _ _ _ H2) as (N2 & _). split; intros E; subst; congruence.
Qed.
Print Assumptions C02_same_key_iff_same_string.

(* the raw-entry probe, for any hasher: it finds exactly the position of the string *)
Theorem C02_table_lookup :
  forall (hash : str -> N) (cand : N -> N -> bool),
  (forall h : N, cand h h = true) ->
  forall (t : table) (strs : list sref) (a : arena) (cs : list str) (s : str),
  contents strs a = Some cs -> NoDup cs -> table_ok hash t cs ->
  tlookup cand t strs a (hash s) s = index_of s cs.
Proof. exact tlookup_spec. Qed.
Print Assumptions C02_table_lookup.

Theorem C02_rodeo_get :
  forall (hash : str -> N) (cand : N -> N -> bool) (keycap : N),
  (forall h : N, cand h h = true) ->
  forall (r : rodeo) (cs : list str) (s : str),
  RodeoInv hash keycap r cs -> r_get hash cand r s = index_of s cs.
Proof. exact r_get_spec. Qed.
Print Assumptions C02_rodeo_get.

Theorem C02_threaded_get :
  forall (keycap : N) (t : trodeo) (cs : list str) (s : str),
  TInv keycap t cs -> t_get t s = index_of s cs.
Proof. exact t_get_inv. Qed.
Print Assumptions C02_threaded_get.

(* get / contains on Rodeo, ThreadedRodeo, RodeoReader: the key exactly for interned strings *)
Theorem C02_get :
  forall (hash : str -> N) (cand : N -> N -> bool) (growf : N -> bool) (keycap : N),
  (forall h : N, cand h h = true) ->
  forall (w : world) (i : nat) (s : str) (cs : list str),
  obj_inv hash keycap (get_obj w i) cs ->
  is_interner (get_obj w i) ->
  step hash cand growf keycap w (Get i s) =
  (w, match index_of s cs with Some k => OKey k | None => ONone end).
Proof. exact step_get. Qed.
Print Assumptions C02_get.

Theorem C02_contains :
  forall (hash : str -> N) (cand : N -> N -> bool) (growf : N -> bool) (keycap : N),
  (forall h : N, cand h h = true) ->
  forall (w : world) (i : nat) (s : str) (cs : list str),
  obj_inv hash keycap (get_obj w i) cs ->
  is_interner (get_obj w i) ->
  step hash cand growf keycap w (Contains i s) =
  (w, OBool match index_of s cs with Some _ => true | None => false end).
Proof. exact step_contains. Qed.
Print Assumptions C02_contains.

(* the key of a string never changes: after any history without clear / clone_from / drop *)
Theorem C02_get_stable :
  forall (hash : str -> N) (cand : N -> N -> bool) (growf : N -> bool) (keycap : N),
  (forall h : N, cand h h = true) ->
  forall (w : world) (ops : list op) (i : nat) (cs : list str) (s : str) (k : N),
  WInv hash keycap w ->
  Forall (op_wf keycap) ops ->
  obj_inv hash keycap (get_obj w i) cs ->
  index_of s cs = Some k ->
  (forall o : op, In o ops -> ~ resets o i) ->
  let w' := fst (run hash cand growf keycap w ops) in
  is_interner (get_obj w' i) -> snd (step hash cand growf keycap w' (Get i s)) = OKey k.
Proof. exact WorldProofs.C02_get_stable. Qed.
Print Assumptions C02_get_stable.

(* a successful intern (Rodeo or ThreadedRodeo): the old key of a present string and the
   content unchanged, or the next position for a new string and the content extended by it *)
Theorem C02_intern_key :
  forall (hash : str -> N) (cand : N -> N -> bool) (growf : N -> bool) (keycap : N),
  (forall h : N, cand h h = true) ->
  forall (w : world) (i : nat) (s : str) (cs : list str) (w' : world) (k : N),
  WInv hash keycap w ->
  obj_inv hash keycap (get_obj w i) cs ->
  step hash cand growf keycap w (Intern i s) = (w', OKey k) ->
  index_of s cs = Some k /\ obj_inv hash keycap (get_obj w' i) cs \/
  index_of s cs = None /\ k = N.of_nat (length cs) /\ k < keycap /\
  obj_inv hash keycap (get_obj w' i) (cs ++ [s]).
Proof. exact step_intern_ok. Qed.
Print Assumptions C02_intern_key.

(* in both cases the key returned is the position of the string in the content afterwards,
   so by C02_same_key_iff_same_string and C02_get_stable two interning requests return the
   same key iff their strings are equal *)
Theorem C02_intern_key_is_position :
  forall (hash : str -> N) (cand : N -> N -> bool) (growf : N -> bool) (keycap : N),
  (forall h : N, cand h h = true) ->
  forall (w : world) (i : nat) (s : str) (cs : list str) (w' : world) (k : N),
  WInv hash keycap w ->
  obj_inv hash keycap (get_obj w i) cs ->
  step hash cand growf keycap w (Intern i s) = (w', OKey k) ->
  exists cs' : list str,
    (cs' = cs \/ cs' = cs ++ [s]) /\
    obj_inv hash keycap (get_obj w' i) cs' /\ index_of s cs' = Some k.
Proof.
  intros hash cand growf keycap R w i s cs w' k HW H Hst.
  destruct (step_intern_ok hash cand growf keycap R w i s cs w' k HW H Hst)
    as [(Hix & H')|(Hix & -> & _ & H')].
  - exists cs. auto.
  - exists (cs ++ [s]). split; [auto|]. split; [exact H'|].
    apply index_of_app_r. apply index_of_none. exact Hix.
Qed.
Print Assumptions C02_intern_key_is_position.

(* interning a present string returns the Rodeo record unchanged: same table, same string
   table, same arena (hence same count, same keys, same memory usage) *)
Theorem C02_intern_present_changes_nothing :
  forall (hash : str -> N) (cand : N -> N -> bool) (growf : N -> bool) (keycap : N),
  (forall h : N, cand h h = true) ->
  forall (r : rodeo) (cs : list str) (s : str) (k : N),
  RodeoInv hash keycap r cs -> index_of s cs = Some k ->
  intern hash cand growf keycap r s = (r, Ok k).
Proof.
  intros hash cand growf keycap R r cs s k Hinv Hix.
  destruct (intern hash cand growf keycap r s) as [r' X] eqn:Ei.
  destruct (intern_spec hash cand growf keycap R r cs s r' X Hinv Ei)
    as [k' Hk -> ->|Hk _ _ _|Hk _ _ _ _ _|ref Hk _ _ _ _ _]; congruence.
Qed.
Print Assumptions C02_intern_present_changes_nothing.

(* non-vacuity 1: hasher independence on a concrete history.  Left: every string hashes to 0,
   the probe compares every entry, every insert re-hashes.  Right: hash = first byte (so "ab"
   and "ac" collide, "b" does not), the probe looks only at equal hashes, never re-hashes.
   Same outputs. *)
Example C02_nonvacuous_two_hashers :
  let ops := [NewRodeo 4 64; Intern 0 [97;98]; Intern 0 [97;99]; Intern 0 [98]; Intern 0 [97;98];
              Intern 0 []; Intern 0 [97;99]; Get 0 [97;98]; Get 0 [97]; Get 0 [98]; Get 0 [];
              Contains 0 [97;99]; Contains 0 [99]; Len 0; TryResolve 0 2] in
  snd (run (fun _ => 0) (fun _ _ => true) (fun _ => true) 255 [] ops) =
  snd (run (fun s => hd 0 s) N.eqb (fun _ => false) 255 [] ops) /\
  snd (run (fun s => hd 0 s) N.eqb (fun _ => false) 255 [] ops) =
  [ONew 0; OKey 0; OKey 1; OKey 2; OKey 0; OKey 3; OKey 1; OKey 0; ONone; OKey 2; OKey 3;
   OBool true; OBool false; ONum 4; OStr [98]].
Proof. vm_compute. split; reflexivity. Qed.
Print Assumptions C02_nonvacuous_two_hashers.

(* non-vacuity 2: interning a present string returns the identical world (count, memory) *)
Example C02_nonvacuous_present :
  let h := fun _ : str => 0 in let c := fun _ _ : N => true in let g := fun _ : N => true in
  let w := fst (run h c g 3 [] [NewRodeo 4 15; Intern 0 [97]; Intern 0 [98;99;100;101;102]]) in
  step h c g 3 w (Intern 0 [97]) = (w, OKey 0) /\
  step h c g 3 w (Intern 0 [98;99;100;101;102]) = (w, OKey 1) /\
  snd (step h c g 3 w (CurMem 0)) = ONum 12.
Proof. vm_compute. repeat split. Qed.
Print Assumptions C02_nonvacuous_present.

(* non-vacuity 3: the same for the concurrent interner used by one thread *)
Example C02_nonvacuous_threaded :
  snd (run (fun _ => 0) (fun _ _ => true) (fun _ => true) 255 []
         [NewThreaded 4 64; Intern 0 [97;98]; Intern 0 [97;99]; Intern 0 [97;98]; Get 0 [97;99];
          Get 0 [97]; Contains 0 [97;98]; Len 0])
  = [ONew 0; OKey 0; OKey 1; OKey 0; OKey 1; ONone; OBool true; ONum 2].
Proof. vm_compute. reflexivity. Qed.
Print Assumptions C02_nonvacuous_threaded.
