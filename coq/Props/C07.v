(* C07 — Failed interning changes nothing; exhaustion is reported exactly at capacity.

   "When interning cannot succeed because the key type has no unused key left or the memory
    limit would be exceeded, the fallible calls report the matching error without panicking
    and leave count, every existing key-string pair and every lookup answer unchanged (the
    failed string stays absent), while the infallible calls panic in exactly those cases.  A
    key type that admits N keys lets exactly N distinct strings in: never fewer, never one
    more, and never by handing out a key already in use."

   Statements only; proofs are in RodeoProofs.v, ThreadedProofs.v, WorldProofs.v.
   [C07_rodeo_outcomes] / [C07_rodeo_static_outcomes] / [C07_threaded_outcomes] list every
   possible outcome of one interning call on an object with abstract content [cs] (cs[k] = the
   string of key k, no duplicates): KeySpaceExhaustion exactly when the string is new and
   length cs >= keycap, MemoryLimitReached only when the string is new, non-empty and
   usage + len > limit, and in both cases the Rodeo record is returned unchanged (r' = r);
   a new key is always length cs (< keycap, so never one in use).  The [step] theorems say the
   same for any slot of a world, where by C01/C02/C10 all lookups are functions of [cs].
   A ThreadedRodeo that fails for lack of keys keeps its content but has stored the orphaned
   string in its arena and drawn a counter value ([to_keys] case: tmap, tstrs unchanged).
   Not covered here: threads racing for the last keys (ConcInternProofs.v). *)
From Lasso Require Import Base Arena ArenaProofs Rodeo RodeoInv RodeoProofs ThreadedInv
  CloneSerdeProofs ThreadedProofs IterEqProofs WorldProofs.

(* Rodeo::try_get_or_intern: the four outcomes *)
Theorem C07_rodeo_outcomes :
  forall (hash : str -> N) (cand : N -> N -> bool) (growf : N -> bool) (keycap : N),
  (forall h : N, cand h h = true) ->
  forall (r : rodeo) (cs : list str) (s : str) (r' : rodeo) (R : res N),
  RodeoInv hash keycap r cs ->
  intern hash cand growf keycap r s = (r', R) ->
  (* present: old key, nothing changes *)
  (exists k, index_of s cs = Some k /\ r' = r /\ R = Ok k) \/
  (* new, no key left: error, nothing changes *)
  (index_of s cs = None /\ keycap <= N.of_nat (length cs) /\ r' = r /\ R = Err KeySpaceExhaustion) \/
  (* new, a key is left, no room under the limit: error, nothing changes *)
  (index_of s cs = None /\ N.of_nat (length cs) < keycap /\ r' = r /\ R = Err MemoryLimitReached /\
   s <> [] /\ limit (rar r) < usage (rar r) + slen s) \/
  (* new: the key is the old count, the content is extended by s *)
  (exists ref, index_of s cs = None /\ N.of_nat (length cs) < keycap /\
     R = Ok (N.of_nat (length cs)) /\ RodeoInv hash keycap r' (cs ++ [s]) /\
     rstrs r' = rstrs r ++ [ref] /\ store_post (rar r) (rar r') s (Ok ref)).
Proof.
  intros hash cand growf keycap C r cs s r' R Hinv Hi.
  destruct (intern_spec hash cand growf keycap C r cs s r' R Hinv Hi)
    as [k H1 H2 H3|H1 H2 H3 H4|H1 H2 H3 H4 H5 H6|ref H1 H2 H3 H4 H5 H6].
  - left. exists k. auto.
  - right. left. auto.
  - right. right. left. exact (conj H1 (conj H2 (conj H3 (conj H4 (conj H5 H6))))).
  - right. right. right. exists ref. exact (conj H1 (conj H2 (conj H3 (conj H4 (conj H5 H6))))).
Qed.
Print Assumptions C07_rodeo_outcomes.

(* Rodeo::try_get_or_intern_static: no memory is needed, so three outcomes *)
Theorem C07_rodeo_static_outcomes :
  forall (hash : str -> N) (cand : N -> N -> bool) (growf : N -> bool) (keycap : N),
  (forall h : N, cand h h = true) ->
  forall (r : rodeo) (cs : list str) (addr : N) (s : str) (r' : rodeo) (R : res N),
  RodeoInv hash keycap r cs ->
  intern_static hash cand growf keycap r addr s = (r', R) ->
  (exists k, index_of s cs = Some k /\ r' = r /\ R = Ok k) \/
  (index_of s cs = None /\ keycap <= N.of_nat (length cs) /\ r' = r /\ R = Err KeySpaceExhaustion) \/
  (index_of s cs = None /\ N.of_nat (length cs) < keycap /\
   R = Ok (N.of_nat (length cs)) /\ RodeoInv hash keycap r' (cs ++ [s]) /\
   rstrs r' = rstrs r ++ [RStatic addr s] /\ rar r' = rar r).
Proof.
  intros hash cand growf keycap C r cs addr s r' R Hinv Hi.
  destruct (intern_static_spec hash cand growf keycap C r cs addr s r' R Hinv Hi)
    as [k H1 H2 H3|H1 H2 H3 H4|H1 H2 H3 H4 H5 H6].
  - left. exists k. auto.
  - right. left. auto.
  - right. right. exact (conj H1 (conj H2 (conj H3 (conj H4 (conj H5 H6))))).
Qed.
Print Assumptions C07_rodeo_static_outcomes.

(* ThreadedRodeo::try_get_or_intern used by one thread *)
Theorem C07_threaded_outcomes :
  forall (keycap : N) (t : trodeo) (cs : list str) (s : str) (t' : trodeo) (R : res N),
  TInv keycap t cs ->
  t_intern keycap t s = (t', R) ->
  (exists k, index_of s cs = Some k /\ t' = t /\ R = Ok k) \/
  (index_of s cs = None /\ t' = t /\ R = Err MemoryLimitReached /\
   s <> [] /\ limit (tar t) < usage (tar t) + slen s) \/
  (index_of s cs = None /\ R = Err KeySpaceExhaustion /\ keycap <= N.of_nat (length cs) /\
   TInv keycap t' cs /\ tmap t' = tmap t /\ tstrs t' = tstrs t /\ tkey t' = tkey t + 1) \/
  (index_of s cs = None /\ R = Ok (N.of_nat (length cs)) /\ N.of_nat (length cs) < keycap /\
   TInv keycap t' (cs ++ [s])).
Proof.
  intros keycap t cs s t' R Hinv Hi.
  destruct (t_intern_spec keycap t cs s t' R Hinv Hi)
    as [k H1 H2 H3|H1 H2 H3 H4 H5|ref H1 H2 H3 H4 _ H6 H7 H8 _ _|ref H1 H2 H3 H4 _ _ _].
  - left. exists k. auto.
  - right. left. exact (conj H1 (conj H2 (conj H3 (conj H4 H5)))).
  - right. right. left. exact (conj H1 (conj H2 (conj H3 (conj H4 (conj H6 (conj H7 H8)))))).
  - right. right. right. exact (conj H1 (conj H2 (conj H3 H4))).
Qed.
Print Assumptions C07_threaded_outcomes.

(* no interner ever holds more strings than the key type has keys *)
Theorem C07_rodeo_at_most_keycap :
  forall (hash : str -> N) (keycap : N) (r : rodeo) (cs : list str),
  RodeoInv hash keycap r cs -> N.of_nat (length cs) <= keycap.
Proof. intros hash keycap r cs (_ & _ & _ & H). exact H. Qed.
Print Assumptions C07_rodeo_at_most_keycap.

Theorem C07_threaded_at_most_keycap :
  forall (keycap : N) (t : trodeo) (cs : list str), TInv keycap t cs -> N.of_nat (length cs) <= keycap.
Proof. exact TInv_len_le_keycap. Qed.
Print Assumptions C07_threaded_at_most_keycap.

(* ... and never fewer: while fewer than keycap strings are held, interning a new static string
   (which needs no memory) succeeds with the next key *)
Theorem C07_rodeo_exactly_keycap :
  forall (hash : str -> N) (cand : N -> N -> bool) (growf : N -> bool) (keycap : N),
  (forall h : N, cand h h = true) ->
  forall (r : rodeo) (cs : list str) (addr : N) (s : str),
  RodeoInv hash keycap r cs -> index_of s cs = None ->
  (N.of_nat (length cs) < keycap ->
     snd (intern_static hash cand growf keycap r addr s) = Ok (N.of_nat (length cs))) /\
  (keycap <= N.of_nat (length cs) ->
     intern_static hash cand growf keycap r addr s = (r, Err KeySpaceExhaustion)).
Proof.
  intros hash cand growf keycap C r cs addr s Hinv Hix.
  destruct (intern_static hash cand growf keycap r addr s) as [r' R] eqn:Ei.
  destruct (intern_static_spec hash cand growf keycap C r cs addr s r' R Hinv Ei)
    as [k H1 H2 H3|H1 H2 H3 H4|H1 H2 H3 H4 H5 H6]; [congruence| |]; subst; cbn [snd]; split; intros H;
    try reflexivity; lia.
Qed.
Print Assumptions C07_rodeo_exactly_keycap.

(* on any slot of a world (Rodeo or ThreadedRodeo): a reported error leaves the abstract
   content — hence every lookup, resolve, len and iteration answer — as it was, the failed
   string was and stays absent, and KeySpaceExhaustion means the key type is full *)
Theorem C07_failed_intern :
  forall (hash : str -> N) (cand : N -> N -> bool) (growf : N -> bool) (keycap : N),
  (forall h : N, cand h h = true) ->
  forall (w : world) (i : nat) (s : str) (cs : list str) (w' : world) (e : err),
  WInv hash keycap w ->
  obj_inv hash keycap (get_obj w i) cs ->
  step hash cand growf keycap w (Intern i s) = (w', OErr e) ->
  obj_inv hash keycap (get_obj w' i) cs /\
  index_of s cs = None /\ (e = KeySpaceExhaustion -> keycap <= N.of_nat (length cs)).
Proof. exact step_intern_err. Qed.
Print Assumptions C07_failed_intern.

Theorem C07_failed_intern_static :
  forall (hash : str -> N) (cand : N -> N -> bool) (growf : N -> bool) (keycap : N),
  (forall h : N, cand h h = true) ->
  forall (w : world) (i : nat) (addr : N) (s : str) (cs : list str) (w' : world) (e : err),
  WInv hash keycap w ->
  obj_inv hash keycap (get_obj w i) cs ->
  step hash cand growf keycap w (InternStatic i addr s) = (w', OErr e) ->
  obj_inv hash keycap (get_obj w' i) cs /\
  index_of s cs = None /\ (e = KeySpaceExhaustion -> keycap <= N.of_nat (length cs)).
Proof. exact step_intern_static_err. Qed.
Print Assumptions C07_failed_intern_static.

(* for a Rodeo the whole world is literally unchanged by a failed intern *)
Theorem C07_failed_intern_rodeo_identical :
  forall (hash : str -> N) (cand : N -> N -> bool) (growf : N -> bool) (keycap : N),
  (forall h : N, cand h h = true) ->
  forall (w : world) (i : nat) (s : str) (r : rodeo) (cs : list str) (w' : world) (e : err),
  get_obj w i = ORodeo r ->
  RodeoInv hash keycap r cs ->
  step hash cand growf keycap w (Intern i s) = (w', OErr e) -> w' = w.
Proof. exact step_intern_err_rodeo. Qed.
Print Assumptions C07_failed_intern_rodeo_identical.

(* a successful intern hands out the key of the present string, or else the old count, which
   is below keycap and (being the count) not the key of any existing string *)
Theorem C07_successful_intern :
  forall (hash : str -> N) (cand : N -> N -> bool) (growf : N -> bool) (keycap : N),
  (forall h : N, cand h h = true) ->
  forall (w : world) (i : nat) (s : str) (cs : list str) (w' : world) (k : N),
  WInv hash keycap w ->
  obj_inv hash keycap (get_obj w i) cs ->
  step hash cand growf keycap w (Intern i s) = (w', OKey k) ->
  index_of s cs = Some k /\ obj_inv hash keycap (get_obj w' i) cs \/
  index_of s cs = None /\ k = N.of_nat (length cs) /\ k < keycap /\
  obj_inv hash keycap (get_obj w' i) (cs ++ [s]).
Proof. exact step_intern_ok. Qed.
Print Assumptions C07_successful_intern.

Theorem C07_successful_intern_static :
  forall (hash : str -> N) (cand : N -> N -> bool) (growf : N -> bool) (keycap : N),
  (forall h : N, cand h h = true) ->
  forall (w : world) (i : nat) (addr : N) (s : str) (cs : list str) (w' : world) (k : N),
  WInv hash keycap w ->
  obj_inv hash keycap (get_obj w i) cs ->
  step hash cand growf keycap w (InternStatic i addr s) = (w', OKey k) ->
  index_of s cs = Some k /\ obj_inv hash keycap (get_obj w' i) cs \/
  index_of s cs = None /\ k = N.of_nat (length cs) /\ k < keycap /\
  obj_inv hash keycap (get_obj w' i) (cs ++ [s]).
Proof. exact step_intern_static_ok. Qed.
Print Assumptions C07_successful_intern_static.

(* the infallible calls: a panic of get_or_intern(_static) means the fallible call reports an
   error in the same state (and for every other operation [panic_cause] names the reason:
   unknown key for resolve, too many strings for deserialize, a failed intern for
   from_iter / extend; nothing else ever panics) *)
Theorem C07_panic_only_when_fallible_errs :
  forall (hash : str -> N) (cand : N -> N -> bool) (growf : N -> bool) (keycap : N),
  (forall h : N, cand h h = true) ->
  forall (w : world) (o : op),
  WInv hash keycap w ->
  op_wf keycap o ->
  snd (step hash cand growf keycap w o) = OPanic -> panic_cause hash cand growf keycap w o.
Proof. exact step_panic. Qed.
Print Assumptions C07_panic_only_when_fallible_errs.

Theorem C07_intern_panics_iff_errs :
  forall (hash : str -> N) (cand : N -> N -> bool) (growf : N -> bool) (keycap : N)
         (w : world) (i : nat) (s : str),
  (snd (step hash cand growf keycap w (InternP i s)) = OPanic <->
   exists e, snd (step hash cand growf keycap w (Intern i s)) = OErr e) /\
  fst (step hash cand growf keycap w (InternP i s)) = fst (step hash cand growf keycap w (Intern i s)).
Proof.
  intros hash cand growf keycap w i s. cbn [step].
  destruct (get_obj w i) as [r|t|r|strs a|]; cbn [fst snd];
    try (split; [split; [discriminate|intros (e & H); discriminate H]|reflexivity]).
  - destruct (intern hash cand growf keycap r s) as [r' [k|e]]; cbn [fst snd out_of_res out_of_resP];
      (split; [split; [try discriminate; eauto|intros (e' & H); try discriminate H; reflexivity]|reflexivity]).
  - destruct (t_intern keycap t s) as [t' [k|e]]; cbn [fst snd out_of_res out_of_resP];
      (split; [split; [try discriminate; eauto|intros (e' & H); try discriminate H; reflexivity]|reflexivity]).
Qed.
Print Assumptions C07_intern_panics_iff_errs.

(* non-vacuity 1: a key type with 3 keys, 4-byte blocks under a 15-byte limit, constant hasher.
   Three strings go in with keys 0,1,2; the fourth is refused with KeySpaceExhaustion (copied
   and static alike, repeatedly), the infallible call panics; count, lookups, resolution and
   memory are as before and present strings still intern to their keys *)
Example C07_nonvacuous_keys :
  snd (run (fun _ => 0) (fun _ _ => true) (fun _ => true) 3 []
         [NewRodeo 4 15; Intern 0 [97]; Intern 0 [98]; InternStatic 0 7 [99]; CurMem 0;
          Intern 0 [100]; InternStatic 0 9 [100]; InternP 0 [100]; Intern 0 [100];
          Len 0; Get 0 [100]; Get 0 [98]; TryResolve 0 2; TryResolve 0 3; CurMem 0; Intern 0 [97]])
  = [ONew 0; OKey 0; OKey 1; OKey 2; ONum 4;
     OErr KeySpaceExhaustion; OErr KeySpaceExhaustion; OPanic; OErr KeySpaceExhaustion;
     ONum 3; ONone; OKey 1; OStr [99]; ONone; ONum 4; OKey 0].
Proof. vm_compute. reflexivity. Qed.
Print Assumptions C07_nonvacuous_keys.

(* non-vacuity 2: the memory limit.  4 + 8 bytes are allocated, 3 are left under the limit 15;
   a 9-byte string is refused and the world is literally the same afterwards; a 3-byte string
   still fits *)
Example C07_nonvacuous_memory :
  let h := fun _ : str => 0 in let c := fun _ _ : N => true in let g := fun _ : N => true in
  let w := fst (run h c g 255 [] [NewRodeo 4 15; Intern 0 [97;98;99]; Intern 0 [100;101;102;103;104;105;106]]) in
  step h c g 255 w (Intern 0 [1;2;3;4;5;6;7;8;9]) = (w, OErr MemoryLimitReached) /\
  snd (step h c g 255 w (InternP 0 [1;2;3;4;5;6;7;8;9])) = OPanic /\
  snd (run h c g 255 w [CurMem 0; Intern 0 [1;2;3;4;5;6;7;8;9]; Len 0; Get 0 [1;2;3;4;5;6;7;8;9];
                        Intern 0 [1;2;3]; CurMem 0; Resolve 0 0; Resolve 0 2])
  = [ONum 12; OErr MemoryLimitReached; ONum 2; ONone; OKey 2; ONum 15; OStr [97;98;99]; OStr [1;2;3]].
Proof. vm_compute. repeat split. Qed.
Print Assumptions C07_nonvacuous_memory.

(* non-vacuity 3: the concurrent interner used by one thread, 2 keys *)
Example C07_nonvacuous_threaded :
  snd (run (fun _ => 0) (fun _ _ => true) (fun _ => true) 2 []
         [NewThreaded 4 64; Intern 0 [97]; Intern 0 [98]; Intern 0 [99]; InternStatic 0 5 [100];
          Len 0; Get 0 [99]; Intern 0 [98]; Resolve 0 1])
  = [ONew 0; OKey 0; OKey 1; OErr KeySpaceExhaustion; OErr KeySpaceExhaustion;
     ONum 2; ONone; OKey 1; OStr [98]].
Proof. vm_compute. reflexivity. Qed.
Print Assumptions C07_nonvacuous_threaded.
