(* C03 — Concurrent interning is atomic: one key per string under every schedule.
   "When any number of threads intern, look up and resolve strings on one shared concurrent interner, all calls
    for equal strings return the same key, calls for different strings return different keys, and any key a thread has
    obtained resolves to its string immediately and forever after.  Once an interning call has returned, every later
    lookup of that string finds it, and when all threads are done the keys in use are exactly 0..count-1 with count
    equal to the number of distinct strings successfully interned."
   The theorems quantify over every number of threads, every program (list of calls) per thread, every schedule and
   spurious compare-exchange failure ([reachable] is the closure of the executable [step]), every placement of strings
   into shards ([shard_of] arbitrary), every key capacity, every block size and limit.  [t_outs] is the recorded history
   of completed calls.  Granularity: one step = one shared-memory event (the lasso_verif points); weak-memory
   reorderings are outside this (sequentially consistent) model.  Statements only; proofs in ConcInternProofs.v,
   ConcArenaProofs.v, ConcTheorems.v. *)
From Lasso Require Import Base Arena Conc ConcInv ConcArenaProofs ConcInternProofs ConcTheorems.

Theorem C03_one_key_per_string :
  forall (shard_of : str -> N) (keycap cap lim : N) (progs : list (list call)), 0 < cap ->
  forall c t1 t2 cl1 cl2 k1 k2 s1 s2,
    reachable shard_of keycap (init cap lim progs) c ->
    In t1 (c_threads c) -> In t2 (c_threads c) ->
    In (cl1, ROk k1) (t_outs t1) -> In (cl2, ROk k2) (t_outs t2) ->
    str_of_call cl1 = Some s1 -> str_of_call cl2 = Some s2 ->
    (s1 = s2 <-> k1 = k2).
Proof. exact conc_same_key_iff. Qed.
Print Assumptions C03_one_key_per_string.

Theorem C03_key_resolves_at_once_and_forever :
  forall (shard_of : str -> N) (keycap cap lim : N) (progs : list (list call)), 0 < cap ->
  forall c c2 t cl k s,
    reachable shard_of keycap (init cap lim progs) c ->
    In t (c_threads c) -> In (cl, ROk k) (t_outs t) -> str_of_call cl = Some s ->
    reachable shard_of keycap c c2 ->
    exists r, strs_get c2 k = Some r /\ read (as_arena c2) r = Some s.
Proof. exact conc_resolves_forever. Qed.
Print Assumptions C03_key_resolves_at_once_and_forever.

Theorem C03_visible_after_return :
  forall (shard_of : str -> N) (keycap cap lim : N) (progs : list (list call)), 0 < cap ->
  forall c t cl k s,
    reachable shard_of keycap (init cap lim progs) c ->
    In t (c_threads c) -> In (cl, ROk k) (t_outs t) -> intern_of cl s ->
    map_get c s = Some k.
Proof. exact conc_visible_after_return. Qed.
Print Assumptions C03_visible_after_return.

Theorem C03_dense_at_quiescence :
  forall (shard_of : str -> N) (keycap cap lim : N) (progs : list (list call)), 0 < cap ->
  forall c,
    reachable shard_of keycap (init cap lim progs) c -> quiescent c ->
    (forall e, In e (c_strs c) <-> In e (c_map c)) /\
    (forall k, In k (keys_of (c_strs c)) <-> k < N.min (c_key c) keycap) /\
    NoDup (keys_of (c_strs c)) /\
    N.of_nat (length (c_strs c)) = N.min (c_key c) keycap /\
    (forall s, In s (strs_of (c_strs c)) <->
               exists t cl k, In t (c_threads c) /\ In (cl, ROk k) (t_outs t) /\ intern_of cl s) /\
    NoDup (strs_of (c_strs c)).
Proof. exact conc_dense_when_quiescent. Qed.
Print Assumptions C03_dense_at_quiescence.

Theorem C03_never_more_than_capacity :
  forall (shard_of : str -> N) (keycap cap lim : N) (progs : list (list call)), 0 < cap ->
  forall c, reachable shard_of keycap (init cap lim progs) c ->
    AInv c /\ JInv' shard_of keycap c /\ N.of_nat (length (c_strs c)) <= keycap.
Proof. exact reachable_invariants. Qed.
Print Assumptions C03_never_more_than_capacity.

(* non-vacuity: two threads race for the same string and for the last key of a 2-key type *)
Example C03_nonvacuous :
  let sh (s : str) : N := match s with x :: _ => x | [] => 0 end in
  let c0 := init 4 100 [[CIntern [97]; CIntern [98]]; [CIntern [97]; CIntern [99]; CGet [98]]] in
  let c := run_sched_gen sh 2 true c0 (concat (repeat [(0%nat, false); (1%nat, false); (1%nat, true)] 60)) in
  map (fun t => map snd (t_outs t)) (c_threads c) =
    [[RErr KeySpaceExhaustion; ROk 0]; [RNone; ROk 1; ROk 0]] /\ keys_of (c_strs c) = [0; 1].
(* newest answer first: thread 0 got key 0 for "a" and was refused "b" (both keys taken); thread 1 got the SAME key 0
   for "a", key 1 for "c", and did not find "b" *)
Proof. vm_compute. split; reflexivity. Qed.
Print Assumptions C03_nonvacuous.
