(* C18 — Equality between interners and views means equal content, nothing else.

   "Comparing any two of interner, concurrent interner, reader and resolver (in every supported
    pairing and direction) answers 'equal' exactly when both hold the same number of strings
    and the same string under every key; the answer is reflexive, agrees in both directions
    where both exist, and does not depend on hasher, capacity, memory limit, or whether strings
    were copied or static."

   Statements only; proofs are in IterEqProofs.v and ThreadedProofs.v.  [eq_obj x y] is the
   model of `x == y` (None where the crate has no impl for the pairing: nothing == ThreadedRodeo
   except ThreadedRodeo).  For the list-shaped objects (Rodeo, reader, resolver, in all nine
   pairings) the answer is the comparison of the two content lists ([C18_list], [C18_list_iff]:
   same count and the same string under every key), symmetric and reflexive.  For
   ThreadedRodeo == ThreadedRodeo and ThreadedRodeo == list-shaped object the answer is
   [true] iff the abstract contents are equal lists ([C18_threaded_threaded],
   [C18_threaded_list]).  The content list mentions neither hasher nor capacity nor limit nor
   the kind of reference (copied / static / empty), and the theorems quantify over all of
   them: [C18_world] states it on a world for objects built under the same model parameters.
   Not covered: comparisons while another thread is interning. *)
From Lasso Require Import Base Arena ArenaProofs Rodeo RodeoInv RodeoProofs ThreadedInv
  CloneSerdeProofs ThreadedProofs IterEqProofs WorldProofs.

(* Rodeo / RodeoReader / RodeoResolver, any pairing: equality of the content lists *)
Theorem C18_list :
  forall (keycap : N) (x y : obj) (s1 : list sref) (a1 : arena) (s2 : list sref) (a2 : arena)
         (cs1 cs2 : list str),
  obj_strs x = Some (s1, a1) ->
  obj_strs y = Some (s2, a2) ->
  contents s1 a1 = Some cs1 ->
  contents s2 a2 = Some cs2 ->
  eq_obj keycap x y = Some (list_str_eqb cs1 cs2).
Proof. exact eq_obj_list. Qed.
Print Assumptions C18_list.

(* 'equal' exactly when same count and the same string under every key *)
Theorem C18_list_iff :
  forall (keycap : N) (x y : obj) (s1 : list sref) (a1 : arena) (s2 : list sref) (a2 : arena)
         (cs1 cs2 : list str),
  obj_strs x = Some (s1, a1) ->
  obj_strs y = Some (s2, a2) ->
  contents s1 a1 = Some cs1 ->
  contents s2 a2 = Some cs2 ->
  eq_obj keycap x y = Some true <->
  length cs1 = length cs2 /\ (forall k : nat, nth_error cs1 k = nth_error cs2 k).
Proof. exact eq_obj_list_iff. Qed.
Print Assumptions C18_list_iff.

(* both directions agree *)
Theorem C18_list_sym :
  forall (keycap : N) (x y : obj) (s1 : list sref) (a1 : arena) (s2 : list sref) (a2 : arena)
         (cs1 cs2 : list str),
  obj_strs x = Some (s1, a1) ->
  obj_strs y = Some (s2, a2) ->
  contents s1 a1 = Some cs1 ->
  contents s2 a2 = Some cs2 ->
  eq_obj keycap x y = eq_obj keycap y x.
Proof. exact eq_obj_list_sym. Qed.
Print Assumptions C18_list_sym.

(* reflexive *)
Theorem C18_list_refl :
  forall (keycap : N) (x : obj) (s : list sref) (a : arena) (cs : list str),
  obj_strs x = Some (s, a) -> contents s a = Some cs -> eq_obj keycap x x = Some true.
Proof. exact eq_obj_list_refl. Qed.
Print Assumptions C18_list_refl.

(* ThreadedRodeo == ThreadedRodeo (same length and every left entry found right) *)
Theorem C18_threaded_threaded :
  forall (keycap : N) (t u : trodeo) (cs cs' : list str),
  TInv keycap t cs ->
  TInv keycap u cs' ->
  exists b : bool, eq_obj keycap (OThreaded t) (OThreaded u) = Some b /\ (b = true <-> cs = cs').
Proof. exact eq_threaded_threaded. Qed.
Print Assumptions C18_threaded_threaded.

(* ThreadedRodeo == Rodeo / reader / resolver *)
Theorem C18_threaded_list :
  forall (keycap : N) (t : trodeo) (cs : list str) (y : obj) (strs : list sref) (a : arena)
         (cs' : list str),
  TInv keycap t cs ->
  obj_strs y = Some (strs, a) ->
  contents strs a = Some cs' ->
  N.of_nat (length cs') <= keycap ->
  exists b : bool, eq_obj keycap (OThreaded t) y = Some b /\ (b = true <-> cs = cs').
Proof. exact eq_threaded_list. Qed.
Print Assumptions C18_threaded_list.

(* on a world: for two list-shaped slots with abstract contents cs1, cs2 — whatever hasher,
   block capacities, limits and reference kinds they were built with — `==` answers whether
   cs1 = cs2 *)
Theorem C18_world :
  forall (hash : str -> N) (cand : N -> N -> bool) (growf : N -> bool) (keycap : N)
         (w : world) (i j : nat) (cs1 cs2 : list str)
         (s1 : list sref) (a1 : arena) (s2 : list sref) (a2 : arena),
  obj_inv hash keycap (get_obj w i) cs1 ->
  obj_inv hash keycap (get_obj w j) cs2 ->
  obj_strs (get_obj w i) = Some (s1, a1) ->
  obj_strs (get_obj w j) = Some (s2, a2) ->
  step hash cand growf keycap w (EqOp i j) = (w, OBool (list_str_eqb cs1 cs2)) /\
  (list_str_eqb cs1 cs2 = true <-> cs1 = cs2).
Proof.
  intros hash cand growf keycap w i j cs1 cs2 s1 a1 s2 a2 H1 H2 E1 E2.
  split; [|apply list_str_eqb_eq]. cbn [step].
  rewrite (eq_obj_list keycap _ _ _ _ _ _ cs1 cs2 E1 E2
             (obj_inv_contents hash keycap _ _ _ _ H1 E1) (obj_inv_contents hash keycap _ _ _ _ H2 E2)).
  reflexivity.
Qed.
Print Assumptions C18_world.

(* non-vacuity: slot 0 copies its strings into 4-byte blocks under a limit; slot 1 holds the same
   strings as statics in one big block without limit; slot 2 the same in another order; slot 3
   a strict prefix; slot 4 same count, one string differs; slot 5 empty; slot 6 a ThreadedRodeo
   with the content of slot 0; views of slot 1.  Pairings without an impl answer OUnsupported *)
Example C18_nonvacuous :
  snd (run (fun _ => 0) (fun _ _ => true) (fun _ => true) 255 []
         [NewRodeo 4 30; Intern 0 [97]; Intern 0 [98;99;100;101;102]; Intern 0 [];
          NewRodeo 4096 18446744073709551615; InternStatic 1 7 [97]; InternStatic 1 8 [98;99;100;101;102];
          InternStatic 1 9 [];
          NewRodeo 4 30; Intern 2 [98;99;100;101;102]; Intern 2 [97]; Intern 2 [];
          NewRodeo 4 30; Intern 3 [97]; Intern 3 [98;99;100;101;102];
          NewRodeo 4 30; Intern 4 [97]; Intern 4 [98;99;100;101;103]; Intern 4 [];
          NewRodeo 4 30;
          NewThreaded 4 64; Intern 6 [97]; Intern 6 [98;99;100;101;102]; Intern 6 [];
          EqOp 0 1; EqOp 1 0; EqOp 0 0; EqOp 0 2; EqOp 0 3; EqOp 3 0; EqOp 0 4; EqOp 0 5; EqOp 5 5;
          EqOp 6 0; EqOp 6 6; EqOp 6 2; EqOp 0 6;
          IntoReader 1; EqOp 0 1; EqOp 1 0; IntoResolver 1; EqOp 0 1; EqOp 1 0; EqOp 6 1; EqOp 1 3])
  = [ONew 0; OKey 0; OKey 1; OKey 2; ONew 1; OKey 0; OKey 1; OKey 2;
     ONew 2; OKey 0; OKey 1; OKey 2; ONew 3; OKey 0; OKey 1; ONew 4; OKey 0; OKey 1; OKey 2;
     ONew 5; ONew 6; OKey 0; OKey 1; OKey 2;
     OBool true; OBool true; OBool true; OBool false; OBool false; OBool false; OBool false;
     OBool false; OBool true;
     OBool true; OBool true; OBool false; OUnsupported;
     OUnit; OBool true; OBool true; OUnit; OBool true; OBool true; OBool true; OBool false].
Proof. vm_compute. reflexivity. Qed.
Print Assumptions C18_nonvacuous.
