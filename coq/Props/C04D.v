(* C04D — the allocation discipline behind the last clause of C04.
   "No sequence of safe API calls makes the library ... free memory twice or leak it. ... and all
    blocks are released exactly once when the interner and the views derived from it are gone."

   DEALLOCATION ITSELF IS NOT MODELLED: the Coq models have no free.  What is proved here is what
   the models can say about it: the set of blocks that the real [Drop] walks (every node of the
   AtomicBucketList from its head / every element of the Arena's Vec, each deallocated with the
   layout computed from the capacity stored in it) is EXACTLY the set of blocks ever allocated,
   each exactly once, each with the capacity it was allocated with; and the view conversions
   MOVE the arena (one owner per arena), they never copy it.
     1. concurrent arena, every schedule ([C04D_step_blocks] ... [C04D_quiescent_walk]): in every
        reachable state every identity handed out by the allocator counter belongs to exactly one
        existing block — in the published list or in the hands of exactly one thread; no step
        drops a block (a call cannot fail while it holds an unpublished block); capacities never
        change; with no call in flight the published list holds all of them.
     2. sequential arenas ([C04D_vec_store_blocks] ... [C04D_drop_frees_lockfree]): the same for
        vec_store / lf_store / clear / set_limit and every history of them; [drop_frees a], one
        (address, capacity) pair per dealloc of Drop, has pairwise different addresses, exactly
        the ones allocated.
     3. world ([C04D_views_keep_arena] ... [C04D_world_drop_exact]): what each operation does to
        the list of arenas that exist.
   Whether the real code then frees each of them once and only once (and nothing else) is not a
   theorem: the leak / double-free / invalid-free behaviour of the implementation is monitored by
   the tracking allocator in the harness.  Statements only; proofs in ConcAlloc.v. *)
From Lasso Require Import Base Arena ArenaProofs Conc ConcInv ConcArenaProofs ConcAlloc.
From Coq Require Import Permutation.

(* ================= 1. the concurrent arena ================= *)

(* One step of one thread, any schedule: the multiset of (identity, capacity) pairs of ALL
   existing blocks (published list ++ the unpublished block each thread may hold) is unchanged,
   or it gains exactly the pair (allocator counter, cap) and the counter is bumped. *)
Theorem C04D_step_blocks :
  forall (shard_of : str -> N) (keycap : N) (c : cstate) (tid : nat) (ch : bool) (c' : cstate),
    Conc.step shard_of keycap c tid ch = Some c' ->
    (c_next_bid c' = c_next_bid c /\
     Permutation (map (fun b => (bid b, bcap b)) (all_blocks c))
                 (map (fun b => (bid b, bcap b)) (all_blocks c'))) \/
    (exists cap, c_next_bid c' = c_next_bid c + 1 /\
                 Permutation ((c_next_bid c, cap) :: map (fun b => (bid b, bcap b)) (all_blocks c))
                             (map (fun b => (bid b, bcap b)) (all_blocks c'))).
Proof. exact step_idcap. Qed.
Print Assumptions C04D_step_blocks.

(* a thread that holds an unpublished block either still holds it after its step or has
   published it: no path of the model (memory limit, key space, CAS failure) drops it *)
Theorem C04D_inflight_not_dropped :
  forall (shard_of : str -> N) (keycap : N) (c : cstate) (tid : nat) (ch : bool) (c' : cstate)
         (t : thread) (blk : block),
    Conc.step shard_of keycap c tid ch = Some c' -> nth_error (c_threads c) tid = Some t ->
    inflight_block t = Some blk ->
    (exists t', nth_error (c_threads c') tid = Some t' /\ inflight_block t' = Some blk) \/
    In blk (c_blocks c').
Proof. exact inflight_not_dropped. Qed.
Print Assumptions C04D_inflight_not_dropped.

(* the invariant "every identity below the allocator counter is the identity of an existing block" *)
Theorem C04D_alloc_complete_init :
  forall (cap lim : N) (progs : list (list call)) (id : N),
    id < c_next_bid (init cap lim progs) -> In id (map bid (all_blocks (init cap lim progs))).
Proof. exact init_alloc_complete. Qed.
Print Assumptions C04D_alloc_complete_init.

Theorem C04D_alloc_complete_step :
  forall (shard_of : str -> N) (keycap : N) (c : cstate) (tid : nat) (ch : bool) (c' : cstate),
    AInv' c ->
    (forall id, id < c_next_bid c -> In id (map bid (all_blocks c))) ->
    Conc.step shard_of keycap c tid ch = Some c' ->
    (forall id, id < c_next_bid c' -> In id (map bid (all_blocks c'))).
Proof. exact step_alloc_complete. Qed.
Print Assumptions C04D_alloc_complete_step.

Theorem C04D_alloc_complete_reachable :
  forall (shard_of : str -> N) (keycap : N) (c0 c : cstate),
    (forall id, id < c_next_bid c0 -> In id (map bid (all_blocks c0))) ->
    Conc.reachable shard_of keycap c0 c ->
    (forall id, id < c_next_bid c -> In id (map bid (all_blocks c))).
Proof. exact reachable_alloc_complete. Qed.
Print Assumptions C04D_alloc_complete_reachable.

(* in every reachable state the existing blocks are, as identities, exactly 0 .. next_bid-1, each once *)
Theorem C04D_blocks_exact :
  forall (shard_of : str -> N) (keycap cap lim : N) (progs : list (list call)) (c : cstate),
    0 < cap -> Conc.reachable shard_of keycap (init cap lim progs) c ->
    (forall id, id < c_next_bid c <-> In id (map bid (all_blocks c))) /\
    NoDup (map bid (all_blocks c)) /\
    Permutation (map bid (all_blocks c)) (map N.of_nat (seq 0 (N.to_nat (c_next_bid c)))).
Proof. exact reachable_blocks_exact. Qed.
Print Assumptions C04D_blocks_exact.

(* a step never changes the capacity recorded in a block (the layout Drop deallocates with) *)
Theorem C04D_capacity_stable :
  forall (shard_of : str -> N) (keycap : N) (c : cstate) (tid : nat) (ch : bool) (c' : cstate),
    AInv' c -> Conc.step shard_of keycap c tid ch = Some c' ->
    forall id b, find_block id (all_blocks c) = Some b ->
                 exists b', find_block id (all_blocks c') = Some b' /\ bcap b' = bcap b.
Proof. exact step_keeps_capacity. Qed.
Print Assumptions C04D_capacity_stable.

(* THE corollary: when no call is in flight (in particular when the ThreadedRodeo is dropped:
   Drop needs exclusive ownership), the list walked by AtomicBucketList::drop visits every block
   ever allocated exactly once — no leak, no double free at the level of the model *)
Theorem C04D_quiescent_walk :
  forall (shard_of : str -> N) (keycap cap lim : N) (progs : list (list call)) (c : cstate),
    0 < cap -> Conc.reachable shard_of keycap (init cap lim progs) c -> quiescent c ->
    (forall id, id < c_next_bid c <-> In id (map bid (c_blocks c))) /\
    NoDup (map bid (c_blocks c)) /\
    N.of_nat (length (c_blocks c)) = c_next_bid c /\
    Permutation (map bid (c_blocks c)) (map N.of_nat (seq 0 (N.to_nat (c_next_bid c)))).
Proof. exact C04_quiescent_walk. Qed.
Print Assumptions C04D_quiescent_walk.

(* ... and [map bcap (c_blocks c)] are the capacities they were allocated with: a block that
   existed at any earlier moment is in the final list, same identity, same capacity *)
Theorem C04D_quiescent_capacities :
  forall (shard_of : str -> N) (keycap : N) (c c2 : cstate),
    Conc.reachable shard_of keycap c c2 -> quiescent c2 ->
    forall b, In b (all_blocks c) ->
              exists b', In b' (c_blocks c2) /\ bid b' = bid b /\ bcap b' = bcap b.
Proof. exact C04_quiescent_capacities. Qed.
Print Assumptions C04D_quiescent_capacities.

(* ================= 2. the sequential arenas ================= *)

(* identities only grow, capacities never change *)
Theorem C04D_vec_store_blocks :
  forall (a : arena) (s : str) (a' : arena) (R : res sref),
    vec_store a s = (a', R) ->
    (forall b, In b (blocks a) -> exists b', In b' (blocks a') /\ bid b' = bid b /\ bcap b' = bcap b) /\
    (forall b', In b' (blocks a') -> (exists b, In b (blocks a) /\ bid b = bid b') \/ bid b' = next_bid a).
Proof. exact vec_store_blocks. Qed.
Print Assumptions C04D_vec_store_blocks.

Theorem C04D_lf_store_blocks :
  forall (a : arena) (s : str) (a' : arena) (R : res sref),
    lf_store a s = (a', R) ->
    (forall b, In b (blocks a) -> exists b', In b' (blocks a') /\ bid b' = bid b /\ bcap b' = bcap b) /\
    (forall b', In b' (blocks a') -> (exists b, In b (blocks a) /\ bid b = bid b') \/ bid b' = next_bid a).
Proof. exact lf_store_blocks. Qed.
Print Assumptions C04D_lf_store_blocks.

Theorem C04D_clear_blocks :
  forall (a : arena),
    (forall b, In b (blocks a) ->
       exists b', In b' (blocks (arena_clear a)) /\ bid b' = bid b /\ bcap b' = bcap b) /\
    (forall b', In b' (blocks (arena_clear a)) -> exists b, In b (blocks a) /\ bid b = bid b').
Proof. exact arena_clear_blocks. Qed.
Print Assumptions C04D_clear_blocks.

(* the invariant, from a fresh arena through any history of stores, limit changes and clears *)
Theorem C04D_alloc_complete_seq :
  forall (ops : list aop) (cap lim : N),
    (let a := fold_left (astep vec_store) ops (arena_new cap lim) in
     (forall id, id < next_bid a <-> In id (map bid (blocks a))) /\ NoDup (map bid (blocks a))) /\
    (let a := fold_left (astep lf_store) ops (arena_new cap lim) in
     (forall id, id < next_bid a <-> In id (map bid (blocks a))) /\ NoDup (map bid (blocks a))).
Proof.
  intros ops cap lim. split.
  - exact (history_alloc_inv vec_store ops vec_store_alloc_rel _ (arena_new_alloc_inv cap lim)).
  - exact (history_alloc_inv lf_store ops lf_store_alloc_rel _ (arena_new_alloc_inv cap lim)).
Qed.
Print Assumptions C04D_alloc_complete_seq.

(* a block seen at any moment of a history is still there at the end, with the same capacity *)
Theorem C04D_history_keeps_blocks :
  forall (ops : list aop) (a : arena) (b : block), In b (blocks a) ->
    (exists b', In b' (blocks (fold_left (astep vec_store) ops a)) /\ bid b' = bid b /\ bcap b' = bcap b) /\
    (exists b', In b' (blocks (fold_left (astep lf_store) ops a)) /\ bid b' = bid b /\ bcap b' = bcap b).
Proof.
  intros ops a b Hb. split.
  - exact (history_keeps_blocks vec_store ops vec_store_alloc_rel a b Hb).
  - exact (history_keeps_blocks lf_store ops lf_store_alloc_rel a b Hb).
Qed.
Print Assumptions C04D_history_keeps_blocks.

(* [drop_frees a] = map (fun b => (bid b, bcap b)) (blocks a): what Drop deallocates *)
Theorem C04D_drop_frees_single_threaded :
  forall (ops : list aop) (cap lim : N),
    let a := fold_left (astep vec_store) ops (arena_new cap lim) in
    drop_frees a = map (fun b => (bid b, bcap b)) (blocks a) /\
    NoDup (map fst (drop_frees a)) /\
    (forall id, In id (map fst (drop_frees a)) <-> id < next_bid a) /\
    N.of_nat (length (drop_frees a)) = next_bid a.
Proof. intros ops cap lim. split; [reflexivity|]. exact (drop_frees_history_vec ops cap lim). Qed.
Print Assumptions C04D_drop_frees_single_threaded.

Theorem C04D_drop_frees_lockfree :
  forall (ops : list aop) (cap lim : N),
    let a := fold_left (astep lf_store) ops (arena_new cap lim) in
    drop_frees a = map (fun b => (bid b, bcap b)) (blocks a) /\
    NoDup (map fst (drop_frees a)) /\
    (forall id, In id (map fst (drop_frees a)) <-> id < next_bid a) /\
    N.of_nat (length (drop_frees a)) = next_bid a.
Proof. intros ops cap lim. split; [reflexivity|]. exact (drop_frees_history_lf ops cap lim). Qed.
Print Assumptions C04D_drop_frees_lockfree.

(* ================= 3. the world: one owner per arena ================= *)
From Lasso Require Import Rodeo RodeoInv WorldProofs.

(* into_reader / into_resolver re-wrap the SAME arena value; no other slot changes; the list of
   arenas that exist is unchanged (so a conversion never makes a second owner of a block) *)
Theorem C04D_views_keep_arena :
  forall (hash : str -> N) (cand : N -> N -> bool) (growf : N -> bool) (keycap : N),
    (forall h, cand h h = true) ->
    forall (w : world) (o : op) (i : nat),
      WInv hash keycap w -> o = IntoReader i \/ o = IntoResolver i ->
      let w' := fst (Rodeo.step hash cand growf keycap w o) in
      obj_arena (get_obj w' i) = obj_arena (get_obj w i) /\
      (forall j, j <> i -> get_obj w' j = get_obj w j) /\
      slot_arenas w' = slot_arenas w /\ arenas_of w' = arenas_of w /\ length w' = length w.
Proof. exact views_keep_arena. Qed.
Print Assumptions C04D_views_keep_arena.

(* what EVERY operation does to the list of existing arenas ([arenas_of w]: one entry per live
   object, in slot order): nothing; the op's own slot updated in place by stores / clears / limit
   changes; one fresh arena (grown from [arena_new]) appended; exactly the slot's arena removed *)
Theorem C04D_step_arenas :
  forall (hash : str -> N) (cand : N -> N -> bool) (growf : N -> bool) (keycap : N)
         (w : world) (o : op),
    let w' := fst (Rodeo.step hash cand growf keycap w o) in
    let x := snd (Rodeo.step hash cand growf keycap w o) in
    let same := arenas_of w' = arenas_of w in
    let inplace i :=
      exists l1 l2 a a', obj_arena (get_obj w i) = Some a /\
                         arenas_of w = l1 ++ a :: l2 /\ arenas_of w' = l1 ++ a' :: l2 /\
                         arena_evolves a a' in
    let fresh :=
      exists cap lim a, arenas_of w' = arenas_of w ++ [a] /\ arena_evolves (arena_new cap lim) a in
    let dropped i :=
      exists l1 l2, arenas_of w = l1 ++ optl (obj_arena (get_obj w i)) ++ l2 /\
                    arenas_of w' = l1 ++ l2 in
    match o with
    | IntoReader i | IntoResolver i => same \/ (x = OFault /\ dropped i)
    | Drop i => dropped i
    | Clone _ | NewRodeo _ _ | NewThreaded _ _ | De _ _ | FromIter _ _ => same \/ fresh
    | Intern i _ | InternStatic i _ _ | InternP i _ | InternStaticP i _ _
    | Clear i | SetLimit i _ | CloneFrom i _ | Extend i _ => same \/ inplace i
    | _ => same
    end.
Proof. intros hash cand growf keycap w o. exact (step_arenas_of hash cand growf keycap w o). Qed.
Print Assumptions C04D_step_arenas.

Theorem C04D_drop_loses_arena :
  forall (hash : str -> N) (cand : N -> N -> bool) (growf : N -> bool) (keycap : N)
         (w : world) (i : nat),
    let w' := fst (Rodeo.step hash cand growf keycap w (Drop i)) in
    exists l1 l2, arenas_of w = l1 ++ optl (obj_arena (get_obj w i)) ++ l2 /\
                  arenas_of w' = l1 ++ l2.
Proof. exact drop_loses_arena. Qed.
Print Assumptions C04D_drop_loses_arena.

(* every arena of every world reachable from nothing has exactly the blocks ever allocated in it:
   whenever an object is dropped, its Drop frees pairwise different blocks, exactly those *)
Theorem C04D_world_drop_exact :
  forall (hash : str -> N) (cand : N -> N -> bool) (growf : N -> bool) (keycap : N)
         (ops : list op) (i : nat) (a : arena),
    obj_arena (get_obj (fst (Rodeo.run hash cand growf keycap [] ops)) i) = Some a ->
    NoDup (map fst (drop_frees a)) /\
    (forall id, In id (map fst (drop_frees a)) <-> id < next_bid a) /\
    N.of_nat (length (drop_frees a)) = next_bid a.
Proof. exact world_drop_exact. Qed.
Print Assumptions C04D_world_drop_exact.

(* ================= non-vacuity ================= *)

(* three threads, 2-byte initial block, two calls each (the last string needs an oversized
   block).  Lock-step for 16 rounds: identities 2 and 3 are allocated but unpublished, in the
   hands of two different threads; then thread 2 publishes before thread 1, so the final list is
   not in allocation order.  At the end: 5 identities handed out, the published list holds
   0..4 each once, with the capacities they were allocated with. *)
Example C04D_nonvacuous_concurrent :
  let sh (s : str) : N := match s with x :: _ => x | [] => 0 end in
  let big := [98;99;99;99;99;99;99;99;99;99;99;99;99;99;99;99;99;99;99;99;99;99;99] in
  let c0 := init 2 1000 [[CIntern [97;97;97]; CIntern [97;98]];
                         [CIntern [98;98;98]; CIntern big];
                         [CIntern [99;99;99]; CIntern [99]]] in
  let rr := [(0%nat, false); (1%nat, false); (2%nat, false)] in
  let cm := run_sched_gen sh 10 true c0 (concat (repeat rr 16)) in
  let c := run_sched_gen sh 10 true cm
             ([(2%nat, false); (2%nat, false); (1%nat, false); (1%nat, false)] ++ concat (repeat rr 60)) in
  (map (fun b => (bid b, bcap b)) (c_blocks cm) = [(1, 4); (0, 2)] /\
   map (fun b => (bid b, bcap b)) (inflight_blocks cm) = [(2, 4); (3, 4)] /\ c_next_bid cm = 4) /\
  (map (fun b => (bid b, bcap b)) (c_blocks c) = [(4, 23); (2, 4); (3, 4); (1, 4); (0, 2)] /\
   c_next_bid c = 5 /\ map t_pc (c_threads c) = [PIdle; PIdle; PIdle] /\
   map (fun t => length (t_prog t)) (c_threads c) = [0; 0; 0]%nat /\
   c_usage c = 37).
Proof. vm_compute. repeat split; reflexivity. Qed.
Print Assumptions C04D_nonvacuous_concurrent.

(* a Rodeo with three blocks (one inserted out of order by the oversized path), its clone with
   one block; the two conversions keep both arenas; Drop removes exactly the first *)
Example C04D_nonvacuous_world :
  let h (s : str) : N := 0 in
  let cd (a b : N) := true in
  let gf (n : N) := false in
  let big := [105;105;105;105;105;105;105;105;105;105;105;105;105;105;105;105;105;105;105;105] in
  let w1 := fst (Rodeo.run h cd gf 100 []
                   [NewRodeo 4 100; Intern 0 [97;98;99]; Intern 0 [100;101;102;103;104];
                    Intern 0 big; Clone 0]) in
  let w2 := fst (Rodeo.run h cd gf 100 w1 [IntoReader 0; IntoResolver 0]) in
  let w3 := fst (Rodeo.run h cd gf 100 w2 [Drop 0]) in
  map drop_frees (arenas_of w1) = [[(2, 20); (0, 4); (1, 8)]; [(0, 28)]] /\
  map drop_frees (arenas_of w2) = [[(2, 20); (0, 4); (1, 8)]; [(0, 28)]] /\
  map drop_frees (arenas_of w3) = [[(0, 28)]].
Proof. vm_compute. repeat split; reflexivity. Qed.
Print Assumptions C04D_nonvacuous_world.
