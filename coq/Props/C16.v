(* C16 — Interning a 'static string stores that very reference, without copying (sequential part).

   "Interning a new string through the static entry points makes the interner hand back the
    caller's own bytes - same address and length - on every resolution path and in every view
    derived later, and consumes no arena memory.  This is so through every route to those entry
    points: inherent methods, the interner trait, references and boxed or dynamically
    dispatched interners; if an equal string is already present its existing key is returned
    and nothing is replaced."

   Statements only; proofs are in RodeoProofs.v and ThreadedProofs.v.  The model records what
   the interner stores per key as an [sref]: [RStatic addr s] is the caller's own reference
   (identity [addr], content [s]), [RArena b off len] a copy in the arena.
   [C16_rodeo_static_outcomes]: try_get_or_intern_static on a Rodeo either finds the string
   present (old key, record unchanged: nothing replaced), or has no key left (record
   unchanged), or appends exactly [RStatic addr s] to the string table, under the key
   [length cs], and leaves the arena IDENTICAL (rar r' = rar r: no memory consumed, no byte
   written).  [C16_rodeo_same_reference] reads that entry back through the key.
   [C16_threaded_static_outcomes] is the same for the ThreadedRodeo used by one thread (the
   dense key -> reference table [refs] of the invariant witness [TW] is extended by exactly
   [RStatic addr s]; the arena is identical).  Later operations only append to the string table
   and views re-wrap the same table (C06), so the reference stays what it is.
   Not covered here: the trait / reference / Box routes (C17: they call the same function; the
   model has one entry point), racing threads (Conc.v). *)
From Lasso Require Import Base Arena ArenaProofs Rodeo RodeoInv RodeoProofs ThreadedInv
  CloneSerdeProofs ThreadedProofs IterEqProofs WorldProofs.

Theorem C16_rodeo_static_outcomes :
  forall (hash : str -> N) (cand : N -> N -> bool) (growf : N -> bool) (keycap : N),
  (forall h : N, cand h h = true) ->
  forall (r : rodeo) (cs : list str) (addr : N) (s : str) (r' : rodeo) (R : res N),
  RodeoInv hash keycap r cs ->
  intern_static hash cand growf keycap r addr s = (r', R) ->
  (* an equal string is present: its key, nothing replaced *)
  (exists k, index_of s cs = Some k /\ r' = r /\ R = Ok k) \/
  (* new, no key left *)
  (index_of s cs = None /\ keycap <= N.of_nat (length cs) /\ r' = r /\ R = Err KeySpaceExhaustion) \/
  (* new: the caller's reference itself is appended; the arena is untouched *)
  (index_of s cs = None /\ N.of_nat (length cs) < keycap /\
   R = Ok (N.of_nat (length cs)) /\ RodeoInv hash keycap r' (cs ++ [s]) /\
   rstrs r' = rstrs r ++ [RStatic addr s] /\ rar r' = rar r).
Proof.
  intros hash cand growf keycap C r cs addr s r' R Hinv Hi.
  destruct (intern_static_spec hash cand growf keycap C r cs addr s r' R Hinv Hi)
    as [k H1 H2 H3|H1 H2 H3 H4|H1 H2 H3 H4 H5 H6].
  - left. exists k. auto.
  - right. left. auto.
  - right. right. exact (conj H1 (conj H2 (conj H3 (conj H4 (conj H5 H6))))).
Qed.
Print Assumptions C16_rodeo_static_outcomes.

(* the reference stored under the new key is the caller's: same address, same bytes *)
Theorem C16_rodeo_same_reference :
  forall (hash : str -> N) (cand : N -> N -> bool) (growf : N -> bool) (keycap : N),
  (forall h : N, cand h h = true) ->
  forall (r : rodeo) (cs : list str) (addr : N) (s : str) (r' : rodeo) (k : N),
  RodeoInv hash keycap r cs ->
  index_of s cs = None ->
  intern_static hash cand growf keycap r addr s = (r', Ok k) ->
  strs_resolve_ref (rstrs r') k = Some (RStatic addr s) /\
  strs_resolve (rstrs r') (rar r') k = Some s /\
  rar r' = rar r.
Proof.
  intros hash cand growf keycap C r cs addr s r' k Hinv Hix Hi.
  pose proof Hinv as (_ & (_ & _ & Hc & _) & _). apply contents_length in Hc.
  destruct (intern_static_spec hash cand growf keycap C r cs addr s r' (Ok k) Hinv Hi)
    as [k' H1 _ _|_ _ _ H4|_ _ H3 _ H5 H6]; [congruence|discriminate H4|].
  inversion H3; subst k. rewrite H5, Hc.
  unfold strs_resolve_ref, strs_resolve, strs_contains_key, key_str.
  rewrite app_length, Nat2N.id, nth_error_app2, Nat.sub_diag by lia. cbn [length nth_error read].
  rewrite (proj2 (N.ltb_lt _ _)) by lia. auto.
Qed.
Print Assumptions C16_rodeo_same_reference.

(* ThreadedRodeo::try_get_or_intern_static used by one thread.  [TW keycap t cs refs]: the
   invariant TInv with its witness, the dense key -> reference table [refs], made explicit *)
Theorem C16_threaded_static_outcomes :
  forall (keycap : N) (t : trodeo) (cs : list str) (addr : N) (s : str) (t' : trodeo) (R : res N),
  TInv keycap t cs ->
  t_intern_static keycap t addr s = (t', R) ->
  (exists k, index_of s cs = Some k /\ t' = t /\ R = Ok k) \/
  (index_of s cs = None /\ R = Err KeySpaceExhaustion /\ keycap <= N.of_nat (length cs) /\
   TInv keycap t' cs /\ tmap t' = tmap t /\ tstrs t' = tstrs t /\ tar t' = tar t) \/
  (index_of s cs = None /\ R = Ok (N.of_nat (length cs)) /\ N.of_nat (length cs) < keycap /\
   TInv keycap t' (cs ++ [s]) /\
   (forall refs : list sref,
      TW keycap t cs refs -> TW keycap t' (cs ++ [s]) (refs ++ [RStatic addr s])) /\
   tar t' = tar t).
Proof.
  intros keycap t cs addr s t' R Hinv Hi.
  destruct (t_intern_static_spec keycap t cs addr s t' R Hinv Hi)
    as [k H1 H2 H3|H1 H2 H3 H4 _ H6 H7 _ H9|H1 H2 H3 H4 H5 H6 _].
  - left. exists k. auto.
  - right. left. exact (conj H1 (conj H2 (conj H3 (conj H4 (conj H6 (conj H7 H9)))))).
  - right. right. exact (conj H1 (conj H2 (conj H3 (conj H4 (conj H5 H6))))).
Qed.
Print Assumptions C16_threaded_static_outcomes.

(* what a key of a ThreadedRodeo refers to is the entry of that table *)
Theorem C16_threaded_reference_of_key :
  forall (keycap : N) (t : trodeo) (cs : list str) (k : N),
  TInv keycap t cs ->
  exists refs : list sref,
    TW keycap t cs refs /\ t_ref t k = nth_error refs (N.to_nat k) /\
    length refs = length cs /\ (k < N.of_nat (length cs) <-> t_ref t k <> None).
Proof. exact t_ref_inv. Qed.
Print Assumptions C16_threaded_reference_of_key.

(* non-vacuity: 4-byte blocks; a static string far larger than any block and an empty static
   string are interned between copied ones: memory usage does not move, the string table holds
   the caller's references (addresses 7000, 7001), an equal copied string is not replaced by a
   later static one (address 7002 never stored), and the resolver view holds the same table *)
Example C16_nonvacuous :
  let h := fun _ : str => 0 in let c := fun _ _ : N => true in let g := fun _ : N => true in
  let big := [1;2;3;4;5;6;7;8;9;10;11;12;13;14;15;16;17;18;19;20] in
  let (w, outs) := run h c g 255 []
       [NewRodeo 4 8; Intern 0 [97]; CurMem 0; InternStatic 0 7000 big; CurMem 0;
        InternStatic 0 7001 []; InternStatic 0 7002 [97]; InternStatic 0 7003 big; CurMem 0;
        Resolve 0 1; Resolve 0 2; Get 0 big; Intern 0 big; IntoResolver 0; Resolve 0 1] in
  outs = [ONew 0; OKey 0; ONum 4; OKey 1; ONum 4; OKey 2; OKey 0; OKey 1; ONum 4;
          OStr big; OStr []; OKey 1; OKey 1; OUnit; OStr big] /\
  match get_obj w 0 with
  | OResolver strs a =>
      strs = [RArena 0 0 1; RStatic 7000 big; RStatic 7001 []] /\
      strs_resolve_ref strs 1 = Some (RStatic 7000 big) /\ usage a = 4 /\ length (blocks a) = 1%nat
  | _ => False
  end.
Proof. vm_compute. repeat split. Qed.
Print Assumptions C16_nonvacuous.

(* the same on the concurrent interner used by one thread *)
Example C16_nonvacuous_threaded :
  let h := fun _ : str => 0 in let c := fun _ _ : N => true in let g := fun _ : N => true in
  let big := [1;2;3;4;5;6;7;8;9;10;11;12;13;14;15;16;17;18;19;20] in
  let (w, outs) := run h c g 255 []
       [NewThreaded 4 8; Intern 0 [97]; InternStatic 0 7000 big; InternStatic 0 7002 [97];
        CurMem 0; Resolve 0 1] in
  outs = [ONew 0; OKey 0; OKey 1; OKey 0; ONum 4; OStr big] /\
  match get_obj w 0 with
  | OThreaded t => t_ref t 1 = Some (RStatic 7000 big) /\ t_ref t 0 = Some (RArena 0 0 1)
  | _ => False
  end.
Proof. vm_compute. repeat split. Qed.
Print Assumptions C16_nonvacuous_threaded.
