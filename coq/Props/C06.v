(* C06 — Reader and resolver views preserve every association of their source.

   "Turning an interner into a reader or a resolver, by any route (directly, reader to
    resolver, boxed or through the conversion traits, from the single-threaded or the
    concurrent interner), preserves every key-to-string pair, the count and the iteration
    order, and for readers every string-to-key answer including 'absent'.  Keys minted before
    the conversion stay valid, and any number of threads may query a view at once and all get
    the same answers."

   Statements only; proofs are in ThreadedProofs.v and WorldProofs.v.  From a Rodeo the views
   are the SAME record re-wrapped: same lookup table, same string table, same arena
   ([C06_rodeo_routes], [C06_reader_route]), so the abstract content [cs] (cs[k] = string of
   key k) is unchanged ([C06_rodeo_views_content]).  From a ThreadedRodeo the two maps are
   converted (scatter by key, re-hash): whenever the invariant holds the conversion does not
   fault and the view satisfies its invariant with the same content [cs]
   ([C06_threaded_into_reader], [C06_threaded_into_resolver], and [C06_threaded_routes] on a
   world).  [C06_same_content_same_answers] then gives the property: two objects of any kind
   with the same content answer try_resolve / resolve / len / is_empty / contains_key
   identically, and get / contains too when both have a string -> key direction, and both
   iterators too when both are list-shaped.  All these queries return the world unchanged
   (they are reads), which is the model-level reason why concurrent readers agree.
   Not covered: the Box / trait routes (one entry point in the model, see C17); actual
   concurrent reader schedules on the Rust side (views are immutable + Sync; checked by tests). *)
From Lasso Require Import Base Arena ArenaProofs Rodeo RodeoInv RodeoProofs ThreadedInv
  CloneSerdeProofs ThreadedProofs IterEqProofs WorldProofs.

(* Rodeo -> reader, Rodeo -> resolver: the same table, strings and arena, re-wrapped *)
Theorem C06_rodeo_routes :
  forall (hash : str -> N) (cand : N -> N -> bool) (growf : N -> bool) (keycap : N)
         (w : world) (i : nat) (r : rodeo),
  get_obj w i = ORodeo r ->
  step hash cand growf keycap w (IntoReader i) = (set_obj w i (OReader r), OUnit) /\
  step hash cand growf keycap w (IntoResolver i) = (set_obj w i (OResolver (rstrs r) (rar r)), OUnit).
Proof. intros hash cand growf keycap w i r E. cbn [step]. rewrite E. split; reflexivity. Qed.
Print Assumptions C06_rodeo_routes.

(* reader -> resolver *)
Theorem C06_reader_route :
  forall (hash : str -> N) (cand : N -> N -> bool) (growf : N -> bool) (keycap : N)
         (w : world) (i : nat) (r : rodeo),
  get_obj w i = OReader r ->
  step hash cand growf keycap w (IntoResolver i) = (set_obj w i (OResolver (rstrs r) (rar r)), OUnit).
Proof. intros hash cand growf keycap w i r E. cbn [step]. rewrite E. reflexivity. Qed.
Print Assumptions C06_reader_route.

(* ... and these views have the content of the Rodeo *)
Theorem C06_rodeo_views_content :
  forall (hash : str -> N) (keycap : N) (r : rodeo) (cs : list str),
  obj_inv hash keycap (ORodeo r) cs ->
  obj_inv hash keycap (OReader r) cs /\ obj_inv hash keycap (OResolver (rstrs r) (rar r)) cs.
Proof. intros hash keycap r cs H. split; [exact H|exact (rodeo_as_resolver hash keycap r cs H)]. Qed.
Print Assumptions C06_rodeo_views_content.

(* ThreadedRodeo -> reader: no fault; full reader invariant with the same content; same arena;
   the string table is the one into_resolver builds *)
Theorem C06_threaded_into_reader :
  forall (hash : str -> N) (cand : N -> N -> bool) (growf : N -> bool) (keycap : N)
         (t : trodeo) (cs : list str),
  TInv keycap t cs ->
  exists r : rodeo,
    t_into_reader hash cand growf t = Some r /\
    RodeoInv hash keycap r cs /\ rar r = tar t /\ t_strings t = Some (rstrs r).
Proof. exact t_into_reader_inv. Qed.
Print Assumptions C06_threaded_into_reader.

(* ThreadedRodeo -> resolver: no fault (no out-of-range scatter, no hole); valid, disjoint
   references reading as the same content *)
Theorem C06_threaded_into_resolver :
  forall (keycap : N) (t : trodeo) (cs : list str),
  TInv keycap t cs ->
  exists refs : list sref, t_strings t = Some refs /\ strs_ok refs (tar t) cs.
Proof. exact t_strings_inv. Qed.
Print Assumptions C06_threaded_into_resolver.

(* on a world *)
Theorem C06_threaded_routes :
  forall (hash : str -> N) (cand : N -> N -> bool) (growf : N -> bool) (keycap : N)
         (w : world) (i : nat) (t : trodeo) (cs : list str),
  get_obj w i = OThreaded t ->
  TInv keycap t cs ->
  (exists r : rodeo,
     step hash cand growf keycap w (IntoReader i) = (set_obj w i (OReader r), OUnit) /\
     obj_inv hash keycap (OReader r) cs) /\
  (exists refs : list sref,
     step hash cand growf keycap w (IntoResolver i) = (set_obj w i (OResolver refs (tar t)), OUnit) /\
     obj_inv hash keycap (OResolver refs (tar t)) cs).
Proof.
  intros hash cand growf keycap w i t cs E H. cbn [step]. rewrite E. split.
  - destruct (t_into_reader_inv hash cand growf keycap t cs H) as (r & Hr & Hinv & _).
    exists r. rewrite Hr. split; [reflexivity|exact Hinv].
  - destruct (t_strings_inv keycap t cs H) as (refs & Hs & (H1 & H2 & H3 & _)).
    exists refs. rewrite Hs. split; [reflexivity|].
    exact (conj (proj1 H) (conj H1 (conj H2 H3))).
Qed.
Print Assumptions C06_threaded_routes.

(* the property: every answer is a function of the content, so source and view agree *)
Theorem C06_same_content_same_answers :
  forall (hash : str -> N) (cand : N -> N -> bool) (growf : N -> bool) (keycap : N),
  (forall h : N, cand h h = true) ->
  forall (w1 : world) (i1 : nat) (w2 : world) (i2 : nat) (cs : list str),
  obj_inv hash keycap (get_obj w1 i1) cs ->
  obj_inv hash keycap (get_obj w2 i2) cs ->
  get_obj w1 i1 <> ODead ->
  get_obj w2 i2 <> ODead ->
  (* key -> string, count, membership: all kinds of object *)
  (forall k : N,
     snd (step hash cand growf keycap w1 (TryResolve i1 k)) =
     snd (step hash cand growf keycap w2 (TryResolve i2 k)) /\
     snd (step hash cand growf keycap w1 (Resolve i1 k)) =
     snd (step hash cand growf keycap w2 (Resolve i2 k)) /\
     snd (step hash cand growf keycap w1 (ContainsKey i1 k)) =
     snd (step hash cand growf keycap w2 (ContainsKey i2 k))) /\
  snd (step hash cand growf keycap w1 (Len i1)) = snd (step hash cand growf keycap w2 (Len i2)) /\
  snd (step hash cand growf keycap w1 (IsEmpty i1)) = snd (step hash cand growf keycap w2 (IsEmpty i2)) /\
  (* string -> key, including 'absent': interners and readers *)
  (is_interner (get_obj w1 i1) -> is_interner (get_obj w2 i2) ->
   forall s : str,
     snd (step hash cand growf keycap w1 (Get i1 s)) = snd (step hash cand growf keycap w2 (Get i2 s)) /\
     snd (step hash cand growf keycap w1 (Contains i1 s)) =
     snd (step hash cand growf keycap w2 (Contains i2 s))) /\
  (* iteration order, any plan: Rodeo, reader, resolver *)
  ((forall t, get_obj w1 i1 <> OThreaded t) -> (forall t, get_obj w2 i2 <> OThreaded t) ->
   forall plan : list iop,
     snd (step hash cand growf keycap w1 (StringsOp i1 plan)) =
     snd (step hash cand growf keycap w2 (StringsOp i2 plan)) /\
     (N.of_nat (length cs) <= keycap ->
      snd (step hash cand growf keycap w1 (IterOp i1 plan)) =
      snd (step hash cand growf keycap w2 (IterOp i2 plan)))).
Proof.
  intros hash cand growf keycap C w1 i1 w2 i2 cs H1 H2 D1 D2.
  split; [|split; [|split; [|split]]].
  - intros k.
    rewrite (step_try_resolve hash cand growf keycap w1 i1 k cs H1 D1),
            (step_try_resolve hash cand growf keycap w2 i2 k cs H2 D2),
            (step_resolve hash cand growf keycap w1 i1 k cs H1 D1),
            (step_resolve hash cand growf keycap w2 i2 k cs H2 D2),
            (step_contains_key hash cand growf keycap w1 i1 k cs H1 D1),
            (step_contains_key hash cand growf keycap w2 i2 k cs H2 D2).
    repeat split.
  - rewrite (step_len hash cand growf keycap w1 i1 cs H1 D1),
            (step_len hash cand growf keycap w2 i2 cs H2 D2). reflexivity.
  - rewrite (step_is_empty hash cand growf keycap w1 i1 cs H1 D1),
            (step_is_empty hash cand growf keycap w2 i2 cs H2 D2). reflexivity.
  - intros I1 I2 s.
    rewrite (step_get hash cand growf keycap C w1 i1 s cs H1 I1),
            (step_get hash cand growf keycap C w2 i2 s cs H2 I2),
            (step_contains hash cand growf keycap C w1 i1 s cs H1 I1),
            (step_contains hash cand growf keycap C w2 i2 s cs H2 I2).
    split; reflexivity.
  - intros T1 T2 plan.
    rewrite (step_strings hash cand growf keycap w1 i1 plan cs H1 D1 T1),
            (step_strings hash cand growf keycap w2 i2 plan cs H2 D2 T2).
    split; [reflexivity|]. intros Hk.
    rewrite (step_iter hash cand growf keycap w1 i1 plan cs H1 D1 T1 (fun _ _ _ => Hk)),
            (step_iter hash cand growf keycap w2 i2 plan cs H2 D2 T2 (fun _ _ _ => Hk)).
    reflexivity.
Qed.
Print Assumptions C06_same_content_same_answers.

(* non-vacuity: the same probes before the conversion, on the reader, on the resolver: a
   Rodeo with an empty, a static, an oversized string that had been cleared and refilled *)
Example C06_nonvacuous_rodeo :
  let h := fun _ : str => 0 in let c := fun _ _ : N => true in let g := fun _ : N => true in
  let w := fst (run h c g 255 []
              [NewRodeo 4 64; Intern 0 [50]; Clear 0; Intern 0 []; InternStatic 0 7 [120];
               Intern 0 [1;2;3;4;5;6;7;8;9]; Intern 0 [97]]) in
  let probes := [Get 0 [97]; Get 0 [50]; Contains 0 []; Resolve 0 2; TryResolve 0 4; Len 0;
                 IterOp 0 [INext; INextBack; INext; INext; INext]; StringsOp 0 [INextBack; ILen]] in
  let answers := [OKey 3; ONone; OBool true; OStr [1;2;3;4;5;6;7;8;9]; ONone; ONum 4;
                  OItems [ItSome 0 []; ItSome 3 [97]; ItSome 1 [120]; ItSome 2 [1;2;3;4;5;6;7;8;9]; ItNone];
                  OItems [ItSome 3 [97]; ItLen 3]] in
  snd (run h c g 255 w probes) = answers /\
  snd (run h c g 255 w (IntoReader 0 :: probes)) = OUnit :: answers /\
  snd (run h c g 255 w (IntoReader 0 :: IntoResolver 0 :: skipn 3 probes)) = OUnit :: OUnit :: skipn 3 answers /\
  snd (run h c g 255 w (IntoResolver 0 :: [Get 0 [97]])) = [OUnit; OUnsupported].
Proof. vm_compute. repeat split. Qed.
Print Assumptions C06_nonvacuous_rodeo.

(* the same from the concurrent interner (used by one thread before the conversion) *)
Example C06_nonvacuous_threaded :
  let h := fun s : str => hd 0 s in let c := N.eqb in let g := fun _ : N => false in
  let w := fst (run h c g 255 []
              [NewThreaded 4 64; Intern 0 []; InternStatic 0 7 [120];
               Intern 0 [1;2;3;4;5;6;7;8;9]; Intern 0 [97]]) in
  let probes := [Get 0 [97]; Get 0 [50]; Contains 0 []; Resolve 0 2; TryResolve 0 4; Len 0] in
  let answers := [OKey 3; ONone; OBool true; OStr [1;2;3;4;5;6;7;8;9]; ONone; ONum 4] in
  snd (run h c g 255 w probes) = answers /\
  snd (run h c g 255 w (IntoReader 0 :: probes)) = OUnit :: answers /\
  snd (run h c g 255 w (IntoResolver 0 :: skipn 3 probes)) = OUnit :: skipn 3 answers /\
  snd (run h c g 255 w [IntoReader 0; IntoResolver 0; StringsOp 0 [INext; INext; INext; INext; INext]])
  = [OUnit; OUnit; OItems [ItSome 0 []; ItSome 1 [120]; ItSome 2 [1;2;3;4;5;6;7;8;9]; ItSome 3 [97]; ItNone]].
Proof. vm_compute. repeat split. Qed.
Print Assumptions C06_nonvacuous_threaded.
