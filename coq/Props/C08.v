(* C08 — the memory limit is a hard cap and memory accounting is exact (sequential use).
   Statements only; proofs are in ArenaProofs.v.  Both arenas: [vec_store] is
   Arena::store_str, [lf_store] is LockfreeArena::store_str used from one thread. *)
From Lasso Require Import Base Arena ArenaProofs Ctors.

(* what any single store does, for either arena: invariant kept (usage = sum of block
   capacities, no block over-filled), limit untouched, usage <= max(old usage, limit),
   and failure only when usage + len > limit *)
Theorem C08_store_single_threaded : forall a s a' R,
  ArenaInv a -> vec_store a s = (a', R) -> store_post a a' s R.
Proof. exact vec_store_post. Qed.
Print Assumptions C08_store_single_threaded.

Theorem C08_store_lockfree : forall a s a' R,
  ArenaInv a -> lf_store a s = (a', R) -> store_post a a' s R.
Proof. exact lf_store_post. Qed.
Print Assumptions C08_store_lockfree.

(* usage is exact in every reachable arena: any history of stores, limit changes, clears *)
Theorem C08_exact_single_threaded : forall ops cap lim, 0 < cap ->
  let a := fold_left (astep vec_store) ops (arena_new cap lim) in
  usage a = sum_N (map bcap (blocks a)) /\ Forall block_ok (blocks a).
Proof.
  intros ops cap lim H. cbv zeta.
  pose proof (history_inv vec_store vec_store_post ops _ (arena_new_inv cap lim H)) as (_ & Hok & _ & _ & Hus & _).
  split; assumption.
Qed.
Print Assumptions C08_exact_single_threaded.

Theorem C08_exact_lockfree : forall ops cap lim, 0 < cap ->
  let a := fold_left (astep lf_store) ops (arena_new cap lim) in
  usage a = sum_N (map bcap (blocks a)) /\ Forall block_ok (blocks a).
Proof.
  intros ops cap lim H. cbv zeta.
  pose proof (history_inv lf_store lf_store_post ops _ (arena_new_inv cap lim H)) as (_ & Hok & _ & _ & Hus & _).
  split; assumption.
Qed.
Print Assumptions C08_exact_lockfree.

(* the hard cap: from ANY reachable arena, any further history that does not change the
   limit keeps usage <= max(limit, usage it already had) *)
Theorem C08_cap_single_threaded : forall ops a,
  ArenaInv a -> Forall no_set_limit ops ->
  usage (fold_left (astep vec_store) ops a) <= N.max (usage a) (limit a).
Proof. intros ops a H1 H2. exact (proj2 (history_cap vec_store vec_store_post ops a H1 H2)). Qed.
Print Assumptions C08_cap_single_threaded.

Theorem C08_cap_lockfree : forall ops a,
  ArenaInv a -> Forall no_set_limit ops ->
  usage (fold_left (astep lf_store) ops a) <= N.max (usage a) (limit a).
Proof. intros ops a H1 H2. exact (proj2 (history_cap lf_store lf_store_post ops a H1 H2)). Qed.
Print Assumptions C08_cap_lockfree.

(* raising the limit makes interning possible again *)
Theorem C08_raise_single_threaded : forall a s a' e m,
  ArenaInv a -> vec_store a s = (a', Err e) -> usage a + slen s <= m ->
  exists a'' r, vec_store (set_limit a m) s = (a'', Ok r).
Proof. exact vec_store_raise. Qed.
Print Assumptions C08_raise_single_threaded.

Theorem C08_raise_lockfree : forall a s a' e m,
  ArenaInv a -> lf_store a s = (a', Err e) -> usage a + slen s <= m ->
  exists a'' r, lf_store (set_limit a m) s = (a'', Ok r).
Proof. exact lf_store_raise. Qed.
Print Assumptions C08_raise_lockfree.

(* every public constructor forwards the capacity and the limit it was given (or the documented defaults: 4096
   bytes, no limit) and starts from a well-formed arena whose usage is its first block *)
Theorem C08_constructors : forall (c : ctor) (cap lim : N), 0 < cap ->
  let a := ctor_arena c cap lim in
  ArenaInv a /\ usage a = fst (ctor_args c cap lim) /\ limit a = snd (ctor_args c cap lim) /\
  bucket_cap a = fst (ctor_args c cap lim).
Proof. exact ctor_arena_ok. Qed.
Print Assumptions C08_constructors.

(* the defect repaired by the `fix:` commit a2175b5 (F1): the unrepaired growth step, run on
   Capacity 10 / limit 15, fills a 5-byte block with 8 bytes and reports success *)
Example C08_legacy_refuted :
  let a0 := arena_new 10 15 in
  let a1 := fst (vec_store_legacy a0 [48;49;50;51;52;53;54;55;56;57]) in
  let (a2, r) := vec_store_legacy a1 [97;98;99;100;101;102;103;104] in
  existsb (fun b => bcap b <? bused b) (blocks a2) = true /\ (exists x, r = Ok x) /\ usage a2 = 15.
Proof. vm_compute. split; [reflexivity|]. split; [eexists; reflexivity|reflexivity]. Qed.
Print Assumptions C08_legacy_refuted.

(* non-vacuity: a concrete reachable arena meets the hypotheses and the bound is tight *)
Example C08_nonvacuous :
  let a := fold_left (astep vec_store) [AStore [1;2;3;4]; AStore [5;6;7;8;9;10;11;12]; AStore [13]] (arena_new 4 15) in
  arena_okb a = true /\ usage a = 15 /\ length (blocks a) = 3%nat.
Proof. vm_compute. auto. Qed.
Print Assumptions C08_nonvacuous.
