(* C13 — clear() empties the interner completely and leaves it fully usable.

   "After clearing, the interner is empty: every previously issued key is unknown to the safe
    lookup paths, every string-to-key lookup answers 'absent', and iteration yields nothing.
    From then on it is a valid empty interner - numbering restarts at 0 and every other
    guarantee (round-trip, uniqueness, failure atomicity, memory limit) holds again - however
    many fill/clear cycles are run."

   Statements only; proofs are in RodeoProofs.v, ArenaProofs.v, WorldProofs.v.  [C13_clear]:
   clearing a Rodeo in ANY state allowed by the invariant (any content, any number of blocks)
   gives a Rodeo satisfying the invariant with the EMPTY abstract content; its arena keeps all
   blocks with every bump index back at 0 ([C13_arena_clear_*]).  [C13_cleared_is_empty] spells
   out the consequences on a world: after `Clear i`, get / contains / try_resolve /
   contains_key answer absent for every string and key, the checked resolve panics, len is 0,
   both iterators yield nothing.  [C13_numbering_restarts]: the next new string gets key 0.
   "Every other guarantee holds again, for any number of cycles" is the fact that Clear is one
   of the operations of the histories over which the invariant is preserved
   ([C13_still_valid], [C13_any_history]): all theorems of the other properties are stated for
   any world satisfying [WInv].
   Not covered: clear on ThreadedRodeo (the crate's ThreadedRodeo has no safe whole-map clear
   in the modelled API: [Clear] on it is OUnsupported). *)
From Lasso Require Import Base Arena ArenaProofs Rodeo RodeoInv RodeoProofs ThreadedInv
  CloneSerdeProofs ThreadedProofs IterEqProofs WorldProofs.

(* Rodeo::clear from any state *)
Theorem C13_clear :
  forall (hash : str -> N) (keycap : N) (r : rodeo) (cs : list str),
  RodeoInv hash keycap r cs -> RodeoInv hash keycap (r_clear r) [].
Proof. exact r_clear_inv. Qed.
Print Assumptions C13_clear.

(* Arena::clear keeps the blocks (capacity, identity, accounting) and resets every bump index *)
Theorem C13_arena_clear_inv : forall a : arena, ArenaInv a -> ArenaInv (arena_clear a).
Proof. exact arena_clear_inv. Qed.
Print Assumptions C13_arena_clear_inv.

Theorem C13_arena_clear_used :
  forall a : arena,
  Forall (fun b : block => bused b = 0) (blocks (arena_clear a)) /\
  usage (arena_clear a) = usage a /\ limit (arena_clear a) = limit a /\
  map bcap (blocks (arena_clear a)) = map bcap (blocks a).
Proof.
  intros a. split; [exact (arena_clear_used a)|]. split; [reflexivity|]. split; [reflexivity|].
  unfold arena_clear; cbn [blocks]. rewrite map_map. reflexivity.
Qed.
Print Assumptions C13_arena_clear_used.

(* in a world: after `Clear i` slot i is an empty interner for every safe lookup path *)
Theorem C13_cleared_is_empty :
  forall (hash : str -> N) (cand : N -> N -> bool) (growf : N -> bool) (keycap : N),
  (forall h : N, cand h h = true) ->
  forall (w : world) (i : nat) (r : rodeo) (cs : list str),
  get_obj w i = ORodeo r ->
  RodeoInv hash keycap r cs ->
  let w' := fst (step hash cand growf keycap w (Clear i)) in
  snd (step hash cand growf keycap w (Clear i)) = OUnit /\
  get_obj w' i = ORodeo (r_clear r) /\
  obj_inv hash keycap (get_obj w' i) [] /\
  forall (s : str) (k : N) (plan : list iop),
    step hash cand growf keycap w' (Get i s) = (w', ONone) /\
    step hash cand growf keycap w' (Contains i s) = (w', OBool false) /\
    step hash cand growf keycap w' (TryResolve i k) = (w', ONone) /\
    step hash cand growf keycap w' (Resolve i k) = (w', OPanic) /\
    step hash cand growf keycap w' (ContainsKey i k) = (w', OBool false) /\
    step hash cand growf keycap w' (Len i) = (w', ONum 0) /\
    step hash cand growf keycap w' (IsEmpty i) = (w', OBool true) /\
    step hash cand growf keycap w' (IterOp i plan) = (w', OItems (deque_iter [] plan)) /\
    step hash cand growf keycap w' (StringsOp i plan) = (w', OItems (deque_iter [] plan)).
Proof.
  intros hash cand growf keycap C w i r cs E Hinv. cbv zeta.
  assert (S : step hash cand growf keycap w (Clear i) = (set_obj w i (ORodeo (r_clear r)), OUnit))
    by (cbn [step]; rewrite E; reflexivity).
  rewrite S. cbn [fst snd].
  assert (Hlt : (i < length w)%nat) by (apply get_obj_lt; rewrite E; discriminate).
  assert (G : get_obj (set_obj w i (ORodeo (r_clear r))) i = ORodeo (r_clear r))
    by (apply get_set_same; exact Hlt).
  pose proof (r_clear_inv hash keycap r cs Hinv) as Hc.
  assert (HI : obj_inv hash keycap (get_obj (set_obj w i (ORodeo (r_clear r))) i) [])
    by (rewrite G; exact Hc).
  assert (HD : get_obj (set_obj w i (ORodeo (r_clear r))) i <> ODead) by (rewrite G; discriminate).
  assert (HN : is_interner (get_obj (set_obj w i (ORodeo (r_clear r))) i)) by (rewrite G; exact I).
  split; [reflexivity|]. split; [exact G|]. split; [exact HI|]. intros s k plan.
  rewrite (step_get hash cand growf keycap C _ i s [] HI HN),
          (step_contains hash cand growf keycap C _ i s [] HI HN),
          (step_try_resolve hash cand growf keycap _ i k [] HI HD),
          (step_resolve hash cand growf keycap _ i k [] HI HD),
          (step_contains_key hash cand growf keycap _ i k [] HI HD),
          (step_len hash cand growf keycap _ i [] HI HD),
          (step_is_empty hash cand growf keycap _ i [] HI HD),
          (step_iter hash cand growf keycap _ i plan [] HI HD),
          (step_strings hash cand growf keycap _ i plan [] HI HD);
    try (rewrite G; intros; discriminate).
  unfold abs_resolve. cbn [length index_of]. change (N.of_nat 0) with 0.
  rewrite (proj2 (N.ltb_ge k 0) (N.le_0_l k)). repeat split.
Qed.
Print Assumptions C13_cleared_is_empty.

(* numbering restarts at 0: on an interner with empty content a successful intern returns key 0
   and the content becomes [s] *)
Theorem C13_numbering_restarts :
  forall (hash : str -> N) (cand : N -> N -> bool) (growf : N -> bool) (keycap : N),
  (forall h : N, cand h h = true) ->
  forall (w : world) (i : nat) (s : str) (w' : world) (k : N),
  WInv hash keycap w ->
  obj_inv hash keycap (get_obj w i) [] ->
  step hash cand growf keycap w (Intern i s) = (w', OKey k) ->
  k = 0 /\ obj_inv hash keycap (get_obj w' i) [s].
Proof.
  intros hash cand growf keycap C w i s w' k HW HI Hst.
  destruct (step_intern_ok hash cand growf keycap C w i s [] w' k HW HI Hst)
    as [(Hix & _)|(_ & Hk & _ & H)].
  - discriminate Hix.
  - split; [exact Hk|exact H].
Qed.
Print Assumptions C13_numbering_restarts.

(* a cleared interner is a valid interner: Clear preserves the invariant of the world, and so
   does any history containing any number of clears (all other guarantees are stated for
   worlds satisfying WInv) *)
Theorem C13_still_valid :
  forall (hash : str -> N) (cand : N -> N -> bool) (growf : N -> bool) (keycap : N),
  (forall h : N, cand h h = true) ->
  forall (w : world) (i : nat),
  WInv hash keycap w -> WInv hash keycap (fst (step hash cand growf keycap w (Clear i))).
Proof. intros hash cand growf keycap C w i HW. exact (step_inv hash cand growf keycap C w (Clear i) HW I). Qed.
Print Assumptions C13_still_valid.

Theorem C13_any_history :
  forall (hash : str -> N) (cand : N -> N -> bool) (growf : N -> bool) (keycap : N),
  (forall h : N, cand h h = true) ->
  forall (ops : list op) (w : world),
  WInv hash keycap w ->
  Forall (op_wf keycap) ops ->
  WInv hash keycap (fst (run hash cand growf keycap w ops)) /\
  Forall (fun x : out => x <> OFault) (snd (run hash cand growf keycap w ops)).
Proof.
  intros hash cand growf keycap C ops w HW Hwf.
  exact (conj (run_inv hash cand growf keycap C ops w HW Hwf)
              (run_never_faults hash cand growf keycap C ops w HW Hwf)).
Qed.
Print Assumptions C13_any_history.

(* non-vacuity: two fill / clear cycles on 4-byte blocks under a 30-byte limit, with an oversized
   string that created an extra block, a static string, and the key space (3 keys) exhausted
   before the first clear.  After each clear everything is absent, numbering restarts at 0,
   the memory already allocated is kept and re-used, the key space is available again. *)
Example C13_nonvacuous :
  snd (run (fun _ => 0) (fun _ _ => true) (fun _ => true) 3 []
         [NewRodeo 4 30; Intern 0 [97]; Intern 0 [1;2;3;4;5;6;7;8;9]; InternStatic 0 7 [120];
          Intern 0 [98]; CurMem 0;
          Clear 0;
          Len 0; IsEmpty 0; Get 0 [97]; Contains 0 [120]; TryResolve 0 0; TryResolve 0 2; Resolve 0 1;
          ContainsKey 0 0; IterOp 0 [ILen; INext; INextBack]; StringsOp 0 [INext]; CurMem 0;
          Intern 0 [98]; Intern 0 [97]; Resolve 0 0; Get 0 [97]; Intern 0 [99]; Intern 0 [100]; CurMem 0;
          Clear 0; Len 0; Get 0 [98]; Intern 0 [1;2;3;4;5;6;7;8;9]; Resolve 0 0; CurMem 0])
  = [ONew 0; OKey 0; OKey 1; OKey 2; OErr KeySpaceExhaustion; ONum 13;
     OUnit;
     ONum 0; OBool true; ONone; OBool false; ONone; ONone; OPanic;
     OBool false; OItems [ItLen 0; ItNone; ItNone]; OItems [ItNone]; ONum 13;
     OKey 0; OKey 1; OStr [98]; OKey 1; OKey 2; OErr KeySpaceExhaustion; ONum 13;
     OUnit; ONum 0; ONone; OKey 0; OStr [1;2;3;4;5;6;7;8;9]; ONum 22].
Proof. vm_compute. reflexivity. Qed.
Print Assumptions C13_nonvacuous.
