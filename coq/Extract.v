(* Extract.v — extraction of the executable model for the runner.
   Directives in force: those of ExtrOcamlBasic only (bool, option, unit, list, prod, sumbool,
   sumor to the OCaml built-ins).  N / positive / nat stay the extracted inductive types. *)
From Coq Require Import ExtrOcamlBasic.
From Lasso Require Import Base Arena Keys Ctors Rodeo Conc.
Extraction Language OCaml.
Separate Extraction Ctors.ctor_args Keys.summary Keys.micro_spur Keys.mini_spur Keys.spur Keys.large_spur Keys.serde_de Keys.try_from_usize
  Conc.step Conc.step_legacy Conc.init Conc.run_sched_gen Conc.as_arena Conc.map_get Conc.strs_get Conc.blocked
  Rodeo.step Rodeo.run Rodeo.obj_pairs Rodeo.obj_strs Arena.read Arena.arena_okb
  Arena.vec_store_legacy Arena.lf_store_legacy Rodeo.de_rodeo_legacy Rodeo.de_threaded_gen
  Base.usize_max Base.slen N.of_nat N.to_nat N.add N.mul N.ltb N.eqb N.sub N.succ.
