(* ThreadedInv.v — the invariant of ThreadedRodeo at quiescence (no call in flight). *)
From Lasso Require Import Base Arena ArenaProofs Rodeo RodeoInv.

Section TInv.
  Variable keycap : N.

  (* [cs] is the abstract content: cs[k] is the string of key k.  [refs] is the dense
     key -> reference table that into_reader / into_resolver would build. *)
  Definition TInv (t : trodeo) (cs : list str) : Prop :=
    ArenaInv (tar t) /\
    exists refs,
      strs_ok refs (tar t) cs /\
      (* key -> string map: one entry per key 0..n-1, holding refs[k] *)
      NoDup (map fst (tstrs t)) /\
      (forall k r, In (k, r) (tstrs t) <-> nth_error refs (N.to_nat k) = Some r) /\
      (* string -> key map: the converse pairs, one per key *)
      NoDup (map snd (tmap t)) /\
      (forall r k, In (r, k) (tmap t) <-> In (k, r) (tstrs t)) /\
      (* the counter: every draw below keycap succeeded, every later one failed *)
      N.of_nat (length cs) = N.min (tkey t) keycap.
End TInv.
