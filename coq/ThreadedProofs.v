(* ThreadedProofs.v — ThreadedRodeo, used by one thread, refines the same abstract interner as
   Rodeo ("a duplicate-free list of strings, key = position") via the invariant TInv. *)
From Lasso Require Import Base Arena ArenaProofs Rodeo RodeoInv RodeoProofs ThreadedInv.
From Coq Require Import Permutation.

(* ---------- generic list facts ---------- *)

Lemma nth_error_ext_eq {A} (l l' : list A) :
  (forall i, nth_error l i = nth_error l' i) -> l = l'.
Proof.
  revert l'; induction l as [|x l IH]; intros [|y l'] H; auto.
  - specialize (H 0%nat); discriminate.
  - specialize (H 0%nat); discriminate.
  - pose proof (H 0%nat) as H0. simpl in H0. inversion H0; subst. f_equal.
    apply IH. intros i. exact (H (S i)).
Qed.

Lemma set_nth_length {A} (l : list A) n x : length (set_nth n x l) = length l.
Proof. revert n; induction l as [|y l IH]; intros [|n]; simpl; auto. Qed.

Lemma nth_error_set_nth_eq {A} (l : list A) n x :
  (n < length l)%nat -> nth_error (set_nth n x l) n = Some x.
Proof.
  revert n; induction l as [|y l IH]; intros [|n] H; simpl in *; try lia; auto.
  apply IH. lia.
Qed.

Lemma nth_error_set_nth_neq {A} (l : list A) n m x :
  n <> m -> nth_error (set_nth n x l) m = nth_error l m.
Proof.
  revert n m; induction l as [|y l IH]; intros [|n] [|m] H; simpl; auto; try congruence.
Qed.

Lemma filter_all {A} (f : A -> bool) l : (forall x, In x l -> f x = true) -> filter f l = l.
Proof.
  induction l as [|x l IH]; simpl; auto. intros H.
  rewrite (H x) by auto. f_equal. apply IH. auto.
Qed.

(* a key -> value list whose keys are distinct and are exactly the numbers below n has n entries *)
Lemma dense_keys_length {B} (ts : list (N * B)) (n : nat) :
  NoDup (map fst ts) ->
  (forall k, In k (map fst ts) <-> (N.to_nat k < n)%nat) ->
  length ts = n.
Proof.
  intros Hnd Hk.
  assert (Hnd' : NoDup (map N.to_nat (map fst ts))).
  { apply FinFun.Injective_map_NoDup; auto. intros a b. apply N2Nat.inj. }
  assert (H1 : incl (map N.to_nat (map fst ts)) (seq 0 n)).
  { intros i Hi. apply in_map_iff in Hi as (k & <- & Hin). apply in_seq. apply Hk in Hin. lia. }
  assert (H2 : incl (seq 0 n) (map N.to_nat (map fst ts))).
  { intros i Hi. apply in_seq in Hi. apply in_map_iff. exists (N.of_nat i).
    split; [apply Nat2N.id|]. apply Hk. rewrite Nat2N.id. lia. }
  pose proof (NoDup_incl_length Hnd' H1) as L1.
  pose proof (NoDup_incl_length (seq_NoDup n 0) H2) as L2.
  rewrite !map_length in *. rewrite seq_length in *. lia.
Qed.

Lemma all_some_map_Some {A} (l : list A) : all_some (map Some l) = Some l.
Proof. induction l as [|x l IH]; simpl; auto. now rewrite IH. Qed.

Lemma nth_error_repeat_lt {A} (x : A) n i : (i < n)%nat -> nth_error (repeat x n) i = Some x.
Proof. revert i; induction n as [|n IH]; intros [|i] H; simpl; try lia; auto. apply IH. lia. Qed.

Lemma nth_error_seq_some a n i j : nth_error (seq a n) i = Some j -> j = (a + i)%nat.
Proof.
  revert a i; induction n as [|n IH]; intros a [|i] H; simpl in H; try discriminate.
  - inversion H; lia.
  - apply IH in H. lia.
Qed.

(* a symmetric relation on ordered pairs does not care about the order of the list *)
Lemma FOP_perm {A} (R : A -> A -> Prop) l l' :
  (forall x y, R x y -> R y x) -> Permutation l l' -> ForallOrdPairs R l -> ForallOrdPairs R l'.
Proof.
  intros Hsym Hp. induction Hp as [|x l l' Hp IH|x y l|l l' l'' Hp1 IH1 Hp2 IH2]; intros H; auto.
  - inversion H; subst. constructor; auto. eapply Permutation_Forall; eauto.
  - inversion H as [|? ? Hy Hrest]; subst. inversion Hrest as [|? ? Hx Hl]; subst.
    inversion Hy; subst.
    constructor; [constructor; auto|constructor; auto].
Qed.

Lemma refs_disjoint_sym r1 r2 : refs_disjoint r1 r2 -> refs_disjoint r2 r1.
Proof.
  destruct r1, r2; simpl; auto.
  intros [H|[H|H]]; [left; congruence|right; right; exact H|right; left; exact H].
Qed.

Lemma contents_map_iff {X} (f : X -> sref) (g : X -> str) a l :
  contents (map f l) a = Some (map g l) <-> Forall (fun x => read a (f x) = Some (g x)) l.
Proof.
  unfold contents. induction l as [|x l IH]; simpl.
  - split; auto.
  - split.
    + intros H. destruct (read a (f x)) as [s|] eqn:E; [|discriminate].
      destruct (all_some (map (read a) (map f l))) as [r|] eqn:E2; [|discriminate].
      inversion H; subst. constructor; auto. apply IH. reflexivity.
    + intros H. inversion H as [|? ? Hx Hl]; subst. rewrite Hx. apply IH in Hl. rewrite Hl.
      reflexivity.
Qed.

(* re-ordering a string table together with its contents *)
Lemma strs_ok_perm {X} (f : X -> sref) (g : X -> str) a l l' :
  Permutation l l' -> strs_ok (map f l) a (map g l) -> strs_ok (map f l') a (map g l').
Proof.
  intros Hp (H1 & H2 & H3 & H4). split; [|split; [|split]].
  - eapply Permutation_Forall; [apply Permutation_map; exact Hp|exact H1].
  - eapply FOP_perm; [apply refs_disjoint_sym|apply Permutation_map; exact Hp|exact H2].
  - apply contents_map_iff. apply contents_map_iff in H3. eapply Permutation_Forall; eauto.
  - eapply Permutation_NoDup; [apply Permutation_map; exact Hp|exact H4].
Qed.

(* in a list sorted by its keys 0..n-1, looking a key up is indexing *)
Lemma sorted_lookup {X B} (fk : X -> N) (g : X -> B) (tl : list X) n k b :
  map fk tl = map N.of_nat (seq 0 n) ->
  (In (k, b) (map (fun x => (fk x, g x)) tl) <-> nth_error (map g tl) (N.to_nat k) = Some b).
Proof.
  intros Hk.
  assert (Hkey : forall i x, nth_error tl i = Some x -> fk x = N.of_nat i).
  { intros i x Hx. apply (map_nth_error fk) in Hx. rewrite Hk, nth_error_map in Hx.
    destruct (nth_error (seq 0 n) i) as [j|] eqn:Ej; [|discriminate]. simpl in Hx.
    apply nth_error_seq_some in Ej. simpl in Ej. congruence. }
  split.
  - intros Hin. apply in_map_iff in Hin as (x & Heq & Hx). injection Heq as <- <-.
    apply In_nth_error in Hx as (i & Hi). rewrite (Hkey _ _ Hi), Nat2N.id.
    now apply map_nth_error.
  - intros Hn. rewrite nth_error_map in Hn.
    destruct (nth_error tl (N.to_nat k)) as [x|] eqn:Ex; [|discriminate].
    simpl in Hn. injection Hn as <-. apply in_map_iff. exists x.
    split; [|eapply nth_error_In; eauto].
    f_equal. rewrite (Hkey _ _ Ex). apply N2Nat.id.
Qed.

Lemma perm_in_iff {X Y} (f : X -> Y) l l' y :
  Permutation l l' -> (In y (map f l) <-> In y (map f l')).
Proof.
  intros Hp. split; apply Permutation_in; apply Permutation_map; auto. now apply Permutation_sym.
Qed.

(* ---------- the key check of the ThreadedRodeo deserialiser ---------- *)

Lemma keys_dense_spec l : forall seen,
  keys_dense l seen = true <->
  NoDup (map snd l) /\ (forall k, In k (map snd l) -> nth_error seen (N.to_nat k) = Some false).
Proof.
  induction l as [|(s & k) l IH]; intros seen; cbn [keys_dense map snd].
  - split; [intros _; split; [constructor|intros k []]|auto].
  - destruct (k <? N.of_nat (length seen)) eqn:Elt.
    + apply N.ltb_lt in Elt.
      destruct (nth_error seen (N.to_nat k)) as [[|]|] eqn:En.
      * split; [discriminate|]. intros (_ & H). specialize (H k (or_introl eq_refl)). congruence.
      * rewrite IH. split.
        -- intros (Hnd & Hall). split.
           ++ constructor; auto. intros Hin. apply Hall in Hin.
              rewrite nth_error_set_nth_eq in Hin by lia. discriminate.
           ++ intros k' [<-|Hin]; auto. pose proof (Hall _ Hin) as Hk'.
              destruct (N.eq_dec k k') as [<-|Hne].
              ** rewrite nth_error_set_nth_eq in Hk' by lia. discriminate.
              ** rewrite nth_error_set_nth_neq in Hk' by lia. exact Hk'.
        -- intros (Hnd & Hall). inversion Hnd as [|? ? Hnotin Hnd']; subst. split; auto.
           intros k' Hin. rewrite nth_error_set_nth_neq.
           ++ apply Hall. now right.
           ++ intros Heq. apply N2Nat.inj in Heq. subst k'. contradiction.
      * split; [discriminate|]. intros (_ & H). specialize (H k (or_introl eq_refl)). congruence.
    + apply N.ltb_ge in Elt. split; [discriminate|]. intros (_ & H).
      specialize (H k (or_introl eq_refl)).
      assert (nth_error seen (N.to_nat k) = None) by (apply nth_error_None; lia). congruence.
Qed.

Lemma keys_dense_init l n :
  keys_dense l (repeat false n) = true <->
  NoDup (map snd l) /\ (forall k, In k (map snd l) -> (N.to_nat k < n)%nat).
Proof.
  rewrite keys_dense_spec. split; intros (H1 & H2); split; auto; intros k Hk.
  - specialize (H2 k Hk).
    assert (H : nth_error (repeat false n) (N.to_nat k) <> None) by congruence.
    apply nth_error_Some in H. now rewrite repeat_length in H.
  - apply nth_error_repeat_lt. auto.
Qed.

Lemma dense_keys_perm (ks : list N) :
  NoDup ks -> (forall k, In k ks -> (N.to_nat k < length ks)%nat) ->
  Permutation ks (map N.of_nat (seq 0 (length ks))).
Proof.
  intros Hnd Hlt. apply NoDup_Permutation_bis; auto.
  - rewrite map_length, seq_length. lia.
  - intros k Hk. apply in_map_iff. exists (N.to_nat k). split; [apply N2Nat.id|].
    apply in_seq. specialize (Hlt k Hk). lia.
Qed.

(* the check accepts exactly the documents whose keys are a permutation of 0..n-1 *)
Theorem keys_dense_perm_iff l :
  keys_dense l (repeat false (length l)) = true <->
  Permutation (map snd l) (map N.of_nat (seq 0 (length l))).
Proof.
  rewrite keys_dense_init. split.
  - intros (Hnd & Hlt). rewrite <- (map_length snd l). apply dense_keys_perm; auto.
    intros k Hk. rewrite map_length. auto.
  - intros Hp. apply Permutation_sym in Hp. split.
    + eapply Permutation_NoDup; [exact Hp|].
      apply FinFun.Injective_map_NoDup; [|apply seq_NoDup]. intros a b. apply Nat2N.inj.
    + intros k Hk. eapply Permutation_in in Hk; [|apply Permutation_sym; exact Hp].
      apply in_map_iff in Hk as (i & <- & Hi). apply in_seq in Hi. rewrite Nat2N.id. lia.
Qed.

(* the counter computed by the loop: one above the highest key *)
Lemma next_key_spec ks : forall nx r,
  fold_left (fun nx k => if nx <=? k then k + 1 else nx) ks nx = r ->
  nx <= r /\ (forall k, In k ks -> k < r) /\ (r = nx \/ (0 < r /\ In (r - 1) ks)).
Proof.
  induction ks as [|k ks IH]; intros nx r Hr; cbn [fold_left] in Hr.
  - subst r. split; [lia|]. split; [intros k []|auto].
  - apply IH in Hr. destruct Hr as (H1 & H2 & H3).
    destruct (nx <=? k) eqn:E; [apply N.leb_le in E|apply N.leb_gt in E].
    + split; [lia|]. split.
      * intros k' [<-|Hin]; [lia|auto].
      * destruct H3 as [H3|(H3 & H4)].
        -- right. split; [lia|]. left. lia.
        -- right. split; auto. now right.
    + split; [lia|]. split.
      * intros k' [<-|Hin]; [lia|auto].
      * destruct H3 as [H3|(H3 & H4)]; [left; auto|right; split; auto]. now right.
Qed.

(* a string that fits into the (only) block goes there *)
Lemma lf_store_head_fits a b s :
  blocks a = [b] -> bused b + slen s <= bcap b ->
  exists a' ref b', lf_store a s = (a', Ok ref) /\ blocks a' = [b'] /\ bcap b' = bcap b /\
                    bused b' = bused b + slen s.
Proof.
  intros Hb Hfit. unfold lf_store, lf_store_gen. destruct s as [|c s0].
  - exists a, REmpty, b. rewrite slen_nil. split; auto. split; auto. split; auto. lia.
  - cbv iota. remember (c :: s0) as s eqn:Hs. rewrite Hb. cbn [lf_first_fit].
    replace (bused b + slen s <=? bcap b) with true by (symmetry; apply N.leb_le; exact Hfit).
    unfold push_slice. eexists _, _, _. split; [reflexivity|]. simpl. auto.
Qed.

Lemma list_eq_nth {A} (cs cs' : list A) :
  length cs = length cs' ->
  (forall i, (i < length cs)%nat -> nth_error cs i = nth_error cs' i) -> cs = cs'.
Proof.
  intros Hl H. apply nth_error_ext_eq. intros i.
  destruct (Nat.lt_ge_cases i (length cs)); auto.
  rewrite (proj2 (nth_error_None cs i)), (proj2 (nth_error_None cs' i)); auto; lia.
Qed.

Lemma in_combine_seq {A} (l : list A) : forall a k x,
  In (k, x) (combine (map N.of_nat (seq a (length l))) l) <->
  exists i, k = N.of_nat (a + i) /\ nth_error l i = Some x.
Proof.
  induction l as [|y l IH]; intros a k x; simpl.
  - split; [tauto|]. intros (i & _ & H). destruct i; discriminate.
  - rewrite IH. split.
    + intros [Heq|(i & Hk & Hi)].
      * injection Heq as <- <-. exists 0%nat. split; [f_equal; lia|reflexivity].
      * exists (S i). split; auto. rewrite Hk. f_equal. lia.
    + intros ([|i] & Hk & Hi); simpl in Hi.
      * left. injection Hi as <-. replace (a + 0)%nat with a in Hk by lia. now subst.
      * right. exists i. split; auto. rewrite Hk. f_equal. lia.
Qed.

Lemma trodeo_eta t : mkT (tmap t) (tstrs t) (tkey t) (tar t) = t.
Proof. now destruct t. Qed.

Section Proofs.
  Variable hash : str -> N.
  Variable cand : N -> N -> bool.
  Variable growf : N -> bool.
  Variable keycap : N.
  Hypothesis cand_refl : forall h, cand h h = true.

  Notation TInv := (TInv keycap).
  Notation RodeoInv := (RodeoInv hash keycap).
  Notation table_ok := (table_ok hash).
  Notation t_intern := (t_intern keycap).
  Notation t_intern_static := (t_intern_static keycap).
  Notation t_into_reader := (t_into_reader hash cand growf).
  Notation rebuild := (rebuild hash cand growf).
  Notation tlookup := (tlookup cand).
  Notation tinsert := (tinsert hash growf).
  Notation eq_obj := (eq_obj keycap).

  (* ---------- the invariant with its witness made explicit ---------- *)

  (* the two maps against the dense key -> reference table [refs] *)
  Definition maps_ok (tm : list (sref * N)) (ts : list (N * sref)) (refs : list sref) : Prop :=
    NoDup (map fst ts) /\
    (forall k r, In (k, r) ts <-> nth_error refs (N.to_nat k) = Some r) /\
    NoDup (map snd tm) /\
    (forall r k, In (r, k) tm <-> In (k, r) ts).

  Definition TW (t : trodeo) (cs : list str) (refs : list sref) : Prop :=
    ArenaInv (tar t) /\ strs_ok refs (tar t) cs /\ maps_ok (tmap t) (tstrs t) refs /\
    N.of_nat (length cs) = N.min (tkey t) keycap.

  Lemma TInv_TW t cs : TInv t cs <-> exists refs, TW t cs refs.
  Proof.
    unfold ThreadedInv.TInv, TW, maps_ok. split.
    - intros (Ha & refs & Hs & H1 & H2 & H3 & H4 & H5). exists refs.
      exact (conj Ha (conj Hs (conj (conj H1 (conj H2 (conj H3 H4))) H5))).
    - intros (refs & Ha & Hs & (H1 & H2 & H3 & H4) & H5). split; [exact Ha|]. exists refs.
      exact (conj Hs (conj H1 (conj H2 (conj H3 (conj H4 H5))))).
  Qed.

  (* the witness is unique: it is determined by the key -> string map *)
  Lemma TW_refs_unique t cs cs' refs refs' : TW t cs refs -> TW t cs' refs' -> refs = refs'.
  Proof.
    intros (_ & _ & (_ & H2 & _) & _) (_ & _ & (_ & H2' & _) & _).
    apply nth_error_ext_eq. intros i.
    destruct (nth_error refs i) as [r|] eqn:E.
    - rewrite <- (Nat2N.id i) in E. apply H2, H2' in E. rewrite Nat2N.id in E. now rewrite E.
    - destruct (nth_error refs' i) as [r|] eqn:E'; auto.
      rewrite <- (Nat2N.id i) in E'. apply H2', H2 in E'. rewrite Nat2N.id in E'. congruence.
  Qed.

  Lemma maps_keys tm ts refs k :
    maps_ok tm ts refs -> (In k (map fst ts) <-> (N.to_nat k < length refs)%nat).
  Proof.
    intros (_ & H2 & _). split.
    - intros Hin. apply in_map_iff in Hin as ((k0 & r) & Hk & Hin). simpl in Hk. subst k0.
      apply H2 in Hin. apply nth_error_Some. congruence.
    - intros Hlt. destruct (nth_error refs (N.to_nat k)) as [r|] eqn:E.
      + apply H2 in E. apply in_map_iff. exists (k, r). auto.
      + apply nth_error_None in E. lia.
  Qed.

  Lemma maps_length tm ts refs : maps_ok tm ts refs -> length ts = length refs.
  Proof.
    intros H. apply dense_keys_length; [apply H|]. intros k. eapply maps_keys; eauto.
  Qed.

  Lemma read_refs refs a cs k r :
    contents refs a = Some cs -> nth_error refs (N.to_nat k) = Some r ->
    read a r = nth_error cs (N.to_nat k) /\ (N.to_nat k < length cs)%nat.
  Proof.
    intros Hc Hn. pose proof (key_str_contents _ _ _ k Hc) as H. unfold key_str in H.
    rewrite Hn in H. split; auto.
    rewrite (contents_length _ _ _ Hc). apply nth_error_Some. congruence.
  Qed.

  (* ---------- 1. new ---------- *)

  Lemma trodeo_new_inv cap lim : 0 < cap -> TInv (trodeo_new cap lim) [].
  Proof.
    intros H. apply TInv_TW. exists []. unfold TW, trodeo_new; simpl.
    split; [now apply arena_new_inv|]. split; [|split].
    - repeat split; try constructor.
    - unfold maps_ok; simpl. split; [constructor|]. split; [|split; [constructor|]].
      + intros k r. split; [intros []|]. destruct (N.to_nat k); discriminate.
      + intros r k. split; intros [].
    - lia.
  Qed.

  (* ---------- 2. lookups ---------- *)

  Lemma t_ref_spec t cs refs k : TW t cs refs -> t_ref t k = nth_error refs (N.to_nat k).
  Proof.
    intros (_ & _ & (H1 & H2 & _) & _). unfold t_ref.
    destruct (find _ (tstrs t)) as [(k0 & r)|] eqn:Ef.
    - apply find_some in Ef as (Hin & Hk). simpl in Hk. apply N.eqb_eq in Hk. subst k0.
      apply H2 in Hin. simpl. now rewrite Hin.
    - destruct (nth_error refs (N.to_nat k)) as [r|] eqn:E; auto.
      apply H2 in E. eapply find_none in Ef; eauto. simpl in Ef.
      rewrite N.eqb_refl in Ef. discriminate.
  Qed.

  Lemma t_resolve_spec t cs refs k : TW t cs refs -> t_resolve t k = nth_error cs (N.to_nat k).
  Proof.
    intros H. unfold t_resolve. rewrite (t_ref_spec _ _ _ k H).
    destruct H as (_ & (_ & _ & Hc & _) & _).
    rewrite <- (key_str_contents _ _ _ k Hc). reflexivity.
  Qed.

  Lemma t_len_spec t cs refs : TW t cs refs -> t_len t = N.of_nat (length cs).
  Proof.
    intros (_ & (_ & _ & Hc & _) & Hm & _). unfold t_len.
    rewrite (maps_length _ _ _ Hm), (contents_length _ _ _ Hc). reflexivity.
  Qed.

  Lemma t_get_spec t cs refs s : TW t cs refs -> t_get t s = index_of s cs.
  Proof.
    intros (_ & (_ & _ & Hc & Hnd) & (H1 & H2 & H3 & H4) & _). unfold t_get.
    set (p := fun e : sref * N => _).
    assert (Hp : forall r k, In (r, k) (tmap t) -> p (r, k) = true -> index_of s cs = Some k).
    { intros r k Hin Hpk. apply H4, H2 in Hin. destruct (read_refs _ _ _ _ _ Hc Hin) as (Hr & _).
      unfold p in Hpk. simpl in Hpk. rewrite Hr in Hpk.
      destruct (nth_error cs (N.to_nat k)) as [s'|] eqn:E; [|discriminate].
      apply str_eqb_eq in Hpk. subst s'. now apply index_of_nodup. }
    destruct (find p (tmap t)) as [(r & k)|] eqn:Ef.
    - apply find_some in Ef as (Hin & Hpk). simpl. symmetry. eauto.
    - destruct (index_of s cs) as [i|] eqn:Ei; auto. exfalso.
      apply index_of_some in Ei as (Hn & Hi).
      destruct (nth_error refs (N.to_nat i)) as [r|] eqn:Er.
      + pose proof Er as Hin. apply H2, H4 in Hin.
        eapply find_none in Ef; eauto. unfold p in Ef. simpl in Ef.
        destruct (read_refs _ _ _ _ _ Hc Er) as (Hr & _).
        rewrite Hr, Hn, str_eqb_refl in Ef. discriminate.
      + apply nth_error_None in Er. rewrite <- (contents_length _ _ _ Hc) in Er. lia.
  Qed.

  (* the same, stated on TInv *)
  Theorem t_get_inv t cs s : TInv t cs -> t_get t s = index_of s cs.
  Proof. intros H. apply TInv_TW in H as (refs & H). eapply t_get_spec; eauto. Qed.

  Theorem t_resolve_inv t cs k : TInv t cs -> t_resolve t k = nth_error cs (N.to_nat k).
  Proof. intros H. apply TInv_TW in H as (refs & H). eapply t_resolve_spec; eauto. Qed.

  Corollary t_resolve_oob t cs k : TInv t cs -> N.of_nat (length cs) <= k -> t_resolve t k = None.
  Proof.
    intros H Hk. rewrite (t_resolve_inv _ _ _ H). apply nth_error_None. lia.
  Qed.

  Theorem t_len_inv t cs : TInv t cs -> t_len t = N.of_nat (length cs).
  Proof. intros H. apply TInv_TW in H as (refs & H). eapply t_len_spec; eauto. Qed.

  (* contains_key: a key is present exactly when it is below the length *)
  Theorem t_ref_inv t cs k :
    TInv t cs ->
    exists refs, TW t cs refs /\ t_ref t k = nth_error refs (N.to_nat k) /\
                 length refs = length cs /\
                 (k < N.of_nat (length cs) <-> t_ref t k <> None).
  Proof.
    intros H. apply TInv_TW in H as (refs & H). exists refs.
    pose proof (t_ref_spec _ _ _ k H) as Hr. split; auto. split; auto.
    destruct H as (_ & (_ & _ & Hc & _) & _). pose proof (contents_length _ _ _ Hc) as Hl.
    split; auto. rewrite Hr, nth_error_Some. lia.
  Qed.

  (* ---------- the counter ---------- *)

  Lemma counter_lt t (cs : list str) :
    N.of_nat (length cs) = N.min (tkey t) keycap -> tkey t < keycap -> tkey t = N.of_nat (length cs).
  Proof. lia. Qed.

  Lemma counter_ge t (cs : list str) :
    N.of_nat (length cs) = N.min (tkey t) keycap -> keycap <= tkey t -> N.of_nat (length cs) = keycap.
  Proof. lia. Qed.

  Theorem TInv_len_le_keycap t cs : TInv t cs -> N.of_nat (length cs) <= keycap.
  Proof. intros (_ & refs & _ & _ & _ & _ & _ & H). lia. Qed.

  (* ---------- inserting the next key into both maps ---------- *)

  Lemma strs_insert_fresh k r ts : ~ In k (map fst ts) -> strs_insert k r ts = ts ++ [(k, r)].
  Proof.
    intros H. unfold strs_insert. rewrite filter_all; auto. intros (k0 & r0) Hin. simpl.
    destruct (k0 =? k) eqn:E; auto. apply N.eqb_eq in E. subst. exfalso. apply H.
    apply in_map_iff. exists (k, r0). auto.
  Qed.

  Lemma maps_ok_push tm ts refs ref k :
    maps_ok tm ts refs -> k = N.of_nat (length refs) ->
    maps_ok (tm ++ [(ref, k)]) (strs_insert k ref ts) (refs ++ [ref]).
  Proof.
    intros Hm Hk. pose proof (maps_keys _ _ _ k Hm) as Hkeys. destruct Hm as (H1 & H2 & H3 & H4).
    assert (Hfresh : ~ In k (map fst ts)). { rewrite Hkeys. subst k. rewrite Nat2N.id. lia. }
    rewrite strs_insert_fresh by auto.
    split; [|split; [|split]].
    - rewrite map_app. simpl. apply NoDup_app_snoc; auto.
    - intros k' r. rewrite in_app_iff. simpl. split.
      + intros [Hin|[Heq|[]]].
        * apply H2 in Hin. rewrite nth_error_app1; auto. apply nth_error_Some. congruence.
        * injection Heq as <- <-. rewrite Hk, Nat2N.id, nth_error_app2, Nat.sub_diag by lia.
          reflexivity.
      + intros Hn. destruct (Nat.lt_ge_cases (N.to_nat k') (length refs)) as [Hlt|Hge].
        * rewrite nth_error_app1 in Hn by auto. left. now apply H2.
        * rewrite nth_error_app2 in Hn by auto. right. left.
          destruct (N.to_nat k' - length refs)%nat as [|m] eqn:Em; simpl in Hn.
          -- injection Hn as <-. f_equal. lia.
          -- destruct m; discriminate.
    - rewrite map_app. simpl. apply NoDup_app_snoc; auto.
      intros Hin. apply in_map_iff in Hin as ((r0 & k0) & Hk0 & Hin). simpl in Hk0. subst k0.
      apply H4 in Hin. apply Hfresh. apply in_map_iff. exists (k, r0). auto.
    - intros r k'. rewrite !in_app_iff. simpl. rewrite H4.
      split; (intros [H|[H|[]]]; [now left|right; left; injection H as <- <-; reflexivity]).
  Qed.

  (* ---------- 3. try_get_or_intern ---------- *)

  Inductive t_outcome (t : trodeo) (cs : list str) (s : str) (t' : trodeo) (R : res N) : Prop :=
  | to_present k :
      index_of s cs = Some k -> t' = t -> R = Ok k -> t_outcome t cs s t' R
  | to_memory :
      (* the store comes first: this answer does not depend on the key space *)
      index_of s cs = None -> t' = t -> R = Err MemoryLimitReached -> s <> [] ->
      limit (tar t) < usage (tar t) + slen s -> t_outcome t cs s t' R
  | to_keys ref :
      (* the string was stored (and stays in the arena), then the draw failed *)
      index_of s cs = None -> R = Err KeySpaceExhaustion -> keycap <= N.of_nat (length cs) ->
      TInv t' cs -> (forall refs, TW t cs refs -> TW t' cs refs) ->
      tmap t' = tmap t -> tstrs t' = tstrs t -> tkey t' = tkey t + 1 ->
      store_post (tar t) (tar t') s (Ok ref) -> usage (tar t) <= usage (tar t') ->
      t_outcome t cs s t' R
  | to_new ref :
      index_of s cs = None -> R = Ok (N.of_nat (length cs)) -> N.of_nat (length cs) < keycap ->
      TInv t' (cs ++ [s]) -> (forall refs, TW t cs refs -> TW t' (cs ++ [s]) (refs ++ [ref])) ->
      store_post (tar t) (tar t') s (Ok ref) -> tkey t' = tkey t + 1 ->
      t_outcome t cs s t' R.

  Theorem t_intern_spec t cs s t' R :
    TInv t cs -> t_intern t s = (t', R) -> t_outcome t cs s t' R.
  Proof.
    intros Hinv Hi. apply TInv_TW in Hinv as (refs0 & HW0).
    pose proof (t_get_spec _ _ _ s HW0) as Hget.
    unfold Rodeo.t_intern in Hi. rewrite Hget in Hi.
    destruct (index_of s cs) as [k|] eqn:Ei.
    - inversion Hi; subst. eapply to_present; eauto.
    - pose proof HW0 as (Ha & _ & _ & Hcnt0).
      destruct (lf_store (tar t) s) as [a' [ref|e]] eqn:Est.
      + pose proof (lf_store_post _ _ _ _ Ha Est) as Hpost.
        unfold try_key in Hi. destruct (tkey t <? keycap) eqn:Ek.
        * apply N.ltb_lt in Ek. inversion Hi; subst t' R; clear Hi.
          assert (Hkey : tkey t = N.of_nat (length cs)) by lia.
          match goal with |- t_outcome _ _ _ ?T _ => set (t' := T) end.
          assert (HW' : forall refs, TW t cs refs -> TW t' (cs ++ [s]) (refs ++ [ref])).
          { intros refs (_ & Hs & Hm & Hcnt). split; [exact (sp_inv _ _ _ _ Hpost)|].
            unfold t'; cbn [tar tmap tstrs tkey]. split; [|split].
            - eapply strs_ok_push; eauto. now apply index_of_none.
            - apply maps_ok_push; auto. rewrite Hkey.
              destruct Hs as (_ & _ & Hc & _). now rewrite (contents_length _ _ _ Hc).
            - rewrite app_length. simpl. lia. }
          eapply to_new with (ref := ref); eauto.
          -- now rewrite Hkey.
          -- lia.
          -- apply TInv_TW. eauto.
        * apply N.ltb_ge in Ek. inversion Hi; subst t' R; clear Hi.
          match goal with |- t_outcome _ _ _ ?T _ => set (t' := T) end.
          assert (HW' : forall refs, TW t cs refs -> TW t' cs refs).
          { intros refs (_ & Hs & Hm & Hcnt). split; [exact (sp_inv _ _ _ _ Hpost)|].
            unfold t'; cbn [tar tmap tstrs tkey]. split; [|split]; auto.
            - eapply strs_ok_frame; eauto. exact (sp_frame _ _ _ _ Hpost).
            - lia. }
          eapply to_keys with (ref := ref); eauto.
          -- lia.
          -- apply TInv_TW. eauto.
          -- exact (proj1 (sp_usage _ _ _ _ Hpost)).
      + pose proof (lf_store_post _ _ _ _ Ha Est) as Hpost.
        destruct (sp_result _ _ _ _ Hpost) as (He & Haa & Hsne & Hlim). subst e a'.
        inversion Hi; subst t' R. rewrite trodeo_eta.
        eapply to_memory; eauto.
  Qed.

  (* ---------- 4. try_get_or_intern_static ---------- *)

  Inductive t_static_outcome (t : trodeo) (cs : list str) (addr : N) (s : str)
            (t' : trodeo) (R : res N) : Prop :=
  | ts_present k :
      index_of s cs = Some k -> t' = t -> R = Ok k -> t_static_outcome t cs addr s t' R
  | ts_keys :
      index_of s cs = None -> R = Err KeySpaceExhaustion -> keycap <= N.of_nat (length cs) ->
      TInv t' cs -> (forall refs, TW t cs refs -> TW t' cs refs) ->
      tmap t' = tmap t -> tstrs t' = tstrs t -> tkey t' = tkey t + 1 -> tar t' = tar t ->
      t_static_outcome t cs addr s t' R
  | ts_new :
      index_of s cs = None -> R = Ok (N.of_nat (length cs)) -> N.of_nat (length cs) < keycap ->
      TInv t' (cs ++ [s]) ->
      (forall refs, TW t cs refs -> TW t' (cs ++ [s]) (refs ++ [RStatic addr s])) ->
      tar t' = tar t -> tkey t' = tkey t + 1 ->
      t_static_outcome t cs addr s t' R.

  Theorem t_intern_static_spec t cs addr s t' R :
    TInv t cs -> t_intern_static t addr s = (t', R) -> t_static_outcome t cs addr s t' R.
  Proof.
    intros Hinv Hi. apply TInv_TW in Hinv as (refs0 & HW0).
    pose proof (t_get_spec _ _ _ s HW0) as Hget.
    unfold Rodeo.t_intern_static in Hi. rewrite Hget in Hi.
    destruct (index_of s cs) as [k|] eqn:Ei.
    - inversion Hi; subst. eapply ts_present; eauto.
    - pose proof HW0 as (Ha & _ & _ & Hcnt0).
      unfold try_key in Hi. destruct (tkey t <? keycap) eqn:Ek.
      + apply N.ltb_lt in Ek. inversion Hi; subst t' R; clear Hi.
        assert (Hkey : tkey t = N.of_nat (length cs)) by lia.
        match goal with |- t_static_outcome _ _ _ _ ?T _ => set (t' := T) end.
        assert (HW' : forall refs, TW t cs refs -> TW t' (cs ++ [s]) (refs ++ [RStatic addr s])).
        { intros refs (_ & Hs & Hm & Hcnt). split; [exact Ha|].
          unfold t'; cbn [tar tmap tstrs tkey]. split; [|split].
          - apply strs_ok_push_static; auto. now apply index_of_none.
          - apply maps_ok_push; auto. rewrite Hkey.
            destruct Hs as (_ & _ & Hc & _). now rewrite (contents_length _ _ _ Hc).
          - rewrite app_length. simpl. lia. }
        eapply ts_new; eauto.
        * now rewrite Hkey.
        * lia.
        * apply TInv_TW. eauto.
      + apply N.ltb_ge in Ek. inversion Hi; subst t' R; clear Hi.
        match goal with |- t_static_outcome _ _ _ _ ?T _ => set (t' := T) end.
        assert (HW' : forall refs, TW t cs refs -> TW t' cs refs).
        { intros refs (_ & Hs & Hm & Hcnt). split; [exact Ha|].
          unfold t'; cbn [tar tmap tstrs tkey]. split; [|split]; auto. lia. }
        eapply ts_keys; eauto.
        * lia.
        * apply TInv_TW. eauto.
  Qed.

  (* what a caller that only tracks the abstract list needs *)
  Corollary t_intern_inv t cs s t' R :
    TInv t cs -> t_intern t s = (t', R) ->
    (TInv t' cs /\ (index_of s cs <> None \/ exists e, R = Err e)) \/
    (TInv t' (cs ++ [s]) /\ index_of s cs = None /\ R = Ok (N.of_nat (length cs))).
  Proof.
    intros Hinv Hi. destruct (t_intern_spec _ _ _ _ _ Hinv Hi).
    - left. subst. split; auto. left. congruence.
    - left. subst. split; eauto.
    - left. split; eauto.
    - right. auto.
  Qed.

  Corollary t_intern_static_inv t cs addr s t' R :
    TInv t cs -> t_intern_static t addr s = (t', R) ->
    (TInv t' cs /\ (index_of s cs <> None \/ exists e, R = Err e)) \/
    (TInv t' (cs ++ [s]) /\ index_of s cs = None /\ R = Ok (N.of_nat (length cs))).
  Proof.
    intros Hinv Hi. destruct (t_intern_static_spec _ _ _ _ _ _ Hinv Hi).
    - left. subst. split; auto. left. congruence.
    - left. split; eauto.
    - right. auto.
  Qed.

  (* ---------- 5. set_memory_limits ---------- *)

  Lemma t_set_limit_inv t cs m : TInv t cs -> TInv (t_set_limit t m) cs.
  Proof.
    intros (Ha & refs & Hs & H). unfold ThreadedInv.TInv, t_set_limit; simpl.
    split; [exact Ha|]. exists refs. split; auto.
  Qed.

  (* ---------- 6. views: into_resolver / into_reader ---------- *)

  (* scatter writes every pair of a duplicate-free, in-range key -> value list into its slot
     and touches nothing else *)
  Lemma scatter_spec l : forall acc,
    NoDup (map fst l) ->
    (forall k, In k (map fst l) -> (N.to_nat k < length acc)%nat) ->
    exists acc', scatter l acc = Some acc' /\ length acc' = length acc /\
      (forall k r, In (k, r) l -> nth_error acc' (N.to_nat k) = Some (Some r)) /\
      (forall i, ~ In (N.of_nat i) (map fst l) -> nth_error acc' i = nth_error acc i).
  Proof.
    induction l as [|(k & r) l IH]; intros acc Hnd Hlt.
    - exists acc. simpl. split; auto. split; auto. split; [intros k r []|auto].
    - simpl in Hnd. inversion Hnd as [|x y Hnotin Hnd']; subst.
      assert (Hk : (N.to_nat k < length acc)%nat) by (apply Hlt; now left).
      cbn [scatter].
      replace (k <? N.of_nat (length acc)) with true by (symmetry; apply N.ltb_lt; lia).
      assert (Hlt' : forall k', In k' (map fst l) ->
                (N.to_nat k' < length (set_nth (N.to_nat k) (Some r) acc))%nat).
      { intros k' Hk'. rewrite set_nth_length. apply Hlt. now right. }
      destruct (IH (set_nth (N.to_nat k) (Some r) acc) Hnd' Hlt') as (acc' & Hsc & Hlen & Hin & Hout).
      exists acc'. split; auto. rewrite set_nth_length in Hlen. split; auto. split.
      + intros k' r' [Heq|Hin'].
        * injection Heq as <- <-. rewrite Hout by (rewrite N2Nat.id; exact Hnotin).
          now apply nth_error_set_nth_eq.
        * now apply Hin.
      + intros i Hi. simpl in Hi. rewrite Hout by (intros Hx; apply Hi; right; exact Hx). apply nth_error_set_nth_neq.
        intros Heq. apply Hi. left. lia.
  Qed.

  (* into_resolver: the dense table is exactly the witness of the invariant *)
  Theorem t_strings_spec t cs refs : TW t cs refs -> t_strings t = Some refs.
  Proof.
    intros HW. pose proof HW as (_ & _ & Hm & _). pose proof (maps_length _ _ _ Hm) as Hlen.
    pose proof Hm as (H1 & H2 & _).
    unfold t_strings.
    assert (Hlt : forall k, In k (map fst (tstrs t)) ->
              (N.to_nat k < length (repeat (@None sref) (length (tstrs t))))%nat).
    { intros k Hk. rewrite repeat_length, Hlen. eapply maps_keys; eauto. }
    destruct (scatter_spec (tstrs t) (repeat None (length (tstrs t))) H1 Hlt)
      as (acc & Hsc & Hl & Hin & _).
    rewrite Hsc. rewrite repeat_length in Hl.
    replace acc with (map Some refs); [apply all_some_map_Some|].
    apply nth_error_ext_eq. intros i. rewrite nth_error_map.
    destruct (nth_error refs i) as [r|] eqn:E; simpl.
    - rewrite <- (Nat2N.id i) in E. apply H2, Hin in E. rewrite Nat2N.id in E. now rewrite E.
    - symmetry. apply nth_error_None. apply nth_error_None in E. lia.
  Qed.

  Theorem t_strings_inv t cs :
    TInv t cs -> exists refs, t_strings t = Some refs /\ strs_ok refs (tar t) cs.
  Proof.
    intros H. apply TInv_TW in H as (refs & H). exists refs. split.
    - eapply t_strings_spec; eauto.
    - apply H.
  Qed.

  (* every entry of a (partial) table is filed under the hash of its key's string *)
  Definition filed (tb : table) (cs : list str) : Prop :=
    forall h k, In (h, k) tb -> exists s, nth_error cs (N.to_nat k) = Some s /\ h = hash s.

  (* rebuild inserts each (reference, key) pair once; no lookup ever hits, because the keys
     still to come are not in the partial table and the contents are pairwise different *)
  Lemma rebuild_spec refs a cs :
    contents refs a = Some cs -> NoDup cs ->
    forall l tb,
    NoDup (map snd l) ->
    (forall r k, In (r, k) l -> nth_error refs (N.to_nat k) = Some r) ->
    NoDup (map snd tb) -> filed tb cs ->
    (forall k, In k (map snd tb) -> ~ In k (map snd l)) ->
    exists tb', rebuild l refs a tb = Some tb' /\ NoDup (map snd tb') /\ filed tb' cs /\
                (forall k, In k (map snd tb') <-> In k (map snd tb) \/ In k (map snd l)).
  Proof.
    intros Hc Hndc. induction l as [|(r & k) l IH]; intros tb Hnd Hrefs Hndt Hfiled Hdisj.
    - exists tb. simpl. split; auto. split; auto. split; auto. intros k.
      split; [intros H; left; exact H|intros [H|[]]; exact H].
    - simpl in Hnd. inversion Hnd as [|x y Hnotin Hnd']; subst.
      assert (Hr : nth_error refs (N.to_nat k) = Some r) by (apply Hrefs; now left).
      destruct (read_refs _ _ _ _ _ Hc Hr) as (Hrd & Hklt).
      destruct (nth_error cs (N.to_nat k)) as [s|] eqn:Es; [|apply nth_error_None in Es; lia].
      cbn [Rodeo.rebuild]. rewrite Hrd.
      assert (Hlk : tlookup tb refs a (hash s) s = None).
      { unfold Rodeo.tlookup. destruct (find _ tb) as [(h' & k')|] eqn:Ef; auto. exfalso.
        apply find_some in Ef as (Hin & Hp). simpl in Hp. apply andb_true_iff in Hp as (_ & Hp).
        rewrite (key_str_contents _ _ _ _ Hc) in Hp.
        destruct (nth_error cs (N.to_nat k')) as [s'|] eqn:Ek'; [|discriminate].
        apply str_eqb_eq in Hp. subst s'.
        assert (k' = k).
        { assert (I1 : index_of s cs = Some k') by (apply index_of_nodup; auto).
          assert (I2 : index_of s cs = Some k) by (apply index_of_nodup; auto). congruence. }
        subst k'. apply (Hdisj k).
        - apply in_map_iff. exists (h', k). auto.
        - now left. }
      rewrite Hlk.
      set (tb1 := tinsert tb refs a (hash s) k).
      assert (Hsnd : map snd tb1 = k :: map snd tb).
      { unfold tb1, Rodeo.tinsert. simpl. f_equal. destruct (growf _); auto.
        rewrite map_map. reflexivity. }
      assert (P1 : forall r0 k0, In (r0, k0) l -> nth_error refs (N.to_nat k0) = Some r0).
      { intros r0 k0 Hin. apply Hrefs. now right. }
      assert (P2 : NoDup (map snd tb1)).
      { rewrite Hsnd. constructor; auto. intros Hin. apply (Hdisj k Hin). now left. }
      assert (P3 : filed tb1 cs).
      { intros h0 k0 Hin. unfold tb1, Rodeo.tinsert in Hin. destruct Hin as [Heq|Hin].
        - injection Heq as <- <-. eauto.
        - destruct (growf _).
          + apply in_map_iff in Hin as ((h1 & k1) & Heq & Hin). simpl in Heq.
            injection Heq as <- <-.
            destruct (Hfiled _ _ Hin) as (s1 & Hs1 & _). exists s1. split; auto.
            unfold rehash. rewrite (key_str_contents _ _ _ _ Hc), Hs1. reflexivity.
          + eauto. }
      assert (P4 : forall k0, In k0 (map snd tb1) -> ~ In k0 (map snd l)).
      { intros k0. rewrite Hsnd. intros [<-|Hin]; [exact Hnotin|].
        intros Hin'. apply (Hdisj k0 Hin). now right. }
      destruct (IH tb1 Hnd' P1 P2 P3 P4) as (tb' & Hrb & Hnd'' & Hf' & Hkeys).
      exists tb'. split; auto. split; auto. split; auto.
      intros k0. rewrite Hkeys, Hsnd. simpl.
      split; [intros [[H|H]|H]|intros [H|[H|H]]]; auto.
  Qed.

  (* into_reader: the result is a well-formed RodeoReader over the same content *)
  Theorem t_into_reader_spec t cs refs :
    TW t cs refs ->
    exists r, t_into_reader t = Some r /\ RodeoInv r cs /\ rstrs r = refs /\ rar r = tar t.
  Proof.
    intros HW. pose proof (t_strings_spec _ _ _ HW) as Hst.
    destruct HW as (Ha & Hs & (H1 & H2 & H3 & H4) & Hcnt). pose proof Hs as (_ & _ & Hc & Hndc).
    unfold Rodeo.t_into_reader. rewrite Hst.
    assert (P1 : forall r k, In (r, k) (tmap t) -> nth_error refs (N.to_nat k) = Some r).
    { intros r k Hin. now apply H2, H4. }
    assert (P2 : NoDup (map snd (@nil (N * N)))) by constructor.
    assert (P3 : filed [] cs) by (intros h k []).
    assert (P4 : forall k, In k (map snd (@nil (N * N))) -> ~ In k (map snd (tmap t)))
      by (intros k []).
    destruct (rebuild_spec refs (tar t) cs Hc Hndc (tmap t) [] H3 P1 P2 P3 P4)
      as (tb & Hrb & Hnd & Hf & Hkeys).
    rewrite Hrb. eexists. split; [reflexivity|]. split; [|split]; simpl; auto.
    split; [exact Ha|]. simpl. split; [exact Hs|]. split; [|lia].
    split; [exact Hnd|]. split; [exact Hf|].
    intros k Hk. apply Hkeys. right.
    destruct (nth_error refs (N.to_nat k)) as [r|] eqn:E.
    - apply H2, H4 in E. apply in_map_iff. exists (r, k). auto.
    - apply nth_error_None in E. rewrite <- (contents_length _ _ _ Hc) in E. lia.
  Qed.

  Theorem t_into_reader_inv t cs :
    TInv t cs -> exists r, t_into_reader t = Some r /\ RodeoInv r cs /\ rar r = tar t /\
                           t_strings t = Some (rstrs r).
  Proof.
    intros H. apply TInv_TW in H as (refs & H).
    destruct (t_into_reader_spec _ _ _ H) as (r & H1 & H2 & H3 & H4).
    exists r. split; auto. split; auto. split; auto. rewrite H3. eapply t_strings_spec; eauto.
  Qed.

  (* ---------- 7. deserialisation ---------- *)

  (* the entries handled so far, as (key, reference, string) triples in document order *)
  Definition tk (x : N * sref * str) : N := fst (fst x).
  Definition tr (x : N * sref * str) : sref := snd (fst x).
  Definition tS (x : N * sref * str) : str := snd x.

  Definition de_state (t : trodeo) (tl : list (N * sref * str)) : Prop :=
    ArenaInv (tar t) /\
    strs_ok (map tr tl) (tar t) (map tS tl) /\
    tmap t = map (fun x => (tr x, tk x)) tl /\
    tstrs t = map (fun x => (tk x, tr x)) tl.

  Lemma de_loop_spec : forall rest t next tl b,
    de_state t tl ->
    NoDup (map tS tl ++ map fst rest) -> NoDup (map tk tl ++ map snd rest) ->
    blocks (tar t) = [b] -> bused b + sum_N (map slen (map fst rest)) <= bcap b ->
    exists t' tl', de_threaded_loop rest t next = DOk trodeo t' /\ de_state t' (tl ++ tl') /\
       map (fun x => (tS x, tk x)) tl' = rest /\
       tkey t' = fold_left (fun nx k => if nx <=? k then k + 1 else nx) (map snd rest) next.
  Proof.
    induction rest as [|(s & k) rest IH]; intros t next tl b Hst Hnds Hndk Hb Hroom.
    - exists (mkT (tmap t) (tstrs t) next (tar t)), []. simpl. rewrite app_nil_r.
      split; auto.
    - cbn [de_threaded_loop].
      assert (Hsum : sum_N (map slen (map fst ((s, k) :: rest))) =
                     slen s + sum_N (map slen (map fst rest))) by reflexivity.
      rewrite Hsum in Hroom.
      assert (Hfit : bused b + slen s <= bcap b) by lia.
      destruct (lf_store_head_fits (tar t) b s Hb Hfit) as (a' & ref & b' & Hst' & Hb' & Hcap' & Hused').
      destruct Hst as (Ha & Hs & Htm & Hts).
      pose proof (lf_store_post _ _ _ _ Ha Hst') as Hpost.
      rewrite Hst'.
      assert (Hnew : ~ In s (map tS tl)).
      { cbn [map fst] in Hnds. apply NoDup_remove_2 in Hnds. intros Hin. apply Hnds.
        apply in_or_app. now left. }
      assert (Hknew : ~ In k (map tk tl)).
      { cbn [map snd] in Hndk. apply NoDup_remove_2 in Hndk. intros Hin. apply Hndk.
        apply in_or_app. now left. }
      pose proof (strs_ok_push _ _ _ _ _ _ Hs Hpost Hnew) as Hs1.
      pose proof (strs_ok_frame _ _ _ _ Hs (sp_frame _ _ _ _ Hpost)) as Hs0.
      assert (Hrd : Forall (fun x => read a' (tr x) = Some (tS x)) tl).
      { apply contents_map_iff. apply Hs0. }
      set (x := ((k, ref), s)).
      match goal with |- context [de_threaded_loop rest ?T ?NX] => set (t1 := T); set (nx := NX) end.
      assert (Hst1 : de_state t1 (tl ++ [x])).
      { unfold de_state, t1; cbn [tar tmap tstrs]. split; [exact (sp_inv _ _ _ _ Hpost)|].
        rewrite !map_app. cbn [map]. split; [exact Hs1|]. split.
        - f_equal. rewrite Htm. apply filter_all. intros e He.
          apply in_map_iff in He as (y & <- & Hy). cbn [fst].
          rewrite Forall_forall in Hrd. rewrite (Hrd y Hy).
          destruct (str_eqb s (tS y)) eqn:E; auto. apply str_eqb_eq in E. exfalso.
          apply Hnew. rewrite E. now apply in_map.
        - rewrite strs_insert_fresh.
          + now rewrite Hts.
          + rewrite Hts, map_map. cbn [fst]. exact Hknew. }
      assert (Hnds1 : NoDup (map tS (tl ++ [x]) ++ map fst rest)).
      { rewrite map_app, <- app_assoc. exact Hnds. }
      assert (Hndk1 : NoDup (map tk (tl ++ [x]) ++ map snd rest)).
      { rewrite map_app, <- app_assoc. exact Hndk. }
      assert (Hroom1 : bused b' + sum_N (map slen (map fst rest)) <= bcap b') by lia.
      destruct (IH t1 nx (tl ++ [x]) b' Hst1 Hnds1 Hndk1 Hb' Hroom1)
        as (t' & tl' & Hloop & Hst'' & Hrest & Hkey).
      exists t', (x :: tl'). split; [exact Hloop|]. split; [|split].
      + rewrite <- app_assoc in Hst''. exact Hst''.
      + cbn [map]. now rewrite Hrest.
      + exact Hkey.
  Qed.

  Lemma doc_bytes_pos l : 0 < doc_bytes l /\ sum_N (map slen l) <= doc_bytes l.
  Proof.
    unfold doc_bytes. destruct (sum_N (map slen l) =? 0) eqn:E.
    - apply N.eqb_eq in E. unfold default_bytes. lia.
    - apply N.eqb_neq in E. lia.
  Qed.

  (* Deserialize for ThreadedRodeo.  [Hkeys] says that the keys on the wire are values of the
     key type (serde could not have produced them otherwise). *)
  Theorem de_threaded_ok l :
    NoDup (map fst l) -> (forall s k, In (s, k) l -> k < keycap) ->
    keys_dense l (repeat false (length l)) = true ->
    exists t cs, de_threaded l = DOk trodeo t /\ TInv t cs /\ length cs = length l /\
                 (forall s k, nth_error cs (N.to_nat k) = Some s <-> In (s, k) l) /\
                 tkey t = N.of_nat (length l).
  Proof.
    intros Hnds Hkeys Hdense.
    unfold de_threaded, de_threaded_gen. rewrite Hdense. cbn [negb andb].
    apply keys_dense_init in Hdense as (Hndk & Hklt).
    destruct (doc_bytes_pos (map fst l)) as (Hpos & Hsum).
    set (cap := doc_bytes (map fst l)) in *.
    assert (Hst0 : de_state (trodeo_new cap usize_max) []).
    { unfold de_state, trodeo_new; simpl. split; [now apply arena_new_inv|].
      split; auto. repeat split; try constructor. }
    assert (Hroom : bused (fresh_block 0 cap) + sum_N (map slen (map fst l)) <= bcap (fresh_block 0 cap))
      by (simpl; lia).
    destruct (de_loop_spec l (trodeo_new cap usize_max) 0 [] (fresh_block 0 cap) Hst0 Hnds Hndk
                           eq_refl Hroom) as (t & tl & Hloop & Hst & Hl & Hkey).
    rewrite Hloop. simpl in Hst.
    assert (Hks : map snd l = map tk tl) by (rewrite <- Hl, map_map; reflexivity).
    assert (Hlen : length tl = length l) by (rewrite <- Hl, map_length; reflexivity).
    rewrite Hks in Hndk, Hklt, Hkey.
    pose proof (dense_keys_perm _ Hndk) as Hperm. rewrite map_length in Hperm.
    assert (Hklt' : forall k, In k (map tk tl) -> (N.to_nat k < length tl)%nat)
      by (intros k Hk; rewrite Hlen; auto).
    specialize (Hperm Hklt').
    destruct (Permutation_map_inv tk _ (Permutation_sym Hperm)) as (tl3 & Hsorted & Hp3).
    (* the counter *)
    assert (Hcount : tkey t = N.of_nat (length tl)).
    { destruct (next_key_spec _ _ _ (eq_sym Hkey)) as (_ & Hub & Hlast).
      destruct (length tl) as [|n] eqn:En.
      - destruct tl; [|discriminate]. destruct Hlast as [H|(_ & [])]. exact H.
      - assert (Hin : In (N.of_nat n) (map tk tl)).
        { eapply Permutation_in; [apply Permutation_sym; exact Hperm|].
          apply in_map. apply in_seq. lia. }
        apply Hub in Hin. destruct Hlast as [H|(_ & H)]; [lia|].
        apply Hklt' in H. lia. }
    assert (Hcap : N.of_nat (length tl) <= keycap).
    { destruct (length tl) as [|n] eqn:En; [lia|].
      assert (Hin : In (N.of_nat n) (map tk tl)).
      { eapply Permutation_in; [apply Permutation_sym; exact Hperm|].
        apply in_map. apply in_seq. lia. }
      rewrite <- Hks in Hin. apply in_map_iff in Hin as ((s0 & k0) & Hk0 & Hin0). simpl in Hk0.
      subst k0. apply Hkeys in Hin0. lia. }
    destruct Hst as (Ha & Hs & Htm & Hts).
    exists t, (map tS tl3).
    assert (Hlook : forall {B} (g : N * sref * str -> B) k b,
              In (k, b) (map (fun x => (tk x, g x)) tl) <->
              nth_error (map g tl3) (N.to_nat k) = Some b).
    { intros B g k b. rewrite (perm_in_iff (fun x => (tk x, g x)) tl tl3 (k, b) Hp3).
      eapply sorted_lookup. symmetry. exact Hsorted. }
    split; [reflexivity|]. split; [|split; [|split]].
    - apply TInv_TW. exists (map tr tl3). split; [exact Ha|]. split; [|split].
      + eapply strs_ok_perm; eauto.
      + rewrite Htm, Hts. split; [|split; [|split]].
        * rewrite map_map. exact Hndk.
        * intros k r. apply Hlook.
        * rewrite map_map. exact Hndk.
        * intros r k. rewrite !in_map_iff.
          split; intros (y & Heq & Hy); exists y; (split; [|exact Hy]);
            injection Heq as <- <-; reflexivity.
      + rewrite map_length, <- (Permutation_length Hp3), Hcount. lia.
    - rewrite map_length, <- (Permutation_length Hp3). exact Hlen.
    - intros s k. rewrite <- Hlook, <- Hl, !in_map_iff.
      split; intros (y & Heq & Hy); exists y; (split; [|exact Hy]);
        injection Heq as <- <-; reflexivity.
    - now rewrite Hcount, Hlen.
  Qed.

  (* the complete case analysis: an error exactly for the documents whose keys are not a
     permutation of 0..n-1, never a panic *)
  Theorem de_threaded_spec l :
    NoDup (map fst l) -> (forall s k, In (s, k) l -> k < keycap) ->
    (de_threaded l = DErr trodeo <-> keys_dense l (repeat false (length l)) = false) /\
    (keys_dense l (repeat false (length l)) = true ->
       exists t cs, de_threaded l = DOk trodeo t /\ TInv t cs /\ length cs = length l /\
                    (forall s k, nth_error cs (N.to_nat k) = Some s <-> In (s, k) l) /\
                    tkey t = N.of_nat (length l)) /\
    de_threaded l <> DPanic trodeo.
  Proof.
    intros Hnds Hkeys.
    destruct (keys_dense l (repeat false (length l))) eqn:E.
    - destruct (de_threaded_ok l Hnds Hkeys E) as (t & cs & Hde & Hrest).
      split; [|split].
      + rewrite Hde. split; discriminate.
      + intros _. exists t, cs. split; auto.
      + rewrite Hde. discriminate.
    - assert (Hde : de_threaded l = DErr trodeo).
      { unfold de_threaded, de_threaded_gen. rewrite E. reflexivity. }
      split; [|split].
      + split; auto.
      + discriminate.
      + rewrite Hde. discriminate.
  Qed.

  (* ---------- 8. PartialEq ---------- *)

  Theorem eq_threaded_threaded t u cs cs' :
    TInv t cs -> TInv u cs' ->
    exists b, eq_obj (OThreaded t) (OThreaded u) = Some b /\ (b = true <-> cs = cs').
  Proof.
    intros Ht Hu. apply TInv_TW in Ht as (refs & Ht).
    pose proof (t_len_spec _ _ _ Ht) as Hlt. pose proof (t_len_inv _ _ Hu) as Hlu.
    cbn [Rodeo.eq_obj]. eexists. split; [reflexivity|].
    rewrite Hlt, Hlu, andb_true_iff, N.eqb_eq, forallb_forall.
    destruct Ht as (_ & (_ & _ & Hc & _) & (H1 & H2 & _) & _).
    pose proof (contents_length _ _ _ Hc) as Hlr.
    split.
    - intros (Hlen & Hall). apply list_eq_nth; [lia|]. intros i Hi.
      destruct (nth_error refs i) as [r|] eqn:Er; [|apply nth_error_None in Er; lia].
      rewrite <- (Nat2N.id i) in Er. pose proof Er as Hin. apply H2 in Hin.
      specialize (Hall _ Hin). cbn [fst snd] in Hall.
      destruct (read_refs _ _ _ _ _ Hc Er) as (Hrd & _).
      rewrite Hrd, (t_resolve_inv _ _ _ Hu) in Hall. rewrite Nat2N.id in Hall.
      destruct (nth_error cs i) as [s|]; [|discriminate].
      destruct (nth_error cs' i) as [s'|]; [|discriminate].
      apply str_eqb_eq in Hall. now subst.
    - intros <-. split; auto. intros (k & r) Hin. cbn [fst snd]. apply H2 in Hin.
      destruct (read_refs _ _ _ _ _ Hc Hin) as (Hrd & Hk).
      rewrite Hrd, (t_resolve_inv _ _ _ Hu).
      destruct (nth_error cs (N.to_nat k)) as [s|] eqn:E;
        [apply str_eqb_refl|apply nth_error_None in E; lia].
  Qed.

  Lemma eq_list_bool t cs (cs' : list str) :
    TInv t cs -> N.of_nat (length cs') <= keycap ->
    ((t_len t =? N.of_nat (length cs')) &&
     forallb (fun p : N * str =>
                match try_key keycap (fst p) with
                | Some k => match t_resolve t k with
                            | Some s' => str_eqb s' (snd p)
                            | None => false
                            end
                | None => false
                end)
             (combine (map N.of_nat (seq 0 (length cs'))) cs')) = true <-> cs = cs'.
  Proof.
    intros Ht Hcap. rewrite (t_len_inv _ _ Ht), andb_true_iff, N.eqb_eq, forallb_forall.
    split.
    - intros (Hlen & Hall). apply list_eq_nth; [lia|]. intros i Hi.
      destruct (nth_error cs' i) as [s'|] eqn:E'; [|apply nth_error_None in E'; lia].
      assert (Hin : In (N.of_nat i, s') (combine (map N.of_nat (seq 0 (length cs'))) cs')).
      { apply in_combine_seq. exists i. auto. }
      apply Hall in Hin. cbn [fst snd] in Hin. unfold try_key in Hin.
      replace (N.of_nat i <? keycap) with true in Hin by (symmetry; apply N.ltb_lt; lia).
      rewrite (t_resolve_inv _ _ _ Ht), Nat2N.id in Hin.
      destruct (nth_error cs i) as [s|]; [|discriminate]. apply str_eqb_eq in Hin. now subst.
    - intros <-. split; auto. intros (k & s') Hin.
      apply in_combine_seq in Hin as (i & Hk & Hi). simpl in Hk. subst k.
      cbn [fst snd]. unfold try_key.
      assert (Hlt : (i < length cs)%nat) by (apply nth_error_Some; congruence).
      replace (N.of_nat i <? keycap) with true by (symmetry; apply N.ltb_lt; lia).
      rewrite (t_resolve_inv _ _ _ Ht), Nat2N.id, Hi. apply str_eqb_refl.
  Qed.

  (* ThreadedRodeo == Rodeo / RodeoReader / RodeoResolver *)
  Theorem eq_threaded_list t cs y strs a cs' :
    TInv t cs -> obj_strs y = Some (strs, a) -> contents strs a = Some cs' ->
    N.of_nat (length cs') <= keycap ->
    exists b, eq_obj (OThreaded t) y = Some b /\ (b = true <-> cs = cs').
  Proof.
    intros Ht Hy Hc' Hcap.
    destruct y; simpl in Hy; try discriminate; injection Hy as <- <-;
      cbn [Rodeo.eq_obj obj_strs]; rewrite Hc'; eexists; (split; [reflexivity|]);
      apply eq_list_bool; auto.
  Qed.

End Proofs.

(* ---------- the two refutations of the unrepaired deserialiser (key type Spur) ---------- *)

Definition spur_cap : N := 4294967295.

(* F3: the counter is set to the highest key instead of one above it; the next interned
   string is handed the key of "b" *)
Example F3_legacy_counter :
  match de_threaded_gen true false [([97], 0); ([98], 1)] with
  | DOk _ t => tkey t = 1 /\ t_resolve t 1 = Some [98] /\
               snd (t_intern spur_cap t [99]) = Ok 1
  | _ => False
  end.
Proof. vm_compute. auto. Qed.

(* ... the repaired code continues with a fresh key *)
Example F3_repaired_counter :
  match de_threaded [([97], 0); ([98], 1)] with
  | DOk _ t => tkey t = 2 /\ snd (t_intern spur_cap t [99]) = Ok 2
  | _ => False
  end.
Proof. vm_compute. auto. Qed.

(* F4: without the key check a sparse document is accepted and the view conversion faults *)
Example F4_legacy_sparse_keys :
  match de_threaded_gen false true [([97], 0); ([98], 6)] with
  | DOk _ t => t_strings t = None /\ t_into_reader (fun _ => 0) N.eqb (fun _ => false) t = None
  | _ => False
  end.
Proof. vm_compute. auto. Qed.

Example F4_repaired_sparse_keys : de_threaded [([97], 0); ([98], 6)] = DErr trodeo.
Proof. vm_compute. reflexivity. Qed.

Print Assumptions trodeo_new_inv.
Print Assumptions t_get_inv.
Print Assumptions t_ref_inv.
Print Assumptions t_resolve_inv.
Print Assumptions t_len_inv.
Print Assumptions t_intern_spec.
Print Assumptions t_intern_static_spec.
Print Assumptions t_set_limit_inv.
Print Assumptions t_strings_spec.
Print Assumptions t_into_reader_spec.
Print Assumptions keys_dense_perm_iff.
Print Assumptions de_threaded_spec.
Print Assumptions eq_threaded_threaded.
Print Assumptions eq_threaded_list.
Print Assumptions F3_legacy_counter.
Print Assumptions F4_legacy_sparse_keys.
