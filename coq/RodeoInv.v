(* RodeoInv.v — the invariant of Rodeo / RodeoReader and the correctness of the table lookup.
   Everything is proved for every hash function, every probe relation [cand] that is at least
   reflexive, every growth oracle and every key capacity. *)
From Lasso Require Import Base Arena ArenaProofs Rodeo.

(* ---------- generic list facts ---------- *)

Lemma all_some_length {A} (l : list (option A)) r : all_some l = Some r -> length r = length l.
Proof.
  revert r; induction l as [|[x|] l IH]; simpl; intros r H; try discriminate.
  - inversion H; auto.
  - destruct (all_some l); [|discriminate]. inversion H; subst. simpl. f_equal. auto.
Qed.

Lemma all_some_nth {A} (l : list (option A)) r n x :
  all_some l = Some r -> nth_error l n = Some x -> x = nth_error r n.
Proof.
  revert r n; induction l as [|[y|] l IH]; simpl; intros r n H Hn; try discriminate.
  - destruct n; discriminate.
  - destruct (all_some l) as [r'|] eqn:E; [|discriminate]. inversion H; subst.
    destruct n; simpl in *; [now inversion Hn|]. eapply IH; eauto.
Qed.

Lemma all_some_app {A} (l1 l2 : list (option A)) :
  all_some (l1 ++ l2) =
  match all_some l1, all_some l2 with Some a, Some b => Some (a ++ b) | _, _ => None end.
Proof.
  induction l1 as [|[x|] l1 IH]; simpl.
  - destruct (all_some l2); auto.
  - rewrite IH. destruct (all_some l1), (all_some l2); auto.
  - reflexivity.
Qed.

Lemma all_some_ext {A B} (f g : A -> option B) l :
  (forall x, In x l -> f x = g x) -> all_some (map f l) = all_some (map g l).
Proof.
  induction l as [|x l IH]; simpl; auto. intros H.
  rewrite (H x) by auto. rewrite IH by auto. reflexivity.
Qed.

Lemma index_of_app_r s l : ~ In s l -> index_of s (l ++ [s]) = Some (N.of_nat (length l)).
Proof.
  induction l as [|x l IH]; simpl; intros H.
  - now rewrite str_eqb_refl.
  - destruct (str_eqb s x) eqn:E; [apply str_eqb_eq in E; subst; tauto|].
    rewrite IH by tauto. f_equal. lia.
Qed.

Lemma index_of_some s l i :
  index_of s l = Some i -> nth_error l (N.to_nat i) = Some s /\ i < N.of_nat (length l).
Proof.
  revert i; induction l as [|x l IH]; simpl; intros i H; [discriminate|].
  destruct (str_eqb s x) eqn:E.
  - inversion H; subst. apply str_eqb_eq in E. subst. simpl. split; auto. lia.
  - destruct (index_of s l) as [j|]; [|discriminate]. inversion H; subst.
    destruct (IH j eq_refl) as (H1 & H2).
    replace (N.to_nat (j + 1)) with (S (N.to_nat j)) by lia. simpl. split; auto. lia.
Qed.

Lemma index_of_none s l : index_of s l = None <-> ~ In s l.
Proof.
  induction l as [|x l IH]; simpl; [tauto|].
  destruct (str_eqb s x) eqn:E.
  - apply str_eqb_eq in E. subst. split; [discriminate|tauto].
  - apply str_eqb_neq in E. destruct (index_of s l) as [j|].
    + split; [discriminate|]. intros H. assert (Hn : ~ In s l) by tauto.
      apply IH in Hn. discriminate.
    + split; auto. intros _ [H|H]; [congruence|]. now apply IH.
Qed.

Lemma index_of_in s l : In s l -> exists i, index_of s l = Some i.
Proof.
  intros H. destruct (index_of s l) as [i|] eqn:E; eauto.
  apply index_of_none in E. contradiction.
Qed.

Lemma index_of_nodup s l i :
  NoDup l -> nth_error l (N.to_nat i) = Some s -> index_of s l = Some i.
Proof.
  revert i; induction l as [|x l IH]; intros i Hnd Hn.
  - destruct (N.to_nat i); discriminate.
  - inversion Hnd; subst. simpl.
    destruct (N.to_nat i) as [|n] eqn:En; simpl in Hn.
    + inversion Hn; subst. rewrite str_eqb_refl. f_equal. lia.
    + destruct (str_eqb s x) eqn:E.
      * apply str_eqb_eq in E. subst. exfalso. apply H1. eapply nth_error_In; eauto.
      * rewrite (IH (N.of_nat n)); auto.
        -- f_equal. lia.
        -- now rewrite Nat2N.id.
Qed.

Lemma NoDup_app_snoc {A} (l : list A) x : NoDup l -> ~ In x l -> NoDup (l ++ [x]).
Proof.
  intros Hnd Hx. apply (NoDup_Add (a := x) (l := l)).
  - rewrite <- (app_nil_r l) at 1. apply Add_app.
  - auto.
Qed.

Lemma find_some_iff {A} (p : A -> bool) l :
  (exists x, find p l = Some x) <-> (exists x, In x l /\ p x = true).
Proof.
  split.
  - intros (x & H). apply find_some in H. eauto.
  - intros (x & Hin & Hp). destruct (find p l) eqn:E; eauto.
    eapply find_none in E; eauto. congruence.
Qed.

(* ---------- the model-level facts ---------- *)

Section Inv.
  Variable hash : str -> N.
  Variable cand : N -> N -> bool.
  Variable growf : N -> bool.
  Variable keycap : N.
  (* the raw-entry contract: a probe for hash h at least looks at the entries filed under h *)
  Hypothesis cand_refl : forall h, cand h h = true.

  Notation tlookup := (tlookup cand).
  Notation tinsert := (tinsert hash growf).

  (* the string table: every reference valid, regions pairwise disjoint, contents readable
     and pairwise different *)
  Definition strs_ok (strs : list sref) (a : arena) (cs : list str) : Prop :=
    Forall (ref_ok a) strs /\
    ForallOrdPairs refs_disjoint strs /\
    contents strs a = Some cs /\
    NoDup cs.

  (* the lookup table: one entry per key, each filed under the hash of the string its key
     points to *)
  Definition table_ok (t : table) (cs : list str) : Prop :=
    NoDup (map snd t) /\
    (forall h k, In (h, k) t -> exists s, nth_error cs (N.to_nat k) = Some s /\ h = hash s) /\
    (forall k, k < N.of_nat (length cs) -> In k (map snd t)).

  Definition RodeoInv (r : rodeo) (cs : list str) : Prop :=
    ArenaInv (rar r) /\ strs_ok (rstrs r) (rar r) cs /\ table_ok (rmap r) cs /\
    N.of_nat (length cs) <= keycap.

  Lemma contents_length strs a cs : contents strs a = Some cs -> length cs = length strs.
  Proof. unfold contents. intros H. apply all_some_length in H. now rewrite map_length in H. Qed.

  Lemma key_str_contents strs a cs k :
    contents strs a = Some cs -> key_str strs a k = nth_error cs (N.to_nat k).
  Proof.
    unfold contents, key_str. intros H.
    destruct (nth_error strs (N.to_nat k)) as [r|] eqn:E.
    - eapply all_some_nth; eauto. now apply map_nth_error.
    - symmetry. apply nth_error_None. apply nth_error_None in E.
      apply all_some_length in H. rewrite map_length in H. lia.
  Qed.

  (* the lookup finds exactly the position of the string *)
  Lemma tlookup_spec t strs a cs s :
    contents strs a = Some cs -> NoDup cs -> table_ok t cs ->
    tlookup t strs a (hash s) s = index_of s cs.
  Proof.
    intros Hc Hnd (Hk & Hfiled & Hall). unfold Rodeo.tlookup.
    set (p := fun e : N * N => _).
    destruct (index_of s cs) as [i|] eqn:Ei.
    - apply index_of_some in Ei as (Hn & Hi).
      assert (Hex : exists e, find p t = Some e).
      { apply find_some_iff. apply Hall in Hi. apply in_map_iff in Hi as ((h & k) & Hk1 & Hin).
        simpl in Hk1. subst k. exists (h, i). split; auto.
        destruct (Hfiled _ _ Hin) as (s' & Hs' & Hh). rewrite Hn in Hs'. inversion Hs'; subst s'.
        unfold p. simpl. rewrite Hh, cand_refl. simpl.
        rewrite (key_str_contents _ _ _ _ Hc), Hn. apply str_eqb_refl. }
      destruct Hex as ((h & k) & Hf). rewrite Hf. simpl. f_equal.
      apply find_some in Hf as (Hin & Hp). unfold p in Hp. simpl in Hp.
      apply andb_true_iff in Hp as (_ & Hp).
      rewrite (key_str_contents _ _ _ _ Hc) in Hp.
      destruct (nth_error cs (N.to_nat k)) as [s'|] eqn:Ek; [|discriminate].
      apply str_eqb_eq in Hp. subst s'.
      assert (H1 : index_of s cs = Some k) by (apply index_of_nodup; auto).
      assert (H2 : index_of s cs = Some i) by (apply index_of_nodup; auto).
      congruence.
    - destruct (find p t) as [(h & k)|] eqn:Hf; auto.
      apply find_some in Hf as (Hin & Hp). unfold p in Hp. simpl in Hp.
      apply andb_true_iff in Hp as (_ & Hp).
      rewrite (key_str_contents _ _ _ _ Hc) in Hp.
      destruct (nth_error cs (N.to_nat k)) as [s'|] eqn:Ek; [|discriminate].
      apply str_eqb_eq in Hp. subst s'. apply index_of_none in Ei.
      exfalso. apply Ei. eapply nth_error_In; eauto.
  Qed.

  (* inserting the key of a newly pushed string keeps the table well-filed, with or
     without a re-hash of every entry *)
  Lemma tinsert_ok t strs' a' cs s :
    table_ok t cs -> contents strs' a' = Some (cs ++ [s]) ->
    table_ok (tinsert t strs' a' (hash s) (N.of_nat (length cs))) (cs ++ [s]).
  Proof.
    intros (Hk & Hfiled & Hall) Hc. unfold Rodeo.tinsert.
    match goal with |- table_ok (_ :: ?T) _ => set (t' := T) end.
    assert (Hsnd : map snd t' = map snd t).
    { unfold t'. destruct (growf _); auto. rewrite map_map. simpl. reflexivity. }
    assert (Hfiled' : forall h k, In (h, k) t' ->
              exists s0, nth_error (cs ++ [s]) (N.to_nat k) = Some s0 /\ h = hash s0).
    { intros h k Hin. unfold t' in Hin. destruct (growf _).
      - apply in_map_iff in Hin as ((h0 & k0) & Heq & Hin0). simpl in Heq. inversion Heq; subst k0 h.
        destruct (Hfiled _ _ Hin0) as (s0 & Hs0 & _). exists s0.
        assert (Hn : nth_error (cs ++ [s]) (N.to_nat k) = Some s0).
        { rewrite nth_error_app1; auto. apply nth_error_Some. congruence. }
        split; auto. unfold rehash. rewrite (key_str_contents _ _ _ _ Hc), Hn. reflexivity.
      - destruct (Hfiled _ _ Hin) as (s0 & Hs0 & Hh). exists s0. split; auto.
        rewrite nth_error_app1; auto. apply nth_error_Some. congruence. }
    assert (Hlt : forall k, In k (map snd t) -> k < N.of_nat (length cs)).
    { intros k Hin. apply in_map_iff in Hin as ((h & k0) & Heq & Hin). simpl in Heq. subst k0.
      destruct (Hfiled _ _ Hin) as (s0 & Hs0 & _).
      assert (N.to_nat k < length cs)%nat by (apply nth_error_Some; congruence). lia. }
    split; [|split].
    - simpl. rewrite Hsnd. constructor; auto. intros Hin. apply Hlt in Hin. lia.
    - intros h k [Heq|Hin].
      + inversion Heq; subst. exists s. split; auto.
        rewrite Nat2N.id, nth_error_app2, Nat.sub_diag by lia. reflexivity.
      + now apply Hfiled'.
    - intros k Hklt. rewrite app_length in Hklt. simpl in Hklt. simpl. rewrite Hsnd.
      destruct (N.eq_dec k (N.of_nat (length cs))); [now left|right].
      apply Hall. lia.
  Qed.

  (* pushing one more reference onto the table *)
  Lemma strs_ok_push_gen strs a a' cs s ref :
    strs_ok strs a cs ->
    (forall r, ref_ok a r -> ref_ok a' r /\ read a' r = read a r) ->
    ref_ok a' ref -> read a' ref = Some s ->
    (forall r, ref_ok a r -> refs_disjoint r ref) ->
    ~ In s cs ->
    strs_ok (strs ++ [ref]) a' (cs ++ [s]).
  Proof.
    intros (Hrefs & Hdis & Hc & Hnd) Hframe Hrok Hrd Hdj Hnew.
    rewrite Forall_forall in Hrefs.
    split; [|split; [|split]].
    - apply Forall_app. split.
      + rewrite Forall_forall. intros r Hr. now apply Hframe, Hrefs.
      + constructor; auto.
    - clear Hc. induction Hdis as [|r l Hr Hl IH]; simpl.
      + constructor; constructor.
      + constructor.
        * apply Forall_app. split; auto. constructor; auto. apply Hdj. apply Hrefs. now left.
        * apply IH. intros x Hx. apply Hrefs. now right.
    - unfold contents in *. rewrite map_app, all_some_app. simpl.
      rewrite (all_some_ext (read a') (read a)).
      + rewrite Hc, Hrd. reflexivity.
      + intros r Hr. now apply Hframe, Hrefs.
    - apply NoDup_app_snoc; auto.
  Qed.

  (* ... a freshly stored one *)
  Lemma strs_ok_push strs a a' cs s ref :
    strs_ok strs a cs -> store_post a a' s (Ok ref) -> ~ In s cs ->
    strs_ok (strs ++ [ref]) a' (cs ++ [s]).
  Proof.
    intros Hok Hpost Hnew. destruct Hpost as [Hinv _ _ Hframe Hres].
    destruct Hres as (Hrok & Hrd & Hdj & _ & _).
    eapply strs_ok_push_gen; eauto.
  Qed.

  (* ... the caller's own static string *)
  Lemma strs_ok_push_static strs a cs s addr :
    strs_ok strs a cs -> ~ In s cs ->
    strs_ok (strs ++ [RStatic addr s]) a (cs ++ [s]).
  Proof.
    intros Hok Hnew. eapply strs_ok_push_gen; eauto; simpl; auto.
    intros r _. destruct r; simpl; auto.
  Qed.

  (* a store that happens elsewhere in the arena leaves a table intact *)
  Lemma strs_ok_frame strs a a' cs :
    strs_ok strs a cs ->
    (forall r, ref_ok a r -> ref_ok a' r /\ read a' r = read a r) ->
    strs_ok strs a' cs.
  Proof.
    intros (Hrefs & Hdis & Hc & Hnd) Hframe. rewrite Forall_forall in Hrefs.
    split; [|split; [|split]]; auto.
    - rewrite Forall_forall. intros r Hr. now apply Hframe, Hrefs.
    - unfold contents in *. rewrite (all_some_ext (read a') (read a)); auto.
      intros r Hr. now apply Hframe, Hrefs.
  Qed.
End Inv.
