(* Keys.v — the four built-in key types of src/keys.rs: model and proofs (property C11).
   A key stores index + 1 in a NonZero integer of [width] bits.  The `as uN` truncation of
   try_from_usize is written out (mod 2^width); that it is harmless under the range guard is
   a theorem, not an assumption. *)
From Lasso Require Import Base.

Record keyty := mkKeyty { kwidth : N; kcap : N }.

Definition micro_spur := mkKeyty 8 255.
Definition mini_spur := mkKeyty 16 65535.
Definition spur := mkKeyty 32 4294967295.
Definition large_spur := mkKeyty 64 18446744073709551615.

Definition builtin (kt : keyty) : Prop :=
  kt = micro_spur \/ kt = mini_spur \/ kt = spur \/ kt = large_spur.

(* indices are usize values *)
Definition is_usize (i : N) : Prop := i <= usize_max.

(* K::try_from_usize(int):  if int < uN::MAX as usize { NonZero::new_unchecked(int as uN + 1) } *)
Definition try_from_usize (kt : keyty) (i : N) : option N :=
  if i <? kcap kt then Some ((i mod 2 ^ kwidth kt) + 1) else None.

(* K::into_usize(self):  self.key.get() as usize - 1 *)
Definition into_usize (raw : N) : N := raw - 1.

(* a raw value is a legal NonZeroUN *)
Definition raw_ok (kt : keyty) (raw : N) : Prop := 0 < raw /\ raw < 2 ^ kwidth kt.

(* serde: the raw non-zero value goes through unchanged; reading rejects 0 and anything
   that does not fit the integer type *)
Definition serde_ser (raw : N) : N := raw.
Definition serde_de (kt : keyty) (n : N) : option N :=
  if (0 <? n) && (n <? 2 ^ kwidth kt) then Some n else None.

(* the derived Ord/Eq compare the raw values *)
Definition key_ltb (a b : N) : bool := a <? b.

(* ---------------- proofs ---------------- *)

Lemma builtin_cap kt : builtin kt -> kcap kt = 2 ^ kwidth kt - 1 /\ 0 < kwidth kt.
Proof. intros [-> | [-> | [-> | ->]]]; vm_compute; split; reflexivity. Qed.

Lemma pow_pos w : 0 < 2 ^ w.
Proof. apply N.neq_0_lt_0. apply N.pow_nonzero. discriminate. Qed.

(* exactly the indices below the capacity are accepted; the stored value is index + 1,
   never the niche value 0, never truncated *)
Theorem try_from_usize_spec kt i :
  builtin kt ->
  (i < kcap kt -> try_from_usize kt i = Some (i + 1) /\ raw_ok kt (i + 1)) /\
  (kcap kt <= i -> try_from_usize kt i = None).
Proof.
  intros Hb. destruct (builtin_cap kt Hb) as (Hc & Hw). pose proof (pow_pos (kwidth kt)) as Hp.
  unfold try_from_usize, raw_ok. split; intros H.
  - replace (i <? kcap kt) with true by (symmetry; apply N.ltb_lt; exact H).
    rewrite N.mod_small by lia. split; [reflexivity|lia].
  - replace (i <? kcap kt) with false by (symmetry; apply N.ltb_ge; exact H). reflexivity.
Qed.

Theorem roundtrip kt i raw :
  builtin kt -> try_from_usize kt i = Some raw -> into_usize raw = i /\ i < kcap kt /\ raw_ok kt raw.
Proof.
  intros Hb H. destruct (N.lt_ge_cases i (kcap kt)) as [Hlt|Hge].
  - destruct (proj1 (try_from_usize_spec kt i Hb) Hlt) as (E & Hr). rewrite E in H. inversion H; subst.
    unfold into_usize. split; [lia|]. auto.
  - rewrite (proj2 (try_from_usize_spec kt i Hb) Hge) in H. discriminate.
Qed.

(* different indices give different keys, ordered like their indices *)
Theorem order_iso kt i j ri rj :
  builtin kt -> try_from_usize kt i = Some ri -> try_from_usize kt j = Some rj ->
  (i = j <-> ri = rj) /\ (key_ltb ri rj = true <-> i < j).
Proof.
  intros Hb Hi Hj.
  destruct (roundtrip kt i ri Hb Hi) as (Ei & Hli & _). destruct (roundtrip kt j rj Hb Hj) as (Ej & Hlj & _).
  destruct (proj1 (try_from_usize_spec kt i Hb) Hli) as (E1 & _).
  destruct (proj1 (try_from_usize_spec kt j Hb) Hlj) as (E2 & _).
  rewrite E1 in Hi. rewrite E2 in Hj. inversion Hi; inversion Hj; subst.
  unfold key_ltb. rewrite N.ltb_lt. split; split; intros; lia.
Qed.

(* Default is index 0 *)
Theorem default_is_zero kt : builtin kt -> try_from_usize kt 0 = Some 1 /\ into_usize 1 = 0.
Proof.
  intros Hb. destruct (builtin_cap kt Hb) as (Hc & Hw).
  assert (0 < kcap kt) by (destruct Hb as [-> | [-> | [-> | ->]]]; vm_compute; reflexivity).
  destruct (proj1 (try_from_usize_spec kt 0 Hb) H) as (E & _). split; [exact E|reflexivity].
Qed.

(* every legal raw value is the key of exactly one index *)
Theorem raw_surjective kt raw :
  builtin kt -> raw_ok kt raw -> try_from_usize kt (into_usize raw) = Some raw.
Proof.
  intros Hb (H0 & H1). destruct (builtin_cap kt Hb) as (Hc & Hw).
  assert (Hlt : into_usize raw < kcap kt) by (unfold into_usize; lia).
  destruct (proj1 (try_from_usize_spec kt _ Hb) Hlt) as (E & _). rewrite E.
  unfold into_usize. f_equal. lia.
Qed.

(* serde round trip, and rejection of everything that is not a legal raw value *)
Theorem serde_roundtrip kt raw : raw_ok kt raw -> serde_de kt (serde_ser raw) = Some raw.
Proof.
  intros (H0 & H1). unfold serde_de, serde_ser.
  replace (0 <? raw) with true by (symmetry; now apply N.ltb_lt).
  replace (raw <? 2 ^ kwidth kt) with true by (symmetry; now apply N.ltb_lt). reflexivity.
Qed.

Theorem serde_rejects kt n : ~ raw_ok kt n -> serde_de kt n = None.
Proof.
  intros H. unfold serde_de, raw_ok in *.
  destruct (0 <? n) eqn:E0; destruct (n <? 2 ^ kwidth kt) eqn:E1; simpl; auto.
  apply N.ltb_lt in E0. apply N.ltb_lt in E1. tauto.
Qed.

(* the wire value of the key with index i is i + 1, and the acceptable wire values are
   exactly 1 .. capacity: this is what the runner assumes for `DE threaded` documents *)
Theorem serde_wire kt n :
  builtin kt -> (serde_de kt n = Some n <-> 1 <= n /\ n <= kcap kt).
Proof.
  intros Hb. destruct (builtin_cap kt Hb) as (Hc & Hw). pose proof (pow_pos (kwidth kt)).
  unfold serde_de. destruct (0 <? n) eqn:E0; destruct (n <? 2 ^ kwidth kt) eqn:E1; simpl;
    try apply N.ltb_lt in E0; try apply N.ltb_lt in E1; try apply N.ltb_ge in E0; try apply N.ltb_ge in E1;
    split; intros; try discriminate; try lia; auto.
Qed.

(* an Option<Key> needs no extra space: the niche 0 is never a key (raw_ok), stated as
   the encoding  None |-> 0, Some raw |-> raw  being injective into the same width *)
Definition opt_encode (o : option N) : N := match o with None => 0 | Some raw => raw end.
Theorem option_niche kt o1 o2 :
  (forall raw, o1 = Some raw -> raw_ok kt raw) -> (forall raw, o2 = Some raw -> raw_ok kt raw) ->
  opt_encode o1 = opt_encode o2 -> o1 = o2.
Proof.
  intros H1 H2. destruct o1 as [a|], o2 as [b|]; simpl; intros E; subst; auto.
  - destruct (H1 0 eq_refl) as (H & _). lia.
  - destruct (H2 0 eq_refl) as (H & _). lia.
Qed.

(* the run-length summary used by the exhaustive sweep of the implementation: on [0, cap)
   the answer is "Some (i+1)", on [cap, usize_max] it is "None" *)
Definition summary (kt : keyty) : list (N * N * bool) :=
  [(0, kcap kt, true); (kcap kt, usize_max + 1, false)].

Theorem summary_spec kt i :
  builtin kt -> is_usize i ->
  exists lo hi b, In (lo, hi, b) (summary kt) /\ lo <= i < hi /\
    (b = true -> try_from_usize kt i = Some (i + 1)) /\ (b = false -> try_from_usize kt i = None).
Proof.
  intros Hb Hi. unfold is_usize in Hi. destruct (N.lt_ge_cases i (kcap kt)) as [Hlt|Hge].
  - exists 0, (kcap kt), true. split; [now left|]. split; [lia|]. split; [|discriminate].
    intros _. now apply try_from_usize_spec.
  - exists (kcap kt), (usize_max + 1), false. split; [right; now left|]. split; [lia|].
    split; [discriminate|]. intros _. now apply try_from_usize_spec.
Qed.

(* a custom key type with any capacity: what Rodeo.v's [try_key] assumes of K *)
Theorem try_key_is_try_from_usize kt i :
  builtin kt ->
  match try_from_usize kt i with
  | Some raw => i < kcap kt /\ into_usize raw = i
  | None => kcap kt <= i
  end.
Proof.
  intros Hb. destruct (try_from_usize kt i) as [raw|] eqn:E.
  - destruct (roundtrip kt i raw Hb E) as (H1 & H2 & _). auto.
  - destruct (N.lt_ge_cases i (kcap kt)) as [Hlt|Hge]; auto.
    destruct (proj1 (try_from_usize_spec kt i Hb) Hlt) as (E' & _). congruence.
Qed.
