(* HashIndep.v — C02, "none of this depends on the quality of the hasher supplied", at the level
   of whole HISTORIES.

   Two parameter sets P1 = (hash1, cand1, growf1) and P2 = (hash2, cand2, growf2): any two
   hashers (constant ones included), any two probe relations that are at least reflexive, any
   two re-hash schedules; the SAME key capacity.  Running the same history from the empty world
   under P1 and under P2 gives
     - the same outputs, operation by operation                      [run_hash_independent]
     - final worlds that are equal up to the lookup tables: every slot holds the same kind of
       object, with IDENTICAL string table and arena (byte for byte: block list, bump indices,
       memory usage, limit), only [rmap] may differ                  [run_sim], [run_final_sim]
   The one-step version is [step_sim]; it covers ALL 29 operations of Rodeo.op.

   Why: under the invariants every table lookup is a function of the abstract content
   ([tlookup_spec]), and the content is read off the string table and the arena ([contents]),
   which the two runs share. *)
From Lasso Require Import Base Arena ArenaProofs Rodeo RodeoInv RodeoProofs ThreadedInv
  CloneSerdeProofs ThreadedProofs IterEqProofs WorldProofs.

#[local] Arguments DOk {A} a.
#[local] Arguments DErr {A}.
#[local] Arguments DPanic {A}.

(* ================= the simulation relation (no hasher in sight) ================= *)

(* two Rodeo records that agree on everything but the lookup table *)
Definition rsim (r1 r2 : rodeo) : Prop := rstrs r1 = rstrs r2 /\ rar r1 = rar r2.

Definition sim_obj (o1 o2 : obj) : Prop :=
  match o1, o2 with
  | ORodeo r1, ORodeo r2 => rsim r1 r2
  | OReader r1, OReader r2 => rsim r1 r2
  | OThreaded t1, OThreaded t2 => t1 = t2          (* the dashmap model has no hashing *)
  | OResolver s1 a1, OResolver s2 a2 => s1 = s2 /\ a1 = a2
  | ODead, ODead => True
  | _, _ => False
  end.

Definition sim (w1 w2 : world) : Prop := Forall2 sim_obj w1 w2.

(* results of the list deserialiser *)
Definition dres_sim (d1 d2 : dres rodeo) : Prop :=
  match d1, d2 with
  | DOk q1, DOk q2 => rsim q1 q2
  | DErr, DErr => True
  | DPanic, DPanic => True
  | _, _ => False
  end.

Lemma rsim_refl r : rsim r r.
Proof. split; reflexivity. Qed.

Lemma rsim_clear r1 r2 : rsim r1 r2 -> rsim (r_clear r1) (r_clear r2).
Proof. intros (_ & Ea). split; cbn [r_clear rstrs rar]; [reflexivity|now rewrite Ea]. Qed.

Lemma rsim_set_limit r1 r2 m : rsim r1 r2 -> rsim (r_set_limit r1 m) (r_set_limit r2 m).
Proof. intros (Es & Ea). split; cbn [r_set_limit rstrs rar]; [exact Es|now rewrite Ea]. Qed.

Lemma sim_obj_refl o : sim_obj o o.
Proof. destruct o; cbn [sim_obj]; auto using rsim_refl. Qed.

Lemma sim_refl w : sim w w.
Proof. induction w; constructor; auto using sim_obj_refl. Qed.

Lemma sim_nil : sim [] [].
Proof. constructor. Qed.

Lemma sim_length w1 w2 : sim w1 w2 -> length w1 = length w2.
Proof. intros H. induction H; cbn [length]; congruence. Qed.

Lemma sim_get w1 w2 i : sim w1 w2 -> sim_obj (get_obj w1 i) (get_obj w2 i).
Proof.
  intros H. revert i. unfold get_obj.
  induction H as [|x1 x2 l1 l2 Hx Hl IH]; intros [|i]; cbn [nth]; auto; exact I.
Qed.

Lemma sim_set w1 w2 i x1 x2 :
  sim w1 w2 -> sim_obj x1 x2 -> sim (set_obj w1 i x1) (set_obj w2 i x2).
Proof.
  intros H Hx. revert i. unfold set_obj.
  induction H as [|y1 y2 l1 l2 Hy Hl IH]; intros [|i]; cbn [set_nth]; constructor; auto.
  apply IH.
Qed.

Lemma sim_app w1 w2 x1 x2 : sim w1 w2 -> sim_obj x1 x2 -> sim (w1 ++ [x1]) (w2 ++ [x2]).
Proof. intros H Hx. apply Forall2_app; [exact H|]. constructor; [exact Hx|constructor]. Qed.

(* everything that only reads the string table and the arena *)
Lemma sim_obj_strs o1 o2 : sim_obj o1 o2 -> obj_strs o1 = obj_strs o2.
Proof.
  destruct o1 as [r1|t1|r1|s1 a1|], o2 as [r2|t2|r2|s2 a2|]; cbn [sim_obj obj_strs];
    try contradiction; try reflexivity.
  - intros (Es & Ea). now rewrite Es, Ea.
  - intros (Es & Ea). now rewrite Es, Ea.
  - intros (-> & ->). reflexivity.
Qed.

Lemma sim_obj_pairs o1 o2 : sim_obj o1 o2 -> obj_pairs o1 = obj_pairs o2.
Proof.
  destruct o1 as [r1|t1|r1|s1 a1|], o2 as [r2|t2|r2|s2 a2|]; cbn [sim_obj obj_pairs obj_strs];
    try contradiction; try reflexivity.
  - intros (Es & Ea). now rewrite Es, Ea.
  - intros ->. reflexivity.
  - intros (Es & Ea). now rewrite Es, Ea.
  - intros (-> & ->). reflexivity.
Qed.

Lemma sim_eq_obj keycap x1 x2 y1 y2 :
  sim_obj x1 x2 -> sim_obj y1 y2 -> eq_obj keycap x1 y1 = eq_obj keycap x2 y2.
Proof.
  intros Hx Hy.
  pose proof (sim_obj_strs _ _ Hx) as Sx. pose proof (sim_obj_strs _ _ Hy) as Sy.
  destruct x1 as [p1|t1|p1|s1 a1|], x2 as [p2|t2|p2|s2 a2|]; cbn [sim_obj] in Hx;
    try contradiction;
  destruct y1 as [q1|u1|q1|v1 b1|], y2 as [q2|u2|q2|v2 b2|]; cbn [sim_obj] in Hy;
    try contradiction; subst;
  cbn [eq_obj]; try reflexivity; try (rewrite Sy; reflexivity);
  try (rewrite Sx, Sy; reflexivity); try (rewrite Sx; reflexivity).
Qed.

(* ================= two parameter sets ================= *)

Section HashIndep.
  Variable hash1 : str -> N.
  Variable cand1 : N -> N -> bool.
  Variable growf1 : N -> bool.
  Variable hash2 : str -> N.
  Variable cand2 : N -> N -> bool.
  Variable growf2 : N -> bool.
  Variable keycap : N.
  Hypothesis cand_refl1 : forall h, cand1 h h = true.
  Hypothesis cand_refl2 : forall h, cand2 h h = true.

  Notation Inv1 := (RodeoInv hash1 keycap).
  Notation Inv2 := (RodeoInv hash2 keycap).
  Notation WInv1 := (WInv hash1 keycap).
  Notation WInv2 := (WInv hash2 keycap).
  Notation step1 := (step hash1 cand1 growf1 keycap).
  Notation step2 := (step hash2 cand2 growf2 keycap).
  Notation run1 := (run hash1 cand1 growf1 keycap).
  Notation run2 := (run hash2 cand2 growf2 keycap).
  Notation intern1 := (intern hash1 cand1 growf1 keycap).
  Notation intern2 := (intern hash2 cand2 growf2 keycap).
  Notation intern_static1 := (intern_static hash1 cand1 growf1 keycap).
  Notation intern_static2 := (intern_static hash2 cand2 growf2 keycap).
  Notation r_extend1 := (r_extend hash1 cand1 growf1 keycap).
  Notation r_extend2 := (r_extend hash2 cand2 growf2 keycap).
  Notation clone_into1 := (clone_into hash1 cand1 growf1 keycap).
  Notation clone_into2 := (clone_into hash2 cand2 growf2 keycap).
  Notation r_clone1 := (r_clone hash1 cand1 growf1 keycap).
  Notation r_clone2 := (r_clone hash2 cand2 growf2 keycap).
  Notation r_clone_from1 := (r_clone_from hash1 cand1 growf1 keycap).
  Notation r_clone_from2 := (r_clone_from hash2 cand2 growf2 keycap).
  Notation de_list_loop1 := (de_list_loop hash1 cand1 growf1 keycap).
  Notation de_list_loop2 := (de_list_loop hash2 cand2 growf2 keycap).
  Notation de_rodeo1 := (de_rodeo hash1 cand1 growf1 keycap).
  Notation de_rodeo2 := (de_rodeo hash2 cand2 growf2 keycap).
  Notation t_into_reader1 := (t_into_reader hash1 cand1 growf1).
  Notation t_into_reader2 := (t_into_reader hash2 cand2 growf2).

  (* ---------- Rodeo records: same strings, same arena, each invariant for its own hasher ---------- *)

  Definition RR (r1 r2 : rodeo) : Prop := rsim r1 r2 /\ exists cs, Inv1 r1 cs /\ Inv2 r2 cs.

  Lemma inv_contents hash r cs :
    RodeoInv hash keycap r cs -> contents (rstrs r) (rar r) = Some cs.
  Proof. intros (_ & (_ & _ & Hc & _) & _). exact Hc. Qed.

  (* the abstract content is determined by the string table and the arena *)
  Lemma RR_intro r1 r2 cs1 cs2 : rsim r1 r2 -> Inv1 r1 cs1 -> Inv2 r2 cs2 -> RR r1 r2.
  Proof.
    intros (Es & Ea) H1 H2. split; [split; assumption|]. exists cs1. split; [exact H1|].
    pose proof (inv_contents _ _ _ H1) as C1. pose proof (inv_contents _ _ _ H2) as C2.
    rewrite Es, Ea in C1. assert (E : cs1 = cs2) by congruence. subst cs2. exact H2.
  Qed.

  Lemma RR_new cap lim : 0 < cap -> RR (rodeo_new cap lim) (rodeo_new cap lim).
  Proof.
    intros H. eapply RR_intro; [apply rsim_refl| |]; apply rodeo_new_inv; exact H.
  Qed.

  (* the two probes answer alike *)
  Lemma lookup_agree r1 r2 s :
    RR r1 r2 ->
    tlookup cand1 (rmap r1) (rstrs r1) (rar r1) (hash1 s) s =
    tlookup cand2 (rmap r2) (rstrs r2) (rar r2) (hash2 s) s.
  Proof.
    intros (_ & cs & H1 & H2).
    pose proof (r_get_spec hash1 cand1 keycap cand_refl1 _ _ s H1) as G1.
    pose proof (r_get_spec hash2 cand2 keycap cand_refl2 _ _ s H2) as G2.
    unfold r_get in G1, G2. congruence.
  Qed.

  Lemma r_get_sim r1 r2 s : RR r1 r2 -> r_get hash1 cand1 r1 s = r_get hash2 cand2 r2 s.
  Proof. exact (lookup_agree r1 r2 s). Qed.

  (* ---------- try_get_or_intern ---------- *)
  Lemma intern_sim r1 r2 s q1 x1 q2 x2 :
    RR r1 r2 -> intern1 r1 s = (q1, x1) -> intern2 r2 s = (q2, x2) -> RR q1 q2 /\ x1 = x2.
  Proof.
    intros HR E1 E2.
    assert (HS : rsim q1 q2 /\ x1 = x2).
    { pose proof (lookup_agree _ _ s HR) as HL. destruct HR as ((Es & Ea) & _).
      unfold intern in E1, E2. rewrite HL in E1.
      destruct (tlookup cand2 (rmap r2) (rstrs r2) (rar r2) (hash2 s) s) as [k|].
      - inversion E1; inversion E2; subst. split; [split; assumption|reflexivity].
      - unfold r_len in E1, E2. rewrite Es, Ea in E1.
        destruct (try_key keycap (N.of_nat (length (rstrs r2)))) as [k|].
        + destruct (vec_store (rar r2) s) as [a' [ref|e]];
            inversion E1; inversion E2; subst; (split; [split|]); cbn [rstrs rar];
            try reflexivity; assumption.
        + inversion E1; inversion E2; subst. split; [split; assumption|reflexivity]. }
    destruct HS as (HS & Hx). split; [|exact Hx].
    destruct HR as (_ & cs & H1 & H2).
    destruct (intern_ext hash1 cand1 growf1 keycap cand_refl1 _ _ _ _ _ H1 E1) as (ad1 & K1).
    destruct (intern_ext hash2 cand2 growf2 keycap cand_refl2 _ _ _ _ _ H2 E2) as (ad2 & K2).
    eapply RR_intro; eauto.
  Qed.

  (* ---------- try_get_or_intern_static ---------- *)
  Lemma intern_static_sim r1 r2 addr s q1 x1 q2 x2 :
    RR r1 r2 -> intern_static1 r1 addr s = (q1, x1) -> intern_static2 r2 addr s = (q2, x2) ->
    RR q1 q2 /\ x1 = x2.
  Proof.
    intros HR E1 E2.
    assert (HS : rsim q1 q2 /\ x1 = x2).
    { pose proof (lookup_agree _ _ s HR) as HL. destruct HR as ((Es & Ea) & _).
      unfold intern_static in E1, E2. rewrite HL in E1.
      destruct (tlookup cand2 (rmap r2) (rstrs r2) (rar r2) (hash2 s) s) as [k|].
      - inversion E1; inversion E2; subst. split; [split; assumption|reflexivity].
      - unfold r_len in E1, E2. rewrite Es in E1.
        destruct (try_key keycap (N.of_nat (length (rstrs r2)))) as [k|];
          inversion E1; inversion E2; subst; (split; [split|]); cbn [rstrs rar];
          try reflexivity; assumption. }
    destruct HS as (HS & Hx). split; [|exact Hx].
    destruct HR as (_ & cs & H1 & H2).
    destruct (intern_static_ext hash1 cand1 growf1 keycap cand_refl1 _ _ _ _ _ _ H1 E1) as (ad1 & K1).
    destruct (intern_static_ext hash2 cand2 growf2 keycap cand_refl2 _ _ _ _ _ _ H2 E2) as (ad2 & K2).
    eapply RR_intro; eauto.
  Qed.

  (* ---------- Extend / FromIter ---------- *)
  Lemma r_extend_sim l : forall r1 r2 q1 ok1 q2 ok2,
    RR r1 r2 -> r_extend1 r1 l = (q1, ok1) -> r_extend2 r2 l = (q2, ok2) ->
    rsim q1 q2 /\ ok1 = ok2.
  Proof.
    induction l as [|s l IH]; intros r1 r2 q1 ok1 q2 ok2 HR E1 E2; cbn [r_extend] in E1, E2.
    - inversion E1; inversion E2; subst. split; [apply HR|reflexivity].
    - destruct (intern1 r1 s) as [p1 y1] eqn:I1. destruct (intern2 r2 s) as [p2 y2] eqn:I2.
      destruct (intern_sim _ _ _ _ _ _ _ HR I1 I2) as (HR' & Hy). subst y2.
      destruct y1 as [k|e].
      + eapply IH; eauto.
      + inversion E1; inversion E2; subst. split; [apply HR'|reflexivity].
  Qed.

  (* ---------- clone_strings_into ---------- *)
  Lemma clone_into_sim src : forall d1 d2 cs0 q1 c1 q2 c2,
    rsim d1 d2 -> Inv1 d1 cs0 -> Inv2 d2 cs0 ->
    NoDup (cs0 ++ src) -> N.of_nat (length (cs0 ++ src)) <= keycap ->
    clone_into1 src (N.of_nat (length cs0)) d1 = (q1, c1) ->
    clone_into2 src (N.of_nat (length cs0)) d2 = (q2, c2) ->
    rsim q1 q2 /\ c1 = c2.
  Proof.
    induction src as [|s rest IH]; intros d1 d2 cs0 q1 c1 q2 c2 HS H1 H2 Hnd Hcap E1 E2;
      cbn [clone_into] in E1, E2.
    - inversion E1; inversion E2; subst. split; [exact HS|reflexivity].
    - pose proof (NoDup_app_cons_notin _ _ _ Hnd) as Hni.
      assert (Hlt : N.of_nat (length cs0) < keycap).
      { rewrite app_length in Hcap. simpl length in Hcap. lia. }
      destruct HS as (Es & Ea).
      pose proof H1 as (Ha1 & Hs1 & Ht1 & _). pose proof H2 as (Ha2 & Hs2 & Ht2 & _).
      rewrite Ea in E1.
      destruct (vec_store (rar d2) s) as [a' [ref|e]] eqn:Est.
      + pose proof (vec_store_post _ _ _ _ Ha2 Est) as Hpost2.
        assert (Hpost1 : store_post (rar d1) a' s (Ok ref)) by (rewrite Ea; exact Hpost2).
        pose proof (push_step_inv hash1 growf1 keycap _ _ _ _ _ H1 Hpost1 Hni Hlt) as K1.
        pose proof (push_step_inv hash2 growf2 keycap _ _ _ _ _ H2 Hpost2 Hni Hlt) as K2.
        pose proof (strs_ok_push _ _ _ _ _ _ Hs1 Hpost1 Hni) as (_ & _ & Hc1 & _).
        pose proof (strs_ok_push _ _ _ _ _ _ Hs2 Hpost2 Hni) as (_ & _ & Hc2 & _).
        rewrite (tlookup_fresh hash1 cand1 _ _ _ _ _ _ Ht1 Hc1 Hni) in E1.
        rewrite (tlookup_fresh hash2 cand2 _ _ _ _ _ _ Ht2 Hc2 Hni) in E2.
        unfold try_key in E1, E2. apply N.ltb_lt in Hlt. rewrite Hlt in E1, E2.
        rewrite <- length_snoc_N with (x := s) in E1, E2.
        rewrite app_cons_snoc in Hnd, Hcap.
        eapply (IH _ _ (cs0 ++ [s])); [|exact K1|exact K2|exact Hnd|exact Hcap|exact E1|exact E2].
        split; cbn [rstrs rar]; [now rewrite Es|reflexivity].
      + inversion E1; inversion E2; subst. split; [|reflexivity].
        split; cbn [rstrs rar]; [exact Es|reflexivity].
  Qed.

  (* ---------- try_clone ---------- *)
  Lemma r_clone_sim r1 r2 q1 c1 q2 c2 :
    RR r1 r2 -> r_clone1 r1 = Some (q1, c1) -> r_clone2 r2 = Some (q2, c2) ->
    rsim q1 q2 /\ c1 = c2.
  Proof.
    intros ((Es & Ea) & cs & H1 & H2) E1 E2.
    pose proof H1 as (_ & (_ & _ & _ & Hnd) & _ & Hk).
    unfold r_clone in E1, E2.
    rewrite (inv_contents _ _ _ H1) in E1. rewrite (inv_contents _ _ _ H2) in E2.
    cbv zeta in E1, E2. rewrite Ea in E1.
    set (cap := if sum_N (map slen cs) =? 0 then default_bytes else sum_N (map slen cs)) in *.
    assert (Hpos : 0 < cap).
    { subst cap. destruct (sum_N (map slen cs) =? 0) eqn:E0.
      - unfold default_bytes. lia.
      - apply N.eqb_neq in E0. lia. }
    inversion E1 as [F1]. inversion E2 as [F2].
    change 0 with (N.of_nat (length (@nil str))) in F1, F2.
    eapply (clone_into_sim cs _ _ []); [apply rsim_refl| | |exact Hnd|exact Hk|exact F1|exact F2];
      apply rodeo_new_inv; exact Hpos.
  Qed.

  (* ---------- try_clone_from ---------- *)
  Lemma r_clone_from_sim t1 t2 s1 s2 q1 c1 q2 c2 :
    RR t1 t2 -> RR s1 s2 ->
    r_clone_from1 t1 s1 = Some (q1, c1) -> r_clone_from2 t2 s2 = Some (q2, c2) ->
    rsim q1 q2 /\ c1 = c2.
  Proof.
    intros (HSt & ct & T1 & T2) (_ & cs & H1 & H2) E1 E2.
    pose proof H1 as (_ & (_ & _ & _ & Hnd) & _ & Hk).
    unfold r_clone_from in E1, E2.
    rewrite (inv_contents _ _ _ H1) in E1. rewrite (inv_contents _ _ _ H2) in E2.
    inversion E1 as [F1]. inversion E2 as [F2].
    change 0 with (N.of_nat (length (@nil str))) in F1, F2.
    eapply (clone_into_sim cs _ _ []);
      [apply rsim_clear; exact HSt| | |exact Hnd|exact Hk|exact F1|exact F2].
    - eapply r_clear_inv; eauto.
    - eapply r_clear_inv; eauto.
  Qed.

  (* ---------- Deserialize for Rodeo / RodeoReader ---------- *)
  Lemma de_list_loop_sim l : forall r1 r2 cs0,
    rsim r1 r2 -> Inv1 r1 cs0 -> Inv2 r2 cs0 ->
    dres_sim (de_list_loop1 true l (N.of_nat (length cs0)) r1)
             (de_list_loop2 true l (N.of_nat (length cs0)) r2).
  Proof.
    induction l as [|s rest IH]; intros r1 r2 cs0 HS H1 H2; cbn [de_list_loop].
    - exact HS.
    - destruct HS as (Es & Ea).
      pose proof H1 as (Ha1 & Hs1 & Ht1 & _). pose proof H2 as (Ha2 & Hs2 & Ht2 & _).
      pose proof Hs1 as (_ & _ & _ & Hnd).
      rewrite Ea.
      destruct (vec_store (rar r2) s) as [a' [ref|e]] eqn:Est; [|exact I].
      cbv beta iota.
      pose proof (vec_store_post _ _ _ _ Ha2 Est) as Hpost2.
      assert (Hpost1 : store_post (rar r1) a' s (Ok ref)) by (rewrite Ea; exact Hpost2).
      pose proof (strs_ok_frame _ _ _ _ Hs1 (sp_frame _ _ _ _ Hpost1)) as (_ & _ & Hc1 & _).
      pose proof (strs_ok_frame _ _ _ _ Hs2 (sp_frame _ _ _ _ Hpost2)) as (_ & _ & Hc2 & _).
      rewrite (tlookup_spec hash1 cand1 cand_refl1 _ _ _ _ s Hc1 Hnd Ht1).
      rewrite (tlookup_spec hash2 cand2 cand_refl2 _ _ _ _ s Hc2 Hnd Ht2).
      destruct (index_of s cs0) as [i|] eqn:Ei; [exact I|].
      apply index_of_none in Ei. unfold try_key.
      destruct (N.of_nat (length cs0) <? keycap) eqn:Ek; [|exact I].
      apply N.ltb_lt in Ek. rewrite <- length_snoc_N with (x := s).
      apply IH.
      + split; cbn [rstrs rar]; [now rewrite Es|reflexivity].
      + exact (push_step_inv hash1 growf1 keycap _ _ _ _ _ H1 Hpost1 Ei Ek).
      + exact (push_step_inv hash2 growf2 keycap _ _ _ _ _ H2 Hpost2 Ei Ek).
  Qed.

  Lemma de_rodeo_sim l : dres_sim (de_rodeo1 l) (de_rodeo2 l).
  Proof.
    unfold de_rodeo, de_rodeo_gen.
    change 0 with (N.of_nat (length (@nil str))).
    destruct (doc_bytes_room l) as (_ & Hpos).
    apply de_list_loop_sim; [apply rsim_refl| |]; apply rodeo_new_inv; exact Hpos.
  Qed.

  (* ---------- ThreadedRodeo::into_reader (the table is rebuilt with the hasher) ---------- *)
  Lemma t_into_reader_sim t cs :
    TInv keycap t cs ->
    exists q1 q2, t_into_reader1 t = Some q1 /\ t_into_reader2 t = Some q2 /\ rsim q1 q2.
  Proof.
    intros HT.
    destruct (t_into_reader_inv hash1 cand1 growf1 keycap _ _ HT) as (q1 & E1 & _ & A1 & S1).
    destruct (t_into_reader_inv hash2 cand2 growf2 keycap _ _ HT) as (q2 & E2 & _ & A2 & S2).
    exists q1, q2. split; [exact E1|]. split; [exact E2|].
    split; [congruence|congruence].
  Qed.

  (* ================= one step ================= *)

  (* what a pair of corresponding slots looks like *)
  Inductive slot_rel : obj -> obj -> Prop :=
  | sr_rodeo r1 r2 : RR r1 r2 -> slot_rel (ORodeo r1) (ORodeo r2)
  | sr_threaded t cs : TInv keycap t cs -> slot_rel (OThreaded t) (OThreaded t)
  | sr_reader r1 r2 : RR r1 r2 -> slot_rel (OReader r1) (OReader r2)
  | sr_resolver strs a : slot_rel (OResolver strs a) (OResolver strs a)
  | sr_dead : slot_rel ODead ODead.

  Lemma slot_cases w1 w2 i :
    WInv1 w1 -> WInv2 w2 -> sim w1 w2 -> slot_rel (get_obj w1 i) (get_obj w2 i).
  Proof.
    intros HW1 HW2 HS.
    destruct (WInv_get hash1 keycap w1 i HW1) as (cs1 & C1).
    destruct (WInv_get hash2 keycap w2 i HW2) as (cs2 & C2).
    pose proof (sim_get _ _ i HS) as Hs.
    destruct (get_obj w1 i) as [r1|t1|r1|s1 a1|], (get_obj w2 i) as [r2|t2|r2|s2 a2|];
      cbn [sim_obj obj_inv] in *; try contradiction.
    - constructor. eapply RR_intro; eauto.
    - subst t2. econstructor; eauto.
    - constructor. eapply RR_intro; eauto.
    - destruct Hs as (-> & ->). constructor.
    - constructor.
  Qed.

  Lemma slot_rel_sim o1 o2 : slot_rel o1 o2 -> sim_obj o1 o2.
  Proof.
    intros [r1 r2 (H & _)|t cs _|r1 r2 (H & _)|strs a|]; cbn [sim_obj]; auto.
  Qed.

  Ltac slots w1 w2 i HW1 HW2 HS :=
    let H := fresh "Hslot" in
    pose proof (slot_cases w1 w2 i HW1 HW2 HS) as H;
    destruct H as [?r1 ?r2 ?HR|?t ?cs ?HT|?r1 ?r2 ?HR|?strs ?a|].

  (* finish: unchanged worlds *)
  Ltac same HS := cbn [fst snd]; split; [exact HS|reflexivity].

  Ltac rr_eqs HR := let Es := fresh "Es" in let Ea := fresh "Ea" in
    pose proof HR as ((Es & Ea) & _).

  Theorem step_sim w1 w2 o :
    WInv1 w1 -> WInv2 w2 -> sim w1 w2 -> op_wf keycap o ->
    sim (fst (step1 w1 o)) (fst (step2 w2 o)) /\ snd (step1 w1 o) = snd (step2 w2 o).
  Proof.
    intros HW1 HW2 HS Hwf. pose proof (sim_length _ _ HS) as Hlen.
    destruct o as [i s|i addr s|i s|i addr s|i s|i s|i k|i k|i k|i|i|i plan|i plan|i|i m|i|i|i
                  |i j|i|i|i|i|k d|i j|th l|i l|cap lim|cap lim]; cbn [step].
    - (* Intern *)
      slots w1 w2 i HW1 HW2 HS; try same HS.
      + destruct (intern1 r1 s) as [q1 x1] eqn:E1. destruct (intern2 r2 s) as [q2 x2] eqn:E2.
        destruct (intern_sim _ _ _ _ _ _ _ HR E1 E2) as ((Hq & _) & ->). cbn [fst snd].
        split; [apply sim_set; [exact HS|exact Hq]|reflexivity].
      + destruct (t_intern keycap t s) as [t' x]. cbn [fst snd].
        split; [apply sim_set; [exact HS|reflexivity]|reflexivity].
    - (* InternStatic *)
      slots w1 w2 i HW1 HW2 HS; try same HS.
      + destruct (intern_static1 r1 addr s) as [q1 x1] eqn:E1.
        destruct (intern_static2 r2 addr s) as [q2 x2] eqn:E2.
        destruct (intern_static_sim _ _ _ _ _ _ _ _ HR E1 E2) as ((Hq & _) & ->). cbn [fst snd].
        split; [apply sim_set; [exact HS|exact Hq]|reflexivity].
      + destruct (t_intern_static keycap t addr s) as [t' x]. cbn [fst snd].
        split; [apply sim_set; [exact HS|reflexivity]|reflexivity].
    - (* InternP *)
      slots w1 w2 i HW1 HW2 HS; try same HS.
      + destruct (intern1 r1 s) as [q1 x1] eqn:E1. destruct (intern2 r2 s) as [q2 x2] eqn:E2.
        destruct (intern_sim _ _ _ _ _ _ _ HR E1 E2) as ((Hq & _) & ->). cbn [fst snd].
        split; [apply sim_set; [exact HS|exact Hq]|reflexivity].
      + destruct (t_intern keycap t s) as [t' x]. cbn [fst snd].
        split; [apply sim_set; [exact HS|reflexivity]|reflexivity].
    - (* InternStaticP *)
      slots w1 w2 i HW1 HW2 HS; try same HS.
      + destruct (intern_static1 r1 addr s) as [q1 x1] eqn:E1.
        destruct (intern_static2 r2 addr s) as [q2 x2] eqn:E2.
        destruct (intern_static_sim _ _ _ _ _ _ _ _ HR E1 E2) as ((Hq & _) & ->). cbn [fst snd].
        split; [apply sim_set; [exact HS|exact Hq]|reflexivity].
      + destruct (t_intern_static keycap t addr s) as [t' x]. cbn [fst snd].
        split; [apply sim_set; [exact HS|reflexivity]|reflexivity].
    - (* Get *)
      slots w1 w2 i HW1 HW2 HS; try same HS;
        rewrite (r_get_sim _ _ s HR); same HS.
    - (* Contains *)
      slots w1 w2 i HW1 HW2 HS; try same HS;
        rewrite (r_get_sim _ _ s HR); same HS.
    - (* Resolve *)
      slots w1 w2 i HW1 HW2 HS; cbn [obj_strs]; try same HS;
        rr_eqs HR; rewrite Es, Ea; same HS.
    - (* TryResolve *)
      slots w1 w2 i HW1 HW2 HS; cbn [obj_strs]; try same HS;
        rr_eqs HR; rewrite Es, Ea; same HS.
    - (* ContainsKey *)
      slots w1 w2 i HW1 HW2 HS; cbn [obj_strs]; try same HS;
        rr_eqs HR; rewrite Es; same HS.
    - (* Len *)
      slots w1 w2 i HW1 HW2 HS; cbn [obj_strs]; try same HS;
        rr_eqs HR; rewrite Es; same HS.
    - (* IsEmpty *)
      slots w1 w2 i HW1 HW2 HS; cbn [obj_strs]; try same HS;
        rr_eqs HR; rewrite Es; same HS.
    - (* IterOp *)
      slots w1 w2 i HW1 HW2 HS; cbn [obj_strs]; try same HS;
        rr_eqs HR; rewrite Es, Ea; same HS.
    - (* StringsOp *)
      slots w1 w2 i HW1 HW2 HS; cbn [obj_strs]; try same HS;
        rr_eqs HR; rewrite Es, Ea; same HS.
    - (* Clear *)
      slots w1 w2 i HW1 HW2 HS; try same HS.
      cbn [fst snd]. split; [|reflexivity].
      apply sim_set; [exact HS|]. cbn [sim_obj]. apply rsim_clear. apply HR.
    - (* SetLimit *)
      slots w1 w2 i HW1 HW2 HS; try same HS.
      + cbn [fst snd]. split; [|reflexivity].
        apply sim_set; [exact HS|]. cbn [sim_obj]. apply rsim_set_limit. apply HR.
      + cbn [fst snd]. split; [|reflexivity]. apply sim_set; [exact HS|reflexivity].
    - (* CurMem *)
      slots w1 w2 i HW1 HW2 HS; try same HS. rr_eqs HR; rewrite Ea; same HS.
    - (* MaxMem *)
      slots w1 w2 i HW1 HW2 HS; try same HS. rr_eqs HR; rewrite Ea; same HS.
    - (* Clone *)
      slots w1 w2 i HW1 HW2 HS; try same HS.
      pose proof HR as (_ & cs & I1 & I2).
      destruct (r_clone_spec hash1 cand1 growf1 keycap _ _ I1) as (q1 & Q1 & _).
      destruct (r_clone_spec hash2 cand2 growf2 keycap _ _ I2) as (q2 & Q2 & _).
      destruct (r_clone_sim _ _ _ _ _ _ HR Q1 Q2) as (Hq & _).
      rewrite Q1, Q2. cbn [new_slot fst snd]. rewrite Hlen.
      split; [apply sim_app; [exact HS|exact Hq]|reflexivity].
    - (* CloneFrom *)
      pose proof (slot_cases w1 w2 i HW1 HW2 HS) as Hi.
      pose proof (slot_cases w1 w2 j HW1 HW2 HS) as Hj.
      destruct Hi as [t1 t2 HRt|t ct HTt|t1 t2 HRt|strs a|]; try same HS;
        destruct Hj as [s1 s2 HRs|u cu HTu|s1 s2 HRs|strs' a'|]; try same HS.
      destruct (Nat.eqb i j); [same HS|].
      pose proof HRt as (_ & ct & T1 & T2). pose proof HRs as (_ & cs & S1 & S2).
      destruct (r_clone_from_spec hash1 cand1 growf1 keycap _ _ _ _ T1 S1) as (q1 & c1 & Q1 & _).
      destruct (r_clone_from_spec hash2 cand2 growf2 keycap _ _ _ _ T2 S2) as (q2 & c2 & Q2 & _).
      destruct (r_clone_from_sim _ _ _ _ _ _ _ _ HRt HRs Q1 Q2) as (Hq & ->).
      rewrite Q1, Q2.
      destruct c2; cbn [fst snd]; (split; [apply sim_set; [exact HS|exact Hq]|reflexivity]).
    - (* Drop *)
      slots w1 w2 i HW1 HW2 HS; try same HS;
        (cbn [fst snd]; split; [apply sim_set; [exact HS|exact I]|reflexivity]).
    - (* IntoReader *)
      slots w1 w2 i HW1 HW2 HS; try same HS.
      + cbn [fst snd]. split; [|reflexivity]. apply sim_set; [exact HS|]. apply HR.
      + destruct (t_into_reader_sim _ _ HT) as (q1 & q2 & Q1 & Q2 & Hq).
        rewrite Q1, Q2. cbn [fst snd]. split; [|reflexivity]. apply sim_set; [exact HS|exact Hq].
    - (* IntoResolver *)
      slots w1 w2 i HW1 HW2 HS; try same HS.
      + cbn [fst snd]. split; [|reflexivity]. apply sim_set; [exact HS|]. apply HR.
      + destruct (t_strings t) as [strs|]; cbn [fst snd]; (split; [|reflexivity]);
          (apply sim_set; [exact HS|]); cbn [sim_obj]; auto.
      + cbn [fst snd]. split; [|reflexivity]. apply sim_set; [exact HS|]. apply HR.
    - (* Ser *)
      slots w1 w2 i HW1 HW2 HS; try same HS.
      + rewrite (sim_obj_pairs (ORodeo r1) (ORodeo r2)) by (apply HR). same HS.
      + rewrite (sim_obj_pairs (OReader r1) (OReader r2)) by (apply HR). same HS.
    - (* De *)
      destruct k, d as [l|l]; try same HS.
      + pose proof (de_rodeo_sim l) as Hd.
        destruct (de_rodeo1 l) as [q1| |], (de_rodeo2 l) as [q2| |]; cbn [dres_sim] in Hd;
          try contradiction; try same HS.
        cbn [new_slot fst snd]. rewrite Hlen.
        split; [apply sim_app; [exact HS|exact Hd]|reflexivity].
      + destruct (de_threaded l) as [t| |]; try same HS.
        cbn [new_slot fst snd]. rewrite Hlen.
        split; [apply sim_app; [exact HS|reflexivity]|reflexivity].
      + pose proof (de_rodeo_sim l) as Hd.
        destruct (de_rodeo1 l) as [q1| |], (de_rodeo2 l) as [q2| |]; cbn [dres_sim] in Hd;
          try contradiction; try same HS.
        cbn [new_slot fst snd]. rewrite Hlen.
        split; [apply sim_app; [exact HS|exact Hd]|reflexivity].
      + destruct (de_resolver l) as [[strs a]| |]; try same HS.
        cbn [new_slot fst snd]. rewrite Hlen.
        split; [apply sim_app; [exact HS|cbn [sim_obj]; auto]|reflexivity].
    - (* EqOp *)
      rewrite (sim_eq_obj keycap _ _ _ _ (sim_get _ _ i HS) (sim_get _ _ j HS)).
      destruct (eq_obj keycap (get_obj w2 i) (get_obj w2 j)); same HS.
    - (* FromIter *)
      destruct th.
      + destruct (t_extend keycap (trodeo_new default_bytes usize_max) l) as [t ok].
        destruct ok; [|same HS]. cbn [new_slot fst snd]. rewrite Hlen.
        split; [apply sim_app; [exact HS|reflexivity]|reflexivity].
      + destruct (r_extend1 (rodeo_new default_bytes usize_max) l) as [q1 ok1] eqn:E1.
        destruct (r_extend2 (rodeo_new default_bytes usize_max) l) as [q2 ok2] eqn:E2.
        assert (HR : RR (rodeo_new default_bytes usize_max) (rodeo_new default_bytes usize_max)).
        { apply RR_new. unfold default_bytes. lia. }
        destruct (r_extend_sim _ _ _ _ _ _ _ HR E1 E2) as (Hq & ->).
        destruct ok2; [|same HS]. cbn [new_slot fst snd]. rewrite Hlen.
        split; [apply sim_app; [exact HS|exact Hq]|reflexivity].
    - (* Extend *)
      slots w1 w2 i HW1 HW2 HS; try same HS.
      + destruct (r_extend1 r1 l) as [q1 ok1] eqn:E1. destruct (r_extend2 r2 l) as [q2 ok2] eqn:E2.
        destruct (r_extend_sim _ _ _ _ _ _ _ HR E1 E2) as (Hq & ->). cbn [fst snd].
        split; [apply sim_set; [exact HS|exact Hq]|reflexivity].
      + destruct (t_extend keycap t l) as [t' ok]. cbn [fst snd].
        split; [apply sim_set; [exact HS|reflexivity]|reflexivity].
    - (* NewRodeo *)
      destruct (isize_max <? cap); [same HS|].
      cbn [new_slot fst snd]. rewrite Hlen.
      split; [apply sim_app; [exact HS|apply rsim_refl]|reflexivity].
    - (* NewThreaded *)
      destruct (lf_cap_max <? cap); [same HS|].
      cbn [new_slot fst snd]. rewrite Hlen.
      split; [apply sim_app; [exact HS|reflexivity]|reflexivity].
  Qed.

  (* the same statement in "let" form *)
  Corollary step_sim_let w1 w2 o :
    WInv1 w1 -> WInv2 w2 -> sim w1 w2 -> op_wf keycap o ->
    let (w1', x1) := step1 w1 o in
    let (w2', x2) := step2 w2 o in
    sim w1' w2' /\ x1 = x2.
  Proof.
    intros HW1 HW2 HS Hwf. pose proof (step_sim w1 w2 o HW1 HW2 HS Hwf) as H.
    destruct (step1 w1 o) as [w1' x1]. destruct (step2 w2 o) as [w2' x2]. exact H.
  Qed.

  (* ================= every history ================= *)

  Theorem run_sim ops : forall w1 w2,
    WInv1 w1 -> WInv2 w2 -> sim w1 w2 -> Forall (op_wf keycap) ops ->
    sim (fst (run1 w1 ops)) (fst (run2 w2 ops)) /\ snd (run1 w1 ops) = snd (run2 w2 ops).
  Proof.
    induction ops as [|o ops IH]; intros w1 w2 HW1 HW2 HS Hwf.
    - cbn [run fst snd]. split; [exact HS|reflexivity].
    - inversion Hwf as [|o' ops' Ho Hops]; subst.
      destruct (step_sim w1 w2 o HW1 HW2 HS Ho) as (HS' & Hx).
      pose proof (step_inv hash1 cand1 growf1 keycap cand_refl1 w1 o HW1 Ho) as HW1'.
      pose proof (step_inv hash2 cand2 growf2 keycap cand_refl2 w2 o HW2 Ho) as HW2'.
      destruct (IH _ _ HW1' HW2' HS' Hops) as (HS'' & Hxs).
      rewrite !run_cons_fst, !run_cons_snd. split; [exact HS''|]. rewrite Hx, Hxs. reflexivity.
  Qed.

  (* C02, last sentence: the outputs of ANY history started from the empty world are the same
     under any two hashers / probe relations / re-hash schedules *)
  Theorem run_hash_independent ops :
    Forall (op_wf keycap) ops -> snd (run1 [] ops) = snd (run2 [] ops).
  Proof.
    intros Hwf.
    exact (proj2 (run_sim ops [] [] (WInv_nil hash1 keycap) (WInv_nil hash2 keycap) sim_nil Hwf)).
  Qed.

  (* ... and the final worlds are equal up to the lookup tables: same object kinds, identical
     string tables and arenas (memory behaviour is hasher-independent) *)
  Theorem run_final_sim ops :
    Forall (op_wf keycap) ops -> sim (fst (run1 [] ops)) (fst (run2 [] ops)).
  Proof.
    intros Hwf.
    exact (proj1 (run_sim ops [] [] (WInv_nil hash1 keycap) (WInv_nil hash2 keycap) sim_nil Hwf)).
  Qed.
End HashIndep.

Print Assumptions step_sim.
Print Assumptions run_sim.
Print Assumptions run_hash_independent.
Print Assumptions run_final_sim.
