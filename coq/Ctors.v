(* Ctors.v — the constructors of Rodeo / ThreadedRodeo forward their arguments
   (src/rodeo.rs 74-190, src/threaded_rodeo.rs 75-170, src/util.rs Capacity / MemoryLimits):
   which byte capacity and which memory limit the interner ends up with. *)
From Lasso Require Import Base Arena ArenaProofs.

Inductive ctor :=
| CNew                      (* new() *)
| CDefault                  (* Default::default() *)
| CWithCapacity             (* with_capacity(Capacity::new(strings, bytes)) *)
| CWithLimits               (* with_memory_limits(MemoryLimits::new(lim)) *)
| CWithCapacityAndLimits    (* with_capacity_and_memory_limits *)
| CWithHasher               (* with_hasher(S) *)
| CWithCapacityAndHasher    (* with_capacity_and_hasher *)
| CFull                     (* with_capacity_memory_limits_and_hasher *)
| CCapForStrings            (* with_capacity(Capacity::for_strings(n)): default byte capacity *)
| CCapForBytes              (* with_capacity(Capacity::for_bytes(bytes)) *)
| CCapMinimal               (* with_capacity(Capacity::minimal()): 1 byte *)
| CLimForMemoryUsage.       (* with_memory_limits(MemoryLimits::for_memory_usage(lim)) *)

Definition default_byte_capacity : N := 4096.

(* (byte capacity of the first block, memory limit) the constructor passes on *)
Definition ctor_args (c : ctor) (cap lim : N) : N * N :=
  match c with
  | CNew | CDefault | CWithHasher | CCapForStrings => (default_byte_capacity, usize_max)
  | CWithCapacity | CWithCapacityAndHasher | CCapForBytes => (cap, usize_max)
  | CWithLimits | CLimForMemoryUsage => (default_byte_capacity, lim)
  | CWithCapacityAndLimits | CFull => (cap, lim)
  | CCapMinimal => (1, usize_max)
  end.

Definition ctor_arena (c : ctor) (cap lim : N) : arena :=
  let (b, l) := ctor_args c cap lim in arena_new b l.

(* every constructor yields a well-formed arena whose usage is the first block and whose
   limit is the one asked for (or none) *)
Theorem ctor_arena_ok c cap lim :
  0 < cap ->
  let a := ctor_arena c cap lim in
  ArenaInv a /\ usage a = fst (ctor_args c cap lim) /\ limit a = snd (ctor_args c cap lim) /\
  bucket_cap a = fst (ctor_args c cap lim).
Proof.
  intros H. unfold ctor_arena. destruct (ctor_args c cap lim) as [b l] eqn:E. cbn [fst snd].
  assert (0 < b) by (destruct c; inversion E; subst; auto; reflexivity).
  split; [now apply arena_new_inv|]. repeat split.
Qed.
