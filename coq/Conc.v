(* Conc.v — small-step interleaving model of ThreadedRodeo + LockfreeArena used by ANY number
   of threads (src/threaded_rodeo.rs try_get_or_intern / try_get_or_intern_static / get /
   resolve / set_memory_limits / current_memory_usage, src/arenas/lockfree.rs store_str /
   allocate_memory, src/arenas/atomic_bucket.rs try_inc_length / push_front / iteration).

   One transition = one shared-memory event of one thread (the `lasso_verif` points of the
   implementation): an atomic load / CAS / store, a DashMap operation (which takes and
   releases its shard lock internally), taking a shard write lock, the copy of a string's
   bytes into a reserved range.  [step] is executable; which thread moves next and whether a
   weak compare-exchange fails spuriously are inputs ([tid], [choice]), so every theorem
   about [reachable] holds for every schedule and every spurious-failure pattern.

   Section variables: [shard_of] — which shard of the string->key DashMap a string lives in
   (any function: same-shard and cross-shard placements are all covered); [keycap].
   Model file: definitions only. *)
From Lasso Require Export Arena.

Section Conc.
  Variable shard_of : str -> N.
  Variable keycap : N.

  Definition try_key (i : N) : option N := if i <? keycap then Some i else None.

  (* ---- what a thread can be asked to do, and what it answers ---- *)
  Inductive call :=
  | CIntern (s : str)                    (* try_get_or_intern *)
  | CInternStatic (addr : N) (s : str)   (* try_get_or_intern_static *)
  | CGet (s : str)                       (* get *)
  | CResolve (k : N)                     (* try_resolve *)
  | CSetLimit (m : N)                    (* set_memory_limits *)
  | CUsage.                              (* current_memory_usage *)

  Inductive cout :=
  | ROk (k : N) | RErr (e : err) | RNone | RStr (s : str) | RNum (n : N) | RUnit.

  (* which growth branch of store_str a thread is in *)
  Inductive akind := AOversized | ARemaining | ADoubled.

  (* program counter inside LockfreeArena::store_str for the string being stored *)
  Inductive spc :=
  | SHead                                             (* iter(): load the list head *)
  | SLen (b : N) (rest : list N)                      (* try_inc_length on b: load len *)
  | SCas (b seen : N) (tries : nat) (rest : list N)   (* compare_exchange_weak(seen, seen+len) *)
  | SCopy (b off : N)                                 (* range reserved: copy the bytes *)
  | SBcap                                             (* load bucket_capacity *)
  | SAllocLoad (req : N) (k : akind) (next : N)       (* allocate_memory: load memory_usage *)
  | SAllocCas (cur req : N) (k : akind) (next : N)    (* load limit, compare, CAS memory_usage *)
  | SUsage2 (next : N)                                (* not oversized: load memory_usage *)
  | SLimit2 (next usage : N)                          (* load max_memory_usage *)
  | SBcapStore (next : N)                             (* set_bucket_capacity(next) *)
  | SNewBlock (cap : N)                               (* allocate the block, push_slice into it *)
  | SPushLoad (blk : block)                           (* push_front: load head *)
  | SPushCas (blk : block) (seen : option N).         (* write next (unpublished), CAS head *)

  (* program counter of a thread *)
  Inductive pc :=
  | PIdle                                             (* between calls *)
  | PFast (c : call)                                  (* map.get fast path of an intern call, or get *)
  | PLock (s : str)                                   (* shards()[i].write() *)
  | PFind (s : str)                                   (* find_or_find_insert_slot, lock held *)
  | PStore (s : str) (p : spc)                        (* arena.store_str, lock held *)
  | PKeyAdd (s : str) (r : sref)                      (* key.fetch_add(1), lock held *)
  | PStrs (s : str) (r : sref) (k : N)                (* strings.insert(key, string), lock held *)
  | PMap (s : str) (r : sref) (k : N)                 (* insert_in_slot / v.insert, lock held *)
  | PEntry (addr : N) (s : str)                       (* map.entry(string): takes the shard lock *)
  | PSKeyAdd (addr : N) (s : str)                     (* static path: fetch_add, lock held *)
  | PResolve (k : N)
  | PSetLimit (m : N)
  | PUsage.

  Record thread := mkThread {
    t_pc : pc;
    t_call : call;                       (* the call in progress (meaningful unless PIdle) *)
    t_prog : list call;                  (* calls still to make *)
    t_outs : list (call * cout)          (* completed calls with their answers, newest first *)
  }.

  (* an entry of one of the two DashMaps.  [e_str] is a ghost: the string the entry was
     inserted for.  No executable definition looks at it (lookups dereference [e_ref]);
     the invariants relate it to the bytes actually in the arena. *)
  Record entry := mkEntry { e_ref : sref; e_str : str; e_key : N }.

  Record cstate := mkC {
    c_blocks : list block;               (* the published bucket list, head first *)
    c_bcap : N;                          (* bucket_capacity *)
    c_usage : N;                         (* memory_usage *)
    c_limit : N;                         (* max_memory_usage *)
    c_next_bid : N;                      (* model only: the allocator's next fresh address *)
    c_map : list entry;                  (* string -> key DashMap (looked up by content) *)
    c_strs : list entry;                 (* key -> string DashMap *)
    c_key : N;                           (* the key counter *)
    c_locks : list (N * nat);            (* write-locked shards of c_map, with their holder *)
    c_threads : list thread
  }.

  Definition init (cap lim : N) (progs : list (list call)) : cstate :=
    mkC [fresh_block 0 cap] cap cap lim 1 [] [] 0 []
        (map (fun p => mkThread PIdle CUsage p []) progs).

  (* ---- helpers ---- *)
  Definition as_arena (c : cstate) : arena :=
    mkArena (c_blocks c) (c_bcap c) (c_usage c) (c_limit c) (c_next_bid c).

  Definition lock_holder (c : cstate) (sh : N) : option nat :=
    match find (fun e => fst e =? sh) (c_locks c) with Some e => Some (snd e) | None => None end.

  Definition unlock (c : cstate) (tid : nat) : list (N * nat) :=
    filter (fun e => negb (Nat.eqb (snd e) tid)) (c_locks c).

  Definition map_get (c : cstate) (s : str) : option N :=
    match find (fun e => match read (as_arena c) (e_ref e) with
                         | Some s' => str_eqb s s' | None => false end) (c_map c) with
    | Some e => Some (e_key e)
    | None => None
    end.

  Definition strs_get (c : cstate) (k : N) : option sref :=
    match find (fun e => e_key e =? k) (c_strs c) with Some e => Some (e_ref e) | None => None end.

  (* DashMap::insert: replaces an existing entry of the same key *)
  Definition strs_put (e : entry) (l : list entry) : list entry :=
    filter (fun x => negb (e_key x =? e_key e)) l ++ [e].

  Fixpoint set_block (b' : block) (bs : list block) : list block :=
    match bs with
    | [] => []
    | b :: t => if bid b =? bid b' then b' :: t else b :: set_block b' t
    end.

  Definition head_id (c : cstate) : option N :=
    match c_blocks c with b :: _ => Some (bid b) | [] => None end.

  Definition opt_N_eqb (a b : option N) : bool :=
    match a, b with Some x, Some y => x =? y | None, None => true | _, _ => false end.

  Definition set_thread (c : cstate) (tid : nat) (t : thread) : list thread :=
    set_nth tid t (c_threads c).

  (* update helpers (records are updated field by field to keep [step] readable) *)
  Definition with_threads (c : cstate) (ts : list thread) : cstate :=
    mkC (c_blocks c) (c_bcap c) (c_usage c) (c_limit c) (c_next_bid c) (c_map c) (c_strs c) (c_key c) (c_locks c) ts.
  Definition with_blocks (c : cstate) (bs : list block) : cstate :=
    mkC bs (c_bcap c) (c_usage c) (c_limit c) (c_next_bid c) (c_map c) (c_strs c) (c_key c) (c_locks c) (c_threads c).
  Definition with_usage (c : cstate) (u : N) : cstate :=
    mkC (c_blocks c) (c_bcap c) u (c_limit c) (c_next_bid c) (c_map c) (c_strs c) (c_key c) (c_locks c) (c_threads c).
  Definition with_limit (c : cstate) (m : N) : cstate :=
    mkC (c_blocks c) (c_bcap c) (c_usage c) m (c_next_bid c) (c_map c) (c_strs c) (c_key c) (c_locks c) (c_threads c).
  Definition with_bcap (c : cstate) (x : N) : cstate :=
    mkC (c_blocks c) x (c_usage c) (c_limit c) (c_next_bid c) (c_map c) (c_strs c) (c_key c) (c_locks c) (c_threads c).
  Definition with_next_bid (c : cstate) (x : N) : cstate :=
    mkC (c_blocks c) (c_bcap c) (c_usage c) (c_limit c) x (c_map c) (c_strs c) (c_key c) (c_locks c) (c_threads c).
  Definition with_map (c : cstate) (m : list entry) : cstate :=
    mkC (c_blocks c) (c_bcap c) (c_usage c) (c_limit c) (c_next_bid c) m (c_strs c) (c_key c) (c_locks c) (c_threads c).
  Definition with_strs (c : cstate) (m : list entry) : cstate :=
    mkC (c_blocks c) (c_bcap c) (c_usage c) (c_limit c) (c_next_bid c) (c_map c) m (c_key c) (c_locks c) (c_threads c).
  Definition with_key (c : cstate) (k : N) : cstate :=
    mkC (c_blocks c) (c_bcap c) (c_usage c) (c_limit c) (c_next_bid c) (c_map c) (c_strs c) k (c_locks c) (c_threads c).
  Definition with_locks (c : cstate) (l : list (N * nat)) : cstate :=
    mkC (c_blocks c) (c_bcap c) (c_usage c) (c_limit c) (c_next_bid c) (c_map c) (c_strs c) (c_key c) l (c_threads c).

  (* thread [tid] moves to [p] *)
  Definition goto (c : cstate) (tid : nat) (t : thread) (p : pc) : cstate :=
    with_threads c (set_thread c tid (mkThread p (t_call t) (t_prog t) (t_outs t))).

  (* thread [tid] finishes its call with answer [o] and releases whatever lock it holds *)
  Definition finish (c : cstate) (tid : nat) (t : thread) (o : cout) : cstate :=
    with_locks (with_threads c (set_thread c tid (mkThread PIdle (t_call t) (t_prog t) ((t_call t, o) :: t_outs t))))
               (unlock c tid).

  Definition pc_of_call (cl : call) : pc :=
    match cl with
    | CIntern _ | CInternStatic _ _ | CGet _ => PFast cl
    | CResolve k => PResolve k
    | CSetLimit m => PSetLimit m
    | CUsage => PUsage
    end.

  (* the lock-free arena, one event at a time.  Returns the new state; [tid]'s pc is set by
     the caller through [k] (continuation on the new store pc) or [done] (the reference). *)
  Definition store_step (atomic : bool) (c : cstate) (tid : nat) (t : thread) (s : str) (p : spc) (choice : bool)
    : cstate :=
    let len := slen s in
    let cont p' := goto c tid t (PStore s p') in
    let fail e := finish c tid t (RErr e) in
    match p with
    | SHead =>
        match map bid (c_blocks c) with
        | b :: rest => cont (SLen b rest)
        | [] => cont SBcap
        end
    | SLen b rest =>
        match find_block b (c_blocks c) with
        | Some blk => cont (SCas b (bused blk) 0 rest)
        | None => cont SBcap                                   (* cannot happen: blocks are never removed *)
        end
    | SCas b seen tries rest =>
        let next_block := match rest with b' :: rest' => cont (SLen b' rest') | [] => cont SBcap end in
        match find_block b (c_blocks c) with
        | None => next_block
        | Some blk =>
            if (Nat.ltb tries 100) && (seen + len <=? bcap blk) then
              if (bused blk =? seen) && negb choice then
                (* the CAS succeeds: [seen, seen+len) is ours *)
                goto (with_blocks c (set_block (mkBlock (bid blk) (bcap blk) (seen + len) (bdata blk)) (c_blocks c)))
                     tid t (PStore s (SCopy b seen))
              else cont (SCas b (bused blk) (S tries) rest)    (* failed (really or spuriously): reload, retry *)
            else next_block
        end
    | SCopy b off =>
        match find_block b (c_blocks c) with
        | Some blk =>
            goto (with_blocks c (set_block (mkBlock (bid blk) (bcap blk) (bused blk)
                                                    (bwrite (bdata blk) (N.to_nat off) s)) (c_blocks c)))
                 tid t (PKeyAdd s (RArena b off len))
        | None => cont SBcap
        end
    | SBcap =>
        let next := 2 * c_bcap c in
        if next <? len then cont (SAllocLoad len AOversized next) else cont (SUsage2 next)
    | SUsage2 next => cont (SLimit2 next (c_usage c))
    | SLimit2 next usage =>
        let lim := c_limit c in
        if lim <? usage + next then
          let remaining := lim - usage in
          if remaining <? len then fail MemoryLimitReached      (* the F1 guard *)
          else cont (SAllocLoad remaining ARemaining next)
        else cont (SAllocLoad next ADoubled next)
    | SAllocLoad req k next => cont (SAllocCas (c_usage c) req k next)
    | SAllocCas cur req k next =>
        let granted c' :=
          match k with
          | AOversized => goto c' tid t (PStore s (SNewBlock req))
          | ARemaining => if req =? 0 then finish c' tid t (RErr MemoryLimitReached)
                          else goto c' tid t (PStore s (SNewBlock req))
          | ADoubled => goto c' tid t (PStore s (SBcapStore next))
          end in
        if c_limit c <? cur + req then fail MemoryLimitReached
        else if atomic then
          (* fetch_update: the check above and this compare-and-swap are one atomic step *)
          if (c_usage c =? cur) && negb choice then granted (with_usage c (cur + req))
          else cont (SAllocCas (c_usage c) req k next)          (* retries with the value it saw *)
        else
          (* the unrepaired code (before the F2 fix): the check was made against the value
             loaded earlier, then an unconditional fetch_add *)
          granted (with_usage c (c_usage c + req))
    | SBcapStore next => goto (with_bcap c next) tid t (PStore s (SNewBlock next))
    | SNewBlock cap =>
        let (blk, _) := push_slice (fresh_block (c_next_bid c) cap) s in
        goto (with_next_bid c (c_next_bid c + 1)) tid t (PStore s (SPushLoad blk))
    | SPushLoad blk => cont (SPushCas blk (head_id c))
    | SPushCas blk seen =>
        if opt_N_eqb (head_id c) seen && negb choice then
          goto (with_blocks c (blk :: c_blocks c)) tid t (PKeyAdd s (RArena (bid blk) 0 len))
        else cont (SPushCas blk (head_id c))
    end.

  (* is thread [tid] (at pc [p]) allowed to move?  Only lock acquisition can block. *)
  Definition blocked (c : cstate) (tid : nat) (p : pc) : bool :=
    let held_by_other sh := match lock_holder c sh with
                            | Some h => negb (Nat.eqb h tid) | None => false end in
    match p with
    | PFast (CIntern s) | PFast (CInternStatic _ s) | PFast (CGet s) => held_by_other (shard_of s)
    | PLock s => held_by_other (shard_of s)
    | PEntry _ s => held_by_other (shard_of s)
    | _ => false
    end.

  Definition step_gen (atomic : bool) (c : cstate) (tid : nat) (choice : bool) : option cstate :=
    match nth_error (c_threads c) tid with
    | None => None
    | Some t =>
      if blocked c tid (t_pc t) then None else
      match t_pc t with
      | PIdle =>
          match t_prog t with
          | [] => None
          | cl :: rest => Some (with_threads c (set_thread c tid (mkThread (pc_of_call cl) cl rest (t_outs t))))
          end
      | PFast cl =>
          match cl with
          | CIntern s =>
              Some (match map_get c s with
                    | Some k => finish c tid t (ROk k)
                    | None => goto c tid t (PLock s)
                    end)
          | CInternStatic addr s =>
              Some (match map_get c s with
                    | Some k => finish c tid t (ROk k)
                    | None => goto c tid t (PEntry addr s)
                    end)
          | CGet s => Some (finish c tid t (match map_get c s with Some k => ROk k | None => RNone end))
          | _ => None
          end
      | PLock s =>
          Some (goto (with_locks c ((shard_of s, tid) :: c_locks c)) tid t (PFind s))
      | PFind s =>
          Some (match map_get c s with
                | Some k => finish c tid t (ROk k)
                | None => match s with
                          | [] => goto c tid t (PKeyAdd s REmpty)          (* store_str("") returns "" *)
                          | _ => goto c tid t (PStore s SHead)
                          end
                end)
      | PStore s p => Some (store_step atomic c tid t s p choice)
      | PKeyAdd s r =>
          let c' := with_key c (c_key c + 1) in
          Some (match try_key (c_key c) with
                | Some k => goto c' tid t (PStrs s r k)
                | None => finish c' tid t (RErr KeySpaceExhaustion)
                end)
      | PStrs s r k => Some (goto (with_strs c (strs_put (mkEntry r s k) (c_strs c))) tid t (PMap s r k))
      | PMap s r k => Some (finish (with_map c (c_map c ++ [mkEntry r s k])) tid t (ROk k))
      | PEntry addr s =>
          let c' := with_locks c ((shard_of s, tid) :: c_locks c) in
          Some (match map_get c s with
                | Some k => finish c' tid t (ROk k)                        (* Entry::Occupied *)
                | None => goto c' tid t (PSKeyAdd addr s)
                end)
      | PSKeyAdd addr s =>
          let c' := with_key c (c_key c + 1) in
          Some (match try_key (c_key c) with
                | Some k => goto c' tid t (PStrs s (RStatic addr s) k)
                | None => finish c' tid t (RErr KeySpaceExhaustion)
                end)
      | PResolve k =>
          Some (finish c tid t (match strs_get c k with
                                | Some r => match read (as_arena c) r with Some s => RStr s | None => RNone end
                                | None => RNone
                                end))
      | PSetLimit m => Some (finish (with_limit c m) tid t RUnit)
      | PUsage => Some (finish c tid t (RNum (c_usage c)))
      end
    end.

  Definition step := step_gen true.
  Definition step_legacy := step_gen false.

  (* ---- schedules and reachability ---- *)
  Fixpoint run_sched_gen (atomic : bool) (c : cstate) (sched : list (nat * bool)) : cstate :=
    match sched with
    | [] => c
    | (tid, ch) :: rest =>
        match step_gen atomic c tid ch with
        | Some c' => run_sched_gen atomic c' rest
        | None => run_sched_gen atomic c rest          (* a disabled move is a no-op of the scheduler *)
        end
    end.
  Definition run_sched := run_sched_gen true.

  Inductive reachable (c0 : cstate) : cstate -> Prop :=
  | reach_refl : reachable c0 c0
  | reach_step c c' tid ch : reachable c0 c -> step c tid ch = Some c' -> reachable c0 c'.

  Definition quiescent (c : cstate) : Prop :=
    Forall (fun t => t_pc t = PIdle) (c_threads c).

  Definition all_done (c : cstate) : Prop :=
    Forall (fun t => t_pc t = PIdle /\ t_prog t = []) (c_threads c).

End Conc.
