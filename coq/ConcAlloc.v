(* ConcAlloc.v — the allocation discipline behind the "no leak, no double free" clause of C04,
   at the level of the models.

   The models never free.  What can be (and is) proved here is WHICH blocks exist and who can
   reach them, so that the [Drop] walk of the real code (free every block reachable from the
   list head / every element of the Vec, with the layout computed from its stored capacity)
   frees each allocated block exactly once and nothing else:

   1. concurrent arena (Conc.v): the multiset of (identity, capacity) pairs of the existing
      blocks (published list + the unpublished block each thread may hold) changes in one step
      only by gaining (c_next_bid, cap) at SNewBlock ([step_idcap]); hence every identity ever
      handed out is still there ([alloc_complete]), exactly once, with the capacity it was
      allocated with, and with no call in flight all of them are in the published list
      ([C04_quiescent_walk]).
   2. sequential arenas (Arena.v): the same for vec_store / lf_store / arena_clear / set_limit
      and any history of them ([alloc_rel], [seq_alloc_inv], [drop_frees]).
   3. world level (Rodeo.v): IntoReader / IntoResolver move the arena value of their slot and
      touch no other slot ([views_keep_arena]); [step_arenas] classifies what every operation
      does to the slot-indexed list of arenas; every arena of every world reachable from the
      empty world satisfies the invariant of 2 ([run_alloc_inv]). *)
From Lasso Require Import Base Arena ArenaProofs Conc ConcInv ConcArenaProofs.
From Coq Require Import Permutation.

(* ------------------------------------------------------------------ identities and capacities *)

(* what [dealloc] needs to know about a block: its address and the capacity its layout is
   computed from *)
Definition idcap (b : block) : N * N := (bid b, bcap b).

Lemma map_fst_idcap l : map fst (map idcap l) = map bid l.
Proof. rewrite map_map. reflexivity. Qed.

Lemma map_snd_idcap l : map snd (map idcap l) = map bcap l.
Proof. rewrite map_map. reflexivity. Qed.

Lemma in_idcap_inv p l : In p (map idcap l) -> exists b, In b l /\ bid b = fst p /\ bcap b = snd p.
Proof.
  intros H. apply in_map_iff in H as (b & <- & Hb). exists b. auto.
Qed.

Lemma in_idcap b l : In b l -> In (idcap b) (map idcap l).
Proof. apply in_map. Qed.

Lemma set_block_idcap b' bs blk :
  find_block (bid b') bs = Some blk -> bcap b' = bcap blk ->
  map idcap (set_block b' bs) = map idcap bs.
Proof.
  induction bs as [|a bs IH]; simpl; auto. destruct (bid a =? bid b') eqn:E; simpl; intros H Hc.
  - inversion H; subst. apply N.eqb_eq in E. unfold idcap. now rewrite E, Hc.
  - now rewrite IH.
Qed.

(* the identities below a bound, in order *)
Definition ids_below (n : N) : list N := map N.of_nat (seq 0 (N.to_nat n)).

Lemma in_ids_below n x : In x (ids_below n) <-> x < n.
Proof.
  unfold ids_below. rewrite in_map_iff. split.
  - intros (k & <- & Hk). apply in_seq in Hk. lia.
  - intros H. exists (N.to_nat x). split; [apply N2Nat.id|]. apply in_seq. lia.
Qed.

Lemma nodup_ids_below n : NoDup (ids_below n).
Proof.
  unfold ids_below. apply FinFun.Injective_map_NoDup; [|apply seq_NoDup].
  intros x y. apply Nat2N.inj.
Qed.

Lemma length_ids_below n : N.of_nat (length (ids_below n)) = n.
Proof. unfold ids_below. rewrite map_length, seq_length. apply N2Nat.id. Qed.

Lemma exact_ids_perm l n :
  NoDup l -> (forall x, x < n <-> In x l) -> Permutation l (ids_below n).
Proof.
  intros Hnd H. apply NoDup_Permutation; [exact Hnd|apply nodup_ids_below|].
  intros x. rewrite in_ids_below. symmetry. apply H.
Qed.

Lemma exact_ids_length l n :
  NoDup l -> (forall x, x < n <-> In x l) -> N.of_nat (length l) = n.
Proof.
  intros Hnd H. rewrite (Permutation_length (exact_ids_perm _ _ Hnd H)). apply length_ids_below.
Qed.

(* ================================================================== 1. the concurrent arena *)

(* what one step does to the block structure: nothing; one published block updated in place
   (same identity, same capacity); one block allocated into the moving thread's hands under
   the allocator's next identity; the moving thread's block published *)
Inductive alloc_event (c c' : cstate) (t t' : thread) : Prop :=
| ae_none :
    c_blocks c' = c_blocks c -> c_next_bid c' = c_next_bid c -> ib t' = ib t ->
    alloc_event c c' t t'
| ae_update b' blk :
    c_blocks c' = set_block b' (c_blocks c) ->
    find_block (bid b') (c_blocks c) = Some blk -> bcap b' = bcap blk ->
    c_next_bid c' = c_next_bid c -> ib t' = ib t ->
    alloc_event c c' t t'
| ae_alloc blk s :
    c_blocks c' = c_blocks c -> c_next_bid c' = c_next_bid c + 1 ->
    ib t = [] -> ib t' = [blk] -> bid blk = c_next_bid c ->
    t_pc t = PStore s (SNewBlock (bcap blk)) ->
    alloc_event c c' t t'
| ae_publish blk :
    c_blocks c' = blk :: c_blocks c -> c_next_bid c' = c_next_bid c ->
    ib t = [blk] -> ib t' = [] ->
    alloc_event c c' t t'.

Ltac aen := eexists; split; [reflexivity|apply ae_none; reflexivity].
Ltac aen2 := eexists; split; [reflexivity|]; split; [reflexivity|apply ae_none; reflexivity].

Lemma store_step_alloc c tid t s p ch :
  t_pc t = PStore s p ->
  exists t', c_threads (store_step true c tid t s p ch) = set_nth tid t' (c_threads c) /\
             alloc_event c (store_step true c tid t s p ch) t t'.
Proof.
  intros Hpc. destruct t as [p0 cl pr ou]. cbn [t_pc] in Hpc. subst p0. unfold store_step.
  destruct p as [|b rs|b seen tries rs|b off| |req k next|cur req k next|next|next usage|next|cap|blk|blk seen];
    cbv zeta.
  - destruct (map bid (c_blocks c)); aen.
  - destruct (find_block b (c_blocks c)); aen.
  - destruct (find_block b (c_blocks c)) as [blk|] eqn:Hf; [|destruct rs; aen].
    destruct ((tries <? 100)%nat && (seen + slen s <=? bcap blk)); [|destruct rs; aen].
    destruct ((bused blk =? seen) && negb ch); [|aen].
    eexists; split; [reflexivity|].
    eapply ae_update with (blk := blk); try reflexivity.
    cbn. apply find_block_some in Hf as Hf'. destruct Hf' as [_ ->]. exact Hf.
  - destruct (find_block b (c_blocks c)) as [blk|] eqn:Hf; [|aen].
    eexists; split; [reflexivity|].
    eapply ae_update with (blk := blk); try reflexivity.
    cbn. apply find_block_some in Hf as Hf'. destruct Hf' as [_ ->]. exact Hf.
  - destruct (2 * c_bcap c <? slen s); aen.
  - aen.
  - destruct (c_limit c <? cur + req); [aen|].
    destruct ((c_usage c =? cur) && negb ch); [|aen].
    destruct k; [|destruct (req =? 0)|]; aen.
  - aen.
  - destruct (c_limit c <? usage + next); [destruct (c_limit c - usage <? slen s)|]; aen.
  - aen.
  - destruct (push_slice (fresh_block (c_next_bid c) cap) s) as [blk r] eqn:Hp.
    unfold push_slice in Hp. inversion Hp; subst blk r; clear Hp.
    eexists; split; [reflexivity|].
    eapply ae_alloc; reflexivity.
  - aen.
  - destruct (opt_N_eqb (head_id c) seen && negb ch); [|aen].
    eexists; split; [reflexivity|]. eapply ae_publish; reflexivity.
Qed.

Section ConcAlloc.
  Variable shard_of : str -> N.
  Variable keycap : N.
  Notation step := (Conc.step shard_of keycap).
  Notation reachable := (Conc.reachable shard_of keycap).

  Lemma step_alloc c tid ch c' :
    step c tid ch = Some c' ->
    exists t t', nth_error (c_threads c) tid = Some t /\
                 c_threads c' = set_nth tid t' (c_threads c) /\ alloc_event c c' t t'.
  Proof.
    intros Hstep. unfold Conc.step, step_gen in Hstep.
    destruct (nth_error (c_threads c) tid) as [t|] eqn:Hnth; [|discriminate].
    destruct (blocked shard_of c tid (t_pc t)); [discriminate|].
    exists t.
    destruct (t_pc t) as [|cl|s|s|s p|s r|s r k|s r k|addr s|addr s|k|m|] eqn:Hpc.
    5: { injection Hstep as <-. destruct (store_step_alloc c tid t s p ch Hpc) as (t' & H1 & H2).
         exists t'. auto. }
    all: destruct t as [p0 cl0 pr ou]; cbn [t_pc t_prog t_call t_outs] in *; subst p0.
    - destruct pr as [|cl1 pr]; [discriminate|]. injection Hstep as <-.
      destruct cl1; aen2.
    - destruct cl as [s|addr s|s|k|m|]; try discriminate; injection Hstep as <-;
        destruct (map_get c s); aen2.
    - injection Hstep as <-. aen2.
    - injection Hstep as <-. destruct (map_get c s); [|destruct s];
        aen2.
    - injection Hstep as <-. destruct (try_key keycap (c_key c));
        aen2.
    - injection Hstep as <-. aen2.
    - injection Hstep as <-. aen2.
    - injection Hstep as <-. destruct (map_get c s); aen2.
    - injection Hstep as <-. destruct (try_key keycap (c_key c));
        aen2.
    - injection Hstep as <-. aen2.
    - injection Hstep as <-. aen2.
    - injection Hstep as <-. aen2.
  Qed.

  (* The multiset of (identity, capacity) pairs of all existing blocks is unchanged by a step,
     except that an allocation adds the pair (allocator counter, requested capacity) and bumps
     the counter.  In particular no step drops a block: a call that fails (memory limit, key
     space) never holds an unpublished block when it fails. *)
  Theorem step_idcap c tid ch c' :
    step c tid ch = Some c' ->
    (c_next_bid c' = c_next_bid c /\
     Permutation (map idcap (all_blocks c)) (map idcap (all_blocks c'))) \/
    (exists cap, c_next_bid c' = c_next_bid c + 1 /\
                 Permutation ((c_next_bid c, cap) :: map idcap (all_blocks c))
                             (map idcap (all_blocks c'))).
  Proof.
    intros Hs. destruct (step_alloc _ _ _ _ Hs) as (t & t' & Hnth & Hth' & Hev).
    destruct (nth_error_split_set _ _ _ Hnth) as (l1 & l2 & Hth & _ & Hset).
    rewrite Hset in Hth'.
    rewrite (all_blocks_mid c _ _ _ Hth), (all_blocks_mid c' _ _ _ Hth').
    destruct Hev as [Hb Hn Hi|b' blk Hb Hf Hc Hn Hi|blk s Hb Hn Hi Hi' Hid Hpc|blk Hb Hn Hi Hi'].
    - left. split; [exact Hn|]. rewrite Hb, Hi. apply Permutation_refl.
    - left. split; [exact Hn|]. rewrite Hb, Hi. rewrite !map_app.
      rewrite (set_block_idcap _ _ _ Hf Hc). apply Permutation_refl.
    - right. exists (bcap blk). split; [exact Hn|]. rewrite Hb, Hi, Hi'. cbn [app].
      rewrite !app_assoc. rewrite !map_app. cbn [map].
      replace (c_next_bid c, bcap blk) with (idcap blk) by (unfold idcap; now rewrite Hid).
      apply Permutation_middle.
    - left. split; [exact Hn|]. rewrite Hb, Hi, Hi'. cbn [app].
      apply Permutation_map. apply Permutation_sym. rewrite !app_assoc.
      apply Permutation_middle.
  Qed.

  (* the allocator counter never decreases *)
  Lemma step_next_bid_mono c tid ch c' : step c tid ch = Some c' -> c_next_bid c <= c_next_bid c'.
  Proof. intros Hs. destruct (step_idcap _ _ _ _ Hs) as [[-> _]|(cap & -> & _)]; lia. Qed.

  (* ---- no block is lost, capacities never change ---- *)

  Theorem step_keeps_block c tid ch c' :
    step c tid ch = Some c' ->
    forall b, In b (all_blocks c) ->
              exists b', In b' (all_blocks c') /\ bid b' = bid b /\ bcap b' = bcap b.
  Proof.
    intros Hs b Hb. apply in_idcap in Hb.
    assert (H : In (idcap b) (map idcap (all_blocks c'))).
    { destruct (step_idcap _ _ _ _ Hs) as [[_ HP]|(cap & _ & HP)].
      - eapply Permutation_in; eauto.
      - eapply Permutation_in; [exact HP|]. now right. }
    apply in_idcap_inv in H as (b' & H1 & H2 & H3). exists b'. auto.
  Qed.

  (* the only identity that can appear is the allocator's counter value *)
  Theorem step_new_block c tid ch c' :
    step c tid ch = Some c' ->
    forall b', In b' (all_blocks c') ->
               (exists b, In b (all_blocks c) /\ bid b = bid b' /\ bcap b = bcap b') \/
               (bid b' = c_next_bid c /\ c_next_bid c' = c_next_bid c + 1).
  Proof.
    intros Hs b' Hb. apply in_idcap in Hb.
    destruct (step_idcap _ _ _ _ Hs) as [[_ HP]|(cap & Hn & HP)].
    - left. apply Permutation_sym in HP. apply (Permutation_in _ HP) in Hb.
      apply in_idcap_inv in Hb as (b & H1 & H2 & H3). exists b. auto.
    - apply Permutation_sym in HP. apply (Permutation_in _ HP) in Hb. destruct Hb as [Hb|Hb].
      + right. split; [|exact Hn]. unfold idcap in Hb. congruence.
      + left. apply in_idcap_inv in Hb as (b & H1 & H2 & H3). exists b. auto.
  Qed.

  (* the same along any execution *)
  Theorem reachable_keeps_block c c2 :
    reachable c c2 ->
    forall b, In b (all_blocks c) ->
              exists b', In b' (all_blocks c2) /\ bid b' = bid b /\ bcap b' = bcap b.
  Proof.
    induction 1 as [|c1 c2 tid ch _ IH Hs]; intros b Hb; [eauto|].
    destruct (IH b Hb) as (b1 & H1 & H2 & H3).
    destruct (step_keeps_block _ _ _ _ Hs b1 H1) as (b2 & H4 & H5 & H6).
    exists b2. split; [exact H4|]. split; congruence.
  Qed.

  (* in terms of [find_block], with the invariant that makes identities unique *)
  Theorem step_keeps_capacity c tid ch c' :
    AInv' c -> step c tid ch = Some c' ->
    forall id b, find_block id (all_blocks c) = Some b ->
                 exists b', find_block id (all_blocks c') = Some b' /\ bcap b' = bcap b.
  Proof.
    intros HI Hs id b Hf. apply find_block_some in Hf as [Hin Hid].
    destruct (step_keeps_block _ _ _ _ Hs b Hin) as (b' & H1 & H2 & H3).
    pose proof (step_AInv' shard_of keycap _ _ _ _ HI Hs) as HI'.
    exists b'. split; [|exact H3]. rewrite <- Hid, <- H2.
    apply find_block_in; [apply (ai_nodup _ (ai_base _ HI'))|exact H1].
  Qed.

  (* ---- completeness: every identity ever handed out still exists ---- *)

  Definition alloc_complete (c : cstate) : Prop :=
    forall id, id < c_next_bid c -> In id (map bid (all_blocks c)).

  Theorem init_alloc_complete cap lim progs : alloc_complete (init cap lim progs).
  Proof.
    assert (Hib : inflight_blocks (init cap lim progs) = []) by (apply flat_map_idle; reflexivity).
    intros id Hid. unfold all_blocks. rewrite Hib. cbn in *. left. lia.
  Qed.

  (* (no invariant is needed for this one) *)
  Theorem step_alloc_complete_gen c tid ch c' :
    alloc_complete c -> step c tid ch = Some c' -> alloc_complete c'.
  Proof.
    intros HC Hs id Hid. rewrite <- map_fst_idcap.
    destruct (step_idcap _ _ _ _ Hs) as [[Hn HP]|(cap & Hn & HP)].
    - eapply Permutation_in; [apply Permutation_map; exact HP|].
      rewrite map_fst_idcap. apply HC. lia.
    - eapply Permutation_in; [apply Permutation_map; exact HP|]. cbn [map fst].
      destruct (N.eq_dec id (c_next_bid c)) as [->|Hne]; [now left|right].
      rewrite map_fst_idcap. apply HC. lia.
  Qed.

  Theorem step_alloc_complete c tid ch c' :
    AInv' c -> alloc_complete c -> step c tid ch = Some c' -> alloc_complete c'.
  Proof. intros _. apply step_alloc_complete_gen. Qed.

  Theorem reachable_alloc_complete c0 c :
    alloc_complete c0 -> reachable c0 c -> alloc_complete c.
  Proof.
    intros H0 Hr. induction Hr as [|c c' tid ch _ IH Hs]; auto.
    eapply step_alloc_complete_gen; eauto.
  Qed.

  (* the existing blocks are, as a set of identities, EXACTLY {0 .. c_next_bid - 1}, each once *)
  Theorem reachable_blocks_exact cap lim progs c :
    0 < cap -> reachable (init cap lim progs) c ->
    (forall id, id < c_next_bid c <-> In id (map bid (all_blocks c))) /\
    NoDup (map bid (all_blocks c)) /\
    Permutation (map bid (all_blocks c)) (ids_below (c_next_bid c)).
  Proof.
    intros Hc Hr.
    pose proof (reachable_AInv shard_of keycap _ _ _ _ Hc Hr) as HA.
    pose proof (reachable_alloc_complete _ _ (init_alloc_complete cap lim progs) Hr) as HC.
    assert (Hiff : forall id, id < c_next_bid c <-> In id (map bid (all_blocks c))).
    { intros id. split; [apply HC|]. intros Hin. apply in_map_iff in Hin as (b & <- & Hb).
      pose proof (ai_fresh _ HA) as Hf. rewrite Forall_forall in Hf. now apply Hf. }
    split; [exact Hiff|]. split; [apply (ai_nodup _ HA)|].
    apply exact_ids_perm; [apply (ai_nodup _ HA)|exact Hiff].
  Qed.

  (* ---- quiescence: everything is in the published list ---- *)

  Lemma quiescent_no_inflight c : quiescent c -> inflight_blocks c = [].
  Proof.
    unfold quiescent, inflight_blocks. induction 1 as [|t ts Ht _ IH]; [reflexivity|].
    cbn [flat_map]. rewrite IH. unfold inflight_block. now rewrite Ht.
  Qed.

  Lemma quiescent_all_blocks c : quiescent c -> all_blocks c = c_blocks c.
  Proof. intros H. unfold all_blocks. rewrite quiescent_no_inflight by exact H. apply app_nil_r. Qed.

  (* With no call in flight, the list that AtomicBucketList::drop walks holds every block ever
     allocated, each exactly once: no leak, no double free. *)
  Theorem C04_quiescent_walk cap lim progs c :
    0 < cap -> reachable (init cap lim progs) c -> quiescent c ->
    (forall id, id < c_next_bid c <-> In id (map bid (c_blocks c))) /\
    NoDup (map bid (c_blocks c)) /\
    N.of_nat (length (c_blocks c)) = c_next_bid c /\
    Permutation (map bid (c_blocks c)) (ids_below (c_next_bid c)).
  Proof.
    intros Hc Hr Hq. destruct (reachable_blocks_exact _ _ _ _ Hc Hr) as (H1 & H2 & H3).
    rewrite (quiescent_all_blocks _ Hq) in *.
    split; [exact H1|]. split; [exact H2|]. split; [|exact H3].
    rewrite <- (map_length bid). now apply exact_ids_length.
  Qed.

  (* ... and the capacity stored in each of them is the one it was allocated with: a block seen
     at any earlier moment (published or still in a thread's hands) is in the final list under
     the same identity with the same capacity *)
  Theorem C04_quiescent_capacities c c2 :
    reachable c c2 -> quiescent c2 ->
    forall b, In b (all_blocks c) ->
              exists b', In b' (c_blocks c2) /\ bid b' = bid b /\ bcap b' = bcap b.
  Proof.
    intros Hr Hq b Hb. rewrite <- (quiescent_all_blocks _ Hq). eapply reachable_keeps_block; eauto.
  Qed.

  (* a thread that holds an unpublished block cannot end its call without publishing it *)
  Theorem inflight_not_dropped c tid ch c' t blk :
    step c tid ch = Some c' -> nth_error (c_threads c) tid = Some t ->
    inflight_block t = Some blk ->
    (exists t', nth_error (c_threads c') tid = Some t' /\ inflight_block t' = Some blk) \/
    In blk (c_blocks c').
  Proof.
    intros Hs Hnth Hib. destruct (step_alloc _ _ _ _ Hs) as (t0 & t' & Hnth0 & Hth' & Hev).
    rewrite Hnth in Hnth0. inversion Hnth0; subst t0; clear Hnth0.
    destruct (nth_error_split_set _ _ _ Hnth) as (l1 & l2 & Hth & Hlen & Hset).
    assert (Hnth' : nth_error (c_threads c') tid = Some t').
    { rewrite Hth', Hset, <- Hlen. rewrite nth_error_app2, Nat.sub_diag by lia. reflexivity. }
    assert (Hibt : ib t = [blk]) by (unfold ib; now rewrite Hib).
    destruct Hev as [Hb Hn Hi|b' blk0 Hb Hf Hc Hn Hi|blk0 s Hb Hn Hi Hi' Hid Hpc|blk0 Hb Hn Hi Hi'].
    - left. exists t'. split; [exact Hnth'|]. rewrite Hibt in Hi. unfold ib in Hi.
      destruct (inflight_block t'); inversion Hi. reflexivity.
    - left. exists t'. split; [exact Hnth'|]. rewrite Hibt in Hi. unfold ib in Hi.
      destruct (inflight_block t'); inversion Hi. reflexivity.
    - rewrite Hibt in Hi. discriminate.
    - right. rewrite Hibt in Hi. inversion Hi; subst blk0. rewrite Hb. now left.
  Qed.
End ConcAlloc.

(* ================================================================== 2. the sequential arenas *)

(* what [Drop] deallocates: one [dealloc] per element of the Vec / node of the list, with the
   layout of the capacity stored in it *)
Definition drop_frees (a : arena) : list (N * N) := map idcap (blocks a).

Lemma drop_frees_eq a : drop_frees a = map (fun b => (bid b, bcap b)) (blocks a).
Proof. reflexivity. Qed.

Lemma drop_frees_ids a : map fst (drop_frees a) = map bid (blocks a).
Proof. apply map_fst_idcap. Qed.

Lemma drop_frees_caps a : map snd (drop_frees a) = map bcap (blocks a).
Proof. apply map_snd_idcap. Qed.

(* how one arena operation changes the blocks: the (identity, capacity) pairs are the same, or
   exactly one pair (next_bid, cap) is added and the counter bumped *)
Definition alloc_rel (a a' : arena) : Prop :=
  (next_bid a' = next_bid a /\ Permutation (drop_frees a) (drop_frees a')) \/
  (exists cap, next_bid a' = next_bid a + 1 /\
               Permutation ((next_bid a, cap) :: drop_frees a) (drop_frees a')).

Lemma alloc_rel_refl a : alloc_rel a a.
Proof. left. split; [reflexivity|apply Permutation_refl]. Qed.

Lemma push_slice_idcap b s b' r : push_slice b s = (b', r) -> idcap b' = idcap b.
Proof. unfold push_slice. intros H. inversion H; subst. reflexivity. Qed.

Lemma grow_alloc_rel place guard a s :
  place_ok place -> alloc_rel a (fst (grow place guard a s)).
Proof.
  intros Hpl. unfold grow.
  assert (Hnew : forall ov cap bc us,
            alloc_rel a (fst (let (b, r) := push_slice (fresh_block (next_bid a) cap) s in
                              (mkArena (place ov b (blocks a)) bc us (limit a) (next_bid a + 1),
                               @Ok sref r)))).
  { intros ov cap bc us.
    destruct (push_slice (fresh_block (next_bid a) cap) s) as [b r] eqn:Hp. cbn [fst].
    apply push_slice_idcap in Hp.
    right. exists cap. split; [reflexivity|]. unfold drop_frees. cbn [blocks].
    destruct (Hpl ov b (blocks a)) as (l1 & l2 & H1 & H2). rewrite H2, H1.
    rewrite !map_app. cbn [map]. rewrite Hp. apply Permutation_middle. }
  destruct (2 * bucket_cap a <? slen s).
  - destruct (limit a <? usage a + slen s); [apply alloc_rel_refl|apply Hnew].
  - destruct (limit a <? usage a + 2 * bucket_cap a).
    + destruct (guard && (limit a - usage a <? slen s)); [apply alloc_rel_refl|].
      destruct (limit a <? usage a + (limit a - usage a)); [apply alloc_rel_refl|].
      destruct (limit a - usage a =? 0); [|apply Hnew].
      left. split; [reflexivity|apply Permutation_refl].
    + apply Hnew.
Qed.

Theorem vec_store_gen_alloc_rel guard a s : alloc_rel a (fst (vec_store_gen guard a s)).
Proof.
  unfold vec_store_gen. destruct s as [|x s0]; [apply alloc_rel_refl|]. set (s := x :: s0).
  destruct (last_opt (blocks a)) as [b|] eqn:El; [|apply grow_alloc_rel, vec_place_ok].
  destruct (slen s <=? bcap b - bused b); [|apply grow_alloc_rel, vec_place_ok].
  destruct (push_slice b s) as [b' r] eqn:Hp. cbn [fst]. apply push_slice_idcap in Hp.
  destruct (last_opt_split _ _ El) as (l1 & Hl1 & Hl2).
  left. split; [reflexivity|]. unfold drop_frees. cbn [blocks]. rewrite Hl2, Hl1.
  rewrite !map_app. cbn [map]. rewrite Hp. apply Permutation_refl.
Qed.

Theorem lf_store_gen_alloc_rel guard a s : alloc_rel a (fst (lf_store_gen guard a s)).
Proof.
  unfold lf_store_gen. destruct s as [|x s0]; [apply alloc_rel_refl|]. set (s := x :: s0).
  destruct (lf_first_fit (blocks a) s) as [[bs' r]|] eqn:Ef; [|apply grow_alloc_rel, lf_place_ok].
  destruct (lf_first_fit_split _ _ _ _ Ef) as (l1 & b & l2 & b' & H1 & H2 & H3 & _).
  apply push_slice_idcap in H3. cbn [fst].
  left. split; [reflexivity|]. unfold drop_frees. cbn [blocks]. rewrite H1, H2.
  rewrite !map_app. cbn [map]. rewrite H3. apply Permutation_refl.
Qed.

Theorem vec_store_alloc_rel a s : alloc_rel a (fst (vec_store a s)).
Proof. apply vec_store_gen_alloc_rel. Qed.

Theorem lf_store_alloc_rel a s : alloc_rel a (fst (lf_store a s)).
Proof. apply lf_store_gen_alloc_rel. Qed.

Lemma arena_clear_drop_frees a : drop_frees (arena_clear a) = drop_frees a.
Proof. unfold drop_frees, arena_clear. cbn [blocks]. rewrite map_map. reflexivity. Qed.

Theorem arena_clear_alloc_rel a : alloc_rel a (arena_clear a).
Proof. left. split; [reflexivity|]. rewrite arena_clear_drop_frees. apply Permutation_refl. Qed.

Theorem set_limit_alloc_rel a m : alloc_rel a (set_limit a m).
Proof. left. split; [reflexivity|apply Permutation_refl]. Qed.

(* the consequences in the form "no block disappears, capacities never change, the only new
   identity is the counter's" *)
Theorem alloc_rel_blocks a a' :
  alloc_rel a a' ->
  (forall b, In b (blocks a) -> exists b', In b' (blocks a') /\ bid b' = bid b /\ bcap b' = bcap b) /\
  (forall b', In b' (blocks a') ->
     (exists b, In b (blocks a) /\ bid b = bid b' /\ bcap b = bcap b') \/
     (bid b' = next_bid a /\ next_bid a' = next_bid a + 1)) /\
  next_bid a <= next_bid a'.
Proof.
  intros HR. split; [|split].
  - intros b Hb. apply in_idcap in Hb.
    assert (H : In (idcap b) (drop_frees a')).
    { destruct HR as [[_ HP]|(cap & _ & HP)].
      - eapply Permutation_in; eauto.
      - eapply Permutation_in; [exact HP|]. now right. }
    apply in_idcap_inv in H as (b' & H1 & H2 & H3). exists b'. auto.
  - intros b' Hb. apply in_idcap in Hb. fold (drop_frees a') in Hb.
    destruct HR as [[_ HP]|(cap & Hn & HP)].
    + left. apply Permutation_sym in HP. apply (Permutation_in _ HP) in Hb.
      apply in_idcap_inv in Hb as (b & H1 & H2 & H3). exists b. auto.
    + apply Permutation_sym in HP. apply (Permutation_in _ HP) in Hb. destruct Hb as [Hb|Hb].
      * right. split; [|exact Hn]. unfold idcap in Hb. congruence.
      * left. apply in_idcap_inv in Hb as (b & H1 & H2 & H3). exists b. auto.
  - destruct HR as [[-> _]|(cap & -> & _)]; lia.
Qed.

(* the statement asked for, for each store (the arena invariant is not even needed) *)
Theorem vec_store_blocks a s a' R :
  vec_store a s = (a', R) ->
  (forall b, In b (blocks a) -> exists b', In b' (blocks a') /\ bid b' = bid b /\ bcap b' = bcap b) /\
  (forall b', In b' (blocks a') ->
     (exists b, In b (blocks a) /\ bid b = bid b') \/ bid b' = next_bid a).
Proof.
  intros H. pose proof (vec_store_alloc_rel a s) as HR. rewrite H in HR. cbn [fst] in HR.
  destruct (alloc_rel_blocks _ _ HR) as (H1 & H2 & _). split; [exact H1|].
  intros b' Hb. destruct (H2 b' Hb) as [(b & Hin & Hid & _)|[Hid _]]; eauto.
Qed.

Theorem lf_store_blocks a s a' R :
  lf_store a s = (a', R) ->
  (forall b, In b (blocks a) -> exists b', In b' (blocks a') /\ bid b' = bid b /\ bcap b' = bcap b) /\
  (forall b', In b' (blocks a') ->
     (exists b, In b (blocks a) /\ bid b = bid b') \/ bid b' = next_bid a).
Proof.
  intros H. pose proof (lf_store_alloc_rel a s) as HR. rewrite H in HR. cbn [fst] in HR.
  destruct (alloc_rel_blocks _ _ HR) as (H1 & H2 & _). split; [exact H1|].
  intros b' Hb. destruct (H2 b' Hb) as [(b & Hin & Hid & _)|[Hid _]]; eauto.
Qed.

Theorem arena_clear_blocks a :
  (forall b, In b (blocks a) ->
     exists b', In b' (blocks (arena_clear a)) /\ bid b' = bid b /\ bcap b' = bcap b) /\
  (forall b', In b' (blocks (arena_clear a)) -> exists b, In b (blocks a) /\ bid b = bid b').
Proof.
  destruct (alloc_rel_blocks _ _ (arena_clear_alloc_rel a)) as (H1 & H2 & _). split; [exact H1|].
  intros b' Hb. destruct (H2 b' Hb) as [(b & Hin & Hid & _)|[_ Hn]]; [eauto|].
  cbn [arena_clear next_bid] in Hn. lia.
Qed.

(* ---- the invariant: the blocks of an arena are exactly the identities handed out, once each ---- *)

Definition alloc_complete_seq (a : arena) : Prop :=
  forall id, id < next_bid a <-> In id (map bid (blocks a)).

Definition seq_alloc_inv (a : arena) : Prop :=
  alloc_complete_seq a /\ NoDup (map bid (blocks a)).

Theorem arena_new_alloc_inv cap lim : seq_alloc_inv (arena_new cap lim).
Proof.
  split.
  - intros id. cbn. split; [intros H; left; lia|intros [H|[]]; lia].
  - cbn. constructor; [intros []|constructor].
Qed.

Theorem alloc_rel_inv a a' : alloc_rel a a' -> seq_alloc_inv a -> seq_alloc_inv a'.
Proof.
  intros HR [HC Hnd]. unfold seq_alloc_inv, alloc_complete_seq in *.
  rewrite <- drop_frees_ids in *.
  destruct HR as [[Hn HP]|(cap & Hn & HP)].
  - pose proof (Permutation_map fst HP) as HP1. split.
    + intros id. rewrite Hn, HC. split; apply Permutation_in; [exact HP1|now apply Permutation_sym].
    + eapply Permutation_NoDup; eauto.
  - pose proof (Permutation_map fst HP) as HP1. cbn [map fst] in HP1. split.
    + intros id. rewrite Hn. split.
      * intros Hlt. apply (Permutation_in _ HP1).
        destruct (N.eq_dec id (next_bid a)) as [->|Hne]; [now left|right]. apply HC. lia.
      * intros Hin. apply Permutation_sym in HP1. apply (Permutation_in _ HP1) in Hin.
        destruct Hin as [<-|Hin]; [lia|]. apply HC in Hin. lia.
    + eapply Permutation_NoDup; [exact HP1|]. constructor; [|exact Hnd].
      intros Hin. apply HC in Hin. lia.
Qed.

(* any history of stores, limit changes and clears *)
Lemma astep_alloc_rel store a o :
  (forall a s, alloc_rel a (fst (store a s))) -> alloc_rel a (astep store a o).
Proof.
  intros Hst. destruct o as [s|m|]; cbn [astep].
  - apply Hst.
  - apply set_limit_alloc_rel.
  - apply arena_clear_alloc_rel.
Qed.

Theorem history_alloc_inv store ops :
  (forall a s, alloc_rel a (fst (store a s))) ->
  forall a, seq_alloc_inv a -> seq_alloc_inv (fold_left (astep store) ops a).
Proof.
  intros Hst. induction ops as [|o ops IH]; intros a H; cbn [fold_left]; [exact H|].
  apply IH. eapply alloc_rel_inv; [apply astep_alloc_rel; exact Hst|exact H].
Qed.

(* along a history: blocks are never lost and keep their capacity *)
Theorem history_keeps_blocks store ops :
  (forall a s, alloc_rel a (fst (store a s))) ->
  forall a b, In b (blocks a) ->
    exists b', In b' (blocks (fold_left (astep store) ops a)) /\ bid b' = bid b /\ bcap b' = bcap b.
Proof.
  intros Hst. induction ops as [|o ops IH]; intros a b Hb; cbn [fold_left]; [eauto|].
  destruct (alloc_rel_blocks _ _ (astep_alloc_rel store a o Hst)) as (H1 & _).
  destruct (H1 b Hb) as (b1 & Hb1 & Hid & Hcap).
  destruct (IH _ b1 Hb1) as (b2 & Hb2 & Hid2 & Hcap2). exists b2. split; [exact Hb2|]. split; congruence.
Qed.

(* what Drop frees: pairwise different addresses, exactly the ones ever allocated *)
Theorem drop_frees_exact a :
  seq_alloc_inv a ->
  NoDup (map fst (drop_frees a)) /\
  (forall id, In id (map fst (drop_frees a)) <-> id < next_bid a) /\
  Permutation (map fst (drop_frees a)) (ids_below (next_bid a)) /\
  N.of_nat (length (drop_frees a)) = next_bid a.
Proof.
  intros [HC Hnd]. rewrite drop_frees_ids. split; [exact Hnd|]. split; [|split].
  - intros id. symmetry. apply HC.
  - now apply exact_ids_perm.
  - unfold drop_frees. rewrite map_length, <- (map_length bid). now apply exact_ids_length.
Qed.

Theorem drop_frees_history_vec ops cap lim :
  let a := fold_left (astep vec_store) ops (arena_new cap lim) in
  NoDup (map fst (drop_frees a)) /\
  (forall id, In id (map fst (drop_frees a)) <-> id < next_bid a) /\
  N.of_nat (length (drop_frees a)) = next_bid a.
Proof.
  cbv zeta.
  destruct (drop_frees_exact _ (history_alloc_inv vec_store ops vec_store_alloc_rel _
                                  (arena_new_alloc_inv cap lim))) as (H1 & H2 & _ & H3).
  auto.
Qed.

Theorem drop_frees_history_lf ops cap lim :
  let a := fold_left (astep lf_store) ops (arena_new cap lim) in
  NoDup (map fst (drop_frees a)) /\
  (forall id, In id (map fst (drop_frees a)) <-> id < next_bid a) /\
  N.of_nat (length (drop_frees a)) = next_bid a.
Proof.
  cbv zeta.
  destruct (drop_frees_exact _ (history_alloc_inv lf_store ops lf_store_alloc_rel _
                                  (arena_new_alloc_inv cap lim))) as (H1 & H2 & _ & H3).
  auto.
Qed.

(* ================================================================== 3. the world: arenas are moved, not copied *)

From Lasso Require Import Rodeo RodeoInv RodeoProofs ThreadedInv CloneSerdeProofs ThreadedProofs
  IterEqProofs WorldProofs.

#[local] Arguments DOk {A} a.
#[local] Arguments DErr {A}.
#[local] Arguments DPanic {A}.

(* the arena an object owns *)
Definition obj_arena (o : obj) : option arena :=
  match o with
  | ORodeo r | OReader r => Some (rar r)
  | OThreaded t => Some (tar t)
  | OResolver _ a => Some a
  | ODead => None
  end.

(* slot by slot ... *)
Definition slot_arenas (w : world) : list (option arena) := map obj_arena w.

Definition live (l : list (option arena)) : list arena :=
  flat_map (fun x => match x with Some a => [a] | None => [] end) l.

(* ... and just the arenas that exist, one entry per owner *)
Definition arenas_of (w : world) : list arena := live (slot_arenas w).

Definition optl (x : option arena) : list arena := match x with Some a => [a] | None => [] end.

(* [a'] is what [a] becomes under some sequence of stores, limit changes and clears *)
Definition evolves (store : arena -> str -> arena * res sref) (a a' : arena) : Prop :=
  exists ops, a' = fold_left (astep store) ops a.

Definition arena_evolves (a a' : arena) : Prop := evolves vec_store a a' \/ evolves lf_store a a'.

Lemma evolves_refl store a : evolves store a a.
Proof. exists []. reflexivity. Qed.

Lemma evolves_astep store a a1 o : evolves store a a1 -> evolves store a (astep store a1 o).
Proof. intros (ops & ->). exists (ops ++ [o]). now rewrite fold_left_app. Qed.

Lemma evolves_store store a a1 s a2 R :
  evolves store a a1 -> store a1 s = (a2, R) -> evolves store a a2.
Proof.
  intros H E. replace a2 with (astep store a1 (AStore s)) by (cbn [astep]; now rewrite E).
  now apply evolves_astep.
Qed.

Lemma evolves_trans store a a1 a2 : evolves store a a1 -> evolves store a1 a2 -> evolves store a a2.
Proof. intros (o1 & ->) (o2 & ->). exists (o1 ++ o2). now rewrite fold_left_app. Qed.

Lemma evolves_alloc_inv store a a' :
  (forall a s, alloc_rel a (fst (store a s))) -> evolves store a a' ->
  seq_alloc_inv a -> seq_alloc_inv a'.
Proof. intros Hst (ops & ->). now apply history_alloc_inv. Qed.

Lemma arena_evolves_refl a : arena_evolves a a.
Proof. left. apply evolves_refl. Qed.

Lemma arena_evolves_alloc_inv a a' : arena_evolves a a' -> seq_alloc_inv a -> seq_alloc_inv a'.
Proof.
  intros [H|H].
  - apply (evolves_alloc_inv vec_store _ _ vec_store_alloc_rel H).
  - apply (evolves_alloc_inv lf_store _ _ lf_store_alloc_rel H).
Qed.

(* ---- slot lists ---- *)

Lemma map_set_nth {A B} (f : A -> B) i x l : map f (set_nth i x l) = set_nth i (f x) (map f l).
Proof. revert i; induction l as [|y l IH]; intros [|i]; simpl; auto. now rewrite IH. Qed.

Lemma set_nth_same {A} (l : list A) i x : nth_error l i = Some x -> set_nth i x l = l.
Proof.
  revert i; induction l as [|y l IH]; intros [|i]; simpl; try discriminate.
  - intros H; inversion H; reflexivity.
  - intros H. now rewrite IH.
Qed.

Lemma set_nth_oob {A} (l : list A) i x : (length l <= i)%nat -> set_nth i x l = l.
Proof.
  revert i; induction l as [|y l IH]; intros [|i]; simpl; auto; try lia.
  intros H. rewrite IH; auto. lia.
Qed.

Lemma slot_arenas_set w i x : slot_arenas (set_obj w i x) = set_nth i (obj_arena x) (slot_arenas w).
Proof. apply map_set_nth. Qed.

Lemma slot_arenas_app w x : slot_arenas (w ++ [x]) = slot_arenas w ++ [obj_arena x].
Proof. unfold slot_arenas. now rewrite map_app. Qed.

Lemma get_obj_nth_error w i : get_obj w i <> ODead -> nth_error w i = Some (get_obj w i).
Proof.
  intros H. apply get_obj_lt in H. unfold get_obj. now apply nth_error_nth'.
Qed.

Lemma slot_of_obj w i a :
  obj_arena (get_obj w i) = Some a -> nth_error (slot_arenas w) i = Some (Some a).
Proof.
  intros H. unfold slot_arenas. rewrite nth_error_map, get_obj_nth_error.
  - cbn. now rewrite H.
  - intros E. rewrite E in H. discriminate.
Qed.

Lemma slot_of_dead w i : get_obj w i = ODead -> set_nth i None (slot_arenas w) = slot_arenas w.
Proof.
  intros H. destruct (Nat.lt_ge_cases i (length w)) as [Hlt|Hge].
  - apply set_nth_same. unfold slot_arenas. rewrite nth_error_map.
    rewrite (nth_error_nth' w ODead Hlt). fold (get_obj w i). now rewrite H.
  - apply set_nth_oob. unfold slot_arenas. now rewrite map_length.
Qed.

(* replacing the object of a slot by one that owns the same arena *)
Lemma slot_keep w i x' :
  obj_arena (get_obj w i) <> None -> obj_arena x' = obj_arena (get_obj w i) ->
  slot_arenas (set_obj w i x') = slot_arenas w.
Proof.
  intros Hne He. rewrite slot_arenas_set, He.
  destruct (obj_arena (get_obj w i)) as [a|] eqn:E; [|congruence].
  apply set_nth_same. now apply slot_of_obj.
Qed.

Lemma live_app l1 l2 : live (l1 ++ l2) = live l1 ++ live l2.
Proof. apply flat_map_app. Qed.

Lemma live_set_nth l i x :
  nth_error l i = Some x ->
  exists l1 l2, live l = l1 ++ optl x ++ l2 /\ forall y, live (set_nth i y l) = l1 ++ optl y ++ l2.
Proof.
  intros H. destruct (nth_error_split_set _ _ _ H) as (p1 & p2 & -> & _ & Hset).
  exists (live p1), (live p2). split.
  - rewrite live_app. reflexivity.
  - intros y. rewrite Hset, live_app. reflexivity.
Qed.

Section WorldArenas.
  Variable hash : str -> N.
  Variable cand : N -> N -> bool.
  Variable growf : N -> bool.
  Variable keycap : N.

  Notation step := (Rodeo.step hash cand growf keycap).
  Notation run := (Rodeo.run hash cand growf keycap).
  Notation intern := (intern hash cand growf keycap).
  Notation intern_static := (intern_static hash cand growf keycap).
  Notation t_intern := (t_intern keycap).
  Notation t_intern_static := (t_intern_static keycap).
  Notation r_extend := (r_extend hash cand growf keycap).
  Notation t_extend := (t_extend keycap).
  Notation clone_into := (clone_into hash cand growf keycap).
  Notation r_clone := (r_clone hash cand growf keycap).
  Notation r_clone_from := (r_clone_from hash cand growf keycap).
  Notation de_list_loop := (de_list_loop hash cand growf keycap).
  Notation de_rodeo := (de_rodeo hash cand growf keycap).
  Notation t_into_reader := (t_into_reader hash cand growf).

  (* ---- what each object-level operation does to the arena ---- *)

  Lemma intern_arena r s : evolves vec_store (rar r) (rar (fst (intern r s))).
  Proof.
    unfold Rodeo.intern. destruct (tlookup cand (rmap r) (rstrs r) (rar r) (hash s) s); [apply evolves_refl|].
    destruct (try_key keycap (r_len r)); [|apply evolves_refl].
    destruct (vec_store (rar r) s) as [a' [ref|e]] eqn:E; cbn [fst rar];
      eapply evolves_store; eauto using evolves_refl.
  Qed.

  Lemma intern_static_arena r addr s : rar (fst (intern_static r addr s)) = rar r.
  Proof.
    unfold Rodeo.intern_static.
    destruct (tlookup cand (rmap r) (rstrs r) (rar r) (hash s) s); [reflexivity|].
    destruct (try_key keycap (r_len r)); reflexivity.
  Qed.

  Lemma t_intern_arena t s : evolves lf_store (tar t) (tar (fst (t_intern t s))).
  Proof.
    unfold Rodeo.t_intern. destruct (t_get t s); [apply evolves_refl|].
    destruct (lf_store (tar t) s) as [a' [ref|e]] eqn:E; [destruct (try_key keycap (tkey t))|];
      cbn [fst tar]; eapply evolves_store; eauto using evolves_refl.
  Qed.

  Lemma t_intern_static_arena t addr s : tar (fst (t_intern_static t addr s)) = tar t.
  Proof.
    unfold Rodeo.t_intern_static. destruct (t_get t s); [reflexivity|].
    destruct (try_key keycap (tkey t)); reflexivity.
  Qed.

  Lemma r_extend_arena l : forall r, evolves vec_store (rar r) (rar (fst (r_extend r l))).
  Proof.
    induction l as [|s l IH]; intros r; cbn [Rodeo.r_extend]; [apply evolves_refl|].
    pose proof (intern_arena r s) as Hi. destruct (intern r s) as [r' [k|e]]; cbn [fst] in *.
    - eapply evolves_trans; [exact Hi|apply IH].
    - exact Hi.
  Qed.

  Lemma t_extend_arena l : forall t, evolves lf_store (tar t) (tar (fst (t_extend t l))).
  Proof.
    induction l as [|s l IH]; intros t; cbn [Rodeo.t_extend]; [apply evolves_refl|].
    pose proof (t_intern_arena t s) as Hi. destruct (t_intern t s) as [t' [k|e]]; cbn [fst] in *.
    - eapply evolves_trans; [exact Hi|apply IH].
    - exact Hi.
  Qed.

  Lemma clone_into_arena src : forall idx dst,
    evolves vec_store (rar dst) (rar (fst (clone_into src idx dst))).
  Proof.
    induction src as [|s src IH]; intros idx dst; cbn [Rodeo.clone_into]; [apply evolves_refl|].
    destruct (vec_store (rar dst) s) as [a' [ref|e]] eqn:E.
    - assert (H1 : evolves vec_store (rar dst) a') by (eapply evolves_store; eauto using evolves_refl).
      destruct (tlookup cand (rmap dst) (rstrs dst ++ [ref]) a' (hash s) s); [exact H1|].
      destruct (try_key keycap idx); [|exact H1].
      eapply evolves_trans; [exact H1|]. apply (IH _ (mkRodeo _ _ a')).
    - cbn [fst rar]. eapply evolves_store; eauto using evolves_refl.
  Qed.

  Lemma r_clone_arena r r' x :
    r_clone r = Some (r', x) -> exists cap lim, evolves vec_store (arena_new cap lim) (rar r').
  Proof.
    unfold Rodeo.r_clone. destruct (contents (rstrs r) (rar r)) as [cs|]; [|discriminate].
    intros H. inversion H as [H1]. eexists _, _.
    replace r' with (fst (clone_into cs 0 (rodeo_new
                       (if sum_N (map slen cs) =? 0 then default_bytes else sum_N (map slen cs))
                       (N.max (limit (rar r))
                          (if sum_N (map slen cs) =? 0 then default_bytes else sum_N (map slen cs))))))
      by now rewrite H1.
    apply (clone_into_arena cs 0 (rodeo_new _ _)).
  Qed.

  Lemma r_clone_from_arena tgt src r' x :
    r_clone_from tgt src = Some (r', x) -> evolves vec_store (rar tgt) (rar r').
  Proof.
    unfold Rodeo.r_clone_from. destruct (contents (rstrs src) (rar src)) as [cs|]; [|discriminate].
    intros H. inversion H as [H1].
    replace r' with (fst (clone_into cs 0 (r_clear tgt))) by now rewrite H1.
    eapply evolves_trans; [|apply clone_into_arena].
    cbn [r_clear rar]. apply (evolves_astep vec_store (rar tgt) (rar tgt) AClear), evolves_refl.
  Qed.

  Lemma de_list_loop_arena de l : forall pos r r',
    de_list_loop de l pos r = DOk r' -> evolves vec_store (rar r) (rar r').
  Proof.
    induction l as [|s l IH]; intros pos r r'; cbn [Rodeo.de_list_loop].
    - intros H; inversion H; subst. apply evolves_refl.
    - destruct (vec_store (rar r) s) as [a' [ref|e]] eqn:E; [|discriminate].
      assert (H1 : evolves vec_store (rar r) a') by (eapply evolves_store; eauto using evolves_refl).
      destruct (tlookup cand (rmap r) (rstrs r) a' (hash s) s).
      + destruct de; [discriminate|]. intros H. apply IH in H. cbn [rar] in H.
        eapply evolves_trans; eauto.
      + destruct (try_key keycap pos); [|discriminate]. intros H. apply IH in H. cbn [rar] in H.
        eapply evolves_trans; eauto.
  Qed.

  Lemma de_resolver_loop_arena l : forall strs a strs' a',
    de_resolver_loop l strs a = DOk (strs', a') -> evolves vec_store a a'.
  Proof.
    induction l as [|s l IH]; intros strs a strs' a'; cbn [de_resolver_loop].
    - intros H; inversion H; subst. apply evolves_refl.
    - destruct (vec_store a s) as [a1 [ref|e]] eqn:E; [|discriminate].
      intros H. apply IH in H. eapply evolves_trans; [|exact H].
      eapply evolves_store; eauto using evolves_refl.
  Qed.

  Lemma de_threaded_loop_arena l : forall t next t',
    de_threaded_loop l t next = DOk t' -> evolves lf_store (tar t) (tar t').
  Proof.
    induction l as [|[s k] l IH]; intros t next t'; cbn [de_threaded_loop].
    - intros H; inversion H; subst. apply evolves_refl.
    - destruct (lf_store (tar t) s) as [a1 [ref|e]] eqn:E; [|discriminate].
      intros H. apply IH in H. cbn [tar] in H. eapply evolves_trans; [|exact H].
      eapply evolves_store; eauto using evolves_refl.
  Qed.

  Lemma de_threaded_gen_arena ck su l t :
    de_threaded_gen ck su l = DOk t -> exists cap lim, evolves lf_store (arena_new cap lim) (tar t).
  Proof.
    unfold de_threaded_gen.
    destruct (ck && negb (keys_dense l (repeat false (length l)))); [discriminate|].
    destruct (de_threaded_loop l (trodeo_new (doc_bytes (map fst l)) usize_max) 0) as [t0| |] eqn:E;
      try discriminate.
    intros H. apply de_threaded_loop_arena in E. cbn [trodeo_new tar] in E.
    eexists _, _. inversion H; subst. destruct su; exact E.
  Qed.

  Lemma t_into_reader_arena t r : t_into_reader t = Some r -> rar r = tar t.
  Proof.
    unfold Rodeo.t_into_reader. destruct (t_strings t) as [strs|]; [|discriminate].
    destruct (rebuild hash cand growf (tmap t) strs (tar t) []); [|discriminate].
    intros H; inversion H; reflexivity.
  Qed.

  (* ---- what each operation of the world does to the arenas, slot by slot ---- *)

  Definition arenas_same (w w' : world) : Prop := slot_arenas w' = slot_arenas w.

  Definition arenas_inplace (w w' : world) (i : nat) : Prop :=
    exists a a', nth_error (slot_arenas w) i = Some (Some a) /\
                 slot_arenas w' = set_nth i (Some a') (slot_arenas w) /\ arena_evolves a a'.

  Definition arenas_new (w w' : world) : Prop :=
    exists cap lim a, slot_arenas w' = slot_arenas w ++ [Some a] /\
                      arena_evolves (arena_new cap lim) a.

  Definition arenas_drop (w w' : world) (i : nat) : Prop :=
    slot_arenas w' = set_nth i None (slot_arenas w).

  Definition arena_effect (w : world) (o : op) (w' : world) (x : out) : Prop :=
    match o with
    | IntoReader i | IntoResolver i => arenas_same w w' \/ (x = OFault /\ arenas_drop w w' i)
    | Drop i => arenas_drop w w' i
    | Clone _ | NewRodeo _ _ | NewThreaded _ _ | De _ _ | FromIter _ _ =>
        arenas_same w w' \/ arenas_new w w'
    | Intern i _ | InternStatic i _ _ | InternP i _ | InternStaticP i _ _
    | Clear i | SetLimit i _ | CloneFrom i _ | Extend i _ =>
        arenas_same w w' \/ arenas_inplace w w' i
    | _ => arenas_same w w'
    end.

  Lemma inplace_intro w i x' a a' :
    obj_arena (get_obj w i) = Some a -> obj_arena x' = Some a' -> arena_evolves a a' ->
    arenas_same w (set_obj w i x') \/ arenas_inplace w (set_obj w i x') i.
  Proof.
    intros H1 H2 H3. right. exists a, a'. split; [now apply slot_of_obj|]. split; [|exact H3].
    now rewrite slot_arenas_set, H2.
  Qed.

  Lemma new_intro w x cap lim a :
    obj_arena x = Some a -> arena_evolves (arena_new cap lim) a ->
    arenas_same w (w ++ [x]) \/ arenas_new w (w ++ [x]).
  Proof.
    intros H1 H2. right. exists cap, lim, a. split; [|exact H2]. now rewrite slot_arenas_app, H1.
  Qed.

  Ltac same_all :=
    unfold arenas_same;
    repeat match goal with |- context [match ?X with _ => _ end] => destruct X end;
    reflexivity.

  Theorem step_arenas w o : arena_effect w o (fst (step w o)) (snd (step w o)).
  Proof.
    destruct o as [i s|i addr s|i s|i addr s|i s|i s|i k|i k|i k|i|i|i plan|i plan|i|i m|i|i|i
                  |i j|i|i|i|i|k d|i j|th l|i l|cap lim|cap lim];
      cbn [arena_effect Rodeo.step].
    - (* Intern *)
      destruct (get_obj w i) as [r|t|r|strs a|] eqn:E; try (left; reflexivity).
      + pose proof (intern_arena r s) as H. destruct (intern r s) as [r' x]. cbn [fst snd] in *.
        eapply inplace_intro; [rewrite E; reflexivity|reflexivity|left; exact H].
      + pose proof (t_intern_arena t s) as H. destruct (t_intern t s) as [t' x]. cbn [fst snd] in *.
        eapply inplace_intro; [rewrite E; reflexivity|reflexivity|right; exact H].
    - (* InternStatic *)
      destruct (get_obj w i) as [r|t|r|strs a|] eqn:E; try (left; reflexivity).
      + pose proof (intern_static_arena r addr s) as H. destruct (intern_static r addr s) as [r' x].
        cbn [fst snd] in *.
        eapply inplace_intro; [rewrite E; reflexivity|reflexivity|rewrite H; apply arena_evolves_refl].
      + pose proof (t_intern_static_arena t addr s) as H. destruct (t_intern_static t addr s) as [t' x].
        cbn [fst snd] in *.
        eapply inplace_intro; [rewrite E; reflexivity|reflexivity|rewrite H; apply arena_evolves_refl].
    - (* InternP *)
      destruct (get_obj w i) as [r|t|r|strs a|] eqn:E; try (left; reflexivity).
      + pose proof (intern_arena r s) as H. destruct (intern r s) as [r' x]. cbn [fst snd] in *.
        eapply inplace_intro; [rewrite E; reflexivity|reflexivity|left; exact H].
      + pose proof (t_intern_arena t s) as H. destruct (t_intern t s) as [t' x]. cbn [fst snd] in *.
        eapply inplace_intro; [rewrite E; reflexivity|reflexivity|right; exact H].
    - (* InternStaticP *)
      destruct (get_obj w i) as [r|t|r|strs a|] eqn:E; try (left; reflexivity).
      + pose proof (intern_static_arena r addr s) as H. destruct (intern_static r addr s) as [r' x].
        cbn [fst snd] in *.
        eapply inplace_intro; [rewrite E; reflexivity|reflexivity|rewrite H; apply arena_evolves_refl].
      + pose proof (t_intern_static_arena t addr s) as H. destruct (t_intern_static t addr s) as [t' x].
        cbn [fst snd] in *.
        eapply inplace_intro; [rewrite E; reflexivity|reflexivity|rewrite H; apply arena_evolves_refl].
    - same_all.
    - same_all.
    - same_all.
    - same_all.
    - same_all.
    - same_all.
    - same_all.
    - same_all.
    - same_all.
    - (* Clear *)
      destruct (get_obj w i) as [r|t|r|strs a|] eqn:E; try (left; reflexivity). cbn [fst snd].
      eapply inplace_intro; [rewrite E; reflexivity|reflexivity|].
      left. cbn [r_clear rar]. apply (evolves_astep vec_store (rar r) (rar r) AClear), evolves_refl.
    - (* SetLimit *)
      destruct (get_obj w i) as [r|t|r|strs a|] eqn:E; try (left; reflexivity); cbn [fst snd].
      + eapply inplace_intro; [rewrite E; reflexivity|reflexivity|].
        left. cbn [r_set_limit rar].
        apply (evolves_astep vec_store (rar r) (rar r) (ASetLimit m)), evolves_refl.
      + eapply inplace_intro; [rewrite E; reflexivity|reflexivity|].
        right. cbn [t_set_limit tar].
        apply (evolves_astep lf_store (tar t) (tar t) (ASetLimit m)), evolves_refl.
    - same_all.
    - same_all.
    - (* Clone *)
      destruct (get_obj w i) as [r|t|r|strs a|] eqn:E; try (left; reflexivity).
      destruct (r_clone r) as [[r' [|e|]]|] eqn:Ec; try (left; reflexivity).
      destruct (r_clone_arena _ _ _ Ec) as (cap & lim & H). cbn [new_slot fst snd].
      eapply new_intro; [reflexivity|left; exact H].
    - (* CloneFrom *)
      destruct (get_obj w i) as [tgt|t|r|strs a|] eqn:E; try (left; reflexivity).
      destruct (get_obj w j) as [src|t|r|strs a|] eqn:E2; try (left; reflexivity).
      destruct (Nat.eqb i j); [left; reflexivity|].
      destruct (r_clone_from tgt src) as [[r' x]|] eqn:Ec; [|left; reflexivity].
      pose proof (r_clone_from_arena _ _ _ _ Ec) as H.
      destruct x; cbn [fst snd];
        (eapply inplace_intro; [rewrite E; reflexivity|reflexivity|left; exact H]).
    - (* Drop *)
      unfold arenas_drop. destruct (get_obj w i) eqn:E; cbn [fst snd];
        try (rewrite slot_arenas_set; reflexivity).
      symmetry. now apply slot_of_dead.
    - (* IntoReader *)
      destruct (get_obj w i) as [r|t|r|strs a|] eqn:E; try (left; reflexivity).
      + left. cbn [fst]. apply slot_keep; rewrite E; [discriminate|reflexivity].
      + destruct (t_into_reader t) as [r|] eqn:Er; cbn [fst snd].
        * left. apply slot_keep; rewrite E; [discriminate|]. cbn [obj_arena].
          now rewrite (t_into_reader_arena _ _ Er).
        * right. split; [reflexivity|]. unfold arenas_drop. now rewrite slot_arenas_set.
    - (* IntoResolver *)
      destruct (get_obj w i) as [r|t|r|strs a|] eqn:E; try (left; reflexivity).
      + left. cbn [fst]. apply slot_keep; rewrite E; [discriminate|reflexivity].
      + destruct (t_strings t) as [strs|]; cbn [fst snd].
        * left. apply slot_keep; rewrite E; [discriminate|reflexivity].
        * right. split; [reflexivity|]. unfold arenas_drop. now rewrite slot_arenas_set.
      + left. cbn [fst]. apply slot_keep; rewrite E; [discriminate|reflexivity].
    - same_all.
    - (* De *)
      destruct k, d as [l|l]; try (left; reflexivity).
      + unfold Rodeo.de_rodeo, de_rodeo_gen.
        destruct (de_list_loop true l 0 (rodeo_new (doc_bytes l) usize_max)) as [r| |] eqn:Ed;
          try (left; reflexivity).
        apply de_list_loop_arena in Ed. cbn [new_slot fst snd].
        eapply new_intro; [reflexivity|left; exact Ed].
      + destruct (de_threaded l) as [t| |] eqn:Ed; try (left; reflexivity).
        destruct (de_threaded_gen_arena _ _ _ _ Ed) as (cap & lim & H). cbn [new_slot fst snd].
        eapply new_intro; [reflexivity|right; exact H].
      + unfold Rodeo.de_rodeo, de_rodeo_gen.
        destruct (de_list_loop true l 0 (rodeo_new (doc_bytes l) usize_max)) as [r| |] eqn:Ed;
          try (left; reflexivity).
        apply de_list_loop_arena in Ed. cbn [new_slot fst snd].
        eapply new_intro; [reflexivity|left; exact Ed].
      + unfold de_resolver.
        destruct (de_resolver_loop l [] (arena_new (doc_bytes l) usize_max)) as [[strs a]| |] eqn:Ed;
          try (left; reflexivity).
        apply de_resolver_loop_arena in Ed. cbn [new_slot fst snd].
        eapply new_intro; [reflexivity|left; exact Ed].
    - same_all.
    - (* FromIter *)
      destruct th.
      + pose proof (t_extend_arena l (trodeo_new default_bytes usize_max)) as H.
        destruct (t_extend (trodeo_new default_bytes usize_max) l) as [t ok]. cbn [fst] in H.
        destruct ok; [|left; reflexivity]. cbn [new_slot fst snd].
        eapply new_intro; [reflexivity|right; exact H].
      + pose proof (r_extend_arena l (rodeo_new default_bytes usize_max)) as H.
        destruct (r_extend (rodeo_new default_bytes usize_max) l) as [r ok]. cbn [fst] in H.
        destruct ok; [|left; reflexivity]. cbn [new_slot fst snd].
        eapply new_intro; [reflexivity|left; exact H].
    - (* Extend *)
      destruct (get_obj w i) as [r|t|r|strs a|] eqn:E; try (left; reflexivity).
      + pose proof (r_extend_arena l r) as H. destruct (r_extend r l) as [r' ok]. cbn [fst snd] in *.
        eapply inplace_intro; [rewrite E; reflexivity|reflexivity|left; exact H].
      + pose proof (t_extend_arena l t) as H. destruct (t_extend t l) as [t' ok]. cbn [fst snd] in *.
        eapply inplace_intro; [rewrite E; reflexivity|reflexivity|right; exact H].
    - (* NewRodeo *)
      destruct (isize_max <? cap); [left; reflexivity|].
      cbn [new_slot fst snd]. eapply new_intro; [reflexivity|apply arena_evolves_refl].
    - (* NewThreaded *)
      destruct (lf_cap_max <? cap); [left; reflexivity|].
      cbn [new_slot fst snd]. eapply new_intro; [reflexivity|apply arena_evolves_refl].
  Qed.
End WorldArenas.

(* ---- the same in terms of [arenas_of], the list of arenas that exist ---- *)

Lemma obj_arena_get w i : obj_arena (get_obj w i) = nth i (slot_arenas w) None.
Proof.
  unfold get_obj, slot_arenas. change (@None arena) with (obj_arena ODead). now rewrite map_nth.
Qed.

Lemma nth_set_nth_None {A} (l : list (option A)) i : nth i (set_nth i None l) None = None.
Proof. revert i; induction l as [|y l IH]; intros [|i]; simpl; auto. Qed.

Lemma slot_arenas_length w : length (slot_arenas w) = length w.
Proof. apply map_length. Qed.

Lemma live_drop_nth l i :
  exists l1 l2, live l = l1 ++ optl (nth i l None) ++ l2 /\ live (set_nth i None l) = l1 ++ l2.
Proof.
  destruct (nth_error l i) as [x|] eqn:E.
  - destruct (live_set_nth _ _ _ E) as (l1 & l2 & H1 & H2). exists l1, l2.
    rewrite (nth_error_nth _ _ _ E). split; [exact H1|]. now rewrite H2.
  - apply nth_error_None in E. exists (live l), []. rewrite nth_overflow by exact E.
    rewrite set_nth_oob by exact E. cbn. now rewrite app_nil_r.
Qed.

Lemma in_arenas_of w i a : obj_arena (get_obj w i) = Some a -> In a (arenas_of w).
Proof.
  intros H. apply slot_of_obj in H. apply nth_error_In in H.
  unfold arenas_of, live. apply in_flat_map. exists (Some a). split; [exact H|now left].
Qed.

Definition live_same (w w' : world) : Prop := arenas_of w' = arenas_of w.

Definition live_inplace (w w' : world) (i : nat) : Prop :=
  exists l1 l2 a a', obj_arena (get_obj w i) = Some a /\
                     arenas_of w = l1 ++ a :: l2 /\ arenas_of w' = l1 ++ a' :: l2 /\
                     arena_evolves a a'.

Definition live_new (w w' : world) : Prop :=
  exists cap lim a, arenas_of w' = arenas_of w ++ [a] /\ arena_evolves (arena_new cap lim) a.

Definition live_drop (w w' : world) (i : nat) : Prop :=
  exists l1 l2, arenas_of w = l1 ++ optl (obj_arena (get_obj w i)) ++ l2 /\ arenas_of w' = l1 ++ l2.

Lemma arenas_same_live w w' : arenas_same w w' -> live_same w w'.
Proof. unfold arenas_same, live_same, arenas_of. now intros ->. Qed.

Lemma arenas_inplace_live w w' i : arenas_inplace w w' i -> live_inplace w w' i.
Proof.
  intros (a & a' & H1 & H2 & H3). destruct (live_set_nth _ _ _ H1) as (l1 & l2 & H4 & H5).
  exists l1, l2, a, a'. split; [|split; [exact H4|split; [|exact H3]]].
  - rewrite obj_arena_get. now apply nth_error_nth.
  - unfold arenas_of. rewrite H2. apply H5.
Qed.

Lemma arenas_new_live w w' : arenas_new w w' -> live_new w w'.
Proof.
  intros (cap & lim & a & H1 & H2). exists cap, lim, a. split; [|exact H2].
  unfold arenas_of. rewrite H1, live_app. reflexivity.
Qed.

Lemma arenas_drop_live w w' i : arenas_drop w w' i -> live_drop w w' i.
Proof.
  unfold arenas_drop, live_drop, arenas_of. intros ->. rewrite obj_arena_get. apply live_drop_nth.
Qed.

Definition arenas_of_effect (w : world) (o : op) (w' : world) (x : out) : Prop :=
  match o with
  | IntoReader i | IntoResolver i => live_same w w' \/ (x = OFault /\ live_drop w w' i)
  | Drop i => live_drop w w' i
  | Clone _ | NewRodeo _ _ | NewThreaded _ _ | De _ _ | FromIter _ _ =>
      live_same w w' \/ live_new w w'
  | Intern i _ | InternStatic i _ _ | InternP i _ | InternStaticP i _ _
  | Clear i | SetLimit i _ | CloneFrom i _ | Extend i _ =>
      live_same w w' \/ live_inplace w w' i
  | _ => live_same w w'
  end.

Lemma arena_effect_live w o w' x : arena_effect w o w' x -> arenas_of_effect w o w' x.
Proof.
  destruct o; cbn [arena_effect arenas_of_effect];
    intuition auto using arenas_same_live, arenas_inplace_live, arenas_new_live, arenas_drop_live.
Qed.

Lemma arenas_of_effect_cases w o w' x :
  arenas_of_effect w o w' x ->
  live_same w w' \/ (exists i, live_inplace w w' i) \/ live_new w w' \/ (exists i, live_drop w w' i).
Proof. destruct o; cbn [arenas_of_effect]; intuition eauto. Qed.

(* the allocation invariant of part 2, for every arena of a world *)
Definition WAlloc (w : world) : Prop := Forall seq_alloc_inv (arenas_of w).

Section WorldArenas2.
  Variable hash : str -> N.
  Variable cand : N -> N -> bool.
  Variable growf : N -> bool.
  Variable keycap : N.
  Hypothesis cand_refl : forall h, cand h h = true.

  Notation step := (Rodeo.step hash cand growf keycap).
  Notation run := (Rodeo.run hash cand growf keycap).

  (* one arena per owner: what every operation does to the list of existing arenas.
       conversions      : nothing (the arena is moved into the view)
       Drop i           : exactly the arena of slot i goes away
       Clone / New* / De / FromIter : nothing, or exactly one arena is added, grown from arena_new
       interning ops, Clear, SetLimit, CloneFrom, Extend : nothing, or the arena of the op's own
                          slot is updated in place by stores / clears / limit changes
       everything else  : nothing *)
  Theorem step_arenas_of w o :
    arenas_of_effect w o (fst (step w o)) (snd (step w o)).
  Proof. apply arena_effect_live, step_arenas. Qed.

  Definition is_conversion (o : op) (i : nat) : Prop := o = IntoReader i \/ o = IntoResolver i.

  (* into_reader / into_resolver: no other slot changes, and the slot's object keeps its arena —
     unless the conversion faults, which destroys the object (excluded below under the world
     invariant) *)
  Theorem views_keep_arena_gen w o i :
    is_conversion o i ->
    let w' := fst (step w o) in
    (forall j, j <> i -> get_obj w' j = get_obj w j) /\ length w' = length w /\
    ((obj_arena (get_obj w' i) = obj_arena (get_obj w i) /\
      slot_arenas w' = slot_arenas w /\ arenas_of w' = arenas_of w) \/
     (snd (step w o) = OFault /\ obj_arena (get_obj w' i) = None)).
  Proof.
    intros Hc. cbv zeta. pose proof (step_arenas hash cand growf keycap w o) as HE.
    assert (HE' : arenas_same w (fst (step w o)) \/
                  (snd (step w o) = OFault /\ arenas_drop w (fst (step w o)) i))
      by (destruct Hc as [-> | ->]; exact HE).
    clear HE.
    assert (Hlen : length (fst (step w o)) = length w).
    { rewrite <- !slot_arenas_length. destruct HE' as [->|[_ ->]]; [reflexivity|apply set_nth_length]. }
    split; [|split; [exact Hlen|]].
    - intros j Hj.
      destruct (step_syn hash cand growf keycap w o) as [->|[(x & Hx)|(i' & x' & Hi' & ->)]].
      + reflexivity.
      + rewrite Hx, app_length in Hlen. cbn in Hlen. lia.
      + apply get_set_other. destruct Hc as [-> | ->]; cbn [targets] in Hi';
          destruct Hi' as [<-|[]]; exact Hj.
    - destruct HE' as [Hs|[Hf Hd]].
      + left. split; [|split; [exact Hs|]].
        * now rewrite !obj_arena_get, Hs.
        * unfold arenas_of. now rewrite Hs.
      + right. split; [exact Hf|]. rewrite obj_arena_get, Hd. apply nth_set_nth_None.
  Qed.

  Theorem views_keep_arena w o i :
    WInv hash keycap w -> is_conversion o i ->
    let w' := fst (step w o) in
    obj_arena (get_obj w' i) = obj_arena (get_obj w i) /\
    (forall j, j <> i -> get_obj w' j = get_obj w j) /\
    slot_arenas w' = slot_arenas w /\ arenas_of w' = arenas_of w /\ length w' = length w.
  Proof.
    intros HW Hc. cbv zeta.
    destruct (views_keep_arena_gen w o i Hc) as (H1 & H2 & [(H3 & H4 & H5)|[Hf _]]).
    - auto.
    - exfalso. revert Hf. apply (never_faults hash cand growf keycap cand_refl w o HW).
      destruct Hc as [-> | ->]; exact I.
  Qed.

  (* Drop: the slot's arena, and only it, leaves the list *)
  Theorem drop_loses_arena w i :
    let w' := fst (step w (Drop i)) in
    exists l1 l2, arenas_of w = l1 ++ optl (obj_arena (get_obj w i)) ++ l2 /\
                  arenas_of w' = l1 ++ l2.
  Proof. exact (step_arenas_of w (Drop i)). Qed.

  (* ---- every arena of every reachable world has exactly the blocks ever allocated in it ---- *)

  Theorem step_WAlloc w o : WAlloc w -> WAlloc (fst (step w o)).
  Proof.
    intros HW. unfold WAlloc in *.
    destruct (arenas_of_effect_cases _ _ _ _ (step_arenas_of w o))
      as [Hs|[(i & l1 & l2 & a & a' & _ & H1 & H2 & H3)|[(cap & lim & a & H1 & H2)|(i & l1 & l2 & H1 & H2)]]].
    - now rewrite Hs.
    - rewrite H1 in HW. rewrite H2. eapply Forall_mid; [exact HW|].
      apply (arena_evolves_alloc_inv _ _ H3). exact (proj1 (Forall_mid_in _ _ _ _ HW)).
    - rewrite H1. apply Forall_app. split; [exact HW|]. constructor; [|constructor].
      apply (arena_evolves_alloc_inv _ _ H2), arena_new_alloc_inv.
    - rewrite H1 in HW. rewrite H2. apply Forall_app in HW as [Ha Hb]. apply Forall_app in Hb as [_ Hb].
      apply Forall_app. split; assumption.
  Qed.

  Theorem run_WAlloc ops : forall w, WAlloc w -> WAlloc (fst (run w ops)).
  Proof.
    induction ops as [|o ops IH]; intros w HW; [exact HW|].
    rewrite run_cons_fst. apply IH, step_WAlloc, HW.
  Qed.

  (* whenever an object is dropped, in any world reachable from nothing by any history: what its
     Drop frees are pairwise different blocks, exactly the ones ever allocated in its arena *)
  Theorem world_drop_exact ops i a :
    obj_arena (get_obj (fst (run [] ops)) i) = Some a ->
    NoDup (map fst (drop_frees a)) /\
    (forall id, In id (map fst (drop_frees a)) <-> id < next_bid a) /\
    N.of_nat (length (drop_frees a)) = next_bid a.
  Proof.
    intros H. apply in_arenas_of in H.
    assert (HW : WAlloc (fst (run [] ops))) by (apply run_WAlloc; constructor).
    unfold WAlloc in HW. rewrite Forall_forall in HW.
    destruct (drop_frees_exact a (HW a H)) as (H1 & H2 & _ & H3). auto.
  Qed.
End WorldArenas2.

Print Assumptions step_idcap.
Print Assumptions step_alloc_complete.
Print Assumptions reachable_alloc_complete.
Print Assumptions reachable_blocks_exact.
Print Assumptions C04_quiescent_walk.
Print Assumptions C04_quiescent_capacities.
Print Assumptions step_keeps_capacity.
Print Assumptions inflight_not_dropped.
Print Assumptions vec_store_blocks.
Print Assumptions lf_store_blocks.
Print Assumptions history_alloc_inv.
Print Assumptions drop_frees_exact.
Print Assumptions drop_frees_history_vec.
Print Assumptions drop_frees_history_lf.
Print Assumptions step_arenas.
Print Assumptions step_arenas_of.
Print Assumptions views_keep_arena_gen.
Print Assumptions views_keep_arena.
Print Assumptions drop_loses_arena.
Print Assumptions run_WAlloc.
Print Assumptions world_drop_exact.
