(* ConcTheorems.v — the concurrent theorems with their hypotheses discharged: every state
   reachable from a fresh interner under ANY schedule satisfies both invariants. *)
From Lasso Require Import Base Arena ArenaProofs Conc ConcInv ConcArenaProofs ConcInternProofs.

Section Closed.
  Variable shard_of : str -> N.
  Variable keycap : N.
  Variables cap lim : N.
  Variable progs : list (list call).
  Hypothesis cap_pos : 0 < cap.

  Notation reach := (reachable shard_of keycap (init cap lim progs)).

  Theorem reachable_invariants c :
    reach c -> AInv c /\ JInv' shard_of keycap c /\ N.of_nat (length (c_strs c)) <= keycap.
  Proof.
    intros H. apply (C03_reachable shard_of keycap cap lim progs c); auto.
    intros c1 H1. eapply reachable_AInv; eauto.
  Qed.

  Theorem conc_same_key_iff c t1 t2 cl1 cl2 k1 k2 s1 s2 :
    reach c -> In t1 (c_threads c) -> In t2 (c_threads c) ->
    In (cl1, ROk k1) (t_outs t1) -> In (cl2, ROk k2) (t_outs t2) ->
    str_of_call cl1 = Some s1 -> str_of_call cl2 = Some s2 -> (s1 = s2 <-> k1 = k2).
  Proof.
    intros H. destruct (reachable_invariants c H) as (_ & HJ & _).
    eapply C03_same_key_iff; eauto.
  Qed.

  Theorem conc_resolves_forever c c2 t cl k s :
    reach c -> In t (c_threads c) -> In (cl, ROk k) (t_outs t) -> str_of_call cl = Some s ->
    reachable shard_of keycap c c2 ->
    exists r, strs_get c2 k = Some r /\ read (as_arena c2) r = Some s.
  Proof.
    intros H Ht Ho Hs H2.
    eapply (C03_resolves_forever shard_of keycap cap lim progs (init cap lim progs) c c2); eauto.
    intros c1 H1. eapply reachable_AInv; eauto.
  Qed.

  Theorem conc_visible_after_return c t cl k s :
    reach c -> In t (c_threads c) -> In (cl, ROk k) (t_outs t) -> intern_of cl s ->
    map_get c s = Some k.
  Proof.
    intros H. destruct (reachable_invariants c H) as (HA & HJ & _).
    eapply C03_visible_after_return; eauto.
  Qed.

  Theorem conc_dense_when_quiescent c :
    reach c -> quiescent c ->
    (forall e, In e (c_strs c) <-> In e (c_map c)) /\
    (forall k, In k (keys_of (c_strs c)) <-> k < N.min (c_key c) keycap) /\
    NoDup (keys_of (c_strs c)) /\
    N.of_nat (length (c_strs c)) = N.min (c_key c) keycap /\
    (forall s, In s (strs_of (c_strs c)) <->
               exists t cl k, In t (c_threads c) /\ In (cl, ROk k) (t_outs t) /\ intern_of cl s) /\
    NoDup (strs_of (c_strs c)).
  Proof.
    intros H Hq. destruct (reachable_invariants c H) as (_ & HJ & _).
    destruct (C03_dense_when_quiescent shard_of keycap c HJ Hq) as (_ & H1 & H2 & H3 & H4).
    destruct (C03_count_is_distinct_strings shard_of keycap c HJ Hq) as (H5 & H6).
    repeat (split; auto).
  Qed.

  Theorem conc_accounting_quiescent c :
    reach c -> quiescent c -> c_usage c = sum_N (map bcap (c_blocks c)).
  Proof.
    intros H Hq. destruct (reachable_invariants c H) as (HA & _). now apply C09_accounting_quiescent.
  Qed.

  Theorem conc_usage_capped c :
    Forall (Forall (fun cl => forall m, cl <> CSetLimit m)) progs ->
    reach c -> c_limit c = lim /\ c_usage c <= N.max cap lim.
  Proof.
    intros Hp H.
    assert (Hn : no_setlimit (init cap lim progs)).
    { unfold no_setlimit, init. cbn [c_threads]. rewrite Forall_forall in *. intros t Ht.
      apply in_map_iff in Ht as (p & <- & Hin). cbn [t_pc t_prog]. split; [discriminate|].
      rewrite Forall_forall. intros cl Hcl. apply (proj1 (Forall_forall _ _) (Hp p Hin)). exact Hcl. }
    destruct (C09_cap shard_of keycap _ c Hn H) as (H1 & H2). auto.
  Qed.
End Closed.
