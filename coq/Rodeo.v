(* Rodeo.v — executable model of the interners and views
     src/rodeo.rs (Rodeo), src/threaded_rodeo.rs (ThreadedRodeo used from ONE thread),
     src/reader.rs, src/resolver.rs, the iterators of src/util.rs, the serde impls,
     FromIterator / Extend / Index / PartialEq.
   Model file: definitions only.  Keys are modelled by their index (Key::into_usize);
   Keys.v relates indices to the raw NonZero representation of the built-in key types.

   Section variables (every theorem is universally quantified over them):
     hash   : the BuildHasher, ANY function of the string's bytes (constant ones included);
     cand   : which filed hashes a hashbrown probe for hash h gets to compare
              (contract of the raw-entry API: at least the entries filed under h itself);
     growf  : whether inserting into a table of n entries re-hashes every entry (resize);
     keycap : how many keys the key type admits (K::try_from_usize i succeeds iff i < keycap).
   hashbrown, dashmap and serde are modelled by contract, not verified. *)
From Lasso Require Export Arena.

Section Model.
  Variable hash : str -> N.
  Variable cand : N -> N -> bool.
  Variable growf : N -> bool.
  Variable keycap : N.

  (* K::try_from_usize, at the level of indices *)
  Definition try_key (i : N) : option N := if i <? keycap then Some i else None.

  (* ================= the raw-entry table of Rodeo / RodeoReader ================= *)

  (* HashMap<K, (), ()>: entries are (hash the entry is filed under, key) *)
  Definition table := list (N * N).

  Definition key_str (strs : list sref) (a : arena) (k : N) : option str :=
    match nth_error strs (N.to_nat k) with
    | Some r => read a r
    | None => None                 (* index_unchecked! out of bounds: excluded by the invariant *)
    end.

  (* raw_entry().from_hash(h, |key| s == strings[key]) *)
  Definition tlookup (t : table) (strs : list sref) (a : arena) (h : N) (s : str) : option N :=
    match find (fun e => cand h (fst e) &&
                         match key_str strs a (snd e) with
                         | Some s' => str_eqb s s'
                         | None => false
                         end) t with
    | Some e => Some (snd e)
    | None => None
    end.

  (* the re-hash closure handed to insert_with_hasher: hash of the string the key points to *)
  Definition rehash (strs : list sref) (a : arena) (k : N) : N :=
    match key_str strs a k with Some s => hash s | None => 0 end.

  (* insert_with_hasher(h, k, (), rehash) *)
  Definition tinsert (t : table) (strs : list sref) (a : arena) (h k : N) : table :=
    (h, k) :: (if growf (N.of_nat (length t))
               then map (fun e => (rehash strs a (snd e), snd e)) t
               else t).

  (* ================= Rodeo ================= *)

  Record rodeo := mkRodeo { rmap : table; rstrs : list sref; rar : arena }.

  Definition rodeo_new (cap lim : N) : rodeo := mkRodeo [] [] (arena_new cap lim).

  Definition r_len (r : rodeo) : N := N.of_nat (length (rstrs r)).

  (* try_get_or_intern *)
  Definition intern (r : rodeo) (s : str) : rodeo * res N :=
    match tlookup (rmap r) (rstrs r) (rar r) (hash s) s with
    | Some k => (r, Ok k)
    | None =>
      match try_key (r_len r) with
      | None => (r, Err KeySpaceExhaustion)
      | Some k =>
        match vec_store (rar r) s with
        | (a', Err e) => (mkRodeo (rmap r) (rstrs r) a', Err e)
        | (a', Ok ref) =>
            let strs' := rstrs r ++ [ref] in
            (mkRodeo (tinsert (rmap r) strs' a' (hash s) k) strs' a', Ok k)
        end
      end
    end.

  (* try_get_or_intern_static: the caller's reference (identity [addr]) is stored as is *)
  Definition intern_static (r : rodeo) (addr : N) (s : str) : rodeo * res N :=
    match tlookup (rmap r) (rstrs r) (rar r) (hash s) s with
    | Some k => (r, Ok k)
    | None =>
      match try_key (r_len r) with
      | None => (r, Err KeySpaceExhaustion)
      | Some k =>
          let strs' := rstrs r ++ [RStatic addr s] in
          (mkRodeo (tinsert (rmap r) strs' (rar r) (hash s) k) strs' (rar r), Ok k)
      end
    end.

  Definition r_get (r : rodeo) (s : str) : option N :=
    tlookup (rmap r) (rstrs r) (rar r) (hash s) s.

  Definition strs_contains_key (strs : list sref) (k : N) : bool :=
    k <? N.of_nat (length strs).

  (* try_resolve; the checked resolve panics exactly when this is None *)
  Definition strs_resolve (strs : list sref) (a : arena) (k : N) : option str :=
    if strs_contains_key strs k then key_str strs a k else None.

  (* the stored reference itself (address identity of what resolve returns) *)
  Definition strs_resolve_ref (strs : list sref) (k : N) : option sref :=
    if strs_contains_key strs k then nth_error strs (N.to_nat k) else None.

  Definition r_clear (r : rodeo) : rodeo := mkRodeo [] [] (arena_clear (rar r)).

  Definition r_set_limit (r : rodeo) (m : N) : rodeo :=
    mkRodeo (rmap r) (rstrs r) (set_limit (rar r) m).

  (* every string of a string table, dereferenced (None if some reference is dangling) *)
  Definition contents (strs : list sref) (a : arena) : option (list str) :=
    all_some (map (read a) strs).

  (* ---- clone ---- *)

  Inductive cres := COk | CErr (e : err) | CPanic.

  (* clone_strings_into: [src] are the source's strings, [idx] the index of the next one *)
  Fixpoint clone_into (src : list str) (idx : N) (dst : rodeo) : rodeo * cres :=
    match src with
    | [] => (dst, COk)
    | s :: rest =>
      match vec_store (rar dst) s with
      | (a', Err e) => (mkRodeo (rmap dst) (rstrs dst) a', CErr e)
      | (a', Ok ref) =>
        let strs' := rstrs dst ++ [ref] in
        match tlookup (rmap dst) strs' a' (hash s) s with
        | Some _ => (mkRodeo (rmap dst) strs' a', CPanic)            (* unreachable!() *)
        | None =>
          match try_key idx with
          | None => (mkRodeo (rmap dst) strs' a', CErr KeySpaceExhaustion)
          | Some k =>
              clone_into rest (idx + 1) (mkRodeo (tinsert (rmap dst) strs' a' (hash s) k) strs' a')
          end
        end
      end
    end.

  Definition default_bytes : N := 4096.

  (* try_clone: a fresh arena sized to the content *)
  Definition r_clone (r : rodeo) : option (rodeo * cres) :=
    match contents (rstrs r) (rar r) with
    | None => None
    | Some cs =>
        let total := sum_N (map slen cs) in
        let cap := if total =? 0 then default_bytes else total in
        Some (clone_into cs 0 (rodeo_new cap (N.max (limit (rar r)) cap)))
    end.

  (* try_clone_from: the target is cleared and its buffers re-used *)
  Definition r_clone_from (tgt src : rodeo) : option (rodeo * cres) :=
    match contents (rstrs src) (rar src) with
    | None => None
    | Some cs => Some (clone_into cs 0 (r_clear tgt))
    end.

  (* ================= ThreadedRodeo, used by one thread ================= *)

  (* the two DashMaps are modelled by contract as association lists (insert replaces) *)
  Record trodeo := mkT {
    tmap : list (sref * N);      (* string -> key, looked up by string CONTENT *)
    tstrs : list (N * sref);     (* key -> string *)
    tkey : N;                    (* the AtomicUsize key counter *)
    tar : arena                  (* LockfreeArena *)
  }.

  Definition trodeo_new (cap lim : N) : trodeo := mkT [] [] 0 (arena_new cap lim).

  Definition t_get (t : trodeo) (s : str) : option N :=
    match find (fun e => match read (tar t) (fst e) with
                         | Some s' => str_eqb s s'
                         | None => false
                         end) (tmap t) with
    | Some e => Some (snd e)
    | None => None
    end.

  Definition t_ref (t : trodeo) (k : N) : option sref :=
    match find (fun e => fst e =? k) (tstrs t) with
    | Some e => Some (snd e)
    | None => None
    end.

  Definition t_resolve (t : trodeo) (k : N) : option str :=
    match t_ref t k with Some r => read (tar t) r | None => None end.

  (* DashMap::insert: replaces an existing entry of the same key *)
  Definition strs_insert (k : N) (r : sref) (l : list (N * sref)) : list (N * sref) :=
    filter (fun e => negb (fst e =? k)) l ++ [(k, r)].

  Definition t_len (t : trodeo) : N := N.of_nat (length (tstrs t)).

  (* try_get_or_intern: store first, then draw the key *)
  Definition t_intern (t : trodeo) (s : str) : trodeo * res N :=
    match t_get t s with
    | Some k => (t, Ok k)
    | None =>
      match lf_store (tar t) s with
      | (a', Err e) => (mkT (tmap t) (tstrs t) (tkey t) a', Err e)
      | (a', Ok ref) =>
        match try_key (tkey t) with
        | None => (mkT (tmap t) (tstrs t) (tkey t + 1) a', Err KeySpaceExhaustion)
        | Some k =>
            (mkT (tmap t ++ [(ref, k)]) (strs_insert k ref (tstrs t)) (tkey t + 1) a', Ok k)
        end
      end
    end.

  (* try_get_or_intern_static *)
  Definition t_intern_static (t : trodeo) (addr : N) (s : str) : trodeo * res N :=
    match t_get t s with
    | Some k => (t, Ok k)
    | None =>
      match try_key (tkey t) with
      | None => (mkT (tmap t) (tstrs t) (tkey t + 1) (tar t), Err KeySpaceExhaustion)
      | Some k =>
          let ref := RStatic addr s in
          (mkT (tmap t ++ [(ref, k)]) (strs_insert k ref (tstrs t)) (tkey t + 1) (tar t), Ok k)
      end
    end.

  Definition t_set_limit (t : trodeo) (m : N) : trodeo :=
    mkT (tmap t) (tstrs t) (tkey t) (set_limit (tar t) m).

  (* into_resolver / first half of into_reader: scatter key -> string by key index into a
     table of len entries.  None = the conversion faults (index out of range: panic in
     debug builds, out-of-bounds write in release builds; or unwrap of a hole). *)
  Fixpoint scatter (l : list (N * sref)) (acc : list (option sref)) : option (list (option sref)) :=
    match l with
    | [] => Some acc
    | (k, r) :: rest =>
        if k <? N.of_nat (length acc)
        then scatter rest (set_nth (N.to_nat k) (Some r) acc)
        else None
    end.

  Definition t_strings (t : trodeo) : option (list sref) :=
    match scatter (tstrs t) (repeat None (length (tstrs t))) with
    | Some acc => all_some acc
    | None => None
    end.

  (* second half of into_reader: rebuild the string -> key table with string hashes *)
  Fixpoint rebuild (l : list (sref * N)) (strs : list sref) (a : arena) (t : table) : option table :=
    match l with
    | [] => Some t
    | (r, k) :: rest =>
        match read a r with
        | None => None
        | Some s =>
            match tlookup t strs a (hash s) s with
            | Some _ => None                                  (* unreachable!() *)
            | None => rebuild rest strs a (tinsert t strs a (hash s) k)
            end
        end
    end.

  Definition t_into_reader (t : trodeo) : option rodeo :=
    match t_strings t with
    | None => None
    | Some strs =>
        match rebuild (tmap t) strs (tar t) [] with
        | Some tb => Some (mkRodeo tb strs (tar t))
        | None => None
        end
    end.

  (* ================= iterators (util.rs Iter / Strings) ================= *)

  (* iter::Enumerate<slice::Iter>: the window [lo, hi) of positions still to be yielded *)
  Inductive iop := INext | INextBack | INthBack (n : N) | ILen.
  Inductive item := ItSome (idx : N) (s : str) | ItNone | ItLen (n : N) | ItPanic.

  Definition iter_item (keyed : bool) (strs : list sref) (a : arena) (i : N) : item :=
    (* iter_element: K::try_from_usize(i).unwrap_or_else(|| unreachable!()) *)
    if keyed && negb (i <? keycap) then ItPanic
    else match key_str strs a i with
         | Some s => ItSome i s
         | None => ItPanic
         end.

  Fixpoint run_iter (keyed : bool) (strs : list sref) (a : arena) (lo hi : N) (plan : list iop)
    : list item :=
    match plan with
    | [] => []
    | INext :: p =>
        if lo <? hi then iter_item keyed strs a lo :: run_iter keyed strs a (lo + 1) hi p
        else ItNone :: run_iter keyed strs a lo hi p
    | INextBack :: p =>
        if lo <? hi then iter_item keyed strs a (hi - 1) :: run_iter keyed strs a lo (hi - 1) p
        else ItNone :: run_iter keyed strs a lo hi p
    | INthBack n :: p =>
        if n <? hi - lo
        then iter_item keyed strs a (hi - n - 1) :: run_iter keyed strs a lo (hi - n - 1) p
        else ItNone :: run_iter keyed strs a lo lo p          (* exhausts the iterator *)
    | ILen :: p => ItLen (hi - lo) :: run_iter keyed strs a lo hi p
    end.

  (* ================= serde ================= *)

  (* what serde hands over / receives: a list of strings, or string -> key pairs
     (key given by INDEX here; Keys.v: the raw value on the wire is index + 1) *)
  Inductive doc := DList (l : list str) | DMap (l : list (str * N)).

  Definition doc_bytes (l : list str) : N :=
    let total := sum_N (map slen l) in if total =? 0 then default_bytes else total.

  Inductive dres (A : Type) := DOk (a : A) | DErr | DPanic.
  Arguments DOk {A} a.
  Arguments DErr {A}.
  Arguments DPanic {A}.

  (* Deserialize for Rodeo / RodeoReader: [dup_err] is the F5 repair (a repeated string is
     an error); with dup_err = false the loop skips it like the unrepaired code did *)
  Fixpoint de_list_loop (dup_err : bool) (l : list str) (pos : N) (r : rodeo) : dres rodeo :=
    match l with
    | [] => DOk r
    | s :: rest =>
      match vec_store (rar r) s with
      | (_, Err _) => DPanic                                   (* expect("failed to allocate") *)
      | (a', Ok ref) =>
        match tlookup (rmap r) (rstrs r) a' (hash s) s with
        | Some _ =>
            if dup_err then DErr
            else de_list_loop dup_err rest (pos + 1) (mkRodeo (rmap r) (rstrs r) a')
        | None =>
          match try_key pos with
          | None => DPanic                                     (* expect("failed to create key") *)
          | Some k =>
              let strs' := rstrs r ++ [ref] in
              de_list_loop dup_err rest (pos + 1)
                           (mkRodeo (tinsert (rmap r) strs' a' (hash s) k) strs' a')
          end
        end
      end
    end.

  Definition de_rodeo_gen (dup_err : bool) (l : list str) : dres rodeo :=
    de_list_loop dup_err l 0 (rodeo_new (doc_bytes l) usize_max).
  Definition de_rodeo := de_rodeo_gen true.
  Definition de_rodeo_legacy := de_rodeo_gen false.

  (* Deserialize for RodeoResolver *)
  Fixpoint de_resolver_loop (l : list str) (strs : list sref) (a : arena)
    : dres (list sref * arena) :=
    match l with
    | [] => DOk (strs, a)
    | s :: rest =>
      match vec_store a s with
      | (_, Err _) => DPanic
      | (a', Ok ref) => de_resolver_loop rest (strs ++ [ref]) a'
      end
    end.

  Definition de_resolver (l : list str) : dres (list sref * arena) :=
    de_resolver_loop l [] (arena_new (doc_bytes l) usize_max).

  (* Deserialize for ThreadedRodeo.  [l] is the map after the parser's own handling of
     repeated JSON keys, in the (unspecified) order the HashMap yields it. *)
  Fixpoint keys_dense (l : list (str * N)) (seen : list bool) : bool :=
    match l with
    | [] => true
    | (_, k) :: rest =>
        if k <? N.of_nat (length seen) then            (* seen_keys.get_mut(key.into_usize()) *)
          match nth_error seen (N.to_nat k) with
          | Some false => keys_dense rest (set_nth (N.to_nat k) true seen)
          | _ => false
          end
        else false
    end.

  Fixpoint de_threaded_loop (l : list (str * N)) (t : trodeo) (next : N) : dres trodeo :=
    match l with
    | [] => DOk (mkT (tmap t) (tstrs t) next (tar t))
    | (s, k) :: rest =>
      match lf_store (tar t) s with
      | (_, Err _) => DPanic
      | (a', Ok ref) =>
          de_threaded_loop rest
            (mkT (filter (fun e => negb (match read a' (fst e) with
                                          | Some s' => str_eqb s s' | None => false end))
                         (tmap t) ++ [(ref, k)])
                 (strs_insert k ref (tstrs t)) (tkey t) a')
            (if next <=? k then k + 1 else next)
      end
    end.

  (* [check_keys] is the F4 repair, [succ] the F3 repair (counter = highest + 1) *)
  Definition de_threaded_gen (check_keys succ : bool) (l : list (str * N)) : dres trodeo :=
    if check_keys && negb (keys_dense l (repeat false (length l))) then DErr
    else
      match de_threaded_loop l (trodeo_new (doc_bytes (map fst l)) usize_max) 0 with
      | DOk t => DOk (if succ then t else mkT (tmap t) (tstrs t) (tkey t - 1) (tar t))
      | r => r
      end.
  Definition de_threaded := de_threaded_gen true true.

  (* ================= objects, operations, one step ================= *)

  Inductive obj :=
  | ORodeo (r : rodeo)
  | OThreaded (t : trodeo)
  | OReader (r : rodeo)
  | OResolver (strs : list sref) (a : arena)
  | ODead.

  Inductive dkind := KRodeo | KThreaded | KReader | KResolver.

  Inductive op :=
  | Intern (i : nat) (s : str)                 (* try_get_or_intern *)
  | InternStatic (i : nat) (addr : N) (s : str)
  | InternP (i : nat) (s : str)                (* get_or_intern: panics on Err *)
  | InternStaticP (i : nat) (addr : N) (s : str)
  | Get (i : nat) (s : str)
  | Contains (i : nat) (s : str)
  | Resolve (i : nat) (k : N)                  (* also Index and resolve_unchecked on valid keys *)
  | TryResolve (i : nat) (k : N)
  | ContainsKey (i : nat) (k : N)
  | Len (i : nat)
  | IsEmpty (i : nat)
  | IterOp (i : nat) (plan : list iop)
  | StringsOp (i : nat) (plan : list iop)
  | Clear (i : nat)
  | SetLimit (i : nat) (m : N)
  | CurMem (i : nat)
  | MaxMem (i : nat)
  | Clone (i : nat)                            (* try_clone into a new slot *)
  | CloneFrom (i j : nat)                      (* slot i .try_clone_from(slot j) *)
  | Drop (i : nat)
  | IntoReader (i : nat)
  | IntoResolver (i : nat)
  | Ser (i : nat)
  | De (k : dkind) (d : doc)                   (* into a new slot *)
  | EqOp (i j : nat)
  | FromIter (threaded : bool) (l : list str)  (* into a new slot *)
  | Extend (i : nat) (l : list str)
  | NewRodeo (cap lim : N)                     (* a fresh Rodeo in a new slot *)
  | NewThreaded (cap lim : N).

  Inductive out :=
  | OKey (k : N) | OErr (e : err) | OPanic | ONone | OStr (s : str) | OBool (b : bool)
  | ONum (n : N) | OUnit | OItems (l : list item) | ODoc (d : doc) | ONew (slot : N)
  | ODeErr | OUnsupported | OFault.

  Definition world := list obj.

  Definition get_obj (w : world) (i : nat) : obj := nth i w ODead.
  Definition set_obj (w : world) (i : nat) (o : obj) : world := set_nth i o w.

  Definition out_of_res (r : res N) : out :=
    match r with Ok k => OKey k | Err e => OErr e end.
  Definition out_of_resP (r : res N) : out :=
    match r with Ok k => OKey k | Err _ => OPanic end.
  Definition out_of_opt_key (o : option N) : out :=
    match o with Some k => OKey k | None => ONone end.
  Definition out_of_opt_str (o : option str) : out :=
    match o with Some s => OStr s | None => ONone end.

  (* string table + arena of a list-shaped object *)
  Definition obj_strs (o : obj) : option (list sref * arena) :=
    match o with
    | ORodeo r | OReader r => Some (rstrs r, rar r)
    | OResolver strs a => Some (strs, a)
    | _ => None
    end.

  Definition insertion_sort_keys (l : list (N * sref)) : list (N * sref) :=
    fold_right (fun e acc =>
                  (fix ins (l : list (N * sref)) :=
                     match l with
                     | [] => [e]
                     | x :: t => if fst e <=? fst x then e :: x :: t else x :: ins t
                     end) acc) [] l.

  (* the (key, string) pairs of an object in key order *)
  Definition obj_pairs (o : obj) : option (list (N * str)) :=
    match o with
    | OThreaded t =>
        all_some (map (fun e => match read (tar t) (snd e) with
                                | Some s => Some (fst e, s) | None => None end)
                      (insertion_sort_keys (tstrs t)))
    | _ =>
        match obj_strs o with
        | Some (strs, a) =>
            match contents strs a with
            | Some cs => Some (combine (map N.of_nat (seq 0 (length cs))) cs)
            | None => None
            end
        | None => None
        end
    end.

  Fixpoint list_str_eqb (a b : list str) : bool :=
    match a, b with
    | [], [] => true
    | x :: a', y :: b' => str_eqb x y && list_str_eqb a' b'
    | _, _ => false
    end.

  (* PartialEq: None where the crate has no impl for the pairing *)
  Definition eq_obj (x y : obj) : option bool :=
    match x, y with
    | OThreaded t, OThreaded u =>
        (* same length and every left entry is found right with equal content *)
        Some ((t_len t =? t_len u) &&
              forallb (fun e => match read (tar t) (snd e), t_resolve u (fst e) with
                                | Some s, Some s' => str_eqb s s'
                                | _, _ => false
                                end) (tstrs t))
    | OThreaded t, _ =>
        match obj_strs y with
        | Some (strs, a) =>
            match contents strs a with
            | Some cs =>
                Some ((t_len t =? N.of_nat (length cs)) &&
                      forallb (fun p => match try_key (fst p) with
                                        | Some k => match t_resolve t k with
                                                    | Some s' => str_eqb s' (snd p)
                                                    | None => false
                                                    end
                                        | None => false
                                        end)
                              (combine (map N.of_nat (seq 0 (length cs))) cs))
            | None => None
            end
        | None => None
        end
    | _, OThreaded _ => None
    | _, _ =>
        match obj_strs x, obj_strs y with
        | Some (s1, a1), Some (s2, a2) =>
            match contents s1 a1, contents s2 a2 with
            | Some c1, Some c2 => Some (list_str_eqb c1 c2)
            | _, _ => None
            end
        | _, _ => None
        end
    end.

  (* get_or_intern over a list: stops at the first failure (which panics) *)
  Fixpoint r_extend (r : rodeo) (l : list str) : rodeo * bool :=
    match l with
    | [] => (r, true)
    | s :: rest => match intern r s with
                   | (r', Ok _) => r_extend r' rest
                   | (r', Err _) => (r', false)
                   end
    end.

  Fixpoint t_extend (t : trodeo) (l : list str) : trodeo * bool :=
    match l with
    | [] => (t, true)
    | s :: rest => match t_intern t s with
                   | (t', Ok _) => t_extend t' rest
                   | (t', Err _) => (t', false)
                   end
    end.

  Definition new_slot (w : world) (o : obj) : world * out := (w ++ [o], ONew (N.of_nat (length w))).

  Definition step (w : world) (o : op) : world * out :=
    match o with
    | Intern i s =>
        match get_obj w i with
        | ORodeo r => let (r', x) := intern r s in (set_obj w i (ORodeo r'), out_of_res x)
        | OThreaded t => let (t', x) := t_intern t s in (set_obj w i (OThreaded t'), out_of_res x)
        | _ => (w, OUnsupported)
        end
    | InternStatic i addr s =>
        match get_obj w i with
        | ORodeo r => let (r', x) := intern_static r addr s in (set_obj w i (ORodeo r'), out_of_res x)
        | OThreaded t => let (t', x) := t_intern_static t addr s in (set_obj w i (OThreaded t'), out_of_res x)
        | _ => (w, OUnsupported)
        end
    | InternP i s =>
        match get_obj w i with
        | ORodeo r => let (r', x) := intern r s in (set_obj w i (ORodeo r'), out_of_resP x)
        | OThreaded t => let (t', x) := t_intern t s in (set_obj w i (OThreaded t'), out_of_resP x)
        | _ => (w, OUnsupported)
        end
    | InternStaticP i addr s =>
        match get_obj w i with
        | ORodeo r => let (r', x) := intern_static r addr s in (set_obj w i (ORodeo r'), out_of_resP x)
        | OThreaded t => let (t', x) := t_intern_static t addr s in (set_obj w i (OThreaded t'), out_of_resP x)
        | _ => (w, OUnsupported)
        end
    | Get i s =>
        match get_obj w i with
        | ORodeo r | OReader r => (w, out_of_opt_key (r_get r s))
        | OThreaded t => (w, out_of_opt_key (t_get t s))
        | _ => (w, OUnsupported)
        end
    | Contains i s =>
        match get_obj w i with
        | ORodeo r | OReader r => (w, OBool (match r_get r s with Some _ => true | None => false end))
        | OThreaded t => (w, OBool (match t_get t s with Some _ => true | None => false end))
        | _ => (w, OUnsupported)
        end
    | Resolve i k =>
        match get_obj w i with
        | OThreaded t => (w, match t_resolve t k with Some s => OStr s | None => OPanic end)
        | x => match obj_strs x with
               | Some (strs, a) => (w, match strs_resolve strs a k with Some s => OStr s | None => OPanic end)
               | None => (w, OUnsupported)
               end
        end
    | TryResolve i k =>
        match get_obj w i with
        | OThreaded t => (w, out_of_opt_str (t_resolve t k))
        | x => match obj_strs x with
               | Some (strs, a) => (w, out_of_opt_str (strs_resolve strs a k))
               | None => (w, OUnsupported)
               end
        end
    | ContainsKey i k =>
        match get_obj w i with
        | OThreaded t => (w, OBool (match t_ref t k with Some _ => true | None => false end))
        | x => match obj_strs x with
               | Some (strs, _) => (w, OBool (strs_contains_key strs k))
               | None => (w, OUnsupported)
               end
        end
    | Len i =>
        match get_obj w i with
        | OThreaded t => (w, ONum (t_len t))
        | x => match obj_strs x with
               | Some (strs, _) => (w, ONum (N.of_nat (length strs)))
               | None => (w, OUnsupported)
               end
        end
    | IsEmpty i =>
        match get_obj w i with
        | OThreaded t => (w, OBool (t_len t =? 0))
        | x => match obj_strs x with
               | Some (strs, _) => (w, OBool (N.of_nat (length strs) =? 0))
               | None => (w, OUnsupported)
               end
        end
    | IterOp i plan =>
        match get_obj w i with
        | OThreaded t =>
            (* dashmap order is unspecified: the whole content, in key order *)
            (w, match obj_pairs (OThreaded t) with
                | Some ps => OItems (map (fun p => ItSome (fst p) (snd p)) ps)
                | None => OFault
                end)
        | x => match obj_strs x with
               | Some (strs, a) => (w, OItems (run_iter true strs a 0 (N.of_nat (length strs)) plan))
               | None => (w, OUnsupported)
               end
        end
    | StringsOp i plan =>
        match get_obj w i with
        | OThreaded t =>
            (w, match obj_pairs (OThreaded t) with
                | Some ps => OItems (map (fun p => ItSome (fst p) (snd p)) ps)
                | None => OFault
                end)
        | x => match obj_strs x with
               | Some (strs, a) => (w, OItems (run_iter false strs a 0 (N.of_nat (length strs)) plan))
               | None => (w, OUnsupported)
               end
        end
    | Clear i =>
        match get_obj w i with
        | ORodeo r => (set_obj w i (ORodeo (r_clear r)), OUnit)
        | _ => (w, OUnsupported)
        end
    | SetLimit i m =>
        match get_obj w i with
        | ORodeo r => (set_obj w i (ORodeo (r_set_limit r m)), OUnit)
        | OThreaded t => (set_obj w i (OThreaded (t_set_limit t m)), OUnit)
        | _ => (w, OUnsupported)
        end
    | CurMem i =>
        match get_obj w i with
        | ORodeo r => (w, ONum (usage (rar r)))
        | OThreaded t => (w, ONum (usage (tar t)))
        | _ => (w, OUnsupported)
        end
    | MaxMem i =>
        match get_obj w i with
        | ORodeo r => (w, ONum (limit (rar r)))
        | OThreaded t => (w, ONum (limit (tar t)))
        | _ => (w, OUnsupported)
        end
    | Clone i =>
        match get_obj w i with
        | ORodeo r =>
            match r_clone r with
            | Some (r', COk) => new_slot w (ORodeo r')
            | Some (_, CErr e) => (w, OErr e)
            | Some (_, CPanic) => (w, OPanic)
            | None => (w, OFault)
            end
        | _ => (w, OUnsupported)
        end
    | CloneFrom i j =>
        match get_obj w i, get_obj w j with
        | ORodeo tgt, ORodeo src =>
            if Nat.eqb i j then (w, OUnsupported)      (* &mut self and &self cannot alias *)
            else match r_clone_from tgt src with
                 | Some (r', COk) => (set_obj w i (ORodeo r'), OUnit)
                 | Some (r', CErr e) => (set_obj w i (ORodeo r'), OErr e)
                 | Some (r', CPanic) => (set_obj w i (ORodeo r'), OPanic)
                 | None => (w, OFault)
                 end
        | _, _ => (w, OUnsupported)
        end
    | Drop i =>
        match get_obj w i with
        | ODead => (w, OUnsupported)
        | _ => (set_obj w i ODead, OUnit)
        end
    | IntoReader i =>
        match get_obj w i with
        | ORodeo r => (set_obj w i (OReader r), OUnit)
        | OThreaded t =>
            match t_into_reader t with
            | Some r => (set_obj w i (OReader r), OUnit)
            | None => (set_obj w i ODead, OFault)
            end
        | _ => (w, OUnsupported)
        end
    | IntoResolver i =>
        match get_obj w i with
        | ORodeo r | OReader r => (set_obj w i (OResolver (rstrs r) (rar r)), OUnit)
        | OThreaded t =>
            match t_strings t with
            | Some strs => (set_obj w i (OResolver strs (tar t)), OUnit)
            | None => (set_obj w i ODead, OFault)
            end
        | _ => (w, OUnsupported)
        end
    | Ser i =>
        match get_obj w i with
        | ODead => (w, OUnsupported)
        | OThreaded t =>
            (w, match obj_pairs (OThreaded t) with
                | Some ps => ODoc (DMap (map (fun p => (snd p, fst p)) ps))
                | None => OFault
                end)
        | x => (w, match obj_pairs x with
                   | Some ps => ODoc (DList (map snd ps))
                   | None => OFault
                   end)
        end
    | De k d =>
        match k, d with
        | KRodeo, DList l =>
            match de_rodeo l with
            | DOk r => new_slot w (ORodeo r) | DErr => (w, ODeErr) | DPanic => (w, OPanic) end
        | KReader, DList l =>
            match de_rodeo l with
            | DOk r => new_slot w (OReader r) | DErr => (w, ODeErr) | DPanic => (w, OPanic) end
        | KResolver, DList l =>
            match de_resolver l with
            | DOk (strs, a) => new_slot w (OResolver strs a) | DErr => (w, ODeErr) | DPanic => (w, OPanic) end
        | KThreaded, DMap l =>
            match de_threaded l with
            | DOk t => new_slot w (OThreaded t) | DErr => (w, ODeErr) | DPanic => (w, OPanic) end
        | _, _ => (w, ODeErr)                          (* wrong shape: serde's own type error *)
        end
    | EqOp i j =>
        match eq_obj (get_obj w i) (get_obj w j) with
        | Some b => (w, OBool b)
        | None => (w, OUnsupported)
        end
    | FromIter threaded l =>
        if threaded then
          let (t, ok) := t_extend (trodeo_new default_bytes usize_max) l in
          if ok then new_slot w (OThreaded t) else (w, OPanic)
        else
          let (r, ok) := r_extend (rodeo_new default_bytes usize_max) l in
          if ok then new_slot w (ORodeo r) else (w, OPanic)
    | Extend i l =>
        match get_obj w i with
        | ORodeo r => let (r', ok) := r_extend r l in
                      (set_obj w i (ORodeo r'), if ok then OUnit else OPanic)
        | OThreaded t => let (t', ok) := t_extend t l in
                         (set_obj w i (OThreaded t'), if ok then OUnit else OPanic)
        | _ => (w, OUnsupported)
        end
    (* the first bucket of `cap` bytes is allocated at once: a capacity no Layout can describe is a failed
       allocation, on which the (infallible) constructors panic *)
    | NewRodeo cap lim => if isize_max <? cap then (w, OPanic) else new_slot w (ORodeo (rodeo_new cap lim))
    | NewThreaded cap lim => if lf_cap_max <? cap then (w, OPanic) else new_slot w (OThreaded (trodeo_new cap lim))
    end.

  Fixpoint run (w : world) (ops : list op) : world * list out :=
    match ops with
    | [] => (w, [])
    | o :: rest => let (w', x) := step w o in
                   let (w'', xs) := run w' rest in (w'', x :: xs)
    end.

End Model.
