(* Loans.v -- a signature-level model of the borrow discipline of resolved strings (C20).

   Objects (interners, views) and results (a `&str`, an iterator, an iterator item) are numbered.  A program is a
   list of events.  What the borrow checker knows about a call is its SIGNATURE only; the signatures come from
   Facts.v (extracted from the source text on every run):
     Call m o r        r = o.m(..)  for a string-returning entry point m; r carries a loan of o iff the table says
                       that m ties the lifetime of its output to the receiver borrow;
     Mutate m o        o.m(..) for an invalidating operation m (clear, clone_from, into_reader, ..); it ends every
                       loan of o iff the table says that m takes `&mut self`, `self` or `Box<Self>`;
     EndScope o        o is dropped, moved out or goes out of scope: ends every loan of o;
     Use r             r is read;
     Borrow o          a shared reborrow (`let v = &o`): calls through v are calls on o; no effect on loans;
     StoreLocal m o a  o.m(&a) for a static entry point m with a string borrowed from the local a: rejected iff the
                       table says that m demands `&'static str`.
   `accepts` is the linear scan: a `Use r` is rejected when an event ended the loan r carries.  Two-phase borrows,
   reborrow chains and the finer points of NLL are NOT modelled (the probe set of tools/eng_rustc.py avoids them);
   rustc's borrow checker is the oracle that decides the probes, this model explains its verdicts from the signatures. *)
Require Import Coq.Strings.String Coq.Lists.List Coq.Bool.Bool Coq.Arith.PeanoNat.
Require Import Lasso.Facts.
Import ListNotations.
Open Scope string_scope.
Open Scope list_scope.

Inductive event :=
| Borrow (o : nat)
| Call (m : string) (o r : nat)
| Use (r : nat)
| Mutate (m : string) (o : nat)
| EndScope (o : nat)
| StoreLocal (m : string) (o a : nat).
Definition program := list event.

(* ---------------------------------------------------------------- the specification, independent of any table *)
Definition rebinds (r : nat) (e : event) : Prop :=
  match e with Call _ _ r' => r' = r | _ => False end.
Definition no_rebind (r : nat) (q : program) : Prop := Forall (fun e => ~ rebinds r e) q.
Definition invalidates (e : event) (o : nat) : Prop :=
  match e with Mutate _ o' => o' = o | EndScope o' => o' = o | _ => False end.

(* a string obtained from o is used after o was invalidated (and r was not re-assigned in between) *)
Definition dangling (p : program) : Prop :=
  exists p1 m o r p2 e p3 p4,
    p = p1 ++ Call m o r :: p2 ++ e :: p3 ++ Use r :: p4 /\ invalidates e o /\ no_rebind r p2 /\ no_rebind r p3.

(* a string borrowed from a local is handed to a zero-copy static entry point *)
Definition stores_local (p : program) : Prop := exists m o a, In (StoreLocal m o a) p.

(* ---------------------------------------------------------------- the checker *)
Section Checker.
  Variable ties : string -> bool.         (* output lifetime tied to the receiver borrow *)
  Variable excl : string -> bool.         (* receiver is &mut self / self / Box<Self> *)
  Variable req_static : string -> bool.   (* the string parameter is &'static str *)

  Definition drop_res (r : nat) (live : list (nat * nat)) := filter (fun x => negb (Nat.eqb (fst x) r)) live.
  Definition drop_dead (r : nat) (dead : list nat) := filter (fun x => negb (Nat.eqb x r)) dead.
  Definition kill_live (o : nat) (live : list (nat * nat)) := filter (fun x => negb (Nat.eqb (snd x) o)) live.
  Definition kill_dead (o : nat) (live : list (nat * nat)) (dead : list nat) :=
    map fst (filter (fun x => Nat.eqb (snd x) o) live) ++ dead.

  (* live: (r, o) = r carries a loan of o;  dead: results whose loan was ended *)
  Fixpoint run (live : list (nat * nat)) (dead : list nat) (p : program) : bool :=
    match p with
    | [] => true
    | e :: q =>
      match e with
      | Borrow _ => run live dead q
      | Call m o r => run (if ties m then (r, o) :: drop_res r live else drop_res r live) (drop_dead r dead) q
      | Use r => if existsb (Nat.eqb r) dead then false else run live dead q
      | Mutate m o => if excl m then run (kill_live o live) (kill_dead o live dead) q else run live dead q
      | EndScope o => run (kill_live o live) (kill_dead o live dead) q
      | StoreLocal m _ _ => if req_static m then false else run live dead q
      end
    end.

  Definition accepts (p : program) : bool := run [] [] p.

  Lemma existsb_eqb_in : forall r l, In r l -> existsb (Nat.eqb r) l = true.
  Proof.
    intros r l H. apply existsb_exists. exists r. split; [assumption|apply Nat.eqb_refl].
  Qed.

  Lemma kill_dead_keeps : forall r o live dead, In r dead -> In r (kill_dead o live dead).
  Proof. intros. unfold kill_dead. apply in_or_app. right. assumption. Qed.

  Lemma kill_step : forall r o o' live dead,
    In (r, o) live \/ In r dead -> In (r, o) (kill_live o' live) \/ In r (kill_dead o' live dead).
  Proof.
    intros r o o' live dead [H|H].
    - destruct (Nat.eqb o o') eqn:E.
      + right. unfold kill_dead. apply in_or_app. left.
        apply in_map_iff. exists (r, o). split; [reflexivity|].
        apply filter_In. split; [assumption|exact E].
      + left. unfold kill_live. apply filter_In. split; [assumption|]. simpl. rewrite E. reflexivity.
    - right. apply kill_dead_keeps. assumption.
  Qed.

  Lemma kill_same : forall r o live dead,
    In (r, o) live \/ In r dead -> In r (kill_dead o live dead).
  Proof.
    intros r o live dead [H|H].
    - unfold kill_dead. apply in_or_app. left. apply in_map_iff. exists (r, o). split; [reflexivity|].
      apply filter_In. split; [assumption|]. simpl. apply Nat.eqb_refl.
    - apply kill_dead_keeps. assumption.
  Qed.

  (* once dead, a result stays dead until it is re-assigned; its next use is rejected *)
  Lemma dead_stays : forall q1 q2 r live dead,
    In r dead -> no_rebind r q1 -> run live dead (q1 ++ Use r :: q2) = false.
  Proof.
    induction q1 as [|e q1 IH]; intros q2 r live dead Hd Hn.
    - simpl. rewrite (existsb_eqb_in r dead Hd). reflexivity.
    - inversion Hn as [|? ? He Hn']; subst. simpl.
      destruct e as [o|m o r'|r'|m o|o|m o a].
      + apply IH; assumption.
      + apply IH; [|assumption]. unfold drop_dead. apply filter_In. split; [assumption|].
        simpl in He. destruct (Nat.eqb r r') eqn:E; [apply Nat.eqb_eq in E; subst; exfalso; apply He; reflexivity|reflexivity].
      + destruct (existsb (Nat.eqb r') dead); [reflexivity|apply IH; assumption].
      + destruct (excl m); [apply IH; [apply kill_dead_keeps|]; assumption|apply IH; assumption].
      + apply IH; [apply kill_dead_keeps|]; assumption.
      + destruct (req_static m); [reflexivity|apply IH; assumption].
  Qed.

  Definition effective (e : event) : Prop := match e with Mutate m _ => excl m = true | _ => True end.

  (* a result that carries a loan of o (or is already dead) is caught at its first use after o is invalidated *)
  Lemma invalidation_caught : forall r o e q3 q4, invalidates e o -> effective e -> no_rebind r q3 ->
    forall q1 live dead, In (r, o) live \/ In r dead -> no_rebind r q1 ->
    run live dead (q1 ++ e :: q3 ++ Use r :: q4) = false.
  Proof.
    intros r o e q3 q4 Hinv Heff Hn3.
    induction q1 as [|a q1 IH]; intros live dead H Hn.
    - simpl. destruct e as [o0|m0 o0 r0|r0|m0 o0|o0|m0 o0 a0]; simpl in Hinv; try contradiction; subst o0.
      + simpl in Heff. rewrite Heff. apply dead_stays; [apply (kill_same r o); assumption|assumption].
      + apply dead_stays; [apply (kill_same r o); assumption|assumption].
    - inversion Hn as [|? ? Ha Hn']; subst. simpl.
      destruct a as [o'|m' o' r'|r'|m' o'|o'|m' o' a'].
      + apply IH; assumption.
      + apply IH; [|assumption]. simpl in Ha.
        assert (E : Nat.eqb r r' = false).
        { destruct (Nat.eqb r r') eqn:E; [apply Nat.eqb_eq in E; subst; exfalso; apply Ha; reflexivity|reflexivity]. }
        destruct H as [H|H].
        * left. destruct (ties m'); [right|]; unfold drop_res; apply filter_In; (split; [assumption|simpl; rewrite E; reflexivity]).
        * right. unfold drop_dead. apply filter_In. split; [assumption|rewrite E; reflexivity].
      + destruct (existsb (Nat.eqb r') dead); [reflexivity|apply IH; assumption].
      + destruct (excl m'); [apply IH; [apply kill_step|]; assumption|apply IH; assumption].
      + apply IH; [apply kill_step|]; assumption.
      + destruct (req_static m'); [reflexivity|apply IH; assumption].
  Qed.

  Lemma run_prefix : forall p1 q live dead, run live dead (p1 ++ q) = true -> exists live' dead', run live' dead' q = true.
  Proof.
    induction p1 as [|e p1 IH]; intros q live dead H.
    - exists live, dead. exact H.
    - simpl in H. destruct e as [o|m o r|r|m o|o|m o a].
      + eapply IH; eassumption.
      + eapply IH; eassumption.
      + destruct (existsb (Nat.eqb r) dead); [discriminate|eapply IH; eassumption].
      + destruct (excl m); eapply IH; eassumption.
      + eapply IH; eassumption.
      + destruct (req_static m); [discriminate|eapply IH; eassumption].
  Qed.

  (* the checker is sound for programs whose calls are tied and whose invalidating operations are exclusive *)
  Theorem accepts_no_dangling : forall p,
    (forall m o r, In (Call m o r) p -> ties m = true) ->
    (forall m o, In (Mutate m o) p -> excl m = true) ->
    accepts p = true -> ~ dangling p.
  Proof.
    intros p Ht Hx Hacc (p1 & m & o & r & p2 & e & p3 & p4 & Hp & Hinv & Hn2 & Hn3).
    subst p. unfold accepts in Hacc.
    apply run_prefix in Hacc. destruct Hacc as (live & dead & Hrun).
    simpl in Hrun.
    rewrite (Ht m o r) in Hrun by (apply in_or_app; right; left; reflexivity).
    assert (Heff : effective e).
    { destruct e; simpl; trivial. apply (Hx m0 o0).
      apply in_or_app. right. right. apply in_or_app. right. left. reflexivity. }
    rewrite (invalidation_caught r o e p3 p4 Hinv Heff Hn3 p2) in Hrun; [discriminate| |assumption].
    left. left. reflexivity.
  Qed.

  Theorem accepts_no_local_store : forall p,
    (forall m o a, In (StoreLocal m o a) p -> req_static m = true) ->
    accepts p = true -> ~ stores_local p.
  Proof.
    intros p Hs Hacc (m & o & a & Hin).
    apply in_split in Hin. destruct Hin as (p1 & p2 & ->).
    unfold accepts in Hacc. apply run_prefix in Hacc. destruct Hacc as (l & d & Hrun).
    simpl in Hrun. rewrite (Hs m o a) in Hrun by (apply in_or_app; right; left; reflexivity). discriminate.
  Qed.
End Checker.

(* ---------------------------------------------------------------- the tables of Facts.v as a checker *)
Definition assoc {A : Type} (k : string) (l : list (string * A)) : option A :=
  match find (fun e => String.eqb (fst e) k) l with Some e => Some (snd e) | None => None end.

Lemma assoc_in : forall A k (l : list (string * A)) v, assoc k l = Some v -> In (k, v) l.
Proof.
  intros A k l v H. unfold assoc in H. destruct (find _ l) as [[k' v']|] eqn:E; [|discriminate].
  apply find_some in E. destruct E as [Hin Heq]. simpl in *. apply String.eqb_eq in Heq. subst k'.
  inversion H; subst. assumption.
Qed.

Definition outlt_tied (o : outlt) : bool := match o with OutTied => true | _ => false end.
Definition recv_exclusive (r : recv) : bool := match r with RecvMut | RecvOwn | RecvBox => true | _ => false end.

Section Tables.
  Variable sigs : list (string * recv * outlt * option string).
  Variable items : list (string * outlt).
  Variable inval : list (string * recv).
  Variable statics : list (string * bool).

  Definition item_tied (it : string) : bool :=
    match assoc it items with Some o => outlt_tied o | None => false end.

  (* key k: the value returned by the method (a &str, or the iterator itself);
     key k ++ "/item": an item taken from the iterator returned by k *)
  Definition tie_table : list (string * bool) :=
    flat_map (fun e => match e with
                       | (k, _, out, None) => [(k, outlt_tied out)]
                       | (k, _, out, Some it) => [(k, outlt_tied out); ((k ++ "/item")%string, outlt_tied out && item_tied it)]
                       end) sigs.
  Definition excl_table : list (string * bool) := map (fun e => (fst e, recv_exclusive (snd e))) inval.

  Definition lookup (t : list (string * bool)) (k : string) : bool :=
    match assoc k t with Some b => b | None => false end.
  Definition known (t : list (string * bool)) (k : string) : bool :=
    match assoc k t with Some _ => true | None => false end.

  Definition t_ties := lookup tie_table.
  Definition t_excl := lookup excl_table.
  Definition t_static := lookup statics.

  Definition t_accepts (p : program) : bool := accepts t_ties t_excl t_static p.

  (* every method a program mentions is in the tables *)
  Definition known_methods (p : program) : bool :=
    forallb (fun e => match e with
                      | Call m _ _ => known tie_table m
                      | Mutate m _ => known excl_table m
                      | StoreLocal m _ _ => known statics m
                      | _ => true
                      end) p.

  (* the three columns of the table say what the property needs *)
  Definition table_sound : bool :=
    forallb (fun e => snd e) tie_table && forallb (fun e => snd e) excl_table && forallb (fun e => snd e) statics.

  Lemma sound_lookup : forall t k, forallb (fun e : string * bool => snd e) t = true -> known t k = true -> lookup t k = true.
  Proof.
    intros t k Hall Hk. unfold known, lookup in *. destruct (assoc k t) as [b|] eqn:E; [|discriminate].
    apply assoc_in in E. rewrite forallb_forall in Hall. exact (Hall _ E).
  Qed.

  Theorem sound_table_no_dangling : table_sound = true ->
    forall p, known_methods p = true -> t_accepts p = true -> ~ dangling p /\ ~ stores_local p.
  Proof.
    intros Hs p Hk Hacc. unfold table_sound in Hs.
    apply andb_prop in Hs. destruct Hs as [Hs H3]. apply andb_prop in Hs. destruct Hs as [H1 H2].
    unfold known_methods in Hk. rewrite forallb_forall in Hk.
    split.
    - apply (accepts_no_dangling t_ties t_excl t_static); [| |exact Hacc].
      + intros m o r Hin. apply sound_lookup; [assumption|]. exact (Hk _ Hin).
      + intros m o Hin. apply sound_lookup; [assumption|]. exact (Hk _ Hin).
    - apply (accepts_no_local_store t_ties t_excl t_static); [|exact Hacc].
      intros m o a Hin. apply sound_lookup; [assumption|]. exact (Hk _ Hin).
  Qed.

  (* completeness of the extraction: the entry points the property quantifies over are all in the tables *)
  Definition covers (want_ties want_excl want_static : list string) : bool :=
    forallb (known tie_table) want_ties && forallb (known excl_table) want_excl && forallb (known statics) want_static.
End Tables.

(* the entry points C20 quantifies over (hand-written: this is the specification side) *)
Definition expected_string_entry_points : list string :=
  [ "Rodeo::resolve"; "Rodeo::try_resolve"; "Rodeo::resolve_unchecked"; "Rodeo::Index::index";
    "Rodeo::iter"; "Rodeo::iter/item"; "Rodeo::strings"; "Rodeo::strings/item";
    "&Rodeo::IntoIterator::into_iter"; "&Rodeo::IntoIterator::into_iter/item";
    "ThreadedRodeo::resolve"; "ThreadedRodeo::try_resolve"; "ThreadedRodeo::Index::index";
    "ThreadedRodeo::iter"; "ThreadedRodeo::iter/item"; "ThreadedRodeo::strings"; "ThreadedRodeo::strings/item";
    "RodeoReader::resolve"; "RodeoReader::try_resolve"; "RodeoReader::resolve_unchecked"; "RodeoReader::Index::index";
    "RodeoReader::iter"; "RodeoReader::iter/item"; "RodeoReader::strings"; "RodeoReader::strings/item";
    "&RodeoReader::IntoIterator::into_iter"; "&RodeoReader::IntoIterator::into_iter/item";
    "RodeoResolver::resolve"; "RodeoResolver::try_resolve"; "RodeoResolver::resolve_unchecked"; "RodeoResolver::Index::index";
    "RodeoResolver::iter"; "RodeoResolver::iter/item"; "RodeoResolver::strings"; "RodeoResolver::strings/item";
    "&RodeoResolver::IntoIterator::into_iter"; "&RodeoResolver::IntoIterator::into_iter/item";
    "Resolver::resolve"; "Resolver::try_resolve"; "Resolver::resolve_unchecked" ].
Definition expected_invalidating : list string :=
  [ "Rodeo::clear"; "Rodeo::try_clone_from"; "Rodeo::Clone::clone_from"; "Rodeo::into_reader"; "Rodeo::into_resolver";
    "ThreadedRodeo::into_reader"; "ThreadedRodeo::into_resolver"; "RodeoReader::into_resolver";
    "IntoReader::into_reader"; "IntoReader::into_reader_boxed"; "IntoResolver::into_resolver"; "IntoResolver::into_resolver_boxed" ].
Definition expected_static_entries : list string :=
  [ "Rodeo::get_or_intern_static"; "Rodeo::try_get_or_intern_static";
    "ThreadedRodeo::get_or_intern_static"; "ThreadedRodeo::try_get_or_intern_static";
    "Interner::get_or_intern_static"; "Interner::try_get_or_intern_static" ].

(* the instance for the current tree *)
Definition ties := t_ties Facts.string_sigs Facts.iter_items.
Definition excl := t_excl Facts.invalidating.
Definition req_static := t_static Facts.static_entries.
Definition accepts_now (p : program) : bool := t_accepts Facts.string_sigs Facts.iter_items Facts.invalidating Facts.static_entries p.
Definition known_now (p : program) : bool := known_methods Facts.string_sigs Facts.iter_items Facts.invalidating Facts.static_entries p.
Definition table_sound_now : bool := table_sound Facts.string_sigs Facts.iter_items Facts.invalidating Facts.static_entries.
Definition covers_now : bool :=
  covers Facts.string_sigs Facts.iter_items Facts.invalidating Facts.static_entries
         expected_string_entry_points expected_invalidating expected_static_entries.
