(* Sync.v — the data-race clause of C05: a release/acquire VIEW MACHINE with race detection on non-atomic cells,
   and the synchronisation skeleton of the lock-free arena (src/arenas/atomic_bucket.rs, lockfree.rs,
   threaded_rodeo.rs) as labelled steps of that machine, parameterised by the memory orderings of the source sites.

   The machine (promise-free, in the style of the view-based operational semantics of C11 release/acquire):
   * every ATOMIC location has a history of messages; the timestamp of a message is its index in the history;
     a message carries a value, a payload (ghost: the references handed over, only used by lock locations) and a VIEW;
   * every thread has a view: a vector clock [vc] (one component per thread: happens-before) and a coherence map [co]
     (per atomic location, the timestamp of the latest message it has observed); both components travel in messages;
   * a load reads ANY message whose timestamp is >= the thread's coherence view of the location (stale reads are
     allowed); if it is (at least) Acquire it joins the message view into the thread view;
   * a read-modify-write reads the LATEST message (atomicity) and appends its message; the message view is the
     writer's view if the RMW is (at least) Release, joined with the view of the message read (release sequence:
     an RMW continues the release sequence of the message it read, whatever its own ordering);
   * a store appends a message (stores are placed last in modification order: this is fully general for locations
     that are only modified by RMWs after initialisation -- [Head] and [Len b] -- and a simplification for the
     [Lk]/[Misc] locations, on which no proof below depends: all statements quantify over ANY message read there);
   * Relaxed accesses transfer no view but respect coherence;  SeqCst is treated as AcqRel (the extra total order of
     SeqCst only removes behaviours, so this is an over-approximation);
   * every NON-ATOMIC access gets an epoch (tid, clock) (FastTrack style); each cell remembers the epochs of all writes
     and of all reads; a write RACES iff some earlier write or read epoch is not included in the writer's view, a read
     races iff some earlier write epoch is not (ww, rw, wr).  Keeping all epochs instead of the last write and the
     reads since is equivalent up to the first race and flags at least as much.  An atomic access to a location that is
     INITIALISED NON-ATOMICALLY ([next], [len]) is checked as a read of that initialisation (mixed accesses race).
   * locks are release/acquire locations [Lk l]: unlocking is a release store whose payload is the set of references
     made available, locking is an acquire load of ANY earlier unlock.  This over-approximates Mutex and RwLock
     (mutual exclusion is dropped: more executions), which is sound for a no-race theorem. *)
From Coq Require Import List Arith Bool Lia PeanoNat.
Import ListNotations.
Set Implicit Arguments.

Inductive ordering := Relaxed | Acquire | Release | AcqRel | SeqCst.
Definition is_acq (o : ordering) : bool := match o with Acquire | AcqRel | SeqCst => true | _ => false end.
Definition is_rel (o : ordering) : bool := match o with Release | AcqRel | SeqCst => true | _ => false end.

(* the atomic sites of the source *)
Inductive site :=
| PushHeadLoad | PushCasOk | PushCasFail          (* AtomicBucketList::push_front *)
| IterLoad                                        (* AtomicBucketIter::next: loads head, then every bucket's next *)
| LenLoad | LenCasOk | LenCasFail                 (* BucketRef::try_inc_length *)
| AllocUpdOk | AllocUpdFail | LimitLoad           (* LockfreeArena::allocate_memory *)
| CurUsageLoad | SetMaxStore | GetMaxLoad | SetCapStore | CapLoad   (* the Relaxed counters *)
| KeyFetchAdd.                                    (* ThreadedRodeo: key counter *)

Inductive aloc := Head | Len (b : nat) | Lk (l : nat) | Misc (m : nat).
Inductive cell := Cap (b : nat) | Next (b : nat) | LenI (b : nat) | Data (b k : nat).
Definition aloc_dec : forall x y : aloc, {x = y} + {x <> y}. Proof. decide equality; apply Nat.eq_dec. Defined.
Definition cell_dec : forall x y : cell, {x = y} + {x <> y}. Proof. decide equality; apply Nat.eq_dec. Defined.

Definition upd {A B} (dec : forall x y : A, {x = y} + {x <> y}) (f : A -> B) (k : A) (v : B) : A -> B :=
  fun x => if dec x k then v else f x.

Record view := { vc : nat -> nat; co : aloc -> nat }.
Definition vbot : view := {| vc := fun _ => 0; co := fun _ => 0 |}.
Definition vjoin (v w : view) : view :=
  {| vc := fun t => Nat.max (vc v t) (vc w t); co := fun l => Nat.max (co v l) (co w l) |}.
Definition setco (v : view) (l : aloc) (i : nat) : view :=
  {| vc := vc v; co := upd aloc_dec (co v) l (Nat.max (co v l) i) |}.
Definition tick (v : view) (t : nat) : view := {| vc := upd Nat.eq_dec (vc v) t (S (vc v t)); co := co v |}.

Definition range := (nat * nat)%type.      (* (bucket, timestamp of the [len] message that reserved it) *)
Record msg := { mval : nat; mpay : list range; mview : view }.

Definition epoch := (nat * nat)%type.      (* (tid, clock) *)
Definition ele (v : view) (e : epoch) : bool := snd e <=? vc v (fst e).
Record nacell := { nval : nat; wrs : list epoch; rds : list epoch }.
Definition cell0 : nacell := {| nval := 0; wrs := []; rds := [] |}.

(* push_front's local state: bucket in hand, expected head value, whether [next] was written since the last load *)
Inductive pstate := PNone | PLoad (b : nat) | PLoop (b exp : nat) (written : bool) | PLate (b exp : nat).

Record tstate := { tv : view; cur : option nat; pst : pstate; tw : option range; have : list range }.
Definition tstate0 : tstate := {| tv := vbot; cur := None; pst := PNone; tw := None; have := [] |}.

Record state := { hist : aloc -> list msg; na : cell -> nacell; thr : nat -> tstate; nb : nat; raced : bool }.

(* ---------- primitives ---------- *)
Definition range_dec : forall x y : range, {x = y} + {x <> y}. Proof. decide equality; apply Nat.eq_dec. Defined.
Definition with_tv (ts : tstate) (v : view) : tstate :=
  {| tv := v; cur := cur ts; pst := pst ts; tw := tw ts; have := have ts |}.
Definition set_thr (s : state) (t : nat) (ts : tstate) : state :=
  {| hist := hist s; na := na s; thr := upd Nat.eq_dec (thr s) t ts; nb := nb s; raced := raced s |}.

(* non-atomic write of [x] to cell [c] by thread [t]; races with every write/read epoch not in t's view *)
Definition na_write (s : state) (t : nat) (c : cell) (x : nat) : state :=
  let ts := thr s t in let v := tv ts in let cl := na s c in
  let bad := negb (forallb (ele v) (wrs cl) && forallb (ele v) (rds cl)) in
  {| hist := hist s;
     na := upd cell_dec (na s) c {| nval := x; wrs := (t, S (vc v t)) :: wrs cl; rds := rds cl |};
     thr := upd Nat.eq_dec (thr s) t (with_tv ts (tick v t));
     nb := nb s; raced := raced s || bad |}.
(* read of cell [c] by thread [t] (non-atomic, or atomic on a non-atomically initialised location);
   races with every write epoch not in t's view.  The value is [nval (na s c)], taken by the caller. *)
Definition na_read (s : state) (t : nat) (c : cell) : state :=
  let ts := thr s t in let v := tv ts in let cl := na s c in
  let bad := negb (forallb (ele v) (wrs cl)) in
  {| hist := hist s;
     na := upd cell_dec (na s) c {| nval := nval cl; wrs := wrs cl; rds := (t, S (vc v t)) :: rds cl |};
     thr := upd Nat.eq_dec (thr s) t (with_tv ts (tick v t));
     nb := nb s; raced := raced s || bad |}.

(* atomic load of message [i] of [l] with ordering [o] *)
Definition a_load (s : state) (t : nat) (l : aloc) (i : nat) (o : ordering) : option (state * msg) :=
  match nth_error (hist s l) i with
  | Some m =>
      let v := tv (thr s t) in
      if co v l <=? i then
        Some (set_thr s t (with_tv (thr s t) (setco (if is_acq o then vjoin v (mview m) else v) l i)), m)
      else None
  | None => None
  end.
(* atomic RMW on [l] with ordering [o] writing value [x], payload [pay]: reads the latest message; returns it and
   the timestamp of the new message *)
Definition a_rmw (s : state) (t : nat) (l : aloc) (o : ordering) (x : nat) (pay : list range)
  : option (state * msg * nat) :=
  let h := hist s l in
  match nth_error h (pred (length h)) with
  | Some m =>
      let n := length h in
      let v := tv (thr s t) in
      let v1 := setco (if is_acq o then vjoin v (mview m) else v) l n in
      let mv := vjoin (if is_rel o then v1 else setco vbot l n) (mview m) in
      Some ({| hist := upd aloc_dec (hist s) l (h ++ [{| mval := x; mpay := pay; mview := mv |}]);
               na := na s; thr := upd Nat.eq_dec (thr s) t (with_tv (thr s t) v1);
               nb := nb s; raced := raced s |}, m, n)
  | None => None
  end.
(* atomic store (appended) *)
Definition a_store (s : state) (t : nat) (l : aloc) (o : ordering) (x : nat) (pay : list range) : state :=
  let h := hist s l in let n := length h in
  let v1 := setco (tv (thr s t)) l n in
  let mv := if is_rel o then v1 else setco vbot l n in
  {| hist := upd aloc_dec (hist s) l (h ++ [{| mval := x; mpay := pay; mview := mv |}]);
     na := na s; thr := upd Nat.eq_dec (thr s) t (with_tv (thr s t) v1); nb := nb s; raced := raced s |}.

Definition set_cur (s : state) (t : nat) (c : option nat) : state :=
  let ts := thr s t in set_thr s t {| tv := tv ts; cur := c; pst := pst ts; tw := tw ts; have := have ts |}.
Definition set_pst (s : state) (t : nat) (p : pstate) : state :=
  let ts := thr s t in set_thr s t {| tv := tv ts; cur := cur ts; pst := p; tw := tw ts; have := have ts |}.
Definition set_tw (s : state) (t : nat) (r : option range) : state :=
  let ts := thr s t in set_thr s t {| tv := tv ts; cur := cur ts; pst := pst ts; tw := r; have := have ts |}.
Definition set_have (s : state) (t : nat) (h : list range) : state :=
  let ts := thr s t in set_thr s t {| tv := tv ts; cur := cur ts; pst := pst ts; tw := tw ts; have := h |}.

Definition ptr_of (x : nat) : option nat := match x with 0 => None | S b => Some b end.

(* ---------- the skeleton ---------- *)
Record cfg := { ord : site -> ordering; next_first : bool (* push_front writes [next] BEFORE the head CAS *) }.
Inductive mkind := MLoad | MStore | MRmw.

Inductive label :=
| LAlloc (t : nat)                      (* with_capacity + push_slice + set_len on a fresh bucket: all non-atomic *)
| LPushLoad (t i : nat)                 (* push_front: head.load, reading message i *)
| LPushWrite (t : nat)                  (* push_front: non-atomic write of the bucket's next *)
| LPushCas (t : nat) (ok : bool) (i : nat)   (* push_front: compare_exchange_weak; a failure reads message i *)
| LWalkStart (t i : nat)                (* iterator: head.load reading message i *)
| LVisit (t : nat)                      (* non-atomic read of the current bucket's capacity *)
| LWalkNext (t : nat)                   (* iterator: next.load of the current bucket *)
| LLenLoad (t i : nat)                  (* try_inc_length: len.load reading message i *)
| LLenCas (t : nat) (ok : bool) (i : nat)    (* try_inc_length: compare_exchange_weak *)
| LCopy (t : nat)                       (* non-atomic write of the reserved data range *)
| LPublish (t l : nat) (rs : list range)     (* unlock of lock l, making the references rs available *)
| LConsume (t l i : nat)                (* lock of lock l (acquire of unlock message i), obtaining its references *)
| LReadData (t : nat) (r : range)       (* non-atomic read of a data range the thread holds a reference to *)
| LMisc (t m : nat) (k : mkind) (o : ordering) (i x : nat).  (* any atomic access to a counter, ANY ordering *)

Definition msg0 (x : nat) : msg := {| mval := x; mpay := []; mview := vbot |}.
(* bookkeeping of the allocation: the fresh bucket [nb s] now belongs to thread t (no memory access) *)
Definition claim (s : state) (t : nat) : state :=
  let b := nb s in let ts := thr s t in
  {| hist := upd aloc_dec (hist s) (Len b) [msg0 0]; na := na s;
     thr := upd Nat.eq_dec (thr s) t {| tv := tv ts; cur := cur ts; pst := PLoad b; tw := tw ts; have := have ts |};
     nb := S b; raced := raced s |}.
Definition alloc (s : state) (t : nat) : state :=
  let b := nb s in
  let s1 := na_write (claim s t) t (Next b) 0 in      (* with_capacity: next, len, capacity *)
  let s2 := na_write s1 t (LenI b) 0 in
  let s3 := na_write s2 t (Cap b) 0 in
  let s4 := na_write s3 t (Data b 0) 0 in             (* push_slice: the bytes, then set_len *)
  let s5 := na_write s4 t (LenI b) 0 in
  set_have s5 t ((b, 0) :: have (thr s5 t)).

Definition step (c : cfg) (s : state) (lb : label) : option state :=
  match lb with
  | LAlloc t => match pst (thr s t) with PNone => Some (alloc s t) | _ => None end
  | LPushLoad t i =>
      match pst (thr s t) with
      | PLoad b => match a_load s t Head i (ord c PushHeadLoad) with
                   | Some (s1, m) => Some (set_pst s1 t (PLoop b (mval m) false)) | None => None end
      | _ => None end
  | LPushWrite t =>
      match pst (thr s t) with
      | PLoop b e _ => Some (set_pst (na_write s t (Next b) e) t (PLoop b e true))
      | PLate b e => Some (set_pst (na_write s t (Next b) e) t PNone)
      | _ => None end
  | LPushCas t ok i =>
      match pst (thr s t) with
      | PLoop b e w =>
          if ok then
            if w || negb (next_first c) then
              match a_rmw s t Head (ord c PushCasOk) (S b) [] with
              | Some (s1, m, _) =>
                  if mval m =? e then Some (set_pst s1 t (if w then PNone else PLate b e)) else None
              | None => None end
            else None
          else match a_load s t Head i (ord c PushCasFail) with
               | Some (s1, m) => Some (set_pst s1 t (PLoop b (mval m) false)) | None => None end
      | _ => None end
  | LWalkStart t i =>
      match a_load s t Head i (ord c IterLoad) with
      | Some (s1, m) => Some (set_cur s1 t (ptr_of (mval m))) | None => None end
  | LVisit t => match cur (thr s t) with Some b => Some (na_read s t (Cap b)) | None => None end
  | LWalkNext t =>
      match cur (thr s t) with
      | Some b => Some (set_cur (na_read s t (Next b)) t (ptr_of (nval (na s (Next b))))) | None => None end
  | LLenLoad t i =>
      match cur (thr s t) with
      | Some b => match a_load (na_read s t (LenI b)) t (Len b) i (ord c LenLoad) with
                  | Some (s1, _) => Some s1 | None => None end
      | None => None end
  | LLenCas t ok i =>
      match cur (thr s t) with
      | Some b =>
          if ok then
            match tw (thr s t) with
            | None => match a_rmw (na_read s t (LenI b)) t (Len b) (ord c LenCasOk) 0 [] with
                      | Some (s1, _, n) => Some (set_tw s1 t (Some (b, n))) | None => None end
            | Some _ => None end
          else match a_load (na_read s t (LenI b)) t (Len b) i (ord c LenCasFail) with
               | Some (s1, _) => Some s1 | None => None end
      | None => None end
  | LCopy t =>
      match tw (thr s t) with
      | Some (b, k) => Some (set_have (na_write (set_tw s t None) t (Data b k) 0) t ((b, k) :: have (thr s t)))
      | None => None end
  | LPublish t l rs =>
      if forallb (fun r => if in_dec range_dec r (have (thr s t)) then true else false) rs
      then Some (a_store s t (Lk l) Release 0 rs) else None
  | LConsume t l i =>
      match a_load s t (Lk l) i Acquire with
      | Some (s1, m) => Some (set_have s1 t (mpay m ++ have (thr s t))) | None => None end
  | LReadData t r =>
      if in_dec range_dec r (have (thr s t)) then Some (na_read s t (Data (fst r) (snd r))) else None
  | LMisc t m k o i x =>
      match k with
      | MLoad => match a_load s t (Misc m) i o with Some (s1, _) => Some s1 | None => None end
      | MStore => Some (a_store s t (Misc m) o x [])
      | MRmw => match a_rmw s t (Misc m) o x [] with Some (s1, _, _) => Some s1 | None => None end
      end
  end.

(* initial state: the constructor has made bucket 0 and the list head before the arena is shared (its
   initialisation happens-before everything: no epochs recorded); misc counters have an initial message *)
Definition init : state :=
  {| hist := fun l => match l with Head => [msg0 1] | Len 0 => [msg0 0] | Len _ => [] | Lk _ => [msg0 0]
                                 | Misc _ => [msg0 0] end;
     na := fun _ => cell0; thr := fun _ => tstate0; nb := 1; raced := false |}.

Fixpoint run (c : cfg) (s : state) (ls : list label) : option state :=
  match ls with [] => Some s | l :: ls' => match step c s l with Some s' => run c s' ls' | None => None end end.

(* ---------- views, coverage ---------- *)
Definition vle (v w : view) : Prop := forall t, vc v t <= vc w t.
Definition covers (v : view) (es : list epoch) : Prop := forall e, In e es -> snd e <= vc v (fst e).

Lemma vle_refl v : vle v v. Proof. intro; lia. Qed.
Lemma vle_trans u v w : vle u v -> vle v w -> vle u w.
Proof. intros H1 H2 t. specialize (H1 t). specialize (H2 t). lia. Qed.
Lemma vle_join_l v w : vle v (vjoin v w). Proof. intro t. cbn. lia. Qed.
Lemma vle_join_r v w : vle w (vjoin v w). Proof. intro t. cbn. lia. Qed.
Lemma vle_join_lub u v w : vle u w -> vle v w -> vle (vjoin u v) w.
Proof. intros H1 H2 t. specialize (H1 t). specialize (H2 t). cbn. lia. Qed.
Lemma vle_setco v l i : vle v (setco v l i). Proof. intro t. cbn. lia. Qed.
Lemma vle_setco_inv u v l i : vle u v -> vle u (setco v l i). Proof. intros H t. apply H. Qed.
Lemma vle_tick v t : vle v (tick v t).
Proof. intro t'. cbn. unfold upd. destruct (Nat.eq_dec t' t); subst; lia. Qed.
Lemma covers_mono u v es : vle u v -> covers u es -> covers v es.
Proof. intros H C e I. specialize (C e I). specialize (H (fst e)). lia. Qed.
Lemma covers_nil v : covers v []. Proof. intros e []. Qed.
Lemma covers_forallb v es : covers v es -> forallb (ele v) es = true.
Proof. intro C. apply forallb_forall. intros e I. unfold ele. apply Nat.leb_le. auto. Qed.
Lemma vle_ifacq (b : bool) v w : vle v (if b then vjoin v w else v).
Proof. destruct b; [apply vle_join_l | apply vle_refl]. Qed.

(* ---------- the invariant ---------- *)
Definition powner (p : pstate) : option nat :=
  match p with PNone => None | PLoad b => Some b | PLoop b _ _ => Some b | PLate b _ => Some b end.
Definition prevval (h : list msg) (i : nat) : nat :=
  match i with 0 => 0 | S j => match nth_error h j with Some m => mval m | None => 0 end end.
Definition bcov (s : state) (b : nat) (v : view) : Prop :=
  covers v (wrs (na s (Cap b))) /\ covers v (wrs (na s (Next b))) /\ covers v (wrs (na s (LenI b))).

Record Inv (s : state) : Prop := {
  i_clock : forall c e, In e (wrs (na s c)) \/ In e (rds (na s c)) -> snd e <= vc (tv (thr s (fst e))) (fst e);
  (* publication protocol: head / next / capacity / len initialisation *)
  i_head : forall i m b, nth_error (hist s Head) i = Some m -> mval m = S b ->
      b < nb s /\ bcov s b (mview m) /\ nval (na s (Next b)) = prevval (hist s Head) i /\
      (forall t, powner (pst (thr s t)) <> Some b);
  i_chain : forall i m m', nth_error (hist s Head) i = Some m -> nth_error (hist s Head) (S i) = Some m' ->
      vle (mview m) (mview m');
  i_cur : forall t b, cur (thr s t) = Some b ->
      exists i m, nth_error (hist s Head) i = Some m /\ mval m = S b /\ vle (mview m) (tv (thr s t));
  i_own : forall t b, powner (pst (thr s t)) = Some b ->
      b < nb s /\
      (forall e, In e (wrs (na s (Cap b))) \/ In e (wrs (na s (Next b))) \/ In e (wrs (na s (LenI b))) -> fst e = t) /\
      rds (na s (Cap b)) = [] /\ rds (na s (Next b)) = [] /\ rds (na s (LenI b)) = [] /\
      (forall t', powner (pst (thr s t')) = Some b -> t' = t);
  i_written : forall t b e, pst (thr s t) = PLoop b e true -> nval (na s (Next b)) = e;
  i_nolate : forall t b e, pst (thr s t) <> PLate b e;
  i_fresh : forall b, nb s <= b ->
      na s (Cap b) = cell0 /\ na s (Next b) = cell0 /\ na s (LenI b) = cell0 /\ hist s (Len b) = [];
  (* data ranges: reserved by an RMW on len (unique timestamp), written once, handed over through locks *)
  i_dfresh : forall b k, wrs (na s (Data b k)) <> [] \/ rds (na s (Data b k)) <> [] -> k < length (hist s (Len b));
  i_tw : forall t b k, tw (thr s t) = Some (b, k) ->
      wrs (na s (Data b k)) = [] /\ rds (na s (Data b k)) = [] /\ k < length (hist s (Len b)) /\
      (forall t', tw (thr s t') = Some (b, k) -> t' = t);
  i_have : forall t b k, In (b, k) (have (thr s t)) ->
      wrs (na s (Data b k)) <> [] /\ covers (tv (thr s t)) (wrs (na s (Data b k)));
  i_lock : forall l i m b k, nth_error (hist s (Lk l)) i = Some m -> In (b, k) (mpay m) ->
      wrs (na s (Data b k)) <> [] /\ covers (mview m) (wrs (na s (Data b k)));
  i_rd : forall b k, rds (na s (Data b k)) <> [] -> wrs (na s (Data b k)) <> [];
  i_norace : raced s = false }.
Lemma nth_error_single A (x m : A) i : nth_error [x] i = Some m -> i = 0 /\ m = x.
Proof. destruct i; cbn; [intro H; inversion H; auto | destruct i; discriminate]. Qed.

Lemma Inv_init : Inv init.
Proof.
  constructor; cbn; intros.
  - destruct H as [[]|[]].
  - apply nth_error_single in H as [-> ->]. cbn in H0. inversion H0; subst b.
    repeat split; try lia; try apply covers_nil. intros t. cbn. discriminate.
  - apply nth_error_single in H as [-> ->]. cbn in H0. discriminate.
  - discriminate.
  - discriminate.
  - discriminate.
  - discriminate.
  - destruct b; [lia|]. auto.
  - destruct H as [H|H]; congruence.
  - discriminate.
  - destruct H.
  - apply nth_error_single in H as [-> ->]. destruct H0.
  - congruence.
  - reflexivity.
Qed.

(* a state that differs only by larger thread views *)
Lemma Inv_grow s s' :
  hist s' = hist s -> na s' = na s -> nb s' = nb s -> raced s' = raced s ->
  (forall t, vle (tv (thr s t)) (tv (thr s' t)) /\ cur (thr s' t) = cur (thr s t) /\ pst (thr s' t) = pst (thr s t) /\
             tw (thr s' t) = tw (thr s t) /\ have (thr s' t) = have (thr s t)) ->
  Inv s -> Inv s'.
Proof.
  intros Hh Hn Hb Hr Ht I.
  assert (Tv : forall t, vle (tv (thr s t)) (tv (thr s' t))) by (intro t; apply Ht).
  assert (Tc : forall t, cur (thr s' t) = cur (thr s t)) by (intro t; apply Ht).
  assert (Tp : forall t, pst (thr s' t) = pst (thr s t)) by (intro t; apply Ht).
  assert (Tw : forall t, tw (thr s' t) = tw (thr s t)) by (intro t; apply Ht).
  assert (Th : forall t, have (thr s' t) = have (thr s t)) by (intro t; apply Ht).
  destruct I as [i_clock0 i_head0 i_chain0 i_cur0 i_own0 i_written0 i_nolate0 i_fresh0 i_dfresh0 i_tw0 i_have0 i_lock0 i_rd0 i_norace0]. unfold bcov in *.
  constructor; unfold bcov; try rewrite Hh; try rewrite Hn; try rewrite Hb; try rewrite Hr; auto.
  - intros c e H. specialize (i_clock0 c e H). specialize (Tv (fst e) (fst e)). lia.
  - intros i m b H1 H2. destruct (i_head0 i m b H1 H2) as (A & B & C & D). repeat split; auto; try apply B.
    intro t. rewrite Tp. auto.
  - intros t b H. rewrite Tc in H. destruct (i_cur0 t b H) as (i & m & A & B & C).
    exists i, m. split; [auto|split; [auto|]]. eapply vle_trans; [exact C | apply Tv].
  - intros t b H. rewrite Tp in H. destruct (i_own0 t b H) as (A & B & C & D & E & F).
    refine (conj A (conj B (conj C (conj D (conj E _))))). intros t'. rewrite Tp. auto.
  - intros t b e. rewrite Tp. apply i_written0.
  - intros t b e. rewrite Tp. apply i_nolate0.
  - intros t b k. rewrite Tw. intro H. destruct (i_tw0 t b k H) as (A & B & C & D). refine (conj A (conj B (conj C _))).
    intros t'. rewrite Tw. auto.
  - intros t b k. rewrite Th. intro H. destruct (i_have0 t b k H) as (A & B). split; auto.
    eapply covers_mono; [apply Tv | exact B].
Qed.

Definition grows (s s' : state) : Prop :=
  hist s' = hist s /\ na s' = na s /\ nb s' = nb s /\ raced s' = raced s /\
  (forall t, vle (tv (thr s t)) (tv (thr s' t)) /\ cur (thr s' t) = cur (thr s t) /\ pst (thr s' t) = pst (thr s t) /\
             tw (thr s' t) = tw (thr s t) /\ have (thr s' t) = have (thr s t)).
Lemma grows_Inv s s' : grows s s' -> Inv s -> Inv s'.
Proof. intros (A & B & C & D & E). apply Inv_grow; auto. Qed.

Lemma grows_set_tv s t v : vle (tv (thr s t)) v -> grows s (set_thr s t (with_tv (thr s t) v)).
Proof.
  intro H. unfold grows; cbn. repeat (split; [reflexivity|]). intro t'. unfold upd.
  destruct (Nat.eq_dec t' t); subst; cbn; repeat split; auto; apply vle_refl.
Qed.

Lemma a_load_spec s t l i o s1 m :
  a_load s t l i o = Some (s1, m) ->
  grows s s1 /\ nth_error (hist s l) i = Some m /\ (is_acq o = true -> vle (mview m) (tv (thr s1 t))).
Proof.
  unfold a_load. destruct (nth_error (hist s l) i) as [m'|] eqn:E; [|discriminate].
  destruct (co (tv (thr s t)) l <=? i); [|discriminate]. intro H; inversion H; subst; clear H.
  split; [|split; [reflexivity|]].
  - apply grows_set_tv. apply vle_setco_inv. apply vle_ifacq.
  - intro A. rewrite A. cbn. unfold upd. destruct (Nat.eq_dec t t); [|congruence]. cbn.
    intro t'. cbn. lia.
Qed.
Lemma upd_eq A B dec (f : A -> B) k v : upd dec f k v k = v.
Proof. unfold upd. destruct (dec k k); congruence. Qed.
Lemma upd_neq A B dec (f : A -> B) k v x : x <> k -> upd dec f k v x = f x.
Proof. unfold upd. destruct (dec x k); congruence. Qed.

Definition tsame (s s' : state) : Prop :=
  forall t, vle (tv (thr s t)) (tv (thr s' t)) /\ cur (thr s' t) = cur (thr s t) /\ pst (thr s' t) = pst (thr s t) /\
            tw (thr s' t) = tw (thr s t) /\ have (thr s' t) = have (thr s t).

Lemma na_read_frame s t c :
  let s' := na_read s t c in
  hist s' = hist s /\ nb s' = nb s /\ tsame s s' /\
  (forall c', nval (na s' c') = nval (na s c') /\ wrs (na s' c') = wrs (na s c') /\ (c' <> c -> na s' c' = na s c')) /\
  rds (na s' c) = (t, S (vc (tv (thr s t)) t)) :: rds (na s c) /\
  vc (tv (thr s' t)) t = S (vc (tv (thr s t)) t).
Proof.
  unfold na_read; cbn. split; [reflexivity|]. split; [reflexivity|]. split; [|split; [|split]].
  - intro t'. cbn. destruct (Nat.eq_dec t' t) as [->|N].
    + rewrite !upd_eq. cbn. split; [apply vle_tick | repeat split].
    + rewrite !upd_neq by auto. split; [apply vle_refl | repeat split].
  - intro c'. destruct (cell_dec c' c) as [->|N].
    + rewrite !upd_eq. cbn. repeat split. congruence.
    + rewrite !upd_neq by auto. repeat split.
  - rewrite upd_eq. reflexivity.
  - rewrite upd_eq. cbn. rewrite upd_eq. reflexivity.
Qed.

Definition bucket_of (c : cell) : option nat :=
  match c with Cap b | Next b | LenI b => Some b | Data _ _ => None end.

Lemma na_read_Inv s t c :
  Inv s -> covers (tv (thr s t)) (wrs (na s c)) ->
  (forall b, bucket_of c = Some b -> b < nb s /\ forall t', powner (pst (thr s t')) <> Some b) ->
  (bucket_of c = None -> wrs (na s c) <> []) ->
  Inv (na_read s t c).
Proof.
  intros I Cv Hb Hd.
  destruct (na_read_frame s t c) as (Fh & Fb & Ft & Fc & Fr & Fv).
  remember (na_read s t c) as s' eqn:Es.
  assert (Tv : forall t, vle (tv (thr s t)) (tv (thr s' t))) by (intro t0; apply Ft).
  assert (Tc : forall t, cur (thr s' t) = cur (thr s t)) by (intro t0; apply Ft).
  assert (Tp : forall t, pst (thr s' t) = pst (thr s t)) by (intro t0; apply Ft).
  assert (Tw : forall t, tw (thr s' t) = tw (thr s t)) by (intro t0; apply Ft).
  assert (Th : forall t, have (thr s' t) = have (thr s t)) by (intro t0; apply Ft).
  assert (Fw : forall c', wrs (na s' c') = wrs (na s c')) by (intro c'; apply Fc).
  assert (Fn : forall c', nval (na s' c') = nval (na s c')) by (intro c'; apply Fc).
  assert (Fo : forall c', c' <> c -> na s' c' = na s c') by (intro c'; apply Fc).
  destruct I as [i_clock0 i_head0 i_chain0 i_cur0 i_own0 i_written0 i_nolate0 i_fresh0 i_dfresh0 i_tw0 i_have0 i_lock0 i_rd0 i_norace0].
  constructor; unfold bcov in *; try rewrite Fh; try rewrite Fb.
  - intros c' e H. rewrite Fw in H.
    assert (G : snd e <= vc (tv (thr s (fst e))) (fst e) -> snd e <= vc (tv (thr s' (fst e))) (fst e)).
    { intro G. specialize (Tv (fst e) (fst e)). lia. }
    destruct H as [H|H]; [apply G; eauto|].
    destruct (cell_dec c' c) as [->|N].
    + rewrite Fr in H. destruct H as [<-|H]; [cbn; rewrite Fv; lia | apply G; eauto].
    + rewrite (Fo c' N) in H. apply G; eauto.
  - intros i m b H1 H2. destruct (i_head0 i m b H1 H2) as (A & B & C & D). rewrite !Fw, Fn.
    refine (conj A (conj B (conj C _))). intro t0. rewrite Tp. auto.
  - exact i_chain0.
  - intros t0 b H. rewrite Tc in H. destruct (i_cur0 t0 b H) as (i & m & A & B & C).
    exists i, m. split; [auto|split; [auto|]]. eapply vle_trans; [exact C | apply Tv].
  - intros t0 b H. rewrite Tp in H. destruct (i_own0 t0 b H) as (A & B & C & D & E & F). rewrite !Fw.
    assert (N : forall c', bucket_of c' = Some b -> c' <> c).
    { intros c' Q ->. destruct (Hb b Q) as [_ X]. apply (X t0 H). }
    rewrite (Fo (Cap b)), (Fo (Next b)), (Fo (LenI b)) by (apply N; reflexivity).
    refine (conj A (conj B (conj C (conj D (conj E _))))). intros t'. rewrite Tp. auto.
  - intros t0 b e. rewrite Tp, Fn. apply i_written0.
  - intros t0 b e. rewrite Tp. apply i_nolate0.
  - intros b H. destruct (i_fresh0 b H) as (A & B & C & D).
    assert (N : forall c', bucket_of c' = Some b -> c' <> c).
    { intros c' Q ->. destruct (Hb b Q) as [X _]. lia. }
    rewrite (Fo (Cap b)), (Fo (Next b)), (Fo (LenI b)) by (apply N; reflexivity). auto.
  - intros b k H. destruct (cell_dec (Data b k) c) as [E|N].
    + apply i_dfresh0. left. rewrite E. apply Hd. rewrite <- E. reflexivity.
    + rewrite (Fo _ N) in H. auto.
  - intros t0 b k. rewrite Tw. intro H. destruct (i_tw0 t0 b k H) as (A & B & C & D). rewrite Fw.
    destruct (cell_dec (Data b k) c) as [E|N].
    + exfalso. apply Hd; [rewrite <- E; reflexivity | rewrite <- E; exact A].
    + rewrite (Fo _ N). refine (conj A (conj B (conj C _))). intros t'. rewrite Tw. auto.
  - intros t0 b k. rewrite Th, Fw. intro H. destruct (i_have0 t0 b k H) as (A & B). split; auto.
    eapply covers_mono; [apply Tv | exact B].
  - intros l i m b k. rewrite Fw. apply i_lock0.
  - intros b k. rewrite Fw. destruct (cell_dec (Data b k) c) as [E|N].
    + intros _. rewrite E. apply Hd. rewrite <- E. reflexivity.
    + rewrite (Fo _ N). apply i_rd0.
  - subst s'. cbn. rewrite i_norace0. cbn. rewrite covers_forallb; auto.
Qed.
Lemma na_write_frame s t c x :
  let s' := na_write s t c x in
  hist s' = hist s /\ nb s' = nb s /\ tsame s s' /\
  (forall c', c' <> c -> na s' c' = na s c') /\
  (forall c', rds (na s' c') = rds (na s c')) /\
  na s' c = {| nval := x; wrs := (t, S (vc (tv (thr s t)) t)) :: wrs (na s c); rds := rds (na s c) |} /\
  vc (tv (thr s' t)) t = S (vc (tv (thr s t)) t).
Proof.
  unfold na_write; cbn. split; [reflexivity|]. split; [reflexivity|]. split; [|split; [|split; [|split]]].
  - intro t'. cbn. destruct (Nat.eq_dec t' t) as [->|N].
    + rewrite !upd_eq. cbn. split; [apply vle_tick | repeat split].
    + rewrite !upd_neq by auto. split; [apply vle_refl | repeat split].
  - intros c' N. rewrite upd_neq by auto. reflexivity.
  - intro c'. destruct (cell_dec c' c) as [->|N]; [rewrite upd_eq; reflexivity | rewrite upd_neq by auto; reflexivity].
  - rewrite upd_eq. reflexivity.
  - rewrite upd_eq. cbn. rewrite upd_eq. reflexivity.
Qed.

Lemma na_write_Inv s t c x :
  Inv s ->
  (forall b, bucket_of c = Some b ->
     powner (pst (thr s t)) = Some b /\ (c = Next b -> forall e, pst (thr s t) = PLoop b e true -> x = e)) ->
  (forall b k, c = Data b k ->
     wrs (na s c) = [] /\ rds (na s c) = [] /\ k < length (hist s (Len b)) /\ forall t', tw (thr s t') <> Some (b, k)) ->
  Inv (na_write s t c x).
Proof.
  intros I Hb Hd.
  destruct (na_write_frame s t c x) as (Fh & Fb & Ft & Fo & Fr & Fc & Fv).
  remember (na_write s t c x) as s' eqn:Es.
  assert (Tv : forall t, vle (tv (thr s t)) (tv (thr s' t))) by (intro t0; apply Ft).
  assert (Tc : forall t, cur (thr s' t) = cur (thr s t)) by (intro t0; apply Ft).
  assert (Tp : forall t, pst (thr s' t) = pst (thr s t)) by (intro t0; apply Ft).
  assert (Tw : forall t, tw (thr s' t) = tw (thr s t)) by (intro t0; apply Ft).
  assert (Th : forall t, have (thr s' t) = have (thr s t)) by (intro t0; apply Ft).
  destruct I as [i_clock0 i_head0 i_chain0 i_cur0 i_own0 i_written0 i_nolate0 i_fresh0 i_dfresh0 i_tw0 i_have0 i_lock0 i_rd0 i_norace0].
  assert (G : forall e, snd e <= vc (tv (thr s (fst e))) (fst e) -> snd e <= vc (tv (thr s' (fst e))) (fst e)).
  { intros e G. specialize (Tv (fst e) (fst e)). lia. }
  (* cells of a bucket not owned by t are untouched *)
  assert (NB : forall b c', bucket_of c' = Some b -> powner (pst (thr s t)) <> Some b -> c' <> c).
  { intros b c' Q N ->. apply N. apply (Hb b Q). }
  constructor; unfold bcov in *; try rewrite Fh; try rewrite Fb.
  - intros c' e H. rewrite Fr in H.
    destruct (cell_dec c' c) as [->|N].
    + rewrite Fc in H. cbn in H. destruct H as [[<-|H]|H]; [cbn; rewrite Fv; lia | apply G; eauto | apply G; eauto].
    + rewrite (Fo c' N) in H. apply G; eauto.
  - intros i m b H1 H2. destruct (i_head0 i m b H1 H2) as (A & B & C & D).
    rewrite (Fo (Cap b)), (Fo (Next b)), (Fo (LenI b)) by (eapply NB; [reflexivity | apply D]).
    refine (conj A (conj B (conj C _))). intro t0. rewrite Tp. auto.
  - exact i_chain0.
  - intros t0 b H. rewrite Tc in H. destruct (i_cur0 t0 b H) as (i & m & A & B & C).
    exists i, m. split; [auto|split; [auto|]]. eapply vle_trans; [exact C | apply Tv].
  - intros t0 b H. rewrite Tp in H. destruct (i_own0 t0 b H) as (A & B & C & D & E & F). rewrite !Fr.
    refine (conj A (conj _ (conj C (conj D (conj E _))))); [|intros t'; rewrite Tp; auto].
    assert (W : forall c' e, bucket_of c' = Some b -> In e (wrs (na s' c')) -> In e (wrs (na s c')) \/ fst e = t0).
    { intros c' e Q H1. destruct (cell_dec c' c) as [->|N].
      - rewrite Fc in H1. cbn in H1. destruct H1 as [<-|H1]; [right|left; auto].
        cbn. apply F. apply (Hb b Q).
      - rewrite (Fo c' N) in H1. auto. }
    intros e [H1|[H1|H1]]; (eapply W in H1; [|reflexivity]); destruct H1 as [H1|H1]; auto.
  - intros t0 b e. rewrite Tp. intro H. destruct (cell_dec (Next b) c) as [E|N].
    + rewrite E, Fc. cbn. destruct (Hb b) as [O X]; [rewrite <- E; reflexivity|].
      destruct (i_own0 t0 b) as (_ & _ & _ & _ & _ & F); [rewrite H; reflexivity|].
      rewrite (F t O) in *. apply X; auto.
    + rewrite (Fo _ N). eapply i_written0; eauto.
  - intros t0 b e. rewrite Tp. apply i_nolate0.
  - intros b H. destruct (i_fresh0 b H) as (A & B & C & D).
    assert (N : powner (pst (thr s t)) <> Some b).
    { intro O. destruct (i_own0 t b O) as (X & _). lia. }
    rewrite (Fo (Cap b)), (Fo (Next b)), (Fo (LenI b)) by (eapply NB; [reflexivity | exact N]). auto.
  - intros b k H. destruct (cell_dec (Data b k) c) as [E|N].
    + destruct (Hd b k (eq_sym E)) as (_ & _ & X & _). exact X.
    + rewrite (Fo _ N) in H. auto.
  - intros t0 b k. rewrite Tw. intro H. destruct (i_tw0 t0 b k H) as (A & B & C & D).
    destruct (cell_dec (Data b k) c) as [E|N].
    + exfalso. destruct (Hd b k (eq_sym E)) as (_ & _ & _ & X). apply (X t0 H).
    + rewrite (Fo _ N). refine (conj A (conj B (conj C _))). intros t'. rewrite Tw. auto.
  - intros t0 b k. rewrite Th. intro H. destruct (i_have0 t0 b k H) as (A & B).
    destruct (cell_dec (Data b k) c) as [E|N].
    + exfalso. destruct (Hd b k (eq_sym E)) as (X & _). rewrite <- E in X. auto.
    + rewrite (Fo _ N). split; auto. eapply covers_mono; [apply Tv | exact B].
  - intros l i m b k H1 H2. destruct (i_lock0 l i m b k H1 H2) as (A & B).
    destruct (cell_dec (Data b k) c) as [E|N].
    + exfalso. destruct (Hd b k (eq_sym E)) as (X & _). rewrite <- E in X. auto.
    + rewrite (Fo _ N). auto.
  - intros b k. destruct (cell_dec (Data b k) c) as [E|N].
    + intros _. rewrite E, Fc. cbn. discriminate.
    + rewrite (Fo _ N). apply i_rd0.
  - subst s'. cbn. rewrite i_norace0. cbn.
    assert (X : covers (tv (thr s t)) (wrs (na s c)) /\ covers (tv (thr s t)) (rds (na s c))).
    { destruct c as [b|b|b|b k].
      1-3: destruct (Hb b eq_refl) as [O _]; destruct (i_own0 t b O) as (_ & B & C & D & E & _).
      1-3: (split; [intros e H; assert (Q : fst e = t) by (apply B; auto); specialize (i_clock0 _ e (or_introl H)); rewrite Q in *; exact i_clock0 |]).
      1: rewrite C. 2: rewrite D. 3: rewrite E. 1-3: apply covers_nil.
      destruct (Hd b k eq_refl) as (A & B & _). rewrite A, B. split; apply covers_nil. }
    destruct X as [X1 X2]. rewrite !covers_forallb; auto.
Qed.
(* a change of the local fields of one thread *)
Lemma Inv_thr1 s s' t :
  hist s' = hist s -> na s' = na s -> nb s' = nb s -> raced s' = raced s ->
  (forall t', t' <> t -> thr s' t' = thr s t') -> tv (thr s' t) = tv (thr s t) ->
  (forall b, cur (thr s' t) = Some b -> cur (thr s t) = Some b \/
     exists i m, nth_error (hist s Head) i = Some m /\ mval m = S b /\ vle (mview m) (tv (thr s t))) ->
  powner (pst (thr s' t)) = powner (pst (thr s t)) ->
  (forall b e, pst (thr s' t) = PLoop b e true -> nval (na s (Next b)) = e) ->
  (forall b e, pst (thr s' t) <> PLate b e) ->
  (forall b k, tw (thr s' t) = Some (b, k) -> tw (thr s t) = Some (b, k) \/
     (wrs (na s (Data b k)) = [] /\ rds (na s (Data b k)) = [] /\ k < length (hist s (Len b)) /\
      forall t', tw (thr s t') <> Some (b, k))) ->
  (forall b k, In (b, k) (have (thr s' t)) -> In (b, k) (have (thr s t)) \/
     (wrs (na s (Data b k)) <> [] /\ covers (tv (thr s t)) (wrs (na s (Data b k))))) ->
  Inv s -> Inv s'.
Proof.
  intros Hh Hn Hb Hr Ho Hv Ccur Cown Cwr Cnl Ctw Chv I.
  destruct I as [i_clock0 i_head0 i_chain0 i_cur0 i_own0 i_written0 i_nolate0 i_fresh0 i_dfresh0 i_tw0 i_have0 i_lock0 i_rd0 i_norace0].
  assert (Tv : forall t0, tv (thr s' t0) = tv (thr s t0)).
  { intro t0. destruct (Nat.eq_dec t0 t) as [->|N]; [auto | rewrite Ho; auto]. }
  assert (To : forall t0, powner (pst (thr s' t0)) = powner (pst (thr s t0))).
  { intro t0. destruct (Nat.eq_dec t0 t) as [->|N]; [auto | rewrite Ho; auto]. }
  constructor; unfold bcov in *; try rewrite Hh; try rewrite Hn; try rewrite Hb; try rewrite Hr; auto.
  - intros c e H. rewrite Tv. eauto.
  - intros i m b H1 H2. destruct (i_head0 i m b H1 H2) as (A & B & C & D).
    refine (conj A (conj B (conj C _))). intro t0. rewrite To. auto.
  - intros t0 b H. rewrite Tv. destruct (Nat.eq_dec t0 t) as [->|N]; [|rewrite Ho in H; auto].
    destruct (Ccur b H) as [H'|H']; auto.
  - intros t0 b H. rewrite To in H. destruct (i_own0 t0 b H) as (A & B & C & D & E & F).
    refine (conj A (conj B (conj C (conj D (conj E _))))). intros t'. rewrite To. auto.
  - intros t0 b e H. destruct (Nat.eq_dec t0 t) as [->|N]; [eauto | rewrite Ho in H; eauto].
  - intros t0 b e. destruct (Nat.eq_dec t0 t) as [->|N]; [auto | rewrite Ho; auto].
  - intros t0 b k H.
    assert (X : tw (thr s t0) = Some (b, k) \/ (t0 = t /\ wrs (na s (Data b k)) = [] /\ rds (na s (Data b k)) = [] /\
                k < length (hist s (Len b)) /\ forall t', tw (thr s t') <> Some (b, k))).
    { destruct (Nat.eq_dec t0 t) as [->|N]; [|rewrite Ho in H; auto]. destruct (Ctw b k H); auto. }
    assert (Y : forall t', tw (thr s' t') = Some (b, k) -> tw (thr s t') = Some (b, k) \/ t' = t).
    { intros t' H'. destruct (Nat.eq_dec t' t) as [->|N]; [auto | rewrite Ho in H'; auto]. }
    destruct X as [X|(-> & A & B & C & D)].
    + destruct (i_tw0 t0 b k X) as (A & B & C & D). refine (conj A (conj B (conj C _))).
      intros t' H'. destruct (Y t' H') as [H2 | ->]; [auto|].
      destruct (Nat.eq_dec t0 t) as [->|N]; [auto|].
      destruct (Ctw b k H') as [Z|(_ & _ & _ & Z)]; [auto | exfalso; apply (Z t0 X)].
    + refine (conj A (conj B (conj C _))). intros t' H'. destruct (Y t' H') as [H2 | ->]; [|auto].
      exfalso. apply (D t' H2).
  - intros t0 b k H. rewrite Tv. destruct (Nat.eq_dec t0 t) as [->|N]; [|rewrite Ho in H; auto].
    destruct (Chv b k H) as [H'|H']; auto.
Qed.
Definition push_msg (s : state) (l : aloc) (m : msg) : state :=
  {| hist := upd aloc_dec (hist s) l (hist s l ++ [m]); na := na s; thr := thr s; nb := nb s; raced := raced s |}.

Lemma nth_error_snoc A (h : list A) (x y : A) i :
  nth_error (h ++ [x]) i = Some y -> nth_error h i = Some y \/ (i = length h /\ y = x).
Proof.
  intro H. destruct (Nat.lt_ge_cases i (length h)) as [L|L].
  - rewrite nth_error_app1 in H by auto. auto.
  - rewrite nth_error_app2 in H by auto. right.
    destruct (i - length h) as [|d] eqn:E; cbn in H; [inversion H; split; [lia|auto] | destruct d; discriminate].
Qed.

(* appending a message to a location other than the list head *)
Lemma Inv_push s l m :
  l <> Head -> (forall b, l = Len b -> b < nb s) ->
  (forall l0 b k, l = Lk l0 -> In (b, k) (mpay m) ->
     wrs (na s (Data b k)) <> [] /\ covers (mview m) (wrs (na s (Data b k)))) ->
  Inv s -> Inv (push_msg s l m).
Proof.
  intros NH HL HK I.
  destruct I as [i_clock0 i_head0 i_chain0 i_cur0 i_own0 i_written0 i_nolate0 i_fresh0 i_dfresh0 i_tw0 i_have0 i_lock0 i_rd0 i_norace0].
  assert (HH : hist (push_msg s l m) Head = hist s Head) by (cbn; rewrite upd_neq by congruence; reflexivity).
  assert (LL : forall b, length (hist s (Len b)) <= length (hist (push_msg s l m) (Len b))).
  { intro b. cbn. destruct (aloc_dec (Len b) l) as [<-|N]; [rewrite upd_eq, app_length; lia | rewrite upd_neq by auto; lia]. }
  constructor; unfold bcov in *; try rewrite HH; auto.
  - intros b H. destruct (i_fresh0 b H) as (A & B & C & D). cbn in *.
    rewrite upd_neq; [auto|]. intros <-. specialize (HL b eq_refl). lia.
  - intros b k H. specialize (i_dfresh0 b k H). specialize (LL b). cbn in *. lia.
  - intros t b k H. destruct (i_tw0 t b k H) as (A & B & C & D).
    refine (conj A (conj B (conj _ D))). specialize (LL b). cbn in *. lia.
  - intros l0 i m0 b k H1 H2. cbn in *. destruct (aloc_dec (Lk l0) l) as [<-|N].
    + rewrite upd_eq in H1. apply nth_error_snoc in H1. destruct H1 as [H1|[_ ->]]; eauto.
    + rewrite upd_neq in H1 by auto. eauto.
Qed.

Lemma tsame_upd_tv s t v :
  vle (tv (thr s t)) v ->
  forall t', vle (tv (thr s t')) (tv (upd Nat.eq_dec (thr s) t (with_tv (thr s t) v) t')) /\
    cur (upd Nat.eq_dec (thr s) t (with_tv (thr s t) v) t') = cur (thr s t') /\
    pst (upd Nat.eq_dec (thr s) t (with_tv (thr s t) v) t') = pst (thr s t') /\
    tw (upd Nat.eq_dec (thr s) t (with_tv (thr s t) v) t') = tw (thr s t') /\
    have (upd Nat.eq_dec (thr s) t (with_tv (thr s t) v) t') = have (thr s t').
Proof.
  intros H t'. destruct (Nat.eq_dec t' t) as [->|N].
  - rewrite !upd_eq. cbn. split; [exact H | repeat split].
  - rewrite !upd_neq by auto. split; [apply vle_refl | repeat split].
Qed.

Lemma a_rmw_other s t l o x s1 m n :
  a_rmw s t l o x [] = Some (s1, m, n) -> l <> Head -> (forall b, l = Len b -> b < nb s) -> Inv s ->
  Inv s1 /\ tsame s s1 /\ na s1 = na s /\ nb s1 = nb s /\ hist s1 Head = hist s Head /\
  n = length (hist s l) /\ length (hist s1 l) = S n.
Proof.
  unfold a_rmw. destruct (nth_error (hist s l) (pred (length (hist s l)))) as [m'|]; [|discriminate].
  intros H NH HL I. inversion H; subst; clear H.
  set (mm := {| mval := x; mpay := []; mview := _ |}).
  assert (V : vle (tv (thr s t)) (setco (if is_acq o then vjoin (tv (thr s t)) (mview m) else tv (thr s t)) l (length (hist s l)))).
  { apply vle_setco_inv, vle_ifacq. }
  split; [|split; [|split; [|split; [|split; [|split]]]]]; cbn; try reflexivity.
  - apply (@Inv_grow (push_msg s l mm)); try reflexivity.
    + intro t'. cbn. apply tsame_upd_tv. exact V.
    + apply Inv_push; auto. intros l0 b k _ [].
  - intro t'. cbn. apply tsame_upd_tv. exact V.
  - rewrite upd_neq by congruence. reflexivity.
  - rewrite upd_eq, app_length. cbn. lia.
Qed.

Lemma a_store_other s t l o x pay :
  l <> Head -> (forall b, l <> Len b) ->
  (forall b k, In (b, k) pay -> is_rel o = true /\ In (b, k) (have (thr s t))) -> Inv s ->
  let s1 := a_store s t l o x pay in
  Inv s1 /\ tsame s s1 /\ na s1 = na s /\ nb s1 = nb s /\ hist s1 Head = hist s Head.
Proof.
  intros NH NL HP I. unfold a_store.
  set (mm := {| mval := x; mpay := pay; mview := _ |}).
  assert (V : vle (tv (thr s t)) (setco (tv (thr s t)) l (length (hist s l)))) by apply vle_setco.
  cbn. split; [|split; [|split; [|split]]]; cbn; try reflexivity.
  - apply (@Inv_grow (push_msg s l mm)); try reflexivity.
    + intro t'. cbn. apply tsame_upd_tv. exact V.
    + apply Inv_push; auto.
      * intros b ->. exfalso. apply (NL b eq_refl).
      * intros l0 b k _ Hin. destruct (HP b k Hin) as [R Hh]. destruct (i_have I _ _ _ Hh) as [A B].
        split; [exact A|]. subst mm. cbn. rewrite R. eapply covers_mono; [|exact B]. apply vle_setco.
  - intro t'. cbn. apply tsame_upd_tv. exact V.
  - rewrite upd_neq by congruence. reflexivity.
Qed.
(* THE publication step: a successful Release RMW on the list head by the thread that owns bucket b and has written
   its [next] since it last read the head *)
Lemma Inv_publish s s' t b e m mm :
  Inv s -> pst (thr s t) = PLoop b e true ->
  hist s' Head = hist s Head ++ [mm] -> (forall l, l <> Head -> hist s' l = hist s l) ->
  na s' = na s -> nb s' = nb s -> raced s' = raced s ->
  (forall t', t' <> t -> thr s' t' = thr s t') ->
  vle (tv (thr s t)) (tv (thr s' t)) -> cur (thr s' t) = cur (thr s t) -> pst (thr s' t) = PNone ->
  tw (thr s' t) = tw (thr s t) -> have (thr s' t) = have (thr s t) ->
  mval mm = S b -> nth_error (hist s Head) (pred (length (hist s Head))) = Some m -> mval m = e ->
  vle (mview m) (mview mm) -> vle (tv (thr s t)) (mview mm) ->
  Inv s'.
Proof.
  intros I P HH HO Hn Hb Hr To Tv Tc Tp Tw Th Mv ML Me V1 V2.
  destruct I as [i_clock0 i_head0 i_chain0 i_cur0 i_own0 i_written0 i_nolate0 i_fresh0 i_dfresh0 i_tw0 i_have0 i_lock0 i_rd0 i_norace0].
  assert (O : powner (pst (thr s t)) = Some b) by (rewrite P; reflexivity).
  destruct (i_own0 t b O) as (OA & OB & OC & OD & OE & OF).
  assert (LN : length (hist s Head) = S (pred (length (hist s Head)))).
  { assert (pred (length (hist s Head)) < length (hist s Head)) by (apply nth_error_Some; congruence). lia. }
  assert (TV : forall t0, vle (tv (thr s t0)) (tv (thr s' t0))).
  { intro t0. destruct (Nat.eq_dec t0 t) as [->|N]; [auto | rewrite To by auto; apply vle_refl]. }
  assert (PO : forall t0 b0, powner (pst (thr s' t0)) = Some b0 -> t0 <> t /\ powner (pst (thr s t0)) = Some b0).
  { intros t0 b0 H. destruct (Nat.eq_dec t0 t) as [->|N]; [rewrite Tp in H; discriminate | rewrite To in H by auto; auto]. }
  assert (TW : forall t0, tw (thr s' t0) = tw (thr s t0)).
  { intro t0. destruct (Nat.eq_dec t0 t) as [->|N]; [auto | rewrite To by auto; auto]. }
  assert (LE : forall b0, hist s' (Len b0) = hist s (Len b0)) by (intro; apply HO; discriminate).
  constructor; unfold bcov in *; try rewrite HH; try rewrite Hn; try rewrite Hb; try rewrite Hr; auto.
  - intros c e0 H. specialize (i_clock0 c e0 H). specialize (TV (fst e0) (fst e0)). lia.
  - intros i m0 b0 H1 H2. apply nth_error_snoc in H1. destruct H1 as [H1|[-> ->]].
    + destruct (i_head0 i m0 b0 H1 H2) as (A & B & C & D). refine (conj A (conj B (conj _ _))).
      * rewrite C. destruct i as [|j]; [reflexivity|]. cbn.
        assert (j < length (hist s Head)) by (assert (S j < length (hist s Head)) by (apply nth_error_Some; congruence); lia).
        rewrite nth_error_app1 by auto. reflexivity.
      * intros t0 Q. apply PO in Q. destruct Q as [_ Q]. apply (D t0 Q).
    + rewrite Mv in H2. inversion H2; subst b0. split; [exact OA|]. split; [|split].
      * assert (X : forall c, bucket_of c = Some b -> covers (mview mm) (wrs (na s c))).
        { intros c Q e0 H. assert (F : fst e0 = t).
          { apply OB. destruct c; inversion Q; subst; auto. }
          specialize (i_clock0 c e0 (or_introl H)). rewrite F in *. specialize (V2 t). lia. }
        repeat split; apply X; reflexivity.
      * rewrite (i_written0 _ _ _ P). rewrite LN. cbn.
        rewrite nth_error_app1 by lia. rewrite ML. auto.
      * intros t0 Q. apply PO in Q. destruct Q as [N Q]. apply N. apply OF. exact Q.
  - intros i m1 m2 H1 H2. apply nth_error_snoc in H2. destruct H2 as [H2|[E ->]].
    + assert (i < length (hist s Head)) by (assert (S i < length (hist s Head)) by (apply nth_error_Some; congruence); lia).
      rewrite nth_error_app1 in H1 by auto. eauto.
    + assert (i = pred (length (hist s Head))) by lia. subst i.
      rewrite nth_error_app1 in H1 by lia. rewrite ML in H1. inversion H1; subst. exact V1.
  - intros t0 b0 H.
    assert (H' : cur (thr s t0) = Some b0).
    { destruct (Nat.eq_dec t0 t) as [->|N]; [rewrite <- Tc; auto | rewrite To in H by auto; auto]. }
    destruct (i_cur0 t0 b0 H') as (i & m0 & A & B & C). exists i, m0.
    split; [|split; [auto|eapply vle_trans; [exact C|apply TV]]].
    rewrite nth_error_app1; [auto|]. apply nth_error_Some. congruence.
  - intros t0 b0 H. apply PO in H. destruct H as [N H]. destruct (i_own0 t0 b0 H) as (A & B & C & D & E & F).
    refine (conj A (conj B (conj C (conj D (conj E _))))). intros t' Q. apply PO in Q. apply F. apply Q.
  - intros t0 b0 e0 H. destruct (Nat.eq_dec t0 t) as [->|N]; [rewrite Tp in H; discriminate | rewrite To in H by auto; eauto].
  - intros t0 b0 e0. destruct (Nat.eq_dec t0 t) as [->|N]; [rewrite Tp; discriminate | rewrite To by auto; auto].
  - intros b0 H. rewrite LE. auto.
  - intros b0 k H. rewrite LE. auto.
  - intros t0 b0 k H. rewrite TW in H. rewrite LE. destruct (i_tw0 t0 b0 k H) as (A & B & C & D).
    refine (conj A (conj B (conj C _))). intros t'. rewrite TW. auto.
  - intros t0 b0 k H.
    assert (H' : In (b0, k) (have (thr s t0))).
    { destruct (Nat.eq_dec t0 t) as [->|N]; [rewrite <- Th; auto | rewrite To in H by auto; auto]. }
    destruct (i_have0 t0 b0 k H') as (A & B). split; [auto|]. eapply covers_mono; [apply TV | exact B].
  - intros l i m0 b0 k H. rewrite HO in H by discriminate. eauto.
Qed.
Lemma Inv_claim s t : Inv s -> pst (thr s t) = PNone -> Inv (claim s t).
Proof.
  intros I P.
  destruct I as [i_clock0 i_head0 i_chain0 i_cur0 i_own0 i_written0 i_nolate0 i_fresh0 i_dfresh0 i_tw0 i_have0 i_lock0 i_rd0 i_norace0].
  assert (HH : hist (claim s t) Head = hist s Head) by (unfold claim; cbn [hist]; rewrite upd_neq by discriminate; reflexivity).
  assert (HK : forall l, hist (claim s t) (Lk l) = hist s (Lk l)) by (intro; unfold claim; cbn [hist]; rewrite upd_neq by discriminate; reflexivity).
  assert (HL : forall b, b <> nb s -> hist (claim s t) (Len b) = hist s (Len b)).
  { intros b N. unfold claim; cbn [hist]. rewrite upd_neq by congruence. reflexivity. }
  assert (TV : forall t0, tv (thr (claim s t) t0) = tv (thr s t0)).
  { intro t0. unfold claim; cbn [thr]. destruct (Nat.eq_dec t0 t) as [->|N]; [rewrite upd_eq | rewrite upd_neq by auto]; reflexivity. }
  assert (TC : forall t0, cur (thr (claim s t) t0) = cur (thr s t0)).
  { intro t0. unfold claim; cbn [thr]. destruct (Nat.eq_dec t0 t) as [->|N]; [rewrite upd_eq | rewrite upd_neq by auto]; reflexivity. }
  assert (TW : forall t0, tw (thr (claim s t) t0) = tw (thr s t0)).
  { intro t0. unfold claim; cbn [thr]. destruct (Nat.eq_dec t0 t) as [->|N]; [rewrite upd_eq | rewrite upd_neq by auto]; reflexivity. }
  assert (TH : forall t0, have (thr (claim s t) t0) = have (thr s t0)).
  { intro t0. unfold claim; cbn [thr]. destruct (Nat.eq_dec t0 t) as [->|N]; [rewrite upd_eq | rewrite upd_neq by auto]; reflexivity. }
  assert (TP : pst (thr (claim s t) t) = PLoad (nb s)) by (unfold claim; cbn [thr]; rewrite upd_eq; reflexivity).
  assert (TO : forall t0, t0 <> t -> pst (thr (claim s t) t0) = pst (thr s t0)).
  { intros t0 N. unfold claim; cbn [thr]. rewrite upd_neq by auto. reflexivity. }
  assert (OLD : forall t0 b0, powner (pst (thr s t0)) = Some b0 -> b0 < nb s).
  { intros t0 b0 H. apply (i_own0 t0 b0 H). }
  assert (PO : forall t0 b0, powner (pst (thr (claim s t) t0)) = Some b0 ->
                (t0 = t /\ b0 = nb s) \/ (t0 <> t /\ b0 < nb s /\ powner (pst (thr s t0)) = Some b0)).
  { intros t0 b0 H. destruct (Nat.eq_dec t0 t) as [->|N].
    - rewrite TP in H. cbn in H. inversion H. auto.
    - rewrite TO in H by auto. right. eauto. }
  destruct (i_fresh0 (nb s) (le_n _)) as (FA & FB & FC & FD).
  constructor; unfold bcov in *; try rewrite HH; change (na (claim s t)) with (na s);
    change (nb (claim s t)) with (S (nb s)); change (raced (claim s t)) with (raced s); auto.
  - intros c e H. rewrite TV. eauto.
  - intros i m b0 H1 H2. destruct (i_head0 i m b0 H1 H2) as (A & B & C & D).
    split; [lia|]. refine (conj B (conj C _)). intros t0 Q. apply PO in Q.
    destruct Q as [[_ ->]|(_ & _ & Q)]; [lia | apply (D t0 Q)].
  - intros t0 b0. rewrite TC, TV. auto.
  - intros t0 b0 H. apply PO in H. destruct H as [[-> ->]|(N & L & H)].
    + split; [lia|]. rewrite FA, FB, FC. cbn. split; [intros e [[]|[[]|[]]]|].
      repeat (split; [reflexivity|]). intros t' Q. apply PO in Q. destruct Q as [[-> _]|(_ & L & _)]; [auto | lia].
    + destruct (i_own0 t0 b0 H) as (A & B & C & D & E & F). split; [lia|].
      refine (conj B (conj C (conj D (conj E _)))). intros t' Q. apply PO in Q.
      destruct Q as [[_ ->]|(_ & _ & Q)]; [lia | auto].
  - intros t0 b0 e H. destruct (Nat.eq_dec t0 t) as [->|N]; [rewrite TP in H; discriminate | rewrite TO in H by auto; eauto].
  - intros t0 b0 e. destruct (Nat.eq_dec t0 t) as [->|N]; [rewrite TP; discriminate | rewrite TO by auto; auto].
  - intros b0 H. destruct (i_fresh0 b0) as (A & B & C & D); [lia|]. rewrite HL by lia. auto.
  - intros b0 k H. specialize (i_dfresh0 b0 k H). destruct (Nat.eq_dec b0 (nb s)) as [->|N].
    + rewrite FD in i_dfresh0. cbn in i_dfresh0. lia.
    + rewrite HL by auto. auto.
  - intros t0 b0 k H. rewrite TW in H. destruct (i_tw0 t0 b0 k H) as (A & B & C & D).
    destruct (Nat.eq_dec b0 (nb s)) as [->|N].
    + rewrite FD in C. cbn in C. lia.
    + rewrite HL by auto. refine (conj A (conj B (conj C _))). intros t'. rewrite TW. auto.
  - intros t0 b0 k. rewrite TH, TV. auto.
Qed.
Lemma na_write_own s t b c x :
  Inv s -> pst (thr s t) = PLoad b -> bucket_of c = Some b ->
  let s' := na_write s t c x in
  Inv s' /\ pst (thr s' t) = PLoad b /\ hist s' = hist s /\ nb s' = nb s /\ (forall t', tw (thr s' t') = tw (thr s t')) /\
  (forall c', c' <> c -> na s' c' = na s c') /\ have (thr s' t) = have (thr s t).
Proof.
  intros I P Q s'. destruct (na_write_frame s t c x) as (Fh & Fb & Ft & Fo & Fr & Fc & Fv). fold s' in Fh, Fb, Ft, Fo.
  split; [|split; [|split; [|split; [|split; [|split]]]]]; auto.
  - apply na_write_Inv; auto.
    + intros b0 Q0. rewrite Q in Q0. inversion Q0; subst b0. split; [rewrite P; reflexivity|].
      intros _ e H. rewrite P in H. discriminate.
    + intros b0 k ->. discriminate.
  - destruct (Ft t) as (_ & _ & -> & _). exact P.
  - intro t'. apply Ft.
  - apply Ft.
Qed.

Lemma alloc_Inv s t : Inv s -> pst (thr s t) = PNone -> Inv (alloc s t).
Proof.
  intros I P. unfold alloc. set (b := nb s).
  pose proof (@Inv_claim s t I P) as I0.
  assert (P0 : pst (thr (claim s t) t) = PLoad b) by (unfold claim; cbn [thr]; rewrite upd_eq; reflexivity).
  assert (H0 : hist (claim s t) (Len b) = [msg0 0]) by (unfold claim; cbn [hist]; rewrite upd_eq; reflexivity).
  assert (W0 : forall t', tw (thr (claim s t) t') = tw (thr s t')).
  { intro t0. unfold claim; cbn [thr]. destruct (Nat.eq_dec t0 t) as [->|N]; [rewrite upd_eq | rewrite upd_neq by auto]; reflexivity. }
  destruct (@i_fresh s I b (le_n _)) as (_ & _ & _ & FD).
  assert (D0 : wrs (na s (Data b 0)) = [] /\ rds (na s (Data b 0)) = []).
  { split.
    - destruct (wrs (na s (Data b 0))) eqn:E; [reflexivity|].
      assert (X : 0 < length (hist s (Len b))) by (apply (@i_dfresh s I); left; rewrite E; discriminate).
      rewrite FD in X. cbn in X. lia.
    - destruct (rds (na s (Data b 0))) eqn:E; [reflexivity|].
      assert (X : 0 < length (hist s (Len b))) by (apply (@i_dfresh s I); right; rewrite E; discriminate).
      rewrite FD in X. cbn in X. lia. }
  assert (T0 : forall t', tw (thr s t') <> Some (b, 0)).
  { intros t' H. destruct (@i_tw s I _ _ _ H) as (_ & _ & X & _). rewrite FD in X. cbn in X. lia. }
  destruct (@na_write_own (claim s t) t b (Next b) 0 I0 P0 eq_refl) as (I1 & P1 & H1 & B1 & W1 & N1 & V1).
  set (s1 := na_write (claim s t) t (Next b) 0) in *.
  destruct (@na_write_own s1 t b (LenI b) 0 I1 P1 eq_refl) as (I2 & P2 & H2 & B2 & W2 & N2 & V2).
  set (s2 := na_write s1 t (LenI b) 0) in *.
  destruct (@na_write_own s2 t b (Cap b) 0 I2 P2 eq_refl) as (I3 & P3 & H3 & B3 & W3 & N3 & V3).
  set (s3 := na_write s2 t (Cap b) 0) in *.
  assert (E3 : na s3 (Data b 0) = na s (Data b 0)).
  { rewrite N3, N2, N1 by discriminate. reflexivity. }
  assert (I4 : Inv (na_write s3 t (Data b 0) 0)).
  { apply na_write_Inv; auto.
    - intros b0 Q. discriminate.
    - intros b0 k Q. inversion Q; subst b0 k. rewrite E3. destruct D0 as [D1 D2].
      split; [auto|split; [auto|split]].
      + rewrite H3, H2, H1, H0. cbn. lia.
      + intros t'. rewrite W3, W2, W1, W0. apply T0. }
  destruct (na_write_frame s3 t (Data b 0) 0) as (Fh & Fb & Ft & Fo & Fr & Fc & Fv).
  set (s4 := na_write s3 t (Data b 0) 0) in *.
  assert (P4 : pst (thr s4 t) = PLoad b) by (destruct (Ft t) as (_ & _ & -> & _); exact P3).
  destruct (@na_write_own s4 t b (LenI b) 0 I4 P4 eq_refl) as (I5 & P5 & H5 & B5 & W5 & N5 & V5).
  set (s5 := na_write s4 t (LenI b) 0) in *.
  assert (E5 : wrs (na s5 (Data b 0)) = [(t, S (vc (tv (thr s3 t)) t))]).
  { rewrite N5 by discriminate. rewrite Fc. cbn [wrs]. rewrite E3. destruct D0 as [-> _]. reflexivity. }
  apply (@Inv_thr1 s5 _ t); try reflexivity; auto.
  - intros t' N. unfold set_have, set_thr; cbn [thr]. rewrite upd_neq by auto. reflexivity.
  - unfold set_have, set_thr; cbn [thr]. rewrite upd_eq. reflexivity.
  - unfold set_have, set_thr; cbn [thr]. rewrite upd_eq. cbn [tv cur pst tw have]. auto.
  - unfold set_have, set_thr; cbn [thr]. rewrite upd_eq. cbn [tv cur pst tw have]. reflexivity.
  - unfold set_have, set_thr; cbn [thr]. rewrite upd_eq. cbn [tv cur pst tw have]. intros b0 e H. rewrite P5 in H. discriminate.
  - unfold set_have, set_thr; cbn [thr]. rewrite upd_eq. cbn [tv cur pst tw have]. intros b0 e. rewrite P5. discriminate.
  - unfold set_have, set_thr; cbn [thr]. rewrite upd_eq. cbn [tv cur pst tw have]. auto.
  - unfold set_have, set_thr; cbn [thr]. rewrite upd_eq. cbn [have]. intros b0 k [H|H]; [|auto].
    inversion H; subst b0 k. right. rewrite E5. split; [discriminate|].
    intros e [<-|[]]. apply (@i_clock s5 I5 (Data b 0) (t, S (vc (tv (thr s3 t)) t))). left. rewrite E5. left. reflexivity.
Qed.
Ltac thr1_side I :=
  unfold set_cur, set_pst, set_tw, set_have, set_thr; cbn [thr hist na nb raced];
  first [ reflexivity
        | (intros ? ?; rewrite upd_neq by auto; reflexivity)
        | (rewrite upd_eq; cbn [tv cur pst tw have];
           first [ solve [auto] | solve [apply (@i_written _ I)] | solve [apply (@i_nolate _ I)] ]) ].

Lemma set_cur_Inv s t c :
  Inv s ->
  (forall b, c = Some b -> exists i m, nth_error (hist s Head) i = Some m /\ mval m = S b /\ vle (mview m) (tv (thr s t))) ->
  Inv (set_cur s t c).
Proof. intros I H. apply (@Inv_thr1 s _ t); auto; thr1_side I. Qed.

Lemma set_pst_Inv s t p :
  Inv s -> powner p = powner (pst (thr s t)) ->
  (forall b e, p = PLoop b e true -> nval (na s (Next b)) = e) -> (forall b e, p <> PLate b e) ->
  Inv (set_pst s t p).
Proof. intros I H1 H2 H3. apply (@Inv_thr1 s _ t); auto; thr1_side I. Qed.

Lemma set_tw_Inv s t r :
  Inv s ->
  (forall b k, r = Some (b, k) -> tw (thr s t) = Some (b, k) \/
     (wrs (na s (Data b k)) = [] /\ rds (na s (Data b k)) = [] /\ k < length (hist s (Len b)) /\
      forall t', tw (thr s t') <> Some (b, k))) ->
  Inv (set_tw s t r).
Proof. intros I H. apply (@Inv_thr1 s _ t); auto; thr1_side I. Qed.

Lemma set_have_Inv s t h :
  Inv s ->
  (forall b k, In (b, k) h -> In (b, k) (have (thr s t)) \/
     (wrs (na s (Data b k)) <> [] /\ covers (tv (thr s t)) (wrs (na s (Data b k))))) ->
  Inv (set_have s t h).
Proof. intros I H. apply (@Inv_thr1 s _ t); auto; thr1_side I. Qed.

Definition adequate (o : site -> ordering) : bool := is_rel (o PushCasOk) && is_acq (o IterLoad).

Lemma grows_fields s s1 : grows s s1 ->
  hist s1 = hist s /\ na s1 = na s /\ nb s1 = nb s /\ tsame s s1.
Proof. intros (A & B & C & D & E). auto. Qed.

Lemma step_PushLoad c s t i s' : Inv s -> step c s (LPushLoad t i) = Some s' -> Inv s'.
Proof.
  intros I. cbn. destruct (pst (thr s t)) as [|b| |] eqn:P; try discriminate.
  destruct (a_load s t Head i (ord c PushHeadLoad)) as [[s1 m]|] eqn:L; [|discriminate].
  intro H; inversion H; subst; clear H. destruct (@a_load_spec _ _ _ _ _ _ _ L) as (G & _ & _).
  pose proof (@grows_Inv _ _ G I) as I1. destruct (@grows_fields _ _ G) as (_ & _ & _ & T).
  apply set_pst_Inv; auto.
  - destruct (T t) as (_ & _ & -> & _). rewrite P. reflexivity.
  - intros b0 e H. discriminate.
  - intros b0 e H. discriminate.
Qed.

Lemma step_PushWrite c s t s' : Inv s -> step c s (LPushWrite t) = Some s' -> Inv s'.
Proof.
  intros I. cbn. destruct (pst (thr s t)) as [|b|b e w|b e] eqn:P; try discriminate.
  2: { exfalso. apply (@i_nolate s I t b e P). }
  intro H; inversion H; subst; clear H.
  destruct (na_write_frame s t (Next b) e) as (Fh & Fb & Ft & Fo & Fr & Fc & Fv).
  assert (I1 : Inv (na_write s t (Next b) e)).
  { apply na_write_Inv; auto.
    - intros b0 Q. inversion Q; subst b0. split; [rewrite P; reflexivity|].
      intros _ e0 H. rewrite P in H. inversion H. reflexivity.
    - intros b0 k Q. discriminate. }
  apply set_pst_Inv; auto.
  - destruct (Ft t) as (_ & _ & -> & _). rewrite P. reflexivity.
  - intros b0 e0 H. inversion H; subst. rewrite Fc. reflexivity.
  - intros b0 e0 H. discriminate.
Qed.

Lemma step_PushCas c s t ok i s' :
  is_rel (ord c PushCasOk) = true -> next_first c = true ->
  Inv s -> step c s (LPushCas t ok i) = Some s' -> Inv s'.
Proof.
  intros R NF I. cbn. destruct (pst (thr s t)) as [|b|b e w|b e] eqn:P; try discriminate.
  destruct ok.
  - rewrite NF. cbn [negb]. rewrite orb_false_r. destruct w; [|discriminate].
    unfold a_rmw. destruct (nth_error (hist s Head) (pred (length (hist s Head)))) as [m|] eqn:ML; [|discriminate].
    destruct (mval m =? e) eqn:E; [|discriminate]. apply Nat.eqb_eq in E.
    intro H; inversion H; subst s'; clear H. rewrite R.
    eapply (@Inv_publish s _ t b e m); eauto; unfold set_pst, set_thr; cbn [hist na nb raced thr].
    + rewrite upd_eq. reflexivity.
    + intros l N. rewrite upd_neq by auto. reflexivity.
    + intros t' N. rewrite !upd_neq by auto. reflexivity.
    + rewrite !upd_eq. cbn [tv with_tv]. apply vle_setco_inv, vle_ifacq.
    + rewrite !upd_eq. reflexivity.
    + rewrite !upd_eq. reflexivity.
    + rewrite !upd_eq. reflexivity.
    + rewrite !upd_eq. reflexivity.
    + reflexivity.
    + cbn [mview]. apply vle_join_r.
    + cbn [mview]. eapply vle_trans; [|apply vle_join_l]. apply vle_setco_inv, vle_ifacq.
  - destruct (a_load s t Head i (ord c PushCasFail)) as [[s1 m]|] eqn:L; [|discriminate].
    intro H; inversion H; subst; clear H. destruct (@a_load_spec _ _ _ _ _ _ _ L) as (G & _ & _).
    pose proof (@grows_Inv _ _ G I) as I1. destruct (@grows_fields _ _ G) as (_ & _ & _ & T).
    apply set_pst_Inv; auto.
    + destruct (T t) as (_ & _ & -> & _). rewrite P. reflexivity.
    + intros b0 e0 H. discriminate.
    + intros b0 e0 H. discriminate.
Qed.

Lemma step_WalkStart c s t i s' :
  is_acq (ord c IterLoad) = true -> Inv s -> step c s (LWalkStart t i) = Some s' -> Inv s'.
Proof.
  intros A I. cbn.
  destruct (a_load s t Head i (ord c IterLoad)) as [[s1 m]|] eqn:L; [|discriminate].
  intro H; inversion H; subst; clear H. destruct (@a_load_spec _ _ _ _ _ _ _ L) as (G & N & V).
  pose proof (@grows_Inv _ _ G I) as I1. destruct (@grows_fields _ _ G) as (Hh & _ & _ & T).
  apply set_cur_Inv; auto.
  intros b Q. exists i, m. rewrite Hh. split; [auto|split; [|auto]].
  destruct (mval m); cbn in Q; inversion Q; reflexivity.
Qed.

(* what a walker knows about the bucket under its cursor *)
Lemma cur_facts s t b : Inv s -> cur (thr s t) = Some b ->
  b < nb s /\ bcov s b (tv (thr s t)) /\ (forall t', powner (pst (thr s t')) <> Some b).
Proof.
  intros I C. destruct (@i_cur s I t b C) as (i & m & A & B & V).
  destruct (@i_head s I i m b A B) as (L & (C1 & C2 & C3) & _ & D).
  split; [auto|split; [|auto]]. repeat split; eapply covers_mono; eauto.
Qed.

Lemma step_Visit c s t s' : Inv s -> step c s (LVisit t) = Some s' -> Inv s'.
Proof.
  intros I. cbn. destruct (cur (thr s t)) as [b|] eqn:C; [|discriminate].
  intro H; inversion H; subst; clear H. destruct (cur_facts _ I C) as (L & (C1 & C2 & C3) & D).
  apply na_read_Inv; auto.
  - intros b0 Q. inversion Q; subst. auto.
  - discriminate.
Qed.

Lemma step_WalkNext c s t s' : Inv s -> step c s (LWalkNext t) = Some s' -> Inv s'.
Proof.
  intros I. cbn. destruct (cur (thr s t)) as [b|] eqn:C; [|discriminate].
  intro H; inversion H; subst; clear H. destruct (cur_facts _ I C) as (L & (C1 & C2 & C3) & D).
  assert (I1 : Inv (na_read s t (Next b))).
  { apply na_read_Inv; auto.
    - intros b0 Q. inversion Q; subst. auto.
    - discriminate. }
  destruct (na_read_frame s t (Next b)) as (Fh & Fb & Ft & _).
  apply set_cur_Inv; auto.
  intros b' Q. rewrite Fh.
  destruct (@i_cur s I t b C) as (i & m & A & B & V).
  destruct (@i_head s I i m b A B) as (_ & _ & NV & _).
  rewrite NV in Q. destruct i as [|j]; [discriminate|]. cbn in Q.
  destruct (nth_error (hist s Head) j) as [mj|] eqn:J; [|discriminate].
  exists j, mj. split; [auto|split].
  - destruct (mval mj); cbn in Q; inversion Q; reflexivity.
  - eapply vle_trans; [apply (@i_chain s I j mj m J A)|]. eapply vle_trans; [exact V|]. apply Ft.
Qed.

Lemma read_leni_Inv s t b : Inv s -> cur (thr s t) = Some b ->
  let s0 := na_read s t (LenI b) in Inv s0 /\ b < nb s0 /\ tw (thr s0 t) = tw (thr s t).
Proof.
  intros I C s0. destruct (cur_facts _ I C) as (L & (C1 & C2 & C3) & D).
  destruct (na_read_frame s t (LenI b)) as (Fh & Fb & Ft & _). fold s0 in Fh, Fb, Ft.
  split; [|split; [rewrite Fb; auto | apply Ft]].
  apply na_read_Inv; auto.
  - intros b0 Q. inversion Q; subst. auto.
  - discriminate.
Qed.

Lemma step_LenLoad c s t i s' : Inv s -> step c s (LLenLoad t i) = Some s' -> Inv s'.
Proof.
  intros I. cbn. destruct (cur (thr s t)) as [b|] eqn:C; [|discriminate].
  destruct (read_leni_Inv _ I C) as (I0 & _).
  destruct (a_load _ t (Len b) i (ord c LenLoad)) as [[s1 m]|] eqn:L; [|discriminate].
  intro H; inversion H; subst; clear H. destruct (@a_load_spec _ _ _ _ _ _ _ L) as (G & _ & _).
  apply (@grows_Inv _ _ G I0).
Qed.

Lemma step_LenCas c s t ok i s' : Inv s -> step c s (LLenCas t ok i) = Some s' -> Inv s'.
Proof.
  intros I. cbn. destruct (cur (thr s t)) as [b|] eqn:C; [|discriminate].
  destruct (read_leni_Inv _ I C) as (I0 & L0 & W0).
  set (s0 := na_read s t (LenI b)) in *.
  destruct ok.
  - destruct (tw (thr s t)) eqn:W; [discriminate|].
    destruct (a_rmw s0 t (Len b) (ord c LenCasOk) 0 []) as [[[s1 m] n]|] eqn:R; [|discriminate].
    intro H; inversion H; subst s'; clear H.
    destruct (@a_rmw_other _ _ _ _ _ _ _ _ R) as (I1 & T & Hn & Hb & _ & En & El); auto; try discriminate.
    { intros b0 Q. inversion Q; subst. exact L0. }
    apply set_tw_Inv; auto.
    intros b0 k Q. inversion Q; subst b0 k. right. rewrite Hn, El.
    split; [|split; [|split; [lia|]]].
    + destruct (wrs (na s0 (Data b n))) eqn:E; [reflexivity|].
      assert (n < length (hist s0 (Len b))) by (apply (@i_dfresh s0 I0); left; rewrite E; discriminate). lia.
    + destruct (rds (na s0 (Data b n))) eqn:E; [reflexivity|].
      assert (n < length (hist s0 (Len b))) by (apply (@i_dfresh s0 I0); right; rewrite E; discriminate). lia.
    + intros t' H. destruct (T t') as (_ & _ & _ & TW & _). rewrite TW in H.
      destruct (@i_tw s0 I0 t' b n H) as (_ & _ & Y & _). lia.
  - destruct (a_load s0 t (Len b) i (ord c LenCasFail)) as [[s1 m]|] eqn:L; [|discriminate].
    intro H; inversion H; subst; clear H. destruct (@a_load_spec _ _ _ _ _ _ _ L) as (G & _ & _).
    apply (@grows_Inv _ _ G I0).
Qed.

Lemma step_Copy c s t s' : Inv s -> step c s (LCopy t) = Some s' -> Inv s'.
Proof.
  intros I. cbn. destruct (tw (thr s t)) as [[b k]|] eqn:W; [|discriminate].
  intro H; inversion H; subst; clear H.
  destruct (@i_tw s I t b k W) as (A & B & C & D).
  assert (I0 : Inv (set_tw s t None)) by (apply set_tw_Inv; [auto | intros; discriminate]).
  set (s0 := set_tw s t None) in *.
  assert (T0 : forall t', tw (thr s0 t') <> Some (b, k)).
  { intros t'. unfold s0, set_tw, set_thr; cbn [thr]. destruct (Nat.eq_dec t' t) as [->|N].
    - rewrite upd_eq. discriminate.
    - rewrite upd_neq by auto. intro H. apply N. apply D. exact H. }
  assert (H0 : have (thr s0 t) = have (thr s t)) by (unfold s0, set_tw, set_thr; cbn [thr]; rewrite upd_eq; reflexivity).
  assert (I1 : Inv (na_write s0 t (Data b k) 0)).
  { apply na_write_Inv; auto.
    - intros b0 Q. discriminate.
    - intros b0 k0 Q. inversion Q; subst b0 k0. auto. }
  destruct (na_write_frame s0 t (Data b k) 0) as (Fh & Fb & Ft & Fo & Fr & Fc & Fv).
  set (s1 := na_write s0 t (Data b k) 0) in *.
  apply set_have_Inv; auto.
  intros b0 k0 [Q|Q].
  - inversion Q; subst b0 k0. right. rewrite Fc. cbn [wrs]. split; [discriminate|].
    change (wrs (na s0 (Data b k))) with (wrs (na s (Data b k))). rewrite A.
    intros e [<-|[]]. apply (@i_clock s1 I1 (Data b k)). left. rewrite Fc. left. reflexivity.
  - left. destruct (Ft t) as (_ & _ & _ & _ & ->). rewrite H0. exact Q.
Qed.

Lemma step_Publish c s t l rs s' : Inv s -> step c s (LPublish t l rs) = Some s' -> Inv s'.
Proof.
  intros I. cbn.
  destruct (forallb (fun r => if in_dec range_dec r (have (thr s t)) then true else false) rs) eqn:F; [|discriminate].
  intro H; inversion H; subst; clear H.
  apply a_store_other; auto; try discriminate.
  intros b k Hin. split; [reflexivity|]. rewrite forallb_forall in F. specialize (F _ Hin).
  destruct (in_dec range_dec (b, k) (have (thr s t))); [auto|discriminate].
Qed.

Lemma step_Consume c s t l i s' : Inv s -> step c s (LConsume t l i) = Some s' -> Inv s'.
Proof.
  intros I. cbn. destruct (a_load s t (Lk l) i Acquire) as [[s1 m]|] eqn:L; [|discriminate].
  intro H; inversion H; subst; clear H. destruct (@a_load_spec _ _ _ _ _ _ _ L) as (G & N & V).
  pose proof (@grows_Inv _ _ G I) as I1. destruct (@grows_fields _ _ G) as (Hh & Hn & _ & T).
  apply set_have_Inv; auto.
  intros b k Q. apply in_app_or in Q. destruct Q as [Q|Q].
  - right. rewrite Hn. destruct (@i_lock s I l i m b k N Q) as (A & B). split; [auto|].
    eapply covers_mono; [apply V; reflexivity | exact B].
  - left. destruct (T t) as (_ & _ & _ & _ & ->). exact Q.
Qed.

Lemma step_ReadData c s t r s' : Inv s -> step c s (LReadData t r) = Some s' -> Inv s'.
Proof.
  intros I. cbn. destruct (in_dec range_dec r (have (thr s t))) as [Q|]; [|discriminate].
  intro H; inversion H; subst; clear H. destruct r as [b k]. cbn [fst snd].
  destruct (@i_have s I t b k Q) as (A & B).
  apply na_read_Inv; auto. intros b0 Q0. discriminate.
Qed.

Lemma step_Misc c s t m k o i x s' : Inv s -> step c s (LMisc t m k o i x) = Some s' -> Inv s'.
Proof.
  intros I. cbn. destruct k.
  - destruct (a_load s t (Misc m) i o) as [[s1 m0]|] eqn:L; [|discriminate].
    intro H; inversion H; subst; clear H. destruct (@a_load_spec _ _ _ _ _ _ _ L) as (G & _ & _).
    apply (@grows_Inv _ _ G I).
  - intro H; inversion H; subst; clear H. apply a_store_other; auto; try discriminate. intros b k [].
  - destruct (a_rmw s t (Misc m) o x []) as [[[s1 m0] n]|] eqn:R; [|discriminate].
    intro H; inversion H; subst; clear H.
    destruct (@a_rmw_other _ _ _ _ _ _ _ _ R) as (I1 & _); auto; discriminate.
Qed.

(* ---------- the theorem ---------- *)
Theorem step_Inv c s lb s' :
  adequate (ord c) = true -> next_first c = true -> Inv s -> step c s lb = Some s' -> Inv s'.
Proof.
  intros A NF I H. unfold adequate in A. apply andb_prop in A. destruct A as [A1 A2].
  destruct lb.
  - cbn in H. destruct (pst (thr s t)) eqn:P; try discriminate. inversion H; subst. apply alloc_Inv; auto.
  - eapply step_PushLoad; eauto.
  - eapply step_PushWrite; eauto.
  - eapply step_PushCas; eauto.
  - eapply step_WalkStart; eauto.
  - eapply step_Visit; eauto.
  - eapply step_WalkNext; eauto.
  - eapply step_LenLoad; eauto.
  - eapply step_LenCas; eauto.
  - eapply step_Copy; eauto.
  - eapply step_Publish; eauto.
  - eapply step_Consume; eauto.
  - eapply step_ReadData; eauto.
  - eapply step_Misc; eauto.
Qed.

Theorem run_Inv c ls : adequate (ord c) = true -> next_first c = true ->
  forall s s', Inv s -> run c s ls = Some s' -> Inv s'.
Proof.
  intros A NF. induction ls as [|l ls IH]; intros s s' I H; cbn in H.
  - inversion H; subst; auto.
  - destruct (step c s l) as [s1|] eqn:S; [|discriminate]. eapply IH; [|exact H]. eapply step_Inv; eauto.
Qed.

(* MAIN THEOREM: with adequate orderings and [next] written before the CAS, no execution -- any number of threads
   (thread identifiers are arbitrary naturals), any number of buckets, any interleaving of skeleton steps, any
   choice of the (possibly stale) messages read -- flags a data race. *)
Theorem race_free c ls s' :
  adequate (ord c) = true -> next_first c = true -> run c init ls = Some s' -> raced s' = false.
Proof. intros A NF H. apply (@i_norace s'). eapply run_Inv; eauto. apply Inv_init. Qed.

(* the orderings of every other site are irrelevant: [adequate] only looks at two sites.  In particular the
   loads and RMWs on [len] (try_inc_length), the head load and the CAS failure ordering of push_front and every
   counter may be Relaxed: no happens-before edge through [len] is needed, because reserved ranges are identified
   by the unique timestamp of the reserving RMW (atomicity) and are handed to other threads through a lock. *)
Lemma adequate_only_two o o' :
  o' PushCasOk = o PushCasOk -> o' IterLoad = o IterLoad -> adequate o' = adequate o.
Proof. unfold adequate. intros -> ->. reflexivity. Qed.

Definition weakest : site -> ordering :=
  fun s => match s with PushCasOk => Release | IterLoad => Acquire | _ => Relaxed end.
Lemma weakest_adequate : adequate weakest = true. Proof. reflexivity. Qed.

(* ---------- converse: the two conditions and the textual order are necessary ---------- *)
Definition raced_after (c : cfg) (ls : list label) : option bool :=
  match run c init ls with Some s => Some (raced s) | None => None end.

(* thread 0 allocates bucket 1 and pushes it; thread 1 loads the head (reading the new message), then reads the
   bucket's capacity *)
Definition w_publish : list label :=
  [LAlloc 0; LPushLoad 0 0; LPushWrite 0; LPushCas 0 true 0; LWalkStart 1 1].
Definition ord3 (rest : site -> ordering) (a b c : ordering) : site -> ordering :=
  fun s => match s with PushHeadLoad => a | PushCasOk => b | IterLoad => c | _ => rest s end.

(* whatever the other orderings are (even SeqCst everywhere else): if the CAS is not a release or the iterator load
   is not an acquire, the walk is a legal execution, race-free up to the head load, and the capacity read races *)
Theorem adequate_necessary rest a b c :
  adequate (ord3 rest a b c) = false ->
  raced_after {| ord := ord3 rest a b c; next_first := true |} w_publish = Some false /\
  raced_after {| ord := ord3 rest a b c; next_first := true |} (w_publish ++ [LVisit 1]) = Some true.
Proof. destruct a, b, c; intro H; try discriminate H; vm_compute; split; reflexivity. Qed.

Definition all_seqcst : site -> ordering := fun _ => SeqCst.
Example witness_cas_relaxed :
  let c := {| ord := ord3 all_seqcst SeqCst Relaxed SeqCst; next_first := true |} in
  raced_after c w_publish = Some false /\ raced_after c (w_publish ++ [LVisit 1]) = Some true.
Proof. vm_compute. split; reflexivity. Qed.
Example witness_iter_relaxed :
  let c := {| ord := ord3 all_seqcst SeqCst SeqCst Relaxed; next_first := true |} in
  raced_after c w_publish = Some false /\ raced_after c (w_publish ++ [LVisit 1]) = Some true.
Proof. vm_compute. split; reflexivity. Qed.
(* [next] written AFTER the CAS, all orderings SeqCst: thread 1 finds the bucket and loads its [next] (no race yet:
   it reads the initialisation), then thread 0's late write of [next] races with that load *)
Definition w_late : list label := [LAlloc 0; LPushLoad 0 0; LPushCas 0 true 0; LWalkStart 1 1; LWalkNext 1].
Example witness_next_after_cas :
  let c := {| ord := all_seqcst; next_first := false |} in
  raced_after c w_late = Some false /\ raced_after c (w_late ++ [LPushWrite 0]) = Some true.
Proof. vm_compute. split; reflexivity. Qed.
(* and with [next] first that CAS is simply not enabled *)
Example late_cas_not_enabled : raced_after {| ord := all_seqcst; next_first := true |} w_late = None.
Proof. vm_compute. reflexivity. Qed.

(* non-vacuity: a long legal execution under the WEAKEST adequate orderings, exercising every kind of step,
   stale reads, a failed and a successful CAS on both head and len, two pushers, hand-over through a lock *)
Definition w_demo : list label :=
  [LAlloc 0; LAlloc 1; LPushLoad 0 0; LPushLoad 1 0; LPushWrite 0; LPushWrite 1; LPushCas 0 true 0;
   LPushCas 1 false 1; LPushWrite 1; LPushCas 1 true 0;
   LWalkStart 2 2; LVisit 2; LLenLoad 2 0; LLenCas 2 true 0; LCopy 2; LWalkNext 2; LVisit 2; LWalkNext 2; LVisit 2;
   LWalkStart 3 1; LLenCas 3 false 0; LLenCas 3 true 0; LCopy 3;
   LMisc 2 0 MRmw Relaxed 0 7; LMisc 3 0 MLoad Relaxed 0 0; LMisc 3 1 MStore Relaxed 0 9;
   LPublish 2 5 [(2, 1)]; LPublish 3 5 [(1, 1)]; LPublish 0 5 [(1, 0)]; LConsume 4 5 1; LConsume 4 5 2;
   LReadData 4 (1, 1); LReadData 4 (2, 1); LReadData 3 (1, 1); LConsume 4 5 3; LReadData 4 (1, 0);
   LWalkStart 4 2; LVisit 4; LWalkNext 4; LVisit 4; LWalkStart 5 0; LVisit 5; LWalkNext 5].
Example demo_runs : raced_after {| ord := weakest; next_first := true |} w_demo = Some false.
Proof. vm_compute. reflexivity. Qed.

Print Assumptions race_free.
Print Assumptions adequate_necessary.
