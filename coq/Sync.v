(* Sync.v — the data-race clause of C05: a release/acquire VIEW MACHINE with race detection on non-atomic cells,
   and the synchronisation skeleton of the lock-free arena (src/arenas/atomic_bucket.rs, lockfree.rs,
   threaded_rodeo.rs) as labelled steps of that machine, parameterised by the memory orderings of the source sites.

   The machine (promise-free, in the style of the view-based operational semantics of C11 release/acquire):
   * every ATOMIC location has a history of messages; the timestamp of a message is its index in the history;
     a message carries a value, a payload (ghost: the references handed over, only used by lock locations) and a VIEW;
   * every thread has a view: a vector clock [vc] (one component per thread: happens-before) and a coherence map [co]
     (per atomic location, the timestamp of the latest message it has observed); both components travel in messages;
   * a load reads ANY message whose timestamp is >= the thread's coherence view of the location (stale reads are
     allowed); if it is (at least) Acquire it joins the message view into the thread view;
   * a read-modify-write reads the LATEST message (atomicity) and appends its message; the message view is the
     writer's view if the RMW is (at least) Release, joined with the view of the message read (release sequence:
     an RMW continues the release sequence of the message it read, whatever its own ordering);
   * a store appends a message (stores are placed last in modification order: this is fully general for locations
     that are only modified by RMWs after initialisation -- [Head] and [Len b] -- and a simplification for the
     [Lk]/[Misc] locations, on which no proof below depends: all statements quantify over ANY message read there);
   * Relaxed accesses transfer no view but respect coherence;  SeqCst is treated as AcqRel (the extra total order of
     SeqCst only removes behaviours, so this is an over-approximation);
   * every NON-ATOMIC access gets an epoch (tid, clock) (FastTrack style); each cell remembers the epochs of all writes
     and of all reads; a write RACES iff some earlier write or read epoch is not included in the writer's view, a read
     races iff some earlier write epoch is not (ww, rw, wr).  Keeping all epochs instead of the last write and the
     reads since is equivalent up to the first race and flags at least as much.  An atomic access to a location that is
     INITIALISED NON-ATOMICALLY ([next], [len]) is checked as a read of that initialisation (mixed accesses race).
   * locks are release/acquire locations [Lk l]: unlocking is a release store whose payload is the set of references
     made available, locking is an acquire load of ANY earlier unlock.  This over-approximates Mutex and RwLock
     (mutual exclusion is dropped: more executions), which is sound for a no-race theorem. *)
From Coq Require Import List Arith Bool Lia PeanoNat.
Import ListNotations.
Set Implicit Arguments.

Inductive ordering := Relaxed | Acquire | Release | AcqRel | SeqCst.
Definition is_acq (o : ordering) : bool := match o with Acquire | AcqRel | SeqCst => true | _ => false end.
Definition is_rel (o : ordering) : bool := match o with Release | AcqRel | SeqCst => true | _ => false end.

(* the atomic sites of the source *)
Inductive site :=
| PushHeadLoad | PushCasOk | PushCasFail          (* AtomicBucketList::push_front *)
| IterLoad                                        (* AtomicBucketIter::next: loads head, then every bucket's next *)
| LenLoad | LenCasOk | LenCasFail                 (* BucketRef::try_inc_length *)
| AllocUpdOk | AllocUpdFail | LimitLoad           (* LockfreeArena::allocate_memory *)
| CurUsageLoad | SetMaxStore | GetMaxLoad | SetCapStore | CapLoad   (* the Relaxed counters *)
| KeyFetchAdd.                                    (* ThreadedRodeo: key counter *)

Inductive aloc := Head | Len (b : nat) | Lk (l : nat) | Misc (m : nat).
Inductive cell := Cap (b : nat) | Next (b : nat) | LenI (b : nat) | Data (b k : nat).
Definition aloc_dec : forall x y : aloc, {x = y} + {x <> y}. Proof. decide equality; apply Nat.eq_dec. Defined.
Definition cell_dec : forall x y : cell, {x = y} + {x <> y}. Proof. decide equality; apply Nat.eq_dec. Defined.

Definition upd {A B} (dec : forall x y : A, {x = y} + {x <> y}) (f : A -> B) (k : A) (v : B) : A -> B :=
  fun x => if dec x k then v else f x.

Record view := { vc : nat -> nat; co : aloc -> nat }.
Definition vbot : view := {| vc := fun _ => 0; co := fun _ => 0 |}.
Definition vjoin (v w : view) : view :=
  {| vc := fun t => Nat.max (vc v t) (vc w t); co := fun l => Nat.max (co v l) (co w l) |}.
Definition setco (v : view) (l : aloc) (i : nat) : view :=
  {| vc := vc v; co := upd aloc_dec (co v) l (Nat.max (co v l) i) |}.
Definition tick (v : view) (t : nat) : view := {| vc := upd Nat.eq_dec (vc v) t (S (vc v t)); co := co v |}.

Definition range := (nat * nat)%type.      (* (bucket, timestamp of the [len] message that reserved it) *)
Record msg := { mval : nat; mpay : list range; mview : view }.

Definition epoch := (nat * nat)%type.      (* (tid, clock) *)
Definition ele (v : view) (e : epoch) : bool := snd e <=? vc v (fst e).
Record nacell := { nval : nat; wrs : list epoch; rds : list epoch }.
Definition cell0 : nacell := {| nval := 0; wrs := []; rds := [] |}.

(* push_front's local state: bucket in hand, expected head value, whether [next] was written since the last load *)
Inductive pstate := PNone | PLoad (b : nat) | PLoop (b exp : nat) (written : bool) | PLate (b exp : nat).

Record tstate := { tv : view; cur : option nat; pst : pstate; tw : option range; have : list range }.
Definition tstate0 : tstate := {| tv := vbot; cur := None; pst := PNone; tw := None; have := [] |}.

Record state := { hist : aloc -> list msg; na : cell -> nacell; thr : nat -> tstate; nb : nat; raced : bool }.

(* ---------- primitives ---------- *)
Definition range_dec : forall x y : range, {x = y} + {x <> y}. Proof. decide equality; apply Nat.eq_dec. Defined.
Definition with_tv (ts : tstate) (v : view) : tstate :=
  {| tv := v; cur := cur ts; pst := pst ts; tw := tw ts; have := have ts |}.
Definition set_thr (s : state) (t : nat) (ts : tstate) : state :=
  {| hist := hist s; na := na s; thr := upd Nat.eq_dec (thr s) t ts; nb := nb s; raced := raced s |}.

(* non-atomic write of [x] to cell [c] by thread [t]; races with every write/read epoch not in t's view *)
Definition na_write (s : state) (t : nat) (c : cell) (x : nat) : state :=
  let ts := thr s t in let v := tv ts in let cl := na s c in
  let bad := negb (forallb (ele v) (wrs cl) && forallb (ele v) (rds cl)) in
  {| hist := hist s;
     na := upd cell_dec (na s) c {| nval := x; wrs := (t, S (vc v t)) :: wrs cl; rds := rds cl |};
     thr := upd Nat.eq_dec (thr s) t (with_tv ts (tick v t));
     nb := nb s; raced := raced s || bad |}.
(* read of cell [c] by thread [t] (non-atomic, or atomic on a non-atomically initialised location);
   races with every write epoch not in t's view.  The value is [nval (na s c)], taken by the caller. *)
Definition na_read (s : state) (t : nat) (c : cell) : state :=
  let ts := thr s t in let v := tv ts in let cl := na s c in
  let bad := negb (forallb (ele v) (wrs cl)) in
  {| hist := hist s;
     na := upd cell_dec (na s) c {| nval := nval cl; wrs := wrs cl; rds := (t, S (vc v t)) :: rds cl |};
     thr := upd Nat.eq_dec (thr s) t (with_tv ts (tick v t));
     nb := nb s; raced := raced s || bad |}.

(* atomic load of message [i] of [l] with ordering [o] *)
Definition a_load (s : state) (t : nat) (l : aloc) (i : nat) (o : ordering) : option (state * msg) :=
  match nth_error (hist s l) i with
  | Some m =>
      let v := tv (thr s t) in
      if co v l <=? i then
        Some (set_thr s t (with_tv (thr s t) (setco (if is_acq o then vjoin v (mview m) else v) l i)), m)
      else None
  | None => None
  end.
(* atomic RMW on [l] with ordering [o] writing value [x], payload [pay]: reads the latest message; returns it and
   the timestamp of the new message *)
Definition a_rmw (s : state) (t : nat) (l : aloc) (o : ordering) (x : nat) (pay : list range)
  : option (state * msg * nat) :=
  let h := hist s l in
  match nth_error h (pred (length h)) with
  | Some m =>
      let n := length h in
      let v := tv (thr s t) in
      let v1 := setco (if is_acq o then vjoin v (mview m) else v) l n in
      let mv := vjoin (if is_rel o then v1 else setco vbot l n) (mview m) in
      Some ({| hist := upd aloc_dec (hist s) l (h ++ [{| mval := x; mpay := pay; mview := mv |}]);
               na := na s; thr := upd Nat.eq_dec (thr s) t (with_tv (thr s t) v1);
               nb := nb s; raced := raced s |}, m, n)
  | None => None
  end.
(* atomic store (appended) *)
Definition a_store (s : state) (t : nat) (l : aloc) (o : ordering) (x : nat) (pay : list range) : state :=
  let h := hist s l in let n := length h in
  let v1 := setco (tv (thr s t)) l n in
  let mv := if is_rel o then v1 else setco vbot l n in
  {| hist := upd aloc_dec (hist s) l (h ++ [{| mval := x; mpay := pay; mview := mv |}]);
     na := na s; thr := upd Nat.eq_dec (thr s) t (with_tv (thr s t) v1); nb := nb s; raced := raced s |}.

Definition set_cur (s : state) (t : nat) (c : option nat) : state :=
  let ts := thr s t in set_thr s t {| tv := tv ts; cur := c; pst := pst ts; tw := tw ts; have := have ts |}.
Definition set_pst (s : state) (t : nat) (p : pstate) : state :=
  let ts := thr s t in set_thr s t {| tv := tv ts; cur := cur ts; pst := p; tw := tw ts; have := have ts |}.
Definition set_tw (s : state) (t : nat) (r : option range) : state :=
  let ts := thr s t in set_thr s t {| tv := tv ts; cur := cur ts; pst := pst ts; tw := r; have := have ts |}.
Definition set_have (s : state) (t : nat) (h : list range) : state :=
  let ts := thr s t in set_thr s t {| tv := tv ts; cur := cur ts; pst := pst ts; tw := tw ts; have := h |}.

Definition ptr_of (x : nat) : option nat := match x with 0 => None | S b => Some b end.

(* ---------- the skeleton ---------- *)
Record cfg := { ord : site -> ordering; next_first : bool (* push_front writes [next] BEFORE the head CAS *) }.
Inductive mkind := MLoad | MStore | MRmw.

Inductive label :=
| LAlloc (t : nat)                      (* with_capacity + push_slice + set_len on a fresh bucket: all non-atomic *)
| LPushLoad (t i : nat)                 (* push_front: head.load, reading message i *)
| LPushWrite (t : nat)                  (* push_front: non-atomic write of the bucket's next *)
| LPushCas (t : nat) (ok : bool) (i : nat)   (* push_front: compare_exchange_weak; a failure reads message i *)
| LWalkStart (t i : nat)                (* iterator: head.load reading message i *)
| LVisit (t : nat)                      (* non-atomic read of the current bucket's capacity *)
| LWalkNext (t : nat)                   (* iterator: next.load of the current bucket *)
| LLenLoad (t i : nat)                  (* try_inc_length: len.load reading message i *)
| LLenCas (t : nat) (ok : bool) (i : nat)    (* try_inc_length: compare_exchange_weak *)
| LCopy (t : nat)                       (* non-atomic write of the reserved data range *)
| LPublish (t l : nat) (rs : list range)     (* unlock of lock l, making the references rs available *)
| LConsume (t l i : nat)                (* lock of lock l (acquire of unlock message i), obtaining its references *)
| LReadData (t : nat) (r : range)       (* non-atomic read of a data range the thread holds a reference to *)
| LMisc (t m : nat) (k : mkind) (o : ordering) (i x : nat).  (* any atomic access to a counter, ANY ordering *)

Definition msg0 (x : nat) : msg := {| mval := x; mpay := []; mview := vbot |}.
(* bookkeeping of the allocation: the fresh bucket [nb s] now belongs to thread t (no memory access) *)
Definition claim (s : state) (t : nat) : state :=
  let b := nb s in let ts := thr s t in
  {| hist := upd aloc_dec (hist s) (Len b) [msg0 0]; na := na s;
     thr := upd Nat.eq_dec (thr s) t {| tv := tv ts; cur := cur ts; pst := PLoad b; tw := tw ts; have := have ts |};
     nb := S b; raced := raced s |}.
Definition alloc (s : state) (t : nat) : state :=
  let b := nb s in
  let s1 := na_write (claim s t) t (Next b) 0 in      (* with_capacity: next, len, capacity *)
  let s2 := na_write s1 t (LenI b) 0 in
  let s3 := na_write s2 t (Cap b) 0 in
  let s4 := na_write s3 t (Data b 0) 0 in             (* push_slice: the bytes, then set_len *)
  let s5 := na_write s4 t (LenI b) 0 in
  set_have s5 t ((b, 0) :: have (thr s5 t)).

Definition step (c : cfg) (s : state) (lb : label) : option state :=
  match lb with
  | LAlloc t => match pst (thr s t) with PNone => Some (alloc s t) | _ => None end
  | LPushLoad t i =>
      match pst (thr s t) with
      | PLoad b => match a_load s t Head i (ord c PushHeadLoad) with
                   | Some (s1, m) => Some (set_pst s1 t (PLoop b (mval m) false)) | None => None end
      | _ => None end
  | LPushWrite t =>
      match pst (thr s t) with
      | PLoop b e _ => Some (set_pst (na_write s t (Next b) e) t (PLoop b e true))
      | PLate b e => Some (set_pst (na_write s t (Next b) e) t PNone)
      | _ => None end
  | LPushCas t ok i =>
      match pst (thr s t) with
      | PLoop b e w =>
          if ok then
            if w || negb (next_first c) then
              match a_rmw s t Head (ord c PushCasOk) (S b) [] with
              | Some (s1, m, _) =>
                  if mval m =? e then Some (set_pst s1 t (if w then PNone else PLate b e)) else None
              | None => None end
            else None
          else match a_load s t Head i (ord c PushCasFail) with
               | Some (s1, m) => Some (set_pst s1 t (PLoop b (mval m) false)) | None => None end
      | _ => None end
  | LWalkStart t i =>
      match a_load s t Head i (ord c IterLoad) with
      | Some (s1, m) => Some (set_cur s1 t (ptr_of (mval m))) | None => None end
  | LVisit t => match cur (thr s t) with Some b => Some (na_read s t (Cap b)) | None => None end
  | LWalkNext t =>
      match cur (thr s t) with
      | Some b => Some (set_cur (na_read s t (Next b)) t (ptr_of (nval (na s (Next b))))) | None => None end
  | LLenLoad t i =>
      match cur (thr s t) with
      | Some b => match a_load (na_read s t (LenI b)) t (Len b) i (ord c LenLoad) with
                  | Some (s1, _) => Some s1 | None => None end
      | None => None end
  | LLenCas t ok i =>
      match cur (thr s t) with
      | Some b =>
          if ok then
            match tw (thr s t) with
            | None => match a_rmw (na_read s t (LenI b)) t (Len b) (ord c LenCasOk) 0 [] with
                      | Some (s1, _, n) => Some (set_tw s1 t (Some (b, n))) | None => None end
            | Some _ => None end
          else match a_load (na_read s t (LenI b)) t (Len b) i (ord c LenCasFail) with
               | Some (s1, _) => Some s1 | None => None end
      | None => None end
  | LCopy t =>
      match tw (thr s t) with
      | Some (b, k) => Some (set_have (na_write (set_tw s t None) t (Data b k) 0) t ((b, k) :: have (thr s t)))
      | None => None end
  | LPublish t l rs =>
      if forallb (fun r => if in_dec range_dec r (have (thr s t)) then true else false) rs
      then Some (a_store s t (Lk l) Release 0 rs) else None
  | LConsume t l i =>
      match a_load s t (Lk l) i Acquire with
      | Some (s1, m) => Some (set_have s1 t (mpay m ++ have (thr s t))) | None => None end
  | LReadData t r =>
      if in_dec range_dec r (have (thr s t)) then Some (na_read s t (Data (fst r) (snd r))) else None
  | LMisc t m k o i x =>
      match k with
      | MLoad => match a_load s t (Misc m) i o with Some (s1, _) => Some s1 | None => None end
      | MStore => Some (a_store s t (Misc m) o x [])
      | MRmw => match a_rmw s t (Misc m) o x [] with Some (s1, _, _) => Some s1 | None => None end
      end
  end.

(* initial state: the constructor has made bucket 0 and the list head before the arena is shared (its
   initialisation happens-before everything: no epochs recorded); misc counters have an initial message *)
Definition init : state :=
  {| hist := fun l => match l with Head => [msg0 1] | Len 0 => [msg0 0] | Len _ => [] | Lk _ => [msg0 0]
                                 | Misc _ => [msg0 0] end;
     na := fun _ => cell0; thr := fun _ => tstate0; nb := 1; raced := false |}.

Fixpoint run (c : cfg) (s : state) (ls : list label) : option state :=
  match ls with [] => Some s | l :: ls' => match step c s l with Some s' => run c s' ls' | None => None end end.

(* ---------- views, coverage ---------- *)
Definition vle (v w : view) : Prop := forall t, vc v t <= vc w t.
Definition covers (v : view) (es : list epoch) : Prop := forall e, In e es -> snd e <= vc v (fst e).

Lemma vle_refl v : vle v v. Proof. intro; lia. Qed.
Lemma vle_trans u v w : vle u v -> vle v w -> vle u w.
Proof. intros H1 H2 t. specialize (H1 t). specialize (H2 t). lia. Qed.
Lemma vle_join_l v w : vle v (vjoin v w). Proof. intro t. cbn. lia. Qed.
Lemma vle_join_r v w : vle w (vjoin v w). Proof. intro t. cbn. lia. Qed.
Lemma vle_join_lub u v w : vle u w -> vle v w -> vle (vjoin u v) w.
Proof. intros H1 H2 t. specialize (H1 t). specialize (H2 t). cbn. lia. Qed.
Lemma vle_setco v l i : vle v (setco v l i). Proof. intro t. cbn. lia. Qed.
Lemma vle_setco_inv u v l i : vle u v -> vle u (setco v l i). Proof. intros H t. apply H. Qed.
Lemma vle_tick v t : vle v (tick v t).
Proof. intro t'. cbn. unfold upd. destruct (Nat.eq_dec t' t); subst; lia. Qed.
Lemma covers_mono u v es : vle u v -> covers u es -> covers v es.
Proof. intros H C e I. specialize (C e I). specialize (H (fst e)). lia. Qed.
Lemma covers_nil v : covers v []. Proof. intros e []. Qed.
Lemma covers_forallb v es : covers v es -> forallb (ele v) es = true.
Proof. intro C. apply forallb_forall. intros e I. unfold ele. apply Nat.leb_le. auto. Qed.
Lemma vle_ifacq (b : bool) v w : vle v (if b then vjoin v w else v).
Proof. destruct b; [apply vle_join_l | apply vle_refl]. Qed.

(* ---------- the invariant ---------- *)
Definition powner (p : pstate) : option nat :=
  match p with PNone => None | PLoad b => Some b | PLoop b _ _ => Some b | PLate b _ => Some b end.
Definition prevval (h : list msg) (i : nat) : nat :=
  match i with 0 => 0 | S j => match nth_error h j with Some m => mval m | None => 0 end end.
Definition bcov (s : state) (b : nat) (v : view) : Prop :=
  covers v (wrs (na s (Cap b))) /\ covers v (wrs (na s (Next b))) /\ covers v (wrs (na s (LenI b))).

Record Inv (s : state) : Prop := {
  i_clock : forall c e, In e (wrs (na s c)) \/ In e (rds (na s c)) -> snd e <= vc (tv (thr s (fst e))) (fst e);
  (* publication protocol: head / next / capacity / len initialisation *)
  i_head : forall i m b, nth_error (hist s Head) i = Some m -> mval m = S b ->
      b < nb s /\ bcov s b (mview m) /\ nval (na s (Next b)) = prevval (hist s Head) i /\
      (forall t, powner (pst (thr s t)) <> Some b);
  i_chain : forall i m m', nth_error (hist s Head) i = Some m -> nth_error (hist s Head) (S i) = Some m' ->
      vle (mview m) (mview m');
  i_cur : forall t b, cur (thr s t) = Some b ->
      exists i m, nth_error (hist s Head) i = Some m /\ mval m = S b /\ vle (mview m) (tv (thr s t));
  i_own : forall t b, powner (pst (thr s t)) = Some b ->
      b < nb s /\
      (forall e, In e (wrs (na s (Cap b))) \/ In e (wrs (na s (Next b))) \/ In e (wrs (na s (LenI b))) -> fst e = t) /\
      rds (na s (Cap b)) = [] /\ rds (na s (Next b)) = [] /\ rds (na s (LenI b)) = [] /\
      (forall t', powner (pst (thr s t')) = Some b -> t' = t);
  i_written : forall t b e, pst (thr s t) = PLoop b e true -> nval (na s (Next b)) = e;
  i_nolate : forall t b e, pst (thr s t) <> PLate b e;
  i_fresh : forall b, nb s <= b ->
      na s (Cap b) = cell0 /\ na s (Next b) = cell0 /\ na s (LenI b) = cell0 /\ hist s (Len b) = [];
  (* data ranges: reserved by an RMW on len (unique timestamp), written once, handed over through locks *)
  i_dfresh : forall b k, wrs (na s (Data b k)) <> [] \/ rds (na s (Data b k)) <> [] -> k < length (hist s (Len b));
  i_tw : forall t b k, tw (thr s t) = Some (b, k) ->
      wrs (na s (Data b k)) = [] /\ rds (na s (Data b k)) = [] /\ k < length (hist s (Len b)) /\
      (forall t', tw (thr s t') = Some (b, k) -> t' = t);
  i_have : forall t b k, In (b, k) (have (thr s t)) ->
      wrs (na s (Data b k)) <> [] /\ covers (tv (thr s t)) (wrs (na s (Data b k)));
  i_lock : forall l i m b k, nth_error (hist s (Lk l)) i = Some m -> In (b, k) (mpay m) ->
      wrs (na s (Data b k)) <> [] /\ covers (mview m) (wrs (na s (Data b k)));
  i_rd : forall b k, rds (na s (Data b k)) <> [] -> wrs (na s (Data b k)) <> [];
  i_norace : raced s = false }.
Lemma nth_error_single A (x m : A) i : nth_error [x] i = Some m -> i = 0 /\ m = x.
Proof. destruct i; cbn; [intro H; inversion H; auto | destruct i; discriminate]. Qed.

Lemma Inv_init : Inv init.
Proof.
  constructor; cbn; intros.
  - destruct H as [[]|[]].
  - apply nth_error_single in H as [-> ->]. cbn in H0. inversion H0; subst b.
    repeat split; try lia; try apply covers_nil. intros t. cbn. discriminate.
  - apply nth_error_single in H as [-> ->]. cbn in H0. discriminate.
  - discriminate.
  - discriminate.
  - discriminate.
  - discriminate.
  - destruct b; [lia|]. auto.
  - destruct H as [H|H]; congruence.
  - discriminate.
  - destruct H.
  - apply nth_error_single in H as [-> ->]. destruct H0.
  - congruence.
  - reflexivity.
Qed.

(* a state that differs only by larger thread views *)
Lemma Inv_grow s s' :
  hist s' = hist s -> na s' = na s -> nb s' = nb s -> raced s' = raced s ->
  (forall t, vle (tv (thr s t)) (tv (thr s' t)) /\ cur (thr s' t) = cur (thr s t) /\ pst (thr s' t) = pst (thr s t) /\
             tw (thr s' t) = tw (thr s t) /\ have (thr s' t) = have (thr s t)) ->
  Inv s -> Inv s'.
Proof.
  intros Hh Hn Hb Hr Ht I.
  assert (Tv : forall t, vle (tv (thr s t)) (tv (thr s' t))) by (intro t; apply Ht).
  assert (Tc : forall t, cur (thr s' t) = cur (thr s t)) by (intro t; apply Ht).
  assert (Tp : forall t, pst (thr s' t) = pst (thr s t)) by (intro t; apply Ht).
  assert (Tw : forall t, tw (thr s' t) = tw (thr s t)) by (intro t; apply Ht).
  assert (Th : forall t, have (thr s' t) = have (thr s t)) by (intro t; apply Ht).
  destruct I as [i_clock0 i_head0 i_chain0 i_cur0 i_own0 i_written0 i_nolate0 i_fresh0 i_dfresh0 i_tw0 i_have0 i_lock0 i_rd0 i_norace0]. unfold bcov in *.
  constructor; unfold bcov; try rewrite Hh; try rewrite Hn; try rewrite Hb; try rewrite Hr; auto.
  - intros c e H. specialize (i_clock0 c e H). specialize (Tv (fst e) (fst e)). lia.
  - intros i m b H1 H2. destruct (i_head0 i m b H1 H2) as (A & B & C & D). repeat split; auto; try apply B.
    intro t. rewrite Tp. auto.
  - intros t b H. rewrite Tc in H. destruct (i_cur0 t b H) as (i & m & A & B & C).
    exists i, m. split; [auto|split; [auto|]]. eapply vle_trans; [exact C | apply Tv].
  - intros t b H. rewrite Tp in H. destruct (i_own0 t b H) as (A & B & C & D & E & F).
    refine (conj A (conj B (conj C (conj D (conj E _))))). intros t'. rewrite Tp. auto.
  - intros t b e. rewrite Tp. apply i_written0.
  - intros t b e. rewrite Tp. apply i_nolate0.
  - intros t b k. rewrite Tw. intro H. destruct (i_tw0 t b k H) as (A & B & C & D). refine (conj A (conj B (conj C _))).
    intros t'. rewrite Tw. auto.
  - intros t b k. rewrite Th. intro H. destruct (i_have0 t b k H) as (A & B). split; auto.
    eapply covers_mono; [apply Tv | exact B].
Qed.

Definition grows (s s' : state) : Prop :=
  hist s' = hist s /\ na s' = na s /\ nb s' = nb s /\ raced s' = raced s /\
  (forall t, vle (tv (thr s t)) (tv (thr s' t)) /\ cur (thr s' t) = cur (thr s t) /\ pst (thr s' t) = pst (thr s t) /\
             tw (thr s' t) = tw (thr s t) /\ have (thr s' t) = have (thr s t)).
Lemma grows_Inv s s' : grows s s' -> Inv s -> Inv s'.
Proof. intros (A & B & C & D & E). apply Inv_grow; auto. Qed.

Lemma grows_set_tv s t v : vle (tv (thr s t)) v -> grows s (set_thr s t (with_tv (thr s t) v)).
Proof.
  intro H. unfold grows; cbn. repeat (split; [reflexivity|]). intro t'. unfold upd.
  destruct (Nat.eq_dec t' t); subst; cbn; repeat split; auto; apply vle_refl.
Qed.

Lemma a_load_spec s t l i o s1 m :
  a_load s t l i o = Some (s1, m) ->
  grows s s1 /\ nth_error (hist s l) i = Some m /\ (is_acq o = true -> vle (mview m) (tv (thr s1 t))).
Proof.
  unfold a_load. destruct (nth_error (hist s l) i) as [m'|] eqn:E; [|discriminate].
  destruct (co (tv (thr s t)) l <=? i); [|discriminate]. intro H; inversion H; subst; clear H.
  split; [|split; [reflexivity|]].
  - apply grows_set_tv. apply vle_setco_inv. apply vle_ifacq.
  - intro A. rewrite A. cbn. unfold upd. destruct (Nat.eq_dec t t); [|congruence]. cbn.
    intro t'. cbn. lia.
Qed.
Lemma upd_eq A B dec (f : A -> B) k v : upd dec f k v k = v.
Proof. unfold upd. destruct (dec k k); congruence. Qed.
Lemma upd_neq A B dec (f : A -> B) k v x : x <> k -> upd dec f k v x = f x.
Proof. unfold upd. destruct (dec x k); congruence. Qed.

Definition tsame (s s' : state) : Prop :=
  forall t, vle (tv (thr s t)) (tv (thr s' t)) /\ cur (thr s' t) = cur (thr s t) /\ pst (thr s' t) = pst (thr s t) /\
            tw (thr s' t) = tw (thr s t) /\ have (thr s' t) = have (thr s t).

Lemma na_read_frame s t c :
  let s' := na_read s t c in
  hist s' = hist s /\ nb s' = nb s /\ tsame s s' /\
  (forall c', nval (na s' c') = nval (na s c') /\ wrs (na s' c') = wrs (na s c') /\ (c' <> c -> na s' c' = na s c')) /\
  rds (na s' c) = (t, S (vc (tv (thr s t)) t)) :: rds (na s c) /\
  vc (tv (thr s' t)) t = S (vc (tv (thr s t)) t).
Proof.
  unfold na_read; cbn. split; [reflexivity|]. split; [reflexivity|]. split; [|split; [|split]].
  - intro t'. cbn. destruct (Nat.eq_dec t' t) as [->|N].
    + rewrite !upd_eq. cbn. split; [apply vle_tick | repeat split].
    + rewrite !upd_neq by auto. split; [apply vle_refl | repeat split].
  - intro c'. destruct (cell_dec c' c) as [->|N].
    + rewrite !upd_eq. cbn. repeat split. congruence.
    + rewrite !upd_neq by auto. repeat split.
  - rewrite upd_eq. reflexivity.
  - rewrite upd_eq. cbn. rewrite upd_eq. reflexivity.
Qed.

Definition bucket_of (c : cell) : option nat :=
  match c with Cap b | Next b | LenI b => Some b | Data _ _ => None end.

Lemma na_read_Inv s t c :
  Inv s -> covers (tv (thr s t)) (wrs (na s c)) ->
  (forall b, bucket_of c = Some b -> b < nb s /\ forall t', powner (pst (thr s t')) <> Some b) ->
  (bucket_of c = None -> wrs (na s c) <> []) ->
  Inv (na_read s t c).
Proof.
  intros I Cv Hb Hd.
  destruct (na_read_frame s t c) as (Fh & Fb & Ft & Fc & Fr & Fv).
  remember (na_read s t c) as s' eqn:Es.
  assert (Tv : forall t, vle (tv (thr s t)) (tv (thr s' t))) by (intro t0; apply Ft).
  assert (Tc : forall t, cur (thr s' t) = cur (thr s t)) by (intro t0; apply Ft).
  assert (Tp : forall t, pst (thr s' t) = pst (thr s t)) by (intro t0; apply Ft).
  assert (Tw : forall t, tw (thr s' t) = tw (thr s t)) by (intro t0; apply Ft).
  assert (Th : forall t, have (thr s' t) = have (thr s t)) by (intro t0; apply Ft).
  assert (Fw : forall c', wrs (na s' c') = wrs (na s c')) by (intro c'; apply Fc).
  assert (Fn : forall c', nval (na s' c') = nval (na s c')) by (intro c'; apply Fc).
  assert (Fo : forall c', c' <> c -> na s' c' = na s c') by (intro c'; apply Fc).
  destruct I as [i_clock0 i_head0 i_chain0 i_cur0 i_own0 i_written0 i_nolate0 i_fresh0 i_dfresh0 i_tw0 i_have0 i_lock0 i_rd0 i_norace0].
  constructor; unfold bcov in *; try rewrite Fh; try rewrite Fb.
  - intros c' e H. rewrite Fw in H.
    assert (G : snd e <= vc (tv (thr s (fst e))) (fst e) -> snd e <= vc (tv (thr s' (fst e))) (fst e)).
    { intro G. specialize (Tv (fst e) (fst e)). lia. }
    destruct H as [H|H]; [apply G; eauto|].
    destruct (cell_dec c' c) as [->|N].
    + rewrite Fr in H. destruct H as [<-|H]; [cbn; rewrite Fv; lia | apply G; eauto].
    + rewrite (Fo c' N) in H. apply G; eauto.
  - intros i m b H1 H2. destruct (i_head0 i m b H1 H2) as (A & B & C & D). rewrite !Fw, Fn.
    refine (conj A (conj B (conj C _))). intro t0. rewrite Tp. auto.
  - exact i_chain0.
  - intros t0 b H. rewrite Tc in H. destruct (i_cur0 t0 b H) as (i & m & A & B & C).
    exists i, m. split; [auto|split; [auto|]]. eapply vle_trans; [exact C | apply Tv].
  - intros t0 b H. rewrite Tp in H. destruct (i_own0 t0 b H) as (A & B & C & D & E & F). rewrite !Fw.
    assert (N : forall c', bucket_of c' = Some b -> c' <> c).
    { intros c' Q ->. destruct (Hb b Q) as [_ X]. apply (X t0 H). }
    rewrite (Fo (Cap b)), (Fo (Next b)), (Fo (LenI b)) by (apply N; reflexivity).
    refine (conj A (conj B (conj C (conj D (conj E _))))). intros t'. rewrite Tp. auto.
  - intros t0 b e. rewrite Tp, Fn. apply i_written0.
  - intros t0 b e. rewrite Tp. apply i_nolate0.
  - intros b H. destruct (i_fresh0 b H) as (A & B & C & D).
    assert (N : forall c', bucket_of c' = Some b -> c' <> c).
    { intros c' Q ->. destruct (Hb b Q) as [X _]. lia. }
    rewrite (Fo (Cap b)), (Fo (Next b)), (Fo (LenI b)) by (apply N; reflexivity). auto.
  - intros b k H. destruct (cell_dec (Data b k) c) as [E|N].
    + apply i_dfresh0. left. rewrite E. apply Hd. rewrite <- E. reflexivity.
    + rewrite (Fo _ N) in H. auto.
  - intros t0 b k. rewrite Tw. intro H. destruct (i_tw0 t0 b k H) as (A & B & C & D). rewrite Fw.
    destruct (cell_dec (Data b k) c) as [E|N].
    + exfalso. apply Hd; [rewrite <- E; reflexivity | rewrite <- E; exact A].
    + rewrite (Fo _ N). refine (conj A (conj B (conj C _))). intros t'. rewrite Tw. auto.
  - intros t0 b k. rewrite Th, Fw. intro H. destruct (i_have0 t0 b k H) as (A & B). split; auto.
    eapply covers_mono; [apply Tv | exact B].
  - intros l i m b k. rewrite Fw. apply i_lock0.
  - intros b k. rewrite Fw. destruct (cell_dec (Data b k) c) as [E|N].
    + intros _. rewrite E. apply Hd. rewrite <- E. reflexivity.
    + rewrite (Fo _ N). apply i_rd0.
  - subst s'. cbn. rewrite i_norace0. cbn. rewrite covers_forallb; auto.
Qed.
