(* Arena.v — executable model of lasso's two bump arenas
     src/arenas/bucket.rs + single_threaded.rs   (Arena: Vec of buckets, bump into the LAST one)
     src/arenas/atomic_bucket.rs + lockfree.rs   (LockfreeArena as seen by ONE thread:
                                                  list of buckets, newest first, first fit)
   Model file: definitions only.  Proofs are in ArenaProofs.v. *)
From Lasso Require Export Base.

(* A storage block.  [bid] is the block's identity (its address in the implementation; the
   model hands out fresh numbers), [bcap] the bytes it can hold, [bused] the bump index,
   [bdata] its memory (bcap bytes; a fresh block holds arbitrary = here zero bytes). *)
Record block := mkBlock { bid : N; bcap : N; bused : N; bdata : list byte }.

Record arena := mkArena {
  blocks : list block;   (* Arena: the Vec's order (last = bump target).  Lockfree: head first *)
  bucket_cap : N;        (* bucket_capacity *)
  usage : N;             (* memory_usage *)
  limit : N;             (* max_memory_usage *)
  next_bid : N           (* model only: the next fresh block identity *)
}.

(* What the interner stores per key: the &'static str *)
Inductive sref :=
| REmpty                               (* the literal "" returned for empty strings *)
| RStatic (addr : N) (s : str)         (* the caller's own 'static string: identity + content *)
| RArena (b off len : N).              (* len bytes at offset off of block b *)

Definition fresh_block (id cap : N) : block :=
  mkBlock id cap 0 (repeat 0 (N.to_nat cap)).

(* Arena::new / LockfreeArena::new *)
Definition arena_new (cap lim : N) : arena :=
  mkArena [fresh_block 0 cap] cap cap lim 1.

Fixpoint find_block (id : N) (bs : list block) : option block :=
  match bs with
  | [] => None
  | b :: t => if bid b =? id then Some b else find_block id t
  end.

(* dereference a stored &str *)
Definition read (a : arena) (r : sref) : option str :=
  match r with
  | REmpty => Some []
  | RStatic _ s => Some s
  | RArena b off len =>
      match find_block b (blocks a) with
      | Some blk =>
          if off + len <=? N.of_nat (length (bdata blk))
          then Some (bread (bdata blk) (N.to_nat off) (N.to_nat len))
          else None
      | None => None
      end
  end.

(* Bucket::push_slice / UniqueBucketRef::push_slice: unchecked copy at the bump index *)
Definition push_slice (b : block) (s : str) : block * sref :=
  (mkBlock (bid b) (bcap b) (bused b + slen s) (bwrite (bdata b) (N.to_nat (bused b)) s),
   RArena (bid b) (bused b) (slen s)).

Arguments push_slice : simpl never.

(* Bucket::clear *)
Definition block_clear (b : block) : block := mkBlock (bid b) (bcap b) 0 (bdata b).

(* Arena::clear: every bucket's index back to 0, memory kept *)
Definition arena_clear (a : arena) : arena :=
  mkArena (map block_clear (blocks a)) (bucket_cap a) (usage a) (limit a) (next_bid a).

Definition set_limit (a : arena) (m : N) : arena :=
  mkArena (blocks a) (bucket_cap a) (usage a) m (next_bid a).

(* ------------------------------------------------------------------------------------ *)
(* The growth step shared by both arenas.  [place] says where the new block goes
   ([oversized] tells the two cases apart: the Vec arena inserts an oversized block at
   len-2 and pushes the others at the end; the lock-free arena pushes everything in front).
   [guard] is the F1 repair ("the string must fit in what is left under the limit"); the
   legacy variants below switch it off to pin the defect of the unrepaired code. *)
Section Grow.
  Variable place : bool (*oversized*) -> block -> list block -> list block.
  Variable guard : bool.

  Definition grow (a : arena) (s : str) : arena * res sref :=
    let len := slen s in
    let next := 2 * bucket_cap a in
    if next <? len then
      (* a bucket of exactly the string's size *)
      if limit a <? usage a + len then (a, Err MemoryLimitReached)        (* allocate_memory(len) *)
      else
        let (b, r) := push_slice (fresh_block (next_bid a) len) s in
        (mkArena (place true b (blocks a)) (bucket_cap a) (usage a + len) (limit a)
                 (next_bid a + 1), Ok r)
    else if limit a <? usage a + next then
      (* "just allocate as much as we can" *)
      let remaining := limit a - usage a in                               (* saturating_sub *)
      if guard && (remaining <? len) then (a, Err MemoryLimitReached)
      else if limit a <? usage a + remaining then (a, Err MemoryLimitReached) (* allocate_memory(remaining) *)
      else if remaining =? 0 then
        (mkArena (blocks a) (bucket_cap a) (usage a + remaining) (limit a) (next_bid a),
         Err MemoryLimitReached)                                          (* NonZeroUsize::new(0) *)
      else
        let (b, r) := push_slice (fresh_block (next_bid a) remaining) s in
        (mkArena (place false b (blocks a)) (bucket_cap a) (usage a + remaining) (limit a)
                 (next_bid a + 1), Ok r)
    else
      (* a regular doubled bucket *)
      if limit a <? usage a + next then (a, Err MemoryLimitReached)       (* allocate_memory(next) *)
      else
        let (b, r) := push_slice (fresh_block (next_bid a) next) s in
        (mkArena (place false b (blocks a)) next (usage a + next) (limit a)
                 (next_bid a + 1), Ok r).
End Grow.

(* ---- Arena (single-threaded): src/arenas/single_threaded.rs store_str ---- *)

Definition vec_place (oversized : bool) (b : block) (bs : list block) : list block :=
  if oversized then insert_at (length bs - 2) b bs   (* buckets.insert(len.saturating_sub(2), b) *)
  else bs ++ [b].                                     (* buckets.push(b) *)

Definition vec_store_gen (guard : bool) (a : arena) (s : str) : arena * res sref :=
  match s with
  | [] => (a, Ok REmpty)
  | _ =>
    match last_opt (blocks a) with
    | Some b =>
        if slen s <=? bcap b - bused b                 (* free_elements() >= len *)
        then let (b', r) := push_slice b s in
             (mkArena (set_last b' (blocks a)) (bucket_cap a) (usage a) (limit a) (next_bid a),
              Ok r)
        else grow vec_place guard a s
    | None => grow vec_place guard a s
    end
  end.

Definition vec_store := vec_store_gen true.
Definition vec_store_legacy := vec_store_gen false.    (* the tree before the F1 fix *)

(* ---- LockfreeArena used by one thread: src/arenas/lockfree.rs store_str ---- *)

(* first bucket in list order whose try_inc_length succeeds *)
Fixpoint lf_first_fit (bs : list block) (s : str) : option (list block * sref) :=
  match bs with
  | [] => None
  | b :: t =>
      if bused b + slen s <=? bcap b                  (* new_length <= capacity *)
      then let (b', r) := push_slice b s in Some (b' :: t, r)
      else match lf_first_fit t s with
           | Some (t', r) => Some (b :: t', r)
           | None => None
           end
  end.

Definition lf_place (_ : bool) (b : block) (bs : list block) : list block := b :: bs. (* push_front *)

Definition lf_store_gen (guard : bool) (a : arena) (s : str) : arena * res sref :=
  match s with
  | [] => (a, Ok REmpty)
  | _ =>
    match lf_first_fit (blocks a) s with
    | Some (bs', r) => (mkArena bs' (bucket_cap a) (usage a) (limit a) (next_bid a), Ok r)
    | None => grow lf_place guard a s
    end
  end.

Definition lf_store := lf_store_gen true.
Definition lf_store_legacy := lf_store_gen false.

(* ---- invariants (stated here so that model-level files can mention them; proved in
        ArenaProofs.v) ---- *)

Definition block_ok (b : block) : Prop :=
  bused b <= bcap b /\ N.of_nat (length (bdata b)) = bcap b /\ 0 < bcap b.

Definition ArenaInv (a : arena) : Prop :=
  blocks a <> [] /\
  Forall block_ok (blocks a) /\
  NoDup (map bid (blocks a)) /\
  Forall (fun b => bid b < next_bid a) (blocks a) /\
  usage a = sum_N (map bcap (blocks a)) /\
  0 < bucket_cap a.

(* a stored reference is valid in an arena: it lies inside the used part of a live block *)
Definition ref_ok (a : arena) (r : sref) : Prop :=
  match r with
  | REmpty | RStatic _ _ => True
  | RArena b off len =>
      0 < len /\ exists blk, find_block b (blocks a) = Some blk /\ off + len <= bused blk
  end.

(* two stored references do not overlap *)
Definition refs_disjoint (r1 r2 : sref) : Prop :=
  match r1, r2 with
  | RArena b1 o1 l1, RArena b2 o2 l2 => b1 <> b2 \/ o1 + l1 <= o2 \/ o2 + l2 <= o1
  | _, _ => True
  end.

(* boolean mirrors, for the executable checks and the runner *)
Definition block_okb (b : block) : bool :=
  (bused b <=? bcap b) && (N.of_nat (length (bdata b)) =? bcap b) && (0 <? bcap b).

Definition arena_okb (a : arena) : bool :=
  negb (match blocks a with [] => true | _ => false end)
  && forallb block_okb (blocks a)
  && (usage a =? sum_N (map bcap (blocks a)))
  && (0 <? bucket_cap a).
