(* Markers.v -- the auto-trait rules for Send / Sync over the type grammar of Facts.v (C19).

   The tables (`marker_impls`, `fields`, `raw_block_markers`) are extracted from the source text on every run
   (tools/extract_facts.py -> Facts.v).  This file is the hand-written, fixed part: how rustc derives the two
   auto traits for a struct from those tables.

   Rules (The Rust Reference, "Auto traits"; std docs of the types involved):
     * a struct / enum has an auto trait iff all its fields have it, UNLESS a manual (`unsafe`) impl exists:
       then it has the trait exactly when the impl's bounds hold (a positive impl switches the structural rule off);
     * `&T : Send <-> T : Sync`, `&T : Sync <-> T : Sync`;
     * `*const T`, `*mut T`, `NonNull<T>` have neither;
     * `PhantomData<T>` behaves as `T`;  `fn() -> T` has both, whatever `T`;
     * `Vec<T>` (global allocator), `HashMap<K, V, S>` (hashbrown) are structural;
     * integers, `()`, `str`, `AtomicUsize`, `AtomicPtr<T>` have both;
     * TRUSTED (from dashmap 6.0.0 and lock_api, not re-derived here): `DashMap<K, V, S>` is
       `Box<[CachePadded<RwLock<HashMap<K, SharedValue<V>>>>]>` + `S`; `RwLock<T> : Send <-> T : Send`,
       `RwLock<T> : Sync <-> T : Send + Sync`; hence  Send <-> K, V, S Send;  Sync <-> K, V Send + Sync and S Sync;
     * the arena types `Arena`, `LockfreeArena`, `AnyArena` hold raw blocks; they are Send + Sync exactly because of
       the four unconditional `unsafe impl`s on `Bucket` / `AtomicBucket` (`Facts.arena_markers_unconditional`);
       the extractor checks that their remaining fields are integers / atomics.  *)
Require Import Coq.Strings.String Coq.Lists.List Coq.Bool.Bool.
Require Import Lasso.Facts.
Import ListNotations.

(* what is known about a type parameter *)
Record flags := { f_send : bool; f_sync : bool }.

Definition all_flags : list flags :=
  [ {| f_send := true;  f_sync := true  |};     (* ordinary *)
    {| f_send := false; f_sync := true  |};     (* Sync, not Send *)
    {| f_send := true;  f_sync := false |};     (* Send, not Sync *)
    {| f_send := false; f_sync := false |} ].   (* neither *)
Definition ordinary : flags := {| f_send := true; f_sync := true |}.

Lemma all_flags_complete : forall f, In f all_flags.
Proof. intros [[|] [|]]; simpl; auto. Qed.

Definition all_containers := [Rodeo; ThreadedRodeo; RodeoReader; RodeoResolver].
Definition all_markers := [Send; Sync].
Lemma all_containers_complete : forall c, In c all_containers.
Proof. intros []; simpl; auto 6. Qed.
Lemma all_markers_complete : forall m, In m all_markers.
Proof. intros []; simpl; auto. Qed.

Section Rules.
  Variable arenas_ok : bool.       (* Facts.arena_markers_unconditional *)
  Variables k s : flags.

  Fixpoint ty_send (t : ty) : bool :=
    match t with
    | TK => f_send k | TS => f_send s
    | TUnit | TPlain | TStr | TAtomic => true
    | TRef t' => ty_sync t'
    | TPhantom t' => ty_send t'
    | TFnRet _ => true
    | TRawPtr _ | TNonNull _ => false
    | TVec t' => ty_send t'
    | THashMap a b c => ty_send a && ty_send b && ty_send c
    | TDashMap a b c => ty_send a && ty_send b && ty_send c
    | TArena | TLockfreeArena | TAnyArena => arenas_ok
    end
  with ty_sync (t : ty) : bool :=
    match t with
    | TK => f_sync k | TS => f_sync s
    | TUnit | TPlain | TStr | TAtomic => true
    | TRef t' => ty_sync t'
    | TPhantom t' => ty_sync t'
    | TFnRet _ => true
    | TRawPtr _ | TNonNull _ => false
    | TVec t' => ty_sync t'
    | THashMap a b c => ty_sync a && ty_sync b && ty_sync c
    | TDashMap a b c => (ty_send a && ty_sync a) && (ty_send b && ty_sync b) && ty_sync c
    | TArena | TLockfreeArena | TAnyArena => arenas_ok
    end.

  Definition ty_has (m : marker) (t : ty) : bool :=
    match m with Send => ty_send t | Sync => ty_sync t end.

  Definition atom_holds (a : atom) : bool :=
    match a with KSend => f_send k | KSync => f_sync k | SSend => f_send s | SSync => f_sync s end.
End Rules.

Definition container_eqb (a b : container) : bool :=
  match a, b with
  | Rodeo, Rodeo | ThreadedRodeo, ThreadedRodeo | RodeoReader, RodeoReader | RodeoResolver, RodeoResolver => true
  | _, _ => false
  end.
Definition marker_eqb (a b : marker) : bool :=
  match a, b with Send, Send | Sync, Sync => true | _, _ => false end.

Definition find_impl (impls : list (container * marker * list atom)) (c : container) (m : marker) : option (list atom) :=
  match find (fun e => container_eqb (fst (fst e)) c && marker_eqb (snd (fst e)) m) impls with
  | Some e => Some (snd e)
  | None => None
  end.

Definition fields_of (defs : list (container * list (string * ty))) (c : container) : option (list (string * ty)) :=
  match find (fun e => container_eqb (fst e) c) defs with
  | Some e => Some (snd e)
  | None => None
  end.

(* does rustc derive `c<K, S> : m` when K has flags k and S has flags s?  (a container whose definition was not
   extracted derives nothing.) *)
Definition derive_with (defs : list (container * list (string * ty))) (impls : list (container * marker * list atom))
           (arenas_ok : bool) (c : container) (m : marker) (k s : flags) : bool :=
  match find_impl impls c m with
  | Some bounds => forallb (atom_holds k s) bounds
  | None => match fields_of defs c with
            | Some fs => forallb (fun f => ty_has arenas_ok k s m (snd f)) fs
            | None => false
            end
  end.

Definition derive : container -> marker -> flags -> flags -> bool :=
  derive_with Facts.fields Facts.marker_impls Facts.arena_markers_unconditional.

(* the specification: the strongest marker the parameters allow.  RodeoResolver<K> has no hasher. *)
Definition allowed (c : container) (m : marker) (k s : flags) : bool :=
  match c, m with
  | RodeoResolver, Send => f_send k
  | RodeoResolver, Sync => f_sync k
  | _, Send => f_send k && f_send s
  | _, Sync => f_sync k && f_sync s
  end.

(* the whole matrix, as a list of cells; the same enumeration order is used by tools/eng_rustc.py *)
Definition cells : list (container * marker * flags * flags) :=
  flat_map (fun c => flat_map (fun m => flat_map (fun k => map (fun s => (c, m, k, s)) all_flags) all_flags) all_markers) all_containers.

Lemma cells_complete : forall c m k s, In (c, m, k, s) cells.
Proof.
  intros c m k s. unfold cells.
  apply in_flat_map. exists c. split; [apply all_containers_complete|].
  apply in_flat_map. exists m. split; [apply all_markers_complete|].
  apply in_flat_map. exists k. split; [apply all_flags_complete|].
  apply in_map_iff. exists s. split; [reflexivity|apply all_flags_complete].
Qed.

Definition no_stronger_check (d : container -> marker -> flags -> flags -> bool) : bool :=
  forallb (fun x => match x with (c, m, k, s) => implb (d c m k s) (allowed c m k s) end) cells.

Lemma no_stronger_sound : forall d, no_stronger_check d = true ->
  forall c m k s, d c m k s = true -> allowed c m k s = true.
Proof.
  intros d H c m k s Hd. unfold no_stronger_check in H.
  rewrite forallb_forall in H. specialize (H _ (cells_complete c m k s)). simpl in H.
  rewrite Hd in H. exact H.
Qed.

(* printing helper for the rustc matrix: one row per cell *)
Definition flag_name (f : flags) : string :=
  match f_send f, f_sync f with
  | true, true => "Ord" | false, true => "SyncNotSend" | true, false => "SendNotSync" | false, false => "Neither"
  end.
Definition container_name (c : container) : string :=
  match c with Rodeo => "Rodeo" | ThreadedRodeo => "ThreadedRodeo" | RodeoReader => "RodeoReader" | RodeoResolver => "RodeoResolver" end.
Definition marker_name (m : marker) : string := match m with Send => "Send" | Sync => "Sync" end.
Definition derive_rows : list (string * string * string * string * bool) :=
  map (fun x => match x with (c, m, k, s) => (container_name c, marker_name m, flag_name k, flag_name s, derive c m k s) end) cells.
