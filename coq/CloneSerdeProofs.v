(* CloneSerdeProofs.v — cloning (try_clone / try_clone_from) and the list-shaped
   deserialisers (Rodeo / RodeoReader / RodeoResolver), for ALL inputs. *)
From Lasso Require Import Base Arena ArenaProofs Rodeo RodeoInv RodeoProofs.

(* the implicit-argument declarations of Rodeo.v do not survive its section *)
#[local] Arguments DOk {A} a.
#[local] Arguments DErr {A}.
#[local] Arguments DPanic {A}.

(* ---------- list helpers ---------- *)

Lemma last_opt_app_single {A} (l : list A) x : last_opt (l ++ [x]) = Some x.
Proof.
  induction l as [|y l IH]; [reflexivity|].
  change ((y :: l) ++ [x]) with (y :: (l ++ [x])).
  destruct (l ++ [x]) as [|z t] eqn:E; [destruct l; discriminate|].
  exact IH.
Qed.

Lemma sum_N_cons x l : sum_N (x :: l) = x + sum_N l.
Proof. reflexivity. Qed.

(* ---------- 1. a string that fits in the last block is bumped into it ---------- *)

(* the last block after the bump copy *)
Definition bump (b : block) (s : str) : block :=
  mkBlock (bid b) (bcap b) (bused b + slen s) (bwrite (bdata b) (N.to_nat (bused b)) s).

Lemma vec_store_nil a : vec_store a [] = (a, Ok REmpty).
Proof. reflexivity. Qed.

(* the exact result (no invariant needed) *)
Lemma vec_store_fits_eq a b s :
  last_opt (blocks a) = Some b -> s <> [] -> slen s <= bcap b - bused b ->
  vec_store a s =
  (mkArena (set_last (bump b s) (blocks a)) (bucket_cap a) (usage a) (limit a) (next_bid a),
   Ok (RArena (bid b) (bused b) (slen s))).
Proof.
  intros Hl Hs Hfit. unfold vec_store, vec_store_gen.
  destruct s as [|c s0]; [congruence|].
  rewrite Hl. apply N.leb_le in Hfit. rewrite Hfit. reflexivity.
Qed.

(* the statement asked for: same block list except that the last block is bumped *)
Lemma vec_store_fits a b s :
  ArenaInv a -> last_opt (blocks a) = Some b -> s <> [] -> slen s <= bcap b - bused b ->
  exists a' ref l1,
    vec_store a s = (a', Ok ref) /\
    ref = RArena (bid b) (bused b) (slen s) /\
    blocks a = l1 ++ [b] /\ blocks a' = l1 ++ [bump b s] /\
    last_opt (blocks a') = Some (bump b s) /\
    bcap (bump b s) = bcap b /\ bused (bump b s) = bused b + slen s /\
    usage a' = usage a /\ limit a' = limit a /\ bucket_cap a' = bucket_cap a /\
    next_bid a' = next_bid a /\
    length (blocks a') = length (blocks a) /\
    store_post a a' s (Ok ref).
Proof.
  intros Hinv Hl Hs Hfit.
  destruct (last_opt_split _ _ Hl) as (l1 & H1 & H2).
  pose proof (vec_store_fits_eq _ _ _ Hl Hs Hfit) as Heq.
  pose proof (vec_store_post _ _ _ _ Hinv Heq) as Hpost.
  rewrite H2 in Heq, Hpost.
  eexists _, _, l1. split; [exact Heq|]. cbn [blocks usage limit bucket_cap next_bid].
  rewrite last_opt_app_single.
  split; [reflexivity|]. split; [exact H1|]. split; [reflexivity|]. split; [reflexivity|].
  split; [reflexivity|]. split; [reflexivity|]. split; [reflexivity|]. split; [reflexivity|].
  split; [reflexivity|]. split; [reflexivity|]. split.
  - rewrite H1, !app_length. reflexivity.
  - exact Hpost.
Qed.

(* the form used by the loops below: empty strings included, only what the loops need *)
Lemma vec_store_room a b s :
  last_opt (blocks a) = Some b -> slen s <= bcap b - bused b ->
  exists a' ref b',
    vec_store a s = (a', Ok ref) /\ last_opt (blocks a') = Some b' /\
    bcap b' = bcap b /\ bused b' = bused b + slen s /\
    usage a' = usage a /\ limit a' = limit a /\ bucket_cap a' = bucket_cap a /\
    length (blocks a') = length (blocks a).
Proof.
  intros Hl Hfit. destruct s as [|c s0].
  - exists a, REmpty, b. rewrite slen_nil.
    split; [reflexivity|]. split; [exact Hl|]. split; [reflexivity|]. split; [lia|].
    repeat split; reflexivity.
  - set (s := c :: s0) in *. assert (Hs : s <> []) by discriminate.
    rewrite (vec_store_fits_eq _ _ _ Hl Hs Hfit).
    destruct (last_opt_split _ _ Hl) as (l1 & H1 & H2).
    eexists _, _, (bump b s). split; [reflexivity|].
    cbn [blocks usage limit bucket_cap next_bid]. rewrite H2, last_opt_app_single.
    split; [reflexivity|]. split; [reflexivity|]. split; [reflexivity|].
    split; [reflexivity|]. split; [reflexivity|]. split; [reflexivity|].
    rewrite H1, !app_length. reflexivity.
Qed.

Definition nonstatic (r : sref) : Prop :=
  match r with RStatic _ _ => False | _ => True end.

Lemma vec_store_nonstatic a s a' ref :
  ArenaInv a -> vec_store a s = (a', Ok ref) -> nonstatic ref.
Proof.
  intros Hinv Hst. pose proof (vec_store_post _ _ _ _ Hinv Hst) as Hpost.
  destruct (sp_result _ _ _ _ Hpost) as (_ & _ & _ & He & Hne).
  destruct s as [|c s0].
  - destruct (He eq_refl) as (-> & _). exact I.
  - destruct Hne as (b & o & ->); [discriminate|]. exact I.
Qed.

Section Proofs.
  Variable hash : str -> N.
  Variable cand : N -> N -> bool.
  Variable growf : N -> bool.
  Variable keycap : N.
  Hypothesis cand_refl : forall h, cand h h = true.

  Notation RodeoInv := (RodeoInv hash keycap).
  Notation table_ok := (table_ok hash).
  Notation tlookup := (tlookup cand).
  Notation tinsert := (tinsert hash growf).
  Notation clone_into := (clone_into hash cand growf keycap).
  Notation r_clone := (r_clone hash cand growf keycap).
  Notation r_clone_from := (r_clone_from hash cand growf keycap).
  Notation de_list_loop := (de_list_loop hash cand growf keycap).
  Notation de_rodeo := (de_rodeo hash cand growf keycap).
  Notation de_rodeo_legacy := (de_rodeo_legacy hash cand growf keycap).

  (* ---------- 2. clone_strings_into ---------- *)

  (* the lookup of clone_strings_into: the string table already holds the new string, the
     map does not know it yet, and the string is new: nothing is found *)
  Lemma tlookup_fresh t strs' a' cs s h :
    table_ok t cs -> contents strs' a' = Some (cs ++ [s]) -> ~ In s cs ->
    tlookup t strs' a' h s = None.
  Proof.
    intros (_ & Hfiled & _) Hc Hni. unfold Rodeo.tlookup.
    match goal with |- match find ?P t with _ => _ end = _ => set (p := P) end.
    destruct (find p t) as [(h0 & k)|] eqn:Hf; [|reflexivity].
    exfalso. apply find_some in Hf as (Hin & Hp). unfold p in Hp. cbn [fst snd] in Hp.
    apply andb_true_iff in Hp as (_ & Hp).
    rewrite (key_str_contents _ _ _ _ Hc) in Hp.
    destruct (Hfiled _ _ Hin) as (s0 & Hs0 & _).
    rewrite nth_error_app1 in Hp by (apply nth_error_Some; congruence).
    rewrite Hs0 in Hp. apply str_eqb_eq in Hp. subst s0.
    apply Hni. eapply nth_error_In; eauto.
  Qed.

  Lemma NoDup_app_cons_notin {A} (l1 : list A) x l2 : NoDup (l1 ++ x :: l2) -> ~ In x l1.
  Proof.
    intros H Hin. apply NoDup_remove_2 in H. apply H. apply in_or_app. now left.
  Qed.

  Lemma app_cons_snoc {A} (l1 : list A) x l2 : l1 ++ x :: l2 = (l1 ++ [x]) ++ l2.
  Proof. rewrite <- app_assoc. reflexivity. Qed.

  Lemma length_snoc_N {A} (l : list A) x : N.of_nat (length (l ++ [x])) = N.of_nat (length l) + 1.
  Proof. rewrite app_length. simpl length. lia. Qed.

  (* one successful step: the pushed string with its key inserted *)
  Lemma push_step_inv r cs s a' ref :
    RodeoInv r cs -> store_post (rar r) a' s (Ok ref) -> ~ In s cs ->
    N.of_nat (length cs) < keycap ->
    RodeoInv (mkRodeo (tinsert (rmap r) (rstrs r ++ [ref]) a' (hash s) (N.of_nat (length cs)))
                      (rstrs r ++ [ref]) a') (cs ++ [s]).
  Proof.
    intros (Ha & Hs & Ht & Hk) Hpost Hni Hlt.
    pose proof (strs_ok_push _ _ _ _ _ _ Hs Hpost Hni) as Hs'.
    split; [exact (sp_inv _ _ _ _ Hpost)|]. cbn [rmap rstrs rar].
    split; [exact Hs'|]. split.
    - destruct Hs' as (_ & _ & Hc' & _). eapply tinsert_ok; eauto.
    - rewrite length_snoc_N. lia.
  Qed.

  Theorem clone_into_spec src : forall dst cs0 r' c,
    RodeoInv dst cs0 -> NoDup (cs0 ++ src) -> N.of_nat (length (cs0 ++ src)) <= keycap ->
    clone_into src (N.of_nat (length cs0)) dst = (r', c) ->
    limit (rar r') = limit (rar dst) /\
    ((c = COk /\ RodeoInv r' (cs0 ++ src)) \/
     (c = CErr MemoryLimitReached /\
      exists done rest, src = done ++ rest /\ rest <> [] /\ RodeoInv r' (cs0 ++ done))).
  Proof.
    induction src as [|s rest IH]; intros dst cs0 r' c Hinv Hnd Hcap Hc.
    - cbn [Rodeo.clone_into] in Hc. inversion Hc; subst r' c. split; [reflexivity|].
      left. rewrite app_nil_r. auto.
    - cbn [Rodeo.clone_into] in Hc.
      pose proof (NoDup_app_cons_notin _ _ _ Hnd) as Hni.
      assert (Hlt : N.of_nat (length cs0) < keycap).
      { rewrite app_length in Hcap. simpl length in Hcap. lia. }
      pose proof Hinv as (Ha & Hs & Ht & Hk).
      destruct (vec_store (rar dst) s) as [a' [ref|e]] eqn:Est.
      + pose proof (vec_store_post _ _ _ _ Ha Est) as Hpost.
        pose proof (push_step_inv _ _ _ _ _ Hinv Hpost Hni Hlt) as Hinv'.
        pose proof (strs_ok_push _ _ _ _ _ _ Hs Hpost Hni) as (_ & _ & Hc' & _).
        rewrite (tlookup_fresh _ _ _ _ _ _ Ht Hc' Hni) in Hc.
        unfold try_key in Hc. apply N.ltb_lt in Hlt. rewrite Hlt in Hc.
        rewrite <- length_snoc_N with (x := s) in Hc.
        rewrite app_cons_snoc in Hnd, Hcap.
        destruct (IH _ _ _ _ Hinv' Hnd Hcap Hc) as (Hlim & Hres).
        cbn [rar] in Hlim. split; [rewrite Hlim; exact (sp_limit _ _ _ _ Hpost)|].
        destruct Hres as [(-> & Hr')|(-> & done & rest' & Hsplit & Hrest & Hr')].
        * left. rewrite app_cons_snoc. auto.
        * right. split; [reflexivity|]. exists (s :: done), rest'.
          split; [simpl; now rewrite Hsplit|]. split; [exact Hrest|].
          rewrite app_cons_snoc. exact Hr'.
      + pose proof (vec_store_post _ _ _ _ Ha Est) as Hpost.
        destruct (sp_result _ _ _ _ Hpost) as (He & Haa & Hsne & Hlim). subst e a'.
        inversion Hc; subst r' c. rewrite rodeo_eta. split; [reflexivity|].
        right. split; [reflexivity|]. exists [], (s :: rest).
        split; [reflexivity|]. split; [discriminate|]. rewrite app_nil_r. exact Hinv.
  Qed.

  (* when everything that is left fits into the last block, no store of the loop can fail
     (whatever the memory limit), and the arena never grows.  No invariant is needed. *)
  Lemma clone_into_fits src : forall idx dst b r' c,
    last_opt (blocks (rar dst)) = Some b -> sum_N (map slen src) <= bcap b - bused b ->
    clone_into src idx dst = (r', c) ->
    c <> CErr MemoryLimitReached /\ usage (rar r') = usage (rar dst) /\
    bucket_cap (rar r') = bucket_cap (rar dst) /\
    length (blocks (rar r')) = length (blocks (rar dst)).
  Proof.
    induction src as [|s rest IH]; intros idx dst b r' c Hl Hfit Hc.
    - cbn [Rodeo.clone_into] in Hc. inversion Hc; subst r' c.
      split; [discriminate|]. auto.
    - cbn [Rodeo.clone_into] in Hc. cbn [map] in Hfit. rewrite sum_N_cons in Hfit.
      assert (Hfit1 : slen s <= bcap b - bused b) by lia.
      destruct (vec_store_room _ _ _ Hl Hfit1)
        as (a' & ref & b' & Hst & Hl' & Hcap' & Hused' & Hus & _ & Hbc & Hlen).
      rewrite Hst in Hc.
      destruct (tlookup (rmap dst) (rstrs dst ++ [ref]) a' (hash s) s) as [k0|] eqn:Elk.
      + inversion Hc; subst r' c. cbn [rar]. split; [discriminate|]. auto.
      + destruct (try_key keycap idx) as [k|] eqn:Ek.
        * assert (Hfit2 : sum_N (map slen rest) <= bcap b' - bused b') by lia.
          destruct (IH _ (mkRodeo (tinsert (rmap dst) (rstrs dst ++ [ref]) a' (hash s) k)
                                  (rstrs dst ++ [ref]) a') _ _ _ Hl' Hfit2 Hc) as (H1 & H2 & H3 & H4).
          cbn [rar] in H2, H3, H4.
          split; [exact H1|]. split; [congruence|]. split; congruence.
        * inversion Hc; subst r' c. cbn [rar]. split; [discriminate|]. auto.
  Qed.

  (* every reference the loop pushes points into the arena: a deep copy *)
  Lemma clone_into_nonstatic src : forall idx dst r' c,
    ArenaInv (rar dst) -> Forall nonstatic (rstrs dst) -> clone_into src idx dst = (r', c) ->
    Forall nonstatic (rstrs r').
  Proof.
    induction src as [|s rest IH]; intros idx dst r' c Ha Hns Hc.
    - cbn [Rodeo.clone_into] in Hc. inversion Hc; subst r' c. exact Hns.
    - cbn [Rodeo.clone_into] in Hc.
      destruct (vec_store (rar dst) s) as [a' [ref|e]] eqn:Est.
      + pose proof (vec_store_post _ _ _ _ Ha Est) as Hpost.
        assert (Hns' : Forall nonstatic (rstrs dst ++ [ref])).
        { apply Forall_app. split; [exact Hns|]. constructor; [|constructor].
          eapply vec_store_nonstatic; eauto. }
        destruct (tlookup (rmap dst) (rstrs dst ++ [ref]) a' (hash s) s) as [k0|] eqn:Elk.
        * inversion Hc; subst r' c. exact Hns'.
        * destruct (try_key keycap idx) as [k|] eqn:Ek.
          -- eapply IH; [| |exact Hc]; cbn [rar rstrs]; [exact (sp_inv _ _ _ _ Hpost)|exact Hns'].
          -- inversion Hc; subst r' c. exact Hns'.
      + inversion Hc; subst r' c. exact Hns.
  Qed.

  (* ---------- 3. try_clone ---------- *)

  Lemma doc_bytes_room l : sum_N (map slen l) <= doc_bytes l /\ 0 < doc_bytes l.
  Proof.
    unfold doc_bytes, default_bytes. cbv zeta.
    destruct (sum_N (map slen l) =? 0) eqn:E.
    - apply N.eqb_eq in E. lia.
    - apply N.eqb_neq in E. lia.
  Qed.

  (* cloning never fails, whatever the source's memory limit; the clone has the same content,
     holds no reference to a caller's static string, lives in ONE block of exactly the total
     length of the strings (4096 if that is 0), and its limit is the source's limit raised
     to that size if necessary *)
  Theorem r_clone_spec r cs :
    RodeoInv r cs ->
    exists r', r_clone r = Some (r', COk) /\ RodeoInv r' cs /\
               Forall nonstatic (rstrs r') /\
               usage (rar r') = doc_bytes cs /\
               length (blocks (rar r')) = 1%nat /\
               limit (rar r') = N.max (limit (rar r)) (usage (rar r')).
  Proof.
    intros Hinv. pose proof Hinv as (Ha & (_ & _ & Hc & Hnd) & _ & Hk).
    destruct (doc_bytes_room cs) as (Hroom & Hpos).
    unfold Rodeo.r_clone. rewrite Hc. cbv zeta. fold (doc_bytes cs).
    set (dst := rodeo_new (doc_bytes cs) (N.max (limit (rar r)) (doc_bytes cs))).
    destruct (clone_into cs 0 dst) as [r' c] eqn:Ecl.
    assert (Hdst : RodeoInv dst []) by (apply rodeo_new_inv; exact Hpos).
    change 0 with (N.of_nat (length (@nil str))) in Ecl.
    destruct (clone_into_spec _ _ _ _ _ Hdst Hnd Hk Ecl) as (Hlim & Hres).
    assert (Hlast : last_opt (blocks (rar dst)) = Some (fresh_block 0 (doc_bytes cs))) by reflexivity.
    assert (Hfit : sum_N (map slen cs) <= bcap (fresh_block 0 (doc_bytes cs)) - bused (fresh_block 0 (doc_bytes cs))).
    { cbn [bcap bused fresh_block]. lia. }
    destruct (clone_into_fits _ _ _ _ _ _ Hlast Hfit Ecl) as (Hnm & Hus & _ & Hlen).
    assert (Hns : Forall nonstatic (rstrs r')).
    { eapply clone_into_nonstatic; [| |exact Ecl].
      - destruct Hdst as (H & _); exact H.
      - constructor. }
    destruct Hres as [(-> & Hr')|(-> & _)]; [|congruence].
    exists r'. split; [reflexivity|]. split; [exact Hr'|]. split; [exact Hns|].
    cbn [dst rodeo_new rar arena_new usage blocks limit length] in Hus, Hlen, Hlim.
    split; [exact Hus|]. split; [exact Hlen|]. rewrite Hlim, Hus. reflexivity.
  Qed.

  (* ---------- 4. try_clone_from ---------- *)

  Theorem r_clone_from_spec tgt cs_t src cs :
    RodeoInv tgt cs_t -> RodeoInv src cs ->
    exists r' c, r_clone_from tgt src = Some (r', c) /\
      limit (rar r') = limit (rar tgt) /\
      ((c = COk /\ RodeoInv r' cs) \/
       (c = CErr MemoryLimitReached /\
        exists done rest, cs = done ++ rest /\ rest <> [] /\ RodeoInv r' done)).
  Proof.
    intros Ht Hs. pose proof Hs as (_ & (_ & _ & Hc & Hnd) & _ & Hk).
    unfold Rodeo.r_clone_from. rewrite Hc.
    destruct (clone_into cs 0 (r_clear tgt)) as [r' c] eqn:Ecl.
    exists r', c. split; [reflexivity|].
    pose proof (r_clear_inv hash keycap _ _ Ht) as Hclr.
    change 0 with (N.of_nat (length (@nil str))) in Ecl.
    exact (clone_into_spec _ _ _ _ _ Hclr Hnd Hk Ecl).
  Qed.

  (* ---------- 5. Deserialize for Rodeo / RodeoReader (the repaired loop) ---------- *)

  Lemma de_list_loop_spec l : forall r cs0 b,
    RodeoInv r cs0 ->
    last_opt (blocks (rar r)) = Some b -> sum_N (map slen l) <= bcap b - bused b ->
    match de_list_loop true l (N.of_nat (length cs0)) r with
    | DOk r' => RodeoInv r' (cs0 ++ l) /\ limit (rar r') = limit (rar r) /\
                usage (rar r') = usage (rar r) /\
                length (blocks (rar r')) = length (blocks (rar r))
    | DErr => ~ NoDup (cs0 ++ l)
    | DPanic => exists pre post, l = pre ++ post /\ NoDup (cs0 ++ pre) /\
                                 keycap < N.of_nat (length (cs0 ++ pre))
    end.
  Proof.
    induction l as [|s rest IH]; intros r cs0 b Hinv Hl Hfit.
    - cbn [Rodeo.de_list_loop]. rewrite app_nil_r. auto.
    - cbn [Rodeo.de_list_loop]. cbn [map] in Hfit. rewrite sum_N_cons in Hfit.
      pose proof Hinv as (Ha & Hs & Ht & Hk).
      pose proof Hs as (_ & _ & Hc & Hnd).
      assert (Hfit1 : slen s <= bcap b - bused b) by lia.
      destruct (vec_store_room _ _ _ Hl Hfit1)
        as (a' & ref & b' & Hst & Hl' & Hcap' & Hused' & Hus & Hlm & _ & Hlen).
      rewrite Hst. cbv beta iota zeta.
      pose proof (vec_store_post _ _ _ _ Ha Hst) as Hpost.
      pose proof (strs_ok_frame _ _ _ _ Hs (sp_frame _ _ _ _ Hpost)) as (_ & _ & Hca' & _).
      rewrite (tlookup_spec hash cand cand_refl _ _ _ _ s Hca' Hnd Ht).
      destruct (index_of s cs0) as [i|] eqn:Ei.
      + (* a repeated string *)
        intros Hnd'. apply NoDup_app_cons_notin in Hnd'. apply Hnd'.
        apply index_of_some in Ei as (Hn & _). eapply nth_error_In; eauto.
      + apply index_of_none in Ei. unfold try_key.
        destruct (N.of_nat (length cs0) <? keycap) eqn:Ek.
        * apply N.ltb_lt in Ek. rewrite <- length_snoc_N with (x := s).
          pose proof (push_step_inv _ _ _ _ _ Hinv Hpost Ei Ek) as Hinv'.
          assert (Hfit2 : sum_N (map slen rest) <= bcap b' - bused b') by lia.
          pose proof (IH (mkRodeo (tinsert (rmap r) (rstrs r ++ [ref]) a' (hash s) (N.of_nat (length cs0)))
                                  (rstrs r ++ [ref]) a') (cs0 ++ [s]) b' Hinv' Hl' Hfit2) as IH'.
          clear IH. cbn [rar] in IH'. revert IH'.
          match goal with |- match ?X with _ => _ end -> _ => destruct X as [r'| |] end.
          -- intros (H1 & H2 & H3 & H4). rewrite app_cons_snoc.
             split; [exact H1|]. split; [congruence|]. split; congruence.
          -- intros H1. rewrite app_cons_snoc. exact H1.
          -- intros (pre & post & H1 & H2 & H3). exists (s :: pre), post.
             split; [simpl; now rewrite H1|]. rewrite app_cons_snoc. auto.
        * apply N.ltb_ge in Ek. exists [s], rest. split; [reflexivity|].
          split; [apply NoDup_app_snoc; auto|]. rewrite length_snoc_N. lia.
  Qed.

  (* The repaired deserialiser, for every input list (no size hypothesis is needed: the
     first block has exactly the total size, so no store ever consults the limit).
     - success: the object satisfies the invariant with the document as its content
       (in particular every string resolves and keys are positions), one block;
     - a repeated string is always reported as an error, never skipped;
     - the only panic is running out of keys on a repeat-free prefix. *)
  Theorem de_rodeo_spec l :
    match de_rodeo l with
    | DOk r => RodeoInv r l /\ NoDup l /\ limit (rar r) = usize_max /\
               usage (rar r) = doc_bytes l /\ length (blocks (rar r)) = 1%nat
    | DErr => ~ NoDup l
    | DPanic => exists pre post, l = pre ++ post /\ NoDup pre /\ keycap < N.of_nat (length pre)
    end.
  Proof.
    destruct (doc_bytes_room l) as (Hroom & Hpos).
    assert (Hinv : RodeoInv (rodeo_new (doc_bytes l) usize_max) []) by (apply rodeo_new_inv; exact Hpos).
    assert (Hfit : sum_N (map slen l) <= bcap (fresh_block 0 (doc_bytes l)) - bused (fresh_block 0 (doc_bytes l))).
    { cbn [bcap bused fresh_block]. lia. }
    pose proof (de_list_loop_spec l _ [] _ Hinv eq_refl Hfit) as H.
    change (N.of_nat (length (@nil str))) with 0 in H. cbn [app] in H.
    unfold Rodeo.de_rodeo, de_rodeo_gen. revert H.
    match goal with |- match ?X with _ => _ end -> _ => destruct X as [r'| |] end.
    - intros (H1 & H2 & H3 & H4). split; [exact H1|].
      split; [destruct H1 as (_ & (_ & _ & _ & Hnd) & _); exact Hnd|].
      cbn [rodeo_new rar arena_new usage blocks limit length] in H2, H3, H4. auto.
    - auto.
    - auto.
  Qed.

  Corollary de_rodeo_panic_keys l : de_rodeo l = DPanic -> keycap < N.of_nat (length l).
  Proof.
    intros H. pose proof (de_rodeo_spec l) as Hs. rewrite H in Hs.
    destruct Hs as (pre & post & -> & _ & Hlt). rewrite app_length. lia.
  Qed.

  (* completeness: a repeat-free document within the key space always loads *)
  Corollary de_rodeo_complete l :
    NoDup l -> N.of_nat (length l) <= keycap ->
    exists r, de_rodeo l = DOk r /\ RodeoInv r l.
  Proof.
    intros Hnd Hk. pose proof (de_rodeo_spec l) as Hs.
    destruct (de_rodeo l) as [r| |].
    - exists r. split; [reflexivity|]. destruct Hs as (H & _); exact H.
    - contradiction.
    - destruct Hs as (pre & post & -> & _ & Hlt). rewrite app_length in Hk. lia.
  Qed.

  (* a consequence of the invariant that the unrepaired loop violates: every key filed in
     the map is a position of the string table *)
  Lemma RodeoInv_keys_in_range r cs :
    RodeoInv r cs -> Forall (fun e => snd e < N.of_nat (length (rstrs r))) (rmap r).
  Proof.
    intros (_ & (_ & _ & Hc & _) & (_ & Hfiled & _) & _).
    rewrite Forall_forall. intros (h & k) Hin. cbn [snd].
    destruct (Hfiled _ _ Hin) as (s & Hs & _).
    assert (N.to_nat k < length cs)%nat by (apply nth_error_Some; congruence).
    rewrite <- (contents_length _ _ _ Hc). lia.
  Qed.
End Proofs.

(* The unrepaired Deserialize (a repeated string is skipped but the position counter still
   advances): for ["a","a","b"] it returns an object whose map files key 2 while the string
   table has 2 entries — resolving / looking up through that entry reads out of bounds. *)
Example de_rodeo_legacy_refuted :
  match Rodeo.de_rodeo_legacy (fun _ => 0) (fun _ _ => true) (fun _ => false) 4294967295
                              [[97];[97];[98]] with
  | DOk r => existsb (fun e => N.of_nat (length (rstrs r)) <=? snd e) (rmap r)
  | _ => false
  end = true.
Proof. vm_compute. reflexivity. Qed.

Example de_rodeo_legacy_no_inv :
  exists l r,
    Rodeo.de_rodeo_legacy (fun _ => 0) (fun _ _ => true) (fun _ => false) 4294967295 l = DOk r /\
    ~ exists cs, RodeoInv.RodeoInv (fun _ => 0) 4294967295 r cs.
Proof.
  exists [[97];[97];[98]].
  pose proof de_rodeo_legacy_refuted as H.
  destruct (Rodeo.de_rodeo_legacy (fun _ => 0) (fun _ _ => true) (fun _ => false) 4294967295
                                  [[97];[97];[98]]) as [r| |]; try discriminate.
  exists r. split; [reflexivity|]. intros (cs & Hinv).
  apply existsb_exists in H as (e & Hin & Hle). apply N.leb_le in Hle.
  pose proof (RodeoInv_keys_in_range _ _ _ _ Hinv) as HF. rewrite Forall_forall in HF.
  apply HF in Hin. lia.
Qed.

(* the repaired one rejects the same document *)
Example de_rodeo_repaired_rejects :
  Rodeo.de_rodeo (fun _ => 0) (fun _ _ => true) (fun _ => false) 4294967295
                 [[97];[97];[98]] = DErr.
Proof. vm_compute. reflexivity. Qed.

(* ---------- 6. Deserialize for RodeoResolver ---------- *)

(* a string table without the "pairwise different" clause (a resolver may hold repeats) *)
Definition strs_wf (strs : list sref) (a : arena) (cs : list str) : Prop :=
  Forall (ref_ok a) strs /\ ForallOrdPairs refs_disjoint strs /\ contents strs a = Some cs.

Lemma strs_wf_push strs a a' cs s ref :
  strs_wf strs a cs -> store_post a a' s (Ok ref) -> strs_wf (strs ++ [ref]) a' (cs ++ [s]).
Proof.
  intros (Hrefs & Hdis & Hc) Hpost. destruct Hpost as [_ _ _ Hframe Hres].
  destruct Hres as (Hrok & Hrd & Hdj & _ & _).
  rewrite Forall_forall in Hrefs.
  split; [|split].
  - apply Forall_app. split.
    + rewrite Forall_forall. intros r Hr. now apply Hframe, Hrefs.
    + constructor; auto.
  - clear Hc. induction Hdis as [|r l Hr Hl IH]; simpl.
    + constructor; constructor.
    + constructor.
      * apply Forall_app. split; auto. constructor; auto. apply Hdj. apply Hrefs. now left.
      * apply IH. intros x Hx. apply Hrefs. now right.
  - unfold contents in *. rewrite map_app, all_some_app. simpl.
    rewrite (all_some_ext (read a') (read a)).
    + rewrite Hc, Hrd. reflexivity.
    + intros r Hr. now apply Hframe, Hrefs.
Qed.

Lemma de_resolver_loop_spec l : forall strs a cs0 b,
  ArenaInv a -> strs_wf strs a cs0 ->
  last_opt (blocks a) = Some b -> sum_N (map slen l) <= bcap b - bused b ->
  exists strs' a',
    de_resolver_loop l strs a = DOk (strs', a') /\ ArenaInv a' /\ strs_wf strs' a' (cs0 ++ l) /\
    limit a' = limit a /\ usage a' = usage a /\ length (blocks a') = length (blocks a).
Proof.
  induction l as [|s rest IH]; intros strs a cs0 b Ha Hwf Hl Hfit.
  - exists strs, a. cbn [de_resolver_loop]. rewrite app_nil_r. auto 10.
  - cbn [de_resolver_loop]. cbn [map] in Hfit. rewrite sum_N_cons in Hfit.
    assert (Hfit1 : slen s <= bcap b - bused b) by lia.
    destruct (vec_store_room _ _ _ Hl Hfit1)
      as (a' & ref & b' & Hst & Hl' & Hcap' & Hused' & Hus & Hlm & _ & Hlen).
    rewrite Hst.
    pose proof (vec_store_post _ _ _ _ Ha Hst) as Hpost.
    pose proof (strs_wf_push _ _ _ _ _ _ Hwf Hpost) as Hwf'.
    assert (Hfit2 : sum_N (map slen rest) <= bcap b' - bused b') by lia.
    destruct (IH _ _ _ _ (sp_inv _ _ _ _ Hpost) Hwf' Hl' Hfit2)
      as (strs' & a'' & H1 & H2 & H3 & H4 & H5 & H6).
    exists strs', a''. split; [exact H1|]. split; [exact H2|].
    split; [rewrite app_cons_snoc; exact H3|].
    split; [congruence|]. split; congruence.
Qed.

(* For every document: the resolver loads (never an error, never a panic), into one block,
   and resolves position i to the i-th string of the document. *)
Theorem de_resolver_spec l :
  exists strs a,
    de_resolver l = DOk (strs, a) /\ ArenaInv a /\ Forall (ref_ok a) strs /\
    ForallOrdPairs refs_disjoint strs /\ contents strs a = Some l /\
    limit a = usize_max /\ usage a = doc_bytes l /\ length (blocks a) = 1%nat.
Proof.
  destruct (doc_bytes_room l) as (Hroom & Hpos).
  assert (Ha : ArenaInv (arena_new (doc_bytes l) usize_max)) by (apply arena_new_inv; exact Hpos).
  assert (Hwf : strs_wf [] (arena_new (doc_bytes l) usize_max) []).
  { split; [constructor|]. split; [constructor|reflexivity]. }
  assert (Hfit : sum_N (map slen l) <= bcap (fresh_block 0 (doc_bytes l)) - bused (fresh_block 0 (doc_bytes l))).
  { cbn [bcap bused fresh_block]. lia. }
  destruct (de_resolver_loop_spec l _ _ _ _ Ha Hwf eq_refl Hfit)
    as (strs & a & H1 & H2 & (H3 & H4 & H5) & H6 & H7 & H8).
  exists strs, a. unfold de_resolver. cbn [app] in H5.
  cbn [arena_new usage blocks limit length] in H6, H7, H8. auto 10.
Qed.

Print Assumptions vec_store_fits.
Print Assumptions clone_into_spec.
Print Assumptions r_clone_spec.
Print Assumptions r_clone_from_spec.
Print Assumptions de_rodeo_spec.
Print Assumptions de_rodeo_complete.
Print Assumptions de_rodeo_legacy_no_inv.
Print Assumptions de_resolver_spec.
