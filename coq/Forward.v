(* Forward.v -- the glue impls of src/interface/*.rs as a table, and what it means for them to be faithful (C16, C17).

   Every method of every `impl Trait for Wrapper` in src/interface is a single forwarding expression.  The extractor
   (tools/extract_facts.py) records, for each, the callee name and how the receiver is passed (`Facts.forwarding`).
   This file is the hand-written, fixed part:
     * `entry_ok`             the decision "this entry forwards to the same-named method of the wrapped value, receiver
                              passed through, arguments unchanged", per wrapper kind:
         container            `self.m(..)` / `( *self).m(..)` (Rust's method resolution prefers the inherent method of
                              the container over the trait method being defined -- trusted), and for the
                              `self: Box<Self>` plumbing `m_boxed` : `Container::m( *self)` (unbox, then inherent);
         &T, &mut T           `<T as Trait<K>>::m(self, ..)` (a plain `self.m(..)` would call the impl being defined);
         Box<I>               `( **self).m(..)`; `into_x(self)` : `I::into_x_boxed(self)`; `into_x_boxed(self: Box<Self>)` :
                              `( *self).into_x()`;
         &ThreadedRodeo       `ThreadedRodeo::m(self, ..)`;
     * `declared_exceptions`  the one declared deviation: `<ThreadedRodeo as Resolver>::resolve_unchecked` calls
                              `resolve` (the checked lookup; equal on valid keys);
     * `run_via`              a call made through a stack of wrappers, resolved layer by layer through the table;
     * `run_via_faithful`     faithful table -> every stack reaches the method it was asked for (up to the `_boxed`
                              plumbing suffix), by induction on the stack (unbounded depth);
     * `run_via_exact`        for a method all of whose entries forward to exactly the same name (the static entry
                              points): the name is preserved exactly through every stack. *)
Require Import Coq.Strings.String Coq.Lists.List Coq.Bool.Bool Coq.Arith.PeanoNat.
Require Import Lasso.Facts.
Import ListNotations.
Open Scope string_scope.
Open Scope list_scope.

(* ---------------------------------------------------------------- decidable equalities *)
Definition container_eqb (a b : container) : bool :=
  match a, b with
  | Rodeo, Rodeo | ThreadedRodeo, ThreadedRodeo | RodeoReader, RodeoReader | RodeoResolver, RodeoResolver => true
  | _, _ => false
  end.
Definition wrapper_eqb (a b : wrapper) : bool :=
  match a, b with
  | WRef, WRef | WMut, WMut | WBox, WBox | WRefThreaded, WRefThreaded => true
  | WCont x, WCont y => container_eqb x y
  | _, _ => false
  end.
Definition trait_eqb (a b : trait) : bool :=
  match a, b with
  | Interner, Interner | Reader, Reader | Resolver, Resolver | IntoReader, IntoReader | IntoResolver, IntoResolver => true
  | _, _ => false
  end.
Definition style_eqb (a b : style) : bool :=
  match a, b with MethodCall, MethodCall | UfcsTrait, UfcsTrait | PathCall, PathCall => true | _, _ => false end.
Definition pass_eqb (a b : pass) : bool :=
  match a, b with PSelf, PSelf | PStar, PStar | PStarStar, PStarStar => true | _, _ => false end.

Lemma container_eqb_eq : forall a b, container_eqb a b = true -> a = b.
Proof. intros [] []; simpl; congruence. Qed.
Lemma wrapper_eqb_eq : forall a b, wrapper_eqb a b = true -> a = b.
Proof. intros [] []; simpl; try congruence. intros H. apply container_eqb_eq in H. congruence. Qed.
Lemma wrapper_eqb_refl : forall a, wrapper_eqb a a = true.
Proof. intros []; simpl; try reflexivity. destruct c; reflexivity. Qed.
Lemma trait_eqb_eq : forall a b, trait_eqb a b = true -> a = b.
Proof. intros [] []; simpl; congruence. Qed.
Lemma trait_eqb_refl : forall a, trait_eqb a a = true.
Proof. intros []; reflexivity. Qed.

Definition container_name (c : container) : string :=
  match c with Rodeo => "Rodeo" | ThreadedRodeo => "ThreadedRodeo" | RodeoReader => "RodeoReader" | RodeoResolver => "RodeoResolver" end.
Definition trait_name (t : trait) : string :=
  match t with Interner => "Interner" | Reader => "Reader" | Resolver => "Resolver" | IntoReader => "IntoReader" | IntoResolver => "IntoResolver" end.

(* ---------------------------------------------------------------- method names up to the `_boxed` plumbing suffix *)
Definition base (m : string) : string :=
  let n := String.length m in
  if Nat.ltb 6 n && String.eqb (substring (n - 6) 6 m) "_boxed" then substring 0 (n - 6) m else m.

(* ---------------------------------------------------------------- the decision per entry *)
Definition recv_borrowed (r : recv) : bool := match r with RecvRef | RecvMut => true | _ => false end.

(* a path call / fully qualified call that NAMES the wrapped type reaches that type's method however the receiver
   expression is written (`self`, `&*self`, `&**self`, a `let` alias of one of them): the argument type is checked by
   rustc, only the wrapped value has it *)
Definition names_inner (e : fwd) (ty : string) : bool :=
  (style_eqb (fw_style e) PathCall && String.eqb (fw_path e) ty) ||
  (style_eqb (fw_style e) UfcsTrait && String.eqb (fw_path e) (ty ++ " as " ++ trait_name (fw_trait e))).
Definition pass_derefs (e : fwd) : bool := pass_eqb (fw_pass e) PStar || pass_eqb (fw_pass e) PStarStar.

Definition entry_ok (e : fwd) : bool :=
  let m := fw_method e in
  let c := fw_callee e in
  fw_args_same e && String.eqb (base c) (base m) &&
  match fw_wrapper e with
  | WCont cn =>
    (* inherent methods win over the trait method being defined, in method-call and in `Container::m` path position (trusted) *)
    match fw_recv e with
    | RecvRef | RecvMut => String.eqb c m && ((style_eqb (fw_style e) MethodCall && (pass_eqb (fw_pass e) PSelf || pass_eqb (fw_pass e) PStar))
                                              || (style_eqb (fw_style e) PathCall && String.eqb (fw_path e) (container_name cn)))
    | RecvOwn => String.eqb c m && ((style_eqb (fw_style e) MethodCall && pass_eqb (fw_pass e) PSelf)
                                    || (style_eqb (fw_style e) PathCall && String.eqb (fw_path e) (container_name cn) && pass_eqb (fw_pass e) PSelf))
    | RecvBox => String.eqb m (c ++ "_boxed") && style_eqb (fw_style e) PathCall && String.eqb (fw_path e) (container_name cn) && pass_eqb (fw_pass e) PStar
    | RecvNone => false
    end
  | WRef | WMut =>
    (* `self.m(..)` would call the impl being defined; `( *self).m(..)` / `( **self).m(..)` find T's method first (by-value probe of &T / T) *)
    recv_borrowed (fw_recv e) && String.eqb c m &&
    (names_inner e "T" || (style_eqb (fw_style e) MethodCall && pass_derefs e))
  | WBox =>
    match fw_recv e with
    | RecvRef | RecvMut => String.eqb c m && ((style_eqb (fw_style e) MethodCall && pass_eqb (fw_pass e) PStarStar) || names_inner e "I")
    | RecvOwn => String.eqb c (m ++ "_boxed") && style_eqb (fw_style e) PathCall && String.eqb (fw_path e) "I" && pass_eqb (fw_pass e) PSelf
    | RecvBox => (String.eqb m (c ++ "_boxed") && style_eqb (fw_style e) MethodCall && pass_eqb (fw_pass e) PStar)
                 (* the same two hops written out: unbox the outer box, hand the inner box to I's own `m_boxed` *)
                 || (String.eqb c m && style_eqb (fw_style e) PathCall && String.eqb (fw_path e) "I" && pass_eqb (fw_pass e) PStar)
    | RecvNone => false
    end
  | WRefThreaded =>
    recv_borrowed (fw_recv e) && String.eqb c m && style_eqb (fw_style e) PathCall && String.eqb (fw_path e) "ThreadedRodeo"
  end.

(* (wrapper, trait, method, callee) *)
Definition declared_exceptions : list (wrapper * trait * string * string) :=
  [ (WCont ThreadedRodeo, Resolver, "resolve_unchecked", "resolve") ].

Definition entry_declared (e : fwd) : bool :=
  existsb (fun d => match d with (w, tr, m, c) =>
             wrapper_eqb w (fw_wrapper e) && trait_eqb tr (fw_trait e) && String.eqb m (fw_method e) && String.eqb c (fw_callee e) && fw_args_same e
           end) declared_exceptions.

Definition forwarding_faithful (t : list fwd) : bool := forallb (fun e => entry_ok e || entry_declared e) t.

(* is a declared exception filed under (w, tr) for a method with this base name *)
Definition declared_at (w : wrapper) (tr : trait) (b : string) : bool :=
  existsb (fun d => match d with (w', tr', m, _) => wrapper_eqb w' w && trait_eqb tr' tr && String.eqb (base m) b end) declared_exceptions.

(* ---------------------------------------------------------------- calls through a stack of wrappers *)
Definition lookup_fwd (t : list fwd) (w : wrapper) (tr : trait) (m : string) : option fwd :=
  find (fun e => wrapper_eqb (fw_wrapper e) w && trait_eqb (fw_trait e) tr && String.eqb (fw_method e) m) t.

(* outermost wrapper first; the innermost is normally a container, whose entry names the inherent method reached.
   One table lookup per layer (for the `_boxed` plumbing, which re-enters the same impl once, this merges two steps;
   the statement below is up to `base`, so nothing is lost).  A layer without an impl of the trait ends the route. *)
Fixpoint run_via (stack : list wrapper) (t : list fwd) (tr : trait) (m : string) : string :=
  match stack with
  | [] => m
  | w :: rest => match lookup_fwd t w tr m with
                 | Some e => run_via rest t tr (fw_callee e)
                 | None => m
                 end
  end.

Definition clean (stack : list wrapper) (tr : trait) (m : string) : bool :=
  forallb (fun w => negb (declared_at w tr (base m))) stack.

Lemma lookup_fwd_some : forall t w tr m e, lookup_fwd t w tr m = Some e ->
  In e t /\ fw_wrapper e = w /\ fw_trait e = tr /\ fw_method e = m.
Proof.
  intros t w tr m e H. unfold lookup_fwd in H. apply find_some in H. destruct H as [Hin H].
  apply andb_prop in H. destruct H as [H H3]. apply andb_prop in H. destruct H as [H1 H2].
  apply wrapper_eqb_eq in H1. apply trait_eqb_eq in H2. apply String.eqb_eq in H3. auto.
Qed.

Lemma entry_ok_base : forall e, entry_ok e = true -> base (fw_callee e) = base (fw_method e).
Proof.
  intros e H. unfold entry_ok in H. apply andb_prop in H. destruct H as [H _].
  apply andb_prop in H. destruct H as [_ H]. apply String.eqb_eq in H. exact H.
Qed.

Lemma entry_declared_at : forall e, entry_declared e = true ->
  declared_at (fw_wrapper e) (fw_trait e) (base (fw_method e)) = true.
Proof.
  intros e H. unfold entry_declared in H. apply existsb_exists in H. destruct H as ([[[w tr] m] c] & Hin & H).
  apply andb_prop in H. destruct H as [H _].
  apply andb_prop in H. destruct H as [H Hc].
  apply andb_prop in H. destruct H as [H Hm].
  apply andb_prop in H. destruct H as [Hw Ht].
  unfold declared_at. apply existsb_exists. exists (w, tr, m, c). split; [assumption|].
  rewrite Hw, Ht. simpl. apply String.eqb_eq in Hm. rewrite Hm. apply String.eqb_refl.
Qed.

Theorem run_via_faithful : forall t, forwarding_faithful t = true ->
  forall stack tr m, clean stack tr m = true -> base (run_via stack t tr m) = base m.
Proof.
  intros t Hf. unfold forwarding_faithful in Hf. rewrite forallb_forall in Hf.
  induction stack as [|w rest IH]; intros tr m Hc.
  - reflexivity.
  - simpl. simpl in Hc. apply andb_prop in Hc. destruct Hc as [Hw Hrest].
    destruct (lookup_fwd t w tr m) as [e|] eqn:E; [|reflexivity].
    apply lookup_fwd_some in E. destruct E as (Hin & Ew & Et & Em).
    specialize (Hf e Hin). apply orb_prop in Hf. destruct Hf as [Hok|Hdecl].
    + apply entry_ok_base in Hok. rewrite Em in Hok.
      rewrite IH; [exact Hok|]. unfold clean. rewrite Hok. exact Hrest.
    + apply entry_declared_at in Hdecl. rewrite Ew, Et, Em in Hdecl. rewrite Hdecl in Hw. discriminate.
Qed.

(* all entries filed under (tr, m) forward to exactly m *)
Definition exact_on (t : list fwd) (tr : trait) (m : string) : bool :=
  forallb (fun e => implb (trait_eqb (fw_trait e) tr && String.eqb (fw_method e) m) (String.eqb (fw_callee e) m)) t.

Theorem run_via_exact : forall t tr m, exact_on t tr m = true -> forall stack, run_via stack t tr m = m.
Proof.
  intros t tr m Hx. unfold exact_on in Hx. rewrite forallb_forall in Hx.
  induction stack as [|w rest IH]; [reflexivity|].
  simpl. destruct (lookup_fwd t w tr m) as [e|] eqn:E; [|reflexivity].
  apply lookup_fwd_some in E. destruct E as (Hin & Ew & Et & Em).
  specialize (Hx e Hin). rewrite Et, Em, trait_eqb_refl, String.eqb_refl in Hx. simpl in Hx.
  apply String.eqb_eq in Hx. rewrite Hx. exact IH.
Qed.

(* the only declared exception sits on ThreadedRodeo's Resolver::resolve_unchecked *)
Lemma declared_at_only : forall w tr b, declared_at w tr b = true ->
  w = WCont ThreadedRodeo /\ tr = Resolver /\ b = "resolve_unchecked".
Proof.
  intros w tr b H. unfold declared_at, declared_exceptions, existsb in H.
  rewrite orb_false_r in H. apply andb_prop in H. destruct H as [H H3]. apply andb_prop in H. destruct H as [H1 H2].
  apply wrapper_eqb_eq in H1. apply trait_eqb_eq in H2. apply String.eqb_eq in H3.
  change (base "resolve_unchecked") with "resolve_unchecked" in H3.
  repeat split; congruence.
Qed.

Lemma clean_without_threaded : forall stack tr m, ~ In (WCont ThreadedRodeo) stack -> clean stack tr m = true.
Proof.
  intros stack tr m H. unfold clean. apply forallb_forall. intros w Hin.
  destruct (declared_at w tr (base m)) eqn:E; [|reflexivity].
  apply declared_at_only in E. destruct E as (-> & _ & _). contradiction.
Qed.

Lemma clean_other_method : forall stack tr m, base m <> "resolve_unchecked" -> clean stack tr m = true.
Proof.
  intros stack tr m H. unfold clean. apply forallb_forall. intros w Hin.
  destruct (declared_at w tr (base m)) eqn:E; [|reflexivity].
  apply declared_at_only in E. destruct E as (_ & _ & E). contradiction.
Qed.

(* ---------------------------------------------------------------- what the table has to contain *)
Definition static_methods : list string := ["get_or_intern_static"; "try_get_or_intern_static"].
Definition interner_wrappers : list wrapper := [WMut; WBox; WRefThreaded; WCont Rodeo; WCont ThreadedRodeo].

(* every wrapper that implements Interner has both static entry points, each forwarding to the same-named one, and
   each entry is a pass-through of the receiver *)
Definition static_routes_check (t : list fwd) : bool :=
  forallb (fun w => forallb (fun m => match lookup_fwd t w Interner m with
                                     | Some e => String.eqb (fw_callee e) m && entry_ok e
                                     | None => false
                                     end) static_methods) interner_wrappers
  && forallb (fun m => exact_on t Interner m) static_methods.

(* the impls src/interface is expected to contain: (trait, wrappers) with the trait's methods *)
Definition expected_impls : list (trait * list wrapper * list string) :=
  [ (Interner, interner_wrappers, ["get_or_intern"; "try_get_or_intern"; "get_or_intern_static"; "try_get_or_intern_static"]);
    (Reader, [WRef; WMut; WBox; WCont Rodeo; WCont ThreadedRodeo; WCont RodeoReader], ["get"; "contains"]);
    (Resolver, [WRef; WMut; WBox; WCont Rodeo; WCont ThreadedRodeo; WCont RodeoReader; WCont RodeoResolver],
     ["resolve"; "try_resolve"; "resolve_unchecked"; "contains_key"; "len"]);
    (IntoReader, [WBox; WCont Rodeo; WCont ThreadedRodeo], ["into_reader"; "into_reader_boxed"]);
    (IntoResolver, [WBox; WCont Rodeo; WCont ThreadedRodeo; WCont RodeoReader], ["into_resolver"; "into_resolver_boxed"]) ].

Definition table_complete (t : list fwd) : bool :=
  forallb (fun x => match x with (tr, ws, ms) =>
     forallb (fun w => forallb (fun m => match lookup_fwd t w tr m with Some _ => true | None => false end) ms) ws end) expected_impls.

(* the table before commit 697d6b4: Box<I>::try_get_or_intern_static forwarded to try_get_or_intern *)
Definition legacy (t : list fwd) : list fwd :=
  map (fun e => if wrapper_eqb (fw_wrapper e) WBox && trait_eqb (fw_trait e) Interner && String.eqb (fw_method e) "try_get_or_intern_static"
                then {| fw_wrapper := fw_wrapper e; fw_trait := fw_trait e; fw_method := fw_method e; fw_recv := fw_recv e;
                        fw_style := fw_style e; fw_path := fw_path e; fw_callee := "try_get_or_intern"; fw_pass := fw_pass e;
                        fw_args_same := fw_args_same e |}
                else e) t.
