(* ConcInternProofs.v — property C03 (concurrent interning is atomic) for the interleaving
   model Conc.v: the invariant JInv of ConcInv.v (strengthened to JInv') holds in every
   reachable state, for every schedule, every number of threads and every pattern of spurious
   CAS failures; the C03 clauses are corollaries.  The storage invariant AInv (proved in
   ConcArenaProofs.v by another worker) is only ever assumed of states, never proved here. *)
From Lasso Require Import Base Arena ArenaProofs Conc ConcInv.
From Coq Require Import Permutation.

(* ------------------------------------------------------------------ list helpers *)

Lemma nth_error_set_nth_eq {A} n (y : A) l x :
  nth_error l n = Some x -> nth_error (set_nth n y l) n = Some y.
Proof.
  revert n; induction l as [|a l IH]; intros [|n] H; simpl in *; try discriminate; auto.
Qed.

Lemma nth_error_set_nth_neq {A} n m (y : A) l :
  m <> n -> nth_error (set_nth n y l) m = nth_error l m.
Proof.
  revert n m; induction l as [|a l IH]; intros [|n] [|m] H; simpl in *; auto; try congruence.
Qed.

(* a thread of the new list is the new thread or an old thread at another position *)
Lemma nth_error_set_nth_inv {A} n m (y u : A) l x :
  nth_error l n = Some x -> nth_error (set_nth n y l) m = Some u ->
  (m = n /\ u = y) \/ (m <> n /\ nth_error l m = Some u).
Proof.
  intros Hn Hm. destruct (Nat.eq_dec m n) as [->|Hne].
  - left. rewrite (nth_error_set_nth_eq _ _ _ _ Hn) in Hm. split; congruence.
  - right. rewrite nth_error_set_nth_neq in Hm by auto. auto.
Qed.

Lemma In_set_nth_inv {A} n (y u : A) l :
  In u (set_nth n y l) -> u = y \/ exists m, m <> n /\ nth_error l m = Some u.
Proof.
  revert n; induction l as [|a l IH]; intros [|n] H; simpl in *; try contradiction.
  - destruct H as [H|H]; [left; congruence|].
    right. apply In_nth_error in H as (m & Hm). exists (S m). split; [lia|exact Hm].
  - destruct H as [H|H].
    + right. exists 0%nat. split; [lia|]. simpl. congruence.
    + apply IH in H as [H|(m & Hne & Hm)]; [left; auto|].
      right. exists (S m). split; [lia|exact Hm].
Qed.

Lemma In_set_nth_old {A} n (y u : A) l : In u (set_nth n y l) -> u = y \/ In u l.
Proof.
  intros H. apply In_set_nth_inv in H as [H|(m & _ & Hm)]; auto.
  right. eapply nth_error_In; eauto.
Qed.

Lemma In_set_nth_new {A} n (y : A) l x : nth_error l n = Some x -> In y (set_nth n y l).
Proof. intros H. eapply nth_error_In. eapply nth_error_set_nth_eq; eauto. Qed.

Lemma In_set_nth_keep {A} n (y u : A) l x :
  nth_error l n = Some x -> In u l -> u = x \/ In u (set_nth n y l).
Proof.
  intros Hn Hu. apply In_nth_error in Hu as (m & Hm).
  destruct (Nat.eq_dec m n) as [->|Hne].
  - left. congruence.
  - right. eapply nth_error_In. rewrite nth_error_set_nth_neq; eauto.
Qed.

Lemma set_nth_split {A} n (y : A) l x :
  nth_error l n = Some x ->
  exists l1 l2, l = l1 ++ x :: l2 /\ set_nth n y l = l1 ++ y :: l2.
Proof.
  revert n; induction l as [|a l IH]; intros [|n] H; simpl in *; try discriminate.
  - inversion H; subst. exists [], l. auto.
  - apply IH in H as (l1 & l2 & -> & ->). exists (a :: l1), l2. auto.
Qed.

Lemma flat_map_set_nth_same {A B} (f : A -> list B) n y l x :
  nth_error l n = Some x -> f y = f x -> flat_map f (set_nth n y l) = flat_map f l.
Proof.
  intros Hn Hf. destruct (set_nth_split n y l x Hn) as (l1 & l2 & -> & ->).
  rewrite !flat_map_app. simpl. now rewrite Hf.
Qed.

(* the moving thread's contribution changes from [f x] to [f y] *)
Lemma flat_map_set_nth_perm {A B} (f : A -> list B) n y l x :
  nth_error l n = Some x ->
  exists rest, Permutation (flat_map f l) (f x ++ rest) /\
               Permutation (flat_map f (set_nth n y l)) (f y ++ rest).
Proof.
  intros Hn. destruct (set_nth_split n y l x Hn) as (l1 & l2 & -> & ->).
  exists (flat_map f l1 ++ flat_map f l2). rewrite !flat_map_app. simpl. split.
  - apply Permutation_app_swap_app.
  - apply Permutation_app_swap_app.
Qed.

Lemma find_ext_in {A} (p q : A -> bool) l :
  (forall x, In x l -> p x = q x) -> find p l = find q l.
Proof.
  induction l as [|a l IH]; intros H; simpl; auto.
  rewrite (H a) by (left; auto). destruct (q a); auto. apply IH. intros; apply H; right; auto.
Qed.

Lemma NoDup_map_inj_in {A B} (f : A -> B) l a b :
  NoDup (map f l) -> In a l -> In b l -> f a = f b -> a = b.
Proof.
  induction l as [|x l IH]; simpl; intros Hnd Ha Hb Hf; [contradiction|].
  inversion Hnd as [|? ? Hx Hnd']; subst.
  destruct Ha as [->|Ha], Hb as [->|Hb]; auto.
  - exfalso. apply Hx. rewrite Hf. now apply in_map.
  - exfalso. apply Hx. rewrite <- Hf. now apply in_map.
Qed.

Lemma NoDup_map_filter {A B} (f : A -> B) p l : NoDup (map f l) -> NoDup (map f (filter p l)).
Proof.
  induction l as [|x l IH]; simpl; intros H; auto.
  inversion H as [|? ? Hx Hnd]; subst. destruct (p x); simpl; auto.
  constructor; auto. intros Hin. apply Hx.
  apply in_map_iff in Hin as (z & <- & Hz). apply filter_In in Hz as [Hz _]. now apply in_map.
Qed.

Lemma filter_all {A} (p : A -> bool) l : (forall x, In x l -> p x = true) -> filter p l = l.
Proof.
  induction l as [|x l IH]; simpl; intros H; auto.
  rewrite (H x) by auto. f_equal. apply IH. auto.
Qed.

Lemma NoDup_N_seq m : NoDup (map N.of_nat (seq 0 m)).
Proof.
  apply FinFun.Injective_map_NoDup; [|apply seq_NoDup].
  intros a b H. now apply Nat2N.inj.
Qed.

Lemma In_N_seq m k : In k (map N.of_nat (seq 0 m)) <-> k < N.of_nat m.
Proof.
  rewrite in_map_iff. split.
  - intros (x & <- & Hx). apply in_seq in Hx. lia.
  - intros H. exists (N.to_nat k). split; [apply N2Nat.id|]. apply in_seq. lia.
Qed.

(* a duplicate-free list of numbers all below n has at most n members *)
Lemma NoDup_below_length l n :
  NoDup l -> (forall k, In k l -> k < n) -> N.of_nat (length l) <= n.
Proof.
  intros Hnd H.
  assert (Hle : (length l <= length (map N.of_nat (seq 0 (N.to_nat n))))%nat).
  { apply NoDup_incl_length; auto. intros k Hk. apply In_N_seq. rewrite N2Nat.id. auto. }
  rewrite map_length, seq_length in Hle. lia.
Qed.

(* the counting step: a duplicate-free list whose members are exactly the numbers below n
   has n members *)
Lemma NoDup_exact_length l n :
  NoDup l -> (forall k, In k l <-> k < n) -> N.of_nat (length l) = n.
Proof.
  intros Hnd H.
  assert (Hp : Permutation l (map N.of_nat (seq 0 (N.to_nat n)))).
  { apply NoDup_Permutation; auto using NoDup_N_seq.
    intros k. rewrite In_N_seq, N2Nat.id. apply H. }
  apply Permutation_length in Hp. rewrite map_length, seq_length in Hp. lia.
Qed.

(* ------------------------------------------------------------------ locks *)

Lemma locks_one_holder (l : list (N * nat)) sh a b :
  NoDup (map fst l) -> In (sh, a) l -> In (sh, b) l -> a = b.
Proof.
  intros Hnd Ha Hb.
  assert (H : (sh, a) = (sh, b)) by (eapply NoDup_map_inj_in; eauto).
  congruence.
Qed.

Lemma In_unlock c tid sh h : In (sh, h) (unlock c tid) <-> In (sh, h) (c_locks c) /\ h <> tid.
Proof.
  unfold unlock. rewrite filter_In. simpl. rewrite negb_true_iff, Nat.eqb_neq. tauto.
Qed.

Lemma lock_holder_none c sh : lock_holder c sh = None -> ~ In sh (map fst (c_locks c)).
Proof.
  unfold lock_holder. destruct (find _ _) eqn:E; [discriminate|]. intros _ Hin.
  apply in_map_iff in Hin as (x & Hx & Hin). eapply find_none in E; eauto.
  simpl in E. rewrite Hx, N.eqb_refl in E. discriminate.
Qed.

Lemma lock_holder_some c sh h : lock_holder c sh = Some h -> In (sh, h) (c_locks c).
Proof.
  unfold lock_holder. destruct (find _ _) as [[a b]|] eqn:E; [|discriminate].
  intros H. inversion H; subst. apply find_some in E as [Hin Hp]. simpl in *.
  apply N.eqb_eq in Hp. subst. auto.
Qed.

Section Proofs.
  Variable shard_of : str -> N.
  Variable keycap : N.

  Notation step := (step shard_of keycap).
  Notation step_gen := (step_gen shard_of keycap).
  Notation reachable := (reachable shard_of keycap).
  Notation JInv := (JInv shard_of keycap).
  Notation blocked := (blocked shard_of).
  Notation try_key := (try_key keycap).

  (* ---------------------------------------------------------------- lookups, via ghost strings *)

  Lemma map_denotes c e : AInv c -> JInv c -> In e (c_map c) ->
    read (as_arena c) (e_ref e) = Some (e_str e).
  Proof.
    intros HA HJ Hin. apply (ji_map_in_strs _ _ _ HJ) in Hin.
    pose proof (ai_strs_denote _ HA) as HF. rewrite Forall_forall in HF.
    apply HF in Hin. apply Hin.
  Qed.

  Lemma map_get_spec c s : AInv c -> JInv c ->
    map_get c s = match find (fun e => str_eqb s (e_str e)) (c_map c) with
                  | Some e => Some (e_key e) | None => None end.
  Proof.
    intros HA HJ. unfold map_get.
    rewrite (find_ext_in _ (fun e => str_eqb s (e_str e))); auto.
    intros e Hin. now rewrite (map_denotes c e HA HJ Hin).
  Qed.

  Lemma map_get_some c s k : AInv c -> JInv c ->
    (map_get c s = Some k <-> exists e, In e (c_map c) /\ e_str e = s /\ e_key e = k).
  Proof.
    intros HA HJ. rewrite map_get_spec by auto. split.
    - destruct (find _ _) as [e|] eqn:E; [|discriminate]. intros H. inversion H; subst.
      apply find_some in E as [Hin Hp]. apply str_eqb_eq in Hp. exists e. auto.
    - intros (e & Hin & Hs & Hk).
      destruct (find _ _) as [e'|] eqn:E.
      + apply find_some in E as [Hin' Hp]. apply str_eqb_eq in Hp.
        assert (e' = e).
        { apply (NoDup_map_inj_in e_str (c_map c)); auto; [|congruence].
          apply (ji_map_strs_nodup _ _ _ HJ). }
        subst. auto.
      + eapply find_none in E; eauto. simpl in E. rewrite Hs, str_eqb_refl in E. discriminate.
  Qed.

  Lemma map_get_none c s : AInv c -> JInv c ->
    (map_get c s = None <-> ~ In s (strs_of (c_map c))).
  Proof.
    intros HA HJ. rewrite map_get_spec by auto. split.
    - destruct (find _ _) as [e|] eqn:E; [discriminate|]. intros _ Hin.
      apply in_map_iff in Hin as (e & He & Hin). eapply find_none in E; eauto.
      simpl in E. rewrite He, str_eqb_refl in E. discriminate.
    - intros Hn. destruct (find _ _) as [e|] eqn:E; auto.
      apply find_some in E as [Hin Hp]. apply str_eqb_eq in Hp. exfalso. apply Hn.
      subst. apply in_map. auto.
  Qed.

  Lemma strs_get_in c e : NoDup (keys_of (c_strs c)) -> In e (c_strs c) ->
    strs_get c (e_key e) = Some (e_ref e).
  Proof.
    intros Hnd Hin. unfold strs_get. destruct (find _ _) as [e'|] eqn:E.
    - apply find_some in E as [Hin' Hp]. apply N.eqb_eq in Hp.
      assert (e' = e) by (eapply (NoDup_map_inj_in e_key); eauto). subst. auto.
    - eapply find_none in E; eauto. simpl in E. rewrite N.eqb_refl in E. discriminate.
  Qed.

  (* ---------------------------------------------------------------- the strengthened invariant *)

  Definition str_of_call (cl : call) : option str :=
    match cl with CIntern s | CInternStatic _ s | CGet s => Some s | _ => None end.

  (* [cl] is a call that interns [s] *)
  Definition intern_of (cl : call) (s : str) : Prop :=
    cl = CIntern s \/ exists a, cl = CInternStatic a s.

  (* the call a thread is executing is about the string in its program counter *)
  Definition pc_call_ok (t : thread) : Prop :=
    match t_pc t with
    | PFast cl => t_call t = cl
    | PLock s | PFind s | PStore s _ | PKeyAdd s _ => t_call t = CIntern s
    | PEntry a s | PSKeyAdd a s => t_call t = CInternStatic a s
    | PStrs s _ _ | PMap s _ _ => intern_of (t_call t) s
    | _ => True
    end.

  Record JExtra (c : cstate) : Prop := {
    jx_call : forall t, In t (c_threads c) -> pc_call_ok t;
    (* history: every string -> key entry was published by a completed intern call *)
    jx_published : forall e, In e (c_map c) ->
      exists t cl, In t (c_threads c) /\ In (cl, ROk (e_key e)) (t_outs t) /\ intern_of cl (e_str e)
  }.

  Definition JInv' (c : cstate) : Prop := JInv c /\ JExtra c.

  (* what [ji_answers] promises about one recorded answer *)
  Definition answer_ok (c : cstate) (cl : call) (k : N) : Prop :=
    exists s, (cl = CIntern s \/ (exists a, cl = CInternStatic a s) \/ cl = CGet s) /\
              exists e, In e (c_map c) /\ e_key e = k /\ e_str e = s.

  (* ---------------------------------------------------------------- 1. the initial state *)

  Lemma init_JInv' cap lim progs : JInv' (init cap lim progs).
  Proof.
    assert (Hpc : forall t, In t (c_threads (init cap lim progs)) -> t_pc t = PIdle /\ t_outs t = []).
    { intros t Hin. simpl in Hin. apply in_map_iff in Hin as (p & <- & _). auto. }
    assert (Hd : drawn_keys (init cap lim progs) = []).
    { unfold drawn_keys. simpl. clear Hpc. induction progs as [|p ps IH]; simpl; auto. }
    split; constructor; simpl c_map; simpl c_strs; simpl c_locks; simpl c_key; try rewrite Hd;
      simpl; try (now constructor); try (intros; contradiction).
    - intros tid t s Hn Hh. apply nth_error_In in Hn. apply Hpc in Hn as [Hn _].
      unfold holds in Hh. rewrite Hn in Hh. discriminate.
    - intros tid t s _ _ _ H. exact H.
    - intros t s r k Hin Hp. apply Hpc in Hin as [Hin _]. congruence.
    - intros k. split; [contradiction|]. lia.
    - intros t cl k Hin Ho. apply Hpc in Hin as [_ Hin]. rewrite Hin in Ho. contradiction.
    - intros t Hin. apply Hpc in Hin as [Hin _]. unfold pc_call_ok. now rewrite Hin.
  Qed.

  Lemma init_JInv cap lim progs : JInv (init cap lim progs).
  Proof. apply init_JInv'. Qed.


  (* ---------------------------------------------------------------- the shape of a transition *)

  (* thread [tid] changes from [t] to [t']; all other threads stay as they are *)
  Definition moves (c c' : cstate) (tid : nat) (t t' : thread) : Prop :=
    nth_error (c_threads c) tid = Some t /\ c_threads c' = set_nth tid t' (c_threads c).

  Lemma mv_nth c c' tid t t' m u : moves c c' tid t t' ->
    nth_error (c_threads c') m = Some u ->
    (m = tid /\ u = t') \/ (m <> tid /\ nth_error (c_threads c) m = Some u).
  Proof. intros [Hn Ht] Hm. rewrite Ht in Hm. eapply nth_error_set_nth_inv; eauto. Qed.

  Lemma mv_nth_new c c' tid t t' : moves c c' tid t t' -> nth_error (c_threads c') tid = Some t'.
  Proof. intros [Hn Ht]. rewrite Ht. eapply nth_error_set_nth_eq; eauto. Qed.

  Lemma mv_nth_other c c' tid t t' m : moves c c' tid t t' -> m <> tid ->
    nth_error (c_threads c') m = nth_error (c_threads c) m.
  Proof. intros [Hn Ht] Hm. rewrite Ht. now apply nth_error_set_nth_neq. Qed.

  Lemma mv_in c c' tid t t' u : moves c c' tid t t' ->
    In u (c_threads c') -> u = t' \/ In u (c_threads c).
  Proof. intros [Hn Ht] Hin. rewrite Ht in Hin. now apply In_set_nth_old in Hin. Qed.

  Lemma mv_in_new c c' tid t t' : moves c c' tid t t' -> In t' (c_threads c').
  Proof. intros [Hn Ht]. rewrite Ht. eapply In_set_nth_new; eauto. Qed.

  Lemma mv_in_old c c' tid t t' : moves c c' tid t t' -> In t (c_threads c).
  Proof. intros [Hn Ht]. eapply nth_error_In; eauto. Qed.

  Lemma mv_keep c c' tid t t' u : moves c c' tid t t' ->
    In u (c_threads c) -> u = t \/ In u (c_threads c').
  Proof. intros [Hn Ht] Hin. rewrite Ht. eapply In_set_nth_keep; eauto. Qed.

  Lemma mv_drawn_same c c' tid t t' : moves c c' tid t t' -> drawn_key t' = drawn_key t ->
    drawn_keys c' = drawn_keys c.
  Proof.
    intros [Hn Ht] Hd. unfold drawn_keys. rewrite Ht.
    apply (flat_map_set_nth_same _ _ _ _ _ Hn). now rewrite Hd.
  Qed.

  Lemma holds_none_drawn t : holds t = None -> drawn_key t = None /\ half_inserted t = None.
  Proof. unfold holds, drawn_key, half_inserted. destruct (t_pc t); intros H; try discriminate; auto. Qed.

  (* ---------------------------------------------------------------- clauses, by name *)

  Definition LockInv (c : cstate) : Prop :=
    NoDup (map fst (c_locks c)) /\
    (forall tid t s, nth_error (c_threads c) tid = Some t -> holds t = Some s ->
                     In (shard_of s, tid) (c_locks c)) /\
    (forall sh tid, In (sh, tid) (c_locks c) ->
                    exists t s, nth_error (c_threads c) tid = Some t /\ holds t = Some s /\ shard_of s = sh).

  Definition Absent (c : cstate) : Prop :=
    forall tid t s, nth_error (c_threads c) tid = Some t -> holds t = Some s ->
                    t_pc t <> PFind s -> ~ In s (strs_of (c_map c)).

  Definition PmapIn (c : cstate) : Prop :=
    forall t s r k, In t (c_threads c) -> t_pc t = PMap s r k -> In (mkEntry r s k) (c_strs c).

  Definition Half (c : cstate) : Prop :=
    forall e, In e (c_strs c) ->
              In e (c_map c) \/ exists t, In t (c_threads c) /\ half_inserted t = Some (e_str e, e_key e).

  Definition KeysInv (c : cstate) : Prop :=
    NoDup (keys_of (c_strs c) ++ drawn_keys c) /\
    (forall k, In k (keys_of (c_strs c) ++ drawn_keys c) <-> k < N.min (c_key c) keycap).

  Definition Answers (c : cstate) : Prop :=
    forall t cl k, In t (c_threads c) -> In (cl, ROk k) (t_outs t) -> answer_ok c cl k.

  Lemma JInv_LockInv c : JInv c -> LockInv c.
  Proof. intros H. split; [|split]; apply H. Qed.

  Lemma JInv_KeysInv c : JInv c -> KeysInv c.
  Proof. intros H. split; apply H. Qed.

  (* two threads that hold the lock of the same string are one thread *)
  Lemma holders_same c m1 m2 u1 u2 s : LockInv c ->
    nth_error (c_threads c) m1 = Some u1 -> nth_error (c_threads c) m2 = Some u2 ->
    holds u1 = Some s -> holds u2 = Some s -> m1 = m2.
  Proof.
    intros (Hnd & Hh & _) H1 H2 Hs1 Hs2.
    eapply locks_one_holder; eauto.
  Qed.

  (* ---------------------------------------------------------------- locks *)

  Lemma locks_same c c' tid t t' : moves c c' tid t t' ->
    c_locks c' = c_locks c -> holds t' = holds t -> LockInv c -> LockInv c'.
  Proof.
    intros Hmv Hl Hh (Hnd & Hhold & Hheld). pose proof Hmv as [Hn _].
    split; [|split]; rewrite Hl.
    - exact Hnd.
    - intros m u s Hm Hs. destruct (mv_nth _ _ _ _ _ _ _ Hmv Hm) as [[-> ->]|[Hne Hm']].
      + rewrite Hh in Hs. eauto.
      + eauto.
    - intros sh m Hin. destruct (Hheld _ _ Hin) as (u & s & Hu & Hs & Hsh).
      destruct (Nat.eq_dec m tid) as [->|Hne].
      + exists t', s. rewrite (mv_nth_new _ _ _ _ _ Hmv). rewrite Hh.
        assert (u = t) by congruence. subst. auto.
      + exists u, s. rewrite (mv_nth_other _ _ _ _ _ _ Hmv Hne). auto.
  Qed.

  Lemma locks_acquire c c' tid t t' s : moves c c' tid t t' ->
    c_locks c' = (shard_of s, tid) :: c_locks c -> ~ In (shard_of s) (map fst (c_locks c)) ->
    holds t = None -> holds t' = Some s -> LockInv c -> LockInv c'.
  Proof.
    intros Hmv Hl Hfree Hh Hh' (Hnd & Hhold & Hheld). pose proof Hmv as [Hn _].
    split; [|split]; rewrite Hl.
    - simpl. constructor; auto.
    - intros m u s0 Hm Hs. destruct (mv_nth _ _ _ _ _ _ _ Hmv Hm) as [[-> ->]|[Hne Hm']].
      + left. congruence.
      + right. eauto.
    - intros sh m [Heq|Hin].
      + inversion Heq; subst. exists t', s. rewrite (mv_nth_new _ _ _ _ _ Hmv). auto.
      + destruct (Hheld _ _ Hin) as (u & s0 & Hu & Hs & Hsh).
        assert (Hne : m <> tid) by (intros ->; congruence).
        exists u, s0. rewrite (mv_nth_other _ _ _ _ _ _ Hmv Hne). auto.
  Qed.

  Lemma locks_release c c' tid t t' : moves c c' tid t t' ->
    c_locks c' = unlock c tid -> holds t' = None -> LockInv c -> LockInv c'.
  Proof.
    intros Hmv Hl Hh' (Hnd & Hhold & Hheld). pose proof Hmv as [Hn _].
    split; [|split]; rewrite Hl.
    - unfold unlock. now apply NoDup_map_filter.
    - intros m u s Hm Hs. destruct (mv_nth _ _ _ _ _ _ _ Hmv Hm) as [[-> ->]|[Hne Hm']].
      + congruence.
      + apply In_unlock. split; eauto.
    - intros sh m Hin. apply In_unlock in Hin as [Hin Hne].
      destruct (Hheld _ _ Hin) as (u & s & Hu & Hs & Hsh).
      exists u, s. rewrite (mv_nth_other _ _ _ _ _ _ Hmv Hne). auto.
  Qed.

  (* ---------------------------------------------------------------- generic frames *)

  Lemma absent_frame c c' tid t t' : moves c c' tid t t' ->
    c_map c' = c_map c ->
    (forall s, holds t' = Some s -> t_pc t' <> PFind s -> ~ In s (strs_of (c_map c))) ->
    Absent c -> Absent c'.
  Proof.
    intros Hmv Hm Hnew Hab m u s Hu Hs Hpc. rewrite Hm.
    destruct (mv_nth _ _ _ _ _ _ _ Hmv Hu) as [[-> ->]|[Hne Hu']]; eauto.
  Qed.

  Lemma pmap_frame c c' tid t t' : moves c c' tid t t' ->
    (forall e, In e (c_strs c) -> In e (c_strs c')) ->
    (forall s r k, t_pc t' = PMap s r k -> In (mkEntry r s k) (c_strs c')) ->
    PmapIn c -> PmapIn c'.
  Proof.
    intros Hmv Hincl Hnew Hp u s r k Hu Hpc.
    destruct (mv_in _ _ _ _ _ _ Hmv Hu) as [->|Hu']; eauto.
  Qed.

  Lemma half_frame c c' tid t t' : moves c c' tid t t' ->
    c_map c' = c_map c -> c_strs c' = c_strs c -> half_inserted t = None ->
    Half c -> Half c'.
  Proof.
    intros Hmv Hm Hs Hh Hhalf e Hin. rewrite Hs in Hin. rewrite Hm.
    destruct (Hhalf e Hin) as [H|(u & Hu & Hhu)]; auto.
    right. destruct (mv_keep _ _ _ _ _ _ Hmv Hu) as [->|Hu']; [congruence|eauto].
  Qed.

  Lemma keys_frame c c' tid t t' : moves c c' tid t t' ->
    c_strs c' = c_strs c -> drawn_key t' = drawn_key t ->
    N.min (c_key c') keycap = N.min (c_key c) keycap ->
    KeysInv c -> KeysInv c'.
  Proof.
    intros Hmv Hs Hd Hk [Hnd Hr]. unfold KeysInv.
    rewrite (mv_drawn_same _ _ _ _ _ Hmv Hd), Hs, Hk. auto.
  Qed.

  Lemma answer_ok_mono c c' cl k :
    (forall e, In e (c_map c) -> In e (c_map c')) -> answer_ok c cl k -> answer_ok c' cl k.
  Proof. intros Hincl (s & Hcl & e & Hin & He). exists s. split; auto. exists e. auto. Qed.

  Lemma answers_frame c c' tid t t' : moves c c' tid t t' ->
    (forall e, In e (c_map c) -> In e (c_map c')) ->
    (forall cl k, In (cl, ROk k) (t_outs t') -> In (cl, ROk k) (t_outs t) \/ answer_ok c' cl k) ->
    Answers c -> Answers c'.
  Proof.
    intros Hmv Hincl Hnew Hans u cl k Hu Ho.
    destruct (mv_in _ _ _ _ _ _ Hmv Hu) as [->|Hu'].
    - destruct (Hnew _ _ Ho) as [Hold|Hok]; auto.
      eapply answer_ok_mono; eauto. eapply Hans; eauto. eapply mv_in_old; eauto.
    - eapply answer_ok_mono; eauto.
  Qed.

  Lemma call_frame c c' tid t t' : moves c c' tid t t' -> pc_call_ok t' ->
    (forall u, In u (c_threads c) -> pc_call_ok u) -> (forall u, In u (c_threads c') -> pc_call_ok u).
  Proof.
    intros Hmv Hnew Hc u Hu. destruct (mv_in _ _ _ _ _ _ Hmv Hu) as [->|Hu']; auto.
  Qed.

  Definition Published (c : cstate) : Prop :=
    forall e, In e (c_map c) ->
      exists t cl, In t (c_threads c) /\ In (cl, ROk (e_key e)) (t_outs t) /\ intern_of cl (e_str e).

  Lemma published_frame c c' tid t t' : moves c c' tid t t' ->
    (forall x, In x (t_outs t) -> In x (t_outs t')) ->
    (forall e, In e (c_map c') -> In e (c_map c) \/
               exists cl, In (cl, ROk (e_key e)) (t_outs t') /\ intern_of cl (e_str e)) ->
    Published c -> Published c'.
  Proof.
    intros Hmv Houts Hnew Hp e Hin.
    destruct (Hnew e Hin) as [Hold|(cl & Ho & Hcl)].
    - destruct (Hp e Hold) as (u & cl & Hu & Ho & Hcl).
      destruct (mv_keep _ _ _ _ _ _ Hmv Hu) as [->|Hu'].
      + exists t', cl. split; [eapply mv_in_new; eauto|]. auto.
      + exists u, cl. auto.
    - exists t', cl. split; [eapply mv_in_new; eauto|]. auto.
  Qed.


  (* ---------------------------------------------------------------- kinds of transitions *)

  (* K1/K2: a move that publishes nothing: the thread goes to another program counter, holding
     the same lock as before or acquiring the (free) lock of its string's shard *)
  Lemma K_goto c c' tid t t' : moves c c' tid t t' ->
    c_map c' = c_map c -> c_strs c' = c_strs c -> c_key c' = c_key c ->
    ((c_locks c' = c_locks c /\ holds t' = holds t) \/
     (exists s, c_locks c' = (shard_of s, tid) :: c_locks c /\
                ~ In (shard_of s) (map fst (c_locks c)) /\ holds t = None /\ holds t' = Some s)) ->
    (forall s, holds t' = Some s -> t_pc t' <> PFind s -> ~ In s (strs_of (c_map c))) ->
    drawn_key t = None -> drawn_key t' = None ->
    half_inserted t = None -> half_inserted t' = None ->
    t_outs t' = t_outs t -> pc_call_ok t' ->
    JInv' c -> JInv' c'.
  Proof.
    intros Hmv Hm Hs Hk Hlk Hab Hd Hd' Hh Hh' Ho Hcall [HJ HX].
    assert (HL : LockInv c').
    { destruct Hlk as [[Hl Hhold]|(s & Hl & Hfree & Hn & Hn')].
      - eapply locks_same; eauto using JInv_LockInv.
      - eapply locks_acquire; eauto using JInv_LockInv. }
    assert (HK : KeysInv c').
    { eapply keys_frame; eauto using JInv_KeysInv; congruence. }
    split; constructor.
    - apply HL.
    - apply HL.
    - apply HL.
    - change (Absent c'). eapply absent_frame; eauto. exact (ji_absent _ _ _ HJ).
    - rewrite Hm. apply HJ.
    - rewrite Hm. apply HJ.
    - rewrite Hs. apply HJ.
    - rewrite Hs. apply HJ.
    - rewrite Hm, Hs. apply HJ.
    - change (PmapIn c'). eapply pmap_frame; eauto.
      + rewrite Hs. auto.
      + intros s r k Hpc. unfold half_inserted in Hh'. rewrite Hpc in Hh'. discriminate.
      + exact (ji_pmap_in_strs _ _ _ HJ).
    - change (Half c'). eapply half_frame; eauto. exact (ji_half _ _ _ HJ).
    - apply HK.
    - apply HK.
    - change (Answers c'). eapply answers_frame; eauto.
      + rewrite Hm. auto.
      + intros cl k Hin. left. now rewrite <- Ho.
      + exact (ji_answers _ _ _ HJ).
    - eapply call_frame; eauto. exact (jx_call _ HX).
    - change (Published c'). eapply published_frame; eauto.
      + intros x. now rewrite Ho.
      + intros e. rewrite Hm. auto.
      + exact (jx_published _ HX).
  Qed.

  (* K3: a call returns without publishing anything *)
  Lemma K_finish c c' tid t o :
    moves c c' tid t (mkThread PIdle (t_call t) (t_prog t) ((t_call t, o) :: t_outs t)) ->
    c_map c' = c_map c -> c_strs c' = c_strs c ->
    N.min (c_key c') keycap = N.min (c_key c) keycap ->
    c_locks c' = unlock c tid ->
    drawn_key t = None -> half_inserted t = None ->
    (forall k, o = ROk k -> answer_ok c (t_call t) k) ->
    JInv' c -> JInv' c'.
  Proof.
    intros Hmv Hm Hs Hk Hl Hd Hh Hans [HJ HX].
    assert (HL : LockInv c').
    { eapply locks_release; eauto using JInv_LockInv. }
    assert (HK : KeysInv c').
    { eapply keys_frame; eauto using JInv_KeysInv. }
    split; constructor.
    - apply HL.
    - apply HL.
    - apply HL.
    - change (Absent c'). eapply absent_frame; eauto.
      + intros s Hhs. discriminate.
      + exact (ji_absent _ _ _ HJ).
    - rewrite Hm. apply HJ.
    - rewrite Hm. apply HJ.
    - rewrite Hs. apply HJ.
    - rewrite Hs. apply HJ.
    - rewrite Hm, Hs. apply HJ.
    - change (PmapIn c'). eapply pmap_frame; eauto.
      + rewrite Hs. auto.
      + intros s r k Hpc. discriminate.
      + exact (ji_pmap_in_strs _ _ _ HJ).
    - change (Half c'). eapply half_frame; eauto. exact (ji_half _ _ _ HJ).
    - apply HK.
    - apply HK.
    - change (Answers c'). eapply answers_frame; eauto.
      + rewrite Hm. auto.
      + intros cl k [Heq|Hin]; auto. right. inversion Heq; subst.
        eapply answer_ok_mono; [|eapply Hans; eauto]. rewrite Hm. auto.
      + exact (ji_answers _ _ _ HJ).
    - eapply call_frame; eauto; [exact I|]. exact (jx_call _ HX).
    - change (Published c'). eapply published_frame; eauto.
      + intros x Hx. right. exact Hx.
      + intros e. rewrite Hm. auto.
      + exact (jx_published _ HX).
  Qed.

  Lemma NoDup_app_disjoint {A} (l1 l2 : list A) x : NoDup (l1 ++ l2) -> In x l1 -> In x l2 -> False.
  Proof.
    induction l1 as [|a l1 IH]; simpl; intros Hnd H1 H2; [contradiction|].
    inversion Hnd as [|? ? Ha Hnd']; subst. destruct H1 as [->|H1]; auto.
    apply Ha. apply in_or_app. auto.
  Qed.

  Lemma NoDup_snoc {A} (l : list A) x : NoDup l -> ~ In x l -> NoDup (l ++ [x]).
  Proof.
    intros Hnd Hx. apply (NoDup_Add (a := x) (l := l)); auto.
    rewrite <- (app_nil_r l) at 1. apply Add_app.
  Qed.

  Lemma mv_drawn_add c c' tid t t' k : moves c c' tid t t' ->
    drawn_key t = None -> drawn_key t' = Some k -> Permutation (drawn_keys c') (k :: drawn_keys c).
  Proof.
    intros [Hn Ht] Hd Hd'. unfold drawn_keys. rewrite Ht.
    destruct (flat_map_set_nth_perm
                (fun t => match drawn_key t with Some k => [k] | None => [] end) tid t' _ _ Hn)
      as (rest & H1 & H2).
    rewrite Hd in H1. rewrite Hd' in H2. simpl in H1, H2.
    rewrite H2. constructor. now symmetry.
  Qed.

  Lemma mv_drawn_remove c c' tid t t' k : moves c c' tid t t' ->
    drawn_key t = Some k -> drawn_key t' = None -> Permutation (drawn_keys c) (k :: drawn_keys c').
  Proof.
    intros [Hn Ht] Hd Hd'. unfold drawn_keys. rewrite Ht.
    destruct (flat_map_set_nth_perm
                (fun t => match drawn_key t with Some k => [k] | None => [] end) tid t' _ _ Hn)
      as (rest & H1 & H2).
    rewrite Hd in H1. rewrite Hd' in H2. simpl in H1, H2.
    rewrite H1. constructor. now symmetry.
  Qed.

  (* K4: the thread draws the next key (the counter is below the capacity) *)
  Lemma K_draw c c' tid t t' s r : moves c c' tid t t' ->
    c_map c' = c_map c -> c_strs c' = c_strs c -> c_locks c' = c_locks c ->
    c_key c' = c_key c + 1 -> c_key c < keycap ->
    t_pc t' = PStrs s r (c_key c) -> holds t = Some s -> t_pc t <> PFind s ->
    drawn_key t = None -> half_inserted t = None ->
    t_outs t' = t_outs t -> pc_call_ok t' ->
    JInv' c -> JInv' c'.
  Proof.
    intros Hmv Hm Hs Hl Hk Hlt Hpc' Hhold Hpc Hd Hh Ho Hcall [HJ HX].
    pose proof Hmv as [Hn _].
    assert (Hhold' : holds t' = Some s) by (unfold holds; now rewrite Hpc').
    assert (HL : LockInv c').
    { eapply locks_same; eauto using JInv_LockInv. congruence. }
    assert (HP : Permutation (keys_of (c_strs c') ++ drawn_keys c')
                             (c_key c :: keys_of (c_strs c) ++ drawn_keys c)).
    { rewrite Hs. rewrite (mv_drawn_add c c' tid t t' (c_key c) Hmv Hd).
      - symmetry. apply Permutation_middle.
      - unfold drawn_key. now rewrite Hpc'. }
    destruct (JInv_KeysInv _ HJ) as [Hnd Hr].
    split; constructor.
    - apply HL.
    - apply HL.
    - apply HL.
    - change (Absent c'). eapply absent_frame; eauto.
      + intros s0 Hs0 _. assert (s0 = s) by congruence. subst.
        exact (ji_absent _ _ _ HJ tid t s Hn Hhold Hpc).
      + exact (ji_absent _ _ _ HJ).
    - rewrite Hm. apply HJ.
    - rewrite Hm. apply HJ.
    - rewrite Hs. apply HJ.
    - rewrite Hs. apply HJ.
    - rewrite Hm, Hs. apply HJ.
    - change (PmapIn c'). eapply pmap_frame; eauto.
      + rewrite Hs. auto.
      + intros s0 r0 k0 Hpc0. congruence.
      + exact (ji_pmap_in_strs _ _ _ HJ).
    - change (Half c'). eapply half_frame; eauto. exact (ji_half _ _ _ HJ).
    - eapply Permutation_NoDup; [symmetry; exact HP|]. constructor; auto.
      rewrite Hr. lia.
    - intros k. split.
      + intros Hin. apply (Permutation_in _ HP) in Hin. destruct Hin as [<-|Hin]; [lia|].
        apply Hr in Hin. lia.
      + intros Hlt'. apply (Permutation_in _ (Permutation_sym HP)).
        destruct (N.eq_dec k (c_key c)) as [->|Hne]; [left; auto|right]. apply Hr. lia.
    - change (Answers c'). eapply answers_frame; eauto.
      + rewrite Hm. auto.
      + intros cl k Hin. left. now rewrite <- Ho.
      + exact (ji_answers _ _ _ HJ).
    - eapply call_frame; eauto. exact (jx_call _ HX).
    - change (Published c'). eapply published_frame; eauto.
      + intros x. now rewrite Ho.
      + intros e. rewrite Hm. auto.
      + exact (jx_published _ HX).
  Qed.


  Lemma keys_of_app l1 l2 : keys_of (l1 ++ l2) = keys_of l1 ++ keys_of l2.
  Proof. apply map_app. Qed.
  Lemma strs_of_app l1 l2 : strs_of (l1 ++ l2) = strs_of l1 ++ strs_of l2.
  Proof. apply map_app. Qed.

  Lemma half_inserted_pc u s k : half_inserted u = Some (s, k) -> exists r, t_pc u = PMap s r k.
  Proof.
    unfold half_inserted. destruct (t_pc u); intros H; try discriminate.
    inversion H; subst. eauto.
  Qed.

  (* the string a lock holder (past its find) is inserting is in neither map *)
  Lemma holder_str_not_in_strs c tid t s : JInv c ->
    nth_error (c_threads c) tid = Some t -> holds t = Some s -> t_pc t <> PFind s ->
    half_inserted t = None -> ~ In s (strs_of (c_strs c)).
  Proof.
    intros HJ Hn Hhold Hpc Hh Hin.
    apply in_map_iff in Hin as (e & He & Hin).
    destruct (ji_half _ _ _ HJ e Hin) as [Hm|(u & Hu & Hhu)].
    - apply (ji_absent _ _ _ HJ tid t s Hn Hhold Hpc). rewrite <- He. now apply in_map.
    - rewrite He in Hhu. destruct (half_inserted_pc _ _ _ Hhu) as (r & Hpcu).
      apply In_nth_error in Hu as (m & Hm).
      assert (m = tid).
      { eapply (holders_same c m tid u t s); eauto using JInv_LockInv.
        unfold holds. now rewrite Hpcu. }
      subst. assert (u = t) by congruence. subst. congruence.
  Qed.

  (* K5: key -> string first *)
  Lemma K_strs c c' tid t s r k :
    moves c c' tid t (mkThread (PMap s r k) (t_call t) (t_prog t) (t_outs t)) ->
    t_pc t = PStrs s r k ->
    c_map c' = c_map c -> c_key c' = c_key c -> c_locks c' = c_locks c ->
    c_strs c' = strs_put (mkEntry r s k) (c_strs c) ->
    JInv' c -> JInv' c'.
  Proof.
    intros Hmv Hpc Hm Hk Hl Hs [HJ HX]. pose proof Hmv as [Hn _].
    set (t' := mkThread (PMap s r k) (t_call t) (t_prog t) (t_outs t)) in *.
    assert (Hhold : holds t = Some s) by (unfold holds; now rewrite Hpc).
    assert (Hnf : t_pc t <> PFind s) by congruence.
    assert (Hd : drawn_key t = Some k) by (unfold drawn_key; now rewrite Hpc).
    assert (Hh : half_inserted t = None) by (unfold half_inserted; now rewrite Hpc).
    destruct (JInv_KeysInv _ HJ) as [Hnd Hr].
    assert (Hkd : In k (drawn_keys c)).
    { unfold drawn_keys. apply in_flat_map. exists t. split; [eapply nth_error_In; eauto|].
      rewrite Hd. left; auto. }
    assert (Hknew : ~ In k (keys_of (c_strs c))).
    { intros Hin. eapply NoDup_app_disjoint; eauto. }
    assert (Hs' : c_strs c' = c_strs c ++ [mkEntry r s k]).
    { rewrite Hs. unfold strs_put. f_equal. apply filter_all. intros x Hx. simpl.
      apply negb_true_iff, N.eqb_neq. intros Heq. apply Hknew. rewrite <- Heq. now apply in_map. }
    assert (Hsnew : ~ In s (strs_of (c_strs c))).
    { eapply holder_str_not_in_strs; eauto. }
    assert (HL : LockInv c').
    { eapply locks_same; eauto using JInv_LockInv. }
    assert (HP : Permutation (keys_of (c_strs c') ++ drawn_keys c')
                             (keys_of (c_strs c) ++ drawn_keys c)).
    { rewrite Hs', keys_of_app, <- app_assoc. simpl. apply Permutation_app_head.
      symmetry. eapply mv_drawn_remove; eauto. }
    split; constructor.
    - apply HL.
    - apply HL.
    - apply HL.
    - change (Absent c'). eapply absent_frame; eauto.
      + intros s0 Hs0 _. assert (s0 = s) by (cbn in Hs0; congruence). subst.
        exact (ji_absent _ _ _ HJ tid t s Hn Hhold Hnf).
      + exact (ji_absent _ _ _ HJ).
    - rewrite Hm. apply HJ.
    - rewrite Hm. apply HJ.
    - rewrite Hs', keys_of_app. apply NoDup_snoc; auto. apply HJ.
    - rewrite Hs', strs_of_app. apply NoDup_snoc; auto. apply HJ.
    - intros e. rewrite Hm, Hs'. intros Hin. apply in_or_app. left. now apply (ji_map_in_strs _ _ _ HJ).
    - change (PmapIn c'). eapply pmap_frame; eauto.
      + intros e Hin. rewrite Hs'. apply in_or_app. auto.
      + intros s0 r0 k0 Hpc0. cbn in Hpc0. inversion Hpc0; subst.
        rewrite Hs'. apply in_or_app. right. left. auto.
      + exact (ji_pmap_in_strs _ _ _ HJ).
    - intros e. rewrite Hs', Hm. intros Hin. apply in_app_or in Hin as [Hin|[<-|[]]].
      + destruct (ji_half _ _ _ HJ e Hin) as [H|(u & Hu & Hhu)]; auto.
        right. destruct (mv_keep _ _ _ _ _ _ Hmv Hu) as [->|Hu']; [congruence|eauto].
      + right. exists t'. split; [eapply mv_in_new; eauto|]. reflexivity.
    - eapply Permutation_NoDup; [symmetry; exact HP|]. exact Hnd.
    - intros x. rewrite Hk, <- Hr. split; apply Permutation_in; auto. now symmetry.
    - change (Answers c'). eapply answers_frame; eauto.
      + rewrite Hm. auto.
      + exact (ji_answers _ _ _ HJ).
    - eapply call_frame; eauto; [|exact (jx_call _ HX)].
      pose proof (jx_call _ HX t (mv_in_old _ _ _ _ _ Hmv)) as Hc.
      unfold pc_call_ok in *. rewrite Hpc in Hc. exact Hc.
    - change (Published c'). eapply published_frame; eauto.
      + intros e. rewrite Hm. auto.
      + exact (jx_published _ HX).
  Qed.

  (* K6: ... then string -> key, and the call returns the key *)
  Lemma K_map c c' tid t s r k :
    moves c c' tid t (mkThread PIdle (t_call t) (t_prog t) ((t_call t, ROk k) :: t_outs t)) ->
    t_pc t = PMap s r k ->
    c_map c' = c_map c ++ [mkEntry r s k] -> c_strs c' = c_strs c -> c_key c' = c_key c ->
    c_locks c' = unlock c tid ->
    JInv' c -> JInv' c'.
  Proof.
    intros Hmv Hpc Hm Hs Hk Hl [HJ HX]. pose proof Hmv as [Hn _].
    set (t' := mkThread PIdle (t_call t) (t_prog t) ((t_call t, ROk k) :: t_outs t)) in *.
    assert (Hhold : holds t = Some s) by (unfold holds; now rewrite Hpc).
    assert (Hnf : t_pc t <> PFind s) by congruence.
    assert (Hd : drawn_key t = None) by (unfold drawn_key; now rewrite Hpc).
    assert (Hh : half_inserted t = Some (s, k)) by (unfold half_inserted; now rewrite Hpc).
    assert (Hcall : intern_of (t_call t) s).
    { pose proof (jx_call _ HX t (mv_in_old _ _ _ _ _ Hmv)) as Hc.
      unfold pc_call_ok in Hc. rewrite Hpc in Hc. exact Hc. }
    assert (He : In (mkEntry r s k) (c_strs c)).
    { eapply (ji_pmap_in_strs _ _ _ HJ); eauto. eapply mv_in_old; eauto. }
    assert (Hsnew : ~ In s (strs_of (c_map c))).
    { exact (ji_absent _ _ _ HJ tid t s Hn Hhold Hnf). }
    assert (Hknew : ~ In k (keys_of (c_map c))).
    { intros Hin. apply in_map_iff in Hin as (e & Hek & Hin).
      assert (e = mkEntry r s k).
      { apply (NoDup_map_inj_in e_key (c_strs c)); auto.
        - apply HJ.
        - now apply (ji_map_in_strs _ _ _ HJ). }
      subst e. apply Hsnew. change s with (e_str (mkEntry r s k)). now apply in_map. }
    assert (HL : LockInv c').
    { eapply locks_release; eauto using JInv_LockInv. }
    assert (HK : KeysInv c').
    { eapply keys_frame; eauto using JInv_KeysInv. congruence. }
    split; constructor.
    - apply HL.
    - apply HL.
    - apply HL.
    - intros m u s0 Hu Hs0 Hpc0. rewrite Hm, strs_of_app. intros Hin.
      destruct (mv_nth _ _ _ _ _ _ _ Hmv Hu) as [[-> ->]|[Hne Hu']]; [discriminate|].
      apply in_app_or in Hin as [Hin|[<-|[]]].
      + exact (ji_absent _ _ _ HJ m u s0 Hu' Hs0 Hpc0 Hin).
      + simpl in Hs0. apply Hne.
        eapply (holders_same c m tid u t s); eauto using JInv_LockInv.
    - rewrite Hm, strs_of_app. apply NoDup_snoc; auto. apply HJ.
    - rewrite Hm, keys_of_app. apply NoDup_snoc; auto. apply HJ.
    - rewrite Hs. apply HJ.
    - rewrite Hs. apply HJ.
    - intros e. rewrite Hm, Hs. intros Hin. apply in_app_or in Hin as [Hin|[<-|[]]]; auto.
      now apply (ji_map_in_strs _ _ _ HJ).
    - change (PmapIn c'). eapply pmap_frame; eauto.
      + rewrite Hs. auto.
      + intros s0 r0 k0 Hpc0. discriminate.
      + exact (ji_pmap_in_strs _ _ _ HJ).
    - intros e. rewrite Hs, Hm. intros Hin.
      destruct (ji_half _ _ _ HJ e Hin) as [H|(u & Hu & Hhu)].
      + left. apply in_or_app. auto.
      + destruct (mv_keep _ _ _ _ _ _ Hmv Hu) as [->|Hu']; [|eauto].
        left. apply in_or_app. right. left.
        rewrite Hh in Hhu. injection Hhu as Hes Hek.
        apply (NoDup_map_inj_in e_key (c_strs c)); auto. apply HJ.
    - apply HK.
    - apply HK.
    - change (Answers c'). eapply answers_frame; eauto.
      + intros e Hin. rewrite Hm. apply in_or_app. auto.
      + intros cl k0 [Heq|Hin]; auto. right. inversion Heq; subst.
        exists s. split.
        * destruct Hcall as [Hc|Hc]; auto.
        * exists (mkEntry r s k0). split; auto. rewrite Hm. apply in_or_app. right. left. auto.
      + exact (ji_answers _ _ _ HJ).
    - eapply call_frame; eauto; [exact I|]. exact (jx_call _ HX).
    - change (Published c'). eapply published_frame; eauto.
      + intros x Hx. right. exact Hx.
      + intros e. rewrite Hm. intros Hin. apply in_app_or in Hin as [Hin|[<-|[]]]; auto.
        right. exists (t_call t). split; [left; reflexivity|exact Hcall].
      + exact (jx_published _ HX).
  Qed.


  (* ---------------------------------------------------------------- the arena sub-steps *)

  (* what one event of store_str does to the interner's own state: nothing, except that the
     thread moves inside PStore / on to PKeyAdd, or gives up with MemoryLimitReached (and then
     releases its lock).  Holds for the repaired ([atomic = true]) and the legacy arena alike. *)
  Lemma store_step_shape atomic c tid t s p ch :
    let c' := store_step atomic c tid t s p ch in
    c_map c' = c_map c /\ c_strs c' = c_strs c /\ c_key c' = c_key c /\
    ((c_locks c' = c_locks c /\
      exists p', c_threads c' = set_nth tid (mkThread p' (t_call t) (t_prog t) (t_outs t)) (c_threads c) /\
                 ((exists q, p' = PStore s q) \/ (exists r, p' = PKeyAdd s r))) \/
     (c_locks c' = unlock c tid /\
      c_threads c' = set_nth tid (mkThread PIdle (t_call t) (t_prog t)
                                           ((t_call t, RErr MemoryLimitReached) :: t_outs t))
                             (c_threads c))).
  Proof.
    intros c'. subst c'. unfold store_step.
    destruct p;
      repeat match goal with
             | |- context [match ?x with _ => _ end] => destruct x
             end;
      cbn; (split; [reflexivity|split; [reflexivity|split; [reflexivity|]]]);
      first [ right; split; reflexivity
            | left; split; [reflexivity|]; eexists; split; [reflexivity|];
              first [left; eexists; reflexivity | right; eexists; reflexivity] ].
  Qed.


  (* ---------------------------------------------------------------- 2. one step *)

  (* a thread that holds nothing and is not blocked on shard [sh] finds it free *)
  Lemma not_blocked_free c tid t sh : JInv c ->
    nth_error (c_threads c) tid = Some t -> holds t = None ->
    match lock_holder c sh with Some h => negb (Nat.eqb h tid) | None => false end = false ->
    ~ In sh (map fst (c_locks c)).
  Proof.
    intros HJ Hn Hh Hb. destruct (lock_holder c sh) as [h|] eqn:E.
    - apply negb_false_iff, Nat.eqb_eq in Hb. subst h. apply lock_holder_some in E.
      destruct (ji_locks_held _ _ _ HJ _ _ E) as (u & s & Hu & Hs & _). congruence.
    - now apply lock_holder_none.
  Qed.

  Lemma unlock_own_new c tid sh :
    unlock (with_locks c ((sh, tid) :: c_locks c)) tid = unlock c tid.
  Proof. unfold unlock. cbn. now rewrite Nat.eqb_refl. Qed.

  Lemma answer_ok_get c s k cl : AInv c -> JInv c -> map_get c s = Some k ->
    (cl = CIntern s \/ (exists a, cl = CInternStatic a s) \/ cl = CGet s) -> answer_ok c cl k.
  Proof.
    intros HA HJ Hg Hcl. apply (map_get_some c s k HA HJ) in Hg as (e & Hin & Hs & Hk).
    exists s. split; auto. exists e. auto.
  Qed.

  Ltac pcs Hpc :=
    unfold holds, drawn_key, half_inserted, pc_call_ok in *;
    cbn [t_pc t_call t_prog t_outs] in *; rewrite ?Hpc in *.

  (* The step theorem.  It needs the storage invariant of the pre-state only (to read the
     lookups through ghost strings), and holds for the legacy arena ([atomic = false]) too. *)
  Theorem step_gen_JInv' atomic c c' tid ch :
    AInv c -> JInv' c -> step_gen atomic c tid ch = Some c' -> JInv' c'.
  Proof.
    intros HA HJ' Hstep. pose proof HJ' as [HJ HX]. unfold Conc.step_gen in Hstep.
    destruct (nth_error (c_threads c) tid) as [t|] eqn:Hn; [|discriminate].
    destruct (blocked c tid (t_pc t)) eqn:Hb; [discriminate|].
    pose proof (jx_call _ HX t (nth_error_In _ _ Hn)) as Hcall.
    destruct (t_pc t) eqn:Hpc.
    - (* PIdle *)
      destruct (t_prog t) as [|cl rest] eqn:Hprog; [discriminate|]. injection Hstep as <-.
      eapply (K_goto c _ tid t (mkThread (pc_of_call cl) cl rest (t_outs t))); eauto;
        try (split; [exact Hn|reflexivity]); try reflexivity.
      + left. split; [reflexivity|]. pcs Hpc. destruct cl; reflexivity.
      + intros s Hs. pcs Hpc. destruct cl; discriminate.
      + pcs Hpc. reflexivity.
      + pcs Hpc. destruct cl; reflexivity.
      + pcs Hpc. reflexivity.
      + pcs Hpc. destruct cl; reflexivity.
      + pcs Hpc. destruct cl; cbn; auto.
    - (* PFast *)
      destruct c0 as [s|a s|s| | |]; try discriminate; injection Hstep as <-.
      + destruct (map_get c s) as [k|] eqn:Hg.
        * eapply (K_finish c _ tid t (ROk k)); eauto;
            try (split; [exact Hn|reflexivity]); try reflexivity; try (pcs Hpc; reflexivity).
          intros k0 Hk0. injection Hk0 as <-. pcs Hpc. eapply answer_ok_get; eauto.
        * eapply (K_goto c _ tid t (mkThread (PLock s) (t_call t) (t_prog t) (t_outs t))); eauto;
            try (split; [exact Hn|reflexivity]); try reflexivity; try (pcs Hpc; reflexivity).
          -- left. split; [reflexivity|]. pcs Hpc. reflexivity.
          -- intros s0 Hs0. discriminate.
          -- pcs Hpc. exact Hcall.
      + destruct (map_get c s) as [k|] eqn:Hg.
        * eapply (K_finish c _ tid t (ROk k)); eauto;
            try (split; [exact Hn|reflexivity]); try reflexivity; try (pcs Hpc; reflexivity).
          intros k0 Hk0. injection Hk0 as <-. pcs Hpc. eapply answer_ok_get; eauto.
        * eapply (K_goto c _ tid t (mkThread (PEntry a s) (t_call t) (t_prog t) (t_outs t))); eauto;
            try (split; [exact Hn|reflexivity]); try reflexivity; try (pcs Hpc; reflexivity).
          -- left. split; [reflexivity|]. pcs Hpc. reflexivity.
          -- intros s0 Hs0. discriminate.
          -- pcs Hpc. exact Hcall.
      + eapply (K_finish c _ tid t); eauto;
          try (split; [exact Hn|reflexivity]); try reflexivity; try (pcs Hpc; reflexivity).
        intros k0 Hk0. destruct (map_get c s) as [k|] eqn:Hg; [|discriminate].
        injection Hk0 as <-. pcs Hpc. eapply answer_ok_get; eauto.
    - (* PLock *)
      injection Hstep as <-.
      eapply (K_goto c _ tid t (mkThread (PFind s) (t_call t) (t_prog t) (t_outs t))); eauto;
        try (split; [exact Hn|reflexivity]); try reflexivity; try (pcs Hpc; reflexivity).
      + right. exists s. split; [reflexivity|]. split; [|split; pcs Hpc; reflexivity].
        eapply not_blocked_free; eauto. pcs Hpc. reflexivity.
      + intros s0 Hs0 Hne. exfalso. apply Hne. cbn in *. congruence.
      + pcs Hpc. exact Hcall.
    - (* PFind *)
      injection Hstep as <-.
      destruct (map_get c s) as [k|] eqn:Hg.
      + eapply (K_finish c _ tid t (ROk k)); eauto;
          try (split; [exact Hn|reflexivity]); try reflexivity; try (pcs Hpc; reflexivity).
        intros k0 Hk0. injection Hk0 as <-. pcs Hpc. eapply answer_ok_get; eauto.
      + apply (map_get_none c s HA HJ) in Hg.
        destruct s as [|b s].
        * eapply (K_goto c _ tid t (mkThread (PKeyAdd [] REmpty) (t_call t) (t_prog t) (t_outs t))); eauto;
            try (split; [exact Hn|reflexivity]); try reflexivity; try (pcs Hpc; reflexivity).
          -- left. split; [reflexivity|]. pcs Hpc. reflexivity.
          -- intros s0 Hs0 _. cbn in Hs0. injection Hs0 as <-. exact Hg.
          -- pcs Hpc. exact Hcall.
        * eapply (K_goto c _ tid t (mkThread (PStore (b :: s) SHead) (t_call t) (t_prog t) (t_outs t))); eauto;
            try (split; [exact Hn|reflexivity]); try reflexivity; try (pcs Hpc; reflexivity).
          -- left. split; [reflexivity|]. pcs Hpc. reflexivity.
          -- intros s0 Hs0 _. cbn in Hs0. injection Hs0 as <-. exact Hg.
          -- pcs Hpc. exact Hcall.
    - (* PStore *)
      injection Hstep as <-.
      destruct (store_step_shape atomic c tid t s p ch) as (Hm & Hs & Hk & Hcase).
      assert (Hab : ~ In s (strs_of (c_map c))).
      { apply (ji_absent _ _ _ HJ tid t s Hn); pcs Hpc; congruence. }
      destruct Hcase as [(Hl & p' & Hthr & Hp')|(Hl & Hthr)].
      + eapply (K_goto c _ tid t (mkThread p' (t_call t) (t_prog t) (t_outs t))); eauto;
          try (split; [exact Hn|exact Hthr]); try reflexivity; try (pcs Hpc; reflexivity).
        * left. split; [exact Hl|]. pcs Hpc. destruct Hp' as [(q & ->)|(r & ->)]; reflexivity.
        * intros s0 Hs0 _. pcs Hpc. destruct Hp' as [(q & ->)|(r & ->)]; injection Hs0 as <-; exact Hab.
        * pcs Hpc. destruct Hp' as [(q & ->)|(r & ->)]; reflexivity.
        * pcs Hpc. destruct Hp' as [(q & ->)|(r & ->)]; reflexivity.
        * pcs Hpc. destruct Hp' as [(q & ->)|(r & ->)]; exact Hcall.
      + eapply (K_finish c _ tid t (RErr MemoryLimitReached)); eauto;
          try (split; [exact Hn|exact Hthr]); try (pcs Hpc; reflexivity).
        * now rewrite Hk.
        * intros k0 Hk0. discriminate.
    - (* PKeyAdd *)
      injection Hstep as <-. unfold Conc.try_key.
      destruct (c_key c <? keycap) eqn:Hlt.
      + apply N.ltb_lt in Hlt.
        eapply (K_draw c _ tid t (mkThread (PStrs s r (c_key c)) (t_call t) (t_prog t) (t_outs t)) s r); eauto;
          try (split; [exact Hn|reflexivity]); try reflexivity; try (pcs Hpc; reflexivity).
        * pcs Hpc. congruence.
        * pcs Hpc. left. exact Hcall.
      + apply N.ltb_ge in Hlt.
        eapply (K_finish c _ tid t (RErr KeySpaceExhaustion)); eauto;
          try (split; [exact Hn|reflexivity]); try reflexivity; try (pcs Hpc; reflexivity).
        * cbn. lia.
        * intros k0 Hk0. discriminate.
    - (* PStrs *)
      injection Hstep as <-.
      eapply (K_strs c _ tid t s r k); eauto; try (split; [exact Hn|reflexivity]); reflexivity.
    - (* PMap *)
      injection Hstep as <-.
      eapply (K_map c _ tid t s r k); eauto; try (split; [exact Hn|reflexivity]); reflexivity.
    - (* PEntry *)
      injection Hstep as <-.
      assert (Hfree : ~ In (shard_of s) (map fst (c_locks c))).
      { eapply not_blocked_free; eauto. pcs Hpc. reflexivity. }
      destruct (map_get c s) as [k|] eqn:Hg.
      + eapply (K_finish c _ tid t (ROk k)); eauto;
          try (split; [exact Hn|reflexivity]); try reflexivity; try (pcs Hpc; reflexivity).
        * apply unlock_own_new.
        * intros k0 Hk0. injection Hk0 as <-. pcs Hpc. eapply answer_ok_get; eauto.
      + apply (map_get_none c s HA HJ) in Hg.
        eapply (K_goto c _ tid t (mkThread (PSKeyAdd addr s) (t_call t) (t_prog t) (t_outs t))); eauto;
          try (split; [exact Hn|reflexivity]); try reflexivity; try (pcs Hpc; reflexivity).
        * right. exists s. split; [reflexivity|]. split; [exact Hfree|split; pcs Hpc; reflexivity].
        * intros s0 Hs0 _. cbn in Hs0. injection Hs0 as <-. exact Hg.
        * pcs Hpc. exact Hcall.
    - (* PSKeyAdd *)
      injection Hstep as <-. unfold Conc.try_key.
      destruct (c_key c <? keycap) eqn:Hlt.
      + apply N.ltb_lt in Hlt.
        eapply (K_draw c _ tid t (mkThread (PStrs s (RStatic addr s) (c_key c)) (t_call t) (t_prog t) (t_outs t))
                       s (RStatic addr s)); eauto;
          try (split; [exact Hn|reflexivity]); try reflexivity; try (pcs Hpc; reflexivity).
        * pcs Hpc. congruence.
        * pcs Hpc. right. eauto.
      + apply N.ltb_ge in Hlt.
        eapply (K_finish c _ tid t (RErr KeySpaceExhaustion)); eauto;
          try (split; [exact Hn|reflexivity]); try reflexivity; try (pcs Hpc; reflexivity).
        * cbn. lia.
        * intros k0 Hk0. discriminate.
    - (* PResolve *)
      injection Hstep as <-.
      eapply (K_finish c _ tid t); eauto;
        try (split; [exact Hn|reflexivity]); try reflexivity; try (pcs Hpc; reflexivity).
      intros k0 Hk0. destruct (strs_get c k); [|discriminate].
      destruct (read (as_arena c) s); discriminate.
    - (* PSetLimit *)
      injection Hstep as <-.
      eapply (K_finish c _ tid t RUnit); eauto;
        try (split; [exact Hn|reflexivity]); try reflexivity; try (pcs Hpc; reflexivity).
      intros k0 Hk0. discriminate.
    - (* PUsage *)
      injection Hstep as <-.
      eapply (K_finish c _ tid t (RNum (c_usage c))); eauto;
        try (split; [exact Hn|reflexivity]); try reflexivity; try (pcs Hpc; reflexivity).
      intros k0 Hk0. discriminate.
  Qed.


  Theorem step_JInv' c c' tid ch : AInv c -> JInv' c -> step c tid ch = Some c' -> JInv' c'.
  Proof. apply step_gen_JInv'. Qed.

  (* in the form asked for (the post-state's storage invariant is not needed) *)
  Theorem step_JInv c c' tid ch :
    AInv c -> AInv c' -> JInv' c -> step c tid ch = Some c' -> JInv c'.
  Proof. intros HA _ HJ Hs. exact (proj1 (step_JInv' c c' tid ch HA HJ Hs)). Qed.

  (* ---------------------------------------------------------------- 3. every reachable state *)

  Theorem reachable_JInv' cap lim progs c0 c :
    (forall c1, reachable c0 c1 -> AInv c1) -> c0 = init cap lim progs ->
    reachable c0 c -> JInv' c.
  Proof.
    intros HA -> Hr. induction Hr as [|c c' tid ch Hr IH Hs].
    - apply init_JInv'.
    - eapply step_JInv'; eauto.
  Qed.

  Lemma reachable_trans c0 c1 c2 : reachable c0 c1 -> reachable c1 c2 -> reachable c0 c2.
  Proof.
    intros H1 H2. induction H2 as [|c c' tid ch H2 IH Hs]; auto.
    eapply reach_step; eauto.
  Qed.

  (* ---------------------------------------------------------------- what a step does to histories *)

  Lemma step_gen_shape atomic c c' tid ch : step_gen atomic c tid ch = Some c' ->
    exists t t', moves c c' tid t t' /\
      (t_outs t' = t_outs t \/
       exists o, t_outs t' = (t_call t, o) :: t_outs t /\
                 (o = RErr KeySpaceExhaustion ->
                  keycap <= c_key c /\
                  ((exists s r, t_pc t = PKeyAdd s r) \/ (exists a s, t_pc t = PSKeyAdd a s)))).
  Proof.
    intros Hstep. unfold Conc.step_gen in Hstep.
    destruct (nth_error (c_threads c) tid) as [t|] eqn:Hn; [|discriminate].
    destruct (blocked c tid (t_pc t)) eqn:Hb; [discriminate|].
    exists t.
    destruct (t_pc t) eqn:Hpc.
    - destruct (t_prog t) as [|cl rest]; [discriminate|]. injection Hstep as <-.
      eexists. split; [split; [exact Hn|reflexivity]|left; reflexivity].
    - destruct c0 as [s|a s|s| | |]; try discriminate; injection Hstep as <-.
      + destruct (map_get c s).
        * eexists. split; [split; [exact Hn|reflexivity]|right; eexists; split; [reflexivity|discriminate]].
        * eexists. split; [split; [exact Hn|reflexivity]|left; reflexivity].
      + destruct (map_get c s).
        * eexists. split; [split; [exact Hn|reflexivity]|right; eexists; split; [reflexivity|discriminate]].
        * eexists. split; [split; [exact Hn|reflexivity]|left; reflexivity].
      + eexists. split; [split; [exact Hn|reflexivity]|right; eexists; split; [reflexivity|]].
        destruct (map_get c s); discriminate.
    - injection Hstep as <-.
      eexists. split; [split; [exact Hn|reflexivity]|left; reflexivity].
    - injection Hstep as <-. destruct (map_get c s).
      + eexists. split; [split; [exact Hn|reflexivity]|right; eexists; split; [reflexivity|discriminate]].
      + destruct s; eexists; (split; [split; [exact Hn|reflexivity]|left; reflexivity]).
    - injection Hstep as <-.
      destruct (store_step_shape atomic c tid t s p ch) as (_ & _ & _ & Hcase).
      destruct Hcase as [(_ & p' & Hthr & _)|(_ & Hthr)].
      + eexists. split; [split; [exact Hn|exact Hthr]|left; reflexivity].
      + eexists. split; [split; [exact Hn|exact Hthr]|right; eexists; split; [reflexivity|discriminate]].
    - injection Hstep as <-. unfold Conc.try_key. destruct (c_key c <? keycap) eqn:Hlt.
      + eexists. split; [split; [exact Hn|reflexivity]|left; reflexivity].
      + apply N.ltb_ge in Hlt.
        eexists. split; [split; [exact Hn|reflexivity]|right; eexists; split; [reflexivity|]].
        intros _. split; [exact Hlt|left; eauto].
    - injection Hstep as <-.
      eexists. split; [split; [exact Hn|reflexivity]|left; reflexivity].
    - injection Hstep as <-.
      eexists. split; [split; [exact Hn|reflexivity]|right; eexists; split; [reflexivity|discriminate]].
    - injection Hstep as <-. destruct (map_get c s).
      + eexists. split; [split; [exact Hn|reflexivity]|right; eexists; split; [reflexivity|discriminate]].
      + eexists. split; [split; [exact Hn|reflexivity]|left; reflexivity].
    - injection Hstep as <-. unfold Conc.try_key. destruct (c_key c <? keycap) eqn:Hlt.
      + eexists. split; [split; [exact Hn|reflexivity]|left; reflexivity].
      + apply N.ltb_ge in Hlt.
        eexists. split; [split; [exact Hn|reflexivity]|right; eexists; split; [reflexivity|]].
        intros _. split; [exact Hlt|right; eauto].
    - injection Hstep as <-.
      eexists. split; [split; [exact Hn|reflexivity]|right; eexists; split; [reflexivity|]].
      destruct (strs_get c k); [|discriminate]. destruct (read (as_arena c) s); discriminate.
    - injection Hstep as <-.
      eexists. split; [split; [exact Hn|reflexivity]|right; eexists; split; [reflexivity|discriminate]].
    - injection Hstep as <-.
      eexists. split; [split; [exact Hn|reflexivity]|right; eexists; split; [reflexivity|discriminate]].
  Qed.

  (* recorded answers are never lost or altered: a thread's history only grows *)
  Lemma step_history c c' tid ch m u x : step c tid ch = Some c' ->
    nth_error (c_threads c) m = Some u -> In x (t_outs u) ->
    exists u', nth_error (c_threads c') m = Some u' /\ In x (t_outs u').
  Proof.
    intros Hs Hu Hx. destruct (step_gen_shape _ _ _ _ _ Hs) as (t & t' & Hmv & Ho).
    pose proof Hmv as [Hn _].
    destruct (Nat.eq_dec m tid) as [->|Hne].
    - exists t'. split; [eapply mv_nth_new; eauto|].
      assert (u = t) by congruence. subst.
      destruct Ho as [->|(o & -> & _)]; auto. right. auto.
    - exists u. rewrite (mv_nth_other _ _ _ _ _ _ Hmv Hne). auto.
  Qed.

  Lemma reachable_history c c2 m u x : reachable c c2 ->
    nth_error (c_threads c) m = Some u -> In x (t_outs u) ->
    exists u', nth_error (c_threads c2) m = Some u' /\ In x (t_outs u').
  Proof.
    intros Hr Hu Hx. induction Hr as [|c1 c' tid ch Hr IH Hs]; eauto.
    destruct IH as (u1 & Hu1 & Hx1). eapply step_history; eauto.
  Qed.


  (* ---------------------------------------------------------------- 4. property C03 *)

  (* a recorded key answer to a call about string [s] is backed by an entry of the
     string -> key map *)
  Lemma answer_entry c t cl k s : JInv c ->
    In t (c_threads c) -> In (cl, ROk k) (t_outs t) -> str_of_call cl = Some s ->
    exists e, In e (c_map c) /\ e_key e = k /\ e_str e = s.
  Proof.
    intros HJ Ht Ho Hs.
    destruct (ji_answers _ _ _ HJ t cl k Ht Ho) as (s' & Hcl & e & Hin & Hk & Hes).
    assert (s' = s).
    { destruct Hcl as [->|[(a & ->)| ->]]; cbn in Hs; congruence. }
    subst s'. eauto.
  Qed.

  (* (a) all answers ever given, by any threads, agree: same string <-> same key *)
  Theorem C03_same_key_iff c t1 t2 cl1 cl2 k1 k2 s1 s2 : JInv' c ->
    In t1 (c_threads c) -> In t2 (c_threads c) ->
    In (cl1, ROk k1) (t_outs t1) -> In (cl2, ROk k2) (t_outs t2) ->
    str_of_call cl1 = Some s1 -> str_of_call cl2 = Some s2 ->
    (s1 = s2 <-> k1 = k2).
  Proof.
    intros [HJ _] Ht1 Ht2 Ho1 Ho2 Hs1 Hs2.
    destruct (answer_entry c t1 cl1 k1 s1 HJ Ht1 Ho1 Hs1) as (e1 & Hin1 & Hk1 & He1).
    destruct (answer_entry c t2 cl2 k2 s2 HJ Ht2 Ho2 Hs2) as (e2 & Hin2 & Hk2 & He2).
    split; intros Heq.
    - assert (e1 = e2).
      { apply (NoDup_map_inj_in e_str (c_map c)); auto; [apply HJ|congruence]. }
      congruence.
    - assert (e1 = e2).
      { apply (NoDup_map_inj_in e_key (c_map c)); auto; [apply HJ|congruence]. }
      congruence.
  Qed.

  (* (b) an answered key resolves to the string it was answered for *)
  Theorem C03_resolves c t cl k s : AInv c -> JInv' c ->
    In t (c_threads c) -> In (cl, ROk k) (t_outs t) -> str_of_call cl = Some s ->
    exists r, strs_get c k = Some r /\ read (as_arena c) r = Some s.
  Proof.
    intros HA [HJ _] Ht Ho Hs.
    destruct (answer_entry c t cl k s HJ Ht Ho Hs) as (e & Hin & Hk & He).
    exists (e_ref e). split.
    - rewrite <- Hk. apply strs_get_in; [apply HJ|]. now apply (ji_map_in_strs _ _ _ HJ).
    - rewrite <- He. now apply map_denotes.
  Qed.

  (* ... and keeps doing so in every later state *)
  Theorem C03_resolves_forever cap lim progs c0 c c2 t cl k s :
    (forall c1, reachable c0 c1 -> AInv c1) -> c0 = init cap lim progs ->
    reachable c0 c -> In t (c_threads c) -> In (cl, ROk k) (t_outs t) -> str_of_call cl = Some s ->
    reachable c c2 ->
    exists r, strs_get c2 k = Some r /\ read (as_arena c2) r = Some s.
  Proof.
    intros HA H0 Hr Ht Ho Hs Hr2.
    apply In_nth_error in Ht as (m & Hm).
    destruct (reachable_history c c2 m t _ Hr2 Hm Ho) as (u' & Hu' & Ho').
    assert (Hr02 : reachable c0 c2) by (eapply reachable_trans; eauto).
    eapply (C03_resolves c2 u'); eauto.
    - eapply reachable_JInv'; eauto.
    - eapply nth_error_In; eauto.
  Qed.

  (* (c) once an intern call for [s] has returned [k], the string -> key map answers [k] for [s] *)
  Theorem C03_visible_after_return c t cl k s : AInv c -> JInv' c ->
    In t (c_threads c) -> In (cl, ROk k) (t_outs t) -> intern_of cl s ->
    map_get c s = Some k.
  Proof.
    intros HA [HJ _] Ht Ho Hcl.
    assert (Hs : str_of_call cl = Some s) by (destruct Hcl as [->|(a & ->)]; reflexivity).
    destruct (answer_entry c t cl k s HJ Ht Ho Hs) as (e & Hin & Hk & He).
    apply map_get_some; eauto.
  Qed.

  (* the fast path of any call about a string the map answers [k] for, when it runs, returns [k] *)
  Lemma fast_path_answers c c' tid ch u cl s k :
    map_get c s = Some k ->
    nth_error (c_threads c) tid = Some u -> t_pc u = PFast cl -> str_of_call cl = Some s ->
    step c tid ch = Some c' -> c' = finish c tid u (ROk k).
  Proof.
    intros Hg Hu Hpc Hs Hstep. unfold Conc.step, Conc.step_gen in Hstep.
    rewrite Hu, Hpc in Hstep. destruct (blocked c tid (PFast cl)); [discriminate|].
    destruct cl; cbn in Hs; try discriminate; injection Hs as ->; rewrite Hg in Hstep; congruence.
  Qed.

  (* hence: after an intern of [s] has returned [k], every later fast-path lookup of [s]
     (get, or the first step of another intern) that runs from this state answers [k] *)
  Theorem C03_lookup_after_return c c' t cl0 k s tid ch u cl : AInv c -> JInv' c ->
    In t (c_threads c) -> In (cl0, ROk k) (t_outs t) -> intern_of cl0 s ->
    nth_error (c_threads c) tid = Some u -> t_pc u = PFast cl -> str_of_call cl = Some s ->
    step c tid ch = Some c' ->
    nth_error (c_threads c') tid =
      Some (mkThread PIdle (t_call u) (t_prog u) ((cl, ROk k) :: t_outs u)).
  Proof.
    intros HA HJ' Ht Ho Hcl Hu Hpc Hs Hstep.
    pose proof (C03_visible_after_return c t cl0 k s HA HJ' Ht Ho Hcl) as Hg.
    rewrite (fast_path_answers c c' tid ch u cl s k Hg Hu Hpc Hs Hstep).
    assert (Hcall : t_call u = cl).
    { pose proof (jx_call _ (proj2 HJ') u (nth_error_In _ _ Hu)) as Hc.
      unfold pc_call_ok in Hc. now rewrite Hpc in Hc. }
    cbn. unfold set_thread. rewrite (nth_error_set_nth_eq _ _ _ _ Hu). now rewrite Hcall.
  Qed.

  (* (d) between calls the two maps hold the same entries and the keys are 0 .. count-1 *)
  Theorem C03_dense_when_quiescent c : JInv' c -> quiescent c ->
    drawn_keys c = [] /\
    (forall e, In e (c_strs c) <-> In e (c_map c)) /\
    (forall k, In k (keys_of (c_strs c)) <-> k < N.min (c_key c) keycap) /\
    NoDup (keys_of (c_strs c)) /\
    N.of_nat (length (c_strs c)) = N.min (c_key c) keycap.
  Proof.
    intros [HJ _] Hq. unfold quiescent in Hq. rewrite Forall_forall in Hq.
    assert (Hd : drawn_keys c = []).
    { unfold drawn_keys. induction (c_threads c) as [|u l IH]; simpl; auto.
      rewrite IH by (intros x Hx; apply Hq; right; auto).
      unfold drawn_key. rewrite (Hq u) by (left; auto). reflexivity. }
    assert (Hr : forall k, In k (keys_of (c_strs c)) <-> k < N.min (c_key c) keycap).
    { intros k. rewrite <- (ji_keys_range _ _ _ HJ k), Hd, app_nil_r. tauto. }
    split; [exact Hd|]. split; [|split; [exact Hr|split; [apply HJ|]]].
    - intros e. split.
      + intros Hin. destruct (ji_half _ _ _ HJ e Hin) as [H|(u & Hu & Hh)]; auto.
        unfold half_inserted in Hh. rewrite (Hq u Hu) in Hh. discriminate.
      + apply (ji_map_in_strs _ _ _ HJ).
    - rewrite <- (map_length e_key). apply NoDup_exact_length; [apply HJ|exact Hr].
  Qed.

  (* (e) between calls the interner holds exactly the distinct strings some completed intern
     call answered a key for, each once: its length is the number of distinct strings *)
  Theorem C03_count_is_distinct_strings c : JInv' c -> quiescent c ->
    (forall s, In s (strs_of (c_strs c)) <->
               exists t cl k, In t (c_threads c) /\ In (cl, ROk k) (t_outs t) /\ intern_of cl s) /\
    NoDup (strs_of (c_strs c)).
  Proof.
    intros HJ' Hq. pose proof HJ' as [HJ HX].
    destruct (C03_dense_when_quiescent c HJ' Hq) as (_ & Hsame & _).
    split; [|apply HJ]. intros s. split.
    - intros Hin. apply in_map_iff in Hin as (e & <- & Hin). apply Hsame in Hin.
      destruct (jx_published _ HX e Hin) as (t & cl & Ht & Ho & Hcl). eauto 6.
    - intros (t & cl & k & Ht & Ho & Hcl).
      assert (Hs : str_of_call cl = Some s) by (destruct Hcl as [->|(a & ->)]; reflexivity).
      destruct (answer_entry c t cl k s HJ Ht Ho Hs) as (e & Hin & Hk & He).
      rewrite <- He. apply in_map. now apply (ji_map_in_strs _ _ _ HJ).
  Qed.

  (* (f) never more strings than keys *)
  Theorem C03_never_exceeds_capacity c : JInv' c -> N.of_nat (length (c_strs c)) <= keycap.
  Proof.
    intros [HJ _]. rewrite <- (map_length e_key). apply NoDup_below_length; [apply HJ|].
    intros k Hk. assert (Hlt : k < N.min (c_key c) keycap).
    { apply (ji_keys_range _ _ _ HJ). apply in_or_app. auto. }
    lia.
  Qed.

  (* ... and KeySpaceExhaustion is only ever answered by the key-drawing step of an intern
     call that finds the counter at or beyond the capacity *)
  Theorem C03_exhaustion_only_at_capacity c c' tid ch t t' cl :
    step c tid ch = Some c' ->
    nth_error (c_threads c) tid = Some t -> nth_error (c_threads c') tid = Some t' ->
    t_outs t' = (cl, RErr KeySpaceExhaustion) :: t_outs t ->
    keycap <= c_key c /\
    ((exists s r, t_pc t = PKeyAdd s r) \/ (exists a s, t_pc t = PSKeyAdd a s)).
  Proof.
    intros Hstep Ht Ht' Ho.
    destruct (step_gen_shape _ _ _ _ _ Hstep) as (u & u' & Hmv & Hou).
    pose proof Hmv as [Hn _]. pose proof (mv_nth_new _ _ _ _ _ Hmv) as Hn'.
    assert (u = t) by congruence. assert (u' = t') by congruence. subst u u'.
    destruct Hou as [Hsame|(o & Ho' & Hk)].
    - exfalso. rewrite Hsame in Ho. clear -Ho.
      assert (Hl : length (t_outs t) = length ((cl, RErr KeySpaceExhaustion) :: t_outs t)) by now rewrite <- Ho.
      simpl in Hl. lia.
    - rewrite Ho' in Ho. injection Ho as _ ->. now apply Hk.
  Qed.

  (* ---------------------------------------------------------------- C03, all together *)

  (* Every state any schedule can reach from the initial state satisfies JInv' — given the
     storage invariant of reachable states (ConcArenaProofs.v) — and with it clauses (a)-(f). *)
  Theorem C03_reachable cap lim progs c :
    (forall c1, reachable (init cap lim progs) c1 -> AInv c1) ->
    reachable (init cap lim progs) c ->
    AInv c /\ JInv' c /\ N.of_nat (length (c_strs c)) <= keycap.
  Proof.
    intros HA Hr.
    assert (HJ : JInv' c) by (eapply reachable_JInv'; eauto).
    split; [auto|]. split; [exact HJ|]. now apply C03_never_exceeds_capacity.
  Qed.

End Proofs.

Print Assumptions map_get_spec.
Print Assumptions init_JInv'.
Print Assumptions step_gen_JInv'.
Print Assumptions step_JInv'.
Print Assumptions step_JInv.
Print Assumptions reachable_JInv'.
Print Assumptions store_step_shape.
Print Assumptions C03_same_key_iff.
Print Assumptions C03_resolves.
Print Assumptions C03_resolves_forever.
Print Assumptions C03_visible_after_return.
Print Assumptions C03_lookup_after_return.
Print Assumptions C03_dense_when_quiescent.
Print Assumptions C03_count_is_distinct_strings.
Print Assumptions C03_never_exceeds_capacity.
Print Assumptions C03_exhaustion_only_at_capacity.
Print Assumptions C03_reachable.
