(* ConcInternProofs.v — being written *)
From Lasso Require Import Base Arena ArenaProofs Conc ConcInv.
