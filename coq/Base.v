(* Base.v — shared vocabulary of the lasso model: bytes, strings, results, list helpers.
   Model file: definitions only (plus a few tiny computational lemmas used everywhere). *)
From Coq Require Export List NArith Bool Arith Lia.
Export ListNotations.
Open Scope N_scope.

Arguments N.add : simpl never.
Arguments N.sub : simpl never.
Arguments N.mul : simpl never.
Arguments N.eqb : simpl never.
Arguments N.ltb : simpl never.
Arguments N.leb : simpl never.
Arguments N.of_nat : simpl never.
Arguments N.to_nat : simpl never.

(* A byte is a number below 256; a string is its UTF-8 byte sequence.  (Nothing in lasso
   looks inside a string except for its length and byte-wise equality.) *)
Definition byte := N.
Definition str := list byte.
Definition slen (s : str) : N := N.of_nat (length s).

Fixpoint str_eqb (a b : str) : bool :=
  match a, b with
  | [], [] => true
  | x :: a', y :: b' => (x =? y) && str_eqb a' b'
  | _, _ => false
  end.

(* LassoErrorKind *)
Inductive err := MemoryLimitReached | KeySpaceExhaustion | FailedAllocation.

(* LassoResult *)
Inductive res (A : Type) := Ok (a : A) | Err (e : err).
Arguments Ok {A} a.
Arguments Err {A} e.

(* usize::MAX, the default memory limit *)
Definition usize_max : N := 18446744073709551615.
(* isize::MAX: the largest size a Layout can describe; a bucket of more bytes cannot be allocated *)
Definition isize_max : N := 9223372036854775807.
(* an AtomicBucket is a 24-byte, 8-aligned header followed by the data: its Layout exists iff cap <= isize::MAX - 31
   (trans/: gen_ab_layout_shape, ab_cap_max) *)
Definition lf_cap_max : N := isize_max - 31.

(* ---- raw byte buffers: a block's memory is a list of bytes, addressed by offset ---- *)

(* copy [s] to offset [off] of buffer [d] (no bounds check, like the unchecked copy in
   push_slice: writing past the end makes the list longer, which the invariants exclude) *)
Definition bwrite (d : list byte) (off : nat) (s : str) : list byte :=
  firstn off d ++ s ++ skipn (off + length s) d.

(* the [len] bytes at offset [off] *)
Definition bread (d : list byte) (off len : nat) : list byte :=
  firstn len (skipn off d).

(* ---- list helpers ---- *)

Fixpoint last_opt {A} (l : list A) : option A :=
  match l with
  | [] => None
  | [x] => Some x
  | _ :: t => last_opt t
  end.

(* replace the last element *)
Fixpoint set_last {A} (x : A) (l : list A) : list A :=
  match l with
  | [] => []
  | [_] => [x]
  | y :: t => y :: set_last x t
  end.

(* Vec::insert(n, x) for n <= len *)
Definition insert_at {A} (n : nat) (x : A) (l : list A) : list A :=
  firstn n l ++ x :: skipn n l.

Fixpoint set_nth {A} (n : nat) (x : A) (l : list A) : list A :=
  match l, n with
  | [], _ => []
  | _ :: t, O => x :: t
  | y :: t, S n' => y :: set_nth n' x t
  end.

(* position of the first element equal to [s] *)
Fixpoint index_of (s : str) (l : list str) : option N :=
  match l with
  | [] => None
  | x :: t => if str_eqb s x then Some 0
              else match index_of s t with Some i => Some (i + 1) | None => None end
  end.

Definition sum_N (l : list N) : N := fold_right N.add 0 l.

Fixpoint all_some {A} (l : list (option A)) : option (list A) :=
  match l with
  | [] => Some []
  | Some x :: t => match all_some t with Some r => Some (x :: r) | None => None end
  | None :: _ => None
  end.
