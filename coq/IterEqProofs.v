(* IterEqProofs.v — iterators (C10), equality of list-shaped containers (C18),
   FromIterator / Extend (C17).

   A. [run_iter] (the window [lo, hi) of positions of util.rs Iter / Strings) refines a
      double-ended queue over the explicit list of remaining (key, string) pairs; the deque
      yields every entry at most once, accounts for every entry (yielded / remaining /
      skipped), reports exact lengths, and is a contiguous segment of the content.
   B. [eq_obj] on Rodeo / RodeoReader / RodeoResolver is equality of the content lists.
   C. [r_extend] is "append the strings not seen so far, in order of first occurrence". *)
From Lasso Require Import Base Arena ArenaProofs Rodeo RodeoInv RodeoProofs.
From Coq Require Import Permutation Sorted.

(* ====================================================================================== *)
(* A. iterators                                                                            *)
(* ====================================================================================== *)

(* the (key index, string) pairs of a content list, in key order *)
Definition enumerate (cs : list str) : list (N * str) :=
  combine (map N.of_nat (seq 0 (length cs))) cs.

(* positions lo .. hi-1 of a list *)
Definition sublist {A} (lo hi : N) (l : list A) : list A :=
  firstn (N.to_nat (hi - lo)) (skipn (N.to_nat lo) l).

Definition it_of (p : N * str) : item := ItSome (fst p) (snd p).

(* drop the last [n] entries, then take the last one of what is left *)
Definition pop_back_n (n : nat) (rem : list (N * str)) : option ((N * str) * list (N * str)) :=
  match skipn n (rev rem) with
  | [] => None
  | x :: r => Some (x, rev r)
  end.

(* one call on the specification iterator: the item it returns and what remains *)
Definition deque_step (rem : list (N * str)) (o : iop) : item * list (N * str) :=
  match o with
  | INext => match rem with
             | [] => (ItNone, [])
             | x :: r => (it_of x, r)
             end
  | INextBack => match pop_back_n 0 rem with
                 | Some (x, r) => (it_of x, r)
                 | None => (ItNone, [])
                 end
  | INthBack n => match pop_back_n (N.to_nat n) rem with
                  | Some (x, r) => (it_of x, r)
                  | None => (ItNone, [])          (* too few left: None, and the iterator is EMPTY *)
                  end
  | ILen => (ItLen (N.of_nat (length rem)), rem)
  end.

Fixpoint deque_iter (rem : list (N * str)) (plan : list iop) : list item :=
  match plan with
  | [] => []
  | o :: p => fst (deque_step rem o) :: deque_iter (snd (deque_step rem o)) p
  end.

(* what remains after a plan *)
Fixpoint deque_rem (rem : list (N * str)) (plan : list iop) : list (N * str) :=
  match plan with
  | [] => rem
  | o :: p => deque_rem (snd (deque_step rem o)) p
  end.

(* ---------- pop_back_n is what its comment says ---------- *)

Lemma pop_back_n_some n rem x r :
  pop_back_n n rem = Some (x, r) -> exists tl, rem = r ++ x :: tl /\ length tl = n.
Proof.
  unfold pop_back_n. intros H.
  destruct (skipn n (rev rem)) as [|y r0] eqn:E; [discriminate|].
  inversion H; subst y r. clear H.
  exists (rev (firstn n (rev rem))). split.
  - assert (Hr : rev rem = firstn n (rev rem) ++ x :: r0).
    { rewrite <- E. symmetry. apply firstn_skipn. }
    apply (f_equal (@rev _)) in Hr. rewrite rev_involutive in Hr.
    rewrite rev_app_distr in Hr. simpl in Hr. rewrite <- app_assoc in Hr. exact Hr.
  - assert (Hl : length (skipn n (rev rem)) = (length rem - n)%nat).
    { rewrite skipn_length, rev_length. reflexivity. }
    rewrite E in Hl. simpl in Hl.
    rewrite rev_length, firstn_length, rev_length. lia.
Qed.

Lemma pop_back_n_none n rem : pop_back_n n rem = None -> (length rem <= n)%nat.
Proof.
  unfold pop_back_n. intros H.
  destruct (skipn n (rev rem)) as [|y r0] eqn:E; [|discriminate].
  assert (Hl : length (skipn n (rev rem)) = (length rem - n)%nat).
  { rewrite skipn_length, rev_length. reflexivity. }
  rewrite E in Hl. simpl in Hl. lia.
Qed.

Lemma pop_back_n_app r x tl : pop_back_n (length tl) (r ++ x :: tl) = Some (x, r).
Proof.
  unfold pop_back_n. rewrite rev_app_distr. simpl. rewrite <- app_assoc. simpl.
  rewrite skipn_app, rev_length, Nat.sub_diag.
  rewrite skipn_all2 by (rewrite rev_length; lia). simpl.
  rewrite rev_involutive. reflexivity.
Qed.

Lemma pop_back_n_short n rem : (length rem <= n)%nat -> pop_back_n n rem = None.
Proof.
  intros H. unfold pop_back_n. rewrite skipn_all2 by (rewrite rev_length; lia). reflexivity.
Qed.

(* the specification iterator, operation by operation, in "obviously right" form *)
Lemma deque_step_next_nil : deque_step [] INext = (ItNone, []).
Proof. reflexivity. Qed.

Lemma deque_step_next x r : deque_step (x :: r) INext = (it_of x, r).
Proof. reflexivity. Qed.

Lemma deque_step_next_back r x : deque_step (r ++ [x]) INextBack = (it_of x, r).
Proof.
  cbn [deque_step]. pose proof (pop_back_n_app r x []) as H. cbn [length] in H. now rewrite H.
Qed.

Lemma deque_step_next_back_nil : deque_step [] INextBack = (ItNone, []).
Proof. reflexivity. Qed.

Lemma deque_step_nth_back r x tl n :
  N.of_nat (length tl) = n -> deque_step (r ++ x :: tl) (INthBack n) = (it_of x, r).
Proof.
  intros <-. cbn [deque_step]. rewrite Nat2N.id. now rewrite pop_back_n_app.
Qed.

Lemma deque_step_nth_back_short rem n :
  N.of_nat (length rem) <= n -> deque_step rem (INthBack n) = (ItNone, []).
Proof.
  intros H. cbn [deque_step]. rewrite pop_back_n_short by lia. reflexivity.
Qed.

Lemma deque_step_len rem : deque_step rem ILen = (ItLen (N.of_nat (length rem)), rem).
Proof. reflexivity. Qed.

(* next_back is nth_back(0) *)
Lemma deque_step_next_back_nth rem : deque_step rem INextBack = deque_step rem (INthBack 0).
Proof. reflexivity. Qed.

(* ---------- enumerate ---------- *)

Lemma enumerate_length cs : length (enumerate cs) = length cs.
Proof.
  unfold enumerate. rewrite combine_length, map_length, seq_length. apply Nat.min_id.
Qed.

Lemma enum_nth_gen (cs : list str) b i j (s : str) :
  nth_error (combine (map N.of_nat (seq b (length cs))) cs) i = Some (j, s) ->
  j = N.of_nat (b + i) /\ nth_error cs i = Some s.
Proof.
  revert b i; induction cs as [|c cs IH]; intros b i H; simpl in H.
  - destruct i; discriminate.
  - destruct i as [|i]; simpl in H.
    + inversion H; subst. split; [f_equal; lia|reflexivity].
    + apply IH in H. destruct H as (H1 & H2). split; [rewrite H1; f_equal; lia|exact H2].
Qed.

Lemma enumerate_nth (cs : list str) i j (s : str) :
  nth_error (enumerate cs) i = Some (j, s) -> j = N.of_nat i /\ nth_error cs i = Some s.
Proof. unfold enumerate. intros H. apply enum_nth_gen in H. exact H. Qed.

Lemma enumerate_keys cs : map fst (enumerate cs) = map N.of_nat (seq 0 (length cs)).
Proof.
  unfold enumerate. generalize 0%nat as b.
  induction cs as [|c cs IH]; intros b; simpl; [reflexivity|]. now rewrite IH.
Qed.

Lemma enumerate_strs cs : map snd (enumerate cs) = cs.
Proof.
  unfold enumerate. generalize 0%nat as b.
  induction cs as [|c cs IH]; intros b; simpl; [reflexivity|]. now rewrite IH.
Qed.

Lemma enumerate_keys_nodup cs : NoDup (map fst (enumerate cs)).
Proof.
  rewrite enumerate_keys. apply FinFun.Injective_map_NoDup.
  - intros x y H. lia.
  - apply seq_NoDup.
Qed.

Lemma sublist_full {A} (l : list A) : sublist 0 (N.of_nat (length l)) l = l.
Proof.
  unfold sublist. replace (N.to_nat 0) with 0%nat by lia. simpl.
  replace (N.to_nat (N.of_nat (length l) - 0)) with (length l) by lia. apply firstn_all.
Qed.

(* ---------- the refinement ---------- *)

Section Iter.
  Variable keycap : N.

  Notation run_iter := (run_iter keycap).
  Notation iter_item := (iter_item keycap).

  Lemma iter_item_ok keyed strs a cs i s :
    contents strs a = Some cs ->
    (keyed = true -> N.of_nat (length cs) <= keycap) ->
    nth_error cs i = Some s ->
    iter_item keyed strs a (N.of_nat i) = ItSome (N.of_nat i) s.
  Proof.
    intros Hc Hk Hn. unfold Rodeo.iter_item.
    rewrite (key_str_contents _ _ _ _ Hc), Nat2N.id, Hn.
    assert (Hi : (i < length cs)%nat) by (apply nth_error_Some; congruence).
    destruct keyed; simpl; [|reflexivity].
    assert (Hlt : N.of_nat i <? keycap = true) by (apply N.ltb_lt; specialize (Hk eq_refl); lia).
    rewrite Hlt. reflexivity.
  Qed.

  (* the window [lo, hi) and the explicit list of remaining entries move in lockstep *)
  Lemma run_iter_deque_gen keyed strs a cs :
    contents strs a = Some cs ->
    (keyed = true -> N.of_nat (length cs) <= keycap) ->
    forall plan pre rem post lo hi,
      enumerate cs = pre ++ rem ++ post ->
      lo = N.of_nat (length pre) ->
      hi = N.of_nat (length pre + length rem) ->
      run_iter keyed strs a lo hi plan = deque_iter rem plan.
  Proof.
    intros Hc Hk.
    assert (Hitem : forall pre' x post', enumerate cs = pre' ++ x :: post' ->
              iter_item keyed strs a (N.of_nat (length pre')) = it_of x).
    { intros pre' [j s] post' H.
      assert (Hn : nth_error (enumerate cs) (length pre') = Some (j, s)).
      { rewrite H. rewrite nth_error_app2 by lia. rewrite Nat.sub_diag. reflexivity. }
      apply enumerate_nth in Hn. destruct Hn as (Hj & Hs). subst j.
      unfold it_of; simpl. eapply iter_item_ok; eauto. }
    induction plan as [|o p IH]; intros pre rem post lo hi He Hlo Hhi; [reflexivity|].
    destruct o as [| |n|]; cbn [Rodeo.run_iter deque_iter deque_step].
    - (* next *)
      destruct rem as [|x r]; cbn [fst snd].
      + simpl in Hhi.
        assert (Hw : lo <? hi = false) by (apply N.ltb_ge; lia). rewrite Hw.
        f_equal. apply (IH pre [] post); auto.
      + simpl in Hhi.
        assert (Hw : lo <? hi = true) by (apply N.ltb_lt; lia). rewrite Hw.
        f_equal.
        * subst lo. apply (Hitem pre x (r ++ post)). exact He.
        * apply (IH (pre ++ [x]) r post).
          -- rewrite <- app_assoc. exact He.
          -- rewrite app_length. simpl. lia.
          -- rewrite app_length. simpl. lia.
    - (* next_back *)
      destruct (pop_back_n 0 rem) as [[x r]|] eqn:E; cbn [fst snd].
      + apply pop_back_n_some in E. destruct E as (tl & Hrem & Htl).
        destruct tl; [|discriminate]. subst rem.
        rewrite app_length in Hhi. simpl in Hhi.
        assert (Hw : lo <? hi = true) by (apply N.ltb_lt; lia). rewrite Hw.
        f_equal.
        * replace (hi - 1) with (N.of_nat (length (pre ++ r))) by (rewrite app_length; lia).
          apply (Hitem (pre ++ r) x post). rewrite He, <- !app_assoc. reflexivity.
        * apply (IH pre r (x :: post)); [|assumption|lia].
          rewrite He, <- app_assoc. reflexivity.
      + apply pop_back_n_none in E.
        assert (Hw : lo <? hi = false) by (apply N.ltb_ge; lia). rewrite Hw.
        f_equal. destruct rem; [|simpl in E; lia]. apply (IH pre [] post); auto.
    - (* nth_back *)
      destruct (pop_back_n (N.to_nat n) rem) as [[x r]|] eqn:E; cbn [fst snd].
      + apply pop_back_n_some in E. destruct E as (tl & Hrem & Htl). subst rem.
        rewrite app_length in Hhi. simpl in Hhi.
        assert (Hw : n <? hi - lo = true) by (apply N.ltb_lt; lia). rewrite Hw.
        f_equal.
        * replace (hi - n - 1) with (N.of_nat (length (pre ++ r))) by (rewrite app_length; lia).
          apply (Hitem (pre ++ r) x (tl ++ post)). rewrite He, <- !app_assoc. reflexivity.
        * apply (IH pre r (x :: tl ++ post)); [|assumption|lia].
          rewrite He, <- app_assoc. reflexivity.
      + apply pop_back_n_none in E.
        assert (Hw : n <? hi - lo = false) by (apply N.ltb_ge; lia). rewrite Hw.
        f_equal. apply (IH pre [] (rem ++ post)); [exact He|assumption|simpl; lia].
    - (* len *)
      cbn [fst snd]. f_equal.
      + f_equal. lia.
      + apply (IH pre rem post); auto.
  Qed.

  (* C10: the iterator over positions IS the deque over the abstract content *)
  Theorem run_iter_refines_deque keyed strs a cs lo hi plan :
    contents strs a = Some cs ->
    lo <= hi -> hi <= N.of_nat (length cs) ->
    (keyed = true -> N.of_nat (length cs) <= keycap) ->
    run_iter keyed strs a lo hi plan = deque_iter (sublist lo hi (enumerate cs)) plan.
  Proof.
    intros Hc Hlh Hhc Hk.
    apply (run_iter_deque_gen keyed strs a cs Hc Hk plan
             (firstn (N.to_nat lo) (enumerate cs))
             (sublist lo hi (enumerate cs))
             (skipn (N.to_nat (hi - lo)) (skipn (N.to_nat lo) (enumerate cs)))).
    - unfold sublist. rewrite firstn_skipn. rewrite firstn_skipn. reflexivity.
    - rewrite firstn_length, enumerate_length. lia.
    - unfold sublist. rewrite !firstn_length, skipn_length, enumerate_length. lia.
  Qed.

  (* what [step] runs for IterOp / StringsOp: the whole table *)
  Corollary run_iter_whole keyed strs a cs plan :
    contents strs a = Some cs ->
    (keyed = true -> N.of_nat (length cs) <= keycap) ->
    run_iter keyed strs a 0 (N.of_nat (length strs)) plan = deque_iter (enumerate cs) plan.
  Proof.
    intros Hc Hk. pose proof (contents_length _ _ _ Hc) as Hl.
    rewrite (run_iter_refines_deque keyed strs a cs 0 (N.of_nat (length strs)) plan Hc); auto; try lia.
    rewrite <- Hl, <- (enumerate_length cs), sublist_full. reflexivity.
  Qed.
End Iter.

(* what [step] answers for an iterator plan on a Rodeo / RodeoReader / RodeoResolver *)
Lemma obj_pairs_enumerate x strs a cs :
  obj_strs x = Some (strs, a) -> contents strs a = Some cs -> obj_pairs x = Some (enumerate cs).
Proof.
  intros Hx Hc. destruct x; simpl in Hx; try discriminate; inversion Hx; subst;
    cbn [obj_pairs obj_strs]; rewrite Hc; reflexivity.
Qed.

Theorem step_iter_list hash cand growf keycap w i plan strs a cs :
  obj_strs (get_obj w i) = Some (strs, a) -> contents strs a = Some cs ->
  N.of_nat (length cs) <= keycap ->
  step hash cand growf keycap w (IterOp i plan) = (w, OItems (deque_iter (enumerate cs) plan)).
Proof.
  intros Hx Hc Hk. cbn [step].
  destruct (get_obj w i); simpl in Hx; try discriminate; inversion Hx; subst;
    cbn [obj_strs]; rewrite (run_iter_whole keycap true _ _ cs plan Hc); auto.
Qed.

Theorem step_strings_list hash cand growf keycap w i plan strs a cs :
  obj_strs (get_obj w i) = Some (strs, a) -> contents strs a = Some cs ->
  step hash cand growf keycap w (StringsOp i plan) = (w, OItems (deque_iter (enumerate cs) plan)).
Proof.
  intros Hx Hc. cbn [step].
  destruct (get_obj w i); simpl in Hx; try discriminate; inversion Hx; subst;
    cbn [obj_strs]; rewrite (run_iter_whole keycap false _ _ cs plan Hc); auto; discriminate.
Qed.

(* ---------- consequences: the deque semantics is the right one ---------- *)

Lemma deque_iter_length rem plan : length (deque_iter rem plan) = length plan.
Proof. revert rem; induction plan as [|o p IH]; intros rem; simpl; auto. Qed.

Lemma deque_iter_app rem p1 p2 :
  deque_iter rem (p1 ++ p2) = deque_iter rem p1 ++ deque_iter (deque_rem rem p1) p2.
Proof.
  revert rem; induction p1 as [|o p IH]; intros rem; simpl; [reflexivity|]. now rewrite IH.
Qed.

Lemma deque_rem_app rem p1 p2 : deque_rem rem (p1 ++ p2) = deque_rem (deque_rem rem p1) p2.
Proof.
  revert rem; induction p1 as [|o p IH]; intros rem; simpl; [reflexivity|]. now rewrite IH.
Qed.

(* no panic, ever *)
Lemma deque_step_item rem o :
  (exists x, In x rem /\ fst (deque_step rem o) = it_of x) \/
  fst (deque_step rem o) = ItNone \/
  fst (deque_step rem o) = ItLen (N.of_nat (length rem)).
Proof.
  destruct o as [| |n|]; cbn [deque_step].
  - destruct rem as [|x r]; simpl; [auto|]. left. exists x. auto.
  - destruct (pop_back_n 0 rem) as [[x r]|] eqn:E; simpl; [|auto].
    apply pop_back_n_some in E. destruct E as (tl & -> & _).
    left. exists x. split; auto. apply in_app_iff. right. now left.
  - destruct (pop_back_n (N.to_nat n) rem) as [[x r]|] eqn:E; simpl; [|auto].
    apply pop_back_n_some in E. destruct E as (tl & -> & _).
    left. exists x. split; auto. apply in_app_iff. right. now left.
  - simpl. auto.
Qed.

Lemma deque_iter_no_panic rem plan : ~ In ItPanic (deque_iter rem plan).
Proof.
  revert rem; induction plan as [|o p IH]; intros rem; simpl; [tauto|].
  intros [H|H]; [|eapply IH; eauto].
  destruct (deque_step_item rem o) as [(x & _ & Hx)|[Hx|Hx]]; rewrite Hx in H; discriminate.
Qed.

Corollary run_iter_no_panic keycap keyed strs a cs lo hi plan :
  contents strs a = Some cs ->
  lo <= hi -> hi <= N.of_nat (length cs) ->
  (keyed = true -> N.of_nat (length cs) <= keycap) ->
  ~ In ItPanic (run_iter keycap keyed strs a lo hi plan).
Proof.
  intros Hc H1 H2 Hk. rewrite (run_iter_refines_deque keycap keyed strs a cs lo hi plan Hc H1 H2 Hk).
  apply deque_iter_no_panic.
Qed.

(* forward iteration yields everything, in order *)
Theorem deque_iter_all_next rem :
  deque_iter rem (repeat INext (length rem)) = map it_of rem.
Proof. induction rem as [|x r IH]; simpl; [reflexivity|]. now rewrite IH. Qed.

(* ... and is exhausted afterwards *)
Lemma deque_rem_all_next rem : deque_rem rem (repeat INext (length rem)) = [].
Proof. induction rem as [|x r IH]; simpl; auto. Qed.

(* backward iteration yields everything, in reverse order *)
Theorem deque_iter_all_next_back rem :
  deque_iter rem (repeat INextBack (length rem)) = map it_of (rev rem).
Proof.
  rewrite <- (rev_involutive rem) at 1. rewrite <- (rev_length rem).
  induction (rev rem) as [|x l IH]; [reflexivity|].
  cbn [length repeat rev deque_iter]. rewrite deque_step_next_back. cbn [fst snd map].
  now rewrite IH.
Qed.

(* the whole table, through the model's iterator *)
Corollary run_iter_all_next keycap keyed strs a cs :
  contents strs a = Some cs ->
  (keyed = true -> N.of_nat (length cs) <= keycap) ->
  run_iter keycap keyed strs a 0 (N.of_nat (length strs)) (repeat INext (length strs)) =
  map it_of (enumerate cs).
Proof.
  intros Hc Hk. rewrite (run_iter_whole keycap keyed strs a cs _ Hc Hk).
  rewrite <- (contents_length _ _ _ Hc), <- (enumerate_length cs). apply deque_iter_all_next.
Qed.

Corollary run_iter_all_next_back keycap keyed strs a cs :
  contents strs a = Some cs ->
  (keyed = true -> N.of_nat (length cs) <= keycap) ->
  run_iter keycap keyed strs a 0 (N.of_nat (length strs)) (repeat INextBack (length strs)) =
  map it_of (rev (enumerate cs)).
Proof.
  intros Hc Hk. rewrite (run_iter_whole keycap keyed strs a cs _ Hc Hk).
  rewrite <- (contents_length _ _ _ Hc), <- (enumerate_length cs). apply deque_iter_all_next_back.
Qed.

(* ---- accounting: for ANY plan every entry is yielded, still remaining, or skipped — once ---- *)

Definition yield1 (it : item) : list (N * str) :=
  match it with ItSome i s => [(i, s)] | _ => [] end.

(* the (key, string) pairs a run has yielded, in order *)
Definition yielded (its : list item) : list (N * str) := flat_map yield1 its.

Lemma yielded_cons it l : yielded (it :: l) = yield1 it ++ yielded l.
Proof. reflexivity. Qed.

Lemma yield1_it_of x : yield1 (it_of x) = [x].
Proof. now destruct x. Qed.

Lemma deque_step_perm rem o :
  exists sk, Permutation rem (yield1 (fst (deque_step rem o)) ++ snd (deque_step rem o) ++ sk).
Proof.
  destruct o as [| |n|]; cbn [deque_step].
  - destruct rem as [|x r]; cbn [fst snd].
    + exists []. simpl. constructor.
    + exists []. rewrite yield1_it_of, app_nil_r. simpl. reflexivity.
  - destruct (pop_back_n 0 rem) as [[x r]|] eqn:E; cbn [fst snd].
    + apply pop_back_n_some in E. destruct E as (tl & -> & _).
      exists tl. rewrite yield1_it_of. simpl. symmetry. apply Permutation_middle.
    + exists rem. simpl. reflexivity.
  - destruct (pop_back_n (N.to_nat n) rem) as [[x r]|] eqn:E; cbn [fst snd].
    + apply pop_back_n_some in E. destruct E as (tl & -> & _).
      exists tl. rewrite yield1_it_of. simpl. symmetry. apply Permutation_middle.
    + exists rem. simpl. reflexivity.
  - cbn [fst snd]. exists []. simpl. rewrite app_nil_r. reflexivity.
Qed.

Theorem deque_accounting rem plan :
  exists skipped,
    Permutation rem (yielded (deque_iter rem plan) ++ deque_rem rem plan ++ skipped).
Proof.
  revert rem; induction plan as [|o p IH]; intros rem.
  - exists []. simpl. rewrite app_nil_r. reflexivity.
  - destruct (deque_step_perm rem o) as (sk1 & H1).
    destruct (IH (snd (deque_step rem o))) as (sk2 & H2).
    exists (sk2 ++ sk1). cbn [deque_iter deque_rem]. rewrite yielded_cons.
    eapply Permutation_trans; [exact H1|].
    rewrite <- app_assoc. apply Permutation_app_head.
    match goal with |- Permutation _ (?Y ++ ?R ++ ?S2 ++ ?S1) =>
      replace (Y ++ R ++ S2 ++ S1) with ((Y ++ R ++ S2) ++ S1) by (rewrite <- !app_assoc; reflexivity)
    end.
    apply Permutation_app_tail. exact H2.
Qed.

Lemma NoDup_app_l {A} (l l' : list A) : NoDup (l ++ l') -> NoDup l.
Proof.
  induction l as [|x l IH]; simpl; intros H; [constructor|].
  inversion H; subst. constructor; auto. intros Hin. apply H2. apply in_app_iff. now left.
Qed.

(* everything yielded is an entry of the iterator *)
Theorem yielded_incl rem plan : incl (yielded (deque_iter rem plan)) rem.
Proof.
  destruct (deque_accounting rem plan) as (sk & H). intros x Hx.
  eapply Permutation_in; [symmetry; exact H|]. apply in_app_iff. now left.
Qed.

(* no position is yielded twice, and nothing yielded is still in the iterator *)
Theorem yielded_rem_nodup_keys rem plan :
  NoDup (map fst rem) ->
  NoDup (map fst (yielded (deque_iter rem plan) ++ deque_rem rem plan)).
Proof.
  intros Hnd. destruct (deque_accounting rem plan) as (sk & H).
  apply (Permutation_map fst) in H. apply (Permutation_NoDup H) in Hnd.
  rewrite app_assoc, map_app in Hnd. now apply NoDup_app_l in Hnd.
Qed.

Corollary yielded_nodup_keys rem plan :
  NoDup (map fst rem) -> NoDup (map fst (yielded (deque_iter rem plan))).
Proof.
  intros Hnd. apply (yielded_rem_nodup_keys rem plan) in Hnd.
  rewrite map_app in Hnd. now apply NoDup_app_l in Hnd.
Qed.

Corollary yielded_nodup rem plan :
  NoDup (map fst rem) -> NoDup (yielded (deque_iter rem plan)).
Proof. intros Hnd. eapply NoDup_map_inv. apply yielded_nodup_keys. exact Hnd. Qed.

(* lengths: yielded + remaining + skipped = all *)
Theorem deque_lengths rem plan :
  (length (yielded (deque_iter rem plan)) + length (deque_rem rem plan) <= length rem)%nat.
Proof.
  destruct (deque_accounting rem plan) as (sk & H). apply Permutation_length in H.
  rewrite !app_length in H. lia.
Qed.

Corollary deque_rem_length rem plan : (length (deque_rem rem plan) <= length rem)%nat.
Proof. pose proof (deque_lengths rem plan). lia. Qed.

(* ExactSizeIterator: a len() call anywhere in a plan reports exactly what is left there *)
Theorem deque_len_exact rem p1 p2 :
  deque_iter rem (p1 ++ ILen :: p2) =
  deque_iter rem p1 ++ ItLen (N.of_nat (length (deque_rem rem p1))) :: deque_iter (deque_rem rem p1) p2.
Proof. rewrite deque_iter_app. reflexivity. Qed.

Corollary deque_len_exact_nth rem p1 p2 :
  nth_error (deque_iter rem (p1 ++ ILen :: p2)) (length p1) =
  Some (ItLen (N.of_nat (length (deque_rem rem p1)))).
Proof.
  rewrite deque_len_exact. rewrite nth_error_app2 by (rewrite deque_iter_length; lia).
  rewrite deque_iter_length, Nat.sub_diag. reflexivity.
Qed.

(* with nothing skipped (no nth_back), len = all - yielded *)
Lemma deque_accounting_noskip rem plan :
  Forall (fun o => match o with INthBack _ => False | _ => True end) plan ->
  Permutation rem (yielded (deque_iter rem plan) ++ deque_rem rem plan).
Proof.
  revert rem; induction plan as [|o p IH]; intros rem Hf.
  - simpl. reflexivity.
  - inversion Hf as [|o' p' Ho Hp]; subst. cbn [deque_iter deque_rem]. rewrite yielded_cons.
    specialize (IH (snd (deque_step rem o)) Hp).
    destruct o as [| |n|]; [| | contradiction |]; cbn [deque_step] in *.
    + destruct rem as [|x r]; cbn [fst snd] in *.
      * simpl. exact IH.
      * rewrite yield1_it_of. simpl. now constructor.
    + destruct (pop_back_n 0 rem) as [[x r]|] eqn:E; cbn [fst snd] in *.
      * apply pop_back_n_some in E. destruct E as (tl & -> & Htl).
        destruct tl; [|discriminate]. rewrite yield1_it_of. simpl.
        eapply Permutation_trans; [symmetry; apply Permutation_middle|].
        rewrite app_nil_r. now constructor.
      * apply pop_back_n_none in E. destruct rem; [|simpl in E; lia]. simpl. exact IH.
    + cbn [fst snd] in *. simpl. exact IH.
Qed.

(* ---- order: what is left is always a contiguous segment; fronts ascend, backs descend ---- *)

(* entries taken by next(), in order / entries removed at the back (yielded or skipped), in order *)
Fixpoint deque_fronts (rem : list (N * str)) (plan : list iop) : list (N * str) :=
  match plan with
  | [] => []
  | o :: p =>
      match o, rem with
      | INext, x :: _ => [x]
      | _, _ => []
      end ++ deque_fronts (snd (deque_step rem o)) p
  end.

(* the items yielded by next() / by next_back() and nth_back() *)
Fixpoint front_items (rem : list (N * str)) (plan : list iop) : list item :=
  match plan with
  | [] => []
  | o :: p =>
      match o, fst (deque_step rem o) with
      | INext, ItSome i s => [ItSome i s]
      | _, _ => []
      end ++ front_items (snd (deque_step rem o)) p
  end.

Fixpoint back_items (rem : list (N * str)) (plan : list iop) : list item :=
  match plan with
  | [] => []
  | o :: p =>
      match o, fst (deque_step rem o) with
      | INextBack, ItSome i s | INthBack _, ItSome i s => [ItSome i s]
      | _, _ => []
      end ++ back_items (snd (deque_step rem o)) p
  end.

Lemma front_items_fronts rem plan : front_items rem plan = map it_of (deque_fronts rem plan).
Proof.
  revert rem; induction plan as [|o p IH]; intros rem; [reflexivity|].
  cbn [front_items deque_fronts]. rewrite map_app, IH. f_equal.
  destruct o; try reflexivity.
  - destruct rem as [|[i s] r]; reflexivity.
Qed.

(* subsequence *)
Inductive subseq {A} : list A -> list A -> Prop :=
| subseq_nil : subseq [] []
| subseq_skip x l1 l2 : subseq l1 l2 -> subseq l1 (x :: l2)
| subseq_take x l1 l2 : subseq l1 l2 -> subseq (x :: l1) (x :: l2).

Lemma subseq_refl {A} (l : list A) : subseq l l.
Proof. induction l; [apply subseq_nil|apply subseq_take; auto]. Qed.

Lemma subseq_nil_l {A} (l : list A) : subseq [] l.
Proof. induction l; constructor; auto. Qed.

Lemma subseq_app {A} (a b c d : list A) : subseq a b -> subseq c d -> subseq (a ++ c) (b ++ d).
Proof.
  intros H; induction H; simpl; intros Hc; auto.
  - apply subseq_skip; auto.
  - apply subseq_take; auto.
Qed.

Lemma subseq_in {A} (l1 l2 : list A) x : subseq l1 l2 -> In x l1 -> In x l2.
Proof.
  intros H; induction H; simpl; auto.
  intros [->|Hin]; auto.
Qed.

Lemma subseq_sorted {A} (R : A -> A -> Prop) l1 l2 :
  subseq l1 l2 -> StronglySorted R l2 -> StronglySorted R l1.
Proof.
  intros H; induction H; intros Hs; auto.
  - inversion Hs; subst. auto.
  - inversion Hs; subst. constructor; auto.
    rewrite Forall_forall in *. intros y Hy. apply H3. eapply subseq_in; eauto.
Qed.

Lemma sorted_app_l {A} (R : A -> A -> Prop) l1 l2 :
  StronglySorted R (l1 ++ l2) -> StronglySorted R l1.
Proof.
  induction l1 as [|x l1 IH]; simpl; intros H; [constructor|].
  inversion H; subst. constructor; auto.
  rewrite Forall_forall in *. intros y Hy. apply H3. apply in_app_iff. now left.
Qed.

Lemma sorted_app_r {A} (R : A -> A -> Prop) l1 l2 :
  StronglySorted R (l1 ++ l2) -> StronglySorted R l2.
Proof.
  induction l1 as [|x l1 IH]; simpl; intros H; [exact H|].
  inversion H; subst. auto.
Qed.

Lemma sorted_snoc {A} (R : A -> A -> Prop) m x :
  StronglySorted R m -> Forall (fun y => R y x) m -> StronglySorted R (m ++ [x]).
Proof.
  induction m as [|z m IHm]; simpl; intros Hs Hf.
  - constructor; constructor.
  - inversion Hs; subst. inversion Hf; subst. constructor.
    + apply IHm; auto.
    + apply Forall_app. split; auto.
Qed.

Lemma sorted_rev {A} (R : A -> A -> Prop) l :
  StronglySorted R l -> StronglySorted (fun x y => R y x) (rev l).
Proof.
  induction l as [|x l IH]; simpl; intros H; [constructor|].
  inversion H; subst. apply sorted_snoc; auto.
  rewrite Forall_forall in *. intros y Hy. apply H3. apply in_rev. exact Hy.
Qed.

(* structural theorem: after any plan,
     rem = (what next() took, in order) ++ (what is left) ++ (what was removed at the back)
   and the back-yielded entries are a subsequence of the removed part read backwards *)
Theorem deque_segment rem plan :
  exists backs,
    rem = deque_fronts rem plan ++ deque_rem rem plan ++ backs /\
    exists bl, back_items rem plan = map it_of bl /\ subseq bl (rev backs).
Proof.
  revert rem; induction plan as [|o p IH]; intros rem.
  - exists []. split; [simpl; now rewrite app_nil_r|]. exists []. split; [reflexivity|constructor].
  - destruct (IH (snd (deque_step rem o))) as (b' & Hseg & bl' & Hbi & Hsub).
    cbn [deque_fronts deque_rem back_items]. rewrite Hbi.
    destruct o as [| |n|]; cbn [deque_step] in *.
    + destruct rem as [|x r]; cbn [fst snd] in *.
      * exists b'. split; [exact Hseg|]. exists bl'. split; [reflexivity|exact Hsub].
      * exists b'. split; [simpl; f_equal; exact Hseg|]. exists bl'. split; [|exact Hsub].
        destruct x; reflexivity.
    + destruct (pop_back_n 0 rem) as [[x r]|] eqn:E; cbn [fst snd] in *.
      * apply pop_back_n_some in E. destruct E as (tl & -> & _).
        exists (b' ++ x :: tl). split.
        { rewrite Hseg at 1. rewrite <- !app_assoc. reflexivity. }
        exists (x :: bl'). split; [destruct x; reflexivity|].
        rewrite rev_app_distr. simpl. rewrite <- app_assoc. simpl.
        change (x :: bl') with ([] ++ x :: bl').
        apply subseq_app; [apply subseq_nil_l|]. apply subseq_take. exact Hsub.
      * exists (b' ++ rem). split.
        { rewrite app_assoc, app_assoc. rewrite <- (app_assoc (deque_fronts [] p)). rewrite <- Hseg. reflexivity. }
        exists bl'. split; [reflexivity|].
        rewrite rev_app_distr. rewrite <- (app_nil_l bl').
        apply subseq_app; [apply subseq_nil_l|exact Hsub].
    + destruct (pop_back_n (N.to_nat n) rem) as [[x r]|] eqn:E; cbn [fst snd] in *.
      * apply pop_back_n_some in E. destruct E as (tl & -> & _).
        exists (b' ++ x :: tl). split.
        { rewrite Hseg at 1. rewrite <- !app_assoc. reflexivity. }
        exists (x :: bl'). split; [destruct x; reflexivity|].
        rewrite rev_app_distr. simpl. rewrite <- app_assoc. simpl.
        change (x :: bl') with ([] ++ x :: bl').
        apply subseq_app; [apply subseq_nil_l|]. apply subseq_take. exact Hsub.
      * exists (b' ++ rem). split.
        { rewrite app_assoc, app_assoc. rewrite <- (app_assoc (deque_fronts [] p)). rewrite <- Hseg. reflexivity. }
        exists bl'. split; [reflexivity|].
        rewrite rev_app_distr. rewrite <- (app_nil_l bl').
        apply subseq_app; [apply subseq_nil_l|exact Hsub].
    + cbn [fst snd] in *. exists b'. split; [exact Hseg|]. exists bl'. split; [reflexivity|exact Hsub].
Qed.

Definition key_lt (x y : N * str) : Prop := fst x < fst y.

(* when the entries are in key order, next() yields ascending keys and the back operations
   yield descending keys *)
Theorem deque_order rem plan :
  StronglySorted key_lt rem ->
  exists fl bl,
    front_items rem plan = map it_of fl /\ StronglySorted key_lt fl /\
    back_items rem plan = map it_of bl /\ StronglySorted (fun x y => key_lt y x) bl.
Proof.
  intros Hs. destruct (deque_segment rem plan) as (backs & Hseg & bl & Hbi & Hsub).
  exists (deque_fronts rem plan), bl. split; [apply front_items_fronts|].
  rewrite Hseg in Hs. split; [eapply sorted_app_l; eauto|]. split; [exact Hbi|].
  apply sorted_app_r, sorted_app_r in Hs.
  eapply subseq_sorted; [exact Hsub|]. now apply sorted_rev.
Qed.

Lemma enumerate_sorted cs : StronglySorted key_lt (enumerate cs).
Proof.
  unfold enumerate. generalize 0%nat as b.
  induction cs as [|c cs IH]; intros b; simpl; constructor; auto.
  rewrite Forall_forall. intros [j s] Hin. apply In_nth_error in Hin. destruct Hin as (i & Hi).
  apply enum_nth_gen in Hi. destruct Hi as (-> & _). unfold key_lt; simpl. lia.
Qed.

(* ====================================================================================== *)
(* B. equality of list-shaped containers                                                   *)
(* ====================================================================================== *)

Lemma list_str_eqb_eq c1 c2 : list_str_eqb c1 c2 = true <-> c1 = c2.
Proof.
  revert c2; induction c1 as [|x c1 IH]; intros [|y c2]; cbn [list_str_eqb];
    split; intros H; try discriminate; auto.
  - apply andb_true_iff in H as (H1 & H2). apply str_eqb_eq in H1. apply IH in H2.
    subst. reflexivity.
  - inversion H; subst. rewrite str_eqb_refl. simpl. apply IH. reflexivity.
Qed.

Lemma list_str_eqb_refl c : list_str_eqb c c = true.
Proof. now apply list_str_eqb_eq. Qed.

Lemma list_str_eqb_sym c1 c2 : list_str_eqb c1 c2 = list_str_eqb c2 c1.
Proof.
  destruct (list_str_eqb c1 c2) eqn:E1, (list_str_eqb c2 c1) eqn:E2; auto.
  - apply list_str_eqb_eq in E1. subst. rewrite list_str_eqb_refl in E2. discriminate.
  - apply list_str_eqb_eq in E2. subst. rewrite list_str_eqb_refl in E1. discriminate.
Qed.

Lemma list_eq_nth_error {A} (c1 c2 : list A) :
  c1 = c2 <->
  length c1 = length c2 /\ forall k, (k < length c1)%nat -> nth_error c1 k = nth_error c2 k.
Proof.
  split; [intros ->; auto|].
  revert c2; induction c1 as [|x c1 IH]; intros [|y c2] (Hl & Hn); simpl in Hl;
    try discriminate; auto.
  f_equal.
  - assert (H0 : Some x = Some y) by (apply (Hn 0%nat); simpl; lia). congruence.
  - apply IH. split; [lia|]. intros k Hk. apply (Hn (S k)). simpl. lia.
Qed.

Lemma list_eq_nth_error_all {A} (c1 c2 : list A) :
  c1 = c2 <-> length c1 = length c2 /\ forall k, nth_error c1 k = nth_error c2 k.
Proof.
  split; [intros ->; auto|]. intros (Hl & Hn). apply list_eq_nth_error. auto.
Qed.

Section Eq.
  Variable keycap : N.
  Notation eq_obj := (eq_obj keycap).

  (* The right-hand side mentions nothing but the two content lists: PartialEq does not see
     the hasher, the lookup table, the memory limits, the block layout of the arena, or
     whether a string is an RStatic or an RArena reference; and it does not see which of
     Rodeo / RodeoReader / RodeoResolver either side is. *)
  Theorem eq_obj_list x y s1 a1 s2 a2 cs1 cs2 :
    obj_strs x = Some (s1, a1) -> obj_strs y = Some (s2, a2) ->
    contents s1 a1 = Some cs1 -> contents s2 a2 = Some cs2 ->
    eq_obj x y = Some (list_str_eqb cs1 cs2).
  Proof.
    intros Hx Hy H1 H2.
    destruct x; simpl in Hx; try discriminate; destruct y; simpl in Hy; try discriminate;
      inversion Hx; subst s1 a1; inversion Hy; subst s2 a2;
      cbn [Rodeo.eq_obj obj_strs]; rewrite H1, H2; reflexivity.
  Qed.

  Corollary eq_obj_list_true x y s1 a1 s2 a2 cs1 cs2 :
    obj_strs x = Some (s1, a1) -> obj_strs y = Some (s2, a2) ->
    contents s1 a1 = Some cs1 -> contents s2 a2 = Some cs2 ->
    (eq_obj x y = Some true <-> cs1 = cs2).
  Proof.
    intros Hx Hy H1 H2. rewrite (eq_obj_list x y _ _ _ _ _ _ Hx Hy H1 H2).
    rewrite <- list_str_eqb_eq. split; [now intros [= ->]|now intros ->].
  Qed.

  (* C18: equal iff same length and the same string under every key *)
  Theorem eq_obj_list_iff x y s1 a1 s2 a2 cs1 cs2 :
    obj_strs x = Some (s1, a1) -> obj_strs y = Some (s2, a2) ->
    contents s1 a1 = Some cs1 -> contents s2 a2 = Some cs2 ->
    (eq_obj x y = Some true <->
     (length cs1 = length cs2 /\ forall k, nth_error cs1 k = nth_error cs2 k)).
  Proof.
    intros Hx Hy H1 H2. rewrite (eq_obj_list_true x y _ _ _ _ _ _ Hx Hy H1 H2).
    apply list_eq_nth_error_all.
  Qed.

  Theorem eq_obj_list_sym x y s1 a1 s2 a2 cs1 cs2 :
    obj_strs x = Some (s1, a1) -> obj_strs y = Some (s2, a2) ->
    contents s1 a1 = Some cs1 -> contents s2 a2 = Some cs2 ->
    eq_obj x y = eq_obj y x.
  Proof.
    intros Hx Hy H1 H2.
    rewrite (eq_obj_list x y _ _ _ _ _ _ Hx Hy H1 H2), (eq_obj_list y x _ _ _ _ _ _ Hy Hx H2 H1).
    now rewrite list_str_eqb_sym.
  Qed.

  Theorem eq_obj_list_refl x s a cs :
    obj_strs x = Some (s, a) -> contents s a = Some cs -> eq_obj x x = Some true.
  Proof.
    intros Hx H1. rewrite (eq_obj_list x x _ _ _ _ _ _ Hx Hx H1 H1). now rewrite list_str_eqb_refl.
  Qed.

  Theorem eq_obj_list_trans x y z s1 a1 s2 a2 s3 a3 cs1 cs2 cs3 :
    obj_strs x = Some (s1, a1) -> obj_strs y = Some (s2, a2) -> obj_strs z = Some (s3, a3) ->
    contents s1 a1 = Some cs1 -> contents s2 a2 = Some cs2 -> contents s3 a3 = Some cs3 ->
    eq_obj x y = Some true -> eq_obj y z = Some true -> eq_obj x z = Some true.
  Proof.
    intros Hx Hy Hz H1 H2 H3 Hxy Hyz.
    apply (eq_obj_list_true x y _ _ _ _ _ _ Hx Hy H1 H2) in Hxy.
    apply (eq_obj_list_true y z _ _ _ _ _ _ Hy Hz H2 H3) in Hyz.
    apply (eq_obj_list_true x z _ _ _ _ _ _ Hx Hz H1 H3). congruence.
  Qed.
End Eq.

(* ====================================================================================== *)
(* C. FromIterator / Extend                                                                *)
(* ====================================================================================== *)

Definition str_in (s : str) (cs : list str) : bool := existsb (str_eqb s) cs.

(* the abstract effect of get_or_intern over a list *)
Fixpoint extend_abs (cs l : list str) : list str :=
  match l with
  | [] => cs
  | s :: t => extend_abs (if str_in s cs then cs else cs ++ [s]) t
  end.

(* remove repetitions, keeping the first occurrence of every string *)
Fixpoint nodup_keep_first (l : list str) : list str :=
  match l with
  | [] => []
  | s :: t => s :: filter (fun x => negb (str_eqb x s)) (nodup_keep_first t)
  end.

Lemma str_in_iff s cs : str_in s cs = true <-> In s cs.
Proof.
  unfold str_in. rewrite existsb_exists. split.
  - intros (x & Hin & He). apply str_eqb_eq in He. now subst.
  - intros Hin. exists s. split; auto. apply str_eqb_refl.
Qed.

Lemma str_in_false s cs : str_in s cs = false <-> ~ In s cs.
Proof.
  rewrite <- str_in_iff. destruct (str_in s cs); split; intros H; congruence.
Qed.

Lemma extend_abs_in l : forall cs s, In s (extend_abs cs l) <-> In s cs \/ In s l.
Proof.
  induction l as [|a t IH]; intros cs s; simpl; [tauto|].
  rewrite IH. destruct (str_in a cs) eqn:E.
  - apply str_in_iff in E. split; [tauto|]. intros [H|[H|H]]; auto. subst; auto.
  - rewrite in_app_iff. simpl. tauto.
Qed.

Lemma filter_comm {A} (p q : A -> bool) l : filter p (filter q l) = filter q (filter p l).
Proof.
  induction l as [|x l IH]; simpl; auto.
  destruct (q x) eqn:Q, (p x) eqn:P; simpl; rewrite ?Q, ?P, IH; reflexivity.
Qed.

Lemma filter_andb {A} (p q : A -> bool) l :
  filter q (filter p l) = filter (fun x => p x && q x) l.
Proof.
  induction l as [|x l IH]; simpl; auto.
  destruct (p x) eqn:P; simpl; [destruct (q x); rewrite IH; reflexivity|exact IH].
Qed.

Lemma filter_drop_neq (p : str -> bool) x l :
  p x = false -> filter p (filter (fun y => negb (str_eqb y x)) l) = filter p l.
Proof.
  intros Px. induction l as [|y l IH]; simpl; auto.
  destruct (str_eqb y x) eqn:E; simpl.
  - apply str_eqb_eq in E. subst y. rewrite Px. exact IH.
  - destruct (p y); rewrite IH; reflexivity.
Qed.

Lemma nodup_keep_first_filter (p : str -> bool) l :
  nodup_keep_first (filter p l) = filter p (nodup_keep_first l).
Proof.
  induction l as [|x t IH]; simpl; auto.
  destruct (p x) eqn:Px; simpl.
  - rewrite IH. f_equal. apply filter_comm.
  - rewrite IH. symmetry. now apply filter_drop_neq.
Qed.

(* what Extend adds: the strings of [l] not already present, first occurrences, in order *)
Theorem extend_abs_added l : forall cs,
  extend_abs cs l = cs ++ nodup_keep_first (filter (fun s => negb (str_in s cs)) l).
Proof.
  induction l as [|s t IH]; intros cs; simpl; [now rewrite app_nil_r|].
  destruct (str_in s cs) eqn:E; simpl.
  - apply IH.
  - rewrite IH, <- app_assoc. simpl. f_equal. f_equal.
    rewrite <- nodup_keep_first_filter. f_equal. rewrite filter_andb.
    apply filter_ext. intros x. unfold str_in. rewrite existsb_app. simpl.
    rewrite orb_false_r, negb_orb. reflexivity.
Qed.

Lemma nodup_keep_first_in l s : In s (nodup_keep_first l) <-> In s l.
Proof.
  induction l as [|x t IH]; simpl; [tauto|].
  rewrite filter_In, IH. split.
  - intros [H|(H & _)]; auto.
  - intros [H|H]; auto. destruct (str_eqb s x) eqn:E.
    + apply str_eqb_eq in E. auto.
    + right. auto.
Qed.

Lemma nodup_keep_first_nodup l : NoDup (nodup_keep_first l).
Proof.
  induction l as [|x t IH]; simpl; constructor.
  - rewrite filter_In. intros (_ & H). rewrite str_eqb_refl in H. discriminate.
  - now apply NoDup_filter.
Qed.

Lemma filter_true {A} (l : list A) : filter (fun _ => true) l = l.
Proof. induction l as [|x l IH]; simpl; congruence. Qed.

Section Extend.
  Variable hash : str -> N.
  Variable cand : N -> N -> bool.
  Variable growf : N -> bool.
  Variable keycap : N.
  Hypothesis cand_refl : forall h, cand h h = true.

  Notation RodeoInv := (RodeoInv hash keycap).
  Notation intern := (intern hash cand growf keycap).
  Notation r_extend := (r_extend hash cand growf keycap).

  (* Extend processes a prefix of the list exactly like the abstract interner and stops at
     the first string that cannot be interned (a new string, and keys or memory ran out) *)
  Theorem r_extend_prefix l : forall r cs r' ok,
    RodeoInv r cs -> r_extend r l = (r', ok) ->
    exists l1 l2,
      l = l1 ++ l2 /\ RodeoInv r' (extend_abs cs l1) /\
      (ok = true -> l2 = []) /\
      (ok = false -> exists s t, l2 = s :: t /\ ~ In s (extend_abs cs l1)).
  Proof.
    induction l as [|s t IH]; intros r cs r' ok Hinv He; cbn [Rodeo.r_extend] in He.
    - inversion He; subst. exists [], []. split; [reflexivity|]. split; [exact Hinv|].
      split; [reflexivity|discriminate].
    - destruct (intern r s) as [r1 [k|e]] eqn:Ei.
      + pose proof (intern_spec hash cand growf keycap cand_refl _ _ _ _ _ Hinv Ei) as Ho.
        destruct Ho as [k0 H1 H2 H3 | H1 H2 H3 H4 | H1 H2 H3 H4 H5 H6 | ref H1 H2 H3 H4 H5 H6];
          try discriminate.
        * subst r1. destruct (IH _ _ _ _ Hinv He) as (l1 & l2 & Hl & Hi & Ht & Hf).
          assert (Hin : str_in s cs = true).
          { apply str_in_iff. apply index_of_some in H1. destruct H1 as (Hn & _).
            eapply nth_error_In; eauto. }
          exists (s :: l1), l2. cbn [extend_abs]. rewrite Hin.
          split; [simpl; now rewrite Hl|]. split; [exact Hi|]. split; assumption.
        * destruct (IH _ _ _ _ H4 He) as (l1 & l2 & Hl & Hi & Ht & Hf).
          assert (Hin : str_in s cs = false).
          { apply str_in_false. now apply index_of_none. }
          exists (s :: l1), l2. cbn [extend_abs]. rewrite Hin.
          split; [simpl; now rewrite Hl|]. split; [exact Hi|]. split; assumption.
      + inversion He; subst r' ok. clear He.
        pose proof (intern_spec hash cand growf keycap cand_refl _ _ _ _ _ Hinv Ei) as Ho.
        assert (Hr : r1 = r /\ index_of s cs = None).
        { destruct Ho as [k0 H1 H2 H3 | H1 H2 H3 H4 | H1 H2 H3 H4 H5 H6 | ref H1 H2 H3 H4 H5 H6];
            try discriminate; auto. }
        destruct Hr as (-> & Hidx).
        exists [], (s :: t). split; [reflexivity|]. split; [exact Hinv|].
        split; [discriminate|]. intros _. exists s, t. split; [reflexivity|].
        simpl. now apply index_of_none.
  Qed.

  (* C17 *)
  Theorem r_extend_spec r cs l r' ok :
    RodeoInv r cs -> r_extend r l = (r', ok) ->
    exists cs',
      RodeoInv r' cs' /\ (exists added, cs' = cs ++ added) /\ NoDup cs' /\
      (ok = true ->
         cs' = cs ++ nodup_keep_first (filter (fun s => negb (existsb (str_eqb s) cs)) l) /\
         forall s, In s cs' <-> In s cs \/ In s l).
  Proof.
    intros Hinv He.
    destruct (r_extend_prefix l _ _ _ _ Hinv He) as (l1 & l2 & Hl & Hi & Ht & _).
    exists (extend_abs cs l1). split; [exact Hi|]. split.
    - eexists. apply extend_abs_added.
    - split.
      + destruct Hi as (_ & (_ & _ & _ & Hnd) & _). exact Hnd.
      + intros Hok. specialize (Ht Hok). subst l2. rewrite app_nil_r in Hl. subst l1.
        split; [apply (extend_abs_added l cs)|]. intros s. apply extend_abs_in.
  Qed.

  (* FromIterator: the distinct strings of the list, in order of first occurrence *)
  Corollary r_from_iter_spec l r' :
    r_extend (rodeo_new default_bytes usize_max) l = (r', true) ->
    RodeoInv r' (nodup_keep_first l).
  Proof.
    intros He.
    assert (Hinv : RodeoInv (rodeo_new default_bytes usize_max) []).
    { apply rodeo_new_inv. unfold default_bytes. lia. }
    destruct (r_extend_prefix l _ _ _ _ Hinv He) as (l1 & l2 & Hl & Hi & Ht & _).
    specialize (Ht eq_refl). subst l2. rewrite app_nil_r in Hl. subst l1.
    rewrite extend_abs_added in Hi. simpl in Hi. rewrite filter_true in Hi. exact Hi.
  Qed.
End Extend.

Print Assumptions run_iter_refines_deque.
Print Assumptions run_iter_whole.
Print Assumptions run_iter_no_panic.
Print Assumptions step_iter_list.
Print Assumptions step_strings_list.
Print Assumptions deque_iter_all_next.
Print Assumptions deque_iter_all_next_back.
Print Assumptions deque_accounting.
Print Assumptions yielded_incl.
Print Assumptions yielded_nodup.
Print Assumptions deque_len_exact.
Print Assumptions deque_segment.
Print Assumptions deque_order.
Print Assumptions eq_obj_list.
Print Assumptions eq_obj_list_iff.
Print Assumptions eq_obj_list_sym.
Print Assumptions r_extend_prefix.
Print Assumptions r_extend_spec.
Print Assumptions r_from_iter_spec.
