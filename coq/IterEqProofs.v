(* IterEqProofs.v — being written *)
From Lasso Require Import Base Arena ArenaProofs Rodeo RodeoInv RodeoProofs.
