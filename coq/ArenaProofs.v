(* ArenaProofs.v — invariants and the store specification of both arenas. *)
From Lasso Require Import Base Arena.

(* ---------- byte buffers ---------- *)

Lemma bwrite_length d off s :
  (off + length s <= length d)%nat -> length (bwrite d off s) = length d.
Proof.
  intros H. unfold bwrite. rewrite !app_length, firstn_length, skipn_length. lia.
Qed.

Lemma bread_bwrite_same d off s :
  (off <= length d)%nat -> bread (bwrite d off s) off (length s) = s.
Proof.
  intros H. unfold bread, bwrite.
  rewrite skipn_app, firstn_length, Nat.min_l by lia.
  rewrite skipn_all2 by (rewrite firstn_length; lia).
  replace (off - off)%nat with 0%nat by lia. simpl.
  rewrite firstn_app, firstn_all, Nat.sub_diag. simpl. apply app_nil_r.
Qed.

Lemma bread_bwrite_below d off s o l :
  (o + l <= off)%nat -> (off <= length d)%nat ->
  bread (bwrite d off s) o l = bread d o l.
Proof.
  intros H1 H2. unfold bread, bwrite.
  rewrite skipn_app, firstn_length, Nat.min_l by lia.
  replace (o - off)%nat with 0%nat by lia. simpl.
  rewrite firstn_app, skipn_length, firstn_length, Nat.min_l by lia.
  replace (l - (off - o))%nat with 0%nat by lia. simpl. rewrite app_nil_r.
  rewrite <- (firstn_skipn off d) at 2.
  rewrite skipn_app, firstn_length, Nat.min_l by lia.
  replace (o - off)%nat with 0%nat by lia. simpl.
  rewrite firstn_app, skipn_length, firstn_length, Nat.min_l by lia.
  replace (l - (off - o))%nat with 0%nat by lia. simpl. now rewrite app_nil_r.
Qed.

Lemma slen_pos s : s <> [] -> 0 < slen s.
Proof. destruct s; [congruence|]. intros _. unfold slen. simpl length. lia. Qed.

Lemma slen_nil : slen [] = 0.
Proof. reflexivity. Qed.

Lemma str_eqb_eq a b : str_eqb a b = true <-> a = b.
Proof.
  revert b; induction a as [|x a IH]; intros [|y b]; simpl; split; intros H; try congruence; auto.
  - apply andb_true_iff in H as [H1 H2]. apply N.eqb_eq in H1. apply IH in H2. congruence.
  - inversion H; subst. rewrite N.eqb_refl. simpl. now apply IH.
Qed.

Lemma str_eqb_refl a : str_eqb a a = true.
Proof. now apply str_eqb_eq. Qed.

Lemma str_eqb_neq a b : str_eqb a b = false <-> a <> b.
Proof.
  split; intros H.
  - intros ->. rewrite str_eqb_refl in H. discriminate.
  - destruct (str_eqb a b) eqn:E; auto. apply str_eqb_eq in E. contradiction.
Qed.

(* ---------- blocks ---------- *)

Lemma fresh_block_ok id cap : 0 < cap -> block_ok (fresh_block id cap).
Proof.
  intros H. unfold block_ok, fresh_block; simpl. rewrite repeat_length. lia.
Qed.

(* the effect of one bump copy into a block with room *)
Lemma push_slice_spec b s b' r :
  block_ok b -> bused b + slen s <= bcap b -> push_slice b s = (b', r) ->
  block_ok b' /\ bid b' = bid b /\ bcap b' = bcap b /\ bused b' = bused b + slen s /\
  r = RArena (bid b) (bused b) (slen s) /\
  length (bdata b') = length (bdata b) /\
  bread (bdata b') (N.to_nat (bused b)) (N.to_nat (slen s)) = s /\
  (forall o l, o + l <= bused b ->
     bread (bdata b') (N.to_nat o) (N.to_nat l) = bread (bdata b) (N.to_nat o) (N.to_nat l)).
Proof.
  intros (Hu & Hl & Hc) Hfit Hp. unfold push_slice in Hp. inversion Hp; subst b' r; clear Hp.
  simpl. unfold slen in *.
  assert (Hlen : length (bwrite (bdata b) (N.to_nat (bused b)) s) = length (bdata b))
    by (apply bwrite_length; lia).
  repeat split; auto; try lia.
  - unfold block_ok; simpl. rewrite Hlen. lia.
  - rewrite Nat2N.id. apply bread_bwrite_same. lia.
  - intros o l Hol. apply bread_bwrite_below; lia.
Qed.

(* ---------- find_block over list surgery ---------- *)

Lemma find_block_app id l1 l2 :
  find_block id (l1 ++ l2) =
  match find_block id l1 with Some b => Some b | None => find_block id l2 end.
Proof.
  induction l1 as [|b l1 IH]; simpl; auto. destruct (bid b =? id); auto.
Qed.

Lemma find_block_none id l : ~ In id (map bid l) -> find_block id l = None.
Proof.
  induction l as [|b l IH]; simpl; auto. intros H.
  destruct (bid b =? id) eqn:E; [apply N.eqb_eq in E; tauto|]. apply IH. tauto.
Qed.

Lemma find_block_some id l b : find_block id l = Some b -> In b l /\ bid b = id.
Proof.
  induction l as [|x l IH]; simpl; [discriminate|].
  destruct (bid x =? id) eqn:E.
  - intros H; inversion H; subst. apply N.eqb_eq in E. auto.
  - intros H. apply IH in H. tauto.
Qed.

Lemma find_block_in l b : NoDup (map bid l) -> In b l -> find_block (bid b) l = Some b.
Proof.
  induction l as [|x l IH]; simpl; [tauto|]. intros Hnd [->|Hin].
  - now rewrite N.eqb_refl.
  - inversion Hnd; subst. destruct (bid x =? bid b) eqn:E.
    + apply N.eqb_eq in E. exfalso. apply H1. rewrite E. now apply in_map.
    + auto.
Qed.

(* replacing a block by one with the same identity *)
Lemma find_block_replace id l1 b b' l2 :
  bid b' = bid b -> NoDup (map bid (l1 ++ b :: l2)) ->
  find_block id (l1 ++ b' :: l2) =
  if bid b =? id then Some b' else find_block id (l1 ++ b :: l2).
Proof.
  intros Hid Hnd. rewrite !find_block_app. simpl. rewrite Hid.
  destruct (bid b =? id) eqn:E.
  - apply N.eqb_eq in E. subst id.
    rewrite find_block_none; auto.
    rewrite map_app in Hnd. simpl in Hnd. apply NoDup_remove_2 in Hnd.
    intros Hin. apply Hnd. apply in_or_app. now left.
  - reflexivity.
Qed.

(* inserting a block with a fresh identity *)
Lemma find_block_insert id l1 nb l2 :
  ~ In (bid nb) (map bid (l1 ++ l2)) ->
  find_block id (l1 ++ nb :: l2) =
  if bid nb =? id then Some nb else find_block id (l1 ++ l2).
Proof.
  intros Hfresh. rewrite !find_block_app. simpl.
  destruct (bid nb =? id) eqn:E.
  - apply N.eqb_eq in E. subst id. rewrite find_block_none; auto.
    intros Hin. apply Hfresh. rewrite map_app. apply in_or_app. now left.
  - reflexivity.
Qed.

Lemma sum_N_app l1 l2 : sum_N (l1 ++ l2) = sum_N l1 + sum_N l2.
Proof. unfold sum_N. induction l1; simpl; lia. Qed.

(* ---------- the abstract effect of a store ---------- *)

(* What every caller of store_str may rely on, for either arena.  [a] before, [a'] after. *)
Record store_post (a a' : arena) (s : str) (R : res sref) : Prop := {
  sp_inv    : ArenaInv a';
  sp_limit  : limit a' = limit a;
  sp_usage  : usage a <= usage a' /\ usage a' <= N.max (usage a) (limit a);
  sp_frame  : forall r, ref_ok a r -> ref_ok a' r /\ read a' r = read a r;
  sp_result :
    match R with
    | Ok r' =>
        ref_ok a' r' /\ read a' r' = Some s /\
        (forall r, ref_ok a r -> refs_disjoint r r') /\
        (s = [] -> r' = REmpty /\ a' = a) /\
        (s <> [] -> exists b o, r' = RArena b o (slen s))
    | Err e =>
        e = MemoryLimitReached /\ a' = a /\ s <> [] /\ limit a < usage a + slen s
    end
}.

(* the two ways a store changes the block list *)

(* (A) bump into an existing block *)
Lemma store_into_block a l1 b l2 s b' r :
  ArenaInv a -> blocks a = l1 ++ b :: l2 -> s <> [] ->
  bused b + slen s <= bcap b -> push_slice b s = (b', r) ->
  store_post a (mkArena (l1 ++ b' :: l2) (bucket_cap a) (usage a) (limit a) (next_bid a)) s (Ok r).
Proof.
  destruct a as [bl bc us lm nb]. unfold ArenaInv. simpl.
  intros (Hne & Hok & Hnd & Hfr & Hus & Hbc) Hbl Hs Hfit Hp. subst bl.
  assert (Hinb : In b (l1 ++ b :: l2)) by (apply in_or_app; right; now left).
  assert (Hb : block_ok b) by (rewrite Forall_forall in Hok; now apply Hok).
  destruct (push_slice_spec _ _ _ _ Hb Hfit Hp) as (Hb' & Hid & Hcap & Hused & Hr & Hlen & Hrd & Hbelow).
  assert (Hfind : forall id, find_block id (l1 ++ b' :: l2) =
                             if bid b =? id then Some b' else find_block id (l1 ++ b :: l2))
    by (intros id; now apply find_block_replace).
  split; simpl.
  - (* invariant *)
    unfold ArenaInv; simpl. repeat split; auto.
    + destruct l1; discriminate.
    + apply Forall_app in Hok as (H1 & H2). inversion H2; subst.
      apply Forall_app; split; auto.
    + rewrite map_app in *. simpl in *. now rewrite Hid.
    + apply Forall_app in Hfr as (H1 & H2). inversion H2; subst.
      apply Forall_app; split; auto. constructor; auto. now rewrite Hid.
    + rewrite Hus. rewrite !map_app, !sum_N_app. simpl. unfold sum_N at 2 4. simpl. now rewrite Hcap.
  - reflexivity.
  - lia.
  - (* frame *)
    intros r0 Hr0. destruct r0 as [| |b0 o0 n0]; simpl; auto.
    simpl in Hr0. destruct Hr0 as (Hn0 & blk & Hf & Hle).
    rewrite Hfind. destruct (bid b =? b0) eqn:E.
    + apply N.eqb_eq in E. subst b0.
      rewrite find_block_in in Hf; auto.
      inversion Hf; subst blk. split.
      * split; auto. exists b'. split; auto. lia.
      * rewrite find_block_in; auto.
        rewrite Hlen. destruct (o0 + n0 <=? N.of_nat (length (bdata b))); auto.
        f_equal. apply Hbelow. lia.
    + rewrite Hf. split; auto. split; auto. exists blk. auto.
  - (* result *)
    subst r. split; [|split; [|split; [|split]]].
    + split; [now apply slen_pos|]. exists b'. rewrite Hfind, N.eqb_refl. split; auto. lia.
    + simpl. rewrite Hfind, N.eqb_refl.
      destruct Hb as (Hu & Hl & _). destruct Hb' as (_ & Hl' & _).
      replace (bused b + slen s <=? N.of_nat (length (bdata b'))) with true
        by (symmetry; apply N.leb_le; lia).
      now rewrite Hrd.
    + intros r0 Hr0. destruct r0 as [| |b0 o0 n0]; simpl; auto.
      destruct (N.eq_dec b0 (bid b)) as [->|]; auto. right. left.
      simpl in Hr0. destruct Hr0 as (_ & blk & Hf & Hle).
      rewrite find_block_in in Hf; auto.
      inversion Hf; subst. lia.
    + intros ->. contradiction.
    + intros _. eauto.
Qed.

(* (B) a new block with a fresh identity, holding the string at offset 0 *)
Lemma store_new_block a l1 l2 s cap b' r bc' :
  ArenaInv a -> blocks a = l1 ++ l2 -> s <> [] ->
  slen s <= cap -> usage a + cap <= limit a -> 0 < bc' ->
  push_slice (fresh_block (next_bid a) cap) s = (b', r) ->
  store_post a (mkArena (l1 ++ b' :: l2) bc' (usage a + cap) (limit a) (next_bid a + 1)) s (Ok r).
Proof.
  destruct a as [bl bc us lm nb]. unfold ArenaInv. simpl.
  intros (Hne & Hok & Hnd & Hfr & Hus & Hbc) Hbl Hs Hfit Hlim Hbc' Hp. subst bl.
  assert (Hcap0 : 0 < cap) by (pose proof (slen_pos s Hs); lia).
  pose proof (fresh_block_ok nb cap Hcap0) as Hb.
  assert (Hfit' : bused (fresh_block nb cap) + slen s <= bcap (fresh_block nb cap))
    by (simpl; lia).
  destruct (push_slice_spec _ _ _ _ Hb Hfit' Hp) as (Hb' & Hid & Hcap & Hused & Hr & Hlen & Hrd & Hbelow).
  simpl in Hid, Hcap, Hused, Hr, Hrd.
  assert (Hfresh : ~ In (bid b') (map bid (l1 ++ l2))).
  { rewrite Hid. intros Hin. apply in_map_iff in Hin as (x & Hx & Hin).
    rewrite Forall_forall in Hfr. apply Hfr in Hin. lia. }
  assert (Hfind : forall id, find_block id (l1 ++ b' :: l2) =
                             if bid b' =? id then Some b' else find_block id (l1 ++ l2))
    by (intros id; now apply find_block_insert).
  split; simpl.
  - unfold ArenaInv; simpl. repeat split; auto.
    + destruct l1; discriminate.
    + apply Forall_app in Hok as (H1 & H2). apply Forall_app; split; auto.
    + rewrite map_app in *. simpl.
      apply (NoDup_Add (Add_app (bid b') (map bid l1) (map bid l2))). split; auto.
    + apply Forall_app in Hfr as (H1 & H2). apply Forall_app; split.
      * eapply Forall_impl; [|exact H1]. simpl; intros; lia.
      * constructor; [lia|]. eapply Forall_impl; [|exact H2]. simpl; intros; lia.
    + rewrite Hus. rewrite !map_app, !sum_N_app. simpl. unfold sum_N at 4. simpl.
      fold (sum_N (map bcap l2)). rewrite Hcap. lia.
  - reflexivity.
  - lia.
  - intros r0 Hr0. destruct r0 as [| |b0 o0 n0]; simpl; auto.
    simpl in Hr0. destruct Hr0 as (Hn0 & blk & Hf & Hle).
    rewrite Hfind. destruct (bid b' =? b0) eqn:E.
    + apply N.eqb_eq in E. subst b0. exfalso. apply Hfresh.
      apply find_block_some in Hf as (Hin & Hbid). rewrite <- Hbid. now apply in_map.
    + rewrite Hf. split; auto. split; auto. exists blk; auto.
  - subst r. split; [|split; [|split; [|split]]].
    + split; [now apply slen_pos|]. exists b'. rewrite Hfind, <- Hid, N.eqb_refl. split; auto. lia.
    + simpl. rewrite Hfind, <- Hid, N.eqb_refl.
      destruct Hb' as (_ & Hl' & _).
      replace (0 + slen s <=? N.of_nat (length (bdata b'))) with true
        by (symmetry; apply N.leb_le; lia).
      change (N.to_nat 0) with 0%nat in *. now rewrite Hrd.
    + intros r0 Hr0. destruct r0 as [| |b0 o0 n0]; simpl; auto. left.
      intros ->. simpl in Hr0. destruct Hr0 as (_ & blk & Hf & _).
      apply Hfresh. rewrite Hid. apply find_block_some in Hf as (Hin & Hbid).
      rewrite <- Hbid. now apply in_map.
    + intros ->. contradiction.
    + intros _. eauto.
Qed.

Lemma store_post_refl_err a s :
  ArenaInv a -> s <> [] -> limit a < usage a + slen s ->
  store_post a a s (Err MemoryLimitReached).
Proof.
  intros Hinv Hs Hl. constructor.
  - exact Hinv.
  - reflexivity.
  - lia.
  - intros r Hr; auto.
  - simpl; auto.
Qed.

Lemma store_post_empty a : ArenaInv a -> store_post a a [] (Ok REmpty).
Proof.
  intros Hinv. constructor.
  - exact Hinv.
  - reflexivity.
  - lia.
  - intros r Hr; auto.
  - simpl. split; [exact I|]. split; [reflexivity|]. split.
    + intros r _. destruct r; simpl; auto.
    + split; [auto|congruence].
Qed.

Lemma arena_eta a : mkArena (blocks a) (bucket_cap a) (usage a) (limit a) (next_bid a) = a.
Proof. now destruct a. Qed.

(* ---------- growth ---------- *)

Definition place_ok (place : bool -> block -> list block -> list block) : Prop :=
  forall ov b bs, exists l1 l2, bs = l1 ++ l2 /\ place ov b bs = l1 ++ b :: l2.

Lemma vec_place_ok : place_ok vec_place.
Proof.
  intros ov b bs. unfold vec_place. destruct ov.
  - exists (firstn (length bs - 2) bs), (skipn (length bs - 2) bs). split; auto.
    now rewrite firstn_skipn.
  - exists bs, []. now rewrite app_nil_r.
Qed.

Lemma lf_place_ok : place_ok lf_place.
Proof. intros ov b bs. exists [], bs. auto. Qed.

Lemma grow_post place a s a' R :
  place_ok place -> ArenaInv a -> s <> [] ->
  grow place true a s = (a', R) -> store_post a a' s R.
Proof.
  intros Hpl Hinv Hs Hg. pose proof (slen_pos s Hs) as Hlen.
  assert (Hbc : 0 < bucket_cap a) by (destruct Hinv as (_ & _ & _ & _ & _ & H); exact H).
  unfold grow in Hg.
  destruct (2 * bucket_cap a <? slen s) eqn:E1.
  - (* oversized *)
    destruct (limit a <? usage a + slen s) eqn:E2.
    + inversion Hg; subst. apply store_post_refl_err; auto. now apply N.ltb_lt.
    + destruct (push_slice (fresh_block (next_bid a) (slen s)) s) as [b r] eqn:Hp.
      inversion Hg; subst a' R. apply N.ltb_ge in E2.
      destruct (Hpl true b (blocks a)) as (l1 & l2 & Hb1 & Hb2). rewrite Hb2.
      eapply store_new_block; eauto; lia.
  - apply N.ltb_ge in E1.
    destruct (limit a <? usage a + 2 * bucket_cap a) eqn:E2.
    + (* what is left under the limit *)
      cbn [andb] in Hg.
      destruct (limit a - usage a <? slen s) eqn:E3.
      * inversion Hg; subst. apply store_post_refl_err; auto. apply N.ltb_lt in E3. lia.
      * apply N.ltb_ge in E3.
        destruct (limit a <? usage a + (limit a - usage a)) eqn:E4.
        { inversion Hg; subst. apply store_post_refl_err; auto. apply N.ltb_lt in E4. lia. }
        apply N.ltb_ge in E4.
        destruct (limit a - usage a =? 0) eqn:E5.
        { apply N.eqb_eq in E5. lia. }
        destruct (push_slice (fresh_block (next_bid a) (limit a - usage a)) s) as [b r] eqn:Hp.
        inversion Hg; subst a' R.
        destruct (Hpl false b (blocks a)) as (l1 & l2 & Hb1 & Hb2). rewrite Hb2.
        eapply store_new_block; eauto; lia.
    + (* a doubled block *)
      destruct (push_slice (fresh_block (next_bid a) (2 * bucket_cap a)) s) as [b r] eqn:Hp.
      inversion Hg; subst a' R. apply N.ltb_ge in E2.
      destruct (Hpl false b (blocks a)) as (l1 & l2 & Hb1 & Hb2). rewrite Hb2.
      eapply store_new_block; eauto; lia.
Qed.

(* ---------- Arena::store_str ---------- *)

Lemma last_opt_split {A} (l : list A) b :
  last_opt l = Some b -> exists l1, l = l1 ++ [b] /\ forall b', set_last b' l = l1 ++ [b'].
Proof.
  induction l as [|x l IH]; simpl; [discriminate|].
  destruct l as [|y l].
  - intros H; inversion H; subst. exists []. auto.
  - intros H. destruct (IH H) as (l1 & H1 & H2). exists (x :: l1). split.
    + simpl. now rewrite <- H1.
    + intros b'. simpl. rewrite <- H2. reflexivity.
Qed.

Theorem vec_store_post a s a' R :
  ArenaInv a -> vec_store a s = (a', R) -> store_post a a' s R.
Proof.
  intros Hinv Hst. unfold vec_store, vec_store_gen in Hst.
  destruct s as [|c s0]; [inversion Hst; subst; now apply store_post_empty|].
  set (s := c :: s0) in *. assert (Hs : s <> []) by discriminate.
  destruct (last_opt (blocks a)) as [b|] eqn:El.
  - destruct (slen s <=? bcap b - bused b) eqn:Ef.
    + destruct (push_slice b s) as [b' r] eqn:Hp. inversion Hst; subst a' R.
      destruct (last_opt_split _ _ El) as (l1 & Hl1 & Hl2). rewrite Hl2.
      apply N.leb_le in Ef.
      assert (Hb : block_ok b).
      { destruct Hinv as (_ & Hok & _). rewrite Forall_forall in Hok. apply Hok.
        rewrite Hl1. apply in_or_app. right. now left. }
      destruct Hb as (Hu & _).
      eapply store_into_block; eauto. lia.
    + eapply grow_post; eauto using vec_place_ok.
  - eapply grow_post; eauto using vec_place_ok.
Qed.

(* ---------- LockfreeArena::store_str (one thread) ---------- *)

Lemma lf_first_fit_split bs s bs' r :
  lf_first_fit bs s = Some (bs', r) ->
  exists l1 b l2 b', bs = l1 ++ b :: l2 /\ bs' = l1 ++ b' :: l2 /\
                     push_slice b s = (b', r) /\ bused b + slen s <= bcap b.
Proof.
  revert bs' r. induction bs as [|x bs IH]; cbn [lf_first_fit]; [discriminate|]. intros bs' r.
  destruct (bused x + slen s <=? bcap x) eqn:E.
  - destruct (push_slice x s) as [x' r'] eqn:Hp. intros H. injection H as <- <-.
    exists [], x, bs, x'. apply N.leb_le in E. auto.
  - destruct (lf_first_fit bs s) as [[t' r']|]; [|discriminate].
    intros H. injection H as <- <-.
    destruct (IH _ _ eq_refl) as (l1 & b & l2 & b' & H1 & H2 & H3 & H4).
    exists (x :: l1), b, l2, b'. subst. auto.
Qed.

Theorem lf_store_post a s a' R :
  ArenaInv a -> lf_store a s = (a', R) -> store_post a a' s R.
Proof.
  intros Hinv Hst. unfold lf_store, lf_store_gen in Hst.
  destruct s as [|c s0]; [inversion Hst; subst; now apply store_post_empty|].
  set (s := c :: s0) in *. assert (Hs : s <> []) by discriminate.
  destruct (lf_first_fit (blocks a) s) as [[bs' r]|] eqn:Ef.
  - inversion Hst; subst a' R.
    destruct (lf_first_fit_split _ _ _ _ Ef) as (l1 & b & l2 & b' & H1 & H2 & H3 & H4). subst bs'.
    eapply store_into_block; eauto.
  - eapply grow_post; eauto using lf_place_ok.
Qed.

(* ---------- new / clear / set_limit ---------- *)

Lemma arena_new_inv cap lim : 0 < cap -> ArenaInv (arena_new cap lim).
Proof.
  intros H. unfold ArenaInv, arena_new; simpl. repeat split; auto; try discriminate.
  - constructor; [now apply fresh_block_ok|constructor].
  - constructor; [intros []|constructor].
  - constructor; [simpl; lia|constructor].
  - lia.
Qed.

Lemma arena_clear_inv a : ArenaInv a -> ArenaInv (arena_clear a).
Proof.
  intros (Hne & Hok & Hnd & Hfr & Hus & Hbc). unfold ArenaInv, arena_clear; simpl.
  repeat split; auto.
  - destruct (blocks a); [congruence|discriminate].
  - rewrite Forall_forall in *. intros b Hb. apply in_map_iff in Hb as (x & <- & Hx).
    destruct (Hok x Hx) as (H1 & H2 & H3). unfold block_ok, block_clear; simpl. repeat split; auto; lia.
  - rewrite map_map. simpl. exact Hnd.
  - rewrite Forall_forall in *. intros b Hb. apply in_map_iff in Hb as (x & <- & Hx). simpl. auto.
  - rewrite map_map. simpl. exact Hus.
Qed.

Lemma arena_clear_used a : Forall (fun b => bused b = 0) (blocks (arena_clear a)).
Proof.
  unfold arena_clear; simpl. rewrite Forall_forall. intros b Hb.
  apply in_map_iff in Hb as (x & <- & _). reflexivity.
Qed.

Lemma set_limit_inv a m : ArenaInv a -> ArenaInv (set_limit a m).
Proof. intros H. exact H. Qed.

(* ---------- raising the limit makes a refused store possible ---------- *)

Lemma grow_ok_when_room place a s :
  s <> [] -> 0 < bucket_cap a -> usage a + slen s <= limit a ->
  exists a' r, grow place true a s = (a', Ok r).
Proof.
  intros Hs Hbc Hroom. pose proof (slen_pos s Hs) as Hlen. unfold grow.
  destruct (2 * bucket_cap a <? slen s) eqn:E1.
  - replace (limit a <? usage a + slen s) with false by (symmetry; apply N.ltb_ge; lia).
    destruct (push_slice _ s) as [b r]. eauto.
  - destruct (limit a <? usage a + 2 * bucket_cap a) eqn:E2.
    + cbn [andb]. apply N.ltb_lt in E2.
      replace (limit a - usage a <? slen s) with false by (symmetry; apply N.ltb_ge; lia).
      replace (limit a <? usage a + (limit a - usage a)) with false by (symmetry; apply N.ltb_ge; lia).
      replace (limit a - usage a =? 0) with false by (symmetry; apply N.eqb_neq; lia).
      destruct (push_slice _ s) as [b r]. eauto.
    + destruct (push_slice _ s) as [b r]. eauto.
Qed.

Theorem vec_store_raise a s a' e m :
  ArenaInv a -> vec_store a s = (a', Err e) -> usage a + slen s <= m ->
  exists a'' r, vec_store (set_limit a m) s = (a'', Ok r).
Proof.
  intros Hinv Hst Hm. unfold vec_store, vec_store_gen in *.
  destruct s as [|c s0]; [inversion Hst|]. set (s := c :: s0) in *.
  assert (Hs : s <> []) by discriminate.
  assert (Hbc : 0 < bucket_cap a) by (destruct Hinv as (_ & _ & _ & _ & _ & H); exact H).
  cbn [blocks set_limit] in *.
  destruct (last_opt (blocks a)) as [b|].
  - destruct (slen s <=? bcap b - bused b).
    + destruct (push_slice b s). inversion Hst.
    + apply grow_ok_when_room; auto.
  - apply grow_ok_when_room; auto.
Qed.

Theorem lf_store_raise a s a' e m :
  ArenaInv a -> lf_store a s = (a', Err e) -> usage a + slen s <= m ->
  exists a'' r, lf_store (set_limit a m) s = (a'', Ok r).
Proof.
  intros Hinv Hst Hm. unfold lf_store, lf_store_gen in *.
  destruct s as [|c s0]; [inversion Hst|]. set (s := c :: s0) in *.
  assert (Hs : s <> []) by discriminate.
  assert (Hbc : 0 < bucket_cap a) by (destruct Hinv as (_ & _ & _ & _ & _ & H); exact H).
  cbn [blocks set_limit] in *.
  destruct (lf_first_fit (blocks a) s) as [[bs r]|].
  - inversion Hst.
  - apply grow_ok_when_room; auto.
Qed.

(* ---------- arena histories: any sequence of stores, limit changes and clears ---------- *)

Inductive aop := AStore (s : str) | ASetLimit (m : N) | AClear.

Section History.
  Variable store : arena -> str -> arena * res sref.
  Hypothesis store_ok : forall a s a' R, ArenaInv a -> store a s = (a', R) -> store_post a a' s R.

  Definition astep (a : arena) (o : aop) : arena :=
    match o with
    | AStore s => fst (store a s)
    | ASetLimit m => set_limit a m
    | AClear => arena_clear a
    end.

  Lemma astep_inv a o : ArenaInv a -> ArenaInv (astep a o).
  Proof.
    intros H. destruct o as [s|m|]; simpl.
    - destruct (store a s) as [a' R] eqn:E. simpl. exact (sp_inv _ _ _ _ (store_ok _ _ _ _ H E)).
    - exact H.
    - now apply arena_clear_inv.
  Qed.

  (* every reachable arena satisfies the invariant: no block over-filled, usage exact *)
  Theorem history_inv ops a : ArenaInv a -> ArenaInv (fold_left astep ops a).
  Proof. revert a; induction ops as [|o ops IH]; simpl; intros a H; auto. apply IH, astep_inv, H. Qed.

  Definition no_set_limit (o : aop) : Prop := match o with ASetLimit _ => False | _ => True end.

  (* while the limit is not changed, usage never exceeds max(limit, usage at the start) *)
  Theorem history_cap ops a :
    ArenaInv a -> Forall no_set_limit ops ->
    let a' := fold_left astep ops a in
    limit a' = limit a /\ usage a' <= N.max (usage a) (limit a).
  Proof.
    revert a; induction ops as [|o ops IH]; simpl; intros a H Hn; [split; [reflexivity|lia]|].
    inversion Hn; subst. destruct (IH (astep a o) (astep_inv a o H) H3) as (Hl & Hu).
    assert (Hstep : limit (astep a o) = limit a /\ usage (astep a o) <= N.max (usage a) (limit a)).
    { destruct o as [s|m|]; simpl in *.
      - destruct (store a s) as [a1 R] eqn:E. simpl.
        pose proof (store_ok _ _ _ _ H E) as P. split; [exact (sp_limit _ _ _ _ P)|].
        exact (proj2 (sp_usage _ _ _ _ P)).
      - contradiction.
      - split; [reflexivity|lia]. }
    destruct Hstep as (Hl1 & Hu1). split; [congruence|]. rewrite Hl1 in Hu. lia.
  Qed.
End History.
