(* ConcInv.v — the invariants of the concurrent model (Conc.v), stated; proved in
   ConcArenaProofs.v (AInv: storage) and ConcInternProofs.v (JInv: the two maps, keys, locks). *)
From Lasso Require Import Base Arena ArenaProofs Conc.

Section Inv.
  Variable shard_of : str -> N.
  Variable keycap : N.

  (* ------------------------------------------------------------------ storage (C05, C09) *)

  (* budget a thread has been granted (memory_usage already incremented) for a block that
     is not yet in the published list *)
  Definition inflight_cap (t : thread) : N :=
    match t_pc t with
    | PStore _ (SBcapStore next) => next
    | PStore _ (SNewBlock cap) => cap
    | PStore _ (SPushLoad blk) | PStore _ (SPushCas blk _) => bcap blk
    | _ => 0
    end.

  (* a block a thread owns exclusively: allocated, filled, not yet published *)
  Definition inflight_block (t : thread) : option block :=
    match t_pc t with
    | PStore _ (SPushLoad blk) | PStore _ (SPushCas blk _) => Some blk
    | _ => None
    end.

  Definition inflight_blocks (c : cstate) : list block :=
    flat_map (fun t => match inflight_block t with Some b => [b] | None => [] end) (c_threads c).

  (* every block that exists: published ones and the unpublished ones threads hold *)
  Definition all_blocks (c : cstate) : list block := c_blocks c ++ inflight_blocks c.

  (* a byte range somebody owns: (block, offset, length, the string it holds or will hold,
     whether the bytes have been written already) *)
  Record region := mkRegion { g_b : N; g_off : N; g_len : N; g_str : str; g_written : bool }.

  Definition region_of_ref (r : sref) (s : str) (written : bool) : list region :=
    match r with RArena b off len => [mkRegion b off len s written] | _ => [] end.

  (* the range a thread holds in its hands: reserved (SCopy), copied but the key not yet
     stored (PKeyAdd, PStrs), or inside its unpublished block *)
  Definition thread_regions (t : thread) : list region :=
    match t_pc t with
    | PStore s (SCopy b off) => [mkRegion b off (slen s) s false]
    | PStore s (SPushLoad blk) | PStore s (SPushCas blk _) => [mkRegion (bid blk) 0 (slen s) s true]
    | PKeyAdd s r | PStrs s r _ => region_of_ref r s true
    | _ => []
    end.

  (* all owned ranges: those of the key -> string map and those in threads' hands *)
  Definition regions (c : cstate) : list region :=
    flat_map (fun e => region_of_ref (e_ref e) (e_str e) true) (c_strs c) ++
    flat_map thread_regions (c_threads c).

  Definition region_disjoint (x y : region) : Prop :=
    g_b x <> g_b y \/ g_off x + g_len x <= g_off y \/ g_off y + g_len y <= g_off x.

  (* the range lies inside the used part of an existing block, and if it is marked written
     the block holds exactly the string there *)
  Definition region_ok (c : cstate) (g : region) : Prop :=
    0 < g_len g /\ g_len g = slen (g_str g) /\
    exists blk, find_block (g_b g) (all_blocks c) = Some blk /\
                g_off g + g_len g <= bused blk /\
                (g_written g = true ->
                 bread (bdata blk) (N.to_nat (g_off g)) (N.to_nat (g_len g)) = g_str g).

  (* a stored reference denotes its ghost string in the PUBLISHED arena *)
  Definition ref_denotes (c : cstate) (r : sref) (s : str) : Prop :=
    ref_ok (as_arena c) r /\ read (as_arena c) r = Some s.

  Record AInv (c : cstate) : Prop := {
    (* blocks: published and in-flight ones are well-formed, with pairwise different
       identities below the allocator's counter; the published list is never empty *)
    ai_blocks_ok : Forall block_ok (all_blocks c);
    ai_nodup : NoDup (map bid (all_blocks c));
    ai_fresh : Forall (fun b => bid b < c_next_bid c) (all_blocks c);
    ai_nonempty : c_blocks c <> [];
    ai_bcap : 0 < c_bcap c;
    (* C09 accounting: reported usage = capacity of published blocks + granted, unpublished budget *)
    ai_usage : c_usage c = sum_N (map bcap (c_blocks c)) + sum_N (map inflight_cap (c_threads c));
    (* C05: every owned range is inside the used part of a block, ranges are pairwise
       disjoint, and written ranges hold their string *)
    ai_regions_ok : Forall (region_ok c) (regions c);
    ai_disjoint : ForallOrdPairs region_disjoint (regions c);
    (* entries of both maps denote their ghost strings (no torn or altered string) *)
    ai_strs_denote : Forall (fun e => ref_denotes c (e_ref e) (e_str e)) (c_strs c);
    (* a thread that finished storing holds a reference to its own string; for an arena
       reference the block is published *)
    ai_thread_refs : Forall (fun t => match t_pc t with
                                      | PKeyAdd s r | PStrs s r _ | PMap s r _ => ref_denotes c r s
                                      | _ => True
                                      end) (c_threads c);
    (* local sanity of store program counters *)
    ai_store_pcs : Forall (fun t => match t_pc t with
                                    | PStore s _ => s <> []
                                    | _ => True
                                    end) (c_threads c)
  }.

  (* ------------------------------------------------------------------ the interner (C03) *)

  (* the shard write lock a thread must hold at its program counter *)
  Definition holds (t : thread) : option str :=
    match t_pc t with
    | PFind s | PStore s _ | PKeyAdd s _ | PStrs s _ _ | PMap s _ _ | PSKeyAdd _ s => Some s
    | _ => None
    end.

  (* a key a thread has drawn from the counter and not yet put into the key -> string map *)
  Definition drawn_key (t : thread) : option N :=
    match t_pc t with PStrs _ _ k => Some k | _ => None end.

  (* a key a thread has put into the key -> string map but not yet into the string -> key map *)
  Definition half_inserted (t : thread) : option (str * N) :=
    match t_pc t with PMap s _ k => Some (s, k) | _ => None end.

  Definition keys_of (l : list entry) : list N := map e_key l.
  Definition strs_of (l : list entry) : list str := map e_str l.

  Definition drawn_keys (c : cstate) : list N :=
    flat_map (fun t => match drawn_key t with Some k => [k] | None => [] end) (c_threads c).

  Record JInv (c : cstate) : Prop := {
    (* lock discipline: one holder per shard; a thread inside the insertion path holds the
       lock of its string's shard; every lock is held by such a thread *)
    ji_locks_nodup : NoDup (map fst (c_locks c));
    ji_holds : forall tid t s, nth_error (c_threads c) tid = Some t -> holds t = Some s ->
                               In (shard_of s, tid) (c_locks c);
    ji_locks_held : forall sh tid, In (sh, tid) (c_locks c) ->
                                   exists t s, nth_error (c_threads c) tid = Some t /\
                                               holds t = Some s /\ shard_of s = sh;
    (* the string a thread is inserting is not in the string -> key map (it checked under the lock) *)
    ji_absent : forall tid t s, nth_error (c_threads c) tid = Some t -> holds t = Some s ->
                                t_pc t <> PFind s -> ~ In s (strs_of (c_map c));
    (* one key per string, one string per key *)
    ji_map_strs_nodup : NoDup (strs_of (c_map c));
    ji_map_keys_nodup : NoDup (keys_of (c_map c));
    ji_strs_keys_nodup : NoDup (keys_of (c_strs c));
    ji_strs_strs_nodup : NoDup (strs_of (c_strs c));
    (* every string -> key entry is also a key -> string entry ("key -> string first"), and so is
       the entry a thread is about to publish in the string -> key map *)
    ji_map_in_strs : forall e, In e (c_map c) -> In e (c_strs c);
    ji_pmap_in_strs : forall t s r k, In t (c_threads c) -> t_pc t = PMap s r k ->
                                      In (mkEntry r s k) (c_strs c);
    (* key -> string entries not yet in string -> key are exactly the half-inserted ones *)
    ji_half : forall e, In e (c_strs c) ->
                        In e (c_map c) \/
                        exists t, In t (c_threads c) /\ half_inserted t = Some (e_str e, e_key e);
    (* keys: those stored and those drawn-but-not-stored are pairwise different and together
       are exactly the counter values below the capacity drawn so far *)
    ji_keys_nodup : NoDup (keys_of (c_strs c) ++ drawn_keys c);
    ji_keys_range : forall k, In k (keys_of (c_strs c) ++ drawn_keys c) <->
                              k < N.min (c_key c) keycap;
    (* history: every completed call that answered a key did so for a string that BOTH maps
       hold under that key (and will hold for ever: entries are never removed or replaced) *)
    ji_answers : forall t cl k, In t (c_threads c) -> In (cl, ROk k) (t_outs t) ->
                                exists s, (cl = CIntern s \/ (exists a, cl = CInternStatic a s) \/ cl = CGet s) /\
                                          exists e, In e (c_map c) /\ e_key e = k /\ e_str e = s
  }.

  Definition CInv (c : cstate) : Prop := AInv c /\ JInv c.
End Inv.
