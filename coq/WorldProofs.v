(* WorldProofs.v — the capstone: theorems about [step] / [run], the small-step function of the
   whole world (slots holding interners and views), for EVERY history of operations.

     1. step_inv / run_inv / never_faults   every object of every reachable world satisfies its
                                            invariant; no operation ever faults
     2. step_extends / run_extends /        C01: a key resolves to its string for ever, until the
        step_try_resolve / C01_roundtrip    object is cleared, overwritten or dropped
     3. step_get / step_len / ...           C02: the answers are functions of the abstract content
     4. step_intern_err / step_intern_ok    C07: a failed intern leaves the content untouched
     5. step_frame                          C12: an operation only touches the slots it targets *)
From Lasso Require Import Base Arena ArenaProofs Rodeo RodeoInv RodeoProofs ThreadedInv
  CloneSerdeProofs ThreadedProofs IterEqProofs.

#[local] Arguments DOk {A} a.
#[local] Arguments DErr {A}.
#[local] Arguments DPanic {A}.

(* ---------- slots of a world: generic list facts ---------- *)

Lemma nth_set_nth_same {A} (l : list A) n x d : (n < length l)%nat -> nth n (set_nth n x l) d = x.
Proof.
  revert n; induction l as [|y l IH]; intros [|n] H; simpl in *; try lia; auto.
  apply IH. lia.
Qed.

Lemma nth_set_nth_other {A} (l : list A) n m x d : n <> m -> nth m (set_nth n x l) d = nth m l d.
Proof.
  revert n m; induction l as [|y l IH]; intros [|n] [|m] H; simpl; auto; congruence.
Qed.

Lemma Forall_set_nth {A} (P : A -> Prop) l n x : Forall P l -> P x -> Forall P (set_nth n x l).
Proof.
  intros Hl Hx. revert n; induction Hl as [|y l Hy Hl IH]; intros [|n]; simpl; auto.
Qed.

Lemma all_some_map_total {A B} (f : A -> option B) l :
  (forall x, In x l -> f x <> None) -> exists r, all_some (map f l) = Some r.
Proof.
  induction l as [|x l IH]; intros H; cbn [map all_some]; [eauto|].
  destruct (f x) as [y|] eqn:E; [|exfalso; apply (H x); [now left|exact E]].
  destruct IH as (r & Hr); [intros z Hz; apply H; now right|]. rewrite Hr. eauto.
Qed.

Lemma ins_sort_in (l : list (N * sref)) x : In x (insertion_sort_keys l) -> In x l.
Proof.
  unfold insertion_sort_keys. induction l as [|e l IH]; cbn [fold_right]; [auto|].
  match goal with |- In x (?F ?ACC) -> _ => set (acc := ACC) in *; set (ins := F) end.
  assert (Hins : forall a, In x (ins a) -> x = e \/ In x a).
  { induction a as [|y a IHa]; unfold ins; simpl.
    - intros [H|[]]; auto.
    - destruct (fst e <=? fst y); simpl.
      + intros [H|[H|H]]; auto.
      + intros [H|H]; auto. fold ins in H. apply IHa in H. tauto. }
  intros H. apply Hins in H. destruct H as [->|H]; [now left|right; auto].
Qed.

Lemma get_set_same w i x : (i < length w)%nat -> get_obj (set_obj w i x) i = x.
Proof. apply nth_set_nth_same. Qed.

Lemma get_set_other w i j x : i <> j -> get_obj (set_obj w j x) i = get_obj w i.
Proof. intros H. apply nth_set_nth_other. congruence. Qed.

Lemma get_app_l w x i : (i < length w)%nat -> get_obj (w ++ [x]) i = get_obj w i.
Proof. intros H. unfold get_obj. now apply app_nth1. Qed.

Lemma get_app_new w x : get_obj (w ++ [x]) (length w) = x.
Proof. unfold get_obj. rewrite app_nth2, Nat.sub_diag by lia. reflexivity. Qed.

Lemma get_obj_oob w i : (length w <= i)%nat -> get_obj w i = ODead.
Proof. intros H. unfold get_obj. now apply nth_overflow. Qed.

Lemma get_obj_lt w i : get_obj w i <> ODead -> (i < length w)%nat.
Proof.
  intros H. destruct (Nat.lt_ge_cases i (length w)) as [Hlt|Hge]; [exact Hlt|].
  exfalso. apply H. now apply get_obj_oob.
Qed.

Lemma get_obj_in w i : (i < length w)%nat -> In (get_obj w i) w.
Proof. intros H. unfold get_obj. now apply nth_In. Qed.

Lemma index_of_app_l s cs added k : index_of s cs = Some k -> index_of s (cs ++ added) = Some k.
Proof.
  revert k; induction cs as [|x cs IH]; intros k H; simpl in *; [discriminate|].
  destruct (str_eqb s x); [exact H|].
  destruct (index_of s cs) as [j|]; [|discriminate]. rewrite (IH j eq_refl). exact H.
Qed.

Section World.
  Variable hash : str -> N.
  Variable cand : N -> N -> bool.
  Variable growf : N -> bool.
  Variable keycap : N.
  Hypothesis cand_refl : forall h, cand h h = true.

  Notation RodeoInv := (RodeoInv hash keycap).
  Notation TInv := (TInv keycap).
  Notation step := (step hash cand growf keycap).
  Notation run := (run hash cand growf keycap).
  Notation intern := (intern hash cand growf keycap).
  Notation intern_static := (intern_static hash cand growf keycap).
  Notation t_intern := (t_intern keycap).
  Notation t_intern_static := (t_intern_static keycap).
  Notation r_get := (r_get hash cand).
  Notation r_extend := (r_extend hash cand growf keycap).
  Notation t_extend := (t_extend keycap).
  Notation r_clone := (r_clone hash cand growf keycap).
  Notation r_clone_from := (r_clone_from hash cand growf keycap).
  Notation de_rodeo := (de_rodeo hash cand growf keycap).
  Notation t_into_reader := (t_into_reader hash cand growf).
  Notation eq_obj := (eq_obj keycap).

  (* ================= the invariant of one object, of a world ================= *)

  (* [cs] is the abstract content of the object: cs[k] is the string of key k *)
  Definition obj_inv (o : obj) (cs : list str) : Prop :=
    match o with
    | ORodeo r | OReader r => RodeoInv r cs
    | OThreaded t => TInv t cs
    | OResolver strs a => ArenaInv a /\ strs_wf strs a cs
    | ODead => cs = []
    end.

  Definition WInv (w : world) : Prop := Forall (fun o => exists cs, obj_inv o cs) w.

  (* what the runner establishes before it calls the model: the parser hands over a map without
     repeated strings, the key deserialiser only produces keys of the key type; the byte
     capacity of a constructor is a NonZeroUsize *)
  Definition op_wf (o : op) : Prop :=
    match o with
    | De KThreaded (DMap l) => NoDup (map fst l) /\ (forall s k, In (s, k) l -> k < keycap)
    | NewRodeo cap _ | NewThreaded cap _ => 0 < cap
    | _ => True
    end.

  (* the slots an operation may modify (new slots are appended, see [step_shape]) *)
  Definition targets (o : op) : list nat :=
    match o with
    | Intern i _ | InternStatic i _ _ | InternP i _ | InternStaticP i _ _
    | Clear i | SetLimit i _ | CloneFrom i _ | Drop i | IntoReader i | IntoResolver i
    | Extend i _ => [i]
    | _ => []
    end.

  (* the operations that end the life of the content of slot i *)
  Definition resets (o : op) (i : nat) : Prop :=
    match o with
    | Clear j | CloneFrom j _ | Drop j => i = j
    | _ => False
    end.

  Lemma resets_targets o i : resets o i -> In i (targets o).
  Proof. destruct o; cbn [resets targets]; intros H; try contradiction; now left. Qed.

  Lemma WInv_nil : WInv [].
  Proof. constructor. Qed.

  Lemma WInv_get w i : WInv w -> exists cs, obj_inv (get_obj w i) cs.
  Proof.
    intros HW. destruct (Nat.lt_ge_cases i (length w)) as [Hlt|Hge].
    - unfold WInv in HW. rewrite Forall_forall in HW. apply HW. now apply get_obj_in.
    - rewrite get_obj_oob by exact Hge. exists []. reflexivity.
  Qed.

  Lemma WInv_set w i x cs : WInv w -> obj_inv x cs -> WInv (set_obj w i x).
  Proof. intros HW Hx. apply Forall_set_nth; eauto. Qed.

  Lemma WInv_app w x cs : WInv w -> obj_inv x cs -> WInv (w ++ [x]).
  Proof. intros HW Hx. apply Forall_app. split; [exact HW|]. constructor; eauto. Qed.

  Lemma obj_inv_dead cs : obj_inv ODead cs -> cs = [].
  Proof. auto. Qed.

  (* the string table of a list-shaped object reads as its content *)
  Lemma obj_inv_contents x cs strs a :
    obj_inv x cs -> obj_strs x = Some (strs, a) -> contents strs a = Some cs.
  Proof.
    destruct x as [r|t|r|strs0 a0|]; cbn [obj_inv obj_strs]; intros H E; inversion E; subst.
    - destruct H as (_ & (_ & _ & Hc & _) & _); exact Hc.
    - destruct H as (_ & (_ & _ & Hc & _) & _); exact Hc.
    - destruct H as (_ & (_ & _ & Hc)); exact Hc.
  Qed.

  (* ================= object-level extension lemmas ================= *)

  Lemma intern_ext r cs s r' R :
    RodeoInv r cs -> intern r s = (r', R) -> exists added, RodeoInv r' (cs ++ added).
  Proof.
    intros Hinv Hi.
    destruct (intern_spec hash cand growf keycap cand_refl _ _ _ _ _ Hinv Hi)
      as [k _ -> _| _ _ -> _| _ _ -> _ _ _| ref _ _ _ H _ _].
    - exists []. now rewrite app_nil_r.
    - exists []. now rewrite app_nil_r.
    - exists []. now rewrite app_nil_r.
    - exists [s]. exact H.
  Qed.

  Lemma intern_static_ext r cs addr s r' R :
    RodeoInv r cs -> intern_static r addr s = (r', R) -> exists added, RodeoInv r' (cs ++ added).
  Proof.
    intros Hinv Hi.
    destruct (intern_static_spec hash cand growf keycap cand_refl _ _ _ _ _ _ Hinv Hi)
      as [k _ -> _| _ _ -> _| _ _ _ H _ _].
    - exists []. now rewrite app_nil_r.
    - exists []. now rewrite app_nil_r.
    - exists [s]. exact H.
  Qed.

  Lemma t_intern_ext t cs s t' R :
    TInv t cs -> t_intern t s = (t', R) -> exists added, TInv t' (cs ++ added).
  Proof.
    intros Hinv Hi.
    destruct (t_intern_inv _ _ _ _ _ _ Hinv Hi) as [(H & _)|(H & _)].
    - exists []. now rewrite app_nil_r.
    - exists [s]. exact H.
  Qed.

  Lemma t_intern_static_ext t cs addr s t' R :
    TInv t cs -> t_intern_static t addr s = (t', R) -> exists added, TInv t' (cs ++ added).
  Proof.
    intros Hinv Hi.
    destruct (t_intern_static_inv _ _ _ _ _ _ _ Hinv Hi) as [(H & _)|(H & _)].
    - exists []. now rewrite app_nil_r.
    - exists [s]. exact H.
  Qed.

  Lemma r_extend_ext r cs l r' ok :
    RodeoInv r cs -> r_extend r l = (r', ok) -> exists added, RodeoInv r' (cs ++ added).
  Proof.
    intros Hinv He.
    destruct (r_extend_spec hash cand growf keycap cand_refl _ _ _ _ _ Hinv He)
      as (cs' & H & (added & ->) & _).
    exists added. exact H.
  Qed.

  (* Extend / FromIter on a ThreadedRodeo: the content only grows, whether or not the loop
     completes *)
  Lemma t_extend_ext l : forall t cs t' ok,
    TInv t cs -> t_extend t l = (t', ok) -> exists added, TInv t' (cs ++ added).
  Proof.
    induction l as [|s l IH]; intros t cs t' ok Hinv He; cbn [Rodeo.t_extend] in He.
    - inversion He; subst. exists []. now rewrite app_nil_r.
    - destruct (t_intern t s) as [t1 R] eqn:Ei.
      destruct (t_intern_ext _ _ _ _ _ Hinv Ei) as (a1 & H1).
      destruct R as [k|e].
      + destruct (IH _ _ _ _ H1 He) as (a2 & H2). exists (a1 ++ a2).
        now rewrite app_assoc.
      + inversion He; subst. eauto.
  Qed.

  (* the key-ordered listing of a ThreadedRodeo (iteration, serialisation) never dangles *)
  Lemma t_pairs_some t cs : TInv t cs -> exists ps, obj_pairs (OThreaded t) = Some ps.
  Proof.
    intros (Ha & refs & (_ & _ & Hc & _) & _ & Hts & _). cbn [obj_pairs].
    apply all_some_map_total. intros (k & r) Hin. cbn [fst snd].
    apply ins_sort_in in Hin. apply Hts in Hin.
    destruct (read_refs _ _ _ _ _ Hc Hin) as (Hrd & Hlt). rewrite Hrd.
    destruct (nth_error cs (N.to_nat k)) eqn:En; [discriminate|].
    apply nth_error_None in En. lia.
  Qed.

  Lemma rodeo_as_resolver r cs : RodeoInv r cs -> obj_inv (OResolver (rstrs r) (rar r)) cs.
  Proof.
    intros (Ha & (H1 & H2 & H3 & _) & _). cbn [obj_inv]. split; [exact Ha|].
    split; [exact H1|]. split; [exact H2|exact H3].
  Qed.

  (* ================= the shape of one step ================= *)

  Inductive step_shape (w : world) (o : op) (w' : world) : Prop :=
  | sh_same : w' = w -> step_shape w o w'
  | sh_new x cs : w' = w ++ [x] -> obj_inv x cs -> step_shape w o w'
  | sh_set i x' :
      w' = set_obj w i x' -> (i < length w)%nat -> In i (targets o) ->
      (forall cs, obj_inv (get_obj w i) cs -> exists added, obj_inv x' (cs ++ added)) ->
      step_shape w o w'
  | sh_reset i x' cs' :
      w' = set_obj w i x' -> (i < length w)%nat -> resets o i -> obj_inv x' cs' ->
      step_shape w o w'.

  Ltac nofault :=
    cbn [fst snd]; unfold out_of_res, out_of_resP, out_of_opt_key, out_of_opt_str;
    repeat match goal with |- context [match ?X with _ => _ end] => destruct X end;
    discriminate.

  Ltac same := cbn [fst snd]; split; [apply sh_same; reflexivity | nofault].

  Ltac slot w i HW cs Hcs E Hlt :=
    destruct (WInv_get w i HW) as (cs & Hcs);
    pose proof (get_obj_lt w i) as Hlt;
    destruct (get_obj w i) as [?r|?t|?r|?strs ?a|] eqn:E;
    cbn [obj_inv obj_strs] in *;
    try (assert (Hlt' : (i < length w)%nat) by (apply Hlt; discriminate); clear Hlt;
         rename Hlt' into Hlt).

  Theorem step_sem w o :
    WInv w -> op_wf o ->
    step_shape w o (fst (step w o)) /\ snd (step w o) <> OFault.
  Proof.
    intros HW Hwf.
    destruct o as [i s|i addr s|i s|i addr s|i s|i s|i k|i k|i k|i|i|i plan|i plan|i|i m|i|i|i
                  |i j|i|i|i|i|k d|i j|th l|i l|cap lim|cap lim]; cbn [Rodeo.step].
    - (* Intern *)
      slot w i HW cs Hcs E Hlt; try same.
      + destruct (intern r s) as [r' R] eqn:Ei. cbn [fst snd]. split; [|nofault].
        eapply sh_set; [reflexivity|exact Hlt|now left|]. rewrite E. cbn [obj_inv].
        intros cs0 H0. eapply intern_ext; eauto.
      + destruct (t_intern t s) as [t' R] eqn:Ei. cbn [fst snd]. split; [|nofault].
        eapply sh_set; [reflexivity|exact Hlt|now left|]. rewrite E. cbn [obj_inv].
        intros cs0 H0. eapply t_intern_ext; eauto.
    - (* InternStatic *)
      slot w i HW cs Hcs E Hlt; try same.
      + destruct (intern_static r addr s) as [r' R] eqn:Ei. cbn [fst snd]. split; [|nofault].
        eapply sh_set; [reflexivity|exact Hlt|now left|]. rewrite E. cbn [obj_inv].
        intros cs0 H0. eapply intern_static_ext; eauto.
      + destruct (t_intern_static t addr s) as [t' R] eqn:Ei. cbn [fst snd]. split; [|nofault].
        eapply sh_set; [reflexivity|exact Hlt|now left|]. rewrite E. cbn [obj_inv].
        intros cs0 H0. eapply t_intern_static_ext; eauto.
    - (* InternP *)
      slot w i HW cs Hcs E Hlt; try same.
      + destruct (intern r s) as [r' R] eqn:Ei. cbn [fst snd]. split; [|nofault].
        eapply sh_set; [reflexivity|exact Hlt|now left|]. rewrite E. cbn [obj_inv].
        intros cs0 H0. eapply intern_ext; eauto.
      + destruct (t_intern t s) as [t' R] eqn:Ei. cbn [fst snd]. split; [|nofault].
        eapply sh_set; [reflexivity|exact Hlt|now left|]. rewrite E. cbn [obj_inv].
        intros cs0 H0. eapply t_intern_ext; eauto.
    - (* InternStaticP *)
      slot w i HW cs Hcs E Hlt; try same.
      + destruct (intern_static r addr s) as [r' R] eqn:Ei. cbn [fst snd]. split; [|nofault].
        eapply sh_set; [reflexivity|exact Hlt|now left|]. rewrite E. cbn [obj_inv].
        intros cs0 H0. eapply intern_static_ext; eauto.
      + destruct (t_intern_static t addr s) as [t' R] eqn:Ei. cbn [fst snd]. split; [|nofault].
        eapply sh_set; [reflexivity|exact Hlt|now left|]. rewrite E. cbn [obj_inv].
        intros cs0 H0. eapply t_intern_static_ext; eauto.
    - (* Get *) destruct (get_obj w i); same.
    - (* Contains *) destruct (get_obj w i); same.
    - (* Resolve *) destruct (get_obj w i); cbn [obj_strs]; same.
    - (* TryResolve *) destruct (get_obj w i); cbn [obj_strs]; same.
    - (* ContainsKey *) destruct (get_obj w i); cbn [obj_strs]; same.
    - (* Len *) destruct (get_obj w i); cbn [obj_strs]; same.
    - (* IsEmpty *) destruct (get_obj w i); cbn [obj_strs]; same.
    - (* IterOp *)
      slot w i HW cs Hcs E Hlt; try same.
      destruct (t_pairs_some _ _ Hcs) as (ps & Hps). rewrite Hps. same.
    - (* StringsOp *)
      slot w i HW cs Hcs E Hlt; try same.
      destruct (t_pairs_some _ _ Hcs) as (ps & Hps). rewrite Hps. same.
    - (* Clear *)
      slot w i HW cs Hcs E Hlt; try same.
      cbn [fst snd]. split; [|discriminate].
      eapply sh_reset with (cs' := []); [reflexivity|exact Hlt|reflexivity|].
      cbn [obj_inv]. eapply r_clear_inv; eauto.
    - (* SetLimit *)
      slot w i HW cs Hcs E Hlt; try same.
      + cbn [fst snd]. split; [|discriminate].
        eapply sh_set; [reflexivity|exact Hlt|now left|]. rewrite E. cbn [obj_inv].
        intros cs0 H0. exists []. rewrite app_nil_r. now apply r_set_limit_inv.
      + cbn [fst snd]. split; [|discriminate].
        eapply sh_set; [reflexivity|exact Hlt|now left|]. rewrite E. cbn [obj_inv].
        intros cs0 H0. exists []. rewrite app_nil_r. now apply t_set_limit_inv.
    - (* CurMem *) destruct (get_obj w i); same.
    - (* MaxMem *) destruct (get_obj w i); same.
    - (* Clone *)
      slot w i HW cs Hcs E Hlt; try same.
      destruct (r_clone_spec hash cand growf keycap _ _ Hcs) as (r' & Hcl & Hinv' & _).
      rewrite Hcl. cbn [new_slot fst snd]. split; [|discriminate].
      eapply sh_new with (cs := cs); [reflexivity|exact Hinv'].
    - (* CloneFrom *)
      slot w i HW cs Hcs E Hlt; try same.
      destruct (WInv_get w j HW) as (csj & Hj).
      destruct (get_obj w j) as [rj|tj|rj|sj aj|] eqn:Ej; try same.
      cbn [obj_inv] in Hj. destruct (Nat.eqb i j); [same|].
      destruct (r_clone_from_spec hash cand growf keycap _ _ _ _ Hcs Hj)
        as (r' & c & Hcl & _ & Hres).
      rewrite Hcl.
      destruct Hres as [(-> & H)|(-> & done & rest & _ & _ & H)]; cbn [fst snd];
        (split; [|discriminate]).
      + eapply sh_reset with (cs' := csj); [reflexivity|exact Hlt|reflexivity|exact H].
      + eapply sh_reset with (cs' := done); [reflexivity|exact Hlt|reflexivity|exact H].
    - (* Drop *)
      slot w i HW cs Hcs E Hlt; try same;
        (cbn [fst snd]; split; [|discriminate];
         eapply sh_reset with (cs' := []); [reflexivity|exact Hlt|reflexivity|reflexivity]).
    - (* IntoReader *)
      slot w i HW cs Hcs E Hlt; try same.
      + cbn [fst snd]. split; [|discriminate].
        eapply sh_set; [reflexivity|exact Hlt|now left|]. rewrite E. cbn [obj_inv].
        intros cs0 H0. exists []. now rewrite app_nil_r.
      + destruct (t_into_reader_inv hash cand growf keycap _ _ Hcs) as (r & Hr & _).
        rewrite Hr. cbn [fst snd]. split; [|discriminate].
        eapply sh_set; [reflexivity|exact Hlt|now left|]. rewrite E. cbn [obj_inv].
        intros cs0 H0.
        destruct (t_into_reader_inv hash cand growf keycap _ _ H0) as (r0 & Hr0 & Hinv0 & _).
        rewrite Hr in Hr0. inversion Hr0; subst r0. exists []. now rewrite app_nil_r.
    - (* IntoResolver *)
      slot w i HW cs Hcs E Hlt; try same.
      + cbn [fst snd]. split; [|discriminate].
        eapply sh_set; [reflexivity|exact Hlt|now left|]. rewrite E. cbn [obj_inv].
        intros cs0 H0. exists []. rewrite app_nil_r. now apply rodeo_as_resolver.
      + destruct (t_strings_inv _ _ _ Hcs) as (refs & Hr & _).
        rewrite Hr. cbn [fst snd]. split; [|discriminate].
        eapply sh_set; [reflexivity|exact Hlt|now left|]. rewrite E. cbn [obj_inv].
        intros cs0 H0.
        destruct (t_strings_inv _ _ _ H0) as (refs0 & Hr0 & (H1 & H2 & H3 & _)).
        rewrite Hr in Hr0. inversion Hr0; subst refs0. exists []. rewrite app_nil_r.
        split; [destruct H0 as (Ha & _); exact Ha|]. split; [exact H1|]. split; [exact H2|exact H3].
      + cbn [fst snd]. split; [|discriminate].
        eapply sh_set; [reflexivity|exact Hlt|now left|]. rewrite E. cbn [obj_inv].
        intros cs0 H0. exists []. rewrite app_nil_r. now apply rodeo_as_resolver.
    - (* Ser *)
      slot w i HW cs Hcs E Hlt; try same.
      + rewrite (obj_pairs_enumerate (ORodeo r) _ _ cs eq_refl
                   (obj_inv_contents (ORodeo r) _ _ _ Hcs eq_refl)). same.
      + destruct (t_pairs_some _ _ Hcs) as (ps & Hps). rewrite Hps. same.
      + rewrite (obj_pairs_enumerate (OReader r) _ _ cs eq_refl
                   (obj_inv_contents (OReader r) _ _ _ Hcs eq_refl)). same.
      + rewrite (obj_pairs_enumerate (OResolver strs a) _ _ cs eq_refl
                   (obj_inv_contents (OResolver strs a) _ _ _ Hcs eq_refl)). same.
    - (* De *)
      destruct k, d as [l|l]; try same.
      + pose proof (de_rodeo_spec hash cand growf keycap cand_refl l) as Hs.
        destruct (de_rodeo l) as [r| |]; try same.
        destruct Hs as (Hinv & _). cbn [new_slot fst snd]. split; [|discriminate].
        eapply sh_new with (cs := l); [reflexivity|exact Hinv].
      + cbn [op_wf] in Hwf. destruct Hwf as (Hnd & Hk).
        destruct (de_threaded_spec keycap l Hnd Hk) as (Herr & Hok & _).
        destruct (de_threaded l) as [t| |] eqn:Ed; try same.
        destruct (keys_dense l (repeat false (length l))) eqn:Ekd.
        * destruct (Hok eq_refl) as (t0 & cs & Ht0 & Hinv & _). inversion Ht0; subst t0.
          cbn [new_slot fst snd]. split; [|discriminate].
          eapply sh_new with (cs := cs); [reflexivity|exact Hinv].
        * assert (Hx : DOk t = DErr) by (now apply Herr). discriminate.
      + pose proof (de_rodeo_spec hash cand growf keycap cand_refl l) as Hs.
        destruct (de_rodeo l) as [r| |]; try same.
        destruct Hs as (Hinv & _). cbn [new_slot fst snd]. split; [|discriminate].
        eapply sh_new with (cs := l); [reflexivity|exact Hinv].
      + destruct (de_resolver_spec l) as (strs & a & Hd & Ha & H1 & H2 & H3 & _).
        rewrite Hd. cbn [new_slot fst snd]. split; [|discriminate].
        eapply sh_new with (cs := l); [reflexivity|].
        cbn [obj_inv]. split; [exact Ha|]. split; [exact H1|]. split; [exact H2|exact H3].
    - (* EqOp *) destruct (eq_obj (get_obj w i) (get_obj w j)); same.
    - (* FromIter *)
      destruct th.
      + destruct (t_extend (trodeo_new default_bytes usize_max) l) as [t ok] eqn:Ee.
        destruct ok; [|same].
        assert (H0 : TInv (trodeo_new default_bytes usize_max) []).
        { apply trodeo_new_inv. unfold default_bytes. lia. }
        destruct (t_extend_ext _ _ _ _ _ H0 Ee) as (added & H).
        cbn [new_slot fst snd]. split; [|discriminate].
        eapply sh_new; [reflexivity|exact H].
      + destruct (r_extend (rodeo_new default_bytes usize_max) l) as [r ok] eqn:Ee.
        destruct ok; [|same].
        assert (H0 : RodeoInv (rodeo_new default_bytes usize_max) []).
        { apply rodeo_new_inv. unfold default_bytes. lia. }
        destruct (r_extend_ext _ _ _ _ _ H0 Ee) as (added & H).
        cbn [new_slot fst snd]. split; [|discriminate].
        eapply sh_new; [reflexivity|exact H].
    - (* Extend *)
      slot w i HW cs Hcs E Hlt; try same.
      + destruct (r_extend r l) as [r' ok] eqn:Ee. cbn [fst snd]. split; [|nofault].
        eapply sh_set; [reflexivity|exact Hlt|now left|]. rewrite E. cbn [obj_inv].
        intros cs0 H0. eapply r_extend_ext; eauto.
      + destruct (t_extend t l) as [t' ok] eqn:Ee. cbn [fst snd]. split; [|nofault].
        eapply sh_set; [reflexivity|exact Hlt|now left|]. rewrite E. cbn [obj_inv].
        intros cs0 H0. eapply t_extend_ext; eauto.
    - (* NewRodeo *)
      cbn [op_wf] in Hwf. destruct (isize_max <? cap); [same|].
      cbn [new_slot fst snd]. split; [|discriminate].
      eapply sh_new with (cs := []); [reflexivity|]. cbn [obj_inv]. now apply rodeo_new_inv.
    - (* NewThreaded *)
      cbn [op_wf] in Hwf. destruct (lf_cap_max <? cap); [same|].
      cbn [new_slot fst snd]. split; [|discriminate].
      eapply sh_new with (cs := []); [reflexivity|]. cbn [obj_inv]. now apply trodeo_new_inv.
  Qed.


  (* ================= 1. every reachable world satisfies the invariant ================= *)

  Theorem step_inv w o : WInv w -> op_wf o -> WInv (fst (step w o)).
  Proof.
    intros HW Hwf. destruct (step_sem w o HW Hwf) as (Hsh & _).
    destruct Hsh as [Heq|x cs Heq Hx|i x' Heq Hlt _ Hext|i x' cs' Heq _ _ Hx]; rewrite Heq.
    - exact HW.
    - eapply WInv_app; eauto.
    - destruct (WInv_get w i HW) as (cs & Hcs). destruct (Hext _ Hcs) as (added & H).
      eapply WInv_set; eauto.
    - eapply WInv_set; eauto.
  Qed.

  Theorem never_faults w o : WInv w -> op_wf o -> snd (step w o) <> OFault.
  Proof. intros HW Hwf. exact (proj2 (step_sem w o HW Hwf)). Qed.

  Lemma run_cons_fst w o ops : fst (run w (o :: ops)) = fst (run (fst (step w o)) ops).
  Proof.
    cbn [Rodeo.run]. destruct (step w o) as [w' x]. cbn [fst].
    destruct (run w' ops). reflexivity.
  Qed.

  Lemma run_cons_snd w o ops :
    snd (run w (o :: ops)) = snd (step w o) :: snd (run (fst (step w o)) ops).
  Proof.
    cbn [Rodeo.run]. destruct (step w o) as [w' x]. cbn [fst snd].
    destruct (run w' ops). reflexivity.
  Qed.

  Theorem run_inv ops : forall w, WInv w -> Forall op_wf ops -> WInv (fst (run w ops)).
  Proof.
    induction ops as [|o ops IH]; intros w HW Hwf.
    - exact HW.
    - inversion Hwf; subst. rewrite run_cons_fst. apply IH; [|assumption]. now apply step_inv.
  Qed.

  Corollary run_inv_nil ops : Forall op_wf ops -> WInv (fst (run [] ops)).
  Proof. apply run_inv. exact WInv_nil. Qed.

  (* no operation of any history faults (reads dangling memory / writes out of bounds) *)
  Theorem run_never_faults ops : forall w,
    WInv w -> Forall op_wf ops -> Forall (fun x => x <> OFault) (snd (run w ops)).
  Proof.
    induction ops as [|o ops IH]; intros w HW Hwf.
    - constructor.
    - inversion Hwf; subst. rewrite run_cons_snd. constructor.
      + now apply never_faults.
      + apply IH; [|assumption]. now apply step_inv.
  Qed.

  Corollary run_never_faults_nil ops :
    Forall op_wf ops -> Forall (fun x => x <> OFault) (snd (run [] ops)).
  Proof. apply run_never_faults. exact WInv_nil. Qed.

  (* ================= 2. C01: content only grows ================= *)

  Theorem step_extends w o i cs :
    WInv w -> op_wf o -> obj_inv (get_obj w i) cs -> ~ resets o i ->
    exists added, obj_inv (get_obj (fst (step w o)) i) (cs ++ added).
  Proof.
    intros HW Hwf Hi Hnr. destruct (step_sem w o HW Hwf) as (Hsh & _).
    destruct Hsh as [Heq|x cx Heq Hx|j x' Heq Hlt _ Hext|j x' cs' Heq Hlt Hr Hx]; rewrite Heq.
    - exists []. now rewrite app_nil_r.
    - destruct (Nat.lt_ge_cases i (length w)) as [Hl|Hg].
      + rewrite get_app_l by exact Hl. exists []. now rewrite app_nil_r.
      + rewrite get_obj_oob in Hi by exact Hg. cbn [obj_inv] in Hi. subst cs. cbn [app].
        destruct (Nat.eq_dec i (length w)) as [->|Hne].
        * rewrite get_app_new. eauto.
        * rewrite get_obj_oob; [exists []; reflexivity|]. rewrite app_length. simpl. lia.
    - destruct (Nat.eq_dec i j) as [->|Hne].
      + rewrite get_set_same by exact Hlt. apply Hext. exact Hi.
      + rewrite get_set_other by exact Hne. exists []. now rewrite app_nil_r.
    - destruct (Nat.eq_dec i j) as [->|Hne]; [contradiction|].
      rewrite get_set_other by exact Hne. exists []. now rewrite app_nil_r.
  Qed.

  Theorem run_extends ops : forall w i cs,
    WInv w -> Forall op_wf ops -> obj_inv (get_obj w i) cs ->
    (forall o, In o ops -> ~ resets o i) ->
    exists added, obj_inv (get_obj (fst (run w ops)) i) (cs ++ added).
  Proof.
    induction ops as [|o ops IH]; intros w i cs HW Hwf Hi Hnr.
    - exists []. now rewrite app_nil_r.
    - inversion Hwf; subst. rewrite run_cons_fst.
      destruct (step_extends w o i cs HW H1 Hi) as (a1 & H1'); [apply Hnr; now left|].
      destruct (IH (fst (step w o)) i (cs ++ a1)) as (a2 & H2'); auto.
      + now apply step_inv.
      + intros o' Ho'. apply Hnr. now right.
      + exists (a1 ++ a2). now rewrite app_assoc.
  Qed.

  (* what the abstract content answers to a key *)
  Definition abs_resolve (cs : list str) (k : N) : option str :=
    if k <? N.of_nat (length cs) then nth_error cs (N.to_nat k) else None.

  Lemma abs_resolve_nth cs k : abs_resolve cs k = nth_error cs (N.to_nat k).
  Proof.
    unfold abs_resolve. destruct (k <? N.of_nat (length cs)) eqn:E; [reflexivity|].
    apply N.ltb_ge in E. symmetry. apply nth_error_None. lia.
  Qed.

  Lemma resolve_list x cs strs a k :
    obj_inv x cs -> obj_strs x = Some (strs, a) -> strs_resolve strs a k = abs_resolve cs k.
  Proof.
    intros H E. apply strs_resolve_spec. eapply obj_inv_contents; eauto.
  Qed.

  Theorem step_try_resolve w i k cs :
    obj_inv (get_obj w i) cs -> get_obj w i <> ODead ->
    step w (TryResolve i k) =
    (w, match abs_resolve cs k with Some s => OStr s | None => ONone end).
  Proof.
    intros H Hnd. cbn [Rodeo.step].
    destruct (get_obj w i) as [r|t|r|strs a|] eqn:E; [| | | |congruence]; cbn [obj_strs].
    - rewrite (resolve_list (ORodeo r) cs _ _ k H eq_refl). reflexivity.
    - cbn [obj_inv] in H. rewrite (t_resolve_inv _ _ _ k H), abs_resolve_nth. reflexivity.
    - rewrite (resolve_list (OReader r) cs _ _ k H eq_refl). reflexivity.
    - rewrite (resolve_list (OResolver strs a) cs _ _ k H eq_refl). reflexivity.
  Qed.

  Theorem step_resolve w i k cs :
    obj_inv (get_obj w i) cs -> get_obj w i <> ODead ->
    step w (Resolve i k) =
    (w, match abs_resolve cs k with Some s => OStr s | None => OPanic end).
  Proof.
    intros H Hnd. cbn [Rodeo.step].
    destruct (get_obj w i) as [r|t|r|strs a|] eqn:E; [| | | |congruence]; cbn [obj_strs].
    - rewrite (resolve_list (ORodeo r) cs _ _ k H eq_refl). reflexivity.
    - cbn [obj_inv] in H. rewrite (t_resolve_inv _ _ _ k H), abs_resolve_nth. reflexivity.
    - rewrite (resolve_list (OReader r) cs _ _ k H eq_refl). reflexivity.
    - rewrite (resolve_list (OResolver strs a) cs _ _ k H eq_refl). reflexivity.
  Qed.

  Lemma abs_resolve_app cs added k s :
    nth_error cs (N.to_nat k) = Some s -> abs_resolve (cs ++ added) k = Some s.
  Proof.
    intros H. rewrite abs_resolve_nth.
    rewrite nth_error_app1; [exact H|]. apply nth_error_Some. congruence.
  Qed.

  (* C01, for every history: once key k of slot i resolves to s, it does so after any sequence
     of operations on any slots, as long as slot i itself is not cleared / overwritten by
     clone_from / dropped.  (Converting the object into a reader or resolver is allowed.) *)
  Theorem C01_roundtrip w ops i cs k s :
    WInv w -> Forall op_wf ops -> obj_inv (get_obj w i) cs -> get_obj w i <> ODead ->
    nth_error cs (N.to_nat k) = Some s -> k < N.of_nat (length cs) ->
    (forall o, In o ops -> ~ resets o i) ->
    let w' := fst (run w ops) in
    snd (step w' (TryResolve i k)) = OStr s /\ snd (step w' (Resolve i k)) = OStr s.
  Proof.
    intros HW Hwf Hi _ Hn _ Hnr w'.
    destruct (run_extends ops w i cs HW Hwf Hi Hnr) as (added & H). fold w' in H.
    assert (Hnd : get_obj w' i <> ODead).
    { intros Hd. rewrite Hd in H. cbn [obj_inv] in H.
      destruct cs; [destruct (N.to_nat k); discriminate|discriminate]. }
    rewrite (step_try_resolve w' i k _ H Hnd), (step_resolve w' i k _ H Hnd). cbn [snd].
    rewrite (abs_resolve_app cs added k s Hn). auto.
  Qed.

  (* ================= 3. C02: the answers are functions of the content ================= *)

  Definition is_interner (o : obj) : Prop :=
    match o with ORodeo _ | OReader _ | OThreaded _ => True | _ => False end.

  Theorem step_get w i s cs :
    obj_inv (get_obj w i) cs -> is_interner (get_obj w i) ->
    step w (Get i s) = (w, match index_of s cs with Some k => OKey k | None => ONone end).
  Proof.
    intros H Hk. cbn [Rodeo.step].
    destruct (get_obj w i) as [r|t|r|strs a|] eqn:E; cbn [is_interner obj_inv] in *;
      try contradiction.
    - rewrite (r_get_spec hash cand keycap cand_refl _ _ s H). reflexivity.
    - rewrite (t_get_inv _ _ _ s H). reflexivity.
    - rewrite (r_get_spec hash cand keycap cand_refl _ _ s H). reflexivity.
  Qed.

  (* C02 for every history: the key of a string never changes while the object lives as an
     interner or reader *)
  Theorem C02_get_stable w ops i cs s k :
    WInv w -> Forall op_wf ops -> obj_inv (get_obj w i) cs -> index_of s cs = Some k ->
    (forall o, In o ops -> ~ resets o i) ->
    let w' := fst (run w ops) in
    is_interner (get_obj w' i) -> snd (step w' (Get i s)) = OKey k.
  Proof.
    intros HW Hwf Hi Hix Hnr w' Hk.
    destruct (run_extends ops w i cs HW Hwf Hi Hnr) as (added & H). fold w' in H.
    rewrite (step_get w' i s _ H Hk). cbn [snd].
    rewrite (index_of_app_l s cs added k Hix). reflexivity.
  Qed.

  Theorem step_contains w i s cs :
    obj_inv (get_obj w i) cs -> is_interner (get_obj w i) ->
    step w (Contains i s) =
    (w, OBool (match index_of s cs with Some _ => true | None => false end)).
  Proof.
    intros H Hk. cbn [Rodeo.step].
    destruct (get_obj w i) as [r|t|r|strs a|] eqn:E; cbn [is_interner obj_inv] in *;
      try contradiction.
    - rewrite (r_get_spec hash cand keycap cand_refl _ _ s H). reflexivity.
    - rewrite (t_get_inv _ _ _ s H). reflexivity.
    - rewrite (r_get_spec hash cand keycap cand_refl _ _ s H). reflexivity.
  Qed.

  Lemma list_len x cs strs a :
    obj_inv x cs -> obj_strs x = Some (strs, a) -> length strs = length cs.
  Proof.
    intros H E. symmetry. eapply contents_length. eapply obj_inv_contents; eauto.
  Qed.

  Theorem step_len w i cs :
    obj_inv (get_obj w i) cs -> get_obj w i <> ODead ->
    step w (Len i) = (w, ONum (N.of_nat (length cs))).
  Proof.
    intros H Hnd. cbn [Rodeo.step].
    destruct (get_obj w i) as [r|t|r|strs a|] eqn:E; [| | | |congruence]; cbn [obj_strs].
    - rewrite (list_len (ORodeo r) cs _ _ H eq_refl). reflexivity.
    - cbn [obj_inv] in H. rewrite (t_len_inv _ _ _ H). reflexivity.
    - rewrite (list_len (OReader r) cs _ _ H eq_refl). reflexivity.
    - rewrite (list_len (OResolver strs a) cs _ _ H eq_refl). reflexivity.
  Qed.

  Theorem step_is_empty w i cs :
    obj_inv (get_obj w i) cs -> get_obj w i <> ODead ->
    step w (IsEmpty i) = (w, OBool (N.of_nat (length cs) =? 0)).
  Proof.
    intros H Hnd. cbn [Rodeo.step].
    destruct (get_obj w i) as [r|t|r|strs a|] eqn:E; [| | | |congruence]; cbn [obj_strs].
    - rewrite (list_len (ORodeo r) cs _ _ H eq_refl). reflexivity.
    - cbn [obj_inv] in H. rewrite (t_len_inv _ _ _ H). reflexivity.
    - rewrite (list_len (OReader r) cs _ _ H eq_refl). reflexivity.
    - rewrite (list_len (OResolver strs a) cs _ _ H eq_refl). reflexivity.
  Qed.

  Theorem step_contains_key w i k cs :
    obj_inv (get_obj w i) cs -> get_obj w i <> ODead ->
    step w (ContainsKey i k) = (w, OBool (k <? N.of_nat (length cs))).
  Proof.
    intros H Hnd. cbn [Rodeo.step].
    destruct (get_obj w i) as [r|t|r|strs a|] eqn:E; [| | | |congruence];
      cbn [obj_strs]; unfold strs_contains_key.
    - rewrite (list_len (ORodeo r) cs _ _ H eq_refl). reflexivity.
    - cbn [obj_inv] in H. destruct (t_ref_inv _ _ _ k H) as (refs & _ & _ & _ & Hiff).
      do 2 f_equal. destruct (t_ref t k) as [x|].
      + symmetry. apply N.ltb_lt. apply Hiff. discriminate.
      + symmetry. apply N.ltb_ge. apply N.le_ngt. intros Hlt. apply Hiff in Hlt. congruence.
    - rewrite (list_len (OReader r) cs _ _ H eq_refl). reflexivity.
    - rewrite (list_len (OResolver strs a) cs _ _ H eq_refl). reflexivity.
  Qed.

  (* the iterators of a list-shaped object behave as a double-ended queue over the enumerated
     content (IterEqProofs.deque_iter), in particular they yield no ItPanic item.  The one
     exception is the KEYED iterator of a resolver that holds more strings than the key type
     has keys (only a deserialised resolver can): hence the last hypothesis. *)
  Theorem step_iter w i plan cs :
    obj_inv (get_obj w i) cs -> get_obj w i <> ODead ->
    (forall t, get_obj w i <> OThreaded t) ->
    (forall strs a, get_obj w i = OResolver strs a -> N.of_nat (length cs) <= keycap) ->
    step w (IterOp i plan) = (w, OItems (deque_iter (enumerate cs) plan)).
  Proof.
    intros H Hnd Hnt Hres.
    destruct (get_obj w i) as [r|t|r|strs a|] eqn:E; [| | | |congruence].
    - eapply step_iter_list; [rewrite E; reflexivity| |].
      + eapply (obj_inv_contents (ORodeo r)); eauto; reflexivity.
      + destruct H as (_ & _ & _ & Hc). exact Hc.
    - exfalso. eapply Hnt. reflexivity.
    - eapply step_iter_list; [rewrite E; reflexivity| |].
      + eapply (obj_inv_contents (OReader r)); eauto; reflexivity.
      + destruct H as (_ & _ & _ & Hc). exact Hc.
    - eapply step_iter_list; [rewrite E; reflexivity| |].
      + eapply (obj_inv_contents (OResolver strs a)); eauto; reflexivity.
      + eapply Hres. reflexivity.
  Qed.

  Theorem step_strings w i plan cs :
    obj_inv (get_obj w i) cs -> get_obj w i <> ODead ->
    (forall t, get_obj w i <> OThreaded t) ->
    step w (StringsOp i plan) = (w, OItems (deque_iter (enumerate cs) plan)).
  Proof.
    intros H Hnd Hnt.
    destruct (get_obj w i) as [r|t|r|strs a|] eqn:E; [| | | |congruence].
    - eapply step_strings_list; [rewrite E; reflexivity|].
      eapply (obj_inv_contents (ORodeo r)); eauto; reflexivity.
    - exfalso. eapply Hnt. reflexivity.
    - eapply step_strings_list; [rewrite E; reflexivity|].
      eapply (obj_inv_contents (OReader r)); eauto; reflexivity.
    - eapply step_strings_list; [rewrite E; reflexivity|].
      eapply (obj_inv_contents (OResolver strs a)); eauto; reflexivity.
  Qed.

  (* ================= the only panics ================= *)

  (* why an operation may answer OPanic: a checked resolve of a key the object does not hold;
     the panicking flavours of intern when the fallible one reports an error; extend /
     from_iter when one of their interns fails; loading a list longer than the key space.
     Nothing else panics: in particular no clone, no conversion, no comparison, no iterator
     construction, no deserialisation of a map or into a resolver. *)
  Definition panic_cause (w : world) (o : op) : Prop :=
    match o with
    | Resolve i k => forall cs, obj_inv (get_obj w i) cs -> N.of_nat (length cs) <= k
    | InternP i s => exists e, snd (step w (Intern i s)) = OErr e
    | InternStaticP i addr s => exists e, snd (step w (InternStatic i addr s)) = OErr e
    | Extend i l =>
        match get_obj w i with
        | ORodeo r => snd (r_extend r l) = false
        | OThreaded t => snd (t_extend t l) = false
        | _ => False
        end
    | FromIter th l =>
        if th then snd (t_extend (trodeo_new default_bytes usize_max) l) = false
        else snd (r_extend (rodeo_new default_bytes usize_max) l) = false
    | De k (DList l) => (k = KRodeo \/ k = KReader) /\ keycap < N.of_nat (length l)
    | NewRodeo cap _ => isize_max < cap
    | NewThreaded cap _ => lf_cap_max < cap
    | _ => False
    end.

  Ltac nopanic :=
    let Hp := fresh "Hp" in
    intros Hp; exfalso; revert Hp; cbn [fst snd new_slot];
    unfold out_of_res, out_of_resP, out_of_opt_key, out_of_opt_str;
    repeat match goal with |- context [match ?X with _ => _ end] => destruct X end;
    cbn [fst snd new_slot]; discriminate.

  Lemma abs_resolve_none cs k : abs_resolve cs k = None -> N.of_nat (length cs) <= k.
  Proof.
    rewrite abs_resolve_nth. intros H. apply nth_error_None in H. lia.
  Qed.

  Theorem step_panic w o :
    WInv w -> op_wf o -> snd (step w o) = OPanic -> panic_cause w o.
  Proof.
    intros HW Hwf.
    destruct o as [i s|i addr s|i s|i addr s|i s|i s|i k|i k|i k|i|i|i plan|i plan|i|i m|i|i|i
                  |i j|i|i|i|i|k d|i j|th l|i l|cap lim|cap lim]; cbn [Rodeo.step];
      try nopanic.
    - (* InternP *)
      slot w i HW cs Hcs E Hlt; try nopanic.
      + destruct (intern r s) as [r' R] eqn:Ei. cbn [snd].
        destruct R as [k|e]; cbn [out_of_resP]; intros Hp; [discriminate|].
        cbn [panic_cause Rodeo.step]. rewrite E, Ei. cbn [snd out_of_res]. eauto.
      + destruct (t_intern t s) as [t' R] eqn:Ei. cbn [snd].
        destruct R as [k|e]; cbn [out_of_resP]; intros Hp; [discriminate|].
        cbn [panic_cause Rodeo.step]. rewrite E, Ei. cbn [snd out_of_res]. eauto.
    - (* InternStaticP *)
      slot w i HW cs Hcs E Hlt; try nopanic.
      + destruct (intern_static r addr s) as [r' R] eqn:Ei. cbn [snd].
        destruct R as [k|e]; cbn [out_of_resP]; intros Hp; [discriminate|].
        cbn [panic_cause Rodeo.step]. rewrite E, Ei. cbn [snd out_of_res]. eauto.
      + destruct (t_intern_static t addr s) as [t' R] eqn:Ei. cbn [snd].
        destruct R as [k|e]; cbn [out_of_resP]; intros Hp; [discriminate|].
        cbn [panic_cause Rodeo.step]. rewrite E, Ei. cbn [snd out_of_res]. eauto.
    - (* Resolve *)
      intros Hp. cbn [panic_cause]. intros cs H.
      destruct (get_obj w i) as [r|t|r|strs a|] eqn:E;
        [| | | |cbn [obj_strs snd] in Hp; discriminate];
        apply abs_resolve_none;
        (assert (Hnd : get_obj w i <> ODead) by (rewrite E; discriminate));
        rewrite <- E in H; pose proof (step_resolve w i k cs H Hnd) as Hr;
        cbn [Rodeo.step] in Hr; rewrite E in Hr; cbn [obj_strs] in Hr, Hp;
        inversion Hr as [Hr']; rewrite Hr' in Hp; cbn [snd] in Hp;
        (destruct (abs_resolve cs k); [discriminate|reflexivity]).
    - (* Clone *)
      slot w i HW cs Hcs E Hlt; try nopanic.
      destruct (r_clone_spec hash cand growf keycap _ _ Hcs) as (r' & Hcl & _).
      rewrite Hcl. nopanic.
    - (* CloneFrom *)
      slot w i HW cs Hcs E Hlt; try nopanic.
      destruct (WInv_get w j HW) as (csj & Hj).
      destruct (get_obj w j) as [rj|tj|rj|sj aj|] eqn:Ej; try nopanic.
      cbn [obj_inv] in Hj. destruct (Nat.eqb i j); [nopanic|].
      destruct (r_clone_from_spec hash cand growf keycap _ _ _ _ Hcs Hj)
        as (r' & c & Hcl & _ & Hres).
      rewrite Hcl. destruct Hres as [(-> & _)|(-> & _)]; nopanic.
    - (* De *)
      destruct k, d as [l|l]; try nopanic.
      + pose proof (de_rodeo_panic_keys hash cand growf keycap cand_refl l) as Hs.
        destruct (de_rodeo l) as [r| |]; try nopanic.
        intros _. cbn [panic_cause]. split; [now left|now apply Hs].
      + cbn [op_wf] in Hwf. destruct Hwf as (Hnd & Hk).
        destruct (de_threaded_spec keycap l Hnd Hk) as (_ & _ & Hnp).
        destruct (de_threaded l) as [t| |]; try nopanic. congruence.
      + pose proof (de_rodeo_panic_keys hash cand growf keycap cand_refl l) as Hs.
        destruct (de_rodeo l) as [r| |]; try nopanic.
        intros _. cbn [panic_cause]. split; [now right|now apply Hs].
      + destruct (de_resolver_spec l) as (strs & a & Hd & _). rewrite Hd. nopanic.
    - (* FromIter *)
      cbn [panic_cause]. destruct th.
      + destruct (t_extend (trodeo_new default_bytes usize_max) l) as [t ok].
        destruct ok; [nopanic|reflexivity].
      + destruct (r_extend (rodeo_new default_bytes usize_max) l) as [r ok].
        destruct ok; [nopanic|reflexivity].
    - (* Extend *)
      cbn [panic_cause]. destruct (get_obj w i) as [r|t|r|strs a|]; try nopanic.
      + destruct (r_extend r l) as [r' ok]. destruct ok; [nopanic|reflexivity].
      + destruct (t_extend t l) as [t' ok]. destruct ok; [nopanic|reflexivity].
    - (* NewRodeo *)
      cbn [panic_cause]. destruct (isize_max <? cap) eqn:Ec; [intros _; now apply N.ltb_lt|nopanic].
    - (* NewThreaded *)
      cbn [panic_cause]. destruct (lf_cap_max <? cap) eqn:Ec; [intros _; now apply N.ltb_lt|nopanic].
  Qed.


  (* ================= 4. C07: failure atomicity of the interning calls ================= *)

  (* the abstract outcome of an interning call on content cs: [o'] is the object afterwards *)
  Definition intern_abs (cs : list str) (s : str) (o' : obj) (R : res N) : Prop :=
    match R with
    | Ok k => (index_of s cs = Some k /\ obj_inv o' cs) \/
              (index_of s cs = None /\ k = N.of_nat (length cs) /\ k < keycap /\
               obj_inv o' (cs ++ [s]))
    | Err e => obj_inv o' cs /\ index_of s cs = None /\
               (e = KeySpaceExhaustion -> keycap <= N.of_nat (length cs))
    end.

  Lemma r_intern_abs r cs s r' R :
    RodeoInv r cs -> intern r s = (r', R) -> intern_abs cs s (ORodeo r') R.
  Proof.
    intros Hinv Hi.
    destruct (intern_spec hash cand growf keycap cand_refl _ _ _ _ _ Hinv Hi)
      as [k Hix -> ->|Hix Hk -> ->|Hix Hk -> -> _ _|ref Hix Hk -> H _ _]; cbn [intern_abs obj_inv].
    - left. auto.
    - split; [exact Hinv|]. split; [exact Hix|]. auto.
    - split; [exact Hinv|]. split; [exact Hix|]. discriminate.
    - right. auto.
  Qed.

  Lemma r_intern_static_abs r cs addr s r' R :
    RodeoInv r cs -> intern_static r addr s = (r', R) -> intern_abs cs s (ORodeo r') R.
  Proof.
    intros Hinv Hi.
    destruct (intern_static_spec hash cand growf keycap cand_refl _ _ _ _ _ _ Hinv Hi)
      as [k Hix -> ->|Hix Hk -> ->|Hix Hk -> H _ _]; cbn [intern_abs obj_inv].
    - left. auto.
    - split; [exact Hinv|]. split; [exact Hix|]. auto.
    - right. auto.
  Qed.

  Lemma t_intern_abs t cs s t' R :
    TInv t cs -> t_intern t s = (t', R) -> intern_abs cs s (OThreaded t') R.
  Proof.
    intros Hinv Hi.
    destruct (t_intern_spec _ _ _ _ _ _ Hinv Hi)
      as [k Hix -> ->|Hix -> -> _ _|ref Hix -> Hk H _ _ _ _ _ _|ref Hix -> Hk H _ _ _];
      cbn [intern_abs obj_inv].
    - left. auto.
    - split; [exact Hinv|]. split; [exact Hix|]. discriminate.
    - split; [exact H|]. split; [exact Hix|]. auto.
    - right. auto.
  Qed.

  Lemma t_intern_static_abs t cs addr s t' R :
    TInv t cs -> t_intern_static t addr s = (t', R) -> intern_abs cs s (OThreaded t') R.
  Proof.
    intros Hinv Hi.
    destruct (t_intern_static_spec _ _ _ _ _ _ _ Hinv Hi)
      as [k Hix -> ->|Hix -> Hk H _ _ _ _ _|Hix -> Hk H _ _ _]; cbn [intern_abs obj_inv].
    - left. auto.
    - split; [exact H|]. split; [exact Hix|]. auto.
    - right. auto.
  Qed.

  Lemma step_intern_abs w i s cs w' x :
    obj_inv (get_obj w i) cs -> step w (Intern i s) = (w', x) ->
    x = OUnsupported \/ exists R, x = out_of_res R /\ intern_abs cs s (get_obj w' i) R.
  Proof.
    intros H Hst. cbn [Rodeo.step] in Hst. pose proof (get_obj_lt w i) as Hlt.
    destruct (get_obj w i) as [r|t|r|strs a|] eqn:E; cbn [obj_inv] in H;
      try (inversion Hst; subst; now left).
    - destruct (intern r s) as [r' R] eqn:Ei. inversion Hst; subst w' x. right. exists R.
      split; [reflexivity|]. rewrite get_set_same by (apply Hlt; discriminate).
      eapply r_intern_abs; eauto.
    - destruct (t_intern t s) as [t' R] eqn:Ei. inversion Hst; subst w' x. right. exists R.
      split; [reflexivity|]. rewrite get_set_same by (apply Hlt; discriminate).
      eapply t_intern_abs; eauto.
  Qed.

  Lemma step_intern_static_abs w i addr s cs w' x :
    obj_inv (get_obj w i) cs -> step w (InternStatic i addr s) = (w', x) ->
    x = OUnsupported \/ exists R, x = out_of_res R /\ intern_abs cs s (get_obj w' i) R.
  Proof.
    intros H Hst. cbn [Rodeo.step] in Hst. pose proof (get_obj_lt w i) as Hlt.
    destruct (get_obj w i) as [r|t|r|strs a|] eqn:E; cbn [obj_inv] in H;
      try (inversion Hst; subst; now left).
    - destruct (intern_static r addr s) as [r' R] eqn:Ei. inversion Hst; subst w' x. right.
      exists R. split; [reflexivity|]. rewrite get_set_same by (apply Hlt; discriminate).
      eapply r_intern_static_abs; eauto.
    - destruct (t_intern_static t addr s) as [t' R] eqn:Ei. inversion Hst; subst w' x. right.
      exists R. split; [reflexivity|]. rewrite get_set_same by (apply Hlt; discriminate).
      eapply t_intern_static_abs; eauto.
  Qed.

  (* a failed intern leaves the content as it was (for a Rodeo even the object; for a
     ThreadedRodeo the arena may hold the orphaned string), and only fails on new strings *)
  Theorem step_intern_err w i s cs w' e :
    WInv w -> obj_inv (get_obj w i) cs -> step w (Intern i s) = (w', OErr e) ->
    obj_inv (get_obj w' i) cs /\ index_of s cs = None /\
    (e = KeySpaceExhaustion -> keycap <= N.of_nat (length cs)).
  Proof.
    intros _ H Hst.
    destruct (step_intern_abs _ _ _ _ _ _ H Hst) as [Hx|(R & Hx & Habs)]; [discriminate|].
    destruct R as [k|e0]; cbn [out_of_res] in Hx; inversion Hx; subst. exact Habs.
  Qed.

  Theorem step_intern_ok w i s cs w' k :
    WInv w -> obj_inv (get_obj w i) cs -> step w (Intern i s) = (w', OKey k) ->
    (index_of s cs = Some k /\ obj_inv (get_obj w' i) cs) \/
    (index_of s cs = None /\ k = N.of_nat (length cs) /\ k < keycap /\
     obj_inv (get_obj w' i) (cs ++ [s])).
  Proof.
    intros _ H Hst.
    destruct (step_intern_abs _ _ _ _ _ _ H Hst) as [Hx|(R & Hx & Habs)]; [discriminate|].
    destruct R as [k0|e0]; cbn [out_of_res] in Hx; inversion Hx; subst. exact Habs.
  Qed.

  Theorem step_intern_static_err w i addr s cs w' e :
    WInv w -> obj_inv (get_obj w i) cs -> step w (InternStatic i addr s) = (w', OErr e) ->
    obj_inv (get_obj w' i) cs /\ index_of s cs = None /\
    (e = KeySpaceExhaustion -> keycap <= N.of_nat (length cs)).
  Proof.
    intros _ H Hst.
    destruct (step_intern_static_abs _ _ _ _ _ _ _ H Hst) as [Hx|(R & Hx & Habs)]; [discriminate|].
    destruct R as [k|e0]; cbn [out_of_res] in Hx; inversion Hx; subst. exact Habs.
  Qed.

  Theorem step_intern_static_ok w i addr s cs w' k :
    WInv w -> obj_inv (get_obj w i) cs -> step w (InternStatic i addr s) = (w', OKey k) ->
    (index_of s cs = Some k /\ obj_inv (get_obj w' i) cs) \/
    (index_of s cs = None /\ k = N.of_nat (length cs) /\ k < keycap /\
     obj_inv (get_obj w' i) (cs ++ [s])).
  Proof.
    intros _ H Hst.
    destruct (step_intern_static_abs _ _ _ _ _ _ _ H Hst) as [Hx|(R & Hx & Habs)]; [discriminate|].
    destruct R as [k0|e0]; cbn [out_of_res] in Hx; inversion Hx; subst. exact Habs.
  Qed.

  (* a Rodeo that reports an error is not modified at all *)
  Theorem step_intern_err_rodeo w i s r cs w' e :
    get_obj w i = ORodeo r -> RodeoInv r cs -> step w (Intern i s) = (w', OErr e) -> w' = w.
  Proof.
    intros E H Hst. cbn [Rodeo.step] in Hst. rewrite E in Hst.
    destruct (intern r s) as [r' R] eqn:Ei. inversion Hst; subst w'. clear Hst.
    assert (Hr : r' = r).
    { destruct (intern_spec hash cand growf keycap cand_refl _ _ _ _ _ H Ei)
        as [k _ -> _| _ _ -> _| _ _ -> _ _ _|ref _ _ -> _ _ _]; try reflexivity.
      discriminate. }
    subst r'. rewrite <- E. unfold set_obj, get_obj. clear.
    revert i; induction w as [|y w IH]; intros [|i]; simpl; auto. f_equal. apply IH.
  Qed.

  (* ================= 5. C12: frame ================= *)

  Lemma step_syn w o :
    fst (step w o) = w \/ (exists x, fst (step w o) = w ++ [x]) \/
    exists i x', In i (targets o) /\ fst (step w o) = set_obj w i x'.
  Proof.
    destruct o; cbn [Rodeo.step targets];
      repeat match goal with |- context [match ?X with _ => _ end] => destruct X end;
      cbn [fst new_slot];
      first [ left; reflexivity
            | right; left; eexists; reflexivity
            | right; right; eexists _, _; split; [left; reflexivity|reflexivity] ].
  Qed.

  Theorem step_frame w o i :
    (i < length w)%nat -> ~ In i (targets o) -> get_obj (fst (step w o)) i = get_obj w i.
  Proof.
    intros Hlt Hni. destruct (step_syn w o) as [->|[(x & ->)|(j & x' & Hj & ->)]].
    - reflexivity.
    - now apply get_app_l.
    - apply get_set_other. intros ->. contradiction.
  Qed.

  Lemma step_length w o : (length w <= length (fst (step w o)))%nat.
  Proof.
    destruct (step_syn w o) as [->|[(x & ->)|(j & x' & Hj & ->)]].
    - lia.
    - rewrite app_length. simpl. lia.
    - unfold set_obj. rewrite set_nth_length. lia.
  Qed.

  (* a slot is not affected by any history that does not target it *)
  Theorem run_frame ops : forall w i,
    (i < length w)%nat -> (forall o, In o ops -> ~ In i (targets o)) ->
    get_obj (fst (run w ops)) i = get_obj w i.
  Proof.
    induction ops as [|o ops IH]; intros w i Hlt Hni.
    - reflexivity.
    - rewrite run_cons_fst, IH.
      + apply step_frame; [exact Hlt|]. apply Hni. now left.
      + pose proof (step_length w o). lia.
      + intros o' Ho'. apply Hni. now right.
  Qed.

End World.

Print Assumptions step_inv.
Print Assumptions run_inv.
Print Assumptions never_faults.
Print Assumptions run_never_faults.
Print Assumptions step_extends.
Print Assumptions run_extends.
Print Assumptions step_try_resolve.
Print Assumptions step_resolve.
Print Assumptions C01_roundtrip.
Print Assumptions step_get.
Print Assumptions C02_get_stable.
Print Assumptions step_len.
Print Assumptions step_contains_key.
Print Assumptions step_intern_err.
Print Assumptions step_intern_ok.
Print Assumptions step_intern_static_err.
Print Assumptions step_intern_static_ok.
Print Assumptions step_iter.
Print Assumptions step_strings.
Print Assumptions step_panic.
Print Assumptions step_frame.
Print Assumptions run_frame.
