(* WorldProofs.v — the capstone: theorems about [step] / [run], the small-step function of the
   whole world (slots holding interners and views), for EVERY history of operations.

     1. step_inv / run_inv / never_faults   every object of every reachable world satisfies its
                                            invariant; no operation ever faults
     2. step_extends / run_extends /        C01: a key resolves to its string for ever, until the
        step_try_resolve / C01_roundtrip    object is cleared, overwritten or dropped
     3. step_get / step_len / ...           C02: the answers are functions of the abstract content
     4. step_intern_err / step_intern_ok    C07: a failed intern leaves the content untouched
     5. step_frame                          C12: an operation only touches the slots it targets *)
From Lasso Require Import Base Arena ArenaProofs Rodeo RodeoInv RodeoProofs ThreadedInv
  CloneSerdeProofs ThreadedProofs IterEqProofs.

#[local] Arguments DOk {A} a.
#[local] Arguments DErr {A}.
#[local] Arguments DPanic {A}.

(* ---------- slots of a world: generic list facts ---------- *)

Lemma nth_set_nth_same {A} (l : list A) n x d : (n < length l)%nat -> nth n (set_nth n x l) d = x.
Proof.
  revert n; induction l as [|y l IH]; intros [|n] H; simpl in *; try lia; auto.
  apply IH. lia.
Qed.

Lemma nth_set_nth_other {A} (l : list A) n m x d : n <> m -> nth m (set_nth n x l) d = nth m l d.
Proof.
  revert n m; induction l as [|y l IH]; intros [|n] [|m] H; simpl; auto; congruence.
Qed.

Lemma Forall_set_nth {A} (P : A -> Prop) l n x : Forall P l -> P x -> Forall P (set_nth n x l).
Proof.
  intros Hl Hx. revert n; induction Hl as [|y l Hy Hl IH]; intros [|n]; simpl; auto.
Qed.

Lemma all_some_map_total {A B} (f : A -> option B) l :
  (forall x, In x l -> f x <> None) -> exists r, all_some (map f l) = Some r.
Proof.
  induction l as [|x l IH]; intros H; cbn [map all_some]; [eauto|].
  destruct (f x) as [y|] eqn:E; [|exfalso; apply (H x); [now left|exact E]].
  destruct IH as (r & Hr); [intros z Hz; apply H; now right|]. rewrite Hr. eauto.
Qed.

Lemma ins_sort_in (l : list (N * sref)) x : In x (insertion_sort_keys l) -> In x l.
Proof.
  unfold insertion_sort_keys. induction l as [|e l IH]; cbn [fold_right]; [auto|].
  match goal with |- In x (?F ?ACC) -> _ => set (acc := ACC) in *; set (ins := F) end.
  assert (Hins : forall a, In x (ins a) -> x = e \/ In x a).
  { induction a as [|y a IHa]; unfold ins; simpl.
    - intros [H|[]]; auto.
    - destruct (fst e <=? fst y); simpl.
      + intros [H|[H|H]]; auto.
      + intros [H|H]; auto. fold ins in H. apply IHa in H. tauto. }
  intros H. apply Hins in H. destruct H as [->|H]; [now left|right; auto].
Qed.

Lemma get_set_same w i x : (i < length w)%nat -> get_obj (set_obj w i x) i = x.
Proof. apply nth_set_nth_same. Qed.

Lemma get_set_other w i j x : i <> j -> get_obj (set_obj w j x) i = get_obj w i.
Proof. intros H. apply nth_set_nth_other. congruence. Qed.

Lemma get_app_l w x i : (i < length w)%nat -> get_obj (w ++ [x]) i = get_obj w i.
Proof. intros H. unfold get_obj. now apply app_nth1. Qed.

Lemma get_app_new w x : get_obj (w ++ [x]) (length w) = x.
Proof. unfold get_obj. rewrite app_nth2, Nat.sub_diag by lia. reflexivity. Qed.

Lemma get_obj_oob w i : (length w <= i)%nat -> get_obj w i = ODead.
Proof. intros H. unfold get_obj. now apply nth_overflow. Qed.

Lemma get_obj_lt w i : get_obj w i <> ODead -> (i < length w)%nat.
Proof.
  intros H. destruct (Nat.lt_ge_cases i (length w)) as [Hlt|Hge]; [exact Hlt|].
  exfalso. apply H. now apply get_obj_oob.
Qed.

Lemma get_obj_in w i : (i < length w)%nat -> In (get_obj w i) w.
Proof. intros H. unfold get_obj. now apply nth_In. Qed.

Section World.
  Variable hash : str -> N.
  Variable cand : N -> N -> bool.
  Variable growf : N -> bool.
  Variable keycap : N.
  Hypothesis cand_refl : forall h, cand h h = true.

  Notation RodeoInv := (RodeoInv hash keycap).
  Notation TInv := (TInv keycap).
  Notation step := (step hash cand growf keycap).
  Notation run := (run hash cand growf keycap).
  Notation intern := (intern hash cand growf keycap).
  Notation intern_static := (intern_static hash cand growf keycap).
  Notation t_intern := (t_intern keycap).
  Notation t_intern_static := (t_intern_static keycap).
  Notation r_get := (r_get hash cand).
  Notation r_extend := (r_extend hash cand growf keycap).
  Notation t_extend := (t_extend keycap).
  Notation r_clone := (r_clone hash cand growf keycap).
  Notation r_clone_from := (r_clone_from hash cand growf keycap).
  Notation de_rodeo := (de_rodeo hash cand growf keycap).
  Notation t_into_reader := (t_into_reader hash cand growf).
  Notation eq_obj := (eq_obj keycap).

  (* ================= the invariant of one object, of a world ================= *)

  (* [cs] is the abstract content of the object: cs[k] is the string of key k *)
  Definition obj_inv (o : obj) (cs : list str) : Prop :=
    match o with
    | ORodeo r | OReader r => RodeoInv r cs
    | OThreaded t => TInv t cs
    | OResolver strs a => ArenaInv a /\ strs_wf strs a cs
    | ODead => cs = []
    end.

  Definition WInv (w : world) : Prop := Forall (fun o => exists cs, obj_inv o cs) w.

  (* what the runner establishes before it calls the model: the parser hands over a map without
     repeated strings, the key deserialiser only produces keys of the key type; the byte
     capacity of a constructor is a NonZeroUsize *)
  Definition op_wf (o : op) : Prop :=
    match o with
    | De KThreaded (DMap l) => NoDup (map fst l) /\ (forall s k, In (s, k) l -> k < keycap)
    | NewRodeo cap _ | NewThreaded cap _ => 0 < cap
    | _ => True
    end.

  (* the slots an operation may modify (new slots are appended, see [step_shape]) *)
  Definition targets (o : op) : list nat :=
    match o with
    | Intern i _ | InternStatic i _ _ | InternP i _ | InternStaticP i _ _
    | Clear i | SetLimit i _ | CloneFrom i _ | Drop i | IntoReader i | IntoResolver i
    | Extend i _ => [i]
    | _ => []
    end.

  (* the operations that end the life of the content of slot i *)
  Definition resets (o : op) (i : nat) : Prop :=
    match o with
    | Clear j | CloneFrom j _ | Drop j => i = j
    | _ => False
    end.

  Lemma resets_targets o i : resets o i -> In i (targets o).
  Proof. destruct o; cbn [resets targets]; intros H; try contradiction; now left. Qed.

  Lemma WInv_nil : WInv [].
  Proof. constructor. Qed.

  Lemma WInv_get w i : WInv w -> exists cs, obj_inv (get_obj w i) cs.
  Proof.
    intros HW. destruct (Nat.lt_ge_cases i (length w)) as [Hlt|Hge].
    - unfold WInv in HW. rewrite Forall_forall in HW. apply HW. now apply get_obj_in.
    - rewrite get_obj_oob by exact Hge. exists []. reflexivity.
  Qed.

  Lemma WInv_set w i x cs : WInv w -> obj_inv x cs -> WInv (set_obj w i x).
  Proof. intros HW Hx. apply Forall_set_nth; eauto. Qed.

  Lemma WInv_app w x cs : WInv w -> obj_inv x cs -> WInv (w ++ [x]).
  Proof. intros HW Hx. apply Forall_app. split; [exact HW|]. constructor; eauto. Qed.

  Lemma obj_inv_dead cs : obj_inv ODead cs -> cs = [].
  Proof. auto. Qed.

  (* the string table of a list-shaped object reads as its content *)
  Lemma obj_inv_contents x cs strs a :
    obj_inv x cs -> obj_strs x = Some (strs, a) -> contents strs a = Some cs.
  Proof.
    destruct x as [r|t|r|strs0 a0|]; cbn [obj_inv obj_strs]; intros H E; inversion E; subst.
    - destruct H as (_ & (_ & _ & Hc & _) & _); exact Hc.
    - destruct H as (_ & (_ & _ & Hc & _) & _); exact Hc.
    - destruct H as (_ & (_ & _ & Hc)); exact Hc.
  Qed.

  (* ================= object-level extension lemmas ================= *)

  Lemma intern_ext r cs s r' R :
    RodeoInv r cs -> intern r s = (r', R) -> exists added, RodeoInv r' (cs ++ added).
  Proof.
    intros Hinv Hi.
    destruct (intern_spec hash cand growf keycap cand_refl _ _ _ _ _ Hinv Hi)
      as [k _ -> _| _ _ -> _| _ _ -> _ _ _| ref _ _ _ H _ _].
    - exists []. now rewrite app_nil_r.
    - exists []. now rewrite app_nil_r.
    - exists []. now rewrite app_nil_r.
    - exists [s]. exact H.
  Qed.

  Lemma intern_static_ext r cs addr s r' R :
    RodeoInv r cs -> intern_static r addr s = (r', R) -> exists added, RodeoInv r' (cs ++ added).
  Proof.
    intros Hinv Hi.
    destruct (intern_static_spec hash cand growf keycap cand_refl _ _ _ _ _ _ Hinv Hi)
      as [k _ -> _| _ _ -> _| _ _ _ H _ _].
    - exists []. now rewrite app_nil_r.
    - exists []. now rewrite app_nil_r.
    - exists [s]. exact H.
  Qed.

  Lemma t_intern_ext t cs s t' R :
    TInv t cs -> t_intern t s = (t', R) -> exists added, TInv t' (cs ++ added).
  Proof.
    intros Hinv Hi.
    destruct (t_intern_inv _ _ _ _ _ _ Hinv Hi) as [(H & _)|(H & _)].
    - exists []. now rewrite app_nil_r.
    - exists [s]. exact H.
  Qed.

  Lemma t_intern_static_ext t cs addr s t' R :
    TInv t cs -> t_intern_static t addr s = (t', R) -> exists added, TInv t' (cs ++ added).
  Proof.
    intros Hinv Hi.
    destruct (t_intern_static_inv _ _ _ _ _ _ _ Hinv Hi) as [(H & _)|(H & _)].
    - exists []. now rewrite app_nil_r.
    - exists [s]. exact H.
  Qed.

  Lemma r_extend_ext r cs l r' ok :
    RodeoInv r cs -> r_extend r l = (r', ok) -> exists added, RodeoInv r' (cs ++ added).
  Proof.
    intros Hinv He.
    destruct (r_extend_spec hash cand growf keycap cand_refl _ _ _ _ _ Hinv He)
      as (cs' & H & (added & ->) & _).
    exists added. exact H.
  Qed.

  (* Extend / FromIter on a ThreadedRodeo: the content only grows, whether or not the loop
     completes *)
  Lemma t_extend_ext l : forall t cs t' ok,
    TInv t cs -> t_extend t l = (t', ok) -> exists added, TInv t' (cs ++ added).
  Proof.
    induction l as [|s l IH]; intros t cs t' ok Hinv He; cbn [Rodeo.t_extend] in He.
    - inversion He; subst. exists []. now rewrite app_nil_r.
    - destruct (t_intern t s) as [t1 R] eqn:Ei.
      destruct (t_intern_ext _ _ _ _ _ Hinv Ei) as (a1 & H1).
      destruct R as [k|e].
      + destruct (IH _ _ _ _ H1 He) as (a2 & H2). exists (a1 ++ a2).
        now rewrite app_assoc.
      + inversion He; subst. eauto.
  Qed.

  (* the key-ordered listing of a ThreadedRodeo (iteration, serialisation) never dangles *)
  Lemma t_pairs_some t cs : TInv t cs -> exists ps, obj_pairs (OThreaded t) = Some ps.
  Proof.
    intros (Ha & refs & (_ & _ & Hc & _) & _ & Hts & _). cbn [obj_pairs].
    apply all_some_map_total. intros (k & r) Hin. cbn [fst snd].
    apply ins_sort_in in Hin. apply Hts in Hin.
    destruct (read_refs _ _ _ _ _ Hc Hin) as (Hrd & Hlt). rewrite Hrd.
    destruct (nth_error cs (N.to_nat k)) eqn:En; [discriminate|].
    apply nth_error_None in En. lia.
  Qed.

  Lemma rodeo_as_resolver r cs : RodeoInv r cs -> obj_inv (OResolver (rstrs r) (rar r)) cs.
  Proof.
    intros (Ha & (H1 & H2 & H3 & _) & _). cbn [obj_inv]. split; [exact Ha|].
    split; [exact H1|]. split; [exact H2|exact H3].
  Qed.

  (* ================= the shape of one step ================= *)

  Inductive step_shape (w : world) (o : op) (w' : world) : Prop :=
  | sh_same : w' = w -> step_shape w o w'
  | sh_new x cs : w' = w ++ [x] -> obj_inv x cs -> step_shape w o w'
  | sh_set i x' :
      w' = set_obj w i x' -> (i < length w)%nat -> In i (targets o) ->
      (forall cs, obj_inv (get_obj w i) cs -> exists added, obj_inv x' (cs ++ added)) ->
      step_shape w o w'
  | sh_reset i x' cs' :
      w' = set_obj w i x' -> (i < length w)%nat -> resets o i -> obj_inv x' cs' ->
      step_shape w o w'.

  Ltac nofault :=
    cbn [fst snd]; unfold out_of_res, out_of_resP, out_of_opt_key, out_of_opt_str;
    repeat match goal with |- context [match ?X with _ => _ end] => destruct X end;
    discriminate.

  Ltac same := cbn [fst snd]; split; [apply sh_same; reflexivity | nofault].

  Ltac slot w i HW cs Hcs E Hlt :=
    destruct (WInv_get w i HW) as (cs & Hcs);
    pose proof (get_obj_lt w i) as Hlt;
    destruct (get_obj w i) as [?r|?t|?r|?strs ?a|] eqn:E;
    cbn [obj_inv obj_strs] in *;
    try (assert (Hlt' : (i < length w)%nat) by (apply Hlt; discriminate); clear Hlt;
         rename Hlt' into Hlt).

  Theorem step_sem w o :
    WInv w -> op_wf o ->
    step_shape w o (fst (step w o)) /\ snd (step w o) <> OFault.
  Proof.
    intros HW Hwf.
    destruct o as [i s|i addr s|i s|i addr s|i s|i s|i k|i k|i k|i|i|i plan|i plan|i|i m|i|i|i
                  |i j|i|i|i|i|k d|i j|th l|i l|cap lim|cap lim]; cbn [Rodeo.step].
    - (* Intern *)
      slot w i HW cs Hcs E Hlt; try same.
      + destruct (intern r s) as [r' R] eqn:Ei. cbn [fst snd]. split; [|nofault].
        eapply sh_set; [reflexivity|exact Hlt|now left|]. rewrite E. cbn [obj_inv].
        intros cs0 H0. eapply intern_ext; eauto.
      + destruct (t_intern t s) as [t' R] eqn:Ei. cbn [fst snd]. split; [|nofault].
        eapply sh_set; [reflexivity|exact Hlt|now left|]. rewrite E. cbn [obj_inv].
        intros cs0 H0. eapply t_intern_ext; eauto.
    - (* InternStatic *)
      slot w i HW cs Hcs E Hlt; try same.
      + destruct (intern_static r addr s) as [r' R] eqn:Ei. cbn [fst snd]. split; [|nofault].
        eapply sh_set; [reflexivity|exact Hlt|now left|]. rewrite E. cbn [obj_inv].
        intros cs0 H0. eapply intern_static_ext; eauto.
      + destruct (t_intern_static t addr s) as [t' R] eqn:Ei. cbn [fst snd]. split; [|nofault].
        eapply sh_set; [reflexivity|exact Hlt|now left|]. rewrite E. cbn [obj_inv].
        intros cs0 H0. eapply t_intern_static_ext; eauto.
    - (* InternP *)
      slot w i HW cs Hcs E Hlt; try same.
      + destruct (intern r s) as [r' R] eqn:Ei. cbn [fst snd]. split; [|nofault].
        eapply sh_set; [reflexivity|exact Hlt|now left|]. rewrite E. cbn [obj_inv].
        intros cs0 H0. eapply intern_ext; eauto.
      + destruct (t_intern t s) as [t' R] eqn:Ei. cbn [fst snd]. split; [|nofault].
        eapply sh_set; [reflexivity|exact Hlt|now left|]. rewrite E. cbn [obj_inv].
        intros cs0 H0. eapply t_intern_ext; eauto.
    - (* InternStaticP *)
      slot w i HW cs Hcs E Hlt; try same.
      + destruct (intern_static r addr s) as [r' R] eqn:Ei. cbn [fst snd]. split; [|nofault].
        eapply sh_set; [reflexivity|exact Hlt|now left|]. rewrite E. cbn [obj_inv].
        intros cs0 H0. eapply intern_static_ext; eauto.
      + destruct (t_intern_static t addr s) as [t' R] eqn:Ei. cbn [fst snd]. split; [|nofault].
        eapply sh_set; [reflexivity|exact Hlt|now left|]. rewrite E. cbn [obj_inv].
        intros cs0 H0. eapply t_intern_static_ext; eauto.
    - (* Get *) destruct (get_obj w i); same.
    - (* Contains *) destruct (get_obj w i); same.
    - (* Resolve *) destruct (get_obj w i); cbn [obj_strs]; same.
    - (* TryResolve *) destruct (get_obj w i); cbn [obj_strs]; same.
    - (* ContainsKey *) destruct (get_obj w i); cbn [obj_strs]; same.
    - (* Len *) destruct (get_obj w i); cbn [obj_strs]; same.
    - (* IsEmpty *) destruct (get_obj w i); cbn [obj_strs]; same.
    - (* IterOp *)
      slot w i HW cs Hcs E Hlt; try same.
      destruct (t_pairs_some _ _ Hcs) as (ps & Hps). rewrite Hps. same.
    - (* StringsOp *)
      slot w i HW cs Hcs E Hlt; try same.
      destruct (t_pairs_some _ _ Hcs) as (ps & Hps). rewrite Hps. same.
    - (* Clear *)
      slot w i HW cs Hcs E Hlt; try same.
      cbn [fst snd]. split; [|discriminate].
      eapply sh_reset with (cs' := []); [reflexivity|exact Hlt|reflexivity|].
      cbn [obj_inv]. eapply r_clear_inv; eauto.
    - (* SetLimit *)
      slot w i HW cs Hcs E Hlt; try same.
      + cbn [fst snd]. split; [|discriminate].
        eapply sh_set; [reflexivity|exact Hlt|now left|]. rewrite E. cbn [obj_inv].
        intros cs0 H0. exists []. rewrite app_nil_r. now apply r_set_limit_inv.
      + cbn [fst snd]. split; [|discriminate].
        eapply sh_set; [reflexivity|exact Hlt|now left|]. rewrite E. cbn [obj_inv].
        intros cs0 H0. exists []. rewrite app_nil_r. now apply t_set_limit_inv.
    - (* CurMem *) destruct (get_obj w i); same.
    - (* MaxMem *) destruct (get_obj w i); same.
    - (* Clone *)
      slot w i HW cs Hcs E Hlt; try same.
      destruct (r_clone_spec hash cand growf keycap _ _ Hcs) as (r' & Hcl & Hinv' & _).
      rewrite Hcl. cbn [new_slot fst snd]. split; [|discriminate].
      eapply sh_new with (cs := cs); [reflexivity|exact Hinv'].
    - (* CloneFrom *)
      slot w i HW cs Hcs E Hlt; try same.
      destruct (WInv_get w j HW) as (csj & Hj).
      destruct (get_obj w j) as [rj|tj|rj|sj aj|] eqn:Ej; try same.
      cbn [obj_inv] in Hj. destruct (Nat.eqb i j); [same|].
      destruct (r_clone_from_spec hash cand growf keycap _ _ _ _ Hcs Hj)
        as (r' & c & Hcl & _ & Hres).
      rewrite Hcl.
      destruct Hres as [(-> & H)|(-> & done & rest & _ & _ & H)]; cbn [fst snd];
        (split; [|discriminate]).
      + eapply sh_reset with (cs' := csj); [reflexivity|exact Hlt|reflexivity|exact H].
      + eapply sh_reset with (cs' := done); [reflexivity|exact Hlt|reflexivity|exact H].
    - (* Drop *)
      slot w i HW cs Hcs E Hlt; try same;
        (cbn [fst snd]; split; [|discriminate];
         eapply sh_reset with (cs' := []); [reflexivity|exact Hlt|reflexivity|reflexivity]).
    - (* IntoReader *)
      slot w i HW cs Hcs E Hlt; try same.
      + cbn [fst snd]. split; [|discriminate].
        eapply sh_set; [reflexivity|exact Hlt|now left|]. rewrite E. cbn [obj_inv].
        intros cs0 H0. exists []. now rewrite app_nil_r.
      + destruct (t_into_reader_inv hash cand growf keycap _ _ Hcs) as (r & Hr & _).
        rewrite Hr. cbn [fst snd]. split; [|discriminate].
        eapply sh_set; [reflexivity|exact Hlt|now left|]. rewrite E. cbn [obj_inv].
        intros cs0 H0.
        destruct (t_into_reader_inv hash cand growf keycap _ _ H0) as (r0 & Hr0 & Hinv0 & _).
        rewrite Hr in Hr0. inversion Hr0; subst r0. exists []. now rewrite app_nil_r.
    - (* IntoResolver *)
      slot w i HW cs Hcs E Hlt; try same.
      + cbn [fst snd]. split; [|discriminate].
        eapply sh_set; [reflexivity|exact Hlt|now left|]. rewrite E. cbn [obj_inv].
        intros cs0 H0. exists []. rewrite app_nil_r. now apply rodeo_as_resolver.
      + destruct (t_strings_inv _ _ _ Hcs) as (refs & Hr & _).
        rewrite Hr. cbn [fst snd]. split; [|discriminate].
        eapply sh_set; [reflexivity|exact Hlt|now left|]. rewrite E. cbn [obj_inv].
        intros cs0 H0.
        destruct (t_strings_inv _ _ _ H0) as (refs0 & Hr0 & (H1 & H2 & H3 & _)).
        rewrite Hr in Hr0. inversion Hr0; subst refs0. exists []. rewrite app_nil_r.
        split; [destruct H0 as (Ha & _); exact Ha|]. split; [exact H1|]. split; [exact H2|exact H3].
      + cbn [fst snd]. split; [|discriminate].
        eapply sh_set; [reflexivity|exact Hlt|now left|]. rewrite E. cbn [obj_inv].
        intros cs0 H0. exists []. rewrite app_nil_r. now apply rodeo_as_resolver.
    - (* Ser *)
      slot w i HW cs Hcs E Hlt; try same.
      + rewrite (obj_pairs_enumerate (ORodeo r) _ _ cs eq_refl
                   (obj_inv_contents (ORodeo r) _ _ _ Hcs eq_refl)). same.
      + destruct (t_pairs_some _ _ Hcs) as (ps & Hps). rewrite Hps. same.
      + rewrite (obj_pairs_enumerate (OReader r) _ _ cs eq_refl
                   (obj_inv_contents (OReader r) _ _ _ Hcs eq_refl)). same.
      + rewrite (obj_pairs_enumerate (OResolver strs a) _ _ cs eq_refl
                   (obj_inv_contents (OResolver strs a) _ _ _ Hcs eq_refl)). same.
    - (* De *)
      destruct k, d as [l|l]; try same.
      + pose proof (de_rodeo_spec hash cand growf keycap cand_refl l) as Hs.
        destruct (de_rodeo l) as [r| |]; try same.
        destruct Hs as (Hinv & _). cbn [new_slot fst snd]. split; [|discriminate].
        eapply sh_new with (cs := l); [reflexivity|exact Hinv].
      + cbn [op_wf] in Hwf. destruct Hwf as (Hnd & Hk).
        destruct (de_threaded_spec keycap l Hnd Hk) as (Herr & Hok & _).
        destruct (de_threaded l) as [t| |] eqn:Ed; try same.
        destruct (keys_dense l (repeat false (length l))) eqn:Ekd.
        * destruct (Hok eq_refl) as (t0 & cs & Ht0 & Hinv & _). inversion Ht0; subst t0.
          cbn [new_slot fst snd]. split; [|discriminate].
          eapply sh_new with (cs := cs); [reflexivity|exact Hinv].
        * assert (Hx : DOk t = DErr) by (now apply Herr). discriminate.
      + pose proof (de_rodeo_spec hash cand growf keycap cand_refl l) as Hs.
        destruct (de_rodeo l) as [r| |]; try same.
        destruct Hs as (Hinv & _). cbn [new_slot fst snd]. split; [|discriminate].
        eapply sh_new with (cs := l); [reflexivity|exact Hinv].
      + destruct (de_resolver_spec l) as (strs & a & Hd & Ha & H1 & H2 & H3 & _).
        rewrite Hd. cbn [new_slot fst snd]. split; [|discriminate].
        eapply sh_new with (cs := l); [reflexivity|].
        cbn [obj_inv]. split; [exact Ha|]. split; [exact H1|]. split; [exact H2|exact H3].
    - (* EqOp *) same.
    - (* FromIter *)
      destruct th.
      + destruct (t_extend (trodeo_new default_bytes usize_max) l) as [t ok] eqn:Ee.
        destruct ok; [|same].
        assert (H0 : TInv (trodeo_new default_bytes usize_max) []).
        { apply trodeo_new_inv. unfold default_bytes. lia. }
        destruct (t_extend_ext _ _ _ _ _ H0 Ee) as (added & H).
        cbn [new_slot fst snd]. split; [|discriminate].
        eapply sh_new; [reflexivity|exact H].
      + destruct (r_extend (rodeo_new default_bytes usize_max) l) as [r ok] eqn:Ee.
        destruct ok; [|same].
        assert (H0 : RodeoInv (rodeo_new default_bytes usize_max) []).
        { apply rodeo_new_inv. unfold default_bytes. lia. }
        destruct (r_extend_ext _ _ _ _ _ H0 Ee) as (added & H).
        cbn [new_slot fst snd]. split; [|discriminate].
        eapply sh_new; [reflexivity|exact H].
    - (* Extend *)
      slot w i HW cs Hcs E Hlt; try same.
      + destruct (r_extend r l) as [r' ok] eqn:Ee. cbn [fst snd]. split; [|nofault].
        eapply sh_set; [reflexivity|exact Hlt|now left|]. rewrite E. cbn [obj_inv].
        intros cs0 H0. eapply r_extend_ext; eauto.
      + destruct (t_extend t l) as [t' ok] eqn:Ee. cbn [fst snd]. split; [|nofault].
        eapply sh_set; [reflexivity|exact Hlt|now left|]. rewrite E. cbn [obj_inv].
        intros cs0 H0. eapply t_extend_ext; eauto.
    - (* NewRodeo *)
      cbn [op_wf] in Hwf. cbn [new_slot fst snd]. split; [|discriminate].
      eapply sh_new with (cs := []); [reflexivity|]. cbn [obj_inv]. now apply rodeo_new_inv.
    - (* NewThreaded *)
      cbn [op_wf] in Hwf. cbn [new_slot fst snd]. split; [|discriminate].
      eapply sh_new with (cs := []); [reflexivity|]. cbn [obj_inv]. now apply trodeo_new_inv.
  Qed.

End World.
