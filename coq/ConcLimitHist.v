(* ConcLimitHist.v — C09 when set_memory_limits calls RACE with interning: the limit-history bound.

   ConcArenaProofs.v has, for racing limit changes, only the per-step fact
   [C09_grant_admissible_partial] (a step that raises memory_usage leaves it under the limit in
   force at that step).  Here the execution-level consequences, for EVERY schedule, EVERY number
   of threads, EVERY pattern of spurious compare-exchange failures and limit changes at ANY moment:

     step_usage_cases / C09_usage_changes_only_by_grant
                            a step that changes memory_usage is the successful compare-and-swap of
                            allocate_memory (pc SAllocCas) of the moving thread; it adds exactly
                            that thread's [req], and usage + req <= the limit in force at that step
     C09_usage_monotone     memory_usage never decreases (step / execution)
     reach_lims             an execution together with the list of every limit value that was in
                            force in any of its states (newest first)
     C09_reach_lims_complete  reachable c0 c <-> exists ls, reach_lims c0 c ls
     C09_cap_racing_witness usage is still what it was at the start, or it is <= ONE limit that
                            was in force in an earlier state of the execution
     C09_cap_racing_sharp   usage <= max (usage at start) (largest limit in force in an EARLIER state)
     C09_cap_racing         usage <= max (usage at start) (largest limit ever in force)
     C09_settles (+ _over, _under, _lims_const)
                            after the last limit change the bound settles
     C09_naive_racing_refuted, C09_naive_racing_not_invariant
                            the naive "usage <= max(initial capacity, current limit)" is FALSE when
                            a limit is lowered concurrently (3-thread witness, vm_compute)

   All Qed, stdlib only, closed under the global context. *)
From Lasso Require Import Base Arena Conc ConcInv ConcArenaProofs ConcTheorems.

Arguments N.add : simpl never.
Arguments N.sub : simpl never.
Arguments N.mul : simpl never.
Arguments N.ltb : simpl never.
Arguments N.leb : simpl never.
Arguments N.eqb : simpl never.
Arguments N.max : simpl never.

(* ------------------------------------------------------------------ list maximum *)

Definition lmax (ls : list N) : N := fold_right N.max 0 ls.

Lemma lmax_cons a ls : fold_right N.max 0 (a :: ls) = N.max a (fold_right N.max 0 ls).
Proof. reflexivity. Qed.

Lemma fold_max_ge l ls : In l ls -> l <= fold_right N.max 0 ls.
Proof.
  induction ls as [|a ls IH]; intros Hin; [destruct Hin|].
  rewrite lmax_cons. destruct Hin as [->|Hin]; [lia|]. specialize (IH Hin). lia.
Qed.

Lemma fold_max_tl ls : fold_right N.max 0 (tl ls) <= fold_right N.max 0 ls.
Proof. destruct ls as [|a ls]; [cbn; lia|]. cbn [tl]. rewrite lmax_cons. lia. Qed.

Lemma fold_max_all_le ls b : Forall (fun l => l <= b) ls -> fold_right N.max 0 ls <= b.
Proof.
  induction 1 as [|a ls Ha _ IH]; [cbn; lia|]. rewrite lmax_cons. lia.
Qed.

(* ------------------------------------------------------------------ which steps change memory_usage *)

(* inside store_str: only the successful compare-and-swap of allocate_memory *)
Lemma store_step_usage c tid t s p ch :
  c_usage (store_step true c tid t s p ch) = c_usage c \/
  exists req k next,
    p = SAllocCas (c_usage c) req k next /\ ch = false /\
    c_usage c + req <= c_limit c /\
    c_usage (store_step true c tid t s p ch) = c_usage c + req.
Proof.
  unfold store_step.
  destruct p as [|b rs|b seen tries rs|b off| |req k next|cur req k next|next|next usage|next|cap|blk|blk seen];
    cbv zeta.
  - destruct (map bid (c_blocks c)); left; reflexivity.
  - destruct (find_block b (c_blocks c)); left; reflexivity.
  - destruct (find_block b (c_blocks c)) as [blk|]; [|destruct rs; left; reflexivity].
    destruct ((tries <? 100)%nat && (seen + slen s <=? bcap blk)); [|destruct rs; left; reflexivity].
    destruct ((bused blk =? seen) && negb ch); left; reflexivity.
  - destruct (find_block b (c_blocks c)) as [blk|]; left; reflexivity.
  - destruct (2 * c_bcap c <? slen s); left; reflexivity.
  - left; reflexivity.
  - destruct (c_limit c <? cur + req) eqn:E1; [left; reflexivity|]. apply N.ltb_ge in E1.
    destruct ((c_usage c =? cur) && negb ch) eqn:E2; [|left; reflexivity].
    apply andb_true_iff in E2 as [E2 E3]. apply N.eqb_eq in E2. subst cur.
    apply negb_true_iff in E3. subst ch.
    right. exists req, k, next. split; [reflexivity|]. split; [reflexivity|]. split; [exact E1|].
    destruct k; [|destruct (req =? 0)|]; reflexivity.
  - left; reflexivity.
  - destruct (c_limit c <? usage + next); [destruct (c_limit c - usage <? slen s)|]; left; reflexivity.
  - left; reflexivity.
  - destruct (push_slice (fresh_block (c_next_bid c) cap) s) as [blk r]. left; reflexivity.
  - left; reflexivity.
  - destruct (opt_N_eqb (head_id c) seen && negb ch); left; reflexivity.
Qed.

Section LimitHist.
  Variable shard_of : str -> N.
  Variable keycap : N.
  Notation step := (step shard_of keycap).
  Notation reachable := (reachable shard_of keycap).

  (* every step: memory_usage is untouched, or the moving thread is at the compare-and-swap of
     allocate_memory, the swap succeeds (its expected value is the current one, no spurious
     failure), the comparison against the limit in force passed, and exactly [req] is added *)
  Lemma step_usage_cases c tid ch c' :
    step c tid ch = Some c' ->
    c_usage c' = c_usage c \/
    exists t s req k next,
      nth_error (c_threads c) tid = Some t /\
      t_pc t = PStore s (SAllocCas (c_usage c) req k next) /\ ch = false /\
      c_usage c + req <= c_limit c /\ c_usage c' = c_usage c + req.
  Proof.
    intros Hstep. unfold Conc.step, step_gen in Hstep.
    destruct (nth_error (c_threads c) tid) as [t|] eqn:Hnth; [|discriminate].
    destruct (blocked shard_of c tid (t_pc t)); [discriminate|].
    destruct (t_pc t) as [|cl|s|s|s p|s r|s r k|s r k|addr s|addr s|k|m|] eqn:Hpc.
    - destruct (t_prog t) as [|cl1 pr]; [discriminate|]. injection Hstep as <-. left; reflexivity.
    - destruct cl as [s|addr s|s|k|m|]; try discriminate; injection Hstep as <-;
        destruct (map_get c s); left; reflexivity.
    - injection Hstep as <-. left; reflexivity.
    - injection Hstep as <-. destruct (map_get c s); [|destruct s]; left; reflexivity.
    - injection Hstep as <-.
      destruct (store_step_usage c tid t s p ch) as [H|(req & k & next & Hp & Hch & Hle & Hu)]; [left; exact H|].
      right. exists t, s, req, k, next. subst p. auto.
    - injection Hstep as <-. destruct (try_key keycap (c_key c)); left; reflexivity.
    - injection Hstep as <-. left; reflexivity.
    - injection Hstep as <-. left; reflexivity.
    - injection Hstep as <-. destruct (map_get c s); left; reflexivity.
    - injection Hstep as <-. destruct (try_key keycap (c_key c)); left; reflexivity.
    - injection Hstep as <-. left; reflexivity.
    - injection Hstep as <-. left; reflexivity.
    - injection Hstep as <-. left; reflexivity.
  Qed.

  Theorem C09_usage_changes_only_by_grant c tid ch c' :
    step c tid ch = Some c' -> c_usage c' <> c_usage c ->
    exists t s req k next,
      nth_error (c_threads c) tid = Some t /\
      t_pc t = PStore s (SAllocCas (c_usage c) req k next) /\ ch = false /\
      0 < req /\ c_usage c + req <= c_limit c /\ c_usage c' = c_usage c + req.
  Proof.
    intros Hs Hne. destruct (step_usage_cases _ _ _ _ Hs) as [H|(t & s & req & k & next & H1 & H2 & H3 & H4 & H5)];
      [contradiction|].
    exists t, s, req, k, next. repeat (split; [assumption|]). split; [lia|]. split; assumption.
  Qed.

  (* the limit changes only by the step that completes a set_memory_limits call of the moving thread *)
  Theorem C09_limit_changes_only_by_setlimit c tid ch c' :
    step c tid ch = Some c' -> c_limit c' <> c_limit c ->
    exists t m, nth_error (c_threads c) tid = Some t /\ t_pc t = PSetLimit m.
  Proof.
    intros Hs Hne. destruct (step_frame _ _ _ _ _ _ Hs) as (t & t' & Hnth & _ & _ & _ & Hl & _).
    destruct Hl as [Hl|[m Hl]]; [contradiction|]. exists t, m. auto.
  Qed.

  Theorem C09_usage_monotone c tid ch c' :
    step c tid ch = Some c' -> c_usage c <= c_usage c'.
  Proof.
    intros Hs. destruct (step_frame _ _ _ _ _ _ Hs) as (t & t' & _ & _ & _ & Hu & _).
    destruct Hu as [Hu|[Hu _]]; lia.
  Qed.

  Theorem C09_usage_monotone_reachable c0 c :
    reachable c0 c -> c_usage c0 <= c_usage c.
  Proof.
    induction 1 as [|c c' tid ch _ IH Hs]; [lia|].
    pose proof (C09_usage_monotone _ _ _ _ Hs). lia.
  Qed.

  (* ---------------------------------------------------------------- executions with their limit history *)

  (* an execution, with the list of every limit value that was in force in any of its states
     (newest first; one entry per state, so the list has 1 + number-of-steps entries) *)
  Inductive reach_lims (c0 : cstate) : cstate -> list N -> Prop :=
  | rl_refl : reach_lims c0 c0 [c_limit c0]
  | rl_step c c' tid ch ls :
      reach_lims c0 c ls -> step c tid ch = Some c' -> reach_lims c0 c' (c_limit c' :: ls).

  Lemma reach_lims_head c0 c ls : reach_lims c0 c ls -> exists tl, ls = c_limit c :: tl.
  Proof. destruct 1; eexists; reflexivity. Qed.

  Lemma reach_lims_in_current c0 c ls : reach_lims c0 c ls -> In (c_limit c) ls.
  Proof. intros H. destruct (reach_lims_head _ _ _ H) as [tl ->]. now left. Qed.

  Lemma reach_lims_in_initial c0 c ls : reach_lims c0 c ls -> In (c_limit c0) ls.
  Proof. induction 1; [now left|now right]. Qed.

  Lemma reach_lims_reachable c0 c ls : reach_lims c0 c ls -> reachable c0 c.
  Proof. induction 1 as [|c c' tid ch ls _ IH Hs]; [constructor|econstructor; eauto]. Qed.

  Lemma reachable_reach_lims c0 c : reachable c0 c -> exists ls, reach_lims c0 c ls.
  Proof.
    induction 1 as [|c c' tid ch _ [ls IH] Hs]; [eexists; constructor|].
    eexists. econstructor; eauto.
  Qed.

  (* the bound below covers every reachable state *)
  Theorem C09_reach_lims_complete c0 c : reachable c0 c <-> exists ls, reach_lims c0 c ls.
  Proof.
    split; [apply reachable_reach_lims|]. intros [ls H]. eapply reach_lims_reachable; eauto.
  Qed.

  (* executions compose; the limit of the middle state is listed once *)
  Lemma reach_lims_trans c0 c1 c ls1 ls2 :
    reach_lims c0 c1 ls1 -> reach_lims c1 c ls2 -> reach_lims c0 c (removelast ls2 ++ ls1).
  Proof.
    intros H1 H2. induction H2 as [|c c' tid ch ls H2 IH Hs]; [exact H1|].
    destruct (reach_lims_head _ _ _ H2) as [tl ->].
    change (removelast (c_limit c' :: c_limit c :: tl)) with (c_limit c' :: removelast (c_limit c :: tl)).
    rewrite <- app_comm_cons. econstructor; eauto.
  Qed.

  (* ---------------------------------------------------------------- the limit-history bound *)

  (* the usage is still the initial one, or it is at most ONE of the limit values that were in
     force in a state BEFORE the current one (the one in force at the last grant) *)
  Theorem C09_cap_racing_witness c0 c ls :
    reach_lims c0 c ls ->
    c_usage c = c_usage c0 \/ exists l, In l (tl ls) /\ c_usage c <= l.
  Proof.
    induction 1 as [|c c' tid ch ls Hr IH Hs]; [left; reflexivity|].
    cbn [tl].
    destruct (step_frame _ _ _ _ _ _ Hs) as (t & t' & _ & _ & _ & Hu & _).
    destruct Hu as [Hu|[_ Hu]].
    - rewrite Hu. destruct IH as [IH|(l & Hin & Hle)]; [left; exact IH|].
      right. exists l. split; [|exact Hle]. destruct ls; [destruct Hin|right; exact Hin].
    - right. exists (c_limit c). split; [|exact Hu]. eapply reach_lims_in_current; eauto.
  Qed.

  Theorem C09_cap_racing_sharp c0 c ls :
    reach_lims c0 c ls -> c_usage c <= N.max (c_usage c0) (fold_right N.max 0 (tl ls)).
  Proof.
    intros H. destruct (C09_cap_racing_witness _ _ _ H) as [Hu|(l & Hin & Hle)]; [lia|].
    pose proof (fold_max_ge _ _ Hin). lia.
  Qed.

  (* for EVERY schedule, EVERY number of threads and limit changes at any moment: the usage never
     exceeds the largest limit that was ever in force (or what was already held at the start) *)
  Theorem C09_cap_racing c0 c ls :
    reach_lims c0 c ls -> c_usage c <= N.max (c_usage c0) (fold_right N.max 0 ls).
  Proof.
    intros H. pose proof (C09_cap_racing_sharp _ _ _ H). pose proof (fold_max_tl ls). lia.
  Qed.

  (* a uniform ceiling on the limits is a ceiling on the usage *)
  Corollary C09_cap_racing_ceiling c0 c ls b :
    reach_lims c0 c ls -> Forall (fun l => l <= b) ls -> c_usage c0 <= b -> c_usage c <= b.
  Proof.
    intros H Hall H0. pose proof (C09_cap_racing _ _ _ H). pose proof (fold_max_all_le _ _ Hall). lia.
  Qed.

  (* ---------------------------------------------------------------- after the last limit change *)

  (* once no thread has a set_memory_limits left (in its program or in flight) the history only
     repeats the current limit *)
  Lemma reach_lims_no_setlimit c1 c ls :
    no_setlimit c1 -> reach_lims c1 c ls ->
    no_setlimit c /\ Forall (fun l => l = c_limit c1) ls.
  Proof.
    intros Hn H. induction H as [|c c' tid ch ls Hrl [IH1 IH2] Hs]; [split; [exact Hn|constructor; auto]|].
    destruct (no_setlimit_step _ _ _ _ _ _ IH1 Hs) as (H1 & H2 & _). split; [exact H1|].
    constructor; [|exact IH2].
    assert (Hr : reachable c1 c') by (econstructor; [|exact Hs]; eapply reach_lims_reachable; eauto).
    destruct (C09_cap shard_of keycap c1 c' Hn Hr) as [Hl _]. exact Hl.
  Qed.

  Theorem C09_settles_lims_const c1 c ls :
    no_setlimit c1 -> reach_lims c1 c ls -> Forall (fun l => l = c_limit c1) ls.
  Proof. intros Hn H. apply (reach_lims_no_setlimit _ _ _ Hn H). Qed.

  (* the bound after the LAST limit change.  [c0 -> c1] is any execution (limit changes racing),
     in [c1] no set_memory_limits is left, [c1 -> c] is any continuation.  Then: the limit stays
     what it is in [c1]; the usage stays between its value in [c1] and
     max (that value) (that limit) — the sharpest form — and the history bound of the racing
     prefix still holds for [c] with the prefix's own list (nothing new enters the history). *)
  Theorem C09_settles c0 c1 c ls :
    reach_lims c0 c1 ls -> no_setlimit c1 -> reachable c1 c ->
    c_limit c = c_limit c1 /\
    c_usage c1 <= c_usage c /\
    c_usage c <= N.max (c_usage c1) (c_limit c1) /\
    c_usage c <= N.max (c_usage c0) (fold_right N.max 0 ls).
  Proof.
    intros H1 Hn Hr. destruct (C09_cap shard_of keycap c1 c Hn Hr) as [Hl Hu].
    pose proof (C09_usage_monotone_reachable _ _ Hr) as Hm.
    pose proof (C09_cap_racing _ _ _ H1) as Hc.
    pose proof (fold_max_ge _ _ (reach_lims_in_current _ _ _ H1)) as Hin.
    repeat (split; [assumption|]). lia.
  Qed.

  (* if the last limit change left the limit BELOW the usage, the usage is frozen from then on:
     nothing is granted any more (and nothing is ever given back) *)
  Corollary C09_settles_over c1 c :
    no_setlimit c1 -> reachable c1 c -> c_limit c1 < c_usage c1 ->
    c_usage c = c_usage c1 /\ c_limit c = c_limit c1.
  Proof.
    intros Hn Hr Hlt. destruct (C09_cap shard_of keycap c1 c Hn Hr) as [Hl Hu].
    pose proof (C09_usage_monotone_reachable _ _ Hr) as Hm. split; [lia|exact Hl].
  Qed.

  (* if it left the limit at or above the usage, "usage <= limit" holds from then on *)
  Corollary C09_settles_under c1 c :
    no_setlimit c1 -> reachable c1 c -> c_usage c1 <= c_limit c1 -> c_usage c <= c_limit c.
  Proof.
    intros Hn Hr Hle. destruct (C09_cap shard_of keycap c1 c Hn Hr) as [Hl Hu]. lia.
  Qed.

  (* ---------------------------------------------------------------- executable executions *)

  (* [run_sched] that also records the limit history *)
  Fixpoint run_hist_from (c : cstate) (ls : list N) (sched : list (nat * bool)) : cstate * list N :=
    match sched with
    | [] => (c, ls)
    | (tid, ch) :: rest =>
        match step c tid ch with
        | Some c' => run_hist_from c' (c_limit c' :: ls) rest
        | None => run_hist_from c ls rest
        end
    end.

  Definition run_hist (c0 : cstate) (sched : list (nat * bool)) : cstate * list N :=
    run_hist_from c0 [c_limit c0] sched.

  Lemma run_hist_from_reach c0 sched : forall c ls,
    reach_lims c0 c ls ->
    reach_lims c0 (fst (run_hist_from c ls sched)) (snd (run_hist_from c ls sched)).
  Proof.
    induction sched as [|[tid ch] rest IH]; intros c ls H; [exact H|].
    cbn [run_hist_from]. destruct (step c tid ch) as [c'|] eqn:Hs; [|now apply IH].
    apply IH. econstructor; eauto.
  Qed.

  Lemma run_hist_reach c0 sched :
    reach_lims c0 (fst (run_hist c0 sched)) (snd (run_hist c0 sched)).
  Proof. apply run_hist_from_reach. constructor. Qed.

  Lemma run_hist_from_run_sched sched : forall c ls,
    fst (run_hist_from c ls sched) = run_sched shard_of keycap c sched.
  Proof.
    induction sched as [|[tid ch] rest IH]; intros c ls; [reflexivity|].
    unfold run_sched in *. cbn [run_hist_from run_sched_gen]. fold step.
    change (step_gen shard_of keycap true c tid ch) with (step c tid ch).
    destruct (step c tid ch); apply IH.
  Qed.

  Lemma run_hist_run_sched c0 sched : fst (run_hist c0 sched) = run_sched shard_of keycap c0 sched.
  Proof. apply run_hist_from_run_sched. Qed.
End LimitHist.

(* ------------------------------------------------------------------ the naive statement is false *)

(* Three threads, one 1-byte block, limit 3 (usage 1).
     thread 0  interns "ab": no room in block 0, doubles the capacity to 2, passes the budget check
               and is granted 2 bytes (usage 3 = limit 3)           -- 12 events, pc = SBcapStore 2
     thread 1  set_memory_limits(2): the limit is LOWERED below the usage while thread 0 is between
               its budget check and its block push
     thread 2  current_memory_usage: observes 3 while the limit is 2
     thread 0  allocates and publishes its 2-byte block, finishes with key 0
     thread 2  interns "cd": refused (MemoryLimitReached)
   At the end every thread is idle, usage 3 = bytes of blocks held, limit 2. *)
Definition rx_progs : list (list call) := [[CIntern [97;98]]; [CSetLimit 2]; [CUsage; CIntern [99;100]]].
Definition rx_c0 : cstate := init 1 3 rx_progs.
Definition rx_s1 : list (nat * bool) := repeat (0%nat, false) 12.
Definition rx_s2 : list (nat * bool) := [(1%nat, false); (1%nat, false); (2%nat, false); (2%nat, false)].
Definition rx_s3 : list (nat * bool) := repeat (0%nat, false) 7 ++ repeat (2%nat, false) 30.
Definition rx_granted := run_hist ex_sh 10 rx_c0 rx_s1.
Definition rx_lowered := run_hist ex_sh 10 rx_c0 (rx_s1 ++ rx_s2).
Definition rx_final := run_hist ex_sh 10 rx_c0 (rx_s1 ++ rx_s2 ++ rx_s3).

Example C09_naive_racing_refuted :
  (* thread 0 has been granted its budget; its block is not yet allocated, let alone pushed *)
  (let c := fst rx_granted in
   c_usage c = 3 /\ c_limit c = 3 /\ map bcap (c_blocks c) = [1] /\
   map t_pc (c_threads c) = [PStore [97;98] (SBcapStore 2); PIdle; PIdle]) /\
  (* the limit is lowered under it; another thread observes usage 3 under limit 2 *)
  (let c := fst rx_lowered in
   c_usage c = 3 /\ c_limit c = 2 /\ map bcap (c_blocks c) = [1] /\
   map t_pc (c_threads c) = [PStore [97;98] (SBcapStore 2); PIdle; PIdle] /\
   map t_outs (c_threads c) = [[]; [(CSetLimit 2, RUnit)]; [(CUsage, RNum 3)]]) /\
  (* (a) at the end: a reachable, quiescent state with usage > current limit (and > initial capacity) *)
  (let c := fst rx_final in let ls := snd rx_final in
   reach_lims ex_sh 10 rx_c0 c ls /\
   c_usage c = 3 /\ c_limit c = 2 /\ c_limit c < c_usage c /\ N.max 1 (c_limit c) < c_usage c /\
   forallb (fun t => match t_pc t, t_prog t with PIdle, [] => true | _, _ => false end) (c_threads c) = true /\
   c_usage c = sum_N (map bcap (c_blocks c)) /\
   map t_outs (c_threads c) =
     [[(CIntern [97;98], ROk 0)]; [(CSetLimit 2, RUnit)];
      [(CIntern [99;100], RErr MemoryLimitReached); (CUsage, RNum 3)]] /\
   (* (b) the bound of C09_cap_racing holds with EQUALITY *)
   c_usage c = N.max (c_usage rx_c0) (fold_right N.max 0 ls) /\
   c_usage c = N.max (c_usage rx_c0) (fold_right N.max 0 (tl ls))).
Proof.
  split; [vm_compute; repeat split|]. split; [vm_compute; repeat split|].
  cbv zeta. split; [apply run_hist_reach|]. vm_compute. repeat split.
Qed.

(* so "usage <= max (initial capacity) (CURRENT limit)" — true in every reachable state when no
   limit change races (C09_cap_fixed_limit) — is not an invariant when one does *)
Theorem C09_naive_racing_not_invariant :
  ~ (forall (shard_of : str -> N) (keycap cap lim : N) (progs : list (list call)) (c : cstate),
       0 < cap -> reachable shard_of keycap (init cap lim progs) c ->
       c_usage c <= N.max cap (c_limit c)).
Proof.
  intros H.
  assert (Hr : reachable ex_sh 10 (init 1 3 rx_progs) (fst rx_final)).
  { eapply reach_lims_reachable. exact (run_hist_reach ex_sh 10 rx_c0 (rx_s1 ++ rx_s2 ++ rx_s3)). }
  specialize (H ex_sh 10 1 3 rx_progs (fst rx_final) eq_refl Hr).
  vm_compute in H. apply H. reflexivity.
Qed.

(* the same execution seen through the theorems: the history bound, instantiated *)
Example C09_cap_racing_instance :
  c_usage (fst rx_final) <= N.max (c_usage rx_c0) (fold_right N.max 0 (snd rx_final)).
Proof. apply (C09_cap_racing ex_sh 10). apply run_hist_reach. Qed.

Print Assumptions C09_usage_changes_only_by_grant.
Print Assumptions C09_limit_changes_only_by_setlimit.
Print Assumptions C09_usage_monotone.
Print Assumptions C09_usage_monotone_reachable.
Print Assumptions C09_reach_lims_complete.
Print Assumptions reach_lims_trans.
Print Assumptions C09_cap_racing_witness.
Print Assumptions C09_cap_racing_sharp.
Print Assumptions C09_cap_racing.
Print Assumptions C09_cap_racing_ceiling.
Print Assumptions C09_settles_lims_const.
Print Assumptions C09_settles.
Print Assumptions C09_settles_over.
Print Assumptions C09_settles_under.
Print Assumptions run_hist_reach.
Print Assumptions run_hist_run_sched.
Print Assumptions C09_naive_racing_refuted.
Print Assumptions C09_naive_racing_not_invariant.
Print Assumptions C09_cap_racing_instance.
