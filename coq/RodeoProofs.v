(* RodeoProofs.v — the single-threaded interner refines the abstract interner
   "a duplicate-free list of strings, key = position":  every operation preserves RodeoInv
   and answers as a function of the abstract list only. *)
From Lasso Require Import Base Arena ArenaProofs Rodeo RodeoInv.

Section Proofs.
  Variable hash : str -> N.
  Variable cand : N -> N -> bool.
  Variable growf : N -> bool.
  Variable keycap : N.
  Hypothesis cand_refl : forall h, cand h h = true.

  Notation RodeoInv := (RodeoInv hash keycap).
  Notation table_ok := (table_ok hash).
  Notation intern := (intern hash cand growf keycap).
  Notation intern_static := (intern_static hash cand growf keycap).
  Notation r_get := (r_get hash cand).

  Lemma rodeo_eta r : mkRodeo (rmap r) (rstrs r) (rar r) = r.
  Proof. now destruct r. Qed.

  Lemma rodeo_new_inv cap lim : 0 < cap -> RodeoInv (rodeo_new cap lim) [].
  Proof.
    intros H. unfold RodeoInv.RodeoInv, rodeo_new; simpl. split; [now apply arena_new_inv|].
    split; [|split].
    - repeat split; try constructor.
    - repeat split; simpl; try constructor.
      + intros h k [].
      + intros k Hk. lia.
    - simpl. lia.
  Qed.

  (* ---- get ---- *)
  Lemma r_get_spec r cs s : RodeoInv r cs -> r_get r s = index_of s cs.
  Proof.
    intros (_ & (_ & _ & Hc & Hnd) & Ht & _). unfold Rodeo.r_get.
    eapply tlookup_spec; eauto.
  Qed.

  (* ---- the four outcomes of try_get_or_intern ---- *)
  Inductive intern_outcome (r : rodeo) (cs : list str) (s : str) (r' : rodeo) (R : res N) : Prop :=
  | io_present k :
      index_of s cs = Some k -> r' = r -> R = Ok k -> intern_outcome r cs s r' R
  | io_keys :
      index_of s cs = None -> keycap <= N.of_nat (length cs) -> r' = r ->
      R = Err KeySpaceExhaustion -> intern_outcome r cs s r' R
  | io_memory :
      index_of s cs = None -> N.of_nat (length cs) < keycap -> r' = r ->
      R = Err MemoryLimitReached -> s <> [] -> limit (rar r) < usage (rar r) + slen s ->
      intern_outcome r cs s r' R
  | io_new ref :
      index_of s cs = None -> N.of_nat (length cs) < keycap ->
      R = Ok (N.of_nat (length cs)) -> RodeoInv r' (cs ++ [s]) ->
      rstrs r' = rstrs r ++ [ref] -> store_post (rar r) (rar r') s (Ok ref) ->
      intern_outcome r cs s r' R.

  Theorem intern_spec r cs s r' R :
    RodeoInv r cs -> intern r s = (r', R) -> intern_outcome r cs s r' R.
  Proof.
    intros Hinv Hi. pose proof (r_get_spec r cs s Hinv) as Hget.
    destruct Hinv as (Ha & Hs & Ht & Hcap).
    pose proof Hs as (_ & _ & Hc & Hnd).
    pose proof (contents_length _ _ _ Hc) as Hlen.
    unfold Rodeo.intern in Hi. unfold Rodeo.r_get in Hget. rewrite Hget in Hi.
    destruct (index_of s cs) as [k|] eqn:Ei.
    - inversion Hi; subst. eapply io_present; eauto.
    - unfold try_key, r_len in Hi. rewrite <- Hlen in Hi.
      destruct (N.of_nat (length cs) <? keycap) eqn:Ek.
      + apply N.ltb_lt in Ek.
        destruct (vec_store (rar r) s) as [a' [ref|e]] eqn:Est.
        * inversion Hi; subst r' R. clear Hi.
          pose proof (vec_store_post _ _ _ _ Ha Est) as Hpost.
          pose proof (proj1 (index_of_none _ _) Ei) as Hni.
          pose proof (strs_ok_push _ _ _ _ _ _ Hs Hpost Hni) as Hs'.
          eapply io_new; eauto; try reflexivity.
          split; [exact (sp_inv _ _ _ _ Hpost)|]. simpl.
          split; [exact Hs'|]. split.
          -- destruct Hs' as (_ & _ & Hc' & _). eapply tinsert_ok; eauto.
          -- rewrite app_length. simpl. lia.
        * pose proof (vec_store_post _ _ _ _ Ha Est) as Hpost.
          destruct (sp_result _ _ _ _ Hpost) as (He & Haa & Hsne & Hlim). subst e a'.
          inversion Hi; subst r' R. rewrite rodeo_eta.
          eapply io_memory; eauto.
      + apply N.ltb_ge in Ek. inversion Hi; subst. eapply io_keys; eauto.
  Qed.

  (* ---- try_get_or_intern_static ---- *)
  Inductive static_outcome (r : rodeo) (cs : list str) (addr : N) (s : str) (r' : rodeo) (R : res N) : Prop :=
  | so_present k :
      index_of s cs = Some k -> r' = r -> R = Ok k -> static_outcome r cs addr s r' R
  | so_keys :
      index_of s cs = None -> keycap <= N.of_nat (length cs) -> r' = r ->
      R = Err KeySpaceExhaustion -> static_outcome r cs addr s r' R
  | so_new :
      index_of s cs = None -> N.of_nat (length cs) < keycap ->
      R = Ok (N.of_nat (length cs)) -> RodeoInv r' (cs ++ [s]) ->
      rstrs r' = rstrs r ++ [RStatic addr s] -> rar r' = rar r ->
      static_outcome r cs addr s r' R.

  Theorem intern_static_spec r cs addr s r' R :
    RodeoInv r cs -> intern_static r addr s = (r', R) -> static_outcome r cs addr s r' R.
  Proof.
    intros Hinv Hi. pose proof (r_get_spec r cs s Hinv) as Hget.
    destruct Hinv as (Ha & Hs & Ht & Hcap).
    pose proof Hs as (_ & _ & Hc & Hnd).
    pose proof (contents_length _ _ _ Hc) as Hlen.
    unfold Rodeo.intern_static in Hi. unfold Rodeo.r_get in Hget. rewrite Hget in Hi.
    destruct (index_of s cs) as [k|] eqn:Ei.
    - inversion Hi; subst. eapply so_present; eauto.
    - unfold try_key, r_len in Hi. rewrite <- Hlen in Hi.
      destruct (N.of_nat (length cs) <? keycap) eqn:Ek.
      + apply N.ltb_lt in Ek. inversion Hi; subst r' R. clear Hi.
        pose proof (proj1 (index_of_none _ _) Ei) as Hni.
        pose proof (strs_ok_push_static _ _ _ _ addr Hs Hni) as Hs'.
        eapply so_new; eauto; try reflexivity.
        split; [exact Ha|]. simpl. split; [exact Hs'|]. split.
        * destruct Hs' as (_ & _ & Hc' & _). eapply tinsert_ok; eauto.
        * rewrite app_length. simpl. lia.
      + apply N.ltb_ge in Ek. inversion Hi; subst. eapply so_keys; eauto.
  Qed.

  (* ---- resolve paths ---- *)
  Lemma strs_resolve_spec strs a cs k :
    contents strs a = Some cs ->
    strs_resolve strs a k = if k <? N.of_nat (length cs) then nth_error cs (N.to_nat k) else None.
  Proof.
    intros Hc. unfold strs_resolve, strs_contains_key.
    rewrite <- (contents_length _ _ _ Hc).
    destruct (k <? N.of_nat (length cs)); auto. now apply key_str_contents.
  Qed.

  (* ---- clear ---- *)
  Lemma r_clear_inv r cs : RodeoInv r cs -> RodeoInv (r_clear r) [].
  Proof.
    intros (Ha & _). unfold RodeoInv.RodeoInv, r_clear; simpl.
    split; [now apply arena_clear_inv|]. split; [|split].
    - repeat split; try constructor.
    - repeat split; simpl; try constructor.
      + intros h k [].
      + intros k Hk. lia.
    - simpl. lia.
  Qed.

  (* ---- set_memory_limits ---- *)
  Lemma r_set_limit_inv r cs m : RodeoInv r cs -> RodeoInv (r_set_limit r m) cs.
  Proof.
    intros (Ha & Hs & Ht & Hcap). unfold RodeoInv.RodeoInv, r_set_limit; simpl.
    split; [exact Ha|]. split; [|split]; auto.
  Qed.
End Proofs.
