(* ConcArenaProofs.v — the storage invariant of the concurrent model (Conc.v) is preserved by
   every step of every thread: properties C05 (concurrent storage integrity) and C09 (memory
   limit under concurrency), for every schedule, every number of threads and every pattern of
   spurious CAS failures.

   Main results (all Qed, closed under the global context):
     init_AInv', init_AInv      the initial state satisfies AInv' / AInv (0 < cap)
     step_AInv' (= step_AInv)   AInv' c -> step c tid ch = Some c' -> AInv' c'
     reachable_AInv', reachable_AInv
     C05_exclusive, C05_no_tear, step_keeps_entries, step_keeps_bytes, C05_no_lost_block
     C09_accounting_quiescent, no_setlimit_step, C09_cap, C09_grant_admissible_partial,
     C09_legacy_refuted
     AInv_not_inductive_sizes, AInv_not_inductive_pmap

   REPORT on ConcInv.AInv: it holds in every reachable state (reachable_AInv) but it is NOT
   inductive as stated; the invariant proved inductive here is
       AInv' c := AInv c /\ Forall tspc (c_threads c) /\ pmap_safe c.
   (1) [ai_store_pcs] only says s <> [].  Missing: what a store pc knows about the sizes it
       carries ([spc_ok]: slen s <= next at SUsage2/SLimit2/SBcapStore, slen s <= req and
       (k = ADoubled -> req = next) at SAllocLoad/SAllocCas, slen s <= cap at SNewBlock).
       Without it ai_usage breaks at a successful SAllocCas .. ADoubled (grants req, books
       next) and block_ok breaks at SNewBlock.  Witness: AInv_not_inductive_sizes.
   (2) the PMap case of [ai_thread_refs]: after PStrs the thread's range is protected only
       through its key -> string entry; an insert under the same key (excluded by JInv, not by
       AInv) drops that entry, and then nothing in AInv keeps a range reserved over it from
       being filled.  [pmap_safe] (no reserved-but-unwritten range overlaps the reference of a
       thread at PMap) repairs this without needing JInv.  Witness: AInv_not_inductive_pmap.
   Both witnesses are AInv-states that are not reachable; no clause of AInv is false. *)
From Lasso Require Import Base Arena ArenaProofs Conc ConcInv.
From Coq Require Import Permutation.

(* ------------------------------------------------------------------ generic list lemmas *)

Lemma nth_error_split_set {A} (l : list A) n x :
  nth_error l n = Some x ->
  exists l1 l2, l = l1 ++ x :: l2 /\ length l1 = n /\ forall y, set_nth n y l = l1 ++ y :: l2.
Proof.
  revert n. induction l as [|a l IH]; intros [|n]; simpl; try discriminate.
  - intros H; inversion H; subst. exists [], l. auto.
  - intros H. destruct (IH _ H) as (l1 & l2 & -> & Hlen & H2). exists (a :: l1), l2.
    split; [reflexivity|]. split; [simpl; now rewrite Hlen|].
    intros y. simpl. now rewrite H2.
Qed.

Lemma NoDup_app_l {A} (l l' : list A) : NoDup (l ++ l') -> NoDup l.
Proof.
  induction l as [|a l IH]; simpl; intros H; [constructor|].
  inversion H; subst. constructor; [|auto]. intros Hin. apply H2. apply in_or_app. now left.
Qed.

Lemma sum_N_cons a l : sum_N (a :: l) = a + sum_N l.
Proof. reflexivity. Qed.

Lemma sum_N_mid {A} (f : A -> N) l1 t l2 :
  sum_N (map f (l1 ++ t :: l2)) = sum_N (map f l1) + f t + sum_N (map f l2).
Proof. rewrite map_app, sum_N_app. cbn [map]. rewrite sum_N_cons. lia. Qed.

Lemma flat_map_mid {A B} (f : A -> list B) l1 t l2 :
  flat_map f (l1 ++ t :: l2) = flat_map f l1 ++ f t ++ flat_map f l2.
Proof. rewrite flat_map_app. reflexivity. Qed.

Lemma in_flat_map_filter {A B} (f : A -> list B) p l x :
  In x (flat_map f (filter p l)) -> In x (flat_map f l).
Proof.
  rewrite !in_flat_map. intros (a & Ha & Hx). apply filter_In in Ha as [Ha _]. eauto.
Qed.

Section FOP.
  Context {A : Type} (R : A -> A -> Prop).

  Lemma FOP_cons_iff a l :
    ForallOrdPairs R (a :: l) <-> Forall (R a) l /\ ForallOrdPairs R l.
  Proof.
    split.
    - intros H; inversion H; subst; auto.
    - intros [H1 H2]; constructor; auto.
  Qed.

  Lemma FOP_app l1 l2 :
    ForallOrdPairs R (l1 ++ l2) <->
    ForallOrdPairs R l1 /\ ForallOrdPairs R l2 /\ (forall x y, In x l1 -> In y l2 -> R x y).
  Proof.
    induction l1 as [|a l1 IH]; simpl.
    - split.
      + intros H. split; [constructor|]. split; [exact H|]. intros x y [].
      + intros (_ & H & _). exact H.
    - rewrite !FOP_cons_iff, IH, Forall_app. rewrite !Forall_forall. split.
      + intros ((H1 & H2) & H3 & H4 & H5). split; [split; assumption|]. split; [assumption|].
        intros x y [<-|Hx] Hy; auto.
      + intros ((H1 & H2) & H3 & H4). split; [split|split; [|split]]; auto.
  Qed.

  Lemma FOP_perm l l' :
    (forall x y, R x y -> R y x) ->
    Permutation l l' -> ForallOrdPairs R l -> ForallOrdPairs R l'.
  Proof.
    intros Rsym. induction 1 as [|x l l' HP IH|x y l|l l' l'' HP1 IH1 HP2 IH2]; intros H; auto.
    - apply FOP_cons_iff in H as [H1 H2]. apply FOP_cons_iff. split; auto.
      eapply Permutation_Forall; eauto.
    - apply FOP_cons_iff in H as [H1 H2]. apply FOP_cons_iff in H2 as [H2 H3].
      inversion H1; subst. apply FOP_cons_iff; split; [constructor; auto|].
      apply FOP_cons_iff; auto.
  Qed.

  Lemma FOP_flat_map_filter {B} (f : B -> list A) p l :
    ForallOrdPairs R (flat_map f l) -> ForallOrdPairs R (flat_map f (filter p l)).
  Proof.
    induction l as [|a l IH]; simpl; auto. intros H.
    apply FOP_app in H as (H1 & H2 & H3). destruct (p a); simpl; auto.
    apply FOP_app. split; [assumption|]. split; [auto|].
    intros x y Hx Hy. apply H3; auto. eapply in_flat_map_filter; eauto.
  Qed.

  Lemma FOP_one a : ForallOrdPairs R [a].
  Proof. constructor; constructor. Qed.
End FOP.

(* ------------------------------------------------------------------ byte buffers *)

Lemma skipn_add {A} n m (l : list A) : skipn n (skipn m l) = skipn (m + n) l.
Proof.
  revert l. induction m as [|m IH]; intros l; simpl; auto.
  destruct l; simpl; auto. apply skipn_nil.
Qed.

Lemma bread_bwrite_above d off s o l :
  (off + length s <= o)%nat -> (off + length s <= length d)%nat ->
  bread (bwrite d off s) o l = bread d o l.
Proof.
  intros H1 H2. unfold bread, bwrite. f_equal.
  rewrite app_assoc. rewrite skipn_app.
  rewrite skipn_all2 by (rewrite app_length, firstn_length; lia).
  rewrite app_length, firstn_length, Nat.min_l by lia. simpl.
  rewrite skipn_add. f_equal. lia.
Qed.

(* a copy into [off, off+|s|) leaves every range that does not overlap it unchanged *)
Lemma bread_bwrite_frame d off s o l :
  off + slen s <= N.of_nat (length d) ->
  o + l <= off \/ off + slen s <= o ->
  bread (bwrite d (N.to_nat off) s) (N.to_nat o) (N.to_nat l) = bread d (N.to_nat o) (N.to_nat l).
Proof.
  unfold slen. intros H1 [H2|H2].
  - apply bread_bwrite_below; lia.
  - apply bread_bwrite_above; lia.
Qed.

Lemma bwrite_length_N d off s :
  off + slen s <= N.of_nat (length d) ->
  length (bwrite d (N.to_nat off) s) = length d.
Proof. unfold slen. intros H. apply bwrite_length. lia. Qed.

Lemma bread_bwrite_same_N d off s :
  off + slen s <= N.of_nat (length d) ->
  bread (bwrite d (N.to_nat off) s) (N.to_nat off) (N.to_nat (slen s)) = s.
Proof.
  unfold slen. intros H. rewrite Nat2N.id. apply bread_bwrite_same. lia.
Qed.

(* ------------------------------------------------------------------ block lists *)

Lemma find_block_none_inv id l : find_block id l = None -> ~ In id (map bid l).
Proof.
  induction l as [|b l IH]; simpl; auto.
  destruct (bid b =? id) eqn:E; [discriminate|]. apply N.eqb_neq in E.
  intros H [H1|H1]; [contradiction|]. now apply IH.
Qed.

(* for lists with pairwise different identities, [find_block] depends only on membership *)
Lemma find_block_perm id l l' :
  NoDup (map bid l) -> Permutation l l' -> find_block id l' = find_block id l.
Proof.
  intros Hnd HP.
  assert (Hnd' : NoDup (map bid l')) by (eapply Permutation_NoDup; [apply Permutation_map; eassumption|assumption]).
  destruct (find_block id l) as [b|] eqn:E.
  - apply find_block_some in E as [Hin <-]. apply find_block_in; auto.
    eapply Permutation_in; eauto.
  - apply find_block_none. intros Hin. apply find_block_none_inv in E. apply E.
    eapply Permutation_in; [apply Permutation_sym, Permutation_map; eassumption|assumption].
Qed.

Lemma set_block_split b' bs blk :
  find_block (bid b') bs = Some blk ->
  exists p1 p2, bs = p1 ++ blk :: p2 /\ set_block b' bs = p1 ++ b' :: p2.
Proof.
  induction bs as [|x bs IH]; simpl; [discriminate|].
  destruct (bid x =? bid b') eqn:E.
  - intros H; inversion H; subst. exists [], bs. auto.
  - intros H. destruct (IH H) as (p1 & p2 & -> & H2). exists (x :: p1), p2. simpl. now rewrite H2.
Qed.

Lemma region_disjoint_sym x y : region_disjoint x y -> region_disjoint y x.
Proof. unfold region_disjoint. intros [H|[H|H]]; auto. Qed.

(* ------------------------------------------------------------------ the strengthened invariant *)

(* [AInv] of ConcInv.v is true of every reachable state but is not inductive as stated; what
   is missing is (1) what a store program counter knows about the sizes it carries and (2) a
   protection of the reference a thread holds at [PMap] that does not depend on the key ->
   string entry still being there (see the report at the end of the file). *)

Definition spc_ok (s : str) (p : spc) : Prop :=
  match p with
  | SUsage2 next | SLimit2 next _ | SBcapStore next => slen s <= next
  | SAllocLoad req k next | SAllocCas _ req k next => slen s <= req /\ (k = ADoubled -> req = next)
  | SNewBlock cap => slen s <= cap
  | _ => True
  end.

Definition tref (c : cstate) (t : thread) : Prop :=
  match t_pc t with
  | PKeyAdd s r | PStrs s r _ | PMap s r _ => ref_denotes c r s
  | _ => True
  end.

Definition tpcs (t : thread) : Prop :=
  match t_pc t with PStore s _ => s <> [] | _ => True end.

Definition tspc (t : thread) : Prop :=
  match t_pc t with PStore s p => spc_ok s p | _ => True end.

(* the range behind the reference of a thread that has already put it in the key -> string map *)
Definition pmap_regions (t : thread) : list region :=
  match t_pc t with PMap s r _ => region_of_ref r s true | _ => [] end.

Definition tregions (ts : list thread) : list region := flat_map thread_regions ts.
Definition sregions (l : list entry) : list region :=
  flat_map (fun e => region_of_ref (e_ref e) (e_str e) true) l.

(* no reserved-but-unwritten range overlaps such a reference *)
Definition pmap_safe (c : cstate) : Prop :=
  forall x y, In x (flat_map pmap_regions (c_threads c)) -> In y (tregions (c_threads c)) ->
              g_written y = false -> region_disjoint x y.

Record AInv' (c : cstate) : Prop := {
  ai_base : AInv c;
  ai_spc : Forall tspc (c_threads c);
  ai_pmap : pmap_safe c
}.

(* ------------------------------------------------------------------ normal forms *)

Definition ref_den (bs : list block) (r : sref) (s : str) : Prop :=
  match r with
  | REmpty => s = []
  | RStatic _ s' => s' = s
  | RArena b off len =>
      0 < len /\ exists blk, find_block b bs = Some blk /\ off + len <= bused blk /\
                             off + len <= N.of_nat (length (bdata blk)) /\
                             bread (bdata blk) (N.to_nat off) (N.to_nat len) = s
  end.

Lemma ref_denotes_iff c r s : ref_denotes c r s <-> ref_den (c_blocks c) r s.
Proof.
  unfold ref_denotes, ref_den. destruct r as [|a s'|b off len]; simpl.
  - split; [intros [_ H]; congruence | intros ->; auto].
  - split; [intros [_ H]; congruence | intros ->; auto].
  - split.
    + intros [(Hl & blk & Hf & Hu) Hr]. rewrite Hf in Hr.
      destruct (off + len <=? N.of_nat (length (bdata blk))) eqn:E; [|discriminate].
      apply N.leb_le in E. inversion Hr. split; auto. exists blk. auto.
    + intros (Hl & blk & Hf & Hu & Hd & Hr). split.
      * split; auto. exists blk; auto.
      * rewrite Hf. apply N.leb_le in Hd. rewrite Hd. now rewrite Hr.
Qed.

Definition region_okB (bs : list block) (g : region) : Prop :=
  0 < g_len g /\ g_len g = slen (g_str g) /\
  exists blk, find_block (g_b g) bs = Some blk /\
              g_off g + g_len g <= bused blk /\
              (g_written g = true ->
               bread (bdata blk) (N.to_nat (g_off g)) (N.to_nat (g_len g)) = g_str g).

Lemma region_ok_B c g : region_ok c g = region_okB (all_blocks c) g.
Proof. reflexivity. Qed.

(* transfer along a change of the block list that keeps what the range needs *)
Lemma region_okB_mono bs bs' g :
  region_okB bs g ->
  (forall blk, find_block (g_b g) bs = Some blk ->
     exists blk', find_block (g_b g) bs' = Some blk' /\ bused blk <= bused blk' /\
                  (g_written g = true ->
                   bread (bdata blk') (N.to_nat (g_off g)) (N.to_nat (g_len g)) =
                   bread (bdata blk) (N.to_nat (g_off g)) (N.to_nat (g_len g)))) ->
  region_okB bs' g.
Proof.
  intros (H1 & H2 & blk & Hf & Hu & Hw) H. destruct (H _ Hf) as (blk' & Hf' & Hu' & Hw').
  split; auto. split; auto. exists blk'. split; auto. split; [lia|].
  intros Hg. rewrite Hw'; auto.
Qed.

Lemma ref_den_mono bs bs' r s :
  ref_den bs r s ->
  (forall b off len blk, r = RArena b off len -> find_block b bs = Some blk ->
     exists blk', find_block b bs' = Some blk' /\ bused blk <= bused blk' /\
                  length (bdata blk') = length (bdata blk) /\
                  bread (bdata blk') (N.to_nat off) (N.to_nat len) =
                  bread (bdata blk) (N.to_nat off) (N.to_nat len)) ->
  ref_den bs' r s.
Proof.
  destruct r as [|a s'|b off len]; simpl; auto.
  intros (Hl & blk & Hf & Hu & Hd & Hr) H.
  destruct (H _ _ _ _ eq_refl Hf) as (blk' & Hf' & Hu' & Hlen & Hrd).
  split; auto. exists blk'. split; auto. split; [lia|]. split; [rewrite Hlen; lia|]. congruence.
Qed.

(* ------------------------------------------------------------------ splitting off the moving thread *)

Definition ib (t : thread) : list block :=
  match inflight_block t with Some b => [b] | None => [] end.

Lemma inflight_blocks_ib c : inflight_blocks c = flat_map ib (c_threads c).
Proof. reflexivity. Qed.

Lemma regions_split c : regions c = sregions (c_strs c) ++ tregions (c_threads c).
Proof. reflexivity. Qed.

Definition rest (strs : list entry) (l1 l2 : list thread) : list region :=
  sregions strs ++ tregions l1 ++ tregions l2.

Lemma regions_perm c l1 t l2 :
  c_threads c = l1 ++ t :: l2 ->
  Permutation (regions c) (thread_regions t ++ rest (c_strs c) l1 l2).
Proof.
  intros H. rewrite regions_split, H. unfold tregions, rest. rewrite flat_map_mid.
  rewrite (app_assoc (sregions (c_strs c))). 
  eapply Permutation_trans; [apply Permutation_app_swap_app|].
  rewrite <- app_assoc. apply Permutation_refl.
Qed.

Lemma in_mid {A} (x y : A) l1 l2 : In x (l1 ++ l2) -> In x (l1 ++ y :: l2).
Proof. rewrite !in_app_iff. simpl. tauto. Qed.

Lemma in_mid_inv {A} (x y : A) l1 l2 : In x (l1 ++ y :: l2) -> x = y \/ In x (l1 ++ l2).
Proof. rewrite !in_app_iff. simpl. intuition. Qed.

Lemma in_mid_self {A} (y : A) l1 l2 : In y (l1 ++ y :: l2).
Proof. rewrite in_app_iff. simpl. tauto. Qed.

Lemma in_rest_thread strs l1 l2 ti g :
  In ti (l1 ++ l2) -> In g (thread_regions ti) -> In g (rest strs l1 l2).
Proof.
  intros Hti Hg. unfold rest, tregions. rewrite <- flat_map_app.
  apply in_or_app. right. apply in_flat_map. eauto.
Qed.

Lemma in_rest_entry strs l1 l2 e g :
  In e strs -> In g (region_of_ref (e_ref e) (e_str e) true) -> In g (rest strs l1 l2).
Proof.
  intros He Hg. unfold rest, sregions. apply in_or_app. left. apply in_flat_map. eauto.
Qed.

Lemma in_tregions_mid l1 t l2 g :
  In g (tregions (l1 ++ t :: l2)) <-> In g (thread_regions t) \/ In g (tregions (l1 ++ l2)).
Proof.
  unfold tregions. rewrite flat_map_mid, flat_map_app, !in_app_iff. tauto.
Qed.

Lemma in_pmap_mid l1 t l2 g :
  In g (flat_map pmap_regions (l1 ++ t :: l2)) <->
  In g (pmap_regions t) \/ In g (flat_map pmap_regions (l1 ++ l2)).
Proof.
  rewrite flat_map_mid, flat_map_app, !in_app_iff. tauto.
Qed.

Lemma split_facts c l1 t l2 :
  AInv c -> c_threads c = l1 ++ t :: l2 ->
  Forall (region_ok c) (thread_regions t) /\
  Forall (region_ok c) (rest (c_strs c) l1 l2) /\
  ForallOrdPairs region_disjoint (thread_regions t) /\
  ForallOrdPairs region_disjoint (rest (c_strs c) l1 l2) /\
  (forall x y, In x (thread_regions t) -> In y (rest (c_strs c) l1 l2) -> region_disjoint x y).
Proof.
  intros HA Hth. pose proof (regions_perm c _ _ _ Hth) as HP.
  assert (Hreg : Forall (region_ok c) (thread_regions t ++ rest (c_strs c) l1 l2))
    by (eapply Permutation_Forall; [exact HP|apply HA]).
  assert (Hdis : ForallOrdPairs region_disjoint (thread_regions t ++ rest (c_strs c) l1 l2))
    by (eapply FOP_perm; [exact region_disjoint_sym|exact HP|apply HA]).
  apply Forall_app in Hreg as [H1 H2]. apply FOP_app in Hdis as (H3 & H4 & H5).
  exact (conj H1 (conj H2 (conj H3 (conj H4 H5)))).
Qed.

Lemma all_blocks_mid c l1 t l2 :
  c_threads c = l1 ++ t :: l2 ->
  all_blocks c = c_blocks c ++ flat_map ib l1 ++ ib t ++ flat_map ib l2.
Proof.
  intros H. unfold all_blocks. rewrite inflight_blocks_ib, H, flat_map_mid. reflexivity.
Qed.

Lemma Forall_mid {A} (P : A -> Prop) l1 t t' l2 :
  Forall P (l1 ++ t :: l2) -> P t' -> Forall P (l1 ++ t' :: l2).
Proof.
  intros H Ht. apply Forall_app in H as [H1 H2]. inversion H2; subst.
  apply Forall_app; split; auto.
Qed.

Lemma Forall_mid_in {A} (P : A -> Prop) l1 t l2 :
  Forall P (l1 ++ t :: l2) -> P t /\ forall x, In x (l1 ++ l2) -> P x.
Proof.
  intros H. rewrite Forall_forall in H. split.
  - apply H, in_mid_self.
  - intros x Hx. apply H, in_mid, Hx.
Qed.

(* ------------------------------------------------------------------ the assembly lemma *)

(* One thread moves from [t] to [t'], the key -> string map is unchanged.  What remains to be
   shown for each kind of step: the block-level clauses, the accounting, that the other
   owners' ranges and references survive, and the clauses about the moved thread. *)
Lemma assemble c c' l1 t t' l2 :
  AInv' c -> c_threads c = l1 ++ t :: l2 -> c_threads c' = l1 ++ t' :: l2 ->
  c_strs c' = c_strs c ->
  Forall block_ok (all_blocks c') -> NoDup (map bid (all_blocks c')) ->
  Forall (fun b => bid b < c_next_bid c') (all_blocks c') -> c_blocks c' <> [] ->
  0 < c_bcap c' ->
  c_usage c' = sum_N (map bcap (c_blocks c')) + sum_N (map inflight_cap (c_threads c')) ->
  (forall g, In g (rest (c_strs c) l1 l2) -> region_ok c g -> region_ok c' g) ->
  (forall r s, ref_denotes c r s ->
     (forall g y, In g (region_of_ref r s true) -> In y (thread_regions t) ->
                  g_written y = false -> region_disjoint g y) ->
     ref_denotes c' r s) ->
  Forall (region_ok c') (thread_regions t') ->
  ForallOrdPairs region_disjoint (thread_regions t') ->
  (forall g g', In g (thread_regions t') -> In g' (rest (c_strs c) l1 l2) ->
                region_ok c g' -> region_disjoint g g') ->
  tref c' t' -> tpcs t' -> tspc t' -> pmap_regions t' = [] ->
  (forall ti s r k x y, In ti (l1 ++ l2) -> t_pc ti = PMap s r k -> ref_denotes c r s ->
     In x (region_of_ref r s true) -> In y (thread_regions t') -> g_written y = false ->
     region_disjoint x y) ->
  AInv' c'.
Proof.
  intros [HA Hspc Hpm] Hth Hth' Hstrs Hbok Hnd Hfr Hne Hbc Hus Hrok Hden Htrok Htfop Htdis
         Htref Htpcs Htspc Htpm Hpmnew.
  destruct (split_facts _ _ _ _ HA Hth) as (Hreg_t & Hreg_r & Hd_t & Hd_r & Hd_x).
  assert (Hsafe : forall g y, In g (rest (c_strs c) l1 l2) -> In y (thread_regions t) ->
                              region_disjoint g y)
    by (intros; apply region_disjoint_sym; auto).
  pose proof (ai_thread_refs _ HA) as Hrefs. rewrite Hth in Hrefs.
  apply Forall_mid_in in Hrefs as [_ Hrefs].
  assert (Hothers : forall ti, In ti (l1 ++ l2) -> tref c' ti).
  { intros ti Hti. specialize (Hrefs ti Hti). unfold tref. destruct (t_pc ti) eqn:Epc; auto.
    - apply Hden; auto. intros g y Hg Hy _. apply Hsafe; auto.
      eapply in_rest_thread; eauto. unfold thread_regions. now rewrite Epc.
    - apply Hden; auto. intros g y Hg Hy _. apply Hsafe; auto.
      eapply in_rest_thread; eauto. unfold thread_regions. now rewrite Epc.
    - apply Hden; auto. intros g y Hg Hy Hw. apply Hpm; auto.
      + rewrite Hth. apply in_pmap_mid. right. apply in_flat_map. exists ti. split; auto.
        unfold pmap_regions. now rewrite Epc.
      + rewrite Hth. apply in_tregions_mid. now left. }
  pose proof (regions_perm c' _ _ _ Hth') as HP'. rewrite Hstrs in HP'.
  apply Permutation_sym in HP'.
  constructor; [constructor|..]; auto.
  - (* regions ok *)
    eapply Permutation_Forall; [exact HP'|]. apply Forall_app. split; auto.
    rewrite Forall_forall in *. auto.
  - (* disjoint *)
    eapply FOP_perm; [exact region_disjoint_sym|exact HP'|]. apply FOP_app.
    split; auto. split; auto. intros x y Hx Hy. apply Htdis; auto.
    rewrite Forall_forall in Hreg_r. auto.
  - (* strs denote *)
    rewrite Hstrs. pose proof (ai_strs_denote _ HA) as H. rewrite Forall_forall in *.
    intros e He. apply Hden; auto. intros g y Hg Hy _. apply Hsafe; auto.
    eapply in_rest_entry; eauto.
  - (* thread refs *)
    rewrite Hth'. apply Forall_forall. intros ti Hti. apply in_mid_inv in Hti as [->|Hti].
    + exact Htref.
    + apply (Hothers ti Hti).
  - (* store pcs *)
    rewrite Hth'. pose proof (ai_store_pcs _ HA) as H. rewrite Hth in H.
    eapply Forall_mid; eauto.
  - (* store pc facts *)
    rewrite Hth'. rewrite Hth in Hspc. eapply Forall_mid; eauto.
  - (* pmap_safe *)
    intros x y Hx Hy Hw. rewrite Hth' in Hx, Hy.
    apply in_pmap_mid in Hx as [Hx|Hx]; [rewrite Htpm in Hx; destruct Hx|].
    apply in_tregions_mid in Hy as [Hy|Hy].
    + apply in_flat_map in Hx as (ti & Hti & Hx).
      unfold pmap_regions in Hx. destruct (t_pc ti) eqn:Epc; try (now destruct Hx).
      eapply Hpmnew; eauto. specialize (Hrefs ti Hti). now rewrite Epc in Hrefs.
    + apply Hpm; auto; rewrite Hth.
      * apply in_pmap_mid. now right.
      * apply in_tregions_mid. now right.
Qed.

(* ------------------------------------------------------------------ kind 1: neutral steps *)

Lemma all_blocks_same c c' l1 t t' l2 :
  c_threads c = l1 ++ t :: l2 -> c_threads c' = l1 ++ t' :: l2 ->
  c_blocks c' = c_blocks c -> inflight_block t' = inflight_block t ->
  all_blocks c' = all_blocks c.
Proof.
  intros H H0 H1 H2. rewrite (all_blocks_mid c _ _ _ H), (all_blocks_mid c' _ _ _ H0), H1.
  unfold ib. now rewrite H2.
Qed.

Lemma tref_ext c c' t : c_blocks c' = c_blocks c -> tref c t -> tref c' t.
Proof.
  intros H. unfold tref. destruct (t_pc t); auto; rewrite !ref_denotes_iff, H; auto.
Qed.

Lemma in_pmap_thread ts ti s r k x :
  In ti ts -> t_pc ti = PMap s r k -> In x (region_of_ref r s true) ->
  In x (flat_map pmap_regions ts).
Proof.
  intros Hti Hpc Hx. apply in_flat_map. exists ti. split; auto.
  unfold pmap_regions. now rewrite Hpc.
Qed.

(* A step that changes only the moving thread's program counter (and possibly fields the
   storage invariant does not look at, or the usage counter together with the thread's
   granted budget), keeps or drops the thread's range, and keeps its unpublished block. *)
Lemma K1 c c' l1 t t' l2 :
  AInv' c -> c_threads c = l1 ++ t :: l2 -> c_threads c' = l1 ++ t' :: l2 ->
  c_blocks c' = c_blocks c -> c_next_bid c' = c_next_bid c -> c_strs c' = c_strs c ->
  0 < c_bcap c' ->
  c_usage c' + inflight_cap t = c_usage c + inflight_cap t' ->
  inflight_block t' = inflight_block t ->
  (thread_regions t' = thread_regions t \/ thread_regions t' = []) ->
  pmap_regions t' = [] ->
  tref c t' -> tpcs t' -> tspc t' -> AInv' c'.
Proof.
  intros HI Hth Hth' Hbl Hnb Hst Hbc Hus Hib Hreg Hpm Htref Htpcs Htspc.
  pose proof (all_blocks_same _ _ _ _ _ _ Hth Hth' Hbl Hib) as Hab.
  pose proof (ai_base _ HI) as HA.
  destruct (split_facts _ _ _ _ HA Hth) as (Hreg_t & Hreg_r & Hd_t & Hd_r & Hd_x).
  eapply assemble with (1 := HI) (2 := Hth) (3 := Hth') (4 := Hst).
  - rewrite Hab. apply HA.
  - rewrite Hab. apply HA.
  - rewrite Hab, Hnb. apply HA.
  - rewrite Hbl. apply HA.
  - exact Hbc.
  - rewrite Hbl, Hth', sum_N_mid. pose proof (ai_usage _ HA) as H.
    rewrite Hth, sum_N_mid in H. lia.
  - intros g _ Hg. rewrite region_ok_B in *. now rewrite Hab.
  - intros r s Hd _. apply ref_denotes_iff. rewrite Hbl. now apply ref_denotes_iff.
  - destruct Hreg as [-> | ->]; [|constructor].
    rewrite Forall_forall in *. intros g Hg. rewrite region_ok_B, Hab. now apply Hreg_t.
  - destruct Hreg as [-> | ->]; [assumption|constructor].
  - intros g g' Hg Hg' _. destruct Hreg as [Hr|Hr]; rewrite Hr in Hg; [auto|destruct Hg].
  - eapply tref_ext; eauto.
  - exact Htpcs.
  - exact Htspc.
  - exact Hpm.
  - intros ti s r k x y Hti Hpc Hd Hx Hy Hw. apply (ai_pmap _ HI); auto; rewrite Hth.
    + eapply in_pmap_thread; eauto. now apply in_mid.
    + apply in_tregions_mid. left. destruct Hreg as [Hr|Hr]; rewrite Hr in Hy; [auto|destruct Hy].
Qed.

Lemma K1n c c' tid t t' :
  AInv' c -> nth_error (c_threads c) tid = Some t ->
  c_threads c' = set_nth tid t' (c_threads c) ->
  c_blocks c' = c_blocks c -> c_next_bid c' = c_next_bid c -> c_strs c' = c_strs c ->
  0 < c_bcap c' ->
  c_usage c' + inflight_cap t = c_usage c + inflight_cap t' ->
  inflight_block t' = inflight_block t ->
  (thread_regions t' = thread_regions t \/ thread_regions t' = []) ->
  pmap_regions t' = [] ->
  tref c t' -> tpcs t' -> tspc t' -> AInv' c'.
Proof.
  intros HI Hnth Hth'. destruct (nth_error_split_set _ _ _ Hnth) as (l1 & l2 & Hth & _ & Hset).
  rewrite Hset in Hth'. eapply K1; eauto.
Qed.

(* ------------------------------------------------------------------ kinds 3, 4: a published block is updated in place *)

Lemma replace_facts c c' l1 t t' l2 b blk blk' :
  NoDup (map bid (all_blocks c)) ->
  c_threads c = l1 ++ t :: l2 -> c_threads c' = l1 ++ t' :: l2 ->
  inflight_block t' = inflight_block t ->
  find_block b (c_blocks c) = Some blk -> bid blk' = b -> bcap blk' = bcap blk ->
  c_blocks c' = set_block blk' (c_blocks c) ->
  (forall id, find_block id (c_blocks c') =
              if b =? id then Some blk' else find_block id (c_blocks c)) /\
  (forall id, find_block id (all_blocks c') =
              if b =? id then Some blk' else find_block id (all_blocks c)) /\
  find_block b (all_blocks c) = Some blk /\
  map bid (all_blocks c') = map bid (all_blocks c) /\
  map bcap (c_blocks c') = map bcap (c_blocks c) /\
  (forall P : block -> Prop, Forall P (all_blocks c) -> P blk' -> Forall P (all_blocks c')) /\
  c_blocks c' <> [].
Proof.
  intros Hnd Hth Hth' Hib Hf Hb Hcap Hbl. subst b.
  destruct (set_block_split _ _ _ Hf) as (p1 & p2 & Hc & Hs).
  pose proof (find_block_some _ _ _ Hf) as [_ Hid].
  assert (Hab : all_blocks c = p1 ++ blk :: (p2 ++ inflight_blocks c))
    by (unfold all_blocks; rewrite Hc, <- app_assoc; reflexivity).
  assert (Hib' : inflight_blocks c' = inflight_blocks c).
  { rewrite !inflight_blocks_ib, Hth, Hth', !flat_map_mid. unfold ib. now rewrite Hib. }
  assert (Hab' : all_blocks c' = p1 ++ blk' :: (p2 ++ inflight_blocks c))
    by (unfold all_blocks; rewrite Hbl, Hs, Hib', <- app_assoc; reflexivity).
  assert (Hndc : NoDup (map bid (p1 ++ blk :: p2))).
  { rewrite Hab in Hnd. rewrite app_comm_cons, app_assoc, map_app in Hnd.
    now apply NoDup_app_l in Hnd. }
  split; [|split; [|split; [|split; [|split; [|split]]]]].
  - intros id. rewrite Hbl, Hs, Hc, <- Hid. apply find_block_replace; auto.
  - intros id. rewrite Hab', Hab, <- Hid. apply find_block_replace; auto. now rewrite <- Hab.
  - unfold all_blocks. rewrite find_block_app, Hf. reflexivity.
  - rewrite Hab', Hab, !map_app. simpl. now rewrite Hid.
  - rewrite Hbl, Hs, Hc, !map_app. simpl. now rewrite Hcap.
  - intros P HP Hblk'. rewrite Hab in HP. rewrite Hab'. eapply Forall_mid; eauto.
  - rewrite Hbl, Hs. destruct p1; discriminate.
Qed.

Lemma K_cas c c' tid t t' s b seen tries rs blk :
  AInv' c -> nth_error (c_threads c) tid = Some t -> c_threads c' = set_nth tid t' (c_threads c) ->
  t_pc t = PStore s (SCas b seen tries rs) -> t_pc t' = PStore s (SCopy b seen) ->
  find_block b (c_blocks c) = Some blk -> bused blk = seen -> seen + slen s <= bcap blk ->
  c_blocks c' = set_block (mkBlock (bid blk) (bcap blk) (seen + slen s) (bdata blk)) (c_blocks c) ->
  c_next_bid c' = c_next_bid c -> c_strs c' = c_strs c -> c_bcap c' = c_bcap c ->
  c_usage c' = c_usage c -> AInv' c'.
Proof.
  intros HI Hnth Hth' Hpc Hpc' Hf Hseen Hfit Hbl Hnb Hst Hbc Hus.
  destruct (nth_error_split_set _ _ _ Hnth) as (l1 & l2 & Hth & _ & Hset). rewrite Hset in Hth'.
  clear Hset Hnth.
  pose proof (ai_base _ HI) as HA.
  destruct (split_facts _ _ _ _ HA Hth) as (Hreg_t & Hreg_r & Hd_t & Hd_r & Hd_x).
  destruct t as [p0 cl pr ou], t' as [p0' cl' pr' ou']. cbn [t_pc] in Hpc, Hpc'. subst p0 p0'.
  pose proof (find_block_some _ _ _ Hf) as [_ Hid].
  set (blk' := mkBlock (bid blk) (bcap blk) (seen + slen s) (bdata blk)) in *.
  destruct (replace_facts c c' _ _ _ _ b blk blk' (ai_nodup _ HA) Hth Hth' eq_refl Hf Hid eq_refl Hbl)
    as (Hfc & Hfa & Hfb & Hmid & Hmcap & HP & Hne).
  assert (Hs : s <> []).
  { pose proof (ai_store_pcs _ HA) as H. rewrite Hth in H. apply Forall_mid_in in H as [H _]. exact H. }
  pose proof (slen_pos _ Hs) as Hlen.
  assert (Hblk : block_ok blk).
  { pose proof (ai_blocks_ok _ HA) as H. rewrite Forall_forall in H. apply H.
    apply find_block_some in Hfb. tauto. }
  eapply assemble with (1 := HI) (2 := Hth) (3 := Hth') (4 := Hst).
  - apply HP; [apply HA|]. destruct Hblk as (H1 & H2 & H3). unfold block_ok, blk'; simpl. auto.
  - rewrite Hmid. apply HA.
  - rewrite Hnb. apply HP; [apply HA|]. unfold blk'; simpl.
    pose proof (ai_fresh _ HA) as H. rewrite Forall_forall in H. apply H.
    apply find_block_some in Hfb. tauto.
  - exact Hne.
  - rewrite Hbc. apply HA.
  - rewrite Hus, Hmcap, Hth', sum_N_mid. pose proof (ai_usage _ HA) as H.
    rewrite Hth, sum_N_mid in H. cbn in *. lia.
  - intros g _ Hg. rewrite region_ok_B in *. eapply region_okB_mono; [exact Hg|].
    intros blk0 Hf0. rewrite Hfa. destruct (b =? g_b g) eqn:E.
    + apply N.eqb_eq in E. rewrite <- E, Hfb in Hf0. inversion Hf0; subst blk0.
      exists blk'. split; auto. unfold blk'; simpl. split; [lia|auto].
    + exists blk0. split; auto. split; [lia|auto].
  - intros r s1 Hd _. apply ref_denotes_iff. apply ref_denotes_iff in Hd.
    eapply ref_den_mono; [exact Hd|]. intros b1 off len blk0 _ Hf0. rewrite Hfc.
    destruct (b =? b1) eqn:E.
    + apply N.eqb_eq in E. rewrite <- E, Hf in Hf0. inversion Hf0; subst blk0.
      exists blk'. split; auto. unfold blk'; simpl. split; [lia|auto].
    + exists blk0. split; auto. split; [lia|auto].
  - cbn. constructor; [|constructor]. rewrite region_ok_B. unfold region_okB; cbn.
    split; auto. split; auto. exists blk'. rewrite Hfa, N.eqb_refl. split; auto.
    unfold blk'; simpl. split; [lia|discriminate].
  - cbn. apply FOP_one.
  - cbn. intros g g' [<-|[]] Hg' (_ & _ & blk0 & Hf0 & Hu0 & _). unfold region_disjoint; cbn.
    destruct (N.eq_dec b (g_b g')) as [E|E]; [|auto].
    rewrite <- E, Hfb in Hf0. inversion Hf0; subst blk0. right. right. lia.
  - exact I.
  - exact Hs.
  - exact I.
  - reflexivity.
  - cbn. intros ti s1 r k x y Hti Hpcti Hd Hx [<-|[]] _.
    apply ref_denotes_iff in Hd. destruct r as [| |b1 o l]; try (now destruct Hx).
    destruct Hx as [<-|[]]. destruct Hd as (_ & blk0 & Hf0 & Hu0 & _).
    unfold region_disjoint; cbn.
    destruct (N.eq_dec b1 b) as [E|E]; [|auto].
    rewrite E, Hf in Hf0. inversion Hf0; subst blk0. right. left. lia.
Qed.

Lemma K_copy c c' tid t t' s b off blk :
  AInv' c -> nth_error (c_threads c) tid = Some t -> c_threads c' = set_nth tid t' (c_threads c) ->
  t_pc t = PStore s (SCopy b off) -> t_pc t' = PKeyAdd s (RArena b off (slen s)) ->
  find_block b (c_blocks c) = Some blk ->
  c_blocks c' = set_block (mkBlock (bid blk) (bcap blk) (bused blk)
                                   (bwrite (bdata blk) (N.to_nat off) s)) (c_blocks c) ->
  c_next_bid c' = c_next_bid c -> c_strs c' = c_strs c -> c_bcap c' = c_bcap c ->
  c_usage c' = c_usage c -> AInv' c'.
Proof.
  intros HI Hnth Hth' Hpc Hpc' Hf Hbl Hnb Hst Hbc Hus.
  destruct (nth_error_split_set _ _ _ Hnth) as (l1 & l2 & Hth & _ & Hset). rewrite Hset in Hth'.
  clear Hset Hnth.
  pose proof (ai_base _ HI) as HA.
  destruct (split_facts _ _ _ _ HA Hth) as (Hreg_t & Hreg_r & Hd_t & Hd_r & Hd_x).
  destruct t as [p0 cl pr ou], t' as [p0' cl' pr' ou']. cbn [t_pc] in Hpc, Hpc'. subst p0 p0'.
  pose proof (find_block_some _ _ _ Hf) as [_ Hid].
  set (blk' := mkBlock (bid blk) (bcap blk) (bused blk) (bwrite (bdata blk) (N.to_nat off) s)) in *.
  destruct (replace_facts c c' _ _ _ _ b blk blk' (ai_nodup _ HA) Hth Hth' eq_refl Hf Hid eq_refl Hbl)
    as (Hfc & Hfa & Hfb & Hmid & Hmcap & HP & Hne).
  assert (Hs : s <> []).
  { pose proof (ai_store_pcs _ HA) as H. rewrite Hth in H. apply Forall_mid_in in H as [H _]. exact H. }
  pose proof (slen_pos _ Hs) as Hlen.
  assert (Hblk : block_ok blk).
  { pose proof (ai_blocks_ok _ HA) as H. rewrite Forall_forall in H. apply H.
    apply find_block_some in Hfb. tauto. }
  destruct Hblk as (Hb1 & Hb2 & Hb3).
  (* the reserved range lies inside the used part of blk *)
  cbn in Hreg_t, Hd_x. apply Forall_inv in Hreg_t.
  destruct Hreg_t as (_ & _ & blk0 & Hf0 & Hu0 & _). cbn in Hf0, Hu0.
  rewrite Hfb in Hf0. inversion Hf0; subst blk0. clear Hf0.
  assert (Hin : off + slen s <= N.of_nat (length (bdata blk))) by lia.
  eapply assemble with (1 := HI) (2 := Hth) (3 := Hth') (4 := Hst).
  - apply HP; [apply HA|]. unfold block_ok, blk'; simpl. rewrite bwrite_length_N; auto.
  - rewrite Hmid. apply HA.
  - rewrite Hnb. apply HP; [apply HA|]. unfold blk'; simpl.
    pose proof (ai_fresh _ HA) as H. rewrite Forall_forall in H. apply H.
    apply find_block_some in Hfb. tauto.
  - exact Hne.
  - rewrite Hbc. apply HA.
  - rewrite Hus, Hmcap, Hth', sum_N_mid. pose proof (ai_usage _ HA) as H.
    rewrite Hth, sum_N_mid in H. cbn in *. lia.
  - intros g Hgin Hg. rewrite region_ok_B in *. eapply region_okB_mono; [exact Hg|].
    intros blk0 Hf0. rewrite Hfa. destruct (b =? g_b g) eqn:E.
    + apply N.eqb_eq in E. rewrite <- E, Hfb in Hf0. inversion Hf0; subst blk0.
      exists blk'. split; auto. unfold blk'; simpl. split; [lia|]. intros _.
      apply bread_bwrite_frame; auto.
      specialize (Hd_x _ g (or_introl eq_refl) Hgin). unfold region_disjoint in Hd_x. cbn in Hd_x.
      destruct Hd_x as [H|[H|H]]; [congruence|right; exact H|left; exact H].
    + exists blk0. split; auto. split; [lia|auto].
  - intros r s1 Hd Hsafe. apply ref_denotes_iff. apply ref_denotes_iff in Hd.
    eapply ref_den_mono; [exact Hd|]. intros b1 o l blk0 -> Hf0. rewrite Hfc.
    destruct (b =? b1) eqn:E.
    + apply N.eqb_eq in E. rewrite <- E, Hf in Hf0. inversion Hf0; subst blk0.
      exists blk'. split; auto. unfold blk'; simpl. split; [lia|].
      split; [apply bwrite_length_N; auto|].
      apply bread_bwrite_frame; auto.
      specialize (Hsafe _ _ (or_introl eq_refl) (or_introl eq_refl) eq_refl).
      unfold region_disjoint in Hsafe. cbn in Hsafe.
      destruct Hsafe as [H|[H|H]]; [congruence|left; exact H|right; exact H].
    + exists blk0. split; auto. split; [lia|auto].
  - cbn. constructor; [|constructor]. rewrite region_ok_B. unfold region_okB; cbn.
    split; auto. split; auto. exists blk'. rewrite Hfa, N.eqb_refl. split; auto.
    unfold blk'; simpl. split; [lia|]. intros _. apply bread_bwrite_same_N; auto.
  - cbn. apply FOP_one.
  - cbn. intros g g' [<-|[]] Hg' _.
    specialize (Hd_x _ g' (or_introl eq_refl) Hg'). exact Hd_x.
  - unfold tref; cbn. apply ref_denotes_iff. cbn. split; auto. exists blk'.
    rewrite Hfc, N.eqb_refl. split; auto. unfold blk'; simpl. split; [lia|].
    rewrite bwrite_length_N by auto. split; [lia|]. apply bread_bwrite_same_N; auto.
  - exact I.
  - exact I.
  - reflexivity.
  - cbn. intros ti s1 r k x y _ _ _ _ [<-|[]] Hw. discriminate Hw.
Qed.

(* ------------------------------------------------------------------ kind 5: a new unpublished block *)

Lemma Forall_insert {A} (P : A -> Prop) l1 x l2 :
  Forall P (l1 ++ l2) -> P x -> Forall P (l1 ++ x :: l2).
Proof.
  intros H Hx. apply Forall_app in H as [H1 H2]. apply Forall_app. split; auto.
Qed.

Lemma K_new c c' tid t t' s cap blk r :
  AInv' c -> nth_error (c_threads c) tid = Some t -> c_threads c' = set_nth tid t' (c_threads c) ->
  t_pc t = PStore s (SNewBlock cap) -> push_slice (fresh_block (c_next_bid c) cap) s = (blk, r) ->
  t_pc t' = PStore s (SPushLoad blk) ->
  c_blocks c' = c_blocks c ->
  c_next_bid c' = c_next_bid c + 1 -> c_strs c' = c_strs c -> c_bcap c' = c_bcap c ->
  c_usage c' = c_usage c -> AInv' c'.
Proof.
  intros HI Hnth Hth' Hpc Hps Hpc' Hbl Hnb Hst Hbc Hus.
  destruct (nth_error_split_set _ _ _ Hnth) as (l1 & l2 & Hth & _ & Hset). rewrite Hset in Hth'.
  clear Hset Hnth.
  pose proof (ai_base _ HI) as HA.
  destruct (split_facts _ _ _ _ HA Hth) as (Hreg_t & Hreg_r & Hd_t & Hd_r & Hd_x).
  destruct t as [p0 cl pr ou], t' as [p0' cl' pr' ou']. cbn [t_pc] in Hpc, Hpc'. subst p0 p0'.
  assert (Hs : s <> []).
  { pose proof (ai_store_pcs _ HA) as H. rewrite Hth in H. apply Forall_mid_in in H as [H _]. exact H. }
  pose proof (slen_pos _ Hs) as Hlen.
  assert (Hcap : slen s <= cap).
  { pose proof (ai_spc _ HI) as H. rewrite Hth in H. apply Forall_mid_in in H as [H _]. exact H. }
  assert (Hfb : block_ok (fresh_block (c_next_bid c) cap)) by (apply fresh_block_ok; lia).
  assert (Hfit : bused (fresh_block (c_next_bid c) cap) + slen s <= bcap (fresh_block (c_next_bid c) cap))
    by (simpl; lia).
  destruct (push_slice_spec _ _ _ _ Hfb Hfit Hps)
    as (Hb' & Hid & Hbcap & Hused & _ & _ & Hrd & _).
  simpl in Hid, Hbcap, Hused, Hrd.
  set (X := c_blocks c ++ flat_map ib l1).
  assert (Hab : all_blocks c = X ++ flat_map ib l2)
    by (rewrite (all_blocks_mid _ _ _ _ Hth); unfold X; cbn; now rewrite <- app_assoc).
  assert (Hab' : all_blocks c' = X ++ blk :: flat_map ib l2)
    by (rewrite (all_blocks_mid _ _ _ _ Hth'), Hbl; unfold X; cbn; now rewrite <- app_assoc).
  pose proof (ai_fresh _ HA) as Hfr. rewrite Forall_forall in Hfr.
  assert (Hfresh : ~ In (bid blk) (map bid (X ++ flat_map ib l2))).
  { rewrite <- Hab, Hid. intros Hin. apply in_map_iff in Hin as (x & Hx & Hin).
    apply Hfr in Hin. lia. }
  assert (Hfa : forall id, find_block id (all_blocks c') =
                           if bid blk =? id then Some blk else find_block id (all_blocks c))
    by (intros id; rewrite Hab', Hab; now apply find_block_insert).
  assert (Hold : forall id blk0, find_block id (all_blocks c) = Some blk0 -> (bid blk =? id) = false).
  { intros id blk0 Hf0. apply find_block_some in Hf0 as [Hin <-]. apply Hfr in Hin.
    apply N.eqb_neq. lia. }
  eapply assemble with (1 := HI) (2 := Hth) (3 := Hth') (4 := Hst).
  - rewrite Hab'. apply Forall_insert; auto. rewrite <- Hab. apply HA.
  - rewrite Hab', map_app. simpl.
    apply (NoDup_Add (Add_app (bid blk) (map bid X) (map bid (flat_map ib l2)))). split.
    + rewrite <- map_app, <- Hab. apply HA.
    + now rewrite <- map_app.
  - rewrite Hab', Hnb. apply Forall_insert; [|lia]. rewrite <- Hab. apply Forall_forall.
    intros x Hx. apply Hfr in Hx. lia.
  - rewrite Hbl. apply HA.
  - rewrite Hbc. apply HA.
  - rewrite Hus, Hbl, Hth', sum_N_mid. pose proof (ai_usage _ HA) as H.
    rewrite Hth, sum_N_mid in H. cbn in *. lia.
  - intros g _ Hg. rewrite region_ok_B in *. eapply region_okB_mono; [exact Hg|].
    intros blk0 Hf0. rewrite Hfa, (Hold _ _ Hf0). exists blk0. split; auto. split; [lia|auto].
  - intros r0 s1 Hd _. apply ref_denotes_iff. rewrite Hbl. now apply ref_denotes_iff.
  - cbn. constructor; [|constructor]. rewrite region_ok_B. unfold region_okB; cbn.
    split; auto. split; auto. exists blk. rewrite Hfa, N.eqb_refl. split; auto.
    split; [lia|]. intros _. exact Hrd.
  - cbn. apply FOP_one.
  - cbn. intros g g' [<-|[]] Hg' (_ & _ & blk0 & Hf0 & _). left. cbn.
    apply Hold in Hf0. apply N.eqb_neq in Hf0. exact Hf0.
  - exact I.
  - exact Hs.
  - exact I.
  - reflexivity.
  - cbn. intros ti s1 r0 k x y _ _ _ _ [<-|[]] Hw. discriminate Hw.
Qed.

(* ------------------------------------------------------------------ kind 6: the block is published *)

Lemma K_push c c' tid t t' s blk seen :
  AInv' c -> nth_error (c_threads c) tid = Some t -> c_threads c' = set_nth tid t' (c_threads c) ->
  t_pc t = PStore s (SPushCas blk seen) -> t_pc t' = PKeyAdd s (RArena (bid blk) 0 (slen s)) ->
  c_blocks c' = blk :: c_blocks c ->
  c_next_bid c' = c_next_bid c -> c_strs c' = c_strs c -> c_bcap c' = c_bcap c ->
  c_usage c' = c_usage c -> AInv' c'.
Proof.
  intros HI Hnth Hth' Hpc Hpc' Hbl Hnb Hst Hbc Hus.
  destruct (nth_error_split_set _ _ _ Hnth) as (l1 & l2 & Hth & _ & Hset). rewrite Hset in Hth'.
  clear Hset Hnth.
  pose proof (ai_base _ HI) as HA.
  destruct (split_facts _ _ _ _ HA Hth) as (Hreg_t & Hreg_r & Hd_t & Hd_r & Hd_x).
  destruct t as [p0 cl pr ou], t' as [p0' cl' pr' ou']. cbn [t_pc] in Hpc, Hpc'. subst p0 p0'.
  assert (Hs : s <> []).
  { pose proof (ai_store_pcs _ HA) as H. rewrite Hth in H. apply Forall_mid_in in H as [H _]. exact H. }
  pose proof (slen_pos _ Hs) as Hlen.
  set (X := c_blocks c ++ flat_map ib l1).
  assert (Hab : all_blocks c = X ++ blk :: flat_map ib l2)
    by (rewrite (all_blocks_mid _ _ _ _ Hth); unfold X; cbn; now rewrite <- app_assoc).
  assert (Hab' : all_blocks c' = blk :: X ++ flat_map ib l2)
    by (rewrite (all_blocks_mid _ _ _ _ Hth'), Hbl; unfold X; cbn; now rewrite <- app_assoc).
  assert (HPm : Permutation (all_blocks c) (all_blocks c'))
    by (rewrite Hab, Hab'; apply Permutation_sym, Permutation_middle).
  pose proof (ai_nodup _ HA) as Hnd.
  assert (Hfa : forall id, find_block id (all_blocks c') = find_block id (all_blocks c))
    by (intros id; now apply find_block_perm).
  assert (Hinb : In blk (all_blocks c)) by (rewrite Hab; apply in_mid_self).
  assert (Hfb : find_block (bid blk) (all_blocks c) = Some blk) by (now apply find_block_in).
  assert (Hnotpub : ~ In (bid blk) (map bid (c_blocks c))).
  { rewrite Hab in Hnd. unfold X in Hnd. rewrite map_app in Hnd. simpl in Hnd.
    apply NoDup_remove_2 in Hnd. intros Hin. apply Hnd. rewrite map_app.
    apply in_or_app. left. apply in_or_app. now left. }
  assert (Hblk : block_ok blk).
  { pose proof (ai_blocks_ok _ HA) as H. rewrite Forall_forall in H. now apply H. }
  destruct Hblk as (Hb1 & Hb2 & Hb3).
  cbn in Hreg_t, Hd_x. apply Forall_inv in Hreg_t.
  destruct Hreg_t as (_ & _ & blk0 & Hf0 & Hu0 & Hw0). cbn in Hf0, Hu0, Hw0.
  rewrite Hfb in Hf0. inversion Hf0; subst blk0. clear Hf0. specialize (Hw0 eq_refl).
  eapply assemble with (1 := HI) (2 := Hth) (3 := Hth') (4 := Hst).
  - eapply Permutation_Forall; [exact HPm|apply HA].
  - eapply Permutation_NoDup; [apply Permutation_map; exact HPm|exact Hnd].
  - rewrite Hnb. eapply Permutation_Forall; [exact HPm|apply HA].
  - rewrite Hbl. discriminate.
  - rewrite Hbc. apply HA.
  - rewrite Hus, Hbl, Hth', sum_N_mid. pose proof (ai_usage _ HA) as H.
    rewrite Hth, sum_N_mid in H. cbn [map] in *. rewrite sum_N_cons. cbn in *. lia.
  - intros g _ Hg. rewrite region_ok_B in *. eapply region_okB_mono; [exact Hg|].
    intros blk0 Hf0. rewrite Hfa. exists blk0. split; auto. split; [lia|auto].
  - intros r0 s1 Hd _. apply ref_denotes_iff. apply ref_denotes_iff in Hd.
    eapply ref_den_mono; [exact Hd|]. intros b1 o l blk0 _ Hf0. rewrite Hbl. simpl.
    destruct (bid blk =? b1) eqn:E.
    + apply N.eqb_eq in E. exfalso. apply Hnotpub. apply find_block_some in Hf0 as [Hin <-].
      rewrite E. now apply in_map.
    + exists blk0. split; auto. split; [lia|auto].
  - cbn. constructor; [|constructor]. rewrite region_ok_B. unfold region_okB; cbn.
    split; auto. split; auto. exists blk. rewrite Hfa. split; auto.
  - cbn. apply FOP_one.
  - cbn. intros g g' [<-|[]] Hg' _.
    specialize (Hd_x _ g' (or_introl eq_refl) Hg'). exact Hd_x.
  - unfold tref; cbn. apply ref_denotes_iff. cbn. split; auto. exists blk.
    rewrite Hbl. simpl. rewrite N.eqb_refl. split; auto. split; [lia|]. split; [lia|auto].
  - exact I.
  - exact I.
  - reflexivity.
  - cbn. intros ti s1 r0 k x y _ _ _ _ [<-|[]] Hw. discriminate Hw.
Qed.

(* ------------------------------------------------------------------ kind 7: the range moves into the key -> string map *)

Lemma ref_denotes_ext c c' r s : c_blocks c' = c_blocks c -> ref_denotes c r s -> ref_denotes c' r s.
Proof. intros H. rewrite !ref_denotes_iff, H. auto. Qed.

Lemma in_rest_tregions strs l1 l2 g : In g (tregions (l1 ++ l2)) -> In g (rest strs l1 l2).
Proof.
  unfold rest, tregions. rewrite flat_map_app. intros H. apply in_or_app. now right.
Qed.

Lemma K_strs c c' tid t t' s r k :
  AInv' c -> nth_error (c_threads c) tid = Some t -> c_threads c' = set_nth tid t' (c_threads c) ->
  t_pc t = PStrs s r k -> t_pc t' = PMap s r k ->
  c_strs c' = strs_put (mkEntry r s k) (c_strs c) ->
  c_blocks c' = c_blocks c ->
  c_next_bid c' = c_next_bid c -> c_bcap c' = c_bcap c ->
  c_usage c' = c_usage c -> AInv' c'.
Proof.
  intros HI Hnth Hth' Hpc Hpc' Hst Hbl Hnb Hbc Hus.
  destruct (nth_error_split_set _ _ _ Hnth) as (l1 & l2 & Hth & _ & Hset). rewrite Hset in Hth'.
  clear Hset Hnth.
  pose proof (ai_base _ HI) as HA.
  destruct (split_facts _ _ _ _ HA Hth) as (Hreg_t & Hreg_r & Hd_t & Hd_r & Hd_x).
  destruct t as [p0 cl pr ou], t' as [p0' cl' pr' ou']. cbn [t_pc] in Hpc, Hpc'. subst p0 p0'.
  pose proof (all_blocks_same _ _ _ _ _ _ Hth Hth' Hbl eq_refl) as Hab.
  unfold strs_put in Hst. cbn [e_key] in Hst.
  set (F := filter (fun x => negb (e_key x =? k)) (c_strs c)) in *.
  cbn [thread_regions t_pc] in Hreg_t, Hd_t, Hd_x.
  assert (HPm : Permutation (regions c')
                  (region_of_ref r s true ++ (sregions F ++ tregions l1 ++ tregions l2))).
  { rewrite regions_split, Hst, Hth'. unfold sregions, tregions.
    rewrite flat_map_app, flat_map_mid. cbn [flat_map thread_regions t_pc e_ref e_str app].
    rewrite app_nil_r, <- app_assoc. apply Permutation_app_swap_app. }
  apply Permutation_sym in HPm.
  assert (Hsub : forall g, In g (sregions F ++ tregions l1 ++ tregions l2) ->
                           In g (rest (c_strs c) l1 l2)).
  { intros g Hg. unfold rest. apply in_app_or in Hg as [Hg|Hg]; apply in_or_app; [left|now right].
    unfold sregions, F in *. eapply in_flat_map_filter; eauto. }
  assert (Htref : ref_denotes c' r s).
  { pose proof (ai_thread_refs _ HA) as H. rewrite Hth in H. apply Forall_mid_in in H as [H _].
    eapply ref_denotes_ext; eauto. }
  constructor; [constructor|..].
  - rewrite Hab. apply HA.
  - rewrite Hab. apply HA.
  - rewrite Hab, Hnb. apply HA.
  - rewrite Hbl. apply HA.
  - rewrite Hbc. apply HA.
  - rewrite Hus, Hbl, Hth', sum_N_mid. pose proof (ai_usage _ HA) as H.
    rewrite Hth, sum_N_mid in H. cbn in *. lia.
  - eapply Permutation_Forall; [exact HPm|]. rewrite Forall_forall in *.
    intros g Hg. rewrite region_ok_B, Hab, <- region_ok_B.
    apply in_app_or in Hg as [Hg|Hg]; [apply Hreg_t, Hg|apply Hreg_r, Hsub, Hg].
  - eapply FOP_perm; [exact region_disjoint_sym|exact HPm|]. apply FOP_app.
    split; [exact Hd_t|]. split; [|intros x y Hx Hy; apply Hd_x; auto].
    unfold rest in Hd_r. apply FOP_app in Hd_r as (HA1 & HA2 & HA3). apply FOP_app.
    split; [apply FOP_flat_map_filter; exact HA1|]. split; [exact HA2|].
    intros x y Hx Hy. apply HA3; auto. unfold sregions, F in *. eapply in_flat_map_filter; eauto.
  - rewrite Hst. apply Forall_app. split.
    + pose proof (ai_strs_denote _ HA) as H. rewrite Forall_forall in *. intros e He.
      apply filter_In in He as [He _]. eapply ref_denotes_ext; eauto.
    + constructor; [|constructor]. exact Htref.
  - rewrite Hth'. pose proof (ai_thread_refs _ HA) as H. rewrite Hth in H.
    apply Forall_mid with (t := {| t_pc := PStrs s r k; t_call := cl; t_prog := pr; t_outs := ou |}).
    + eapply Forall_impl; [|exact H]. intros a Ha. eapply tref_ext; eauto.
    + exact Htref.
  - rewrite Hth'. pose proof (ai_store_pcs _ HA) as H. rewrite Hth in H.
    eapply Forall_mid; eauto. exact I.
  - rewrite Hth'. pose proof (ai_spc _ HI) as H. rewrite Hth in H.
    eapply Forall_mid; eauto. exact I.
  - intros x y Hx Hy Hw. rewrite Hth' in Hx, Hy.
    apply in_tregions_mid in Hy as [Hy|Hy]; [destruct Hy|].
    apply in_pmap_mid in Hx as [Hx|Hx].
    + cbn [pmap_regions t_pc] in Hx. apply Hd_x; auto. now apply in_rest_tregions.
    + apply (ai_pmap _ HI); auto; rewrite Hth.
      * apply in_pmap_mid. now right.
      * apply in_tregions_mid. now right.
Qed.

(* ------------------------------------------------------------------ the main theorem *)

Lemma ref_denotes_empty c : ref_denotes c REmpty [].
Proof. apply ref_denotes_iff. reflexivity. Qed.

Lemma ref_denotes_static c a s : ref_denotes c (RStatic a s) s.
Proof. apply ref_denotes_iff. reflexivity. Qed.

(* discharge a neutral step: everything but the arithmetic is by computation *)
Ltac k1 HI Hnth :=
  eapply K1n with (1 := HI) (2 := Hnth);
  [ reflexivity | reflexivity | reflexivity | reflexivity
  | cbn; try assumption; try lia
  | cbn; try lia
  | reflexivity
  | cbn; auto
  | reflexivity
  | unfold tref; cbn; auto using ref_denotes_empty, ref_denotes_static
  | unfold tpcs; cbn; auto; try discriminate
  | unfold tspc, spc_ok; cbn; auto; try lia;
    try (split; [lia|intros; try discriminate; try reflexivity; try lia]) ].

Section Proofs.
  Variable shard_of : str -> N.
  Variable keycap : N.
  Notation step := (step shard_of keycap).
  Notation reachable := (reachable shard_of keycap).

  Lemma store_step_AInv' c tid t s p ch :
    AInv' c -> nth_error (c_threads c) tid = Some t -> t_pc t = PStore s p ->
    AInv' (store_step true c tid t s p ch).
  Proof.
    intros HI Hnth Hpc.
    pose proof (ai_base _ HI) as HA.
    destruct (nth_error_split_set _ _ _ Hnth) as (l1 & l2 & Hth & _ & _).
    assert (Hs : s <> []).
    { pose proof (ai_store_pcs _ HA) as H. rewrite Hth in H. apply Forall_mid_in in H as [H _].
      now rewrite Hpc in H. }
    assert (Hsp : spc_ok s p).
    { pose proof (ai_spc _ HI) as H. rewrite Hth in H. apply Forall_mid_in in H as [H _].
      unfold tspc in H. now rewrite Hpc in H. }
    pose proof (slen_pos _ Hs) as Hlen.
    pose proof (ai_bcap _ HA) as Hbc.
    clear l1 l2 Hth.
    destruct t as [p0 cl pr ou]. cbn [t_pc] in Hpc. subst p0.
    unfold store_step.
    destruct p as [|b rs|b seen tries rs|b off| |req k next|cur req k next|next|next usage|next|cap|blk|blk seen];
      cbv zeta; cbn in Hsp.
    - (* SHead *) destruct (map bid (c_blocks c)); k1 HI Hnth.
    - (* SLen *) destruct (find_block b (c_blocks c)); k1 HI Hnth.
    - (* SCas *)
      destruct (find_block b (c_blocks c)) as [blk|] eqn:Hf; [|destruct rs; k1 HI Hnth].
      destruct ((tries <? 100)%nat && (seen + slen s <=? bcap blk)) eqn:E1; [|destruct rs; k1 HI Hnth].
      destruct ((bused blk =? seen) && negb ch) eqn:E2; [|k1 HI Hnth].
      apply andb_true_iff in E1 as [_ E1]. apply N.leb_le in E1.
      apply andb_true_iff in E2 as [E2 _]. apply N.eqb_eq in E2.
      eapply K_cas with (1 := HI) (2 := Hnth) (blk := blk); try reflexivity; eauto.
    - (* SCopy *)
      destruct (find_block b (c_blocks c)) as [blk|] eqn:Hf; [|k1 HI Hnth].
      eapply K_copy with (1 := HI) (2 := Hnth) (blk := blk); try reflexivity; eauto.
    - (* SBcap *)
      destruct (2 * c_bcap c <? slen s) eqn:E; [|apply N.ltb_ge in E]; k1 HI Hnth.
    - (* SAllocLoad *) k1 HI Hnth.
    - (* SAllocCas *)
      destruct Hsp as [Hsp1 Hsp2].
      destruct (c_limit c <? cur + req) eqn:E1; [k1 HI Hnth|].
      destruct ((c_usage c =? cur) && negb ch) eqn:E2; [|k1 HI Hnth].
      apply andb_true_iff in E2 as [E2 _]. apply N.eqb_eq in E2.
      destruct k.
      + k1 HI Hnth.
      + destruct (req =? 0) eqn:E3; [apply N.eqb_eq in E3|]; k1 HI Hnth.
      + specialize (Hsp2 eq_refl). k1 HI Hnth.
    - (* SUsage2 *) k1 HI Hnth.
    - (* SLimit2 *)
      destruct (c_limit c <? usage + next) eqn:E1.
      + destruct (c_limit c - usage <? slen s) eqn:E2; [|apply N.ltb_ge in E2]; k1 HI Hnth.
      + k1 HI Hnth.
    - (* SBcapStore *) k1 HI Hnth.
    - (* SNewBlock *)
      destruct (push_slice (fresh_block (c_next_bid c) cap) s) as [blk r] eqn:Hp.
      eapply K_new with (1 := HI) (2 := Hnth) (blk := blk); try reflexivity; eauto.
    - (* SPushLoad *) k1 HI Hnth.
    - (* SPushCas *)
      destruct (opt_N_eqb (head_id c) seen && negb ch); [|k1 HI Hnth].
      eapply K_push with (1 := HI) (2 := Hnth); try reflexivity.
  Qed.

  Theorem step_AInv' c tid ch c' : AInv' c -> step c tid ch = Some c' -> AInv' c'.
  Proof.
    intros HI Hstep. unfold Conc.step, step_gen in Hstep.
    destruct (nth_error (c_threads c) tid) as [t|] eqn:Hnth; [|discriminate].
    destruct (blocked shard_of c tid (t_pc t)); [discriminate|].
    pose proof (ai_base _ HI) as HA.
    destruct (nth_error_split_set _ _ _ Hnth) as (l1 & l2 & Hth & _ & _).
    assert (Htref : tref c t).
    { pose proof (ai_thread_refs _ HA) as H. rewrite Hth in H. apply Forall_mid_in in H as [H _].
      exact H. }
    pose proof (ai_bcap _ HA) as Hbc.
    clear l1 l2 Hth.
    destruct (t_pc t) as [|cl|s|s|s p|s r|s r k|s r k|addr s|addr s|k|m|] eqn:Hpc.
    all: destruct t as [p0 cl0 pr ou]; cbn [t_pc t_prog t_call t_outs] in *; subst p0;
         unfold tref in Htref; cbn [t_pc] in Htref.
    - (* PIdle *)
      destruct pr as [|cl1 pr]; [discriminate|]. injection Hstep as <-.
      destruct cl1; k1 HI Hnth.
    - (* PFast *)
      destruct cl as [s|addr s|s|k|m|]; try discriminate; injection Hstep as <-;
        destruct (map_get c s); k1 HI Hnth.
    - (* PLock *) injection Hstep as <-. k1 HI Hnth.
    - (* PFind *)
      injection Hstep as <-. destruct (map_get c s); [k1 HI Hnth|]. destruct s; k1 HI Hnth.
    - (* PStore *)
      injection Hstep as <-. now apply store_step_AInv'.
    - (* PKeyAdd *)
      injection Hstep as <-. destruct (try_key keycap (c_key c)); k1 HI Hnth.
    - (* PStrs *)
      injection Hstep as <-. eapply K_strs with (1 := HI) (2 := Hnth); reflexivity.
    - (* PMap *) injection Hstep as <-. k1 HI Hnth.
    - (* PEntry *) injection Hstep as <-. destruct (map_get c s); k1 HI Hnth.
    - (* PSKeyAdd *)
      injection Hstep as <-. destruct (try_key keycap (c_key c)); k1 HI Hnth.
    - (* PResolve *) injection Hstep as <-. k1 HI Hnth.
    - (* PSetLimit *) injection Hstep as <-. k1 HI Hnth.
    - (* PUsage *) injection Hstep as <-. k1 HI Hnth.
  Qed.
End Proofs.

(* ------------------------------------------------------------------ what a step can change (frame facts) *)

(* how the published block list can change in one step: not at all, one block updated in
   place (same identity, same capacity), or one block pushed in front *)
Definition blocks_rel (c c' : cstate) : Prop :=
  c_blocks c' = c_blocks c \/
  (exists b' blk, c_blocks c' = set_block b' (c_blocks c) /\
                  find_block (bid b') (c_blocks c) = Some blk /\ bcap b' = bcap blk) \/
  (exists blk, c_blocks c' = blk :: c_blocks c).

Definition frame (c c' : cstate) (t t' : thread) : Prop :=
  ((c_strs c' = c_strs c /\ blocks_rel c c') \/
   (c_blocks c' = c_blocks c /\ exists e0, c_strs c' = strs_put e0 (c_strs c))) /\
  (c_usage c' = c_usage c \/ (c_usage c <= c_usage c' /\ c_usage c' <= c_limit c)) /\
  (c_limit c' = c_limit c \/ exists m, t_pc t = PSetLimit m) /\
  ((t_prog t' = t_prog t /\ forall m, t_pc t' <> PSetLimit m) \/
   (exists cl, t_prog t = cl :: t_prog t' /\ t_pc t' = pc_of_call cl)).

Ltac fr_tail :=
  split; [left; reflexivity|
  split; [left; reflexivity|
  left; split; [reflexivity|intros; discriminate]]].

Ltac fr := split; [left; split; [reflexivity|left; reflexivity]|fr_tail].

Ltac frx := eexists; split; [reflexivity|fr].

Ltac frs := eexists; split; [reflexivity|]; split; [reflexivity|fr].

Lemma store_step_frame c tid t s p ch :
  t_pc t = PStore s p ->
  exists t', c_threads (store_step true c tid t s p ch) = set_nth tid t' (c_threads c) /\
             frame c (store_step true c tid t s p ch) t t'.
Proof.
  intros Hpc. unfold store_step.
  destruct p as [|b rs|b seen tries rs|b off| |req k next|cur req k next|next|next usage|next|cap|blk|blk seen];
    cbv zeta.
  - destruct (map bid (c_blocks c)); frx.
  - destruct (find_block b (c_blocks c)); frx.
  - destruct (find_block b (c_blocks c)) as [blk|] eqn:Hf; [|destruct rs; frx].
    destruct ((tries <? 100)%nat && (seen + slen s <=? bcap blk)); [|destruct rs; frx].
    destruct ((bused blk =? seen) && negb ch); [|frx].
    eexists; split; [reflexivity|]. split; [|fr_tail].
    left. split; [reflexivity|]. right. left. eexists; exists blk. split; [reflexivity|].
    cbn. apply find_block_some in Hf as Hf'. destruct Hf' as [_ ->]. auto.
  - destruct (find_block b (c_blocks c)) as [blk|] eqn:Hf; [|frx].
    eexists; split; [reflexivity|]. split; [|fr_tail].
    left. split; [reflexivity|]. right. left. eexists; exists blk. split; [reflexivity|].
    cbn. apply find_block_some in Hf as Hf'. destruct Hf' as [_ ->]. auto.
  - destruct (2 * c_bcap c <? slen s); frx.
  - frx.
  - destruct (c_limit c <? cur + req) eqn:E1; [frx|]. apply N.ltb_ge in E1.
    destruct ((c_usage c =? cur) && negb ch) eqn:E2; [|frx].
    apply andb_true_iff in E2 as [E2 _]. apply N.eqb_eq in E2.
    assert (Hu : c_usage c <= cur + req /\ cur + req <= c_limit c) by lia.
    destruct k; [|destruct (req =? 0)|];
      (eexists; split; [reflexivity|];
       split; [left; split; [reflexivity|left; reflexivity]|];
       split; [right; exact Hu|];
       split; [left; reflexivity|left; split; [reflexivity|intros; discriminate]]).
  - frx.
  - destruct (c_limit c <? usage + next); [destruct (c_limit c - usage <? slen s)|]; frx.
  - frx.
  - destruct (push_slice (fresh_block (c_next_bid c) cap) s) as [blk r]. frx.
  - frx.
  - destruct (opt_N_eqb (head_id c) seen && negb ch); [|frx].
    eexists; split; [reflexivity|]. split; [|fr_tail].
    left. split; [reflexivity|]. right. right. exists blk. reflexivity.
Qed.

Section Frame.
  Variable shard_of : str -> N.
  Variable keycap : N.
  Notation step := (step shard_of keycap).

  Lemma step_frame c tid ch c' :
    step c tid ch = Some c' ->
    exists t t', nth_error (c_threads c) tid = Some t /\
                 c_threads c' = set_nth tid t' (c_threads c) /\ frame c c' t t'.
  Proof.
    intros Hstep. unfold Conc.step, step_gen in Hstep.
    destruct (nth_error (c_threads c) tid) as [t|] eqn:Hnth; [|discriminate].
    destruct (blocked shard_of c tid (t_pc t)); [discriminate|].
    exists t.
    destruct (t_pc t) as [|cl|s|s|s p|s r|s r k|s r k|addr s|addr s|k|m|] eqn:Hpc.
    - destruct (t_prog t) as [|cl1 pr] eqn:Hpr; [discriminate|]. injection Hstep as <-.
      eexists. split; [reflexivity|]. split; [reflexivity|].
      split; [left; split; [reflexivity|left; reflexivity]|].
      split; [left; reflexivity|]. split; [left; reflexivity|].
      right. exists cl1. split; [exact Hpr|reflexivity].
    - destruct cl as [s|addr s|s|k|m|]; try discriminate; injection Hstep as <-;
        destruct (map_get c s); frs.
    - injection Hstep as <-. frs.
    - injection Hstep as <-. destruct (map_get c s); [|destruct s];
        frs.
    - injection Hstep as <-. destruct (store_step_frame c tid t s p ch Hpc) as (t' & H1 & H2).
      exists t'. auto.
    - injection Hstep as <-. destruct (try_key keycap (c_key c));
        frs.
    - injection Hstep as <-. eexists; split; [reflexivity|].
      split; [reflexivity|]. split; [|fr_tail].
      right. split; [reflexivity|]. eexists. reflexivity.
    - injection Hstep as <-. frs.
    - injection Hstep as <-. destruct (map_get c s); frs.
    - injection Hstep as <-. destruct (try_key keycap (c_key c));
        frs.
    - injection Hstep as <-. frs.
    - injection Hstep as <-. eexists; split; [reflexivity|].
      split; [reflexivity|].
      split; [left; split; [reflexivity|left; reflexivity]|].
      split; [left; reflexivity|]. split; [right; eauto|].
      left; split; [reflexivity|intros; discriminate].
    - injection Hstep as <-. frs.
  Qed.
End Frame.

(* ------------------------------------------------------------------ the initial state *)

Lemma flat_map_idle {B} (f : thread -> list B) (progs : list (list call)) :
  (forall p, f (mkThread PIdle CUsage p []) = []) ->
  flat_map f (map (fun p => mkThread PIdle CUsage p []) progs) = [].
Proof. intros H. induction progs as [|p progs IH]; simpl; auto. rewrite H. exact IH. Qed.

Lemma Forall_idle (P : thread -> Prop) (progs : list (list call)) :
  (forall p, P (mkThread PIdle CUsage p [])) ->
  Forall P (map (fun p => mkThread PIdle CUsage p []) progs).
Proof.
  intros H. apply Forall_forall. intros t Ht. apply in_map_iff in Ht as (p & <- & _). apply H.
Qed.

Lemma sum_inflight_idle ts :
  Forall (fun t => t_pc t = PIdle) ts -> sum_N (map inflight_cap ts) = 0.
Proof.
  induction 1 as [|t ts Ht _ IH]; [reflexivity|]. cbn [map]. rewrite sum_N_cons, IH.
  unfold inflight_cap. now rewrite Ht.
Qed.

Theorem init_AInv' cap lim progs : 0 < cap -> AInv' (init cap lim progs).
Proof.
  intros Hc.
  assert (Hib : inflight_blocks (init cap lim progs) = []) by (apply flat_map_idle; reflexivity).
  assert (Hab : all_blocks (init cap lim progs) = [fresh_block 0 cap])
    by (unfold all_blocks; rewrite Hib; reflexivity).
  assert (Htr : tregions (c_threads (init cap lim progs)) = []) by (apply flat_map_idle; reflexivity).
  assert (Hreg : regions (init cap lim progs) = []) by (rewrite regions_split, Htr; reflexivity).
  constructor; [constructor|..].
  - rewrite Hab. constructor; [now apply fresh_block_ok|constructor].
  - rewrite Hab. simpl. constructor; [intros []|constructor].
  - rewrite Hab. constructor; [simpl; lia|constructor].
  - discriminate.
  - exact Hc.
  - cbn [c_usage c_blocks c_threads init]. rewrite sum_inflight_idle.
    + cbn [map bcap fresh_block]. rewrite sum_N_cons. unfold sum_N; simpl. lia.
    + apply Forall_idle. reflexivity.
  - rewrite Hreg. constructor.
  - rewrite Hreg. constructor.
  - constructor.
  - apply Forall_idle. intros; exact I.
  - apply Forall_idle. intros; exact I.
  - apply Forall_idle. intros; exact I.
  - intros x y Hx. cbn [c_threads init] in Hx. rewrite flat_map_idle in Hx; [destruct Hx|reflexivity].
Qed.

Theorem init_AInv cap lim progs : 0 < cap -> AInv (init cap lim progs).
Proof. intros H. apply ai_base. now apply init_AInv'. Qed.

Lemma AInv'_AInv c : AInv' c -> AInv c.
Proof. apply ai_base. Qed.

(* ------------------------------------------------------------------ small list facts for the corollaries *)

Lemma set_block_map_bid b' bs : map bid (set_block b' bs) = map bid bs.
Proof.
  induction bs as [|a bs IH]; simpl; auto. destruct (bid a =? bid b') eqn:E; simpl.
  - apply N.eqb_eq in E. congruence.
  - now rewrite IH.
Qed.

Lemma set_block_map_bcap b' bs blk :
  find_block (bid b') bs = Some blk -> bcap b' = bcap blk ->
  map bcap (set_block b' bs) = map bcap bs.
Proof.
  induction bs as [|a bs IH]; simpl; auto. destruct (bid a =? bid b') eqn:E; simpl; intros H Hc.
  - inversion H; subst. congruence.
  - now rewrite IH.
Qed.

Lemma read_ext c c' r : c_blocks c' = c_blocks c -> read (as_arena c') r = read (as_arena c) r.
Proof. intros H. destruct r; simpl; auto. now rewrite H. Qed.

Definition no_setlimit (c : cstate) : Prop :=
  Forall (fun t => (forall m, t_pc t <> PSetLimit m) /\
                   Forall (fun cl => forall m, cl <> CSetLimit m) (t_prog t)) (c_threads c).

Section Corollaries.
  Variable shard_of : str -> N.
  Variable keycap : N.
  Notation step := (step shard_of keycap).
  Notation reachable := (reachable shard_of keycap).

  (* [step_AInv'] under the name the properties table uses: the invariant that is preserved
     is the strengthened one, and it implies [AInv] *)
  Theorem step_AInv c tid ch c' :
    AInv' c -> step c tid ch = Some c' -> AInv' c' /\ AInv c'.
  Proof. intros H Hs. pose proof (step_AInv' shard_of keycap _ _ _ _ H Hs) as H'. split; [exact H'|apply H']. Qed.

  Theorem reachable_AInv' c0 c : AInv' c0 -> reachable c0 c -> AInv' c.
  Proof.
    intros H0 Hr. induction Hr as [|c c' tid ch _ IH Hs]; auto.
    eapply step_AInv'; eauto.
  Qed.

  Theorem reachable_AInv cap lim progs c :
    0 < cap -> reachable (init cap lim progs) c -> AInv c.
  Proof.
    intros Hc Hr. apply ai_base. eapply reachable_AInv'; eauto. now apply init_AInv'.
  Qed.

  (* ---------------- C05: concurrent storage integrity ---------------- *)

  (* every owned byte range (stored strings, ranges reserved or being filled by threads,
     strings inside unpublished blocks) lies in the used part of a block, and no two overlap *)
  Theorem C05_exclusive cap lim progs c :
    0 < cap -> reachable (init cap lim progs) c ->
    ForallOrdPairs region_disjoint (regions c) /\ Forall (region_ok c) (regions c).
  Proof.
    intros Hc Hr. pose proof (reachable_AInv _ _ _ _ Hc Hr) as HA. split; apply HA.
  Qed.

  (* a stored string reads back as the string it was stored for *)
  Theorem C05_no_tear cap lim progs c :
    0 < cap -> reachable (init cap lim progs) c ->
    forall e, In e (c_strs c) -> read (as_arena c) (e_ref e) = Some (e_str e).
  Proof.
    intros Hc Hr e He. pose proof (reachable_AInv _ _ _ _ Hc Hr) as HA.
    pose proof (ai_strs_denote _ HA) as H. rewrite Forall_forall in H. apply (H e He).
  Qed.

  (* an entry can only be replaced by an insert under the same key *)
  Theorem step_keeps_entries c tid ch c' :
    step c tid ch = Some c' ->
    forall e, In e (c_strs c) ->
              In e (c_strs c') \/ exists e', In e' (c_strs c') /\ e_key e' = e_key e.
  Proof.
    intros Hs e He. destruct (step_frame _ _ _ _ _ _ Hs) as (t & t' & _ & _ & Hf & _).
    destruct Hf as [[Hst _]|[_ [e0 Hst]]]; rewrite Hst; [now left|].
    unfold strs_put. destruct (e_key e =? e_key e0) eqn:E.
    - right. exists e0. split; [apply in_or_app; right; now left|].
      apply N.eqb_eq in E. now symmetry.
    - left. apply in_or_app. left. apply filter_In. split; auto. now rewrite E.
  Qed.

  (* the bytes of a stored string never change *)
  Theorem step_keeps_bytes c tid ch c' :
    AInv' c -> step c tid ch = Some c' ->
    forall e, In e (c_strs c) -> read (as_arena c') (e_ref e) = read (as_arena c) (e_ref e).
  Proof.
    intros HI Hs e He. destruct (step_frame _ _ _ _ _ _ Hs) as (t & t' & _ & _ & Hf & _).
    destruct Hf as [[Hst _]|[Hbl _]]; [|now apply read_ext].
    pose proof (step_AInv' shard_of keycap _ _ _ _ HI Hs) as HI'.
    pose proof (ai_strs_denote _ (ai_base _ HI)) as H. rewrite Forall_forall in H.
    pose proof (ai_strs_denote _ (ai_base _ HI')) as H'. rewrite Forall_forall in H'.
    rewrite <- Hst in He. destruct (H' e He) as [_ ->]. rewrite Hst in He.
    destruct (H e He) as [_ ->]. reflexivity.
  Qed.

  (* no block is ever removed from the published list; identities and capacities are stable *)
  Theorem C05_no_lost_block c tid ch c' :
    step c tid ch = Some c' ->
    exists pre, (length pre <= 1)%nat /\
                map bid (c_blocks c') = map bid pre ++ map bid (c_blocks c) /\
                map bcap (c_blocks c') = map bcap pre ++ map bcap (c_blocks c).
  Proof.
    intros Hs. destruct (step_frame _ _ _ _ _ _ Hs) as (t & t' & _ & _ & Hf & _).
    destruct Hf as [[_ [Hb|[(b' & blk & Hb & Hfb & Hcap)|[blk Hb]]]]|[Hb _]]; rewrite Hb.
    - exists []. simpl. auto.
    - exists []. simpl. rewrite set_block_map_bid. erewrite set_block_map_bcap; eauto.
    - exists [blk]. simpl. auto.
    - exists []. simpl. auto.
  Qed.

  (* ---------------- C09: the memory limit under concurrency ---------------- *)

  (* with no call in flight the reported usage is exactly the capacity of the blocks *)
  Theorem C09_accounting_quiescent c :
    AInv c -> quiescent c -> c_usage c = sum_N (map bcap (c_blocks c)).
  Proof.
    intros HA Hq. rewrite (ai_usage _ HA), sum_inflight_idle by exact Hq. lia.
  Qed.

  Lemma no_setlimit_step c tid ch c' :
    no_setlimit c -> step c tid ch = Some c' ->
    no_setlimit c' /\ c_limit c' = c_limit c /\ c_usage c' <= N.max (c_usage c) (c_limit c).
  Proof.
    intros Hn Hs. destruct (step_frame _ _ _ _ _ _ Hs) as (t & t' & Hnth & Hth' & _ & Hu & Hl & Hp).
    destruct (nth_error_split_set _ _ _ Hnth) as (l1 & l2 & Hth & _ & Hset).
    unfold no_setlimit in *. rewrite Hset in Hth'. rewrite Hth in Hn.
    pose proof (Forall_mid_in _ _ _ _ Hn) as [[Ht1 Ht2] _].
    split; [|split].
    - rewrite Hth'. eapply Forall_mid; [exact Hn|].
      destruct Hp as [[Hp1 Hp2]|(cl & Hp1 & Hp2)].
      + split; auto. now rewrite Hp1.
      + rewrite Hp1 in Ht2. inversion Ht2 as [|? ? Hcl Hrest]; subst. split; auto.
        intros m. rewrite Hp2. destruct cl; try discriminate. intros Heq. inversion Heq; subst.
        now apply (Hcl m).
    - destruct Hl as [Hl|[m Hl]]; auto. now apply Ht1 in Hl.
    - lia.
  Qed.

  (* while nobody changes the limit: usage never exceeds max(limit, usage at the start) *)
  Theorem C09_cap c0 c :
    no_setlimit c0 -> reachable c0 c ->
    c_limit c = c_limit c0 /\ c_usage c <= N.max (c_usage c0) (c_limit c0).
  Proof.
    intros Hn Hr.
    assert (H : no_setlimit c /\ c_limit c = c_limit c0 /\ c_usage c <= N.max (c_usage c0) (c_limit c0)).
    { induction Hr as [|c c' tid ch _ IH Hs]; [split; [auto|split; [auto|lia]]|].
      destruct IH as (IH1 & IH2 & IH3).
      destruct (no_setlimit_step _ _ _ _ IH1 Hs) as (H1 & H2 & H3).
      split; auto. split; [congruence|]. rewrite IH2 in H3. lia. }
    tauto.
  Qed.

  (* With set_memory_limits racing: every step that increases the usage counter keeps it
     under the limit value in force AT THAT STEP (the comparison and the compare-and-swap of
     allocate_memory are one atomic event on memory_usage, the load of max_memory_usage is
     part of it in the model).  Nothing stronger holds for two separate atomics: a thread may
     lower the limit right after another thread's grant, so "usage <= limit" is not an
     invariant when the limit is lowered concurrently. *)
  Theorem C09_grant_admissible_partial c tid ch c' :
    step c tid ch = Some c' -> c_usage c < c_usage c' -> c_usage c' <= c_limit c.
  Proof.
    intros Hs Hlt. destruct (step_frame _ _ _ _ _ _ Hs) as (t & t' & _ & _ & _ & Hu & _).
    destruct Hu as [Hu|[_ Hu]]; [lia|exact Hu].
  Qed.
End Corollaries.

(* ------------------------------------------------------------------ the unrepaired allocate_memory *)

Definition ex_sh (s : str) : N := match s with x :: _ => x | [] => 0 end.
Definition ex_c0 : cstate := init 1 4 [[CIntern [97;98]]; [CIntern [99;100]]].
Definition ex_sched : list (nat * bool) := concat (repeat [(0%nat,false);(1%nat,false)] 40).

(* Two threads in lock step, limit 4.  The code before the F2 fix (check against a value
   loaded earlier, then an unconditional fetch_add) lets both grants through: usage 5 > 4.
   The repaired fetch_update refuses the second one. *)
Example C09_legacy_refuted :
  (let c := run_sched_gen ex_sh 4294967295 false ex_c0 ex_sched in
   c_usage c = 5 /\ c_limit c = 4 /\ c_limit c < c_usage c) /\
  (let c := run_sched_gen ex_sh 4294967295 true ex_c0 ex_sched in
   c_usage c = 3 /\ c_limit c = 4).
Proof. vm_compute. repeat split. Qed.

(* ------------------------------------------------------------------ why AInv alone is not inductive *)

(* (1) AInv says nothing about the sizes a store program counter carries: a state with a
   thread at SAllocCas _ 5 ADoubled 7 satisfies AInv, its step grants 5 but books 7. *)
Example AInv_not_inductive_sizes :
  let c := mkC [fresh_block 0 1] 1 1 100 1 [] [] 0 []
               [mkThread (PStore [7] (SAllocCas 1 5 ADoubled 7)) CUsage [] []] in
  AInv c /\ exists c', Conc.step (fun _ => 0) 10 c 0%nat false = Some c' /\ ~ AInv c'.
Proof.
  cbv zeta. split.
  - constructor; cbn.
    + constructor; [apply fresh_block_ok; lia|constructor].
    + constructor; [intros []|constructor].
    + constructor; [simpl; lia|constructor].
    + discriminate.
    + lia.
    + lia.
    + constructor.
    + constructor.
    + constructor.
    + constructor; [exact I|constructor].
    + constructor; [discriminate|constructor].
  - eexists. split; [vm_compute; reflexivity|]. intros H.
    pose proof (ai_usage _ H) as Hu. vm_compute in Hu. discriminate.
Qed.

(* (2) the reference of a thread at PMap is protected by AInv only through the key -> string
   entry it has just inserted; if that entry is not there (it can only disappear through an
   insert under the same key, which JInv excludes), a range reserved over it may be filled. *)
Example AInv_not_inductive_pmap :
  let c := mkC [mkBlock 0 1 1 [1]] 1 1 100 1 [] [] 1 []
               [mkThread (PMap [1] (RArena 0 0 1) 0) CUsage [] [];
                mkThread (PStore [2] (SCopy 0 0)) CUsage [] []] in
  AInv c /\ exists c', Conc.step (fun _ => 0) 10 c 1%nat false = Some c' /\ ~ AInv c'.
Proof.
  cbv zeta. split.
  - constructor; cbn.
    + constructor; [unfold block_ok; simpl; lia|constructor].
    + constructor; [intros []|constructor].
    + constructor; [simpl; lia|constructor].
    + discriminate.
    + lia.
    + lia.
    + constructor; [|constructor]. split; [vm_compute; reflexivity|]. split; [reflexivity|].
      eexists. split; [reflexivity|]. split; [vm_compute; discriminate|discriminate].
    + constructor; constructor.
    + constructor.
    + constructor; [|constructor; [exact I|constructor]].
      split; [|reflexivity]. split; [lia|]. eexists. split; [reflexivity|]. vm_compute. discriminate.
    + constructor; [exact I|constructor; [discriminate|constructor]].
  - eexists. split; [vm_compute; reflexivity|]. intros H.
    pose proof (ai_thread_refs _ H) as Hr. apply Forall_inv in Hr. destruct Hr as [_ Hr].
    vm_compute in Hr. discriminate.
Qed.

Print Assumptions init_AInv'.
Print Assumptions init_AInv.
Print Assumptions step_AInv'.
Print Assumptions step_AInv.
Print Assumptions reachable_AInv'.
Print Assumptions reachable_AInv.
Print Assumptions C05_exclusive.
Print Assumptions C05_no_tear.
Print Assumptions step_keeps_entries.
Print Assumptions step_keeps_bytes.
Print Assumptions C05_no_lost_block.
Print Assumptions C09_accounting_quiescent.
Print Assumptions no_setlimit_step.
Print Assumptions C09_cap.
Print Assumptions C09_grant_admissible_partial.
Print Assumptions C09_legacy_refuted.
Print Assumptions AInv_not_inductive_sizes.
Print Assumptions AInv_not_inductive_pmap.
