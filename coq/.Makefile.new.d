Base.vo Base.glob Base.v.beautified Base.required_vo: Base.v 
Base.vio: Base.v 
Base.vos Base.vok Base.required_vos: Base.v 
Arena.vo Arena.glob Arena.v.beautified Arena.required_vo: Arena.v Base.vo
Arena.vio: Arena.v Base.vio
Arena.vos Arena.vok Arena.required_vos: Arena.v Base.vos
Keys.vo Keys.glob Keys.v.beautified Keys.required_vo: Keys.v Base.vo
Keys.vio: Keys.v Base.vio
Keys.vos Keys.vok Keys.required_vos: Keys.v Base.vos
ArenaProofs.vo ArenaProofs.glob ArenaProofs.v.beautified ArenaProofs.required_vo: ArenaProofs.v Base.vo Arena.vo
ArenaProofs.vio: ArenaProofs.v Base.vio Arena.vio
ArenaProofs.vos ArenaProofs.vok ArenaProofs.required_vos: ArenaProofs.v Base.vos Arena.vos
Rodeo.vo Rodeo.glob Rodeo.v.beautified Rodeo.required_vo: Rodeo.v Arena.vo
Rodeo.vio: Rodeo.v Arena.vio
Rodeo.vos Rodeo.vok Rodeo.required_vos: Rodeo.v Arena.vos
RodeoInv.vo RodeoInv.glob RodeoInv.v.beautified RodeoInv.required_vo: RodeoInv.v Base.vo Arena.vo ArenaProofs.vo Rodeo.vo
RodeoInv.vio: RodeoInv.v Base.vio Arena.vio ArenaProofs.vio Rodeo.vio
RodeoInv.vos RodeoInv.vok RodeoInv.required_vos: RodeoInv.v Base.vos Arena.vos ArenaProofs.vos Rodeo.vos
RodeoProofs.vo RodeoProofs.glob RodeoProofs.v.beautified RodeoProofs.required_vo: RodeoProofs.v Base.vo Arena.vo ArenaProofs.vo Rodeo.vo RodeoInv.vo
RodeoProofs.vio: RodeoProofs.v Base.vio Arena.vio ArenaProofs.vio Rodeo.vio RodeoInv.vio
RodeoProofs.vos RodeoProofs.vok RodeoProofs.required_vos: RodeoProofs.v Base.vos Arena.vos ArenaProofs.vos Rodeo.vos RodeoInv.vos
ThreadedInv.vo ThreadedInv.glob ThreadedInv.v.beautified ThreadedInv.required_vo: ThreadedInv.v Base.vo Arena.vo ArenaProofs.vo Rodeo.vo RodeoInv.vo
ThreadedInv.vio: ThreadedInv.v Base.vio Arena.vio ArenaProofs.vio Rodeo.vio RodeoInv.vio
ThreadedInv.vos ThreadedInv.vok ThreadedInv.required_vos: ThreadedInv.v Base.vos Arena.vos ArenaProofs.vos Rodeo.vos RodeoInv.vos
CloneSerdeProofs.vo CloneSerdeProofs.glob CloneSerdeProofs.v.beautified CloneSerdeProofs.required_vo: CloneSerdeProofs.v Base.vo Arena.vo ArenaProofs.vo Rodeo.vo RodeoInv.vo RodeoProofs.vo
CloneSerdeProofs.vio: CloneSerdeProofs.v Base.vio Arena.vio ArenaProofs.vio Rodeo.vio RodeoInv.vio RodeoProofs.vio
CloneSerdeProofs.vos CloneSerdeProofs.vok CloneSerdeProofs.required_vos: CloneSerdeProofs.v Base.vos Arena.vos ArenaProofs.vos Rodeo.vos RodeoInv.vos RodeoProofs.vos
ThreadedProofs.vo ThreadedProofs.glob ThreadedProofs.v.beautified ThreadedProofs.required_vo: ThreadedProofs.v Base.vo Arena.vo ArenaProofs.vo Rodeo.vo RodeoInv.vo RodeoProofs.vo ThreadedInv.vo
ThreadedProofs.vio: ThreadedProofs.v Base.vio Arena.vio ArenaProofs.vio Rodeo.vio RodeoInv.vio RodeoProofs.vio ThreadedInv.vio
ThreadedProofs.vos ThreadedProofs.vok ThreadedProofs.required_vos: ThreadedProofs.v Base.vos Arena.vos ArenaProofs.vos Rodeo.vos RodeoInv.vos RodeoProofs.vos ThreadedInv.vos
IterEqProofs.vo IterEqProofs.glob IterEqProofs.v.beautified IterEqProofs.required_vo: IterEqProofs.v Base.vo Arena.vo ArenaProofs.vo Rodeo.vo RodeoInv.vo RodeoProofs.vo
IterEqProofs.vio: IterEqProofs.v Base.vio Arena.vio ArenaProofs.vio Rodeo.vio RodeoInv.vio RodeoProofs.vio
IterEqProofs.vos IterEqProofs.vok IterEqProofs.required_vos: IterEqProofs.v Base.vos Arena.vos ArenaProofs.vos Rodeo.vos RodeoInv.vos RodeoProofs.vos
WorldProofs.vo WorldProofs.glob WorldProofs.v.beautified WorldProofs.required_vo: WorldProofs.v Base.vo Arena.vo ArenaProofs.vo Rodeo.vo RodeoInv.vo RodeoProofs.vo ThreadedInv.vo CloneSerdeProofs.vo ThreadedProofs.vo IterEqProofs.vo
WorldProofs.vio: WorldProofs.v Base.vio Arena.vio ArenaProofs.vio Rodeo.vio RodeoInv.vio RodeoProofs.vio ThreadedInv.vio CloneSerdeProofs.vio ThreadedProofs.vio IterEqProofs.vio
WorldProofs.vos WorldProofs.vok WorldProofs.required_vos: WorldProofs.v Base.vos Arena.vos ArenaProofs.vos Rodeo.vos RodeoInv.vos RodeoProofs.vos ThreadedInv.vos CloneSerdeProofs.vos ThreadedProofs.vos IterEqProofs.vos
Conc.vo Conc.glob Conc.v.beautified Conc.required_vo: Conc.v Arena.vo
Conc.vio: Conc.v Arena.vio
Conc.vos Conc.vok Conc.required_vos: Conc.v Arena.vos
ConcInv.vo ConcInv.glob ConcInv.v.beautified ConcInv.required_vo: ConcInv.v Base.vo Arena.vo ArenaProofs.vo Conc.vo
ConcInv.vio: ConcInv.v Base.vio Arena.vio ArenaProofs.vio Conc.vio
ConcInv.vos ConcInv.vok ConcInv.required_vos: ConcInv.v Base.vos Arena.vos ArenaProofs.vos Conc.vos
ConcArenaProofs.vo ConcArenaProofs.glob ConcArenaProofs.v.beautified ConcArenaProofs.required_vo: ConcArenaProofs.v Base.vo Arena.vo ArenaProofs.vo Conc.vo ConcInv.vo
ConcArenaProofs.vio: ConcArenaProofs.v Base.vio Arena.vio ArenaProofs.vio Conc.vio ConcInv.vio
ConcArenaProofs.vos ConcArenaProofs.vok ConcArenaProofs.required_vos: ConcArenaProofs.v Base.vos Arena.vos ArenaProofs.vos Conc.vos ConcInv.vos
ConcInternProofs.vo ConcInternProofs.glob ConcInternProofs.v.beautified ConcInternProofs.required_vo: ConcInternProofs.v Base.vo Arena.vo ArenaProofs.vo Conc.vo ConcInv.vo
ConcInternProofs.vio: ConcInternProofs.v Base.vio Arena.vio ArenaProofs.vio Conc.vio ConcInv.vio
ConcInternProofs.vos ConcInternProofs.vok ConcInternProofs.required_vos: ConcInternProofs.v Base.vos Arena.vos ArenaProofs.vos Conc.vos ConcInv.vos
Props/C08.vo Props/C08.glob Props/C08.v.beautified Props/C08.required_vo: Props/C08.v Base.vo Arena.vo ArenaProofs.vo
Props/C08.vio: Props/C08.v Base.vio Arena.vio ArenaProofs.vio
Props/C08.vos Props/C08.vok Props/C08.required_vos: Props/C08.v Base.vos Arena.vos ArenaProofs.vos
