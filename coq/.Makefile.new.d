Base.vo Base.glob Base.v.beautified Base.required_vo: Base.v 
Base.vio: Base.v 
Base.vos Base.vok Base.required_vos: Base.v 
Arena.vo Arena.glob Arena.v.beautified Arena.required_vo: Arena.v Base.vo
Arena.vio: Arena.v Base.vio
Arena.vos Arena.vok Arena.required_vos: Arena.v Base.vos
Keys.vo Keys.glob Keys.v.beautified Keys.required_vo: Keys.v Base.vo
Keys.vio: Keys.v Base.vio
Keys.vos Keys.vok Keys.required_vos: Keys.v Base.vos
ArenaProofs.vo ArenaProofs.glob ArenaProofs.v.beautified ArenaProofs.required_vo: ArenaProofs.v Base.vo Arena.vo
ArenaProofs.vio: ArenaProofs.v Base.vio Arena.vio
ArenaProofs.vos ArenaProofs.vok ArenaProofs.required_vos: ArenaProofs.v Base.vos Arena.vos
Ctors.vo Ctors.glob Ctors.v.beautified Ctors.required_vo: Ctors.v Base.vo Arena.vo ArenaProofs.vo
Ctors.vio: Ctors.v Base.vio Arena.vio ArenaProofs.vio
Ctors.vos Ctors.vok Ctors.required_vos: Ctors.v Base.vos Arena.vos ArenaProofs.vos
Rodeo.vo Rodeo.glob Rodeo.v.beautified Rodeo.required_vo: Rodeo.v Arena.vo
Rodeo.vio: Rodeo.v Arena.vio
Rodeo.vos Rodeo.vok Rodeo.required_vos: Rodeo.v Arena.vos
RodeoInv.vo RodeoInv.glob RodeoInv.v.beautified RodeoInv.required_vo: RodeoInv.v Base.vo Arena.vo ArenaProofs.vo Rodeo.vo
RodeoInv.vio: RodeoInv.v Base.vio Arena.vio ArenaProofs.vio Rodeo.vio
RodeoInv.vos RodeoInv.vok RodeoInv.required_vos: RodeoInv.v Base.vos Arena.vos ArenaProofs.vos Rodeo.vos
RodeoProofs.vo RodeoProofs.glob RodeoProofs.v.beautified RodeoProofs.required_vo: RodeoProofs.v Base.vo Arena.vo ArenaProofs.vo Rodeo.vo RodeoInv.vo
RodeoProofs.vio: RodeoProofs.v Base.vio Arena.vio ArenaProofs.vio Rodeo.vio RodeoInv.vio
RodeoProofs.vos RodeoProofs.vok RodeoProofs.required_vos: RodeoProofs.v Base.vos Arena.vos ArenaProofs.vos Rodeo.vos RodeoInv.vos
ThreadedInv.vo ThreadedInv.glob ThreadedInv.v.beautified ThreadedInv.required_vo: ThreadedInv.v Base.vo Arena.vo ArenaProofs.vo Rodeo.vo RodeoInv.vo
ThreadedInv.vio: ThreadedInv.v Base.vio Arena.vio ArenaProofs.vio Rodeo.vio RodeoInv.vio
ThreadedInv.vos ThreadedInv.vok ThreadedInv.required_vos: ThreadedInv.v Base.vos Arena.vos ArenaProofs.vos Rodeo.vos RodeoInv.vos
CloneSerdeProofs.vo CloneSerdeProofs.glob CloneSerdeProofs.v.beautified CloneSerdeProofs.required_vo: CloneSerdeProofs.v Base.vo Arena.vo ArenaProofs.vo Rodeo.vo RodeoInv.vo RodeoProofs.vo
CloneSerdeProofs.vio: CloneSerdeProofs.v Base.vio Arena.vio ArenaProofs.vio Rodeo.vio RodeoInv.vio RodeoProofs.vio
CloneSerdeProofs.vos CloneSerdeProofs.vok CloneSerdeProofs.required_vos: CloneSerdeProofs.v Base.vos Arena.vos ArenaProofs.vos Rodeo.vos RodeoInv.vos RodeoProofs.vos
ThreadedProofs.vo ThreadedProofs.glob ThreadedProofs.v.beautified ThreadedProofs.required_vo: ThreadedProofs.v Base.vo Arena.vo ArenaProofs.vo Rodeo.vo RodeoInv.vo RodeoProofs.vo ThreadedInv.vo
ThreadedProofs.vio: ThreadedProofs.v Base.vio Arena.vio ArenaProofs.vio Rodeo.vio RodeoInv.vio RodeoProofs.vio ThreadedInv.vio
ThreadedProofs.vos ThreadedProofs.vok ThreadedProofs.required_vos: ThreadedProofs.v Base.vos Arena.vos ArenaProofs.vos Rodeo.vos RodeoInv.vos RodeoProofs.vos ThreadedInv.vos
IterEqProofs.vo IterEqProofs.glob IterEqProofs.v.beautified IterEqProofs.required_vo: IterEqProofs.v Base.vo Arena.vo ArenaProofs.vo Rodeo.vo RodeoInv.vo RodeoProofs.vo
IterEqProofs.vio: IterEqProofs.v Base.vio Arena.vio ArenaProofs.vio Rodeo.vio RodeoInv.vio RodeoProofs.vio
IterEqProofs.vos IterEqProofs.vok IterEqProofs.required_vos: IterEqProofs.v Base.vos Arena.vos ArenaProofs.vos Rodeo.vos RodeoInv.vos RodeoProofs.vos
WorldProofs.vo WorldProofs.glob WorldProofs.v.beautified WorldProofs.required_vo: WorldProofs.v Base.vo Arena.vo ArenaProofs.vo Rodeo.vo RodeoInv.vo RodeoProofs.vo ThreadedInv.vo CloneSerdeProofs.vo ThreadedProofs.vo IterEqProofs.vo
WorldProofs.vio: WorldProofs.v Base.vio Arena.vio ArenaProofs.vio Rodeo.vio RodeoInv.vio RodeoProofs.vio ThreadedInv.vio CloneSerdeProofs.vio ThreadedProofs.vio IterEqProofs.vio
WorldProofs.vos WorldProofs.vok WorldProofs.required_vos: WorldProofs.v Base.vos Arena.vos ArenaProofs.vos Rodeo.vos RodeoInv.vos RodeoProofs.vos ThreadedInv.vos CloneSerdeProofs.vos ThreadedProofs.vos IterEqProofs.vos
HashIndep.vo HashIndep.glob HashIndep.v.beautified HashIndep.required_vo: HashIndep.v Base.vo Arena.vo ArenaProofs.vo Rodeo.vo RodeoInv.vo RodeoProofs.vo ThreadedInv.vo CloneSerdeProofs.vo ThreadedProofs.vo IterEqProofs.vo WorldProofs.vo
HashIndep.vio: HashIndep.v Base.vio Arena.vio ArenaProofs.vio Rodeo.vio RodeoInv.vio RodeoProofs.vio ThreadedInv.vio CloneSerdeProofs.vio ThreadedProofs.vio IterEqProofs.vio WorldProofs.vio
HashIndep.vos HashIndep.vok HashIndep.required_vos: HashIndep.v Base.vos Arena.vos ArenaProofs.vos Rodeo.vos RodeoInv.vos RodeoProofs.vos ThreadedInv.vos CloneSerdeProofs.vos ThreadedProofs.vos IterEqProofs.vos WorldProofs.vos
Conc.vo Conc.glob Conc.v.beautified Conc.required_vo: Conc.v Arena.vo
Conc.vio: Conc.v Arena.vio
Conc.vos Conc.vok Conc.required_vos: Conc.v Arena.vos
ConcInv.vo ConcInv.glob ConcInv.v.beautified ConcInv.required_vo: ConcInv.v Base.vo Arena.vo ArenaProofs.vo Conc.vo
ConcInv.vio: ConcInv.v Base.vio Arena.vio ArenaProofs.vio Conc.vio
ConcInv.vos ConcInv.vok ConcInv.required_vos: ConcInv.v Base.vos Arena.vos ArenaProofs.vos Conc.vos
ConcArenaProofs.vo ConcArenaProofs.glob ConcArenaProofs.v.beautified ConcArenaProofs.required_vo: ConcArenaProofs.v Base.vo Arena.vo ArenaProofs.vo Conc.vo ConcInv.vo
ConcArenaProofs.vio: ConcArenaProofs.v Base.vio Arena.vio ArenaProofs.vio Conc.vio ConcInv.vio
ConcArenaProofs.vos ConcArenaProofs.vok ConcArenaProofs.required_vos: ConcArenaProofs.v Base.vos Arena.vos ArenaProofs.vos Conc.vos ConcInv.vos
ConcInternProofs.vo ConcInternProofs.glob ConcInternProofs.v.beautified ConcInternProofs.required_vo: ConcInternProofs.v Base.vo Arena.vo ArenaProofs.vo Conc.vo ConcInv.vo
ConcInternProofs.vio: ConcInternProofs.v Base.vio Arena.vio ArenaProofs.vio Conc.vio ConcInv.vio
ConcInternProofs.vos ConcInternProofs.vok ConcInternProofs.required_vos: ConcInternProofs.v Base.vos Arena.vos ArenaProofs.vos Conc.vos ConcInv.vos
ConcTheorems.vo ConcTheorems.glob ConcTheorems.v.beautified ConcTheorems.required_vo: ConcTheorems.v Base.vo Arena.vo ArenaProofs.vo Conc.vo ConcInv.vo ConcArenaProofs.vo ConcInternProofs.vo
ConcTheorems.vio: ConcTheorems.v Base.vio Arena.vio ArenaProofs.vio Conc.vio ConcInv.vio ConcArenaProofs.vio ConcInternProofs.vio
ConcTheorems.vos ConcTheorems.vok ConcTheorems.required_vos: ConcTheorems.v Base.vos Arena.vos ArenaProofs.vos Conc.vos ConcInv.vos ConcArenaProofs.vos ConcInternProofs.vos
Bridge.vo Bridge.glob Bridge.v.beautified Bridge.required_vo: Bridge.v Base.vo Arena.vo ArenaProofs.vo Rodeo.vo RodeoInv.vo RodeoProofs.vo ThreadedInv.vo CloneSerdeProofs.vo ThreadedProofs.vo IterEqProofs.vo WorldProofs.vo Conc.vo ConcInv.vo ConcArenaProofs.vo ConcInternProofs.vo ConcTheorems.vo
Bridge.vio: Bridge.v Base.vio Arena.vio ArenaProofs.vio Rodeo.vio RodeoInv.vio RodeoProofs.vio ThreadedInv.vio CloneSerdeProofs.vio ThreadedProofs.vio IterEqProofs.vio WorldProofs.vio Conc.vio ConcInv.vio ConcArenaProofs.vio ConcInternProofs.vio ConcTheorems.vio
Bridge.vos Bridge.vok Bridge.required_vos: Bridge.v Base.vos Arena.vos ArenaProofs.vos Rodeo.vos RodeoInv.vos RodeoProofs.vos ThreadedInv.vos CloneSerdeProofs.vos ThreadedProofs.vos IterEqProofs.vos WorldProofs.vos Conc.vos ConcInv.vos ConcArenaProofs.vos ConcInternProofs.vos ConcTheorems.vos
ConcAlloc.vo ConcAlloc.glob ConcAlloc.v.beautified ConcAlloc.required_vo: ConcAlloc.v Base.vo Arena.vo ArenaProofs.vo Conc.vo ConcInv.vo ConcArenaProofs.vo Rodeo.vo RodeoInv.vo RodeoProofs.vo ThreadedInv.vo CloneSerdeProofs.vo ThreadedProofs.vo IterEqProofs.vo WorldProofs.vo
ConcAlloc.vio: ConcAlloc.v Base.vio Arena.vio ArenaProofs.vio Conc.vio ConcInv.vio ConcArenaProofs.vio Rodeo.vio RodeoInv.vio RodeoProofs.vio ThreadedInv.vio CloneSerdeProofs.vio ThreadedProofs.vio IterEqProofs.vio WorldProofs.vio
ConcAlloc.vos ConcAlloc.vok ConcAlloc.required_vos: ConcAlloc.v Base.vos Arena.vos ArenaProofs.vos Conc.vos ConcInv.vos ConcArenaProofs.vos Rodeo.vos RodeoInv.vos RodeoProofs.vos ThreadedInv.vos CloneSerdeProofs.vos ThreadedProofs.vos IterEqProofs.vos WorldProofs.vos
Sync.vo Sync.glob Sync.v.beautified Sync.required_vo: Sync.v 
Sync.vio: Sync.v 
Sync.vos Sync.vok Sync.required_vos: Sync.v 
Orderings.vo Orderings.glob Orderings.v.beautified Orderings.required_vo: Orderings.v Sync.vo
Orderings.vio: Orderings.v Sync.vio
Orderings.vos Orderings.vok Orderings.required_vos: Orderings.v Sync.vos
Facts.vo Facts.glob Facts.v.beautified Facts.required_vo: Facts.v 
Facts.vio: Facts.v 
Facts.vos Facts.vok Facts.required_vos: Facts.v 
Markers.vo Markers.glob Markers.v.beautified Markers.required_vo: Markers.v Facts.vo
Markers.vio: Markers.v Facts.vio
Markers.vos Markers.vok Markers.required_vos: Markers.v Facts.vos
Loans.vo Loans.glob Loans.v.beautified Loans.required_vo: Loans.v Facts.vo
Loans.vio: Loans.v Facts.vio
Loans.vos Loans.vok Loans.required_vos: Loans.v Facts.vos
Forward.vo Forward.glob Forward.v.beautified Forward.required_vo: Forward.v Facts.vo
Forward.vio: Forward.v Facts.vio
Forward.vos Forward.vok Forward.required_vos: Forward.v Facts.vos
Props/C01.vo Props/C01.glob Props/C01.v.beautified Props/C01.required_vo: Props/C01.v Base.vo Arena.vo ArenaProofs.vo Rodeo.vo RodeoInv.vo RodeoProofs.vo ThreadedInv.vo CloneSerdeProofs.vo ThreadedProofs.vo IterEqProofs.vo WorldProofs.vo
Props/C01.vio: Props/C01.v Base.vio Arena.vio ArenaProofs.vio Rodeo.vio RodeoInv.vio RodeoProofs.vio ThreadedInv.vio CloneSerdeProofs.vio ThreadedProofs.vio IterEqProofs.vio WorldProofs.vio
Props/C01.vos Props/C01.vok Props/C01.required_vos: Props/C01.v Base.vos Arena.vos ArenaProofs.vos Rodeo.vos RodeoInv.vos RodeoProofs.vos ThreadedInv.vos CloneSerdeProofs.vos ThreadedProofs.vos IterEqProofs.vos WorldProofs.vos
Props/C02.vo Props/C02.glob Props/C02.v.beautified Props/C02.required_vo: Props/C02.v Base.vo Arena.vo ArenaProofs.vo Rodeo.vo RodeoInv.vo RodeoProofs.vo ThreadedInv.vo CloneSerdeProofs.vo ThreadedProofs.vo IterEqProofs.vo WorldProofs.vo
Props/C02.vio: Props/C02.v Base.vio Arena.vio ArenaProofs.vio Rodeo.vio RodeoInv.vio RodeoProofs.vio ThreadedInv.vio CloneSerdeProofs.vio ThreadedProofs.vio IterEqProofs.vio WorldProofs.vio
Props/C02.vos Props/C02.vok Props/C02.required_vos: Props/C02.v Base.vos Arena.vos ArenaProofs.vos Rodeo.vos RodeoInv.vos RodeoProofs.vos ThreadedInv.vos CloneSerdeProofs.vos ThreadedProofs.vos IterEqProofs.vos WorldProofs.vos
Props/C02H.vo Props/C02H.glob Props/C02H.v.beautified Props/C02H.required_vo: Props/C02H.v Base.vo Arena.vo ArenaProofs.vo Rodeo.vo RodeoInv.vo RodeoProofs.vo ThreadedInv.vo CloneSerdeProofs.vo ThreadedProofs.vo IterEqProofs.vo WorldProofs.vo HashIndep.vo
Props/C02H.vio: Props/C02H.v Base.vio Arena.vio ArenaProofs.vio Rodeo.vio RodeoInv.vio RodeoProofs.vio ThreadedInv.vio CloneSerdeProofs.vio ThreadedProofs.vio IterEqProofs.vio WorldProofs.vio HashIndep.vio
Props/C02H.vos Props/C02H.vok Props/C02H.required_vos: Props/C02H.v Base.vos Arena.vos ArenaProofs.vos Rodeo.vos RodeoInv.vos RodeoProofs.vos ThreadedInv.vos CloneSerdeProofs.vos ThreadedProofs.vos IterEqProofs.vos WorldProofs.vos HashIndep.vos
Props/C03.vo Props/C03.glob Props/C03.v.beautified Props/C03.required_vo: Props/C03.v Base.vo Arena.vo Conc.vo ConcInv.vo ConcArenaProofs.vo ConcInternProofs.vo ConcTheorems.vo
Props/C03.vio: Props/C03.v Base.vio Arena.vio Conc.vio ConcInv.vio ConcArenaProofs.vio ConcInternProofs.vio ConcTheorems.vio
Props/C03.vos Props/C03.vok Props/C03.required_vos: Props/C03.v Base.vos Arena.vos Conc.vos ConcInv.vos ConcArenaProofs.vos ConcInternProofs.vos ConcTheorems.vos
Props/C04.vo Props/C04.glob Props/C04.v.beautified Props/C04.required_vo: Props/C04.v Base.vo Arena.vo ArenaProofs.vo Rodeo.vo RodeoInv.vo RodeoProofs.vo ThreadedInv.vo CloneSerdeProofs.vo ThreadedProofs.vo IterEqProofs.vo WorldProofs.vo
Props/C04.vio: Props/C04.v Base.vio Arena.vio ArenaProofs.vio Rodeo.vio RodeoInv.vio RodeoProofs.vio ThreadedInv.vio CloneSerdeProofs.vio ThreadedProofs.vio IterEqProofs.vio WorldProofs.vio
Props/C04.vos Props/C04.vok Props/C04.required_vos: Props/C04.v Base.vos Arena.vos ArenaProofs.vos Rodeo.vos RodeoInv.vos RodeoProofs.vos ThreadedInv.vos CloneSerdeProofs.vos ThreadedProofs.vos IterEqProofs.vos WorldProofs.vos
Props/C04D.vo Props/C04D.glob Props/C04D.v.beautified Props/C04D.required_vo: Props/C04D.v Base.vo Arena.vo ArenaProofs.vo Conc.vo ConcInv.vo ConcArenaProofs.vo ConcAlloc.vo Rodeo.vo RodeoInv.vo WorldProofs.vo
Props/C04D.vio: Props/C04D.v Base.vio Arena.vio ArenaProofs.vio Conc.vio ConcInv.vio ConcArenaProofs.vio ConcAlloc.vio Rodeo.vio RodeoInv.vio WorldProofs.vio
Props/C04D.vos Props/C04D.vok Props/C04D.required_vos: Props/C04D.v Base.vos Arena.vos ArenaProofs.vos Conc.vos ConcInv.vos ConcArenaProofs.vos ConcAlloc.vos Rodeo.vos RodeoInv.vos WorldProofs.vos
Props/C05.vo Props/C05.glob Props/C05.v.beautified Props/C05.required_vo: Props/C05.v Base.vo Arena.vo Conc.vo ConcInv.vo ConcArenaProofs.vo
Props/C05.vio: Props/C05.v Base.vio Arena.vio Conc.vio ConcInv.vio ConcArenaProofs.vio
Props/C05.vos Props/C05.vok Props/C05.required_vos: Props/C05.v Base.vos Arena.vos Conc.vos ConcInv.vos ConcArenaProofs.vos
Props/C05R.vo Props/C05R.glob Props/C05R.v.beautified Props/C05R.required_vo: Props/C05R.v Sync.vo Orderings.vo
Props/C05R.vio: Props/C05R.v Sync.vio Orderings.vio
Props/C05R.vos Props/C05R.vok Props/C05R.required_vos: Props/C05R.v Sync.vos Orderings.vos
Props/C06.vo Props/C06.glob Props/C06.v.beautified Props/C06.required_vo: Props/C06.v Base.vo Arena.vo ArenaProofs.vo Rodeo.vo RodeoInv.vo RodeoProofs.vo ThreadedInv.vo CloneSerdeProofs.vo ThreadedProofs.vo IterEqProofs.vo WorldProofs.vo
Props/C06.vio: Props/C06.v Base.vio Arena.vio ArenaProofs.vio Rodeo.vio RodeoInv.vio RodeoProofs.vio ThreadedInv.vio CloneSerdeProofs.vio ThreadedProofs.vio IterEqProofs.vio WorldProofs.vio
Props/C06.vos Props/C06.vok Props/C06.required_vos: Props/C06.v Base.vos Arena.vos ArenaProofs.vos Rodeo.vos RodeoInv.vos RodeoProofs.vos ThreadedInv.vos CloneSerdeProofs.vos ThreadedProofs.vos IterEqProofs.vos WorldProofs.vos
Props/C06B.vo Props/C06B.glob Props/C06B.v.beautified Props/C06B.required_vo: Props/C06B.v Base.vo Arena.vo ArenaProofs.vo Rodeo.vo RodeoInv.vo ThreadedInv.vo IterEqProofs.vo WorldProofs.vo Conc.vo ConcInv.vo ConcArenaProofs.vo ConcInternProofs.vo Bridge.vo
Props/C06B.vio: Props/C06B.v Base.vio Arena.vio ArenaProofs.vio Rodeo.vio RodeoInv.vio ThreadedInv.vio IterEqProofs.vio WorldProofs.vio Conc.vio ConcInv.vio ConcArenaProofs.vio ConcInternProofs.vio Bridge.vio
Props/C06B.vos Props/C06B.vok Props/C06B.required_vos: Props/C06B.v Base.vos Arena.vos ArenaProofs.vos Rodeo.vos RodeoInv.vos ThreadedInv.vos IterEqProofs.vos WorldProofs.vos Conc.vos ConcInv.vos ConcArenaProofs.vos ConcInternProofs.vos Bridge.vos
Props/C07.vo Props/C07.glob Props/C07.v.beautified Props/C07.required_vo: Props/C07.v Base.vo Arena.vo ArenaProofs.vo Rodeo.vo RodeoInv.vo RodeoProofs.vo ThreadedInv.vo CloneSerdeProofs.vo ThreadedProofs.vo IterEqProofs.vo WorldProofs.vo
Props/C07.vio: Props/C07.v Base.vio Arena.vio ArenaProofs.vio Rodeo.vio RodeoInv.vio RodeoProofs.vio ThreadedInv.vio CloneSerdeProofs.vio ThreadedProofs.vio IterEqProofs.vio WorldProofs.vio
Props/C07.vos Props/C07.vok Props/C07.required_vos: Props/C07.v Base.vos Arena.vos ArenaProofs.vos Rodeo.vos RodeoInv.vos RodeoProofs.vos ThreadedInv.vos CloneSerdeProofs.vos ThreadedProofs.vos IterEqProofs.vos WorldProofs.vos
Props/C08.vo Props/C08.glob Props/C08.v.beautified Props/C08.required_vo: Props/C08.v Base.vo Arena.vo ArenaProofs.vo Ctors.vo
Props/C08.vio: Props/C08.v Base.vio Arena.vio ArenaProofs.vio Ctors.vio
Props/C08.vos Props/C08.vok Props/C08.required_vos: Props/C08.v Base.vos Arena.vos ArenaProofs.vos Ctors.vos
Props/C09.vo Props/C09.glob Props/C09.v.beautified Props/C09.required_vo: Props/C09.v Base.vo Arena.vo Conc.vo ConcInv.vo ConcArenaProofs.vo ConcTheorems.vo
Props/C09.vio: Props/C09.v Base.vio Arena.vio Conc.vio ConcInv.vio ConcArenaProofs.vio ConcTheorems.vio
Props/C09.vos Props/C09.vok Props/C09.required_vos: Props/C09.v Base.vos Arena.vos Conc.vos ConcInv.vos ConcArenaProofs.vos ConcTheorems.vos
Props/C10.vo Props/C10.glob Props/C10.v.beautified Props/C10.required_vo: Props/C10.v Base.vo Arena.vo ArenaProofs.vo Rodeo.vo RodeoInv.vo RodeoProofs.vo ThreadedInv.vo CloneSerdeProofs.vo ThreadedProofs.vo IterEqProofs.vo WorldProofs.vo
Props/C10.vio: Props/C10.v Base.vio Arena.vio ArenaProofs.vio Rodeo.vio RodeoInv.vio RodeoProofs.vio ThreadedInv.vio CloneSerdeProofs.vio ThreadedProofs.vio IterEqProofs.vio WorldProofs.vio
Props/C10.vos Props/C10.vok Props/C10.required_vos: Props/C10.v Base.vos Arena.vos ArenaProofs.vos Rodeo.vos RodeoInv.vos RodeoProofs.vos ThreadedInv.vos CloneSerdeProofs.vos ThreadedProofs.vos IterEqProofs.vos WorldProofs.vos
Props/C11.vo Props/C11.glob Props/C11.v.beautified Props/C11.required_vo: Props/C11.v Base.vo Keys.vo
Props/C11.vio: Props/C11.v Base.vio Keys.vio
Props/C11.vos Props/C11.vok Props/C11.required_vos: Props/C11.v Base.vos Keys.vos
Props/C12.vo Props/C12.glob Props/C12.v.beautified Props/C12.required_vo: Props/C12.v Base.vo Arena.vo ArenaProofs.vo Rodeo.vo RodeoInv.vo RodeoProofs.vo ThreadedInv.vo CloneSerdeProofs.vo ThreadedProofs.vo IterEqProofs.vo WorldProofs.vo
Props/C12.vio: Props/C12.v Base.vio Arena.vio ArenaProofs.vio Rodeo.vio RodeoInv.vio RodeoProofs.vio ThreadedInv.vio CloneSerdeProofs.vio ThreadedProofs.vio IterEqProofs.vio WorldProofs.vio
Props/C12.vos Props/C12.vok Props/C12.required_vos: Props/C12.v Base.vos Arena.vos ArenaProofs.vos Rodeo.vos RodeoInv.vos RodeoProofs.vos ThreadedInv.vos CloneSerdeProofs.vos ThreadedProofs.vos IterEqProofs.vos WorldProofs.vos
Props/C13.vo Props/C13.glob Props/C13.v.beautified Props/C13.required_vo: Props/C13.v Base.vo Arena.vo ArenaProofs.vo Rodeo.vo RodeoInv.vo RodeoProofs.vo ThreadedInv.vo CloneSerdeProofs.vo ThreadedProofs.vo IterEqProofs.vo WorldProofs.vo
Props/C13.vio: Props/C13.v Base.vio Arena.vio ArenaProofs.vio Rodeo.vio RodeoInv.vio RodeoProofs.vio ThreadedInv.vio CloneSerdeProofs.vio ThreadedProofs.vio IterEqProofs.vio WorldProofs.vio
Props/C13.vos Props/C13.vok Props/C13.required_vos: Props/C13.v Base.vos Arena.vos ArenaProofs.vos Rodeo.vos RodeoInv.vos RodeoProofs.vos ThreadedInv.vos CloneSerdeProofs.vos ThreadedProofs.vos IterEqProofs.vos WorldProofs.vos
Props/C14.vo Props/C14.glob Props/C14.v.beautified Props/C14.required_vo: Props/C14.v Base.vo Arena.vo ArenaProofs.vo Rodeo.vo RodeoInv.vo RodeoProofs.vo ThreadedInv.vo CloneSerdeProofs.vo ThreadedProofs.vo IterEqProofs.vo WorldProofs.vo
Props/C14.vio: Props/C14.v Base.vio Arena.vio ArenaProofs.vio Rodeo.vio RodeoInv.vio RodeoProofs.vio ThreadedInv.vio CloneSerdeProofs.vio ThreadedProofs.vio IterEqProofs.vio WorldProofs.vio
Props/C14.vos Props/C14.vok Props/C14.required_vos: Props/C14.v Base.vos Arena.vos ArenaProofs.vos Rodeo.vos RodeoInv.vos RodeoProofs.vos ThreadedInv.vos CloneSerdeProofs.vos ThreadedProofs.vos IterEqProofs.vos WorldProofs.vos
Props/C15.vo Props/C15.glob Props/C15.v.beautified Props/C15.required_vo: Props/C15.v Base.vo Arena.vo ArenaProofs.vo Rodeo.vo RodeoInv.vo RodeoProofs.vo ThreadedInv.vo CloneSerdeProofs.vo ThreadedProofs.vo IterEqProofs.vo WorldProofs.vo
Props/C15.vio: Props/C15.v Base.vio Arena.vio ArenaProofs.vio Rodeo.vio RodeoInv.vio RodeoProofs.vio ThreadedInv.vio CloneSerdeProofs.vio ThreadedProofs.vio IterEqProofs.vio WorldProofs.vio
Props/C15.vos Props/C15.vok Props/C15.required_vos: Props/C15.v Base.vos Arena.vos ArenaProofs.vos Rodeo.vos RodeoInv.vos RodeoProofs.vos ThreadedInv.vos CloneSerdeProofs.vos ThreadedProofs.vos IterEqProofs.vos WorldProofs.vos
Props/C16.vo Props/C16.glob Props/C16.v.beautified Props/C16.required_vo: Props/C16.v Base.vo Arena.vo ArenaProofs.vo Rodeo.vo RodeoInv.vo RodeoProofs.vo ThreadedInv.vo CloneSerdeProofs.vo ThreadedProofs.vo IterEqProofs.vo WorldProofs.vo
Props/C16.vio: Props/C16.v Base.vio Arena.vio ArenaProofs.vio Rodeo.vio RodeoInv.vio RodeoProofs.vio ThreadedInv.vio CloneSerdeProofs.vio ThreadedProofs.vio IterEqProofs.vio WorldProofs.vio
Props/C16.vos Props/C16.vok Props/C16.required_vos: Props/C16.v Base.vos Arena.vos ArenaProofs.vos Rodeo.vos RodeoInv.vos RodeoProofs.vos ThreadedInv.vos CloneSerdeProofs.vos ThreadedProofs.vos IterEqProofs.vos WorldProofs.vos
Props/C17.vo Props/C17.glob Props/C17.v.beautified Props/C17.required_vo: Props/C17.v Base.vo Arena.vo ArenaProofs.vo Rodeo.vo RodeoInv.vo RodeoProofs.vo ThreadedInv.vo CloneSerdeProofs.vo ThreadedProofs.vo IterEqProofs.vo WorldProofs.vo
Props/C17.vio: Props/C17.v Base.vio Arena.vio ArenaProofs.vio Rodeo.vio RodeoInv.vio RodeoProofs.vio ThreadedInv.vio CloneSerdeProofs.vio ThreadedProofs.vio IterEqProofs.vio WorldProofs.vio
Props/C17.vos Props/C17.vok Props/C17.required_vos: Props/C17.v Base.vos Arena.vos ArenaProofs.vos Rodeo.vos RodeoInv.vos RodeoProofs.vos ThreadedInv.vos CloneSerdeProofs.vos ThreadedProofs.vos IterEqProofs.vos WorldProofs.vos
Props/C18.vo Props/C18.glob Props/C18.v.beautified Props/C18.required_vo: Props/C18.v Base.vo Arena.vo ArenaProofs.vo Rodeo.vo RodeoInv.vo RodeoProofs.vo ThreadedInv.vo CloneSerdeProofs.vo ThreadedProofs.vo IterEqProofs.vo WorldProofs.vo
Props/C18.vio: Props/C18.v Base.vio Arena.vio ArenaProofs.vio Rodeo.vio RodeoInv.vio RodeoProofs.vio ThreadedInv.vio CloneSerdeProofs.vio ThreadedProofs.vio IterEqProofs.vio WorldProofs.vio
Props/C18.vos Props/C18.vok Props/C18.required_vos: Props/C18.v Base.vos Arena.vos ArenaProofs.vos Rodeo.vos RodeoInv.vos RodeoProofs.vos ThreadedInv.vos CloneSerdeProofs.vos ThreadedProofs.vos IterEqProofs.vos WorldProofs.vos
Props/C19.vo Props/C19.glob Props/C19.v.beautified Props/C19.required_vo: Props/C19.v Facts.vo Markers.vo
Props/C19.vio: Props/C19.v Facts.vio Markers.vio
Props/C19.vos Props/C19.vok Props/C19.required_vos: Props/C19.v Facts.vos Markers.vos
Props/C20.vo Props/C20.glob Props/C20.v.beautified Props/C20.required_vo: Props/C20.v Facts.vo Loans.vo
Props/C20.vio: Props/C20.v Facts.vio Loans.vio
Props/C20.vos Props/C20.vok Props/C20.required_vos: Props/C20.v Facts.vos Loans.vos
Props/C16F.vo Props/C16F.glob Props/C16F.v.beautified Props/C16F.required_vo: Props/C16F.v Facts.vo Forward.vo
Props/C16F.vio: Props/C16F.v Facts.vio Forward.vio
Props/C16F.vos Props/C16F.vok Props/C16F.required_vos: Props/C16F.v Facts.vos Forward.vos
Props/C17F.vo Props/C17F.glob Props/C17F.v.beautified Props/C17F.required_vo: Props/C17F.v Facts.vo Forward.vo
Props/C17F.vio: Props/C17F.v Facts.vio Forward.vio
Props/C17F.vos Props/C17F.vok Props/C17F.required_vos: Props/C17F.v Facts.vos Forward.vos
